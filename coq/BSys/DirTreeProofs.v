(* Proofs about the directory-tree model (BSys/DirTree.v). *)
From LLB Require Import Base.Bytes Base.BytesFacts Base.LE Base.LEFacts Codec.Codec Codec.CodecProofs
  Codec.FileObs Codec.FileObsProofs Path.PathPrefix BSys.DirTree.
Local Open Scope N_scope.

(* ------------------------------------------------------------------ induction over the nested trees *)

Fixpoint stree_ind' (P : stree -> Prop) (HM : P SMissing)
  (HN : forall ni si cs, Forall (fun nc => P (snd nc)) cs -> P (SNode ni si cs)) (s : stree) : P s :=
  match s with
  | SMissing => HM
  | SNode ni si cs =>
    HN ni si cs ((fix go (l : list (bytes * stree)) : Forall (fun nc => P (snd nc)) l :=
                    match l with
                    | [] => Forall_nil _
                    | (n, c) :: l' => Forall_cons (n, c) (stree_ind' P HM HN c) (go l')
                    end) cs)
  end.

Fixpoint vtree_ind' (P : vtree -> Prop) (HM : P VMissing)
  (HN : forall i cs, Forall (fun nc => P (snd nc)) cs -> P (VNode i cs)) (v : vtree) : P v :=
  match v with
  | VMissing => HM
  | VNode i cs =>
    HN i cs ((fix go (l : list (bytes * vtree)) : Forall (fun nc => P (snd nc)) l :=
                match l with
                | [] => Forall_nil _
                | (n, c) :: l' => Forall_cons (n, c) (vtree_ind' P HM HN c) (go l')
                end) cs)
  end.

(* ------------------------------------------------------------------ sorting *)

Section Sorting.
Context {A : Type}.

Lemma names_insert_by_perm (P : bytes -> bool) n (x : A) l :
  forallb P (names (insert_by n x l)) = P n && forallb P (names l).
Proof.
  induction l as [|[m y] l IH]; cbn [insert_by names map fst forallb]; [reflexivity|].
  destruct (bytes_ltb n m); cbn [names map fst forallb]; [reflexivity|].
  fold (names (insert_by n x l)). rewrite IH. fold (names l).
  destruct (P n), (P m); reflexivity.
Qed.

Lemma forallb_names_sort_by (P : bytes -> bool) (l : list (bytes * A)) :
  forallb P (names (sort_by l)) = forallb P (names l).
Proof.
  induction l as [|[n x] l IH]; [reflexivity|].
  cbn [sort_by]. rewrite names_insert_by_perm, IH. reflexivity.
Qed.

Lemma sl_flat_insert_by_length n (x : A) l :
  length (sl_flat (names (insert_by n x l))) = (length n + 1 + length (sl_flat (names l)))%nat.
Proof.
  induction l as [|[m y] l IH]; cbn [insert_by names map fst sl_flat].
  - rewrite app_length. cbn [length]. lia.
  - destruct (bytes_ltb n m); cbn [names map fst sl_flat].
    + rewrite app_length. cbn [length]. rewrite app_length. cbn [length]. fold (names l). lia.
    + fold (names (insert_by n x l)). rewrite app_length. cbn [length]. rewrite IH.
      rewrite app_length. cbn [length]. fold (names l). lia.
Qed.

Lemma sl_flat_sort_by_length (l : list (bytes * A)) :
  length (sl_flat (names (sort_by l))) = length (sl_flat (names l)).
Proof.
  induction l as [|[n x] l IH]; [reflexivity|].
  cbn [sort_by]. rewrite sl_flat_insert_by_length, IH.
  cbn [names map fst sl_flat]. rewrite app_length. cbn [length]. fold (names l). lia.
Qed.

Lemma In_insert_by n (x : A) l e : In e (insert_by n x l) <-> e = (n, x) \/ In e l.
Proof.
  induction l as [|[m y] l IH]; cbn [insert_by In].
  - split; [intros [H|[]]; auto | intros [H|[]]; auto].
  - destruct (bytes_ltb n m); cbn [In]; [split; intros [H|H]; auto|].
    rewrite IH. split; [intros [H|[H|H]]; auto | intros [H|[H|H]]; auto].
Qed.

Lemma In_sort_by (l : list (bytes * A)) e : In e (sort_by l) <-> In e l.
Proof.
  induction l as [|[n x] l IH]; [tauto|].
  cbn [sort_by In]. rewrite In_insert_by, IH. split; intros [H|H]; auto.
Qed.

Lemma Forall_sort_by (P : bytes * A -> Prop) (l : list (bytes * A)) : Forall P (sort_by l) <-> Forall P l.
Proof. rewrite !Forall_forall. split; intros H e He; apply H; apply In_sort_by; exact He. Qed.

Lemma sort_by_sorted (l : list (bytes * A)) : sorted_names (names l) -> sort_by l = l.
Proof.
  induction l as [|[n x] l IH]; intros Hs; [reflexivity|].
  cbn [sort_by]. cbn [names map fst] in Hs. fold (names l) in Hs.
  inversion Hs as [|n0 Hl|n0 m l0 Hlt Hs' [Hn Hl]]; subst.
  - destruct l; [reflexivity | discriminate].
  - rewrite IH by (rewrite <- Hl; exact Hs'). destruct l as [|[m' y] l']; [discriminate|].
    cbn [names map fst] in Hl. injection Hl as Hm Hl'. subst m'.
    cbn [insert_by]. rewrite Hlt. reflexivity.
Qed.

Lemma sort_by_nil_inv (l : list (bytes * A)) : sort_by l = [] -> l = [].
Proof.
  destruct l as [|[n x] l]; [reflexivity|]. cbn [sort_by]. intros H.
  assert (Hin : In (n, x) (insert_by n x (sort_by l))) by (apply In_insert_by; auto).
  rewrite H in Hin. destruct Hin.
Qed.
End Sorting.

Lemma insert_by_map {A B : Type} (f : A -> B) n x (l : list (bytes * A)) :
  map (fun nc => (fst nc, f (snd nc))) (insert_by n x l) = insert_by n (f x) (map (fun nc => (fst nc, f (snd nc))) l).
Proof.
  induction l as [|[m y] l IH]; [reflexivity|].
  cbn [insert_by map fst snd]. destruct (bytes_ltb n m); cbn [map fst snd]; [reflexivity|].
  rewrite IH. reflexivity.
Qed.

Lemma sort_by_map {A B : Type} (f : A -> B) (l : list (bytes * A)) :
  map (fun nc => (fst nc, f (snd nc))) (sort_by l) = sort_by (map (fun nc => (fst nc, f (snd nc))) l).
Proof.
  induction l as [|[n x] l IH]; [reflexivity|].
  cbn [sort_by map fst snd]. rewrite insert_by_map, IH. reflexivity.
Qed.

Lemma names_map_snd {A B : Type} (f : A -> B) (l : list (bytes * A)) :
  names (map (fun nc => (fst nc, f (snd nc))) l) = names l.
Proof. unfold names. rewrite map_map. apply map_ext. intros [n x]. reflexivity. Qed.

(* ------------------------------------------------------------------ the encoded values *)

Lemma wf_missing_value : wf_value (mkBV VMissingInput 0 [] []).
Proof. unfold wf_value. cbn. auto. Qed.

Lemma wf_existing_value i : wf_fi i -> wf_value (mkBV VExistingInput 0 [i] []).
Proof.
  intros Hi. unfold wf_value. cbn. repeat split; auto; try (unfold u32; cbn; lia).
Qed.

Lemma wf_contents_value i ns :
  wf_fi i -> forallb nul_free ns = true -> u64 (N.of_nat (length (sl_flat ns))) ->
  wf_value (mkBV VDirectoryContents 0 [i] ns).
Proof.
  intros Hi Hn Hl. unfold wf_value. cbn. repeat split; auto; try (unfold u32; cbn; lia).
Qed.

Lemma wf_filtered_value ns :
  forallb nul_free ns = true -> u64 (N.of_nat (length (sl_flat ns))) ->
  wf_value (mkBV VFilteredDirectoryContents 0 [] ns).
Proof. intros Hn Hl. unfold wf_value. cbn. repeat split; auto. Qed.

Lemma enc_kind_neq v1 v2 : bv_kind v1 <> bv_kind v2 -> enc_value v1 <> enc_value v2.
Proof. intros Hk E. apply (cross_kind v1 v2 Hk). rewrite E. reflexivity. Qed.

Lemma existing_enc_inj i j : wf_fi i -> wf_fi j -> existing_input_enc i = existing_input_enc j -> i = j.
Proof.
  intros Hi Hj E. unfold existing_input_enc in E.
  apply enc_value_injective in E; [| apply wf_existing_value; assumption | apply wf_existing_value; assumption].
  injection E as E. exact E.
Qed.

Lemma missing_not_existing i : missing_input_enc <> existing_input_enc i.
Proof. apply enc_kind_neq. cbn. discriminate. Qed.

(* ------------------------------------------------------------------ shape of the token lists *)

Definition sub_tok (filt : bool) (p n : bytes) (c : stree) : tok :=
  match c with
  | SMissing => TNum nil_const
  | SNode ni _ _ => if isdir ni then TSub VDirectoryTreeSignature (tree_toks filt (path_append p n) c) else TNum nil_const
  end.

Definition child_toks (filt : bool) (p : bytes) (nc : bytes * stree) : list tok :=
  [TBytes (node_value_enc (snd nc)); sub_tok filt p (fst nc) (snd nc)].

Lemma tree_toks_missing filt p : tree_toks filt p SMissing = [TStr p; TBytes missing_input_enc].
Proof. reflexivity. Qed.

Lemma tree_toks_node filt p ni si cs :
  tree_toks filt p (SNode ni si cs) =
  TStr p :: TBytes (dir_value_enc filt (SNode ni si cs)) ::
  (if filt && negb (isdir si) then [] else flat_map (child_toks filt p) cs).
Proof.
  cbn [tree_toks]. do 2 f_equal. destruct (filt && negb (isdir si)); [reflexivity|].
  apply flat_map_ext. intros [n c]. unfold child_toks, sub_tok. cbn [fst snd]. destruct c; reflexivity.
Qed.

Lemma flat_map_pairs_inj {A : Type} (f g : A -> list tok) l1 l2 :
  length l1 = length l2 ->
  (forall a, length (f a) = 2%nat) -> (forall a, length (g a) = 2%nat) ->
  flat_map f l1 = flat_map g l2 -> Forall2 (fun a b => f a = g b) l1 l2.
Proof.
  revert l2. induction l1 as [|a l1 IH]; intros [|b l2] Hlen Hf Hg E; try discriminate; [constructor|].
  cbn [flat_map] in E. cbn [length] in Hlen.
  assert (Hab : f a = g b /\ flat_map f l1 = flat_map g l2).
  { specialize (Hf a). specialize (Hg b).
    destruct (f a) as [|x1 [|x2 [|? ?]]]; try discriminate.
    destruct (g b) as [|y1 [|y2 [|? ?]]]; try discriminate.
    cbn [app] in E. injection E as E1 E2 E3. subst. auto. }
  destruct Hab as [Hab Hrest]. constructor; [exact Hab|].
  apply IH; auto.
Qed.

Lemma toks2_inj (a a' : tok) (b b' : bytes) (l l' : list tok) :
  a :: TBytes b :: l = a' :: TBytes b' :: l' -> b = b' /\ l = l'.
Proof. intros H. injection H as _ Hb Hl. auto. Qed.

Lemma tsub_inj k (l l' : list tok) : TSub k l = TSub k l' -> l = l'.
Proof. intros H. injection H as H. exact H. Qed.

Lemma pair_toks_inj (b b' : bytes) (x x' : tok) : [TBytes b; x] = [TBytes b'; x'] -> b = b' /\ x = x'.
Proof. intros H. injection H as Hb Hx. auto. Qed.

(* ------------------------------------------------------------------ the tree signature sees exactly the Node records *)

Lemma eff_node_value s1 s2 : eff s1 = eff s2 -> node_value_enc s1 = node_value_enc s2.
Proof. destruct s1, s2; cbn [eff]; intros E; try discriminate; [reflexivity|]. injection E as E _. subst. reflexivity. Qed.

Lemma names_eff_children (cs : list (bytes * stree)) :
  names (map (fun nc : bytes * stree => (fst nc, eff (snd nc))) cs) = names cs.
Proof. apply names_map_snd. Qed.

(* equal records -> equal tokens (unfiltered) *)
Lemma tree_toks_of_eff s1 : forall s2 p, eff s1 = eff s2 -> tree_toks false p s1 = tree_toks false p s2.
Proof.
  induction s1 as [|ni1 si1 cs1 IH] using stree_ind'; intros [|ni2 si2 cs2] p E; cbn [eff] in E; try discriminate; [reflexivity|].
  injection E as Ei Ec. subst ni2.
  rewrite !tree_toks_node. cbn [andb dir_value_enc].
  assert (Hn : names cs1 = names cs2).
  { rewrite <- (names_eff_children cs1), <- (names_eff_children cs2), Ec. reflexivity. }
  rewrite Hn. do 2 f_equal.
  clear Hn. revert cs2 Ec. induction cs1 as [|[n1 c1] cs1 IHl]; intros [|[n2 c2] cs2] Ec; cbn [map] in Ec; try discriminate; [reflexivity|].
  cbn [fst snd] in Ec. injection Ec as En Ece Ecs. subst n2.
  inversion IH as [|? ? IHc IHcs]; subst.
  cbn [flat_map]. f_equal; [| apply IHl; assumption].
  unfold child_toks. cbn [fst snd]. rewrite (eff_node_value _ _ Ece). do 2 f_equal.
  unfold sub_tok. cbn [snd] in IHc.
  destruct c1 as [|a1 b1 d1], c2 as [|a2 b2 d2]; cbn [eff] in Ece; try discriminate; [reflexivity|].
  injection Ece as Ea Ed. subst a2.
  destruct (isdir a1); [|reflexivity].
  f_equal. apply IHc. cbn [eff]. rewrite Ed. reflexivity.
Qed.

Lemma wf_s_children (cs : list (bytes * stree)) :
  Forall (fun nc : bytes * vtree => wf_v (snd nc)) (map (fun nc : bytes * stree => (fst nc, eff (snd nc))) cs) ->
  Forall (fun nc : bytes * stree => wf_s (snd nc)) cs.
Proof.
  induction cs as [|[n c] cs IH]; intros H; [constructor|].
  cbn [map fst snd] in H. inversion H as [|? ? Hh Ht]; subst. constructor; [exact Hh | apply IH; exact Ht].
Qed.

(* equal tokens -> equal records (unfiltered), for well-formed states *)
Lemma tree_toks_inj s1 : forall s2 p, wf_s s1 -> wf_s s2 ->
  tree_toks false p s1 = tree_toks false p s2 -> eff s1 = eff s2.
Proof.
  induction s1 as [|ni1 si1 cs1 IH] using stree_ind'; intros [|ni2 si2 cs2] p W1 W2 E.
  - reflexivity.
  - exfalso. rewrite tree_toks_missing, tree_toks_node in E. apply toks2_inj in E. destruct E as [E _].
    cbn [dir_value_enc] in E. revert E. apply enc_kind_neq. cbn. discriminate.
  - exfalso. rewrite tree_toks_missing, tree_toks_node in E. apply toks2_inj in E. destruct E as [E _].
    cbn [dir_value_enc] in E. symmetry in E. revert E. apply enc_kind_neq. cbn. discriminate.
  - rewrite !tree_toks_node in E. cbn [andb dir_value_enc] in E. apply toks2_inj in E. destruct E as [Ed Ec].
    unfold wf_s in W1, W2. cbn [eff] in W1, W2.
    inversion W1 as [|? ? Wi1 Wd1 Wn1 Wl1 Wc1]; subst. inversion W2 as [|? ? Wi2 Wd2 Wn2 Wl2 Wc2]; subst.
    rewrite names_eff_children in Wn1, Wl1, Wn2, Wl2.
    apply enc_value_injective in Ed; [| apply wf_contents_value; assumption | apply wf_contents_value; assumption].
    injection Ed as Ei En. subst ni2.
    cbn [eff]. f_equal.
    apply wf_s_children in Wc1. apply wf_s_children in Wc2.
    assert (Hlen : length cs1 = length cs2).
    { unfold names in En. rewrite <- (map_length fst cs1), <- (map_length fst cs2), En. reflexivity. }
    apply flat_map_pairs_inj in Ec; [| exact Hlen | reflexivity | reflexivity].
    clear Hlen Wd1 Wd2 Wn1 Wn2 Wl1 Wl2 W1 W2.
    revert cs2 En Ec Wc2. induction cs1 as [|[n1 c1] cs1 IHl]; intros [|[n2 c2] cs2] En Ec Wc2; cbn [names map] in En; try discriminate; [reflexivity|].
    cbn [fst] in En. injection En as En Ens. subst n2.
    inversion Ec as [|? ? ? ? Eh Et]; subst. inversion IH as [|? ? IHc IHcs]; subst.
    inversion Wc1 as [|? ? Wc1h Wc1t]; subst. inversion Wc2 as [|? ? Wc2h Wc2t]; subst.
    cbn [map fst snd]. f_equal; [| apply IHl; assumption].
    f_equal. cbn [snd] in IHc, Wc1h, Wc2h.
    unfold child_toks in Eh. cbn [fst snd] in Eh. apply pair_toks_inj in Eh. destruct Eh as [Ev Es].
    destruct c1 as [|a1 b1 d1], c2 as [|a2 b2 d2]; cbn [node_value_enc] in Ev.
    + reflexivity.
    + exfalso. exact (missing_not_existing _ Ev).
    + exfalso. symmetry in Ev. exact (missing_not_existing _ Ev).
    + unfold wf_s in Wc1h, Wc2h. cbn [eff] in Wc1h, Wc2h.
      inversion Wc1h as [|? ? Wa1 Wdd1 _ _ _]; subst. inversion Wc2h as [|? ? Wa2 Wdd2 _ _ _]; subst.
      apply existing_enc_inj in Ev; [| assumption | assumption]. subst a2.
      unfold sub_tok in Es. destruct (isdir a1) eqn:Hd.
      * apply tsub_inj in Es. apply IHc in Es; assumption.
      * cbn [eff]. f_equal.
        rewrite Wdd1, Wdd2 by reflexivity. reflexivity.
Qed.

(* ------------------------------------------------------------------ clean builds *)

Lemma flat_map_singleton {A B : Type} (f : A -> B) (l : list A) : flat_map (fun x => [f x]) l = map f l.
Proof. induction l as [|a l IH]; [reflexivity|]. cbn [flat_map map app]. rewrite IH. reflexivity. Qed.

Lemma map_pair_ext_Forall {A B : Type} (f g : A -> B) (l : list (bytes * A)) :
  Forall (fun nc => f (snd nc) = g (snd nc)) l ->
  map (fun nc => (fst nc, f (snd nc))) l = map (fun nc => (fst nc, g (snd nc))) l.
Proof. induction 1 as [|[n c] l H _ IH]; [reflexivity|]. cbn [map fst snd] in *. rewrite H, IH. reflexivity. Qed.

Section WithMatch.
Variable matches : bytes -> bytes -> bool.

Definition kept (flt : list bytes) (nc : bytes * vtree) : list (bytes * stree) :=
  if excluded matches flt (fst nc) then [] else [(fst nc, clean_build matches flt (snd nc))].

Lemma clean_build_node flt i cs :
  clean_build matches flt (VNode i cs) = SNode i i (sort_by (flat_map (kept flt) cs)).
Proof.
  unfold clean_build. cbn [rebuild s_children carry listing_reused]. rewrite andb_false_r.
  do 2 f_equal. apply flat_map_ext. intros [n c]. unfold kept, clean_build. cbn [fst snd lookup]. reflexivity.
Qed.

Lemma clean_build_missing flt : clean_build matches flt VMissing = SMissing.
Proof. reflexivity. Qed.

(* a clean unfiltered build records the tree itself, sorted *)
Lemma eff_clean_build v : eff (clean_build matches [] v) = canon v.
Proof.
  induction v as [|i cs IH] using vtree_ind'; [reflexivity|].
  rewrite clean_build_node. cbn [eff canon]. f_equal.
  rewrite sort_by_map. f_equal.
  unfold kept. cbn [excluded existsb]. rewrite flat_map_singleton, map_map. cbn [fst snd].
  apply (map_pair_ext_Forall (fun x => eff (clean_build matches [] x)) canon). exact IH.
Qed.

(* a clean filtered build is the clean unfiltered build of the pruned tree *)
Lemma clean_build_prune flt v : clean_build matches flt v = clean_build matches [] (prune matches flt v).
Proof.
  induction v as [|i cs IH] using vtree_ind'; [reflexivity|].
  cbn [prune]. rewrite !clean_build_node. do 2 f_equal.
  induction cs as [|[n c] cs IHl]; [reflexivity|].
  inversion IH as [|? ? IHc IHcs]; subst. cbn [snd] in IHc.
  cbn [flat_map]. unfold kept at 1. cbn [fst snd].
  destruct (excluded matches flt n) eqn:Ex.
  - cbn [app]. apply IHl. exact IHcs.
  - cbn [app flat_map]. unfold kept at 2. cbn [fst snd excluded existsb app].
    rewrite IHc. f_equal. apply IHl. exact IHcs.
Qed.

Lemma wf_v_canon v : wf_v v -> wf_v (canon v).
Proof.
  induction v as [|i cs IH] using vtree_ind'; intros W; [constructor|].
  inversion W as [|? ? Wi Wd Wn Wl Wc]; subst. cbn [canon]. constructor.
  - exact Wi.
  - intros Hd. rewrite (Wd Hd). reflexivity.
  - rewrite forallb_names_sort_by, names_map_snd. exact Wn.
  - rewrite sl_flat_sort_by_length, names_map_snd. exact Wl.
  - apply Forall_sort_by. apply Forall_map. cbn [snd].
    rewrite Forall_forall in *. intros nc Hin. apply IH; [exact Hin | apply Wc; exact Hin].
Qed.

Lemma canon_sorted v : sorted_v v -> canon v = v.
Proof.
  induction v as [|i cs IH] using vtree_ind'; intros S; [reflexivity|].
  inversion S as [|? ? Sn Sc]; subst. cbn [canon]. f_equal.
  assert (E : map (fun nc : bytes * vtree => (fst nc, canon (snd nc))) cs = cs).
  { clear Sn S. induction cs as [|[n c] cs IHl]; [reflexivity|].
    inversion IH as [|? ? IHc IHcs]; subst. inversion Sc as [|? ? Sch Sct]; subst.
    cbn [map fst snd] in *. rewrite (IHc Sch), (IHl IHcs Sct). reflexivity. }
  rewrite E. apply sort_by_sorted. exact Sn.
Qed.

(* ---- the tree signature is injective: equal tokens <-> the same tree up to the order of the entries *)

Theorem tree_tokens_injective p v1 v2 : wf_v v1 -> wf_v v2 ->
  (tree_tokens matches [] p v1 = tree_tokens matches [] p v2 <-> canon v1 = canon v2).
Proof.
  intros W1 W2. unfold tree_tokens. cbn [nonempty]. split.
  - intros E. rewrite <- !eff_clean_build. apply (tree_toks_inj _ _ p); [| | exact E].
    + unfold wf_s. rewrite eff_clean_build. apply wf_v_canon. exact W1.
    + unfold wf_s. rewrite eff_clean_build. apply wf_v_canon. exact W2.
  - intros E. apply tree_toks_of_eff. rewrite !eff_clean_build. exact E.
Qed.

Corollary tree_tokens_injective_sorted p v1 v2 : wf_v v1 -> wf_v v2 -> sorted_v v1 -> sorted_v v2 ->
  (tree_tokens matches [] p v1 = tree_tokens matches [] p v2 <-> v1 = v2).
Proof.
  intros W1 W2 S1 S2. rewrite (tree_tokens_injective p v1 v2 W1 W2), (canon_sorted v1 S1), (canon_sorted v2 S2). tauto.
Qed.

(* equal trees (up to entry order) give equal tokens: no hypothesis at all *)
Theorem tree_sig_stable p v1 v2 : canon v1 = canon v2 -> tree_tokens matches [] p v1 = tree_tokens matches [] p v2.
Proof.
  intros E. unfold tree_tokens. apply tree_toks_of_eff. rewrite !eff_clean_build. exact E.
Qed.

(* ---- filters: the filtered signature is the filtered-mode signature of the pruned tree *)

Theorem filtered_tokens_pruned flt p v :
  tree_tokens matches flt p v = tree_toks (nonempty flt) p (clean_build matches [] (prune matches flt v)).
Proof. unfold tree_tokens. rewrite clean_build_prune. reflexivity. Qed.

Theorem filtered_struct_tokens_pruned flt p v :
  struct_tokens matches flt p v = struct_toks (nonempty flt) p (clean_build matches [] (prune matches flt v)).
Proof. unfold struct_tokens. rewrite clean_build_prune. reflexivity. Qed.

(* whatever happens beneath excluded names cannot be seen *)
Corollary excluded_edits_invisible flt p v1 v2 : prune matches flt v1 = prune matches flt v2 ->
  tree_tokens matches flt p v1 = tree_tokens matches flt p v2 /\
  struct_tokens matches flt p v1 = struct_tokens matches flt p v2.
Proof. intros E. rewrite !filtered_tokens_pruned, !filtered_struct_tokens_pruned, E. split; reflexivity. Qed.

Lemma In_names_flat_map_kept flt cs n :
  In n (names (flat_map (kept flt) cs)) <-> In n (names cs) /\ excluded matches flt n = false.
Proof.
  induction cs as [|[m c] cs IH]; cbn [flat_map names map In]; [tauto|].
  unfold names in *. rewrite map_app, in_app_iff, IH. unfold kept. cbn [fst snd].
  destruct (excluded matches flt m) eqn:Ex; cbn [map In fst].
  - split; [intros [[]|[H1 H2]]; auto | intros [[H|H] H2]; [subst; congruence | auto]].
  - split; [intros [[H|[]]|[H1 H2]]; [subst; auto | auto] | intros [[H|H] H2]; auto].
Qed.

Lemma In_names_sort_by {A : Type} (l : list (bytes * A)) n : In n (names (sort_by l)) <-> In n (names l).
Proof.
  unfold names. rewrite !in_map_iff. split; intros [e [He Hin]]; exists e; (split; [exact He|]); apply In_sort_by; exact Hin.
Qed.

(* a name is missing from the recorded listing exactly when a pattern matches it *)
Theorem listing_exact flt i cs n :
  In n (listing matches flt (VNode i cs)) <-> In n (names cs) /\ excluded matches flt n = false.
Proof.
  unfold listing. rewrite clean_build_node. cbn [s_children]. rewrite In_names_sort_by. apply In_names_flat_map_kept.
Qed.

Theorem excluded_spec flt n : excluded matches flt n = true <-> exists pat, In pat flt /\ matches pat n = true.
Proof. unfold excluded. apply existsb_exists. Qed.

Theorem listing_is_filtered flt i cs n : In n (listing matches flt (VNode i cs)) <-> In n (filtered_listing matches flt (names cs)).
Proof.
  rewrite listing_exact. unfold filtered_listing. rewrite filter_In. rewrite negb_true_iff. tauto.
Qed.
End WithMatch.

(* ------------------------------------------------------------------ single edits change the tree *)

Lemma app_insert_neq {A : Type} (l1 l2 : list A) x : l1 ++ l2 <> l1 ++ x :: l2.
Proof. intros E. apply (f_equal (@length A)) in E. rewrite !app_length in E. cbn [length] in E. lia. Qed.

Lemma names_app {A : Type} (l1 l2 : list (bytes * A)) : names (l1 ++ l2) = names l1 ++ names l2.
Proof. unfold names. apply map_app. Qed.

Lemma edit1_changes v v' : edit1 v v' -> v <> v'.
Proof.
  induction 1 as [i j cs Hij | i l1 l2 n c Hn | i l1 l2 n c Hn | i l1 l2 m1 m2 n n' c Hm Hn' | i l1 l2 n c c' Hc | i l1 l2 n c c' He IH];
    intros E; injection E as E.
  - contradiction.
  - exact (app_insert_neq _ _ _ E).
  - symmetry in E. exact (app_insert_neq _ _ _ E).
  - apply Hn'. rewrite E. rewrite names_app. apply in_or_app. right. cbn [names map fst]. left. reflexivity.
  - apply app_inv_head in E. injection E as E. contradiction.
  - apply app_inv_head in E. injection E as E. contradiction.
Qed.

Section Detect.
Variable matches : bytes -> bytes -> bool.

(* any single edit, at any depth, changes the tokens of the tree signature *)
Theorem tree_sig_detects p v v' : wf_v v -> wf_v v' -> sorted_v v -> sorted_v v' ->
  edit1 v v' -> tree_tokens matches [] p v <> tree_tokens matches [] p v'.
Proof.
  intros W W' S S' Ed E. apply (tree_tokens_injective_sorted matches p v v' W W' S S') in E.
  exact (edit1_changes v v' Ed E).
Qed.
End Detect.

(* ------------------------------------------------------------------ the structure signature *)

Lemma app_eq_length {A : Type} (a b c d : list A) : length a = length b -> a ++ c = b ++ d -> a = b /\ c = d.
Proof.
  revert b. induction a as [|x a IH]; intros [|y b] Hl E; try discriminate; [auto|].
  cbn [app] in E. injection E as Ex E. cbn [length] in Hl. destruct (IH b) as [H1 H2]; [lia | exact E |]. subst. auto.
Qed.

Lemma flat_map_const_inj {A : Type} (k : nat) (f g : A -> list tok) l1 l2 :
  length l1 = length l2 ->
  (forall a, length (f a) = k) -> (forall a, length (g a) = k) ->
  flat_map f l1 = flat_map g l2 -> Forall2 (fun a b => f a = g b) l1 l2.
Proof.
  revert l2. induction l1 as [|a l1 IH]; intros [|b l2] Hlen Hf Hg E; try discriminate; [constructor|].
  cbn [flat_map] in E. cbn [length] in Hlen.
  apply app_eq_length in E; [| rewrite Hf, Hg; reflexivity].
  destruct E as [Hab Hrest]. constructor; [exact Hab | apply IH; auto].
Qed.

Lemma flat_map_const_length {A : Type} (k : nat) (f : A -> list tok) l :
  (forall a, length (f a) = k) -> length (flat_map f l) = (k * length l)%nat.
Proof.
  intros Hf. induction l as [|a l IH]; cbn [flat_map length]; [lia|].
  rewrite app_length, Hf, IH. lia.
Qed.

Definition ssub_tok (mk : N -> N) (filt : bool) (p n : bytes) (c : stree) : tok :=
  match c with
  | SMissing => TNum nil_const
  | SNode ni _ _ => if isdir ni then TSub VDirectoryTreeStructureSignature (struct_toks_gen mk filt (path_append p n) c)
                    else TNum nil_const
  end.

Definition skind_tok (mk : N -> N) (c : stree) : tok :=
  match c with SMissing => TBytes missing_input_enc | SNode ni _ _ => TNum (mk (fi_mode ni)) end.

Definition schild_toks (mk : N -> N) (filt : bool) (p : bytes) (nc : bytes * stree) : list tok :=
  [TStr (fst nc); skind_tok mk (snd nc); ssub_tok mk filt p (fst nc) (snd nc)].

Lemma struct_toks_missing mk filt p : struct_toks_gen mk filt p SMissing = [TStr p; TBytes missing_input_enc].
Proof. reflexivity. Qed.

Lemma struct_toks_node mk filt p ni si cs :
  struct_toks_gen mk filt p (SNode ni si cs) =
  TStr p :: struct_dir_tok mk filt (SNode ni si cs) ::
  (if filt && negb (isdir si) then [] else flat_map (schild_toks mk filt p) cs).
Proof.
  cbn [struct_toks_gen]. do 2 f_equal. destruct (filt && negb (isdir si)); [reflexivity|].
  apply flat_map_ext. intros [n c]. unfold schild_toks, skind_tok, ssub_tok. cbn [fst snd]. destruct c; reflexivity.
Qed.

Lemma triple_toks_inj (a a' : bytes) (x x' y y' : tok) : [TStr a; x; y] = [TStr a'; x'; y'] -> a = a' /\ x = x' /\ y = y'.
Proof. intros H. injection H as Ha Hx Hy. auto. Qed.

Lemma cons2_inj (a a' x x' : tok) (l l' : list tok) : a :: x :: l = a' :: x' :: l' -> x = x' /\ l = l'.
Proof. intros H. injection H as _ Hx Hl. auto. Qed.

Lemma tnum_inj a b : TNum a = TNum b -> a = b.
Proof. intros H. injection H as H. exact H. Qed.

Section StructGen.
Variable mk : N -> N.
(* what is kept of a mode decides "is a directory" (bit 14) *)
Hypothesis mk_dir : forall a b, mk a = mk b -> N.testbit a 14 = N.testbit b 14.

Lemma shape_root_kind s1 s2 : shape_gen mk (eff s1) = shape_gen mk (eff s2) -> skind_tok mk s1 = skind_tok mk s2.
Proof.
  destruct s1, s2; cbn [eff shape_gen skind_tok]; intros E; try discriminate; [reflexivity|].
  injection E as E _. rewrite E. reflexivity.
Qed.

Lemma names_shape_children (cs : list (bytes * vtree)) :
  names (map (fun nc : bytes * vtree => (fst nc, shape_gen mk (snd nc))) cs) = names cs.
Proof. apply names_map_snd. Qed.

(* equal shapes -> equal structure tokens *)
Lemma struct_toks_of_shape s1 : forall s2 p, shape_gen mk (eff s1) = shape_gen mk (eff s2) ->
  struct_toks_gen mk false p s1 = struct_toks_gen mk false p s2.
Proof.
  induction s1 as [|ni1 si1 cs1 IH] using stree_ind'; intros [|ni2 si2 cs2] p E; cbn [eff shape_gen] in E; try discriminate; [reflexivity|].
  injection E as Em Ec.
  rewrite !struct_toks_node. cbn [andb struct_dir_tok]. rewrite Em. do 2 f_equal.
  rewrite !map_map in Ec. cbn [fst snd] in Ec.
  revert cs2 Ec. induction cs1 as [|[n1 c1] cs1 IHl]; intros [|[n2 c2] cs2] Ec; cbn [map] in Ec; try discriminate; [reflexivity|].
  cbn [fst snd] in Ec. injection Ec as En Ece Ecs. subst n2.
  inversion IH as [|? ? IHc IHcs]; subst. cbn [snd] in IHc.
  cbn [flat_map]. f_equal; [| apply IHl; assumption].
  unfold schild_toks. cbn [fst snd]. rewrite (shape_root_kind _ _ Ece). do 3 f_equal.
  unfold ssub_tok.
  destruct c1 as [|a1 b1 d1], c2 as [|a2 b2 d2]; cbn [eff shape_gen] in Ece; try discriminate; [reflexivity|].
  assert (Hd : isdir a1 = isdir a2) by (unfold isdir; apply mk_dir; injection Ece as Ea _; exact Ea).
  rewrite <- Hd. destruct (isdir a1); [|reflexivity].
  apply f_equal. apply IHc. cbn [eff shape_gen]. exact Ece.
Qed.

(* equal structure tokens -> equal shapes, when only directories have entries *)
Lemma struct_toks_inj s1 : forall s2 p, wf_s s1 -> wf_s s2 ->
  struct_toks_gen mk false p s1 = struct_toks_gen mk false p s2 -> shape_gen mk (eff s1) = shape_gen mk (eff s2).
Proof.
  induction s1 as [|ni1 si1 cs1 IH] using stree_ind'; intros [|ni2 si2 cs2] p W1 W2 E.
  - reflexivity.
  - exfalso. rewrite struct_toks_missing, struct_toks_node in E. apply cons2_inj in E. destruct E as [E _].
    cbn [struct_dir_tok] in E. discriminate E.
  - exfalso. rewrite struct_toks_missing, struct_toks_node in E. apply cons2_inj in E. destruct E as [E _].
    cbn [struct_dir_tok] in E. discriminate E.
  - rewrite !struct_toks_node in E. cbn [andb struct_dir_tok] in E. apply cons2_inj in E. destruct E as [Em Ec].
    apply tnum_inj in Em.
    unfold wf_s in W1, W2. cbn [eff] in W1, W2.
    inversion W1 as [|? ? _ _ _ _ Wc1]; subst. inversion W2 as [|? ? _ _ _ _ Wc2]; subst.
    apply wf_s_children in Wc1. apply wf_s_children in Wc2.
    cbn [eff shape_gen]. rewrite Em. f_equal. rewrite !map_map. cbn [fst snd].
    assert (Hlen : length cs1 = length cs2).
    { apply (f_equal (@length tok)) in Ec.
      rewrite (flat_map_const_length 3), (flat_map_const_length 3) in Ec by reflexivity. lia. }
    apply (flat_map_const_inj 3) in Ec; [| exact Hlen | reflexivity | reflexivity].
    clear Hlen W1 W2 Em.
    revert cs2 Ec Wc2. induction cs1 as [|[n1 c1] cs1 IHl]; intros [|[n2 c2] cs2] Ec Wc2; inversion Ec as [|? ? ? ? Eh Et]; subst; [reflexivity|].
    inversion IH as [|? ? IHc IHcs]; subst.
    inversion Wc1 as [|? ? Wc1h Wc1t]; subst. inversion Wc2 as [|? ? Wc2h Wc2t]; subst.
    cbn [snd] in IHc, Wc1h, Wc2h.
    unfold schild_toks in Eh. cbn [fst snd] in Eh. apply triple_toks_inj in Eh. destruct Eh as [En [Ek Es]]. subst n2.
    cbn [map fst snd]. f_equal; [| apply IHl; assumption].
    f_equal.
    destruct c1 as [|a1 b1 d1], c2 as [|a2 b2 d2]; cbn [skind_tok] in Ek; try discriminate Ek; [reflexivity|].
    apply tnum_inj in Ek.
    assert (Hd : isdir a1 = isdir a2) by (unfold isdir; apply mk_dir; exact Ek).
    unfold ssub_tok in Es. rewrite <- Hd in Es.
    destruct (isdir a1) eqn:Hd1.
    + apply tsub_inj in Es. apply IHc in Es; assumption.
    + unfold wf_s in Wc1h, Wc2h. cbn [eff] in Wc1h, Wc2h.
      inversion Wc1h as [|? ? _ Wdd1 _ _ _]; subst. inversion Wc2h as [|? ? _ Wdd2 _ _ _]; subst.
      cbn [eff shape_gen]. rewrite Ek. f_equal.
      rewrite Wdd1 by exact Hd1. rewrite Wdd2 by (rewrite <- Hd; reflexivity). reflexivity.
Qed.
End StructGen.

Lemma type_bits_dir a b : type_bits a = type_bits b -> N.testbit a 14 = N.testbit b 14.
Proof.
  unfold type_bits, s_ifmt. intros E.
  assert (Ha : N.testbit (N.land a 61440) 14 = N.testbit a 14) by (rewrite N.land_spec; cbn; apply andb_true_r).
  assert (Hb : N.testbit (N.land b 61440) 14 = N.testbit b 14) by (rewrite N.land_spec; cbn; apply andb_true_r).
  rewrite <- Ha, <- Hb, E. reflexivity.
Qed.

Lemma shape_gen_sort_by mk (cs : list (bytes * vtree)) :
  map (fun nc : bytes * vtree => (fst nc, shape_gen mk (snd nc))) (sort_by cs) =
  sort_by (map (fun nc : bytes * vtree => (fst nc, shape_gen mk (snd nc))) cs).
Proof. apply sort_by_map. Qed.

Section StructTrees.
Variable matches : bytes -> bytes -> bool.

(* ---- the structure signature is injective on names and file types *)
Theorem struct_tokens_injective p v1 v2 : wf_v v1 -> wf_v v2 ->
  (struct_tokens matches [] p v1 = struct_tokens matches [] p v2 <-> shape_of (canon v1) = shape_of (canon v2)).
Proof.
  intros W1 W2. unfold struct_tokens, struct_toks, shape_of. cbn [nonempty]. split.
  - intros E. rewrite <- !eff_clean_build with (matches := matches).
    apply (struct_toks_inj type_bits type_bits_dir _ _ p); [| | exact E].
    + unfold wf_s. rewrite eff_clean_build. apply wf_v_canon. exact W1.
    + unfold wf_s. rewrite eff_clean_build. apply wf_v_canon. exact W2.
  - intros E. apply (struct_toks_of_shape type_bits type_bits_dir). rewrite !eff_clean_build. exact E.
Qed.

Corollary struct_tokens_injective_sorted p v1 v2 : wf_v v1 -> wf_v v2 -> sorted_v v1 -> sorted_v v2 ->
  (struct_tokens matches [] p v1 = struct_tokens matches [] p v2 <-> shape_of v1 = shape_of v2).
Proof.
  intros W1 W2 S1 S2. rewrite (struct_tokens_injective p v1 v2 W1 W2), (canon_sorted v1 S1), (canon_sorted v2 S2). tauto.
Qed.

Lemma same_structure_shape v1 : forall v2, same_structure v1 v2 -> shape_of v1 = shape_of v2.
Proof.
  induction v1 as [|i cs IH] using vtree_ind'; intros v2 Hs; inversion Hs as [|? j ? ds Ht Hc]; subst; [reflexivity|].
  unfold shape_of. cbn [shape_gen]. rewrite Ht. f_equal.
  clear Hs Ht. revert ds Hc. induction cs as [|[n c] cs IHl]; intros ds Hc; inversion Hc as [|? [m d] ? ds' [Hn Hcd] Ht]; subst; [reflexivity|].
  inversion IH as [|? ? IHc IHcs]; subst. cbn [fst snd] in *. subst m.
  cbn [map fst snd]. f_equal; [| apply IHl; assumption].
  f_equal. apply IHc. exact Hcd.
Qed.

(* changes of size, times, inode, device or permission bits alone are invisible to the structure signature *)
Theorem structure_ignores_content p v1 v2 : sorted_v v1 -> sorted_v v2 -> same_structure v1 v2 ->
  struct_tokens matches [] p v1 = struct_tokens matches [] p v2.
Proof.
  intros S1 S2 Hs. unfold struct_tokens, struct_toks. cbn [nonempty].
  apply (struct_toks_of_shape type_bits type_bits_dir). rewrite !eff_clean_build, (canon_sorted v1 S1), (canon_sorted v2 S2).
  apply same_structure_shape. exact Hs.
Qed.
End StructTrees.

Lemma map_shape_app mk (l1 l2 : list (bytes * vtree)) :
  map (fun nc : bytes * vtree => (fst nc, shape_gen mk (snd nc))) (l1 ++ l2) =
  map (fun nc : bytes * vtree => (fst nc, shape_gen mk (snd nc))) l1 ++
  map (fun nc : bytes * vtree => (fst nc, shape_gen mk (snd nc))) l2.
Proof. apply map_app. Qed.

Lemma shape_missing_inv v : shape_of v = ShMissing -> v = VMissing.
Proof. destruct v; [reflexivity | discriminate]. Qed.

Lemma sedit1_changes v v' : sedit1 v v' -> shape_of v <> shape_of v'.
Proof.
  induction 1 as [i j cs Hij | i j l1 l2 n c Hn | i j l1 l2 n c Hn | i j l1 l2 m1 m2 n n' c Hm Hn' | i j l1 l2 n c Hc | i j l1 l2 n c Hc | i j l1 l2 n c c' He IH];
    unfold shape_of in *; cbn [shape_gen]; intros E.
  - injection E as Et. contradiction.
  - injection E as _ E. rewrite !map_shape_app in E. cbn [map] in E. exact (app_insert_neq _ _ _ E).
  - injection E as _ E. rewrite !map_shape_app in E. cbn [map] in E. symmetry in E. exact (app_insert_neq _ _ _ E).
  - injection E as _ E. apply Hn'. apply (f_equal names) in E. rewrite !names_map_snd in E. rewrite E.
    rewrite names_app. apply in_or_app. right. cbn [names map fst]. left. reflexivity.
  - injection E as _ E. rewrite !map_shape_app in E. cbn [map fst snd] in E. apply app_inv_head in E. injection E as E.
    apply Hc. apply shape_missing_inv. unfold shape_of. symmetry. exact E.
  - injection E as _ E. rewrite !map_shape_app in E. cbn [map fst snd] in E. apply app_inv_head in E. injection E as E.
    apply Hc. apply shape_missing_inv. unfold shape_of. exact E.
  - injection E as _ E. rewrite !map_shape_app in E. cbn [map fst snd] in E. apply app_inv_head in E. injection E as E. contradiction.
Qed.

Section StructDetect.
Variable matches : bytes -> bytes -> bool.

(* an entry added, removed, renamed or retyped, at any depth, changes the tokens of the structure signature *)
Theorem structure_detects p v v' : wf_v v -> wf_v v' -> sorted_v v -> sorted_v v' ->
  sedit1 v v' -> struct_tokens matches [] p v <> struct_tokens matches [] p v'.
Proof.
  intros W W' S S' Ed E. apply (struct_tokens_injective_sorted matches p v v' W W' S S') in E.
  exact (sedit1_changes v v' Ed E).
Qed.
End StructDetect.

(* ------------------------------------------------------------------ from tokens to the 64-bit signature *)

Fixpoint tok_ind' (P : tok -> Prop) (HS : forall s, P (TStr s)) (HB : forall b, P (TBytes b)) (HN : forall n, P (TNum n))
  (HSub : forall k l, Forall P l -> P (TSub k l)) (t : tok) : P t :=
  match t with
  | TStr s => HS s
  | TBytes b => HB b
  | TNum n => HN n
  | TSub k l => HSub k l ((fix go (l : list tok) : Forall P l :=
                             match l with [] => Forall_nil _ | t :: l' => Forall_cons t (tok_ind' P HS HB HN HSub t) (go l') end) l)
  end.

Lemma tok_ok_sub k l : tok_ok (TSub k l) <-> (k = VDirectoryTreeSignature \/ k = VDirectoryTreeStructureSignature) /\ Forall tok_ok l.
Proof.
  cbn [tok_ok]. assert (H : (fix all (l : list tok) : Prop := match l with [] => True | t :: l' => tok_ok t /\ all l' end) l <-> Forall tok_ok l).
  { induction l as [|t l IH]; [split; [constructor | trivial]|].
    split; [intros [H1 H2]; constructor; [exact H1 | apply IH; exact H2] | intros H; inversion H; subst; split; [assumption | apply IH; assumption]]. }
  rewrite H. tauto.
Qed.

Lemma wf_sig_value k h : (k = VDirectoryTreeSignature \/ k = VDirectoryTreeStructureSignature) -> u64 h -> wf_value (mkBV k h [] []).
Proof. intros [-> | ->] Hh; unfold wf_value; cbn; auto. Qed.

Section HashProofs.
Variable H : list ftok -> N.

Lemma fbytes_inj a b : FBytes a = FBytes b -> a = b.
Proof. intros E. injection E as E. exact E. Qed.

Lemma flat_inj t : forall t' D, tok_ok t -> tok_ok t' ->
  incl (hashed_tok H t) D -> incl (hashed_tok H t') D -> hash_good H D -> flat H t = flat H t' -> t = t'.
Proof.
  induction t as [s|b|n|k l IH] using tok_ind'; intros t' D Ok Ok' In1 In2 G E.
  - destruct t'; cbn [flat] in E; try discriminate E. injection E as E. subst. reflexivity.
  - destruct t' as [|b'| |k' l']; cbn [flat] in E; try discriminate E.
    + apply fbytes_inj in E. subst. reflexivity.
    + exfalso. apply fbytes_inj in E. cbn [tok_ok] in Ok. apply tok_ok_sub in Ok'. destruct Ok' as [Hk _].
      assert (Hh : hd 0 b = vtag k') by (rewrite E; apply enc_value_first_byte).
      destruct Ok as [O5 O6]. destruct Hk as [-> | ->]; cbn [vtag] in Hh; congruence.
  - destruct t'; cbn [flat] in E; try discriminate E. injection E as E. subst. reflexivity.
  - destruct t' as [|b'| |k' l']; cbn [flat] in E; try discriminate E.
    + exfalso. apply fbytes_inj in E. cbn [tok_ok] in Ok'. apply tok_ok_sub in Ok. destruct Ok as [Hk _].
      assert (Hh : hd 0 b' = vtag k) by (rewrite <- E; apply enc_value_first_byte).
      destruct Ok' as [O5 O6]. destruct Hk as [-> | ->]; cbn [vtag] in Hh; congruence.
    + apply fbytes_inj in E. apply tok_ok_sub in Ok. apply tok_ok_sub in Ok'. destruct Ok as [Hk Okl]. destruct Ok' as [Hk' Okl'].
      cbn [hashed_tok] in In1, In2.
      assert (M1 : In (map (flat H) l) D) by (apply In1; left; reflexivity).
      assert (M2 : In (map (flat H) l') D) by (apply In2; left; reflexivity).
      destruct G as [G64 Ginj].
      apply enc_value_injective in E; [| apply wf_sig_value; [exact Hk | apply G64; exact M1] | apply wf_sig_value; [exact Hk' | apply G64; exact M2]].
      injection E as Ek Eh. subst k'. f_equal.
      apply Ginj in Eh; [| exact M1 | exact M2].
      assert (Sub1 : incl (flat_map (hashed_tok H) l) D) by (intros x Hx; apply In1; right; exact Hx).
      assert (Sub2 : incl (flat_map (hashed_tok H) l') D) by (intros x Hx; apply In2; right; exact Hx).
      clear In1 In2 M1 M2 Hk Hk'.
      revert l' Okl' Eh Sub2. induction l as [|t l IHl]; intros [|t' l'] Okl' Eh Sub2; cbn [map] in Eh; try discriminate Eh; [reflexivity|].
      injection Eh as Et El.
      inversion IH as [|? ? IHt IHrest]; subst. inversion Okl as [|? ? Ot Orest]; subst. inversion Okl' as [|? ? Ot' Orest']; subst.
      cbn [flat_map] in Sub1, Sub2.
      f_equal.
      * apply (IHt t' D); auto.
        -- intros x Hx. apply Sub1. apply in_or_app. left. exact Hx.
        -- intros x Hx. apply Sub2. apply in_or_app. left. exact Hx.
        -- split; assumption.
      * apply IHl; auto.
        -- intros x Hx. apply Sub1. apply in_or_app. right. exact Hx.
        -- intros x Hx. apply Sub2. apply in_or_app. right. exact Hx.
Qed.

Lemma map_flat_inj l : forall l' D, Forall tok_ok l -> Forall tok_ok l' ->
  incl (flat_map (hashed_tok H) l) D -> incl (flat_map (hashed_tok H) l') D -> hash_good H D ->
  map (flat H) l = map (flat H) l' -> l = l'.
Proof.
  induction l as [|t l IH]; intros [|t' l'] D Ok Ok' S1 S2 G E; cbn [map] in E; try discriminate E; [reflexivity|].
  injection E as Et El. inversion Ok; subst. inversion Ok'; subst. cbn [flat_map] in S1, S2. f_equal.
  - apply (flat_inj t t' D); auto; intros x Hx; [apply S1 | apply S2]; apply in_or_app; left; exact Hx.
  - apply (IH l' D); auto; intros x Hx; [apply S1 | apply S2]; apply in_or_app; right; exact Hx.
Qed.

(* under the ideal-hash premise on the argument lists that actually occur, equal signatures mean equal token trees *)
Theorem sig_injective l1 l2 : Forall tok_ok l1 -> Forall tok_ok l2 ->
  hash_good H (hashed H l1 ++ hashed H l2) -> sig H l1 = sig H l2 -> l1 = l2.
Proof.
  intros Ok1 Ok2 G E. unfold sig in E. unfold hashed in G.
  assert (M1 : In (map (flat H) l1) ((map (flat H) l1 :: flat_map (hashed_tok H) l1) ++ (map (flat H) l2 :: flat_map (hashed_tok H) l2)))
    by (apply in_or_app; left; left; reflexivity).
  assert (M2 : In (map (flat H) l2) ((map (flat H) l1 :: flat_map (hashed_tok H) l1) ++ (map (flat H) l2 :: flat_map (hashed_tok H) l2)))
    by (apply in_or_app; right; left; reflexivity).
  destruct G as [G64 Ginj]. pose proof (Ginj _ _ M1 M2 E) as Em.
  refine (map_flat_inj l1 l2 _ Ok1 Ok2 _ _ (conj G64 Ginj) Em).
  - intros x Hx. apply in_or_app. left. right. exact Hx.
  - intros x Hx. apply in_or_app. right. right. exact Hx.
Qed.
End HashProofs.

(* the token lists of both tasks have the required form *)
Lemma dir_value_enc_ok filt s : hd 0 (dir_value_enc filt s) <> 5 /\ hd 0 (dir_value_enc filt s) <> 6.
Proof.
  destruct s as [|ni si cs]; cbn [dir_value_enc]; [unfold missing_input_enc; rewrite enc_value_first_byte; cbn; split; discriminate|].
  destruct filt; [destruct (isdir si)|]; unfold existing_input_enc; rewrite enc_value_first_byte; cbn; split; discriminate.
Qed.

Lemma node_value_enc_ok s : hd 0 (node_value_enc s) <> 5 /\ hd 0 (node_value_enc s) <> 6.
Proof.
  destruct s; cbn [node_value_enc]; unfold missing_input_enc, existing_input_enc; rewrite enc_value_first_byte; cbn; split; discriminate.
Qed.

Lemma tree_toks_ok filt s : forall p, Forall tok_ok (tree_toks filt p s).
Proof.
  induction s as [|ni si cs IH] using stree_ind'; intros p.
  - rewrite tree_toks_missing. repeat constructor; unfold missing_input_enc; rewrite enc_value_first_byte; cbn; discriminate.
  - rewrite tree_toks_node. constructor; [exact I|]. constructor; [apply dir_value_enc_ok|].
    destruct (filt && negb (isdir si)); [constructor|].
    induction cs as [|[n c] cs IHl]; [constructor|]. inversion IH as [|? ? IHc IHcs]; subst. cbn [snd] in IHc.
    cbn [flat_map]. apply Forall_app. split; [| apply IHl; exact IHcs].
    unfold child_toks. cbn [fst snd]. constructor; [apply node_value_enc_ok|]. constructor; [|constructor].
    unfold sub_tok. destruct c as [|a b d]; [exact I|]. destruct (isdir a); [|exact I].
    apply tok_ok_sub. split; [left; reflexivity | apply IHc].
Qed.

Lemma struct_toks_ok mk filt s : forall p, Forall tok_ok (struct_toks_gen mk filt p s).
Proof.
  induction s as [|ni si cs IH] using stree_ind'; intros p.
  - rewrite struct_toks_missing. repeat constructor; unfold missing_input_enc; rewrite enc_value_first_byte; cbn; discriminate.
  - rewrite struct_toks_node. constructor; [exact I|]. constructor.
    { cbn [struct_dir_tok]. destruct filt; [destruct (isdir si)|]; try exact I. apply (dir_value_enc_ok true (SNode ni si cs)). }
    destruct (filt && negb (isdir si)); [constructor|].
    induction cs as [|[n c] cs IHl]; [constructor|]. inversion IH as [|? ? IHc IHcs]; subst. cbn [snd] in IHc.
    cbn [flat_map]. apply Forall_app. split; [| apply IHl; exact IHcs].
    unfold schild_toks. cbn [fst snd]. constructor; [exact I|]. constructor.
    { unfold skind_tok. destruct c; [|exact I]. unfold missing_input_enc. cbn [tok_ok]. rewrite enc_value_first_byte. cbn. split; discriminate. }
    constructor; [|constructor].
    unfold ssub_tok. destruct c as [|a b d]; [exact I|]. destruct (isdir a); [|exact I].
    apply tok_ok_sub. split; [right; reflexivity | apply IHc].
Qed.

(* ------------------------------------------------------------------ the 64-bit signatures *)

Section Signatures.
Variable matches : bytes -> bytes -> bool.
Variable H : list ftok -> N.

Theorem tree_signature_detects p v v' : wf_v v -> wf_v v' -> sorted_v v -> sorted_v v' -> edit1 v v' ->
  hash_good H (hashed H (tree_tokens matches [] p v) ++ hashed H (tree_tokens matches [] p v')) ->
  sig H (tree_tokens matches [] p v) <> sig H (tree_tokens matches [] p v').
Proof.
  intros W W' S S' Ed G E. apply sig_injective in E; [| apply tree_toks_ok | apply tree_toks_ok | exact G].
  exact (tree_sig_detects matches p v v' W W' S S' Ed E).
Qed.

Theorem struct_signature_detects p v v' : wf_v v -> wf_v v' -> sorted_v v -> sorted_v v' -> sedit1 v v' ->
  hash_good H (hashed H (struct_tokens matches [] p v) ++ hashed H (struct_tokens matches [] p v')) ->
  sig H (struct_tokens matches [] p v) <> sig H (struct_tokens matches [] p v').
Proof.
  intros W W' S S' Ed G E. apply sig_injective in E; [| apply struct_toks_ok | apply struct_toks_ok | exact G].
  exact (structure_detects matches p v v' W W' S S' Ed E).
Qed.

(* equal tokens give equal signatures whatever the hash is *)
Theorem signature_stable (l1 l2 : list tok) : l1 = l2 -> sig H l1 = sig H l2.
Proof. intros ->. reflexivity. Qed.
End Signatures.

(* ------------------------------------------------------------------ concrete witnesses *)

Definition w_dir (ino sec : N) : fileinfo := mkFI 1 ino 16877 4096 sec 0 zeros32.      (* 040755 *)
Definition w_file (ino mode size sec : N) : fileinfo := mkFI 1 ino mode size sec 0 zeros32.
Definition w_a : bytes := [97].
Definition w_b : bytes := [98].
Definition w_l : bytes := [108].
Definition w_tree : bytes := [116; 114; 101; 101].
Definition lit_match (pat n : bytes) : bool := bytes_eqb pat n.

(* non-vacuity: a concrete well-formed, sorted tree and an edit two levels down *)
Definition w_v0 : vtree :=
  VNode (w_dir 10 100) [(w_a, VNode (w_file 11 33188 5 100) []);
                        (w_b, VNode (w_dir 12 100) [(w_a, VNode (w_file 13 33188 7 100) [])])].
Definition w_v1 : vtree :=
  VNode (w_dir 10 100) [(w_a, VNode (w_file 11 33188 5 100) []);
                        (w_b, VNode (w_dir 12 100) [(w_a, VNode (w_file 13 33188 8 101) [])])].

Lemma w_fi_ok d i m s t : d < 18446744073709551616 -> i < 18446744073709551616 -> m < 18446744073709551616 ->
  s < 18446744073709551616 -> t < 18446744073709551616 -> wf_fi (mkFI d i m s t 0 zeros32).
Proof. intros. unfold wf_fi, u64. cbn. repeat split; auto; lia. Qed.

Lemma w_leaf_ok i : wf_fi i -> wf_v (VNode i []).
Proof. intros Hi. constructor; [exact Hi | reflexivity | reflexivity | unfold u64; cbn; lia | constructor]. Qed.

Lemma w_v0_wf : wf_v w_v0.
Proof.
  unfold w_v0, w_dir, w_file.
  constructor; [apply w_fi_ok; lia | intros Hd; vm_compute in Hd; discriminate | reflexivity | unfold u64; cbn; lia |].
  constructor; [apply w_leaf_ok; apply w_fi_ok; lia|].
  constructor; [|constructor]. cbn [snd].
  constructor; [apply w_fi_ok; lia | intros Hd; vm_compute in Hd; discriminate | reflexivity | unfold u64; cbn; lia |].
  constructor; [apply w_leaf_ok; apply w_fi_ok; lia | constructor].
Qed.

Lemma w_v1_wf : wf_v w_v1.
Proof.
  unfold w_v1, w_dir, w_file.
  constructor; [apply w_fi_ok; lia | intros Hd; vm_compute in Hd; discriminate | reflexivity | unfold u64; cbn; lia |].
  constructor; [apply w_leaf_ok; apply w_fi_ok; lia|].
  constructor; [|constructor]. cbn [snd].
  constructor; [apply w_fi_ok; lia | intros Hd; vm_compute in Hd; discriminate | reflexivity | unfold u64; cbn; lia |].
  constructor; [apply w_leaf_ok; apply w_fi_ok; lia | constructor].
Qed.

Lemma w_leaf_sorted i : sorted_v (VNode i []).
Proof. constructor; constructor. Qed.

Lemma w_v0_sorted : sorted_v w_v0.
Proof.
  constructor; [constructor; [reflexivity | constructor]|].
  constructor; [apply w_leaf_sorted|]. constructor; [|constructor]. cbn [snd].
  constructor; [constructor|]. constructor; [apply w_leaf_sorted | constructor].
Qed.

Lemma w_v1_sorted : sorted_v w_v1.
Proof.
  constructor; [constructor; [reflexivity | constructor]|].
  constructor; [apply w_leaf_sorted|]. constructor; [|constructor]. cbn [snd].
  constructor; [constructor|]. constructor; [apply w_leaf_sorted | constructor].
Qed.

Lemma w_edit01 : edit1 w_v0 w_v1.
Proof.
  unfold w_v0, w_v1.
  apply (E_deep (w_dir 10 100) [(w_a, VNode (w_file 11 33188 5 100) [])] [] w_b).
  apply (E_deep (w_dir 12 100) [] [] w_a).
  apply E_info. unfold w_file. intros E. injection E as E. discriminate E.
Qed.

Lemma w_same_structure01 : same_structure w_v0 w_v1.
Proof.
  constructor; [reflexivity|].
  constructor; [split; [reflexivity | constructor; [reflexivity | constructor]]|].
  constructor; [|constructor]. split; [reflexivity|]. cbn [snd].
  constructor; [reflexivity|]. constructor; [|constructor]. split; [reflexivity | constructor; [reflexivity | constructor]].
Qed.

(* a structural edit two levels down: the file becomes a directory *)
Definition w_v2 : vtree :=
  VNode (w_dir 10 100) [(w_a, VNode (w_file 11 33188 5 100) []);
                        (w_b, VNode (w_dir 12 102) [(w_a, VNode (w_dir 14 102) [])])].
Lemma w_sedit02 : sedit1 w_v0 w_v2.
Proof.
  unfold w_v0, w_v2.
  apply (S_deep (w_dir 10 100) (w_dir 10 100) [(w_a, VNode (w_file 11 33188 5 100) [])] [] w_b).
  apply (S_deep (w_dir 12 100) (w_dir 12 102) [] [] w_a).
  apply S_type. vm_compute. discriminate.
Qed.

(* ---- D1 (known finding): a change of the permission bits alone is an edit (the clean tokens differ) that the
   incremental build does not see: FileInputNodeTask::isResultValid keeps the stored record *)
Definition w_v0_chmod : vtree :=
  VNode (w_dir 10 100) [(w_a, VNode (w_file 11 33152 5 100) []);
                        (w_b, VNode (w_dir 12 100) [(w_a, VNode (w_file 13 33188 7 100) [])])].

Lemma mode_change_unseen : forall matches p,
  edit1 w_v0 w_v0_chmod /\
  tree_tokens matches [] p w_v0 <> tree_tokens matches [] p w_v0_chmod /\
  tree_unchanged matches [] p (clean_build matches [] w_v0) w_v0_chmod.
Proof.
  intros matches p. split; [|split].
  - apply (E_deep (w_dir 10 100) [] [(w_b, VNode (w_dir 12 100) [(w_a, VNode (w_file 13 33188 7 100) [])])] w_a).
    apply E_info. unfold w_file. intros E. injection E as E. discriminate E.
  - intros E. apply (tree_tokens_injective_sorted matches p) in E.
    + unfold w_v0, w_v0_chmod, w_file in E. injection E as E. discriminate E.
    + exact w_v0_wf.
    + unfold w_v0_chmod, w_dir, w_file.
      constructor; [apply w_fi_ok; lia | intros Hd; vm_compute in Hd; discriminate | reflexivity | unfold u64; cbn; lia |].
      constructor; [apply w_leaf_ok; apply w_fi_ok; lia|].
      constructor; [|constructor]. cbn [snd].
      constructor; [apply w_fi_ok; lia | intros Hd; vm_compute in Hd; discriminate | reflexivity | unfold u64; cbn; lia |].
      constructor; [apply w_leaf_ok; apply w_fi_ok; lia | constructor].
    + exact w_v0_sorted.
    + constructor; [constructor; [reflexivity | constructor]|].
      constructor; [apply w_leaf_sorted|]. constructor; [|constructor]. cbn [snd].
      constructor; [constructor|]. constructor; [apply w_leaf_sorted | constructor].
  - unfold tree_unchanged. vm_compute. reflexivity.
Qed.

(* ---- D3 (known finding): with patterns, an entry added while the directory's own record stays the same (mtime
   restored) is not seen: the stored filtered listing is reused.  Without patterns the same edit is seen. *)
Definition w_x_tmp : bytes := [120; 46; 116; 109; 112].       (* the pattern: a literal name *)
Definition w_new : bytes := [110; 101; 119].
Definition w_d0 : vtree := VNode (w_dir 10 100) [(w_a, VNode (w_file 11 33188 5 100) [])].
Definition w_d1 : vtree := VNode (w_dir 10 100) [(w_a, VNode (w_file 11 33188 5 100) []); (w_new, VNode (w_file 15 33188 1 103) [])].

Lemma filtered_listing_stale :
  excluded lit_match [w_x_tmp] w_new = false /\
  In w_new (names (match w_d1 with VNode _ cs => cs | VMissing => [] end)) /\
  tree_unchanged lit_match [w_x_tmp] w_tree (clean_build lit_match [w_x_tmp] w_d0) w_d1 /\
  struct_unchanged lit_match [w_x_tmp] w_tree (clean_build lit_match [w_x_tmp] w_d0) w_d1 /\
  ~ tree_unchanged lit_match [] w_tree (clean_build lit_match [] w_d0) w_d1 /\
  ~ struct_unchanged lit_match [] w_tree (clean_build lit_match [] w_d0) w_d1.
Proof.
  split; [reflexivity|]. split; [right; left; reflexivity|].
  split; [unfold tree_unchanged; vm_compute; reflexivity|].
  split; [unfold struct_unchanged; vm_compute; reflexivity|].
  split; unfold tree_unchanged, struct_unchanged; vm_compute; intros E; discriminate E.
Qed.

(* ---- D4 (known finding): every query follows symbolic links, so a link and a hard link to its target look the
   same to both signatures, and a link to a regular file and another regular file look the same to the structure
   signature *)
Definition w_fa : fileinfo := w_file 11 33188 5 100.
Definition w_fb : fileinfo := w_file 16 33188 9 104.
Definition w_li : fileinfo := mkFI 1 17 41471 1 100 0 zeros32.       (* 0120777: the link itself *)
Definition w_t_link : tree := Dir (w_dir 10 100) [(w_a, File w_fa); (w_l, Link w_li (Some [47; 120; 47; 97]) (File w_fa))].
Definition w_t_hard : tree := Dir (w_dir 10 100) [(w_a, File w_fa); (w_l, File w_fa)].
Definition w_t_file : tree := Dir (w_dir 10 100) [(w_a, File w_fa); (w_l, File w_fb)].

Lemma symlink_seen_through : forall matches skip,
  w_t_link <> w_t_hard /\
  observe skip w_tree w_t_link = observe skip w_tree w_t_hard /\
  struct_tokens matches [] w_tree (observe skip w_tree w_t_link) = struct_tokens matches [] w_tree (observe skip w_tree w_t_file) /\
  tree_tokens matches [] w_tree (observe skip w_tree w_t_link) <> tree_tokens matches [] w_tree (observe skip w_tree w_t_file).
Proof.
  intros matches skip. split; [intros E; discriminate E|]. split; [destruct skip; vm_compute; reflexivity|]. split.
  - destruct skip; vm_compute; reflexivity.
  - destruct skip; vm_compute; intros E; discriminate E.
Qed.

(* ---- D5 (repaired): before the repair a link whose real path is a STRING prefix of the directory's path was left out
   of the unfiltered listing although it does not lead to an ancestor: /x/tree2 holding l -> /x/tree *)
Definition w_p2 : bytes := [47; 120; 47; 116; 114; 101; 101; 50].        (* /x/tree2 *)
Definition w_rp : bytes := [47; 120; 47; 116; 114; 101; 101].            (* /x/tree  *)
Definition w_t_sib : tree := Dir (w_dir 20 100) [(w_l, Link w_li (Some w_rp) (Dir (w_dir 10 100) [(w_a, File w_fa)]))].

Lemma ancestor_test_unrepaired_refuted :
  pip w_p2 w_rp = false /\
  observe_unrepaired true w_p2 w_t_sib = VNode (w_dir 20 100) [] /\
  observe true w_p2 w_t_sib = VNode (w_dir 20 100) [(w_l, VNode (w_dir 10 100) [(w_a, VNode w_fa [])])].
Proof. split; [vm_compute; reflexivity|]. split; vm_compute; reflexivity. Qed.

(* ---- D2 (repaired): before the repair the structure signature hashed the permission bits: two trees with the same
   entries and types, differing in permission bits (and mtime), had different structure tokens *)
Definition w_v0_perm : vtree :=
  VNode (w_dir 10 100) [(w_a, VNode (w_file 11 33152 5 105) []);
                        (w_b, VNode (w_dir 12 100) [(w_a, VNode (w_file 13 33188 7 100) [])])].

Lemma structure_unrepaired_refuted : forall matches,
  same_structure w_v0 w_v0_perm /\
  struct_toks_unrepaired false w_tree (clean_build matches [] w_v0) <> struct_toks_unrepaired false w_tree (clean_build matches [] w_v0_perm) /\
  struct_tokens matches [] w_tree w_v0 = struct_tokens matches [] w_tree w_v0_perm.
Proof.
  intros matches. split; [|split].
  - constructor; [reflexivity|].
    constructor; [split; [reflexivity | constructor; [reflexivity | constructor]]|].
    constructor; [|constructor]. split; [reflexivity|]. cbn [snd].
    constructor; [reflexivity|]. constructor; [|constructor]. split; [reflexivity | constructor; [reflexivity | constructor]].
  - vm_compute. intros E. discriminate E.
  - vm_compute. reflexivity.
Qed.

(* ---- D6 (repaired): before the repair the filtered listing ended at the first entry whose stat fails *)
Definition w_t_dangling : tree := Dir (w_dir 10 100) [(w_l, Link w_li None Missing); (w_a, File w_fa)].

Lemma truncating_listing_refuted :
  observe_truncating false w_tree w_t_dangling = VNode (w_dir 10 100) [] /\
  observe false w_tree w_t_dangling = VNode (w_dir 10 100) [(w_l, VMissing); (w_a, VNode w_fa [])].
Proof. split; vm_compute; reflexivity. Qed.

(* ------------------------------------------------------------------ incremental builds (no patterns) *)

Lemma lookup_In {A : Type} (d : A) n o (l : list (bytes * A)) : NoDup (names l) -> In (n, o) l -> lookup d n l = o.
Proof.
  induction l as [|[m x] l IH]; intros Hnd Hin; [destruct Hin|].
  cbn [names map fst] in Hnd. inversion Hnd as [|? ? Hnot Hnd']; subst.
  cbn [lookup]. destruct Hin as [Hin|Hin].
  - injection Hin as -> ->. rewrite bytes_eqb_refl. reflexivity.
  - destruct (bytes_eqb n m) eqn:En.
    + apply bytes_eqb_eq in En. subst m. exfalso. apply Hnot. unfold names. apply in_map_iff. exists (n, o). auto.
    + apply IH; assumption.
Qed.

Lemma carry_keeps ni si cs i : carry (SNode ni si cs) i = ni <-> info_eqb ni i = true.
Proof.
  cbn [carry]. destruct (info_eqb ni i) eqn:E; [tauto|].
  split; [intros ->; rewrite info_eqb_refl in E; discriminate | discriminate].
Qed.

Lemma cmp_sim_missing_r v : cmp_sim v VMissing <-> v = VMissing.
Proof. split; [intros H; inversion H; reflexivity | intros ->; constructor]. Qed.

Section Incremental.
Variable matches : bytes -> bytes -> bool.

Lemma rebuild_nofilter_node s i cs :
  sorted_names (names cs) ->
  rebuild matches [] s (VNode i cs) =
  SNode (carry s i) i (map (fun nc : bytes * vtree => (fst nc, rebuild matches [] (lookup SMissing (fst nc) (s_children s)) (snd nc))) cs).
Proof.
  intros Hs. cbn [rebuild nonempty andb]. f_equal.
  assert (E : flat_map (fun nc : bytes * vtree => let (n, c) := nc in
                        if excluded matches [] n then [] else [(n, rebuild matches [] (lookup SMissing n (s_children s)) c)]) cs
              = map (fun nc : bytes * vtree => (fst nc, rebuild matches [] (lookup SMissing (fst nc) (s_children s)) (snd nc))) cs).
  { rewrite <- flat_map_singleton. apply flat_map_ext. intros [n c]. reflexivity. }
  rewrite E. apply sort_by_sorted.
  rewrite (names_map_snd (fun c => c)) || idtac.
  unfold names. rewrite map_map. cbn [fst]. exact Hs.
Qed.

Lemma rebuild_children_iff (all : list (bytes * stree)) : forall (part : list (bytes * stree)) (cs : list (bytes * vtree)),
  Forall (fun nc : bytes * vtree => forall s : stree, sorted_v (snd nc) -> nodup_v (snd nc) ->
            (eff (rebuild matches [] s (snd nc)) = eff s <-> cmp_sim (eff s) (snd nc))) cs ->
  Forall (fun nc : bytes * vtree => sorted_v (snd nc)) cs ->
  Forall (fun nc : bytes * vtree => nodup_v (snd nc)) cs ->
  (forall n o, In (n, o) part -> lookup SMissing n all = o) ->
  (map (fun x : bytes * vtree => (fst x, eff (rebuild matches [] (lookup SMissing (fst x) all) (snd x)))) cs =
   map (fun nc : bytes * stree => (fst nc, eff (snd nc))) part
   <-> Forall2 (fun a b : bytes * vtree => fst a = fst b /\ cmp_sim (snd a) (snd b))
               (map (fun nc : bytes * stree => (fst nc, eff (snd nc))) part) cs).
Proof.
  induction part as [|[m o] part IHp]; intros [|[n c] cs] IH Sc Nc Hall; cbn [map].
  - split; [constructor | reflexivity].
  - split; [discriminate | intros H; inversion H].
  - split; [discriminate | intros H; inversion H].
  - inversion IH as [|? ? IHc IHcs]; subst. inversion Sc as [|? ? Sch Sct]; subst. inversion Nc as [|? ? Nch Nct]; subst.
    cbn [snd] in IHc, Sch, Nch. cbn [fst snd].
    assert (Hall' : forall n' o', In (n', o') part -> lookup SMissing n' all = o') by (intros n' o' Hin; apply Hall; right; exact Hin).
    specialize (IHp cs IHcs Sct Nct Hall').
    split.
    + intros E. injection E as En Eo Erest. subst m.
      rewrite (Hall n o (or_introl eq_refl)) in Eo.
      constructor; [split; [reflexivity | apply (IHc o Sch Nch); exact Eo] | apply IHp; exact Erest].
    + intros Hf. inversion Hf as [|? ? ? ? [Hn Hcs] Ht]; subst. cbn [fst snd] in Hn, Hcs. subst m.
      rewrite (Hall n o (or_introl eq_refl)). f_equal.
      * f_equal. apply (IHc o Sch Nch). exact Hcs.
      * apply IHp. exact Ht.
Qed.

Lemma Forall2_names (l : list (bytes * vtree)) : forall cs,
  Forall2 (fun a b : bytes * vtree => fst a = fst b /\ cmp_sim (snd a) (snd b)) l cs -> names l = names cs.
Proof.
  induction l as [|[m o] l IHl]; intros cs Hf; inversion Hf as [|? [n c] ? ? [Hn _] Ht]; subst; [reflexivity|].
  cbn [fst] in Hn. subst. cbn [names map fst]. f_equal. apply IHl. exact Ht.
Qed.

(* the recorded tree stays the same exactly when the tree on disk agrees with it in everything but modes *)
Lemma rebuild_unchanged_iff v : forall s, sorted_v v -> nodup_v v ->
  (eff (rebuild matches [] s v) = eff s <-> cmp_sim (eff s) v).
Proof.
  induction v as [|i cs IH] using vtree_ind'; intros s Sv Nv.
  - cbn [rebuild eff]. rewrite cmp_sim_missing_r. split; intros E; congruence.
  - inversion Sv as [|? ? Sn Sc]; subst. inversion Nv as [|? ? Nn Nc]; subst.
    rewrite (rebuild_nofilter_node s i cs Sn).
    destruct s as [|ni si olds]; [cbn [eff]; split; [discriminate | intros H; inversion H]|].
    cbn [eff s_children]. rewrite map_map. cbn [fst snd].
    split.
    + intros E. injection E as Ei Ec.
      apply (proj1 (carry_keeps ni si olds i)) in Ei.
      constructor; [exact Ei|].
      assert (Enames : names olds = names cs).
      { apply (f_equal names) in Ec. unfold names in *. rewrite !map_map in Ec. cbn [fst] in Ec. symmetry. exact Ec. }
      assert (Nold : NoDup (names olds)) by (rewrite Enames; exact Nn).
      apply (rebuild_children_iff olds olds cs IH Sc Nc); [| exact Ec].
      intros n o Hin. apply lookup_In; assumption.
    + intros Hc. inversion Hc as [|? ? ? ? Ei Hf]; subst. f_equal; [apply (proj2 (carry_keeps ni si olds i)); exact Ei|].
      assert (Enames : names olds = names cs).
      { rewrite <- (Forall2_names _ _ Hf). symmetry. apply names_map_snd. }
      assert (Nold : NoDup (names olds)) by (rewrite Enames; exact Nn).
      apply (rebuild_children_iff olds olds cs IH Sc Nc); [| exact Hf].
      intros n o Hin. apply lookup_In; assumption.
Qed.

(* the command with the directory-tree input is left alone exactly when nothing but modes changed *)
Theorem rerun_iff p s v : wf_s s -> wf_s (rebuild matches [] s v) -> sorted_v v -> nodup_v v ->
  (tree_unchanged matches [] p s v <-> cmp_sim (eff s) v).
Proof.
  intros Ws Wr Sv Nv. rewrite <- (rebuild_unchanged_iff v s Sv Nv). unfold tree_unchanged. cbn [nonempty]. split.
  - intros E. apply (tree_toks_inj _ _ p); assumption.
  - intros E. apply tree_toks_of_eff. exact E.
Qed.
End Incremental.

Lemma info_eqb_carry s i : info_eqb (carry s i) i = true.
Proof.
  destruct s as [|ni si cs]; cbn [carry]; [apply info_eqb_refl|].
  destruct (info_eqb ni i) eqn:E; [exact E | apply info_eqb_refl].
Qed.

Section NullBuild.
Variable matches : bytes -> bytes -> bool.

Lemma cmp_sim_rebuild v : forall s, sorted_v v -> cmp_sim (eff (rebuild matches [] s v)) v.
Proof.
  induction v as [|i cs IH] using vtree_ind'; intros s Sv; [constructor|].
  inversion Sv as [|? ? Sn Sc]; subst.
  rewrite (rebuild_nofilter_node matches s i cs Sn). cbn [eff]. constructor; [apply info_eqb_carry|].
  rewrite map_map. cbn [fst snd]. clear Sn Sv.
  generalize (s_children s) as olds. intros olds.
  induction cs as [|[n c] cs IHl]; [constructor|].
  inversion IH as [|? ? IHc IHcs]; subst. inversion Sc as [|? ? Sch Sct]; subst.
  cbn [map fst snd]. constructor; [split; [reflexivity | apply IHc; exact Sch] | apply IHl; assumption].
Qed.

(* a second build over an unchanged tree leaves both commands alone, whatever the database held before *)
Theorem null_build_stable p s v : sorted_v v -> nodup_v v ->
  tree_unchanged matches [] p (rebuild matches [] s v) v /\ struct_unchanged matches [] p (rebuild matches [] s v) v.
Proof.
  intros Sv Nv.
  assert (E : eff (rebuild matches [] (rebuild matches [] s v) v) = eff (rebuild matches [] s v)).
  { apply (rebuild_unchanged_iff matches v _ Sv Nv). apply cmp_sim_rebuild. exact Sv. }
  split.
  - unfold tree_unchanged. apply tree_toks_of_eff. exact E.
  - unfold struct_unchanged, struct_toks. apply (struct_toks_of_shape type_bits type_bits_dir). rewrite E. reflexivity.
Qed.
End NullBuild.

(* ------------------------------------------------------------------ non-vacuity: the theorems applied to the witnesses *)

Lemma w_v0_nodup : nodup_v w_v0.
Proof.
  constructor; [repeat constructor; cbn; intuition discriminate|].
  constructor; [constructor; constructor|]. constructor; [|constructor]. cbn [snd].
  constructor; [repeat constructor; cbn; tauto|]. constructor; [constructor; constructor | constructor].
Qed.

Example ex_tree_detects : forall matches,
  tree_tokens matches [] w_tree w_v0 <> tree_tokens matches [] w_tree w_v1.
Proof. intros matches. exact (tree_sig_detects matches w_tree w_v0 w_v1 w_v0_wf w_v1_wf w_v0_sorted w_v1_sorted w_edit01). Qed.

Example ex_structure_ignores : forall matches,
  struct_tokens matches [] w_tree w_v0 = struct_tokens matches [] w_tree w_v1.
Proof. intros matches. exact (structure_ignores_content matches w_tree w_v0 w_v1 w_v0_sorted w_v1_sorted w_same_structure01). Qed.

Example ex_null_build : forall matches,
  tree_unchanged matches [] w_tree (rebuild matches [] (clean_build matches [] w_v0) w_v1) w_v1.
Proof. intros matches. exact (proj1 (null_build_stable matches w_tree _ w_v1 w_v1_sorted
   ltac:(constructor; [repeat constructor; cbn; intuition discriminate|];
         constructor; [constructor; constructor|]; constructor; [|constructor]; cbn [snd];
         constructor; [repeat constructor; cbn; tauto|]; constructor; [constructor; constructor | constructor]))). Qed.

Example ex_filter_exact :
  listing lit_match [w_x_tmp] (VNode (w_dir 10 100) [(w_x_tmp, VNode w_fa []); (w_a, VNode w_fa [])]) = [w_a].
Proof. vm_compute. reflexivity. Qed.

Example ex_hash_premise_meaning : forall H : list ftok -> N,
  hash_good H (hashed H [TStr w_a; TSub VDirectoryTreeSignature [TStr w_b]]) ->
  u64 (H [FStr w_b]) /\ (H [FStr w_b] = H [FStr w_a; FBytes (enc_value (mkBV VDirectoryTreeSignature (H [FStr w_b]) [] []))] -> False).
Proof.
  intros H [G64 Ginj]. split.
  - apply G64. cbn. right. left. reflexivity.
  - intros E. apply Ginj in E; [discriminate E | cbn; right; left; reflexivity | cbn; left; reflexivity].
Qed.

(* ------------------------------------------------------------------ incremental builds: the structure command *)

Lemma type_bits_carry s i ni si cs : s = SNode ni si cs -> type_bits (fi_mode ni) = type_bits (fi_mode i) ->
  type_bits (fi_mode (carry s i)) = type_bits (fi_mode ni).
Proof. intros -> E. cbn [carry]. destruct (info_eqb ni i); [reflexivity | symmetry; exact E]. Qed.

Section IncrementalStructure.
Variable matches : bytes -> bytes -> bool.

Lemma rebuild_children_shape (all : list (bytes * stree)) : forall (part : list (bytes * stree)) (cs : list (bytes * vtree)),
  Forall (fun nc : bytes * vtree => forall s : stree, sorted_v (snd nc) -> nodup_v (snd nc) ->
            same_structure (eff s) (snd nc) -> shape_of (eff (rebuild matches [] s (snd nc))) = shape_of (eff s)) cs ->
  Forall (fun nc : bytes * vtree => sorted_v (snd nc)) cs ->
  Forall (fun nc : bytes * vtree => nodup_v (snd nc)) cs ->
  (forall n o, In (n, o) part -> lookup SMissing n all = o) ->
  Forall2 (fun a b : bytes * vtree => fst a = fst b /\ same_structure (snd a) (snd b))
          (map (fun nc : bytes * stree => (fst nc, eff (snd nc))) part) cs ->
  map (fun x : bytes * vtree => (fst x, shape_of (eff (rebuild matches [] (lookup SMissing (fst x) all) (snd x))))) cs =
  map (fun nc : bytes * stree => (fst nc, shape_of (eff (snd nc)))) part.
Proof.
  induction part as [|[m o] part IHp]; intros cs IH Sc Nc Hall Hf; cbn [map] in Hf; inversion Hf as [|? [n c] ? ? [Hn Hcs] Ht]; subst; [reflexivity|].
  cbn [fst snd] in Hn, Hcs. subst m.
  inversion IH as [|? ? IHc IHcs]; subst. inversion Sc as [|? ? Sch Sct]; subst. inversion Nc as [|? ? Nch Nct]; subst.
  cbn [snd] in IHc, Sch, Nch. cbn [map fst snd].
  rewrite (Hall n o (or_introl eq_refl)). f_equal.
  - f_equal. apply (IHc o Sch Nch). exact Hcs.
  - apply IHp; auto. intros n' o' Hin. apply Hall. right. exact Hin.
Qed.

Lemma Forall2_names_struct (l : list (bytes * vtree)) : forall cs,
  Forall2 (fun a b : bytes * vtree => fst a = fst b /\ same_structure (snd a) (snd b)) l cs -> names l = names cs.
Proof.
  induction l as [|[m o] l IHl]; intros cs Hf; inversion Hf as [|? [n c] ? ? [Hn _] Ht]; subst; [reflexivity|].
  cbn [fst] in Hn. subst. cbn [names map fst]. f_equal. apply IHl. exact Ht.
Qed.

Lemma rebuild_shape v : forall s, sorted_v v -> nodup_v v -> same_structure (eff s) v ->
  shape_of (eff (rebuild matches [] s v)) = shape_of (eff s).
Proof.
  induction v as [|i cs IH] using vtree_ind'; intros s Sv Nv Hs.
  - inversion Hs as [E|]; subst. cbn [rebuild eff]. reflexivity.
  - inversion Sv as [|? ? Sn Sc]; subst. inversion Nv as [|? ? Nn Nc]; subst.
    rewrite (rebuild_nofilter_node matches s i cs Sn).
    destruct s as [|ni si olds]; [cbn [eff] in Hs; inversion Hs|].
    cbn [eff] in Hs. inversion Hs as [|? ? ? ? Ht Hf]; subst.
    unfold shape_of. cbn [eff shape_gen s_children].
    rewrite (type_bits_carry (SNode ni si olds) i ni si olds eq_refl Ht). f_equal.
    rewrite !map_map. cbn [fst snd].
    assert (Enames : names olds = names cs).
    { rewrite <- (Forall2_names_struct _ _ Hf). symmetry. apply names_map_snd. }
    assert (Nold : NoDup (names olds)) by (rewrite Enames; exact Nn).
    apply (rebuild_children_shape olds olds cs IH Sc Nc); [| exact Hf].
    intros n o Hin. apply lookup_In; assumption.
Qed.

(* changes of size, times, inode, device or permission bits alone never re-run the structure command,
   whatever the database state *)
Theorem structure_incremental_ignores_content p s v : sorted_v v -> nodup_v v -> same_structure (eff s) v ->
  struct_unchanged matches [] p s v.
Proof.
  intros Sv Nv Hs. unfold struct_unchanged, struct_toks. cbn [nonempty].
  apply (struct_toks_of_shape type_bits type_bits_dir). apply (rebuild_shape v s Sv Nv Hs).
Qed.
End IncrementalStructure.

(* ------------------------------------------------------------------ the filtered tree signature *)

Lemma eff_fresh v : eff (fresh_s v) = v.
Proof.
  induction v as [|i cs IH] using vtree_ind'; [reflexivity|].
  cbn [fresh_s eff]. f_equal. rewrite map_map. cbn [fst snd].
  induction cs as [|[n c] cs IHl]; [reflexivity|]. inversion IH as [|? ? IHc IHcs]; subst. cbn [snd] in IHc.
  cbn [map fst snd]. rewrite IHc, (IHl IHcs). reflexivity.
Qed.

Lemma clean_build_fresh matches v : clean_build matches [] v = fresh_s (canon v).
Proof.
  induction v as [|i cs IH] using vtree_ind'; [reflexivity|].
  rewrite clean_build_node. cbn [canon fresh_s]. f_equal.
  rewrite (sort_by_map fresh_s). f_equal.
  unfold kept. cbn [excluded existsb]. rewrite flat_map_singleton, map_map. cbn [fst snd].
  apply (map_pair_ext_Forall (fun x => clean_build matches [] x) (fun x => fresh_s (canon x))). exact IH.
Qed.

Lemma same_beneath_eq i cs j ds : same_beneath (VNode i cs) (VNode j ds) -> i = j -> VNode i cs = VNode j ds.
Proof. intros Hs E. subst j. inversion Hs; subst; reflexivity. Qed.

Lemma names_fresh_children (cs : list (bytes * vtree)) :
  names (map (fun nc : bytes * vtree => (fst nc, fresh_s (snd nc))) cs) = names cs.
Proof. apply names_map_snd. Qed.

(* equal filtered tokens -> the same tree beneath the root *)
Lemma tree_toks_filtered_inj v1 : forall v2 p, wf_v v1 -> wf_v v2 ->
  tree_toks true p (fresh_s v1) = tree_toks true p (fresh_s v2) -> same_beneath v1 v2.
Proof.
  induction v1 as [|i cs IH] using vtree_ind'; intros [|j ds] p W1 W2 E.
  - constructor.
  - exfalso. cbn [fresh_s] in E. rewrite tree_toks_missing, tree_toks_node in E. apply toks2_inj in E. destruct E as [E _].
    cbn [dir_value_enc] in E. revert E. destruct (isdir j); apply enc_kind_neq; cbn; discriminate.
  - exfalso. cbn [fresh_s] in E. rewrite tree_toks_missing, tree_toks_node in E. apply toks2_inj in E. destruct E as [E _].
    cbn [dir_value_enc] in E. symmetry in E. revert E. destruct (isdir i); apply enc_kind_neq; cbn; discriminate.
  - cbn [fresh_s] in E. rewrite !tree_toks_node in E. cbn [andb dir_value_enc] in E. apply toks2_inj in E. destruct E as [Ed Ec].
    inversion W1 as [|? ? Wi1 Wd1 Wn1 Wl1 Wc1]; subst. inversion W2 as [|? ? Wi2 Wd2 Wn2 Wl2 Wc2]; subst.
    rewrite !names_fresh_children in Ed.
    destruct (isdir i) eqn:Hi, (isdir j) eqn:Hj.
    + apply enc_value_injective in Ed; [| apply wf_filtered_value; assumption | apply wf_filtered_value; assumption].
      injection Ed as En. cbn [negb] in Ec.
      assert (Hlen : length cs = length ds).
      { unfold names in En. rewrite <- (map_length fst cs), <- (map_length fst ds), En. reflexivity. }
      apply flat_map_pairs_inj in Ec; [| rewrite !map_length; exact Hlen | reflexivity | reflexivity].
      assert (Ecs : cs = ds).
      { clear Hlen Wd1 Wd2 Wn1 Wn2 Wl1 Wl2 W1 W2 Hi Hj.
        revert ds En Ec Wc2. induction cs as [|[n1 c1] cs IHl]; intros [|[n2 c2] ds] En Ec Wc2; cbn [names map] in En; try discriminate En; [reflexivity|].
        cbn [fst] in En. injection En as En Ens. subst n2.
        cbn [map fst snd] in Ec. inversion Ec as [|? ? ? ? Eh Et]; subst. inversion IH as [|? ? IHc IHcs]; subst.
        inversion Wc1 as [|? ? Wc1h Wc1t]; subst. inversion Wc2 as [|? ? Wc2h Wc2t]; subst.
        cbn [snd] in IHc, Wc1h, Wc2h.
        f_equal; [| apply IHl; assumption]. f_equal.
        unfold child_toks in Eh. cbn [fst snd] in Eh. apply pair_toks_inj in Eh. destruct Eh as [Ev Es].
        destruct c1 as [|a1 d1], c2 as [|a2 d2]; cbn [fresh_s node_value_enc] in Ev.
        - reflexivity.
        - exfalso. exact (missing_not_existing _ Ev).
        - exfalso. symmetry in Ev. exact (missing_not_existing _ Ev).
        - inversion Wc1h as [|? ? Wa1 Wdd1 _ _ _]; subst. inversion Wc2h as [|? ? Wa2 Wdd2 _ _ _]; subst.
          apply existing_enc_inj in Ev; [| assumption | assumption]. subst a2.
          cbn [fresh_s] in Es. unfold sub_tok in Es. destruct (isdir a1) eqn:Hd.
          + apply tsub_inj in Es. apply (same_beneath_eq a1 d1 a1 d2); [| reflexivity].
            apply (IHc (VNode a1 d2) (path_append p n1)); [assumption | assumption |]. exact Es.
          + rewrite Wdd1, Wdd2 by reflexivity. reflexivity. }
      subst ds. constructor; assumption.
    + exfalso. revert Ed. apply enc_kind_neq. cbn. discriminate.
    + exfalso. revert Ed. apply enc_kind_neq. cbn. discriminate.
    + apply existing_enc_inj in Ed; [| assumption | assumption]. subst j.
      rewrite Wd1, Wd2 by reflexivity. apply sb_other. exact Hi.
Qed.

(* and conversely *)
Lemma tree_toks_filtered_of_beneath v1 v2 p : same_beneath v1 v2 ->
  tree_toks true p (fresh_s v1) = tree_toks true p (fresh_s v2).
Proof.
  intros Hs. inversion Hs as [|i j cs Hi Hj|i cs Hi]; subst; [reflexivity | | reflexivity].
  cbn [fresh_s]. rewrite !tree_toks_node. cbn [dir_value_enc andb]. rewrite Hi, Hj. reflexivity.
Qed.

Section FilteredTrees.
Variable matches : bytes -> bytes -> bool.

(* with patterns (possibly two different lists): equal tokens <-> the pruned trees agree in everything beneath the root *)
Theorem filtered_tokens_injective2 flt1 flt2 p v1 v2 : flt1 <> [] -> flt2 <> [] ->
  wf_v (prune matches flt1 v1) -> wf_v (prune matches flt2 v2) ->
  (tree_tokens matches flt1 p v1 = tree_tokens matches flt2 p v2 <->
   same_beneath (canon (prune matches flt1 v1)) (canon (prune matches flt2 v2))).
Proof.
  intros Hne1 Hne2 W1 W2. rewrite !filtered_tokens_pruned, !clean_build_fresh.
  assert (Hf1 : nonempty flt1 = true) by (destruct flt1; [contradiction | reflexivity]).
  assert (Hf2 : nonempty flt2 = true) by (destruct flt2; [contradiction | reflexivity]). rewrite Hf1, Hf2.
  split.
  - apply tree_toks_filtered_inj; apply wf_v_canon; assumption.
  - apply tree_toks_filtered_of_beneath.
Qed.

Theorem filtered_tokens_injective flt p v1 v2 : flt <> [] ->
  wf_v (prune matches flt v1) -> wf_v (prune matches flt v2) ->
  (tree_tokens matches flt p v1 = tree_tokens matches flt p v2 <->
   same_beneath (canon (prune matches flt v1)) (canon (prune matches flt v2))).
Proof. intros Hne. apply filtered_tokens_injective2; assumption. Qed.

(* an edit of the patterns that changes the set of visible entries (at any depth) changes the tokens *)
Theorem patterns_edit_detected flt flt' p v i cs i' cs' : flt <> [] -> flt' <> [] ->
  prune matches flt v = VNode i cs -> prune matches flt' v = VNode i' cs' ->
  wf_v (VNode i cs) -> wf_v (VNode i' cs') -> sorted_v (VNode i cs) -> sorted_v (VNode i' cs') ->
  cs <> cs' -> tree_tokens matches flt p v <> tree_tokens matches flt' p v.
Proof.
  intros Hne Hne' P1 P2 W1 W2 S1 S2 Hd E.
  apply (filtered_tokens_injective2 flt flt' p v v Hne Hne') in E; [| rewrite P1; exact W1 | rewrite P2; exact W2].
  rewrite P1, P2, (canon_sorted _ S1), (canon_sorted _ S2) in E.
  inversion E; subst; contradiction.
Qed.

(* switching patterns on or off always changes the tokens of an existing object (another kind of directory value) *)
Theorem patterns_on_off_detected flt p i cs : flt <> [] ->
  tree_tokens matches [] p (VNode i cs) <> tree_tokens matches flt p (VNode i cs).
Proof.
  intros Hne E. unfold tree_tokens in E.
  assert (Hf : nonempty flt = true) by (destruct flt; [contradiction | reflexivity]). rewrite Hf in E. cbn [nonempty] in E.
  rewrite !clean_build_node, !tree_toks_node in E. apply toks2_inj in E. destruct E as [E _].
  cbn [dir_value_enc] in E. revert E. destruct (isdir i); apply enc_kind_neq; cbn; discriminate.
Qed.

(* any difference among the non-excluded entries of a directory tree, at any depth, changes the filtered tokens *)
Theorem filtered_sig_detects flt p v v' i cs i' cs' : flt <> [] ->
  prune matches flt v = VNode i cs -> prune matches flt v' = VNode i' cs' ->
  wf_v (VNode i cs) -> wf_v (VNode i' cs') -> sorted_v (VNode i cs) -> sorted_v (VNode i' cs') ->
  cs <> cs' -> tree_tokens matches flt p v <> tree_tokens matches flt p v'.
Proof.
  intros Hne P1 P2 W1 W2 S1 S2 Hd E.
  apply (filtered_tokens_injective flt p v v' Hne) in E; [| rewrite P1; exact W1 | rewrite P2; exact W2].
  rewrite P1, P2, (canon_sorted _ S1), (canon_sorted _ S2) in E.
  inversion E; subst; contradiction.
Qed.
End FilteredTrees.

(* ------------------------------------------------------------------ what a listing leaves out *)

Definition v_children (v : vtree) : list (bytes * vtree) := match v with VNode _ cs => cs | VMissing => [] end.

Lemma observe_dir_cons skip p i n c cs :
  v_children (observe skip p (Dir i ((n, c) :: cs))) =
  (if dropped_link anc_repaired p c then [] else [(n, observe skip (path_append p n) c)]) ++
  v_children (observe skip p (Dir i cs)).
Proof.
  unfold observe. cbn [observe_gen v_children]. rewrite orb_true_r. cbn [andb].
  rewrite !andb_false_r. cbn [andb].
  destruct (dropped_link anc_repaired p c); reflexivity.
Qed.

(* the entries of a directory as both listings report them: every entry except the symbolic links that resolve to the
   directory itself or to one of its ancestors (by whole path components); nothing else is left out, in either mode *)
Theorem observe_listing_exact skip p i cs n :
  In n (names (v_children (observe skip p (Dir i cs)))) <->
  exists c, In (n, c) cs /\ dropped_link anc_repaired p c = false.
Proof.
  induction cs as [|[m d] cs IH].
  - cbn. split; [intros [] | intros [c [[] _]]].
  - rewrite observe_dir_cons, names_app, in_app_iff, IH. split.
    + intros [H|[c [Hin Hd]]].
      * destruct (dropped_link anc_repaired p d) eqn:E; [destruct H|].
        cbn [names map fst In] in H. destruct H as [H|[]]. subst. exists d. split; [left; reflexivity | exact E].
      * exists c. split; [right; exact Hin | exact Hd].
    + intros [c [[Hin|Hin] Hd]].
      * injection Hin as -> ->. rewrite Hd. left. left. reflexivity.
      * right. exists c. auto.
Qed.

Theorem dropped_link_spec p c : dropped_link anc_repaired p c = true <->
  exists li rp t, c = Link li (Some rp) t /\ pip p rp = true.
Proof.
  split.
  - destruct c as [| | |li [rp|] t]; cbn [dropped_link]; try discriminate. intros H. exists li, rp, t. auto.
  - intros [li [rp [t [-> H]]]]. exact H.
Qed.

(* ---- d863e96 (repaired): the ancestor test was given the directory path as spelled (never an ancestor match for a
   relative path) and the filtered listing had no test: a link up to the root of the tree stayed in the listing *)
Definition w_rel_sub : bytes := [116; 114; 101; 101; 47; 115; 117; 98].                       (* tree/sub *)
Definition w_abs_sub : bytes := [47; 120; 47; 116; 114; 101; 101; 47; 115; 117; 98].          (* /x/tree/sub *)
Definition w_up : bytes := [117; 112].
Definition w_t_up : tree := Dir (w_dir 12 100) [(w_up, Link w_li (Some w_rp) (File w_fa)); (w_a, File w_fa)].

Lemma ancestor_links_unprotected_refuted :
  anc_repaired w_rel_sub w_rp = false /\ anc_repaired w_abs_sub w_rp = true /\
  names (v_children (observe_unprotected false w_abs_sub w_t_up)) = [w_up; w_a] /\
  names (v_children (observe false w_abs_sub w_t_up)) = [w_a] /\
  names (v_children (observe true w_abs_sub w_t_up)) = [w_a].
Proof. repeat split; vm_compute; reflexivity. Qed.
