(* Proofs about the directory-tree model (BSys/DirTree.v). *)
From LLB Require Import Base.Bytes Base.BytesFacts Base.LE Base.LEFacts Codec.Codec Codec.CodecProofs
  Codec.FileObs Codec.FileObsProofs Path.PathPrefix BSys.DirTree.
Local Open Scope N_scope.

(* ------------------------------------------------------------------ induction over the nested trees *)

Fixpoint stree_ind' (P : stree -> Prop) (HM : P SMissing)
  (HN : forall ni si cs, Forall (fun nc => P (snd nc)) cs -> P (SNode ni si cs)) (s : stree) : P s :=
  match s with
  | SMissing => HM
  | SNode ni si cs =>
    HN ni si cs ((fix go (l : list (bytes * stree)) : Forall (fun nc => P (snd nc)) l :=
                    match l with
                    | [] => Forall_nil _
                    | (n, c) :: l' => Forall_cons (n, c) (stree_ind' P HM HN c) (go l')
                    end) cs)
  end.

Fixpoint vtree_ind' (P : vtree -> Prop) (HM : P VMissing)
  (HN : forall i cs, Forall (fun nc => P (snd nc)) cs -> P (VNode i cs)) (v : vtree) : P v :=
  match v with
  | VMissing => HM
  | VNode i cs =>
    HN i cs ((fix go (l : list (bytes * vtree)) : Forall (fun nc => P (snd nc)) l :=
                match l with
                | [] => Forall_nil _
                | (n, c) :: l' => Forall_cons (n, c) (vtree_ind' P HM HN c) (go l')
                end) cs)
  end.

(* ------------------------------------------------------------------ sorting *)

Section Sorting.
Context {A : Type}.

Lemma names_insert_by_perm (P : bytes -> bool) n (x : A) l :
  forallb P (names (insert_by n x l)) = P n && forallb P (names l).
Proof.
  induction l as [|[m y] l IH]; cbn [insert_by names map fst forallb]; [reflexivity|].
  destruct (bytes_ltb n m); cbn [names map fst forallb]; [reflexivity|].
  fold (names (insert_by n x l)). rewrite IH. fold (names l).
  destruct (P n), (P m); reflexivity.
Qed.

Lemma forallb_names_sort_by (P : bytes -> bool) (l : list (bytes * A)) :
  forallb P (names (sort_by l)) = forallb P (names l).
Proof.
  induction l as [|[n x] l IH]; [reflexivity|].
  cbn [sort_by]. rewrite names_insert_by_perm, IH. reflexivity.
Qed.

Lemma sl_flat_insert_by_length n (x : A) l :
  length (sl_flat (names (insert_by n x l))) = (length n + 1 + length (sl_flat (names l)))%nat.
Proof.
  induction l as [|[m y] l IH]; cbn [insert_by names map fst sl_flat].
  - rewrite app_length. cbn [length]. lia.
  - destruct (bytes_ltb n m); cbn [names map fst sl_flat].
    + rewrite app_length. cbn [length]. rewrite app_length. cbn [length]. fold (names l). lia.
    + fold (names (insert_by n x l)). rewrite app_length. cbn [length]. rewrite IH.
      rewrite app_length. cbn [length]. fold (names l). lia.
Qed.

Lemma sl_flat_sort_by_length (l : list (bytes * A)) :
  length (sl_flat (names (sort_by l))) = length (sl_flat (names l)).
Proof.
  induction l as [|[n x] l IH]; [reflexivity|].
  cbn [sort_by]. rewrite sl_flat_insert_by_length, IH.
  cbn [names map fst sl_flat]. rewrite app_length. cbn [length]. fold (names l). lia.
Qed.

Lemma In_insert_by n (x : A) l e : In e (insert_by n x l) <-> e = (n, x) \/ In e l.
Proof.
  induction l as [|[m y] l IH]; cbn [insert_by In].
  - split; [intros [H|[]]; auto | intros [H|[]]; auto].
  - destruct (bytes_ltb n m); cbn [In]; [split; intros [H|H]; auto|].
    rewrite IH. split; [intros [H|[H|H]]; auto | intros [H|[H|H]]; auto].
Qed.

Lemma In_sort_by (l : list (bytes * A)) e : In e (sort_by l) <-> In e l.
Proof.
  induction l as [|[n x] l IH]; [tauto|].
  cbn [sort_by In]. rewrite In_insert_by, IH. split; intros [H|H]; auto.
Qed.

Lemma Forall_sort_by (P : bytes * A -> Prop) (l : list (bytes * A)) : Forall P (sort_by l) <-> Forall P l.
Proof. rewrite !Forall_forall. split; intros H e He; apply H; apply In_sort_by; exact He. Qed.

Lemma sort_by_sorted (l : list (bytes * A)) : sorted_names (names l) -> sort_by l = l.
Proof.
  induction l as [|[n x] l IH]; intros Hs; [reflexivity|].
  cbn [sort_by]. cbn [names map fst] in Hs. fold (names l) in Hs.
  inversion Hs as [|n0 Hl|n0 m l0 Hlt Hs' [Hn Hl]]; subst.
  - destruct l; [reflexivity | discriminate].
  - rewrite IH by (rewrite <- Hl; exact Hs'). destruct l as [|[m' y] l']; [discriminate|].
    cbn [names map fst] in Hl. injection Hl as Hm Hl'. subst m'.
    cbn [insert_by]. rewrite Hlt. reflexivity.
Qed.

Lemma sort_by_nil_inv (l : list (bytes * A)) : sort_by l = [] -> l = [].
Proof.
  destruct l as [|[n x] l]; [reflexivity|]. cbn [sort_by]. intros H.
  assert (Hin : In (n, x) (insert_by n x (sort_by l))) by (apply In_insert_by; auto).
  rewrite H in Hin. destruct Hin.
Qed.
End Sorting.

Lemma insert_by_map {A B : Type} (f : A -> B) n x (l : list (bytes * A)) :
  map (fun nc => (fst nc, f (snd nc))) (insert_by n x l) = insert_by n (f x) (map (fun nc => (fst nc, f (snd nc))) l).
Proof.
  induction l as [|[m y] l IH]; [reflexivity|].
  cbn [insert_by map fst snd]. destruct (bytes_ltb n m); cbn [map fst snd]; [reflexivity|].
  rewrite IH. reflexivity.
Qed.

Lemma sort_by_map {A B : Type} (f : A -> B) (l : list (bytes * A)) :
  map (fun nc => (fst nc, f (snd nc))) (sort_by l) = sort_by (map (fun nc => (fst nc, f (snd nc))) l).
Proof.
  induction l as [|[n x] l IH]; [reflexivity|].
  cbn [sort_by map fst snd]. rewrite insert_by_map, IH. reflexivity.
Qed.

Lemma names_map_snd {A B : Type} (f : A -> B) (l : list (bytes * A)) :
  names (map (fun nc => (fst nc, f (snd nc))) l) = names l.
Proof. unfold names. rewrite map_map. apply map_ext. intros [n x]. reflexivity. Qed.

(* ------------------------------------------------------------------ the encoded values *)

Lemma wf_missing_value : wf_value (mkBV VMissingInput 0 [] []).
Proof. unfold wf_value. cbn. auto. Qed.

Lemma wf_existing_value i : wf_fi i -> wf_value (mkBV VExistingInput 0 [i] []).
Proof.
  intros Hi. unfold wf_value. cbn. repeat split; auto; try (unfold u32; cbn; lia).
Qed.

Lemma wf_contents_value i ns :
  wf_fi i -> forallb nul_free ns = true -> u64 (N.of_nat (length (sl_flat ns))) ->
  wf_value (mkBV VDirectoryContents 0 [i] ns).
Proof.
  intros Hi Hn Hl. unfold wf_value. cbn. repeat split; auto; try (unfold u32; cbn; lia).
Qed.

Lemma wf_filtered_value ns :
  forallb nul_free ns = true -> u64 (N.of_nat (length (sl_flat ns))) ->
  wf_value (mkBV VFilteredDirectoryContents 0 [] ns).
Proof. intros Hn Hl. unfold wf_value. cbn. repeat split; auto. Qed.

Lemma enc_kind_neq v1 v2 : bv_kind v1 <> bv_kind v2 -> enc_value v1 <> enc_value v2.
Proof. intros Hk E. apply (cross_kind v1 v2 Hk). rewrite E. reflexivity. Qed.

Lemma existing_enc_inj i j : wf_fi i -> wf_fi j -> existing_input_enc i = existing_input_enc j -> i = j.
Proof.
  intros Hi Hj E. unfold existing_input_enc in E.
  apply enc_value_injective in E; [| apply wf_existing_value; assumption | apply wf_existing_value; assumption].
  injection E as E. exact E.
Qed.

Lemma missing_not_existing i : missing_input_enc <> existing_input_enc i.
Proof. apply enc_kind_neq. cbn. discriminate. Qed.
