(* Model of directory-tree inputs (lib/BuildSystem/BuildSystem.cpp):
     FileInputNodeTask / StatTask                       -> node values, [carry]
     DirectoryContentsTask / FilteredDirectoryContentsTask -> [rebuild] (listing, exclusion, reuse of stored listings)
     DirectoryTreeSignatureTask::inputsAvailable         -> [tree_toks]
     DirectoryTreeStructureSignatureTask::inputsAvailable -> [struct_toks]
   Signatures are kept as TOKEN TREES: one token per argument the C++ feeds to hash_combine, in order; a nested
   signature is a sub-list.  The hash itself is a Section variable ([sig]).  Definitions only (no proofs). *)
From LLB Require Import Base.Bytes Base.LE Codec.Codec Codec.FileObs Path.PathPrefix.
Local Open Scope N_scope.

(* ------------------------------------------------------------------ what is on disk *)

(* [File] is anything that is neither a directory nor a symbolic link; the record is what stat() fills in
   (FileInfo: device inode mode size modTime, checksum all zero in the default file-system mode). *)
Inductive tree :=
| Missing                                             (* nothing here: the root path, or the target of a dangling link *)
| File (i : fileinfo)
| Dir (i : fileinfo) (cs : list (bytes * tree))      (* children in directory_iterator order (any order) *)
| Link (li : fileinfo) (rp : option bytes) (t : tree).
      (* symbolic link: its own lstat record, what real_path() returns for it (None: it fails), what it resolves to *)

(* What the tasks can see.  Every query is stat() (FileSystem::getFileInfo), which follows links, so a link IS its
   target; a path that does not resolve is missing. *)
Inductive vtree :=
| VMissing
| VNode (i : fileinfo) (cs : list (bytes * vtree)).

(* FileInfo::isDirectory(): (mode & S_IFDIR) != 0, S_IFDIR = 040000 = 2^14 (true for sockets and block devices too) *)
Definition isdir (i : fileinfo) : bool := N.testbit (fi_mode i) 14.

Definition ends_with_sep (p : bytes) : bool := N.eqb (last p 0) 47.

(* llvm::sys::path::append(path, name) for a directory entry name (non-empty, no separator) *)
Definition path_append (p n : bytes) : bytes :=
  match p with
  | [] => n
  | _ => if ends_with_sep p then p ++ n else p ++ 47 :: n
  end.

(* Both listings (getContents, getFilteredContents) leave out a symbolic link that resolves to the directory being listed
   or to one of its ancestors ("following them would never end"): AncestorLinkFilter.
   [anc dir resolved]: the ancestor test, [dir] the RESOLVED path of the directory (real_path of it).
   Repaired code: pathIsPrefixedByPath(resolved directory, resolved link) - whole components (Path/PathPrefix.v) - in both
   listings.  Before the repairs: a STRING prefix test (9d17fc1), against the directory path as spelled in the key and
   in the unfiltered listing only (d863e96). *)
Definition anc_repaired (p rp : bytes) : bool := pip p rp.
Definition anc_unrepaired (p rp : bytes) : bool := is_prefix rp p.

Definition dropped_link (anc : bytes -> bytes -> bool) (p : bytes) (c : tree) : bool :=
  match c with
  | Link _ (Some rp) _ => anc p rp
  | _ => false
  end.

(* does stat() of this object succeed? *)
Fixpoint resolves (t : tree) : bool :=
  match t with
  | Missing => false
  | Link _ _ t' => resolves t'
  | _ => true
  end.

(* [p]: the resolved path of what is observed.
   [skip]: the unfiltered listing (getContents: directory_iterator(path, ec, follow_symlinks = false)); false: the
   filtered one.  [ancf]: the ancestor test is applied in the filtered listing too (repaired code).
   [trunc] (before the repair of getFilteredContents): it iterated with follow_symlinks = true and "it != end && !ec";
   the iterator stats each entry as it reaches it, so the first entry whose stat fails (a dangling link) ended the loop
   before it was pushed: that entry and everything after it in directory order was not listed. *)
Fixpoint observe_gen (anc : bytes -> bytes -> bool) (ancf trunc : bool) (skip : bool) (p : bytes) (t : tree) : vtree :=
  match t with
  | Missing => VMissing
  | File i => VNode i []
  | Link _ rp t' => observe_gen anc ancf trunc skip (match rp with Some r => r | None => p end) t'
  | Dir i cs =>
    VNode i ((fix go (l : list (bytes * tree)) : list (bytes * vtree) :=
                match l with
                | [] => []
                | (n, c) :: l' =>
                  if (skip || ancf) && dropped_link anc p c then go l'
                  else if negb skip && trunc && negb (resolves c) then []
                  else (n, observe_gen anc ancf trunc skip (path_append p n) c) :: go l'
                end) cs)
  end.

(* the code as it is *)
Definition observe := observe_gen anc_repaired true false.
(* before 9d17fc1: string-prefix ancestor test, unfiltered listing only *)
Definition observe_unrepaired := observe_gen anc_unrepaired false false.
(* before e9065fb: the filtered listing ends at the first entry whose stat fails (and has no ancestor test) *)
Definition observe_truncating := observe_gen anc_repaired false true.
(* before d863e96: no ancestor test in the filtered listing (and the unfiltered one was given the path as spelled) *)
Definition observe_unprotected := observe_gen anc_repaired false false.

(* ------------------------------------------------------------------ ordering of a listing *)

(* std::string operator< : lexicographic on unsigned bytes, a proper prefix is smaller *)
Fixpoint bytes_ltb (a b : bytes) : bool :=
  match a, b with
  | _, [] => false
  | [], _ :: _ => true
  | x :: a', y :: b' => if x <? y then true else if y <? x then false else bytes_ltb a' b'
  end.

(* std::sort of the names; the entries travel with their names *)
Fixpoint insert_by {A : Type} (n : bytes) (x : A) (l : list (bytes * A)) : list (bytes * A) :=
  match l with
  | [] => [(n, x)]
  | (m, y) :: l' => if bytes_ltb n m then (n, x) :: l else (m, y) :: insert_by n x l'
  end.

Fixpoint sort_by {A : Type} (l : list (bytes * A)) : list (bytes * A) :=
  match l with
  | [] => []
  | (n, x) :: l' => insert_by n x (sort_by l')
  end.

Definition names {A : Type} (l : list (bytes * A)) : list bytes := map fst l.

Fixpoint lookup {A : Type} (d : A) (n : bytes) (l : list (bytes * A)) : A :=
  match l with
  | [] => d
  | (m, x) :: l' => if bytes_eqb n m then x else lookup d n l'
  end.

(* ------------------------------------------------------------------ what a build leaves in the database *)

(* Per path: [ni] the record inside the stored Node(path) value, [si] the record inside the stored Stat(path) value
   (requested by FilteredDirectoryContentsTask only; kept in both modes), and the entries of the stored
   (filtered) directory listing, in listing order.  SMissing: MissingInput - or nothing stored at all, which the
   tasks cannot tell apart. *)
Inductive stree :=
| SMissing
| SNode (ni si : fileinfo) (cs : list (bytes * stree)).

Definition s_children (s : stree) : list (bytes * stree) :=
  match s with SNode _ _ cs => cs | SMissing => [] end.

(* every field, the way two encoded Stat values are compared by the engine (byte equality of the encodings) *)
Definition fi_eqb (a b : fileinfo) : bool :=
  N.eqb (fi_device a) (fi_device b) && N.eqb (fi_inode a) (fi_inode b) && N.eqb (fi_mode a) (fi_mode b) &&
  N.eqb (fi_size a) (fi_size b) && N.eqb (fi_sec a) (fi_sec b) && N.eqb (fi_nsec a) (fi_nsec b) &&
  bytes_eqb (fi_checksum a) (fi_checksum b).

(* FileInputNodeTask::isResultValid: the stored value stays when operator== (no mode!) says so, else a new stat record *)
Definition carry (old : stree) (i : fileinfo) : fileinfo :=
  match old with
  | SNode ni _ _ => if info_eqb ni i then ni else i
  | SMissing => i
  end.

(* FilteredDirectoryContents has IsValid = nullptr: it runs again only when Node(path) or Stat(path) changed *)
Definition listing_reused (old : stree) (i : fileinfo) : bool :=
  match old with
  | SNode ni si _ => info_eqb ni i && fi_eqb si i
  | SMissing => false
  end.

Definition nonempty {A : Type} (l : list A) : bool := match l with [] => false | _ => true end.

Section Match.
(* llbuild::basic::sys::filenameMatch(pattern, name) == MATCH, i.e. fnmatch(pattern, name, 0) == 0 *)
Variable matches : bytes -> bytes -> bool.

(* getFilteredContents: a name is left out as soon as one pattern matches it *)
Definition excluded (flt : list bytes) (n : bytes) : bool := existsb (fun pat => matches pat n) flt.

Definition filtered_listing (flt : list bytes) (ns : list bytes) : list bytes :=
  filter (fun n => negb (excluded flt n)) ns.

(* One build over the database state [old] with [cur] on disk (old = SMissing: clean build).
   Unfiltered (flt = []): DirectoryContentsTask::isResultValid lists again and compares, so the listing is always the
   current one.  Filtered: the stored listing is reused when neither record changed; a stored name that is gone
   becomes a MissingInput child, a new name is not looked at. *)
Fixpoint rebuild (flt : list bytes) (old : stree) (cur : vtree) : stree :=
  match cur with
  | VMissing => SMissing
  | VNode i cs =>
    let olds := s_children old in
    let now := sort_by (flat_map (fun nc : bytes * vtree =>
                                    let (n, c) := nc in
                                    if excluded flt n then [] else [(n, rebuild flt (lookup SMissing n olds) c)]) cs) in
    SNode (carry old i) i
          (if nonempty flt && listing_reused old i
           then map (fun nc => (fst nc, lookup SMissing (fst nc) now)) olds
           else now)
  end.

Definition clean_build (flt : list bytes) (cur : vtree) : stree := rebuild flt SMissing cur.

(* the tree with every excluded name (and what is beneath it) removed *)
Fixpoint prune (flt : list bytes) (v : vtree) : vtree :=
  match v with
  | VMissing => VMissing
  | VNode i cs =>
    VNode i (flat_map (fun nc : bytes * vtree =>
                         let (n, c) := nc in if excluded flt n then [] else [(n, prune flt c)]) cs)
  end.
End Match.

(* ------------------------------------------------------------------ token trees *)

Inductive tok :=
| TStr (s : bytes)                 (* hash_value(std::string): the path, a file name *)
| TBytes (b : bytes)               (* hash_combine_range over the bytes of an encoded BuildValue *)
| TNum (n : N)                     (* a uint64_t: a mode, the nil constant *)
| TSub (k : vkind) (l : list tok). (* hash_combine_range over the encoded value of a nested signature whose tokens are l *)

Definition nil_const : N := 0xC183979C3E98722E.

Definition missing_input_enc : bytes := enc_value (mkBV VMissingInput 0 [] []).
Definition existing_input_enc (i : fileinfo) : bytes := enc_value (mkBV VExistingInput 0 [i] []).

(* the value of Node(child path): FileInputNodeTask::inputsAvailable *)
Definition node_value_enc (s : stree) : bytes :=
  match s with
  | SMissing => missing_input_enc
  | SNode ni _ _ => existing_input_enc ni
  end.

(* the value the signature tasks receive as input 0:
   unfiltered: DirectoryContentsTask (MissingInput, or DirectoryContents(record of Node(path), names) - also for a file);
   filtered: FilteredDirectoryContentsTask (MissingInput, ExistingInput(record of Stat(path)) for a non-directory,
   FilteredDirectoryContents(names): no record) *)
Definition dir_value_enc (filt : bool) (s : stree) : bytes :=
  match s with
  | SMissing => missing_input_enc
  | SNode ni si cs =>
    if filt then (if isdir si then enc_value (mkBV VFilteredDirectoryContents 0 [] (names cs)) else existing_input_enc si)
    else enc_value (mkBV VDirectoryContents 0 [ni] (names cs))
  end.

(* provideValue(inputID 0): children are requested only from a (Filtered)DirectoryContents value *)
Definition listed (filt : bool) (s : stree) : list (bytes * stree) :=
  match s with
  | SMissing => []
  | SNode _ si cs => if filt && negb (isdir si) then [] else cs
  end.

(* "if (value.isExistingInput()) if (value.getOutputInfo().isDirectory()) request the signature recursively" *)
Definition recurses (c : stree) : bool :=
  match c with SNode ni _ _ => isdir ni | SMissing => false end.

(* DirectoryTreeSignatureTask::inputsAvailable *)
Fixpoint tree_toks (filt : bool) (p : bytes) (s : stree) : list tok :=
  TStr p :: TBytes (dir_value_enc filt s) ::
  match s with
  | SMissing => []
  | SNode _ si cs =>
    if filt && negb (isdir si) then [] else
    flat_map (fun nc : bytes * stree =>
                let (n, c) := nc in
                [TBytes (node_value_enc c);
                 match c with
                 | SMissing => TNum nil_const
                 | SNode ni _ _ => if isdir ni then TSub VDirectoryTreeSignature (tree_toks filt (path_append p n) c)
                                   else TNum nil_const
                 end]) cs
  end.

(* DirectoryTreeStructureSignatureTask::inputsAvailable: the file type of the directory itself when input 0 is a
   DirectoryContents or ExistingInput value, else its encoded bytes; per child the file name, the file type of an ExistingInput (else
   the encoded bytes), the nested signature or the nil constant.
   [mk]: what is kept of a mode.  Repaired code: mode & S_IFMT (0170000); before the repair: the whole mode. *)
Definition s_ifmt : N := 61440.
Definition type_bits (m : N) : N := N.land m s_ifmt.

Definition struct_dir_tok (mk : N -> N) (filt : bool) (s : stree) : tok :=
  match s with
  | SNode ni si _ =>
    if filt then (if isdir si then TBytes (dir_value_enc filt s)     (* FilteredDirectoryContents: encoded bytes *)
                  else TNum (mk (fi_mode si)))                        (* ExistingInput (a non-directory): its type *)
    else TNum (mk (fi_mode ni))                                       (* DirectoryContents: its type *)
  | SMissing => TBytes (dir_value_enc filt s)
  end.

Fixpoint struct_toks_gen (mk : N -> N) (filt : bool) (p : bytes) (s : stree) : list tok :=
  TStr p :: struct_dir_tok mk filt s ::
  match s with
  | SMissing => []
  | SNode _ si cs =>
    if filt && negb (isdir si) then [] else
    flat_map (fun nc : bytes * stree =>
                let (n, c) := nc in
                [TStr n;
                 match c with SMissing => TBytes missing_input_enc | SNode ni _ _ => TNum (mk (fi_mode ni)) end;
                 match c with
                 | SMissing => TNum nil_const
                 | SNode ni _ _ => if isdir ni
                                   then TSub VDirectoryTreeStructureSignature (struct_toks_gen mk filt (path_append p n) c)
                                   else TNum nil_const
                 end]) cs
  end.

Definition struct_toks := struct_toks_gen type_bits.
Definition struct_toks_unrepaired := struct_toks_gen (fun m => m).

(* ------------------------------------------------------------------ the hash *)

(* what one hash_combine chain consumes, nested signatures already reduced to the bytes of their encoded value *)
Inductive ftok :=
| FStr (s : bytes)
| FBytes (b : bytes)
| FNum (n : N).

Section Hash.
(* the chain  code = hash_value(path); code = hash_combine(code, x1); ...  seen as one function of (path, x1, x2, ...) *)
Variable H : list ftok -> N.

Fixpoint flat (t : tok) : ftok :=
  match t with
  | TStr s => FStr s
  | TBytes b => FBytes b
  | TNum n => FNum n
  | TSub k l => FBytes (enc_value (mkBV k (H (map flat l)) [] []))
  end.

Definition sig (l : list tok) : N := H (map flat l).

(* every argument list the hash is applied to while computing [sig l] *)
Fixpoint hashed_tok (t : tok) : list (list ftok) :=
  match t with
  | TSub _ l => map flat l :: flat_map hashed_tok l
  | _ => []
  end.
Definition hashed (l : list tok) : list (list ftok) := map flat l :: flat_map hashed_tok l.

(* the ideal-hash premise, restricted to a finite set of argument lists: values fit 64 bits and do not collide *)
Definition hash_good (D : list (list ftok)) : Prop :=
  (forall x, In x D -> u64 (H x)) /\
  (forall x y, In x D -> In y D -> H x = H y -> x = y).
End Hash.

(* token lists as the two tasks build them: an encoded value that is hashed as plain bytes never starts with the tag of
   a signature value (5, 6), a nested signature is one of the two signature kinds *)
Fixpoint tok_ok (t : tok) : Prop :=
  match t with
  | TBytes b => hd 0 b <> 5 /\ hd 0 b <> 6
  | TSub k l => (k = VDirectoryTreeSignature \/ k = VDirectoryTreeStructureSignature) /\
                (fix all (l : list tok) : Prop := match l with [] => True | t :: l' => tok_ok t /\ all l' end) l
  | _ => True
  end.

(* ------------------------------------------------------------------ the signatures of a tree on disk *)

Section Match2.
Variable matches : bytes -> bytes -> bool.

(* after a clean build *)
Definition tree_tokens (flt : list bytes) (p : bytes) (v : vtree) : list tok :=
  tree_toks (nonempty flt) p (clean_build matches flt v).
Definition struct_tokens (flt : list bytes) (p : bytes) (v : vtree) : list tok :=
  struct_toks (nonempty flt) p (clean_build matches flt v).

(* the listing a clean build records for a directory *)
Definition listing (flt : list bytes) (v : vtree) : list bytes := names (s_children (clean_build matches flt v)).

(* does the command taking the directory-tree (resp. structure) input run again?  [old]: database state *)
Definition tree_unchanged (flt : list bytes) (p : bytes) (old : stree) (cur : vtree) : Prop :=
  tree_toks (nonempty flt) p (rebuild matches flt old cur) = tree_toks (nonempty flt) p old.
Definition struct_unchanged (flt : list bytes) (p : bytes) (old : stree) (cur : vtree) : Prop :=
  struct_toks (nonempty flt) p (rebuild matches flt old cur) = struct_toks (nonempty flt) p old.
End Match2.

(* The exclusion patterns are part of the FilteredDirectoryContents / signature keys and (repaired code) of the node's
   signature: after an edit of the patterns the node runs again and asks for NEW keys, which have no stored value, while
   the Node(path) records (keys without patterns) are still there.  Modelled by a state whose Stat records equal no
   record stat() can return, so that no stored listing is reused. *)
Fixpoint forget_listings (s : stree) : stree :=
  match s with
  | SMissing => SMissing
  | SNode ni _ cs => SNode ni missing_info (map (fun nc : bytes * stree => (fst nc, forget_listings (snd nc))) cs)
  end.

(* ------------------------------------------------------------------ vocabulary of the statements *)

(* the database state with the Stat records forgotten *)
Fixpoint eff (s : stree) : vtree :=
  match s with
  | SMissing => VMissing
  | SNode ni _ cs => VNode ni (map (fun nc : bytes * stree => (fst nc, eff (snd nc))) cs)
  end.

(* names and file types only *)
Inductive shape :=
| ShMissing
| ShNode (ty : N) (cs : list (bytes * shape)).

Fixpoint shape_gen (mk : N -> N) (v : vtree) : shape :=
  match v with
  | VMissing => ShMissing
  | VNode i cs => ShNode (mk (fi_mode i)) (map (fun nc : bytes * vtree => (fst nc, shape_gen mk (snd nc))) cs)
  end.
Definition shape_of : vtree -> shape := shape_gen type_bits.

Definition name_ok (n : bytes) : Prop := n <> [] /\ nul_free n = true /\ forallb (fun b => negb (N.eqb b 47)) n = true.

Inductive sorted_names : list bytes -> Prop :=
| sorted_nil : sorted_names []
| sorted_one n : sorted_names [n]
| sorted_cons n m l : bytes_ltb n m = true -> sorted_names (m :: l) -> sorted_names (n :: m :: l).

(* an observed tree as the operating system can produce it: 64-bit fields, names without NUL, listing length below
   2^64, only directories have entries *)
Inductive wf_v : vtree -> Prop :=
| wf_VMissing : wf_v VMissing
| wf_VNode i cs :
    wf_fi i -> (isdir i = false -> cs = []) ->
    forallb nul_free (names cs) = true -> u64 (N.of_nat (length (sl_flat (names cs)))) ->
    Forall (fun nc => wf_v (snd nc)) cs ->
    wf_v (VNode i cs).

(* the same for a database state (its Node records) *)
Definition wf_s (s : stree) : Prop := wf_v (eff s).

(* entries in name order at every level *)
Inductive sorted_v : vtree -> Prop :=
| sorted_VMissing : sorted_v VMissing
| sorted_VNode i cs : sorted_names (names cs) -> Forall (fun nc => sorted_v (snd nc)) cs -> sorted_v (VNode i cs).

(* what the FILTERED tree signature determines of a tree: everything except the record of the root directory itself
   (FilteredDirectoryContents carries no record; the records of all other directories are in their parents' tokens) *)
Inductive same_beneath : vtree -> vtree -> Prop :=
| sb_missing : same_beneath VMissing VMissing
| sb_dir i j cs : isdir i = true -> isdir j = true -> same_beneath (VNode i cs) (VNode j cs)
| sb_other i cs : isdir i = false -> same_beneath (VNode i cs) (VNode i cs).

(* the database state right after a clean build of an already sorted tree *)
Fixpoint fresh_s (v : vtree) : stree :=
  match v with
  | VMissing => SMissing
  | VNode i cs => SNode i i (map (fun nc : bytes * vtree => (fst nc, fresh_s (snd nc))) cs)
  end.

(* no name twice in a directory *)
Inductive nodup_v : vtree -> Prop :=
| nodup_VMissing : nodup_v VMissing
| nodup_VNode i cs : NoDup (names cs) -> Forall (fun nc => nodup_v (snd nc)) cs -> nodup_v (VNode i cs).

(* equal except in the field FileInfo::operator== skips (the mode) *)
Inductive cmp_sim : vtree -> vtree -> Prop :=
| cmp_Missing : cmp_sim VMissing VMissing
| cmp_Node i j cs ds :
    info_eqb i j = true ->
    Forall2 (fun a b : bytes * vtree => fst a = fst b /\ cmp_sim (snd a) (snd b)) cs ds ->
    cmp_sim (VNode i cs) (VNode j ds).

(* the recursively sorted tree: what a clean unfiltered build records *)
Fixpoint canon (v : vtree) : vtree :=
  match v with
  | VMissing => VMissing
  | VNode i cs => VNode i (sort_by (map (fun nc : bytes * vtree => (fst nc, canon (snd nc))) cs))
  end.

(* the same entries with the same file types; everything else (size, times, inode, device, permission bits) is free *)
Inductive same_structure : vtree -> vtree -> Prop :=
| same_Missing : same_structure VMissing VMissing
| same_Node i j cs ds :
    type_bits (fi_mode i) = type_bits (fi_mode j) ->
    Forall2 (fun a b : bytes * vtree => fst a = fst b /\ same_structure (snd a) (snd b)) cs ds ->
    same_structure (VNode i cs) (VNode j ds).

(* a single edit at any depth; each constructor changes the observed tree *)
Inductive edit1 : vtree -> vtree -> Prop :=
| E_info i j cs : i <> j -> edit1 (VNode i cs) (VNode j cs)                      (* content / metadata of the object itself *)
| E_add i l1 l2 n c : ~ In n (names (l1 ++ l2)) -> edit1 (VNode i (l1 ++ l2)) (VNode i (l1 ++ (n, c) :: l2))
| E_remove i l1 l2 n c : ~ In n (names (l1 ++ l2)) -> edit1 (VNode i (l1 ++ (n, c) :: l2)) (VNode i (l1 ++ l2))
| E_rename i l1 l2 m1 m2 n n' c : l1 ++ l2 = m1 ++ m2 -> ~ In n' (names (l1 ++ (n, c) :: l2)) ->
    edit1 (VNode i (l1 ++ (n, c) :: l2)) (VNode i (m1 ++ (n', c) :: m2))
| E_replace i l1 l2 n c c' : c <> c' -> edit1 (VNode i (l1 ++ (n, c) :: l2)) (VNode i (l1 ++ (n, c') :: l2))
      (* retype (file <-> directory <-> missing), or any edit beneath the child: see E_deep for the latter spelled out *)
| E_deep i l1 l2 n c c' : edit1 c c' -> edit1 (VNode i (l1 ++ (n, c) :: l2)) (VNode i (l1 ++ (n, c') :: l2)).

(* a single structural edit at any depth: entries added, removed, renamed, or the file type of an entry changed *)
Inductive sedit1 : vtree -> vtree -> Prop :=
| S_type i j cs : type_bits (fi_mode i) <> type_bits (fi_mode j) -> sedit1 (VNode i cs) (VNode j cs)
| S_add i j l1 l2 n c : ~ In n (names (l1 ++ l2)) -> sedit1 (VNode i (l1 ++ l2)) (VNode j (l1 ++ (n, c) :: l2))
| S_remove i j l1 l2 n c : ~ In n (names (l1 ++ l2)) -> sedit1 (VNode i (l1 ++ (n, c) :: l2)) (VNode j (l1 ++ l2))
| S_rename i j l1 l2 m1 m2 n n' c : l1 ++ l2 = m1 ++ m2 -> ~ In n' (names (l1 ++ (n, c) :: l2)) ->
    sedit1 (VNode i (l1 ++ (n, c) :: l2)) (VNode j (m1 ++ (n', c) :: m2))
| S_appear i j l1 l2 n c : c <> VMissing -> sedit1 (VNode i (l1 ++ (n, VMissing) :: l2)) (VNode j (l1 ++ (n, c) :: l2))
| S_vanish i j l1 l2 n c : c <> VMissing -> sedit1 (VNode i (l1 ++ (n, c) :: l2)) (VNode j (l1 ++ (n, VMissing) :: l2))
| S_deep i j l1 l2 n c c' : sedit1 c c' -> sedit1 (VNode i (l1 ++ (n, c) :: l2)) (VNode j (l1 ++ (n, c') :: l2)).
