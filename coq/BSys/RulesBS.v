(* The build-system layer as data for the engine model (property C08).
   Transliterated from
     lib/BuildSystem/BuildSystem.cpp    BuildSystemEngineDelegate::lookupRule (one case per key kind), TargetTask,
                                        FileInputNodeTask, VirtualInputNodeTask, ProducedNodeTask, CommandTask,
                                        MissingCommandTask, PhonyCommand, MkdirCommand, SymlinkCommand,
                                        BuildSystemImpl::createNode (node type from the spelling of the name)
     lib/BuildSystem/ExternalCommand.cpp  getResultForOutput, isResultValid (model shared with BSys/Sig.v),
                                        start / provideValue / execute / canUpdateIfNewerWithResult / computeCommandResult
     lib/BuildSystem/BuildNode.cpp      getSignature (type + producer names), getFileInfo
     lib/BuildSystem/BuildFile.cpp      commands are configured in file order; each output appends the command to the
                                        node's producer list
   Not modelled (descriptions using them are outside [modelled]): directory / directory-structure nodes and their tree
   signatures, stat keys, custom tasks, discovered dependencies, command-timestamp nodes, node attributes other than
   is-mutated, link-output-path, the creation of parent directories (the world is a flat map from paths to objects),
   cancellation; a dependency cycle is reported as [BCycle] (the engine's cycle detection and
   its resolution callbacks are not modelled).
   Definitions only. *)
From LLB Require Import Base.Bytes Codec.Codec Codec.FileObs BSys.Sig.
Local Open Scope N_scope.

Definition path := bytes.

(* ---------- the world: what is on disk ---------- *)

(* every existing object has a content (file bytes / link target / [] for a directory) and a stamp: the FileInfo
   that stat (lstat for links) reports; the logical clock is strictly above every stamp handed out so far *)
Record world := mkW { w_fs : path -> option (bytes * fileinfo); w_clock : N }.

Definition stat_w (w : world) (p : path) : fileinfo :=
  match w_fs w p with Some (_, s) => s | None => missing_info end.
Definition content_w (w : world) (p : path) : option bytes :=
  match w_fs w p with Some (c, _) => Some c | None => None end.

Definition mode_file : N := 33188.       (* S_IFREG | 0644 *)
Definition mode_dir : N := 16877.        (* S_IFDIR | 0755 *)
Definition mode_link : N := 41471.       (* S_IFLNK | 0777 *)
Definition fi_is_dir (s : fileinfo) : bool := N.eqb (N.land (fi_mode s) 61440) 16384.     (* FileInfo::isDirectory *)

(* the stamp of an object created now *)
Definition fresh (w : world) (mode size : N) : fileinfo := mkFI 1 (w_clock w) mode size (w_clock w) 0 zeros32.

Definition put (w : world) (p : path) (c : bytes) (s : fileinfo) : world :=
  mkW (fun q => if bytes_eqb q p then Some (c, s) else w_fs w q) (N.max (w_clock w) (fi_sec s) + 1).
Definition del (w : world) (p : path) : world :=
  mkW (fun q => if bytes_eqb q p then None else w_fs w q) (w_clock w).
Definition write_fresh (w : world) (p : path) (mode : N) (c : bytes) : world :=
  put w p c (fresh w mode (N.of_nat (length c))).

Definition wf_world (w : world) : Prop :=
  forall p c s, w_fs w p = Some (c, s) -> is_missing s = false /\ fi_sec s < w_clock w.
(* the stamp an observable edit leaves: an existing object, not older than the clock *)
Definition observable (w : world) (s : fileinfo) : Prop := is_missing s = false /\ w_clock w <= fi_sec s.
Definition same_content (w w' : world) : Prop := forall p, content_w w' p = content_w w p.

(* ---------- descriptions ---------- *)

Inductive tool := TShell | TPhony | TMkdir | TSymlink.

(* cm_def: the attributes ExternalCommand / ShellCommand keep (record shared with the signature model);
   cm_contents: the "contents" attribute of the symlink tool *)
Record command := mkCmd { cm_tool : tool; cm_def : cdef; cm_contents : bytes }.
Definition cm_name (c : command) : bytes := c_name (cm_def c).
Definition cm_inputs (c : command) : list path := c_inputs (cm_def c).
Definition cm_outputs (c : command) : list path := c_outputs (cm_def c).

(* commands in file order; the nodes declared is-mutated; targets *)
Record desc := mkDesc { d_cmds : list command; d_mutated : list path; d_targets : list (bytes * list path) }.

(* BuildSystemImpl::createNode: "x/" is a directory node, "<x>" a virtual node, anything else plain *)
Definition is_virtual (n : path) : bool :=
  match n with 60 :: _ => N.eqb (last n 0) 62 | _ => false end.
Definition ends_with_slash (n : path) : bool :=
  match n with [] => false | _ => N.eqb (last n 0) 47 end.
Definition node_type (n : path) : N := if ends_with_slash n then 1 else if is_virtual n then 3 else 0.
Definition node_virtual (n : path) : bool := N.eqb (node_type n) 3.

Definition is_mutated (d : desc) (n : path) : bool := mem_bytes n (d_mutated d).
Definition produces (n : path) (c : command) : bool := mem_bytes n (cm_outputs c).
Definition producers (d : desc) (n : path) : list command := filter (produces n) (d_cmds d).

Fixpoint find_cmd (l : list command) (name : bytes) : option command :=
  match l with
  | [] => None
  | c :: l' => if bytes_eqb (cm_name c) name then Some c else find_cmd l' name
  end.
Fixpoint find_target (l : list (bytes * list path)) (name : bytes) : option (list path) :=
  match l with
  | [] => None
  | (t, ns) :: l' => if bytes_eqb t name then Some ns else find_target l' name
  end.

(* ---------- keys and the rule each key resolves to (lookupRule) ---------- *)

Inductive key := KC (name : bytes) | KN (name : path) | KT (name : bytes).
Definition key_eqb (a b : key) : bool :=
  match a, b with
  | KC x, KC y => bytes_eqb x y
  | KN x, KN y => bytes_eqb x y
  | KT x, KT y => bytes_eqb x y
  | _, _ => false
  end.

Inductive rkind :=
| RMissingCommand                              (* no such command: MissingCommandTask *)
| RCommand (c : command)                       (* CommandTask *)
| RVirtualInput                                (* VirtualInputNodeTask *)
| RFileInput (n : path)                        (* FileInputNodeTask *)
| RDirInput                                    (* DirectoryInputNodeTask: not modelled *)
| RProduced (n : path) (ps : list command)     (* ProducedNodeTask *)
| RProducedDir                                 (* ProducedDirectoryNodeTask: not modelled *)
| RTarget (nodes : list path)                  (* TargetTask *)
| RNoTarget.                                   (* the code aborts *)

Definition lookup_rule (d : desc) (k : key) : rkind :=
  match k with
  | KC name => match find_cmd (d_cmds d) name with Some c => RCommand c | None => RMissingCommand end
  | KN n => match producers d n with
            | [] => if node_virtual n then RVirtualInput
                    else if N.eqb (node_type n) 1 then RDirInput else RFileInput n
            | ps => if N.eqb (node_type n) 1 then RProducedDir else RProduced n ps
            end
  | KT t => match find_target (d_targets d) t with Some ns => RTarget ns | None => RNoTarget end
  end.

(* ---------- rule signatures ---------- *)

Section Hash.
Variable H0 : bytes -> N.
Variable HC : N -> token -> N.

Definition cmd_sig (c : command) : N :=
  match cm_tool c with
  | TShell => shell_sig H0 HC (cm_def c)
  | TPhony | TMkdir => ext_sig H0 HC (cm_def c)
  | TSymlink => symlink_sig H0 HC (hd [] (cm_outputs c)) (cm_contents c) (cm_inputs c)
  end.

(* the node as BuildNode::getSignature sees it: type, then the names of its producers in file order *)
Definition node_def (d : desc) (n : path) : ndef := mkNdef (node_type n) (map cm_name (producers d n)).

(* command rules carry the command's signature, node rules the node's, everything else the null signature *)
Definition rule_sig (d : desc) (k : key) : N :=
  match k with
  | KC name => match find_cmd (d_cmds d) name with Some c => cmd_sig c | None => 0 end
  | KN n => node_sig HC (node_def d n)
  | KT _ => 0
  end.
End Hash.

(* ---------- values ---------- *)

Definition v_simple (k : vkind) : bvalue := mkBV k 0 [] [].
Definition v_existing (s : fileinfo) : bvalue := mkBV VExistingInput 0 [s] [].
Definition v_success (infos : list fileinfo) : bvalue := mkBV VSuccessfulCommand 0 infos [].
Definition kind_is (v : bvalue) (k : vkind) : bool := N.eqb (vtag (bv_kind v)) (vtag k).
(* getOutputInfo(): the single stored info *)
Definition first_info (v : bvalue) : fileinfo := hd missing_info (bv_infos v).
(* getNthOutputInfo(n): with a single stored info every index answers that info (the assert is compiled out) *)
Definition nth_info (v : bvalue) (i : nat) : option fileinfo :=
  match bv_infos v with
  | [x] => Some x
  | l => nth_error l i
  end.

(* two values that the engine's byte comparison may tell apart but that carry the same observation:
   same kind, and the stored infos agree on every field FileInfo::operator== compares *)
Fixpoint infos_equiv (a b : list fileinfo) : bool :=
  match a, b with
  | [], [] => true
  | x :: a', y :: b' => info_eqb x y && infos_equiv a' b'
  | _, _ => false
  end.
Definition value_equiv (a b : bvalue) : bool :=
  N.eqb (vtag (bv_kind a)) (vtag (bv_kind b)) && infos_equiv (bv_infos a) (bv_infos b).

(* ---------- validity (the isResultValid lambdas) ---------- *)

Definition verdict_of (b : bool) : verdict := if b then Valid else Invalid.

(* FileInputNodeTask::isResultValid *)
Definition file_valid (w : world) (n : path) (v : bvalue) : bool :=
  let info := stat_w w n in
  if is_missing info then kind_is v VMissingInput
  else kind_is v VExistingInput && info_eqb (first_info v) info.

(* the outputs of a command as ExternalCommand::isResultValid sees them now *)
Definition onodes (d : desc) (w : world) (outs : list path) : list onode :=
  map (fun o => mkOnode (node_virtual o) (is_mutated d o) (if node_virtual o then missing_info else stat_w w o)) outs.

(* MkdirCommand::isResultValid (getOutputs()[0] without outputs: OverRead) *)
Definition mkdir_valid (w : world) (c : command) (v : bvalue) : verdict :=
  if negb (is_successful (bv_kind v)) then Invalid else
  match cm_outputs c with
  | [] => OverRead
  | o :: _ => let info := stat_w w o in
              if is_missing info then Invalid else if negb (fi_is_dir info) then Invalid else Valid
  end.

(* SymlinkCommand::isResultValid (link-output-path not modelled: the link is at outputs[0]) *)
Definition symlink_valid (w : world) (c : command) (v : bvalue) : verdict :=
  match cm_outputs c with
  | [] => Invalid
  | o :: _ =>
    if is_nil o then Invalid
    else if negb (is_successful (bv_kind v)) then Invalid
    else if negb (Nat.eqb (length (bv_infos v)) 1) then Invalid
    else let info := stat_w w o in
         if is_missing info then Invalid else verdict_of (info_eqb info (first_info v))
  end.

(* Command::isResultValid by tool *)
Definition cmd_valid (d : desc) (w : world) (c : command) (v : bvalue) : verdict :=
  match cm_tool c with
  | TShell | TPhony => is_result_valid (c_always_out_of_date (cm_def c)) v (onodes d w (cm_outputs c))
  | TMkdir => mkdir_valid w c v
  | TSymlink => symlink_valid w c v
  end.

(* ProducedNodeTask::isResultValid *)
Definition produced_valid (v : bvalue) : bool := negb (kind_is v VFailedInput) && negb (kind_is v VMissingInput).

Definition rule_valid (d : desc) (w : world) (k : key) (v : bvalue) : verdict :=
  match lookup_rule d k with
  | RMissingCommand => Invalid
  | RCommand c => cmd_valid d w c v
  | RVirtualInput => verdict_of (kind_is v VVirtualInput)
  | RFileInput n => verdict_of (file_valid w n v)
  | RDirInput => Valid                                   (* IsValid = nullptr *)
  | RProduced _ _ => verdict_of (produced_valid v)
  | RProducedDir => verdict_of (produced_valid v)
  | RTarget _ => Invalid
  | RNoTarget => Invalid
  end.

(* ---------- what each task computes ---------- *)

(* FileInputNodeTask::inputsAvailable *)
Definition run_file_input (w : world) (n : path) : bvalue :=
  let info := stat_w w n in
  if is_missing info then v_simple VMissingInput else v_existing info.

Fixpoint index_of (n : path) (l : list path) : option nat :=
  match l with
  | [] => None
  | x :: l' => if bytes_eqb x n then Some O else match index_of n l' with Some i => Some (S i) | None => None end
  end.

Definition is_failure_kind (k : vkind) : bool :=
  match k with VFailedCommand | VPropagatedFailureCommand | VCancelledCommand => true | _ => false end.

(* ExternalCommand::getResultForOutput; None: an assertion of the code would fail (unreachable for values the
   command itself recorded) *)
Definition ext_result_for_output (c : command) (n : path) (v : bvalue) : option bvalue :=
  if is_failure_kind (bv_kind v) then Some (v_simple VFailedInput)
  else if kind_is v VSkippedCommand then Some (v_simple VSkippedCommand)
  else if negb (is_successful (bv_kind v)) then None
  else if node_virtual n then Some (v_simple VVirtualInput)
  else match index_of n (cm_outputs c) with
       | None => None
       | Some i => match nth_info v i with
                   | None => None
                   | Some info => Some (if is_missing info then v_simple VMissingOutput else v_existing info)
                   end
       end.

(* SymlinkCommand::getResultForOutput *)
Definition symlink_result_for_output (v : bvalue) : option bvalue :=
  if is_failure_kind (bv_kind v) then Some (v_simple VFailedInput)
  else if kind_is v VSkippedCommand then Some (v_simple VSkippedCommand)
  else if negb (is_successful (bv_kind v)) then None
  else match bv_infos v with
       | [] => None
       | info :: _ => Some (if is_missing info then v_simple VMissingOutput else v_existing info)
       end.

Definition result_for_output (c : command) (n : path) (v : bvalue) : option bvalue :=
  match cm_tool c with
  | TPhony => if node_virtual n then Some (v_simple VVirtualInput) else ext_result_for_output c n v
  | TSymlink => symlink_result_for_output v
  | TShell | TMkdir => ext_result_for_output c n v
  end.

(* ExternalCommand::provideValue: what one input value means for the command *)
Inductive iclass := IIgnored | IGood | IMissingOutput | ISkip | IUnreachable.
Definition classify_input (allow_missing : bool) (v : bvalue) : iclass :=
  match bv_kind v with
  | VSuccessfulCommand | VSuccessfulCommandWithOutputSignature | VFailedCommand | VPropagatedFailureCommand
  | VCancelledCommand => IIgnored
  | VDirectoryTreeSignature | VDirectoryTreeStructureSignature | VExistingInput | VVirtualInput
  | VStaleFileRemoval => IGood
  | VMissingOutput => IMissingOutput
  | VMissingInput => if allow_missing then IGood else ISkip
  | VFailedInput => ISkip
  | VSkippedCommand => IGood
  | VInvalid | VDirectoryContents | VTarget | VFilteredDirectoryContents => IUnreachable      (* llvm_unreachable *)
  end.
Definition is_skip (c : iclass) : bool := match c with ISkip => true | _ => false end.
Definition is_missing_output (c : iclass) : bool := match c with IMissingOutput => true | _ => false end.
Definition is_unreachable (c : iclass) : bool := match c with IUnreachable => true | _ => false end.

(* ExternalCommand::computeCommandResult: virtual outputs record FileInfo{}; a command without outputs
   records the epoch *)
Definition out_infos (w : world) (outs : list path) : list fileinfo :=
  map (fun o => if node_virtual o then missing_info else stat_w w o) outs.
Definition command_result (epoch : N) (w : world) (outs : list path) : bvalue :=
  v_success (match outs with [] => [mkFI 0 0 0 epoch 0 0 zeros32] | _ => out_infos w outs end).

(* canUpdateIfNewerWithResult *)
Definition can_update (c : command) (r : bvalue) : bool :=
  c_allow_modified_outputs (cm_def c) && forallb (fun i => negb (is_missing i)) (bv_infos r).

(* the contents a command reads: its non-virtual declared inputs, in order *)
Definition input_contents (w : world) (ins : list path) : list (option bytes) :=
  map (content_w w) (filter (fun n => negb (node_virtual n)) ins).

Section Run.
(* "commands are deterministic functions of their inputs": what a shell command writes to its j-th output *)
Variable F : command -> nat -> list (option bytes) -> bytes.

Fixpoint write_outputs (c : command) (ins : list (option bytes)) (outs : list path) (j : nat) (w : world) : world :=
  match outs with
  | [] => w
  | o :: outs' => write_outputs c ins outs' (S j)
                    (if node_virtual o then w else write_fresh w o mode_file (F c j ins))
  end.

(* executeExternalCommand by tool; None: the tool reports failure *)
Definition exec_tool (c : command) (w : world) : option world :=
  match cm_tool c with
  | TShell => Some (write_outputs c (input_contents w (cm_inputs c)) (cm_outputs c) 0 w)
  | TPhony => Some w
  | TMkdir => let o := hd [] (cm_outputs c) in
              match w_fs w o with
              | None => Some (write_fresh w o mode_dir [])
              | Some (_, s) => if fi_is_dir s then Some w else None
              end
  | TSymlink => None
  end.

(* ExternalCommand::provideValue + execute.  Result: new world, the value handed to complete(), and whether the
   tool body executed.  None: llvm_unreachable *)
Definition run_external (epoch : N) (w : world) (c : command) (prior : option bvalue) (ins : list bvalue)
  : option (world * bvalue * bool) :=
  let cls := map (classify_input (c_allow_missing_inputs (cm_def c))) ins in
  if existsb is_unreachable cls then None
  else if existsb is_skip cls then Some (w, v_simple VPropagatedFailureCommand, false)
  else
    let can_upd := negb (existsb is_missing_output cls) in
    let has_prior := match prior with Some p => is_successful (bv_kind p) | None => false end in
    let r0 := command_result epoch w (cm_outputs c) in
    if can_upd && has_prior && can_update c r0 then Some (w, r0, false)
    else match exec_tool c w with
         | Some w' => Some (w', command_result epoch w' (cm_outputs c), true)
         | None => Some (w, v_simple VFailedCommand, true)
         end.

(* SymlinkCommand::execute: createSymlink fails on an existing object, which is then removed and the link created
   again: the link is always new *)
Definition run_symlink (w : world) (c : command) : world * bvalue * bool :=
  match cm_outputs c with
  | [] => (w, v_simple VFailedCommand, false)
  | o :: _ => if is_nil o then (w, v_simple VFailedCommand, false)
              else let w' := write_fresh w o mode_link (cm_contents c) in (w', v_success [stat_w w' o], true)
  end.

Definition run_command (epoch : N) (w : world) (c : command) (prior : option bvalue) (ins : list bvalue)
  : option (world * bvalue * bool) :=
  match cm_tool c with
  | TSymlink => Some (run_symlink w c)
  | _ => run_external epoch w c prior ins
  end.

(* ---------- a build with an empty database (big-step, demand driven) ---------- *)

Record bstate := mkBS {
  bs_world : world;
  bs_vals : list (key * bvalue);         (* the value of every rule built so far, most recent first *)
  bs_ran : list bytes }.                 (* ghost: names of the commands whose tool body executed, most recent first *)

Inductive bres := BOk (st : bstate) | BFuel | BCycle | BStuck.   (* BStuck: an assertion / llvm_unreachable / unmodelled rule *)

Fixpoint lookup_val (l : list (key * bvalue)) (k : key) : option bvalue :=
  match l with
  | [] => None
  | (k', v) :: l' => if key_eqb k k' then Some v else lookup_val l' k
  end.
Definition val_of (st : bstate) (k : key) : bvalue :=
  match lookup_val (bs_vals st) k with Some v => v | None => v_simple VInvalid end.
Definition record (st : bstate) (k : key) (v : bvalue) : bstate :=
  mkBS (bs_world st) ((k, v) :: bs_vals st) (bs_ran st).

Fixpoint fold_keys (bk : bstate -> key -> bres) (ks : list key) (st : bstate) : bres :=
  match ks with
  | [] => BOk st
  | k :: ks' => match bk st k with BOk st1 => fold_keys bk ks' st1 | other => other end
  end.

Fixpoint build_key (fuel : nat) (d : desc) (epoch : N) (stack : list key) (st : bstate) (k : key) {struct fuel} : bres :=
  match fuel with
  | O => BFuel
  | S f =>
    match lookup_val (bs_vals st) k with
    | Some _ => BOk st                                   (* complete in this epoch *)
    | None =>
      if existsb (key_eqb k) stack then BCycle else       (* demanded while it is itself being built *)
      match lookup_rule d k with
      | RMissingCommand => BOk (record st k (v_simple VInvalid))
      | RCommand c =>
        (* ExternalCommand::start requests every input; SymlinkCommand::start must-follows them *)
        match fold_keys (build_key f d epoch (k :: stack)) (map KN (cm_inputs c)) st with
        | BOk st1 =>
          match run_command epoch (bs_world st1) c None (map (fun n => val_of st1 (KN n)) (cm_inputs c)) with
          | Some (w', v, ex) => BOk (mkBS w' ((k, v) :: bs_vals st1) (if ex then cm_name c :: bs_ran st1 else bs_ran st1))
          | None => BStuck
          end
        | other => other
        end
      | RVirtualInput => BOk (record st k (v_simple VVirtualInput))
      | RFileInput n => BOk (record st k (run_file_input (bs_world st) n))
      | RDirInput => BStuck
      | RProducedDir => BStuck
      | RProduced n ps =>
        match ps with
        | [c] =>
          match build_key f d epoch (k :: stack) st (KC (cm_name c)) with
          | BOk st1 => match result_for_output c n (val_of st1 (KC (cm_name c))) with
                       | Some v => BOk (record st1 k v)
                       | None => BStuck
                       end
          | other => other
          end
        | _ => BOk (record st k (v_simple VFailedInput))   (* the frontend's delegate picks no producer *)
        end
      | RTarget ns =>
        match fold_keys (build_key f d epoch (k :: stack)) (map KN ns) st with
        | BOk st1 => BOk (record st1 k (v_simple VTarget))
        | other => other
        end
      | RNoTarget => BStuck
      end
    end
  end.

End Run.

(* ---------- the clean build ---------- *)

Definition empty_world : world := mkW (fun _ => None) 1.
Definition world_of_sources (src : list (path * bytes)) : world :=
  fold_left (fun w pc => write_fresh w (fst pc) mode_file (snd pc)) src empty_world.
Definition default_fuel (d : desc) : nat := 2 * length (d_cmds d) + 4.

(* a clean build of target t: no database, no earlier outputs, only the sources *)
Definition clean (F : command -> nat -> list (option bytes) -> bytes) (d : desc) (src : list (path * bytes)) (t : bytes) : bres :=
  build_key F (default_fuel d) d 1 [] (mkBS (world_of_sources src) [] []) (KT t).

(* ---------- the descriptions the theorems are about ---------- *)

Definition wf_command (c : command) : Prop :=
  NoDup (cm_outputs c) /\ cm_outputs c <> [] /\
  (cm_tool c = TMkdir \/ cm_tool c = TSymlink ->
   exists o, cm_outputs c = [o] /\ node_virtual o = false /\ o <> []).
Definition wf_desc (d : desc) : Prop :=
  NoDup (map cm_name (d_cmds d)) /\
  (forall c, In c (d_cmds d) -> wf_command c) /\
  (forall c1 c2 o, In c1 (d_cmds d) -> In c2 (d_cmds d) -> In o (cm_outputs c1) -> In o (cm_outputs c2) -> c1 = c2) /\
  (forall c o, In c (d_cmds d) -> In o (cm_outputs c) -> ends_with_slash o = false).

(* the value the command recorded still describes what it left on disk, and what it left on disk is what the
   command computes from what its inputs hold now (the world invariant, for one command) *)
Definition shell_outputs_hold (F : command -> nat -> list (option bytes) -> bytes) (w : world) (c : command) : Prop :=
  forall j o, nth_error (cm_outputs c) j = Some o -> node_virtual o = false ->
              content_w w o = Some (F c j (input_contents w (cm_inputs c))).

(* ---------- a concrete command function for the executable model and the examples ---------- *)

Definition opt_bytes (o : option bytes) : bytes := match o with Some b => b | None => [] end.
(* tag ++ digit j ++ "(" ++ contents of the non-virtual inputs ++ ")" ; the tag is the concatenation of args *)
Definition cat_fn (c : command) (j : nat) (ins : list (option bytes)) : bytes :=
  concat (c_args (cm_def c)) ++ [48 + N.of_nat j] ++ [40] ++ concat (map opt_bytes ins) ++ [41].
