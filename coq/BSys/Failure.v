(* Failure propagation and retry (property C10).  Definitions only (no proofs).

   Transliteration of the decision functions of
     lib/BuildSystem/ExternalCommand.cpp   getResultForOutput, provideValue, execute, isResultValid
     lib/BuildSystem/BuildSystem.cpp       PhonyCommand / SymlinkCommand / StaleFileRemovalCommand::getResultForOutput,
                                           MkdirCommand / SymlinkCommand / StaleFileRemovalCommand::isResultValid,
                                           CommandTask::inputsAvailable, ProducedNodeTask, ProducedDirectoryNodeTask,
                                           TargetTask, the validity lambdas of lookupRule
     lib/BuildSystem/BuildSystemFrontend.cpp  the success flag of BuildSystemFrontend::build
   over value KINDS only (payloads - file infos, signatures - enter as booleans where the code branches on them). *)
From Coq Require Import List Bool Arith.
Import ListNotations.

(* BuildValue::Kind, in enum order (include/llbuild/BuildSystem/BuildValue.h) *)
Inductive vkind : Type :=
| VInvalid | VVirtualInput | VExistingInput | VMissingInput | VDirectoryContents | VDirectoryTreeSignature
| VDirectoryTreeStructureSignature | VStaleFileRemoval | VMissingOutput | VFailedInput | VSuccessfulCommand
| VFailedCommand | VPropagatedFailureCommand | VCancelledCommand | VSkippedCommand | VTarget
| VFilteredDirectoryContents | VSuccessfulCommandWithOutputSignature.

(* the command classes that differ in one of the functions below; TExternal stands for every ExternalCommand
   subclass that inherits getResultForOutput / isResultValid / provideValue / execute unchanged (shell, clang,
   swift-compiler, archive, shared-library) *)
Inductive tool : Type := TExternal | TPhony | TMkdir | TSymlink | TStaleRemoval.

(* BuildNode: type Plain / Virtual / Directory / DirectoryStructure, plus the command-timestamp flag (which forces
   type Virtual) *)
Inductive node_kind : Type := NPlain | NVirtual | NCommandTimestamp | NDirectory | NDirectoryStructure.

Definition vkind_eqb (a b : vkind) : bool :=
  match a, b with
  | VInvalid, VInvalid | VVirtualInput, VVirtualInput | VExistingInput, VExistingInput | VMissingInput, VMissingInput
  | VDirectoryContents, VDirectoryContents | VDirectoryTreeSignature, VDirectoryTreeSignature
  | VDirectoryTreeStructureSignature, VDirectoryTreeStructureSignature | VStaleFileRemoval, VStaleFileRemoval
  | VMissingOutput, VMissingOutput | VFailedInput, VFailedInput | VSuccessfulCommand, VSuccessfulCommand
  | VFailedCommand, VFailedCommand | VPropagatedFailureCommand, VPropagatedFailureCommand
  | VCancelledCommand, VCancelledCommand | VSkippedCommand, VSkippedCommand | VTarget, VTarget
  | VFilteredDirectoryContents, VFilteredDirectoryContents
  | VSuccessfulCommandWithOutputSignature, VSuccessfulCommandWithOutputSignature => true
  | _, _ => false
  end.

(* BuildValue::isSuccessfulCommand() *)
Definition is_successful (v : vkind) : bool :=
  match v with VSuccessfulCommand | VSuccessfulCommandWithOutputSignature => true | _ => false end.

(* value.isFailedCommand() || value.isPropagatedFailureCommand() || value.isCancelledCommand() *)
Definition is_failing_cmd (v : vkind) : bool :=
  match v with VFailedCommand | VPropagatedFailureCommand | VCancelledCommand => true | _ => false end.

(* buildNode->isVirtual() && !buildNode->isCommandTimestamp() *)
Definition virtual_not_timestamp (nk : node_kind) : bool :=
  match nk with NVirtual => true | _ => false end.

(* BuildNode::isVirtual() *)
Definition node_is_virtual (nk : node_kind) : bool :=
  match nk with NVirtual | NCommandTimestamp => true | _ => false end.

(* ---------------------------------------------------------------------------------------------------------
   getResultForOutput: the value of an output node derived from its producer's value.
   [missing] = the recorded FileInfo of that output isMissing() (only read for successful values). *)

(* ExternalCommand::getResultForOutput *)
Definition external_rfo (nk : node_kind) (v : vkind) (missing : bool) : vkind :=
  if is_failing_cmd v then VFailedInput
  else match v with
       | VSkippedCommand => VSkippedCommand
       | _ => if virtual_not_timestamp nk then VVirtualInput
              else if missing then VMissingOutput else VExistingInput
       end.

(* PhonyCommand::getResultForOutput: the virtual-output test comes FIRST, before the command value is looked at *)
Definition phony_rfo (nk : node_kind) (v : vkind) (missing : bool) : vkind :=
  if virtual_not_timestamp nk then VVirtualInput else external_rfo nk v missing.

(* SymlinkCommand::getResultForOutput *)
Definition symlink_rfo (v : vkind) (missing : bool) : vkind :=
  if is_failing_cmd v then VFailedInput
  else match v with
       | VSkippedCommand => VSkippedCommand
       | _ => if missing then VMissingOutput else VExistingInput
       end.

(* StaleFileRemovalCommand::getResultForOutput: a successful value is returned as is *)
Definition stale_rfo (v : vkind) : vkind :=
  if is_failing_cmd v then VFailedInput
  else match v with
       | VSkippedCommand => VSkippedCommand
       | _ => v
       end.

Definition result_for_output (t : tool) (nk : node_kind) (v : vkind) (missing : bool) : vkind :=
  match t with
  | TExternal | TMkdir => external_rfo nk v missing
  | TPhony => phony_rfo nk v missing
  | TSymlink => symlink_rfo v missing
  | TStaleRemoval => stale_rfo v
  end.

(* ProducedNodeTask / ProducedDirectoryNodeTask: the value of a node that has producers.
   [resolved] = exactly one producer, or the delegate chose one (otherwise isInvalid: FailedInput and
   hadCommandFailure).  A produced directory node whose stat result is ExistingInput asks for the directory tree
   signature and completes with that. *)
Definition produced_node_value (resolved : bool) (t : tool) (nk : node_kind) (v : vkind) (missing : bool) : vkind :=
  if negb resolved then VFailedInput
  else let r := result_for_output t nk v missing in
       match nk with
       | NDirectory => match r with VExistingInput => VDirectoryTreeSignature | _ => r end
       | _ => r
       end.

Definition produced_node_failures (resolved : bool) : nat := if resolved then 0 else 1.

(* ---------------------------------------------------------------------------------------------------------
   ExternalCommand::provideValue: what one input value does to the command. *)
Inductive effect : Type :=
| EIgnored          (* a command value (requested for a custom task): early return *)
| EProceed          (* getSkipValueForInput() = None *)
| EProceedMustRun   (* MissingOutput: None, and canUpdateIfNewer = false *)
| ESkip             (* skipValue = PropagatedFailureCommand *)
| ESkipMissing      (* the same, and the key is appended to missingInputKeys *)
| EUnexpected.      (* llvm_unreachable("unexpected input") *)

Definition input_effect (allow_missing : bool) (v : vkind) : effect :=
  match v with
  | VSuccessfulCommand | VSuccessfulCommandWithOutputSignature
  | VFailedCommand | VPropagatedFailureCommand | VCancelledCommand => EIgnored
  | VDirectoryTreeSignature | VDirectoryTreeStructureSignature | VExistingInput | VVirtualInput
  | VStaleFileRemoval => EProceed
  | VMissingOutput => EProceedMustRun
  | VMissingInput => if allow_missing then EProceed else ESkipMissing
  | VFailedInput => ESkip
  | VSkippedCommand => EProceed       (* "A skipped dependency doesn't cause this command to skip." *)
  | VInvalid | VDirectoryContents | VTarget | VFilteredDirectoryContents => EUnexpected
  end.

(* the build state of an ExternalCommand: skipValue.hasValue(), missingInputKeys.size() *)
Record cstate : Type := { cs_skip : bool; cs_missing : nat }.
Definition cs_init : cstate := {| cs_skip := false; cs_missing := 0 |}.   (* ExternalCommand::start *)

Definition provide (allow_missing : bool) (st : cstate) (v : vkind) : cstate :=
  match input_effect allow_missing v with
  | ESkip => {| cs_skip := true; cs_missing := cs_missing st |}
  | ESkipMissing => {| cs_skip := true; cs_missing := S (cs_missing st) |}
  | _ => st
  end.

Definition provide_all (allow_missing : bool) (vs : list vkind) : cstate :=
  fold_left (provide allow_missing) vs cs_init.

(* which command classes look at their input values at all: SymlinkCommand::start only issues mustFollow (and its
   provideValue is never called), StaleFileRemovalCommand drops its declared inputs in configureInputs *)
Definition uses_inputs (t : tool) : bool :=
  match t with TExternal | TPhony | TMkdir => true | TSymlink | TStaleRemoval => false end.

(* the status the launched work ends with (ProcessStatus Succeeded / Failed / Cancelled) *)
Inductive exec_result : Type := XOk | XFailed | XCancelled.

Record outcome : Type := {
  o_value : vkind;        (* what the CommandTask completes with *)
  o_executes : bool;      (* commandStarted is reached: the process / the work is launched *)
  o_failures : nat        (* calls of hadCommandFailure made for this command *)
}.

Definition success_kind (t : tool) : vkind :=
  match t with TStaleRemoval => VStaleFileRemoval | _ => VSuccessfulCommand end.

(* CommandTask::inputsAvailable followed by <Command>::execute.
   cancelled    = ti.isCancelled() when the job starts
   should_start = delegate.shouldCommandStart(command)
   skip, missing = the command state after all inputs were provided
   upd          = the update-if-newer shortcut applies (canUpdateIfNewer && hasPriorResult &&
                  canUpdateIfNewerWithResult): a successful value without launching anything *)
Definition command_outcome (t : tool) (cancelled should_start skip : bool) (missing : nat) (upd : bool)
           (x : exec_result) : outcome :=
  if cancelled then {| o_value := VCancelledCommand; o_executes := false; o_failures := 0 |}
  else if negb should_start then {| o_value := VSkippedCommand; o_executes := false; o_failures := 0 |}
  else if skip then {| o_value := VPropagatedFailureCommand; o_executes := false;
                       o_failures := match missing with 0 => 0 | S _ => 1 end |}
  else if upd then {| o_value := success_kind t; o_executes := false; o_failures := 0 |}
  else match x with
       | XOk => {| o_value := success_kind t; o_executes := true; o_failures := 0 |}
       | XFailed => {| o_value := VFailedCommand; o_executes := true; o_failures := 1 |}
       | XCancelled => {| o_value := VCancelledCommand; o_executes := true; o_failures := 0 |}
       end.

Definition run_command (t : tool) (allow_missing cancelled should_start upd : bool) (inputs : list vkind)
           (x : exec_result) : outcome :=
  let st := if uses_inputs t then provide_all allow_missing inputs else cs_init in
  (* the shortcut exists in ExternalCommand::execute only *)
  command_outcome t cancelled should_start (cs_skip st) (cs_missing st) (upd && uses_inputs t) x.

(* ---------------------------------------------------------------------------------------------------------
   The update-if-newer shortcut of ExternalCommand::execute:
     if (canUpdateIfNewer && hasPriorResult) { result = computeCommandResult(); if (canUpdateIfNewerWithResult(result)) return result; }
   hasPriorResult          providePriorValue: set only when the recorded value isSuccessfulCommand()
   canUpdateIfNewer        cleared by provideValue when an input value is MissingOutput; [can_update0] is the member's
                           value when the build begins (it is not reset by start(): a command object reused by a later
                           build of the same build system keeps a cleared flag)
   canUpdateIfNewerWithResult   allowModifiedOutputs && no output info of the fresh stat result is missing *)
Definition has_prior_result (prior : option vkind) : bool :=
  match prior with Some v => is_successful v | None => false end.

Definition inputs_keep_update (vs : list vkind) : bool :=
  forallb (fun v => negb (vkind_eqb v VMissingOutput)) vs.

Definition update_shortcut (can_update0 allow_modified outputs_exist : bool) (prior : option vkind)
           (inputs : list vkind) : bool :=
  can_update0 && inputs_keep_update inputs && has_prior_result prior && allow_modified && outputs_exist.

(* a command run with its recorded prior value made explicit *)
Definition run_command_prior (t : tool) (allow_missing cancelled should_start : bool)
           (can_update0 allow_modified outputs_exist : bool) (prior : option vkind)
           (inputs : list vkind) (x : exec_result) : outcome :=
  run_command t allow_missing cancelled should_start
              (update_shortcut can_update0 allow_modified outputs_exist prior inputs) inputs x.

(* ---------------------------------------------------------------------------------------------------------
   isResultValid.  [fs_ok] abstracts the file-system comparison the code makes for a successful value
   (outputs unchanged / directory exists / link unchanged). *)
Definition cmd_valid (t : tool) (always_out_of_date : bool) (v : vkind) (fs_ok : bool) : bool :=
  match t with
  | TExternal | TPhony => if always_out_of_date then false else if negb (is_successful v) then false else fs_ok
  | TMkdir => if negb (is_successful v) then false else fs_ok
  | TSymlink => if negb (is_successful v) then false else fs_ok
  | TStaleRemoval => false
  end.

(* the rules lookupRule creates for node and target keys *)
Inductive node_rule : Type :=
| RProduced | RProducedDirectory | RVirtualInput | RFileInput | RDirectoryInput | RDirectoryStructureInput | RTarget.

Definition node_valid (r : node_rule) (v : vkind) (fs_missing fs_same : bool) : bool :=
  match r with
  | RProduced | RProducedDirectory =>
      match v with VFailedInput | VMissingInput => false | _ => true end
  | RVirtualInput => vkind_eqb v VVirtualInput
  | RFileInput => if fs_missing then vkind_eqb v VMissingInput else vkind_eqb v VExistingInput && fs_same
  | RDirectoryInput | RDirectoryStructureInput => true     (* IsValid = nullptr *)
  | RTarget => false
  end.

(* ---------------------------------------------------------------------------------------------------------
   TargetTask: reports "cannot build target ... due to missing inputs" and hadCommandFailure iff some input value
   is MissingInput.  (A FailedInput is not reported again: its producer already was.) *)
Definition target_reports (inputs : list vkind) : bool := existsb (vkind_eqb VMissingInput) inputs.
Definition target_failures (inputs : list vkind) : nat := if target_reports inputs then 1 else 0.

(* BuildSystemFrontend::build: !cancelled && numFailedCommands == 0 && numErrors == 0 *)
Definition build_ok (cancelled : bool) (failures errors : nat) : bool :=
  negb cancelled && Nat.eqb failures 0 && Nat.eqb errors 0.

(* ---------------------------------------------------------------------------------------------------------
   Consumption chains: node -> command -> node -> command -> ... of any length, any tools and node kinds.
   A hop is one command together with the output node the next hop consumes. *)
Record hop : Type := {
  h_tool : tool;
  h_allow_missing : bool;
  h_cancelled : bool;
  h_should_start : bool;
  h_upd : bool;
  h_before : list vkind;      (* values of its other inputs provided before the chain input *)
  h_after : list vkind;       (* ... and after it *)
  h_exec : exec_result;       (* what the work returns IF it is launched *)
  h_out_kind : node_kind;     (* the output node consumed by the next hop *)
  h_out_missing : bool;       (* that output is missing after a successful run *)
  h_resolved : bool           (* that node has a single (or chosen) producer *)
}.

Definition run_hop (nv : vkind) (h : hop) : outcome * vkind :=
  let o := run_command (h_tool h) (h_allow_missing h) (h_cancelled h) (h_should_start h) (h_upd h)
                       (h_before h ++ nv :: h_after h) (h_exec h) in
  (o, produced_node_value (h_resolved h) (h_tool h) (h_out_kind h) (o_value o) (h_out_missing h)).

Fixpoint run_chain (nv : vkind) (hs : list hop) : list (outcome * vkind) :=
  match hs with
  | [] => []
  | h :: rest => let r := run_hop nv h in r :: run_chain (snd r) rest
  end.

(* the hops through which the code does NOT carry failure on:
   - a phony command's virtual output is VirtualInput whatever the command's value;
   - a delegate that answers shouldCommandStart = false turns a command with a failed input into SkippedCommand,
     and a skipped dependency does not make its consumers skip;
   - symlink commands only order themselves after their declared inputs (and stale-file-removal commands
     have none). *)
Definition launders (t : tool) (nk : node_kind) : bool :=
  match t with TPhony => virtual_not_timestamp nk | _ => false end.

Definition regular_hop (h : hop) : bool :=
  uses_inputs (h_tool h) && (h_cancelled h || h_should_start h) && negb (launders (h_tool h) (h_out_kind h)).

Definition chain_failures (rs : list (outcome * vkind)) : nat :=
  fold_right (fun r acc => o_failures (fst r) + acc) 0 rs.

Definition hop_node_failures (hs : list hop) : nat :=
  fold_right (fun h acc => produced_node_failures (h_resolved h) + acc) 0 hs.
