(* Proofs about the failure-propagation model (property C10). *)
From Coq Require Import List Bool Arith Lia.
Import ListNotations.
From LLB Require Import BSys.Failure.

(* ---------- small facts about value kinds ---------- *)

Lemma vkind_eqb_eq a b : vkind_eqb a b = true <-> a = b.
Proof. split; [destruct a, b; cbn; intro H; try discriminate H; reflexivity | intros ->; destruct b; reflexivity]. Qed.

Lemma failing_not_successful v : is_failing_cmd v = true -> is_successful v = false.
Proof. destruct v; cbn; intro H; try discriminate H; reflexivity. Qed.

Lemma success_kind_not_failing t : is_failing_cmd (success_kind t) = false.
Proof. destruct t; reflexivity. Qed.

(* ---------- getResultForOutput on failing values ---------- *)

(* every command class maps a failing command value to FailedInput - except a phony command's virtual output *)
Lemma rfo_failing t nk v m :
  is_failing_cmd v = true -> launders t nk = false -> result_for_output t nk v m = VFailedInput.
Proof.
  intros Hv Hl.
  destruct v; cbn in Hv; try discriminate Hv; destruct t; destruct nk; cbn in Hl; try discriminate Hl; reflexivity.
Qed.

Lemma pnv_failing r t nk v m :
  is_failing_cmd v = true -> launders t nk = false -> produced_node_value r t nk v m = VFailedInput.
Proof.
  intros Hv Hl. unfold produced_node_value. destruct r; cbn [negb]; [|reflexivity].
  rewrite (rfo_failing t nk v m Hv Hl). destruct nk; reflexivity.
Qed.

(* and the exception really is one: whatever the phony command's value, its virtual output is VirtualInput *)
Lemma pnv_phony_virtual v m : produced_node_value true TPhony NVirtual v m = VVirtualInput.
Proof. reflexivity. Qed.

(* ---------- provideValue folded over the inputs ---------- *)

Definition skips (a : bool) (v : vkind) : bool :=
  match input_effect a v with ESkip | ESkipMissing => true | _ => false end.

Lemma skips_failed_input a : skips a VFailedInput = true.
Proof. reflexivity. Qed.

Lemma provide_skip a st v : cs_skip (provide a st v) = cs_skip st || skips a v.
Proof.
  unfold provide, skips. destruct (input_effect a v); cbn [cs_skip]; rewrite ?orb_true_r, ?orb_false_r; reflexivity.
Qed.

Lemma fold_skip a vs : forall st,
  cs_skip (fold_left (provide a) vs st) = cs_skip st || existsb (skips a) vs.
Proof.
  induction vs as [|v vs IH]; intro st; cbn [fold_left existsb].
  - rewrite orb_false_r. reflexivity.
  - rewrite IH, provide_skip, orb_assoc. reflexivity.
Qed.

Lemma provide_missing_mono a st v : cs_missing st <= cs_missing (provide a st v).
Proof. unfold provide. destruct (input_effect a v); cbn [cs_missing]; lia. Qed.

Lemma fold_missing_mono a vs : forall st, cs_missing st <= cs_missing (fold_left (provide a) vs st).
Proof.
  induction vs as [|v vs IH]; intro st; cbn [fold_left]; [lia|].
  specialize (IH (provide a st v)). pose proof (provide_missing_mono a st v). lia.
Qed.

(* the skip flag is set by a FailedInput, or by a MissingInput that was counted *)
Lemma fold_skip_cases a vs : forall st,
  cs_skip (fold_left (provide a) vs st) = true ->
  cs_skip st = true \/ In VFailedInput vs \/ cs_missing st < cs_missing (fold_left (provide a) vs st).
Proof.
  induction vs as [|v vs IH]; intros st H; cbn [fold_left] in *; [left; exact H|].
  destruct (IH _ H) as [H1 | [H2 | H3]].
  - unfold provide in H1. pose proof (fold_missing_mono a vs (provide a st v)) as Hm.
    destruct (input_effect a v) eqn:E.
    + left; exact H1.
    + left; exact H1.
    + left; exact H1.
    + right; left. left. destruct v; destruct a; cbn in E; try discriminate E; reflexivity.
    + right; right.
      assert (Hp : cs_missing (provide a st v) = S (cs_missing st)) by (unfold provide; rewrite E; reflexivity).
      lia.
    + left; exact H1.
  - right; left. right; exact H2.
  - right; right. pose proof (provide_missing_mono a st v). lia.
Qed.

Lemma provide_all_skip_cases a vs :
  cs_skip (provide_all a vs) = true -> In VFailedInput vs \/ 0 < cs_missing (provide_all a vs).
Proof.
  unfold provide_all. intro H. destruct (fold_skip_cases a vs cs_init H) as [H1 | [H2 | H3]].
  - discriminate H1.
  - left; exact H2.
  - right. cbn [cs_init cs_missing] in H3. exact H3.
Qed.

Lemma provide_all_failed_input a vs : In VFailedInput vs -> cs_skip (provide_all a vs) = true.
Proof.
  intro H. unfold provide_all. rewrite fold_skip. cbn [cs_init cs_skip orb].
  apply existsb_exists. exists VFailedInput. split; [exact H | reflexivity].
Qed.

(* the skip flag once set stays set: the SECOND failing input, and inputs after it, cannot clear it *)
Lemma provide_all_skip_app a vs ws :
  cs_skip (provide_all a vs) = true -> cs_skip (provide_all a (vs ++ ws)) = true.
Proof.
  unfold provide_all. rewrite fold_left_app, (fold_skip a ws). intros ->. reflexivity.
Qed.

(* ---------- one command ---------- *)

(* a command that looks at its inputs and receives a FailedInput is not launched and its value is failing *)
Lemma consumer_of_failed_input t a c s u ins x :
  uses_inputs t = true -> (c || s) = true -> In VFailedInput ins ->
  o_executes (run_command t a c s u ins x) = false /\
  is_failing_cmd (o_value (run_command t a c s u ins x)) = true.
Proof.
  intros Hu Hcs Hin. unfold run_command. rewrite Hu. rewrite (provide_all_failed_input a ins Hin).
  unfold command_outcome. destruct c; cbn [o_executes o_value]; [split; reflexivity|].
  cbn [orb] in Hcs. rewrite Hcs. cbn [negb o_executes o_value]. split; reflexivity.
Qed.

(* the values a command can complete with *)
Lemma run_command_value_cases t a c s u ins x :
  let v := o_value (run_command t a c s u ins x) in
  v = VCancelledCommand \/ v = VSkippedCommand \/ v = VPropagatedFailureCommand \/ v = success_kind t \/ v = VFailedCommand.
Proof.
  cbv zeta. unfold run_command, command_outcome.
  destruct c; cbn [o_value]; [left; reflexivity|].
  destruct s; cbn [negb o_value]; [|right; left; reflexivity].
  destruct (cs_skip _); cbn [o_value]; [right; right; left; reflexivity|].
  destruct (u && uses_inputs t); cbn [o_value]; [right; right; right; left; reflexivity|].
  destruct x; cbn [o_value]; auto.
Qed.

(* where a failing value can come from *)
Lemma run_command_failing_cases t a c s u ins x :
  is_failing_cmd (o_value (run_command t a c s u ins x)) = true ->
  c = true \/ In VFailedInput ins \/ 0 < o_failures (run_command t a c s u ins x) \/ x = XCancelled.
Proof.
  unfold run_command, command_outcome.
  destruct c; [left; reflexivity|].
  destruct s; cbn [negb o_value o_failures]; [|intro H; discriminate H].
  destruct (uses_inputs t) eqn:Hu.
  - destruct (cs_skip (provide_all a ins)) eqn:Hs; cbn [o_value o_failures].
    + intros _. destruct (provide_all_skip_cases a ins Hs) as [H1 | H2].
      * right; left; exact H1.
      * right; right; left. destruct (cs_missing (provide_all a ins)); [inversion H2 | lia].
    + destruct (u && true); cbn [o_value o_failures].
      * rewrite success_kind_not_failing. intro H; discriminate H.
      * destruct x; cbn [o_value o_failures].
        -- rewrite success_kind_not_failing. intro H; discriminate H.
        -- intros _. right; right; left. lia.
        -- intros _. right; right; right. reflexivity.
  - cbn [cs_init cs_skip cs_missing]. rewrite andb_false_r. destruct x; cbn [o_value o_failures].
    + rewrite success_kind_not_failing. intro H; discriminate H.
    + intros _. right; right; left. lia.
    + intros _. right; right; right. reflexivity.
Qed.

(* ---------- one hop ---------- *)

(* Producer value failing (Failed / PropagatedFailure / Cancelled), any producer class and any kind of output node
   other than a phony command's virtual output, any consumer that looks at its inputs (with any other inputs
   before and after, any flags, whatever its process would have returned): the consumer is not launched and its
   own value is failing again. *)
Theorem fail_propagates_one_hop :
  forall (pt : tool) (nk : node_kind) (pv : vkind) (pmissing presolved : bool)
         (ct : tool) (a c s u : bool) (before after : list vkind) (x : exec_result),
    is_failing_cmd pv = true -> launders pt nk = false ->
    uses_inputs ct = true -> (c || s) = true ->
    let nv := produced_node_value presolved pt nk pv pmissing in
    let o := run_command ct a c s u (before ++ nv :: after) x in
    nv = VFailedInput /\ o_executes o = false /\ is_failing_cmd (o_value o) = true.
Proof.
  intros pt nk pv pm pr ct a c s u before after x Hv Hl Hu Hcs. cbv zeta.
  rewrite (pnv_failing pr pt nk pv pm Hv Hl). split; [reflexivity|].
  apply consumer_of_failed_input; [exact Hu | exact Hcs | apply in_or_app; right; left; reflexivity].
Qed.

Lemma regular_hop_parts h :
  regular_hop h = true ->
  uses_inputs (h_tool h) = true /\ (h_cancelled h || h_should_start h) = true /\ launders (h_tool h) (h_out_kind h) = false.
Proof.
  unfold regular_hop. intro H. apply andb_prop in H. destruct H as [H H3]. apply andb_prop in H. destruct H as [H1 H2].
  repeat split; [exact H1 | exact H2 | apply negb_true_iff; exact H3].
Qed.

Lemma regular_hop_on_failed_input h :
  regular_hop h = true ->
  let r := run_hop VFailedInput h in
  o_executes (fst r) = false /\ is_failing_cmd (o_value (fst r)) = true /\ snd r = VFailedInput.
Proof.
  intro Hr. destruct (regular_hop_parts h Hr) as [Hu [Hcs Hl]]. cbv zeta. unfold run_hop. cbn [fst snd].
  destruct (consumer_of_failed_input (h_tool h) (h_allow_missing h) (h_cancelled h) (h_should_start h) (h_upd h)
              (h_before h ++ VFailedInput :: h_after h) (h_exec h) Hu Hcs) as [He Hf].
  { apply in_or_app; right; left; reflexivity. }
  split; [exact He|]. split; [exact Hf|]. apply pnv_failing; [exact Hf | exact Hl].
Qed.

(* ---------- chains of any length ---------- *)

Definition blocked (r : outcome * vkind) : Prop :=
  o_executes (fst r) = false /\ is_failing_cmd (o_value (fst r)) = true /\ snd r = VFailedInput.

(* For ALL chains: behind a FailedInput, as long as every hop is regular, no command is launched, every command value
   is failing and every node value is FailedInput. *)
Theorem fail_propagates_chain :
  forall hs : list hop, forallb regular_hop hs = true -> Forall blocked (run_chain VFailedInput hs).
Proof.
  induction hs as [|h hs IH]; intro H; cbn [run_chain]; [constructor|].
  cbn [forallb] in H. apply andb_prop in H. destruct H as [Hh Hs].
  destruct (regular_hop_on_failed_input h Hh) as [He [Hf Hn]].
  constructor.
  - unfold blocked. auto.
  - rewrite Hn. apply IH. exact Hs.
Qed.

(* The same, starting at the command that fails (or is cancelled) itself: whatever made the first command's value
   failing, if its output is not a phony command's virtual output, nothing behind it is launched. *)
Theorem fail_propagates_from_command :
  forall (nv : vkind) (h0 : hop) (hs : list hop),
    is_failing_cmd (o_value (fst (run_hop nv h0))) = true ->
    launders (h_tool h0) (h_out_kind h0) = false ->
    forallb regular_hop hs = true ->
    Forall blocked (tl (run_chain nv (h0 :: hs))).
Proof.
  intros nv h0 hs Hf Hl Hs. cbn [run_chain tl].
  assert (Hn : snd (run_hop nv h0) = VFailedInput).
  { unfold run_hop in *. cbn [fst snd] in *. apply pnv_failing; [exact Hf | exact Hl]. }
  rewrite Hn. apply fail_propagates_chain. exact Hs.
Qed.

(* ---------- the exceptions, as witnesses ---------- *)

Definition shell_hop (x : exec_result) (nk : node_kind) : hop :=
  {| h_tool := TExternal; h_allow_missing := false; h_cancelled := false; h_should_start := true; h_upd := false;
     h_before := []; h_after := []; h_exec := x; h_out_kind := nk; h_out_missing := false; h_resolved := true |}.

Definition tool_hop (t : tool) (nk : node_kind) : hop :=
  {| h_tool := t; h_allow_missing := false; h_cancelled := false; h_should_start := true; h_upd := false;
     h_before := []; h_after := []; h_exec := XOk; h_out_kind := nk; h_out_missing := false; h_resolved := true |}.

(* F fails; P is a phony command consuming F's file and producing the virtual node <p>; D consumes <p>.
   P is not launched and is PropagatedFailure, yet D is launched and succeeds. *)
Theorem phony_virtual_refuted :
  exists hF hP hD : hop,
    uses_inputs (h_tool hD) = true /\ h_should_start hD = true /\ h_cancelled hD = false /\
    match run_chain VExistingInput [hF; hP; hD] with
    | [rF; rP; rD] =>
        o_value (fst rF) = VFailedCommand /\ snd rF = VFailedInput /\
        o_executes (fst rP) = false /\ o_value (fst rP) = VPropagatedFailureCommand /\ snd rP = VVirtualInput /\
        o_executes (fst rD) = true /\ o_value (fst rD) = VSuccessfulCommand
    | _ => False
    end.
Proof.
  exists (shell_hop XFailed NPlain), (tool_hop TPhony NVirtual), (shell_hop XOk NPlain).
  vm_compute. repeat split; reflexivity.
Qed.

(* F fails; S is a symlink command with F's output as declared input; E consumes the link. S and E are launched. *)
Theorem symlink_refuted :
  exists hF hS hE : hop,
    uses_inputs (h_tool hE) = true /\ h_should_start hS = true /\ h_should_start hE = true /\
    match run_chain VExistingInput [hF; hS; hE] with
    | [rF; rS; rE] =>
        o_value (fst rF) = VFailedCommand /\ snd rF = VFailedInput /\
        o_executes (fst rS) = true /\ o_value (fst rS) = VSuccessfulCommand /\ snd rS = VExistingInput /\
        o_executes (fst rE) = true /\ o_value (fst rE) = VSuccessfulCommand
    | _ => False
    end.
Proof.
  exists (shell_hop XFailed NPlain), (tool_hop TSymlink NPlain), (shell_hop XOk NPlain).
  vm_compute. repeat split; reflexivity.
Qed.

(* F fails; the delegate answers shouldCommandStart(C) = false for its consumer C: C is SkippedCommand (not
   PropagatedFailure), its output node is SkippedCommand, and D behind it is launched. *)
Theorem delegate_skip_refuted :
  exists hF hC hD : hop,
    uses_inputs (h_tool hC) = true /\ uses_inputs (h_tool hD) = true /\ h_should_start hC = false /\
    h_should_start hD = true /\
    match run_chain VExistingInput [hF; hC; hD] with
    | [rF; rC; rD] =>
        o_value (fst rF) = VFailedCommand /\ snd rF = VFailedInput /\
        o_executes (fst rC) = false /\ o_value (fst rC) = VSkippedCommand /\ snd rC = VSkippedCommand /\
        o_executes (fst rD) = true /\ o_value (fst rD) = VSuccessfulCommand
    | _ => False
    end.
Proof.
  exists (shell_hop XFailed NPlain),
         {| h_tool := TExternal; h_allow_missing := false; h_cancelled := false; h_should_start := false; h_upd := false;
            h_before := []; h_after := []; h_exec := XOk; h_out_kind := NPlain; h_out_missing := false; h_resolved := true |},
         (shell_hop XOk NPlain).
  vm_compute. repeat split; reflexivity.
Qed.

(* ---------- recorded failing values are never up to date ---------- *)

Theorem never_valid_cmd :
  forall (t : tool) (always_out_of_date : bool) (v : vkind) (fs_ok : bool),
    is_successful v = false -> cmd_valid t always_out_of_date v fs_ok = false.
Proof.
  intros t aood v fs Hv. unfold cmd_valid. rewrite Hv. cbn [negb]. destruct t; destruct aood; reflexivity.
Qed.

Theorem never_valid :
  forall (t : tool) (always_out_of_date : bool) (v : vkind) (fs_ok fs_missing fs_same : bool),
    (is_failing_cmd v = true -> cmd_valid t always_out_of_date v fs_ok = false) /\
    node_valid RProduced VFailedInput fs_missing fs_same = false /\
    node_valid RProducedDirectory VFailedInput fs_missing fs_same = false /\
    node_valid RProduced VMissingInput fs_missing fs_same = false /\
    node_valid RProducedDirectory VMissingInput fs_missing fs_same = false /\
    (forall w, node_valid RTarget w fs_missing fs_same = false).
Proof.
  intros t aood v fs fm fsame. split.
  - intro Hv. apply never_valid_cmd. apply failing_not_successful. exact Hv.
  - repeat split; reflexivity.
Qed.

Theorem skipped_never_valid :
  forall (t : tool) (always_out_of_date fs_ok : bool),
    cmd_valid t always_out_of_date VSkippedCommand fs_ok = false /\
    cmd_valid t always_out_of_date VInvalid fs_ok = false.
Proof. intros t aood fs. split; apply never_valid_cmd; reflexivity. Qed.

(* ---------- a recorded non-successful value never enables the update-if-newer shortcut ---------- *)

Lemma shortcut_needs_successful_prior cu am oe prior ins :
  update_shortcut cu am oe prior ins = true -> exists v, prior = Some v /\ is_successful v = true.
Proof.
  unfold update_shortcut. intro H.
  apply andb_prop in H. destruct H as [H _]. apply andb_prop in H. destruct H as [H _].
  apply andb_prop in H. destruct H as [_ H].
  destruct prior as [v|]; cbn [has_prior_result] in H; [|discriminate H].
  exists v. split; [reflexivity | exact H].
Qed.

(* The recorded result is Failed / PropagatedFailure / Cancelled / Skipped / anything not successful (or there is
   none): whatever the flags (allow-modified-outputs, outputs all present, leaked canUpdateIfNewer), the shortcut is not
   taken; and a command that is neither cancelled, vetoed by the delegate nor skipped for its inputs is LAUNCHED
   again. *)
Theorem failed_prior_never_shortcuts :
  forall (t : tool) (a cu am oe : bool) (prior : option vkind) (ins : list vkind) (x : exec_result),
    (forall v, prior = Some v -> is_successful v = false) ->
    update_shortcut cu am oe prior ins = false /\
    (cs_skip (if uses_inputs t then provide_all a ins else cs_init) = false ->
     o_executes (run_command_prior t a false true cu am oe prior ins x) = true).
Proof.
  intros t a cu am oe prior ins x Hp.
  assert (Hs : update_shortcut cu am oe prior ins = false).
  { destruct (update_shortcut cu am oe prior ins) eqn:E; [|reflexivity].
    destruct (shortcut_needs_successful_prior _ _ _ _ _ E) as [v [Hv Hsucc]].
    rewrite (Hp v Hv) in Hsucc. discriminate Hsucc. }
  split; [exact Hs|].
  intro Hskip. unfold run_command_prior. rewrite Hs. unfold run_command. cbn [andb].
  unfold command_outcome. cbn [negb]. rewrite Hskip. destruct x; reflexivity.
Qed.

(* the shortcut is real for a successful prior: not launched, successful value *)
Example shortcut_instance :
  let o := run_command_prior TExternal false false true true true true (Some VSuccessfulCommand) [VExistingInput] XFailed in
  o_executes o = false /\ o_value o = VSuccessfulCommand.
Proof. vm_compute. split; reflexivity. Qed.

Example failed_prior_instance :
  let o := run_command_prior TExternal false false true true true true (Some VFailedCommand) [VExistingInput] XFailed in
  o_executes o = true /\ o_value o = VFailedCommand /\ o_failures o = 1.
Proof. vm_compute. repeat split; reflexivity. Qed.

(* ---------- the build reports failure ---------- *)

Theorem target_reports_iff : forall vs : list vkind, target_reports vs = true <-> In VMissingInput vs.
Proof.
  intro vs. unfold target_reports. rewrite existsb_exists. split.
  - intros [x [Hin Hx]]. apply vkind_eqb_eq in Hx. subst x. exact Hin.
  - intro H. exists VMissingInput. split; [exact H | reflexivity].
Qed.

Lemma run_hop_failed_input_cases nv h :
  snd (run_hop nv h) = VFailedInput ->
  h_resolved h = false \/ is_failing_cmd (o_value (fst (run_hop nv h))) = true.
Proof.
  unfold run_hop. cbn [fst snd]. unfold produced_node_value.
  destruct (h_resolved h); cbn [negb]; [|intros _; left; reflexivity].
  intro H. right.
  pose proof (run_command_value_cases (h_tool h) (h_allow_missing h) (h_cancelled h) (h_should_start h) (h_upd h)
                (h_before h ++ nv :: h_after h) (h_exec h)) as Hc. cbv zeta in Hc.
  destruct Hc as [Hc | [Hc | [Hc | [Hc | Hc]]]]; rewrite Hc in *; try reflexivity.
  - destruct (h_tool h); destruct (h_out_kind h); destruct (h_out_missing h); cbn in H; discriminate H.
  - destruct (h_tool h); destruct (h_out_kind h); destruct (h_out_missing h); cbn in H; discriminate H.
Qed.

Definition side_failed (h : hop) : Prop := In VFailedInput (h_before h ++ h_after h).
Definition hop_cancelled (h : hop) : Prop := h_cancelled h = true \/ h_exec h = XCancelled.
Definition failing_result (r : outcome * vkind) : Prop := is_failing_cmd (o_value (fst r)) = true.

Lemma head_failing_cases nv h :
  failing_result (run_hop nv h) ->
  nv = VFailedInput \/ side_failed h \/ hop_cancelled h \/ 0 < o_failures (fst (run_hop nv h)).
Proof.
  unfold failing_result, run_hop. cbn [fst]. intro H.
  destruct (run_command_failing_cases _ _ _ _ _ _ _ H) as [H1 | [H2 | [H3 | H4]]].
  - right; right; left. left. exact H1.
  - apply in_app_or in H2. destruct H2 as [H2 | [H2 | H2]].
    + right; left. apply in_or_app. left. exact H2.
    + left. exact H2.
    + right; left. apply in_or_app. right. exact H2.
  - right; right; right. exact H3.
  - right; right; left. right. exact H4.
Qed.

Lemma run_chain_cons nv h hs : run_chain nv (h :: hs) = run_hop nv h :: run_chain (snd (run_hop nv h)) hs.
Proof. reflexivity. Qed.
Lemma chain_failures_cons r rs : chain_failures (r :: rs) = o_failures (fst r) + chain_failures rs.
Proof. reflexivity. Qed.
Lemma hop_node_failures_cons h hs : hop_node_failures (h :: hs) = produced_node_failures (h_resolved h) + hop_node_failures hs.
Proof. reflexivity. Qed.

(* A failing command value never appears silently: either the failure entered the chain from outside (the first node,
   or a side input, already was FailedInput), or the build was cancelled, or hadCommandFailure was called. *)
Theorem failing_value_is_reported :
  forall (hs : list hop) (nv : vkind),
    Exists failing_result (run_chain nv hs) ->
    nv = VFailedInput \/ Exists side_failed hs \/ Exists hop_cancelled hs \/
    0 < chain_failures (run_chain nv hs) + hop_node_failures hs.
Proof.
  induction hs as [|h hs IH]; intros nv H; [inversion H|].
  rewrite run_chain_cons in *. rewrite chain_failures_cons, hop_node_failures_cons.
  assert (Hhead : failing_result (run_hop nv h) ->
                  nv = VFailedInput \/ Exists side_failed (h :: hs) \/ Exists hop_cancelled (h :: hs) \/
                  0 < o_failures (fst (run_hop nv h)) + chain_failures (run_chain (snd (run_hop nv h)) hs) +
                      (produced_node_failures (h_resolved h) + hop_node_failures hs)).
  { intro Hf. destruct (head_failing_cases nv h Hf) as [H1 | [H2 | [H3 | H4]]].
    - left; exact H1.
    - right; left. apply Exists_cons_hd. exact H2.
    - right; right; left. apply Exists_cons_hd. exact H3.
    - right; right; right. lia. }
  apply Exists_cons in H. destruct H as [Hf | Ht].
  - apply Hhead. exact Hf.
  - destruct (IH _ Ht) as [H1 | [H2 | [H3 | H4]]].
    + destruct (run_hop_failed_input_cases nv h H1) as [Hr | Hf].
      * right; right; right. rewrite Hr. cbn [produced_node_failures]. lia.
      * apply Hhead. exact Hf.
    + right; left. apply Exists_cons_tl. exact H2.
    + right; right; left. apply Exists_cons_tl. exact H3.
    + right; right; right. lia.
Qed.

Lemma build_ok_false c f e : c = true \/ 0 < f -> build_ok c f e = false.
Proof.
  unfold build_ok. intros [-> | Hf]; [reflexivity|].
  destruct f; [inversion Hf|]. cbn [Nat.eqb]. rewrite andb_false_r. reflexivity.
Qed.

(* The frontend's success flag: if some command of the chain has a failing value that originated inside the chain,
   BuildSystemFrontend::build answers false - provided a cancelled task means the frontend's `cancelled` flag is
   set (which is how cancellation reaches the engine: BuildSystemFrontendImpl::cancel). *)
Theorem build_reports_failure :
  forall (hs : list hop) (nv : vkind) (cancelled : bool) (other_failures errors : nat),
    Exists failing_result (run_chain nv hs) ->
    nv <> VFailedInput -> ~ Exists side_failed hs ->
    (Exists hop_cancelled hs -> cancelled = true) ->
    build_ok cancelled (chain_failures (run_chain nv hs) + hop_node_failures hs + other_failures) errors = false.
Proof.
  intros hs nv c f e H Hnv Hside Hc.
  destruct (failing_value_is_reported hs nv H) as [H1 | [H2 | [H3 | H4]]].
  - contradiction.
  - contradiction.
  - apply build_ok_false. left. apply Hc. exact H3.
  - apply build_ok_false. right. lia.
Qed.

(* ---------- non-vacuity ---------- *)

(* a five-hop chain through every output node kind and the three input-reading command classes *)
Example chain_instance :
  let hs := [ {| h_tool := TExternal; h_allow_missing := true; h_cancelled := false; h_should_start := true; h_upd := true;
                 h_before := [VExistingInput]; h_after := [VMissingInput]; h_exec := XOk; h_out_kind := NVirtual;
                 h_out_missing := false; h_resolved := true |};
              tool_hop TPhony NCommandTimestamp; tool_hop TMkdir NDirectory; tool_hop TPhony NPlain;
              shell_hop XOk NDirectoryStructure ] in
  forallb regular_hop hs = true /\
  map (fun r => (o_executes (fst r), o_value (fst r), snd r)) (run_chain VFailedInput hs) =
  [ (false, VPropagatedFailureCommand, VFailedInput); (false, VPropagatedFailureCommand, VFailedInput);
    (false, VPropagatedFailureCommand, VFailedInput); (false, VPropagatedFailureCommand, VFailedInput);
    (false, VPropagatedFailureCommand, VFailedInput) ].
Proof. vm_compute. split; reflexivity. Qed.

(* the same chain runs every command when nothing failed *)
Example chain_instance_success :
  map (fun r => o_executes (fst r))
      (run_chain VExistingInput [shell_hop XOk NPlain; tool_hop TPhony NVirtual; tool_hop TMkdir NDirectory; shell_hop XOk NPlain])
  = [true; true; true; true].
Proof. vm_compute. reflexivity. Qed.

Example one_hop_instance :
  let nv := produced_node_value true TSymlink NPlain VCancelledCommand false in
  let o := run_command TMkdir true false true true ([VExistingInput; VMissingInput] ++ nv :: [VSkippedCommand]) XOk in
  nv = VFailedInput /\ o_executes o = false /\ o_value o = VPropagatedFailureCommand.
Proof. vm_compute. repeat split; reflexivity. Qed.

Example from_command_instance :
  is_failing_cmd (o_value (fst (run_hop VExistingInput (shell_hop XFailed NDirectory)))) = true /\
  launders TExternal NDirectory = false /\
  forallb regular_hop [tool_hop TPhony NPlain; shell_hop XOk NPlain] = true.
Proof. vm_compute. repeat split; reflexivity. Qed.

(* a chain whose failure starts inside (the first command's process fails): one failure is counted and the
   frontend's flag is false *)
Example reports_instance :
  let hs := [shell_hop XFailed NPlain; shell_hop XOk NPlain] in
  Exists failing_result (run_chain VExistingInput hs) /\
  chain_failures (run_chain VExistingInput hs) = 1 /\
  build_ok false (chain_failures (run_chain VExistingInput hs) + hop_node_failures hs + 0) 0 = false.
Proof. cbv zeta. split; [apply Exists_cons_hd; vm_compute; reflexivity | split; vm_compute; reflexivity]. Qed.

(* a missing declared input: not launched, PropagatedFailure, counted once *)
Example missing_input_instance :
  let o := run_command TExternal false false true false [VExistingInput; VMissingInput; VMissingInput] XOk in
  o_executes o = false /\ o_value o = VPropagatedFailureCommand /\ o_failures o = 1.
Proof. vm_compute. repeat split; reflexivity. Qed.

Example sticky_instance :
  cs_skip (provide_all false [VExistingInput; VFailedInput]) = true /\
  cs_skip (provide_all false ([VExistingInput; VFailedInput] ++ [VExistingInput; VVirtualInput; VSkippedCommand])) = true /\
  cs_skip (provide_all true [VExistingInput; VMissingInput; VMissingOutput]) = false.
Proof. vm_compute. repeat split; reflexivity. Qed.

Example never_valid_instance :
  cmd_valid TExternal false VSuccessfulCommand true = true /\ cmd_valid TExternal false VFailedCommand true = false /\
  node_valid RProduced VExistingInput false true = true /\ node_valid RProduced VFailedInput false true = false.
Proof. vm_compute. repeat split; reflexivity. Qed.

Example target_instance :
  target_reports [VExistingInput; VFailedInput] = false /\ target_reports [VVirtualInput; VMissingInput] = true.
Proof. vm_compute. split; reflexivity. Qed.
