(* Proofs about the signature token model and the re-run decision (property C09). *)
From LLB Require Import Base.Bytes Base.BytesFacts Codec.Codec Codec.FileObs Codec.FileObsProofs BSys.Sig.
Local Open Scope N_scope.

(* ---------- list facts ---------- *)

Lemma app_same_length {A : Type} (a : list A) : forall b r s,
  length a = length b -> a ++ r = b ++ s -> a = b /\ r = s.
Proof.
  induction a as [|x a IH]; intros [|y b] r s Hl H; cbn [length app] in *; try discriminate.
  - auto.
  - injection H as Hx Hr. injection Hl as Hl. destruct (IH _ _ _ Hl Hr) as [E1 E2]. subst. auto.
Qed.

Lemma strs_inj l1 : forall l2, strs l1 = strs l2 -> l1 = l2.
Proof.
  unfold strs. induction l1 as [|x l1 IH]; intros [|y l2] H; cbn [map] in H; try discriminate.
  - reflexivity.
  - injection H as Hx Hr. f_equal; auto.
Qed.

Lemma strs_length l : length (strs l) = length l.
Proof. unfold strs. apply map_length. Qed.

Lemma app_neq_self {A : Type} (l : list A) x : l ++ [x] <> l.
Proof.
  intros H. apply (f_equal (@length A)) in H. rewrite app_length in H. cbn [length] in H. lia.
Qed.

(* ---------- unique decoding of the token sequence ---------- *)

Lemma counted_app_inj l1 l2 r1 r2 : counted l1 ++ r1 = counted l2 ++ r2 -> l1 = l2 /\ r1 = r2.
Proof.
  unfold counted. cbn [app]. intros H. injection H as Hn Hr. apply Nat2N.inj in Hn.
  destruct (app_same_length (strs l1) (strs l2) r1 r2) as [E1 E2].
  - rewrite !strs_length. exact Hn.
  - exact Hr.
  - split; [apply strs_inj; exact E1 | exact E2].
Qed.

Lemma env_tokens_app_inj e1 : forall e2 r1 r2,
  length e1 = length e2 -> env_tokens e1 ++ r1 = env_tokens e2 ++ r2 -> e1 = e2 /\ r1 = r2.
Proof.
  induction e1 as [|[k v] e1 IH]; intros [|[k2 v2] e2] r1 r2 Hl H; cbn [env_tokens app length] in *; try discriminate.
  - auto.
  - injection H as Hk Hv Hr. injection Hl as Hl. destruct (IH _ _ _ Hl Hr) as [E1 E2]. subst. auto.
Qed.

Lemma ext_tokens_app_inj d1 d2 t1 t2 : ext_tokens d1 ++ t1 = ext_tokens d2 ++ t2 ->
  c_inputs d1 = c_inputs d2 /\ c_outputs d1 = c_outputs d2 /\
  c_allow_missing_inputs d1 = c_allow_missing_inputs d2 /\
  c_allow_modified_outputs d1 = c_allow_modified_outputs d2 /\
  c_always_out_of_date d1 = c_always_out_of_date d2 /\ t1 = t2.
Proof.
  unfold ext_tokens. rewrite <- !app_assoc. intros H.
  apply counted_app_inj in H as [Hi H].
  apply counted_app_inj in H as [Ho H].
  cbn [app] in H. injection H as H1 H2 H3 Ht. auto 10.
Qed.

Lemma shell_tail_inj d1 d2 : shell_tail d1 = shell_tail d2 -> shell_relevant d1 = shell_relevant d2.
Proof.
  unfold shell_tail, shell_relevant.
  destruct (is_nil (c_sigdata d1)) eqn:E1; destruct (is_nil (c_sigdata d2)) eqn:E2; intros H.
  - apply counted_app_inj in H as [Ha H].
    injection H as Hn H. apply Nat2N.inj in Hn.
    apply env_tokens_app_inj in H as [He H]; [|exact Hn].
    apply counted_app_inj in H as [Hd H].
    injection H as Hs Hi Hc. rewrite Ha, He, Hd, Hs, Hi, Hc. reflexivity.
  - unfold counted in H. cbn [app] in H. discriminate H.
  - unfold counted in H. cbn [app] in H. discriminate H.
  - injection H as Hs. rewrite Hs. reflexivity.
Qed.

Lemma shell_tail_of_relevant d1 d2 : shell_relevant d1 = shell_relevant d2 -> shell_tail d1 = shell_tail d2.
Proof.
  unfold shell_tail, shell_relevant.
  destruct (is_nil (c_sigdata d1)) eqn:E1; destruct (is_nil (c_sigdata d2)) eqn:E2; intros H; try discriminate H.
  - injection H as Ha He Hd Hs Hi Hc. rewrite Ha, He, Hd, Hs, Hi, Hc. reflexivity.
  - injection H as Hs. rewrite Hs. reflexivity.
Qed.

Theorem sig_tokens_injective d1 d2 : sig_tokens d1 = sig_tokens d2 -> relevant d1 = relevant d2.
Proof.
  unfold sig_tokens. intros H0.
  pose proof (f_equal fst H0) as Hn. pose proof (f_equal snd H0) as H. cbn [fst snd] in Hn, H. clear H0.
  apply ext_tokens_app_inj in H as (Hi & Ho & H1 & H2 & H3 & Ht).
  apply shell_tail_inj in Ht.
  unfold relevant, ext_relevant. rewrite Hn, Hi, Ho, H1, H2, H3, Ht. reflexivity.
Qed.

(* the signature depends on nothing but the relevant part *)
Theorem sig_tokens_of_relevant d1 d2 : relevant d1 = relevant d2 -> sig_tokens d1 = sig_tokens d2.
Proof.
  unfold relevant, ext_relevant. intros H. injection H as Hn Hi Ho H1 H2 H3 Hs.
  apply shell_tail_of_relevant in Hs.
  unfold sig_tokens, ext_tokens. rewrite Hn, Hi, Ho, H1, H2, H3, Hs. reflexivity.
Qed.

Theorem ext_sig_tokens_injective d1 d2 : ext_sig_tokens d1 = ext_sig_tokens d2 -> ext_relevant d1 = ext_relevant d2.
Proof.
  unfold ext_sig_tokens. intros H0.
  pose proof (f_equal fst H0) as Hn. pose proof (f_equal snd H0) as H. cbn [fst snd] in Hn, H. clear H0.
  assert (H' : ext_tokens d1 ++ [] = ext_tokens d2 ++ []) by (rewrite !app_nil_r; exact H).
  apply ext_tokens_app_inj in H' as (Hi & Ho & H1 & H2 & H3 & _).
  unfold ext_relevant. rewrite Hn, Hi, Ho, H1, H2, H3. reflexivity.
Qed.

Corollary sig_tokens_differ d1 d2 : relevant d1 <> relevant d2 -> sig_tokens d1 <> sig_tokens d2.
Proof. intros Hne H. apply Hne. apply sig_tokens_injective. exact H. Qed.

(* ---------- signatures (under the ideal-hash premise) ---------- *)

Section Hash.
Variable H0 : bytes -> N.
Variable HC : N -> token -> N.

(* weakest form: the hash does not collide on the two token sequences that are compared *)
Theorem sig_injective_pair d1 d2 :
  (shell_sig H0 HC d1 = shell_sig H0 HC d2 -> sig_tokens d1 = sig_tokens d2) ->
  shell_sig H0 HC d1 = shell_sig H0 HC d2 -> relevant d1 = relevant d2.
Proof. intros Hcf H. apply sig_tokens_injective. apply Hcf. exact H. Qed.

Theorem sig_injective : ideal_hash H0 HC ->
  forall d1 d2, shell_sig H0 HC d1 = shell_sig H0 HC d2 -> relevant d1 = relevant d2.
Proof.
  intros Hid d1 d2 H. apply sig_tokens_injective.
  unfold shell_sig, chain_p in H. apply Hid in H as [Hn Ht].
  destruct (sig_tokens d1) as [n1 t1]. destruct (sig_tokens d2) as [n2 t2]. cbn [fst snd] in *. subst. reflexivity.
Qed.

Theorem sig_deterministic d1 d2 : relevant d1 = relevant d2 -> shell_sig H0 HC d1 = shell_sig H0 HC d2.
Proof. intros H. unfold shell_sig. rewrite (sig_tokens_of_relevant d1 d2 H). reflexivity. Qed.

Theorem sig_changes_iff : ideal_hash H0 HC ->
  forall d1 d2, shell_sig H0 HC d1 <> shell_sig H0 HC d2 <-> relevant d1 <> relevant d2.
Proof.
  intros Hid d1 d2. split; intros Hne H; apply Hne.
  - apply sig_deterministic. exact H.
  - apply sig_injective; assumption.
Qed.

Theorem ext_sig_injective : ideal_chain H0 HC ->
  forall d1 d2, ext_sig H0 HC d1 = ext_sig H0 HC d2 -> ext_relevant d1 = ext_relevant d2.
Proof.
  intros Hid d1 d2 H. apply ext_sig_tokens_injective.
  unfold ext_sig, chain_p in H. apply Hid in H as [Hn Ht].
  destruct (ext_sig_tokens d1) as [n1 t1]. destruct (ext_sig_tokens d2) as [n2 t2]. cbn [fst snd] in *. subst. reflexivity.
Qed.

(* nodes *)
Theorem node_sig_tokens_injective n1 n2 : node_sig_tokens n1 = node_sig_tokens n2 -> n1 = n2.
Proof.
  unfold node_sig_tokens. intros H. injection H as Ht Hp. apply strs_inj in Hp.
  destruct n1 as [t1 p1]. destruct n2 as [t2 p2]. cbn [n_type n_producers] in *. subst. reflexivity.
Qed.

Theorem node_sig_injective : ideal_fold0 HC ->
  forall n1 n2, node_sig HC n1 = node_sig HC n2 -> n1 = n2.
Proof. intros Hid n1 n2 H. apply node_sig_tokens_injective. apply Hid. exact H. Qed.

(* symlink commands: output, contents and inputs are recovered *)
Theorem symlink_sig_injective : ideal_chain H0 HC ->
  forall o1 c1 i1 o2 c2 i2, symlink_sig H0 HC o1 c1 i1 = symlink_sig H0 HC o2 c2 i2 -> o1 = o2 /\ c1 = c2 /\ i1 = i2.
Proof.
  intros Hid o1 c1 i1 o2 c2 i2 H. unfold symlink_sig, chain_p, symlink_sig_tokens in H. cbn [fst snd] in H.
  apply Hid in H as [Ho Ht]. injection Ht as Hc Hi. apply strs_inj in Hi. auto.
Qed.
End Hash.

(* ---------- boundary moves and single-attribute edits ---------- *)

(* the last declared input becomes the first declared output *)
Theorem move_input_to_output d ins x outs :
  sig_tokens (set_outputs (set_inputs d (ins ++ [x])) outs) <> sig_tokens (set_outputs (set_inputs d ins) (x :: outs)).
Proof.
  apply sig_tokens_differ. unfold relevant, ext_relevant. cbn [set_inputs set_outputs c_name c_inputs c_outputs].
  intros H. apply (f_equal (fun p => e_inputs (fst p))) in H. cbn [fst e_inputs] in H. exact (app_neq_self ins x H).
Qed.

(* a trailing "k v" of args becomes a new last environment entry *)
Theorem move_args_to_env d a k v e : c_sigdata d = [] ->
  sig_tokens (set_env (set_args d (a ++ [k; v])) e) <> sig_tokens (set_env (set_args d a) (e ++ [(k, v)])).
Proof.
  intros Hs. apply sig_tokens_differ. unfold relevant, shell_relevant.
  cbn [set_env set_args c_sigdata c_args c_env c_deps_paths c_deps_style c_inherit_env c_can_safely_interrupt].
  rewrite Hs. cbn [is_nil]. intros H. apply (f_equal snd) in H. cbn [snd] in H.
  assert (He : e = e ++ [(k, v)]) by (injection H; auto). exact (app_neq_self e (k, v) (eq_sym He)).
Qed.

(* the boundary between two adjacent arguments is removed (or, read right to left, inserted) *)
Theorem merge_adjacent_args d a x y b : c_sigdata d = [] ->
  sig_tokens (set_args d (a ++ [x; y] ++ b)) <> sig_tokens (set_args d (a ++ [x ++ y] ++ b)).
Proof.
  intros Hs. apply sig_tokens_differ. unfold relevant, shell_relevant.
  cbn [set_args c_sigdata c_args c_env c_deps_paths c_deps_style c_inherit_env c_can_safely_interrupt].
  rewrite Hs. cbn [is_nil]. intros H. apply (f_equal snd) in H. cbn [snd] in H.
  assert (Ha : a ++ [x; y] ++ b = a ++ [x ++ y] ++ b) by (injection H; auto).
  apply (f_equal (@length bytes)) in Ha. rewrite !app_length in Ha. cbn [length] in Ha. unfold bytes, byte in Ha. lia.
Qed.

(* the boundary between two adjacent arguments moves by one or more bytes *)
Theorem shift_arg_boundary d a x c y b : c_sigdata d = [] -> c <> [] ->
  sig_tokens (set_args d (a ++ [x ++ c; y] ++ b)) <> sig_tokens (set_args d (a ++ [x; c ++ y] ++ b)).
Proof.
  intros Hs Hc. apply sig_tokens_differ. unfold relevant, shell_relevant.
  cbn [set_args c_sigdata c_args c_env c_deps_paths c_deps_style c_inherit_env c_can_safely_interrupt].
  rewrite Hs. cbn [is_nil]. intros H. apply (f_equal snd) in H. cbn [snd] in H.
  assert (Ha : a ++ [x ++ c; y] ++ b = a ++ [x; c ++ y] ++ b) by (injection H; auto).
  apply app_inv_head in Ha. cbn [app] in Ha. injection Ha as Hx _.
  apply Hc. rewrite <- (app_nil_r x) in Hx at 2. apply app_inv_head in Hx. exact Hx.
Qed.

Theorem change_deps_style d s1 s2 : c_sigdata d = [] -> s1 <> s2 ->
  sig_tokens (set_deps_style d s1) <> sig_tokens (set_deps_style d s2).
Proof.
  intros Hs Hne. apply sig_tokens_differ. unfold relevant, shell_relevant.
  cbn [set_deps_style c_sigdata c_args c_env c_deps_paths c_deps_style c_inherit_env c_can_safely_interrupt].
  rewrite Hs. cbn [is_nil]. intros H. apply (f_equal snd) in H. cbn [snd] in H.
  apply Hne. injection H; auto.
Qed.

(* flags 0..2 (allow-missing-inputs, allow-modified-outputs, always-out-of-date) always count;
   flags 3..4 (inherit-env, can-safely-interrupt) count unless an explicit signature is given *)
Theorem flip_one_flag d i : (i < 3)%nat \/ ((i < 5)%nat /\ c_sigdata d = []) ->
  sig_tokens (flip_flag d i) <> sig_tokens d.
Proof.
  intros Hi. apply sig_tokens_differ. unfold relevant, ext_relevant, shell_relevant.
  destruct i as [|[|[|[|[|i]]]]];
    cbn [flip_flag c_name c_inputs c_outputs c_allow_missing_inputs c_allow_modified_outputs c_always_out_of_date
         c_sigdata c_args c_env c_deps_paths c_deps_style c_inherit_env c_can_safely_interrupt Nat.eqb].
  - intros H. apply (f_equal (fun p => e_allow_missing_inputs (fst p))) in H. cbn [fst e_allow_missing_inputs] in H.
    destruct (c_allow_missing_inputs d); discriminate H.
  - intros H. apply (f_equal (fun p => e_allow_modified_outputs (fst p))) in H. cbn [fst e_allow_modified_outputs] in H.
    destruct (c_allow_modified_outputs d); discriminate H.
  - intros H. apply (f_equal (fun p => e_always_out_of_date (fst p))) in H. cbn [fst e_always_out_of_date] in H.
    destruct (c_always_out_of_date d); discriminate H.
  - destruct Hi as [Hi | [_ Hs]]; [lia|]. rewrite Hs. cbn [is_nil].
    intros H. apply (f_equal snd) in H. cbn [snd] in H.
    destruct (c_inherit_env d); cbn [negb] in H; discriminate H.
  - destruct Hi as [Hi | [_ Hs]]; [lia|]. rewrite Hs. cbn [is_nil].
    intros H. apply (f_equal snd) in H. cbn [snd] in H.
    destruct (c_can_safely_interrupt d); cbn [negb] in H; discriminate H.
  - destruct Hi as [Hi | [Hi _]]; lia.
Qed.

Theorem change_name d n1 n2 : n1 <> n2 -> sig_tokens (set_name d n1) <> sig_tokens (set_name d n2).
Proof.
  intros Hne. apply sig_tokens_differ. unfold relevant, ext_relevant. cbn [set_name c_name].
  intros H. apply (f_equal (fun p => e_name (fst p))) in H. cbn [fst e_name] in H. exact (Hne H).
Qed.

Theorem change_sigdata d s1 s2 : s1 <> s2 -> sig_tokens (set_sigdata d s1) <> sig_tokens (set_sigdata d s2).
Proof.
  intros Hne. apply sig_tokens_differ. unfold relevant, shell_relevant.
  cbn [set_sigdata c_sigdata c_args c_env c_deps_paths c_deps_style c_inherit_env c_can_safely_interrupt].
  destruct s1 as [|a s1]; destruct s2 as [|b s2]; cbn [is_nil]; intros H;
    apply (f_equal snd) in H; cbn [snd] in H; try discriminate H.
  - apply Hne. reflexivity.
  - apply Hne. congruence.
Qed.

(* what an explicit signature switches off: with non-empty signature data the arguments, environment, dependency
   settings and the two shell flags are NOT part of the signature (documented behaviour of the attribute) *)
Theorem explicit_signature_hides d a e p s ie csi : c_sigdata d <> [] ->
  sig_tokens (mkCdef (c_name d) (c_inputs d) (c_outputs d) (c_allow_missing_inputs d) (c_allow_modified_outputs d)
                     (c_always_out_of_date d) (c_sigdata d) a e p s ie csi) = sig_tokens d.
Proof.
  intros Hs. apply sig_tokens_of_relevant. unfold relevant, ext_relevant, shell_relevant.
  cbn [c_name c_inputs c_outputs c_allow_missing_inputs c_allow_modified_outputs c_always_out_of_date c_sigdata].
  destruct (c_sigdata d) as [|b r]; [exfalso; apply Hs; reflexivity|]. cbn [is_nil]. reflexivity.
Qed.

(* ---------- the chain before the repairs was not injective ---------- *)

Definition v0_base : cdef := mkCdef [67] [] [] false false false [] [[101]] [] [] 0 true true.

(* inputs/outputs boundary: inputs [a;b], outputs [c]  vs  inputs [a], outputs [b;c] *)
Definition v0_w1a := set_outputs (set_inputs v0_base [[97]; [98]]) [[99]].
Definition v0_w1b := set_outputs (set_inputs v0_base [[97]]) [[98]; [99]].
(* args/env boundary: args [e;K;V], env []  vs  args [e], env [(K,V)] *)
Definition v0_w2a := set_env (set_args v0_base [[101]; [75]; [86]]) [].
Definition v0_w2b := set_env (set_args v0_base [[101]]) [([75], [86])].
(* deps-style makefile (1) vs dependency-info (2) *)
Definition v0_w3a := set_deps_style (set_deps_paths v0_base [[100]]) 1.
Definition v0_w3b := set_deps_style (set_deps_paths v0_base [[100]]) 2.

Theorem sig_tokens_v0_collides_io : relevant v0_w1a <> relevant v0_w1b /\ sig_tokens_v0 v0_w1a = sig_tokens_v0 v0_w1b.
Proof. split; [intros H; vm_compute in H; discriminate H | vm_compute; reflexivity]. Qed.
Theorem sig_tokens_v0_collides_args_env : relevant v0_w2a <> relevant v0_w2b /\ sig_tokens_v0 v0_w2a = sig_tokens_v0 v0_w2b.
Proof. split; [intros H; vm_compute in H; discriminate H | vm_compute; reflexivity]. Qed.
Theorem sig_tokens_v0_collides_deps_style : relevant v0_w3a <> relevant v0_w3b /\ sig_tokens_v0 v0_w3a = sig_tokens_v0 v0_w3b.
Proof. split; [intros H; vm_compute in H; discriminate H | vm_compute; reflexivity]. Qed.

Theorem sig_tokens_v0_not_injective : exists d1 d2, relevant d1 <> relevant d2 /\ sig_tokens_v0 d1 = sig_tokens_v0 d2.
Proof. exists v0_w1a, v0_w1b. exact sig_tokens_v0_collides_io. Qed.

(* the repaired chain separates every one of these witnesses *)
Theorem v0_witnesses_now_differ :
  sig_tokens v0_w1a <> sig_tokens v0_w1b /\ sig_tokens v0_w2a <> sig_tokens v0_w2b /\ sig_tokens v0_w3a <> sig_tokens v0_w3b.
Proof.
  split; [|split]; apply sig_tokens_differ.
  - exact (proj1 sig_tokens_v0_collides_io).
  - exact (proj1 sig_tokens_v0_collides_args_env).
  - exact (proj1 sig_tokens_v0_collides_deps_style).
Qed.

(* node type directory (1) vs virtual (3) *)
Theorem node_sig_tokens_v0_not_injective :
  exists n1 n2, n1 <> n2 /\ node_sig_tokens_v0 n1 = node_sig_tokens_v0 n2.
Proof.
  exists (mkNdef 1 [[67]]), (mkNdef 3 [[67]]). split; [intros H; discriminate H | vm_compute; reflexivity].
Qed.

(* ---------- the toy hash meets all three ideal-hash premises ---------- *)

Lemma dbl_inj n : forall m x y, dbl n (2 * x + 1) = dbl m (2 * y + 1) -> n = m /\ x = y.
Proof.
  induction n as [|n IH]; intros [|m] x y H; cbn [dbl] in H.
  - split; [reflexivity | lia].
  - exfalso. lia.
  - exfalso. lia.
  - assert (H' : dbl n (2 * x + 1) = dbl m (2 * y + 1)) by lia.
    destruct (IH _ _ _ H') as [E1 E2]. subst. auto.
Qed.

Lemma toy_pair_inj a b c d : toy_pair a b = toy_pair c d -> a = c /\ b = d.
Proof.
  unfold toy_pair. intros H. apply dbl_inj in H as [Hn Hx]. apply N2Nat.inj in Hn. auto.
Qed.

Lemma dbl_pos n : forall x, x <> 0 -> dbl n x <> 0.
Proof. induction n as [|n IH]; intros x Hx; cbn [dbl]; [exact Hx | specialize (IH x Hx); lia]. Qed.

Lemma toy_pair_pos a b : toy_pair a b <> 0.
Proof. unfold toy_pair. apply dbl_pos. lia. Qed.

Lemma enc_bytes_inj l1 : forall l2, enc_bytes l1 = enc_bytes l2 -> l1 = l2.
Proof.
  induction l1 as [|x l1 IH]; intros [|y l2] H; cbn [enc_bytes] in H.
  - reflexivity.
  - exfalso. exact (toy_pair_pos y (enc_bytes l2) (eq_sym H)).
  - exfalso. exact (toy_pair_pos x (enc_bytes l1) H).
  - apply toy_pair_inj in H as [Hx Hl]. f_equal; auto.
Qed.

Lemma enc_token_inj t1 t2 : enc_token t1 = enc_token t2 -> t1 = t2.
Proof.
  destruct t1 as [s1|b1|n1]; destruct t2 as [s2|b2|n2]; cbn [enc_token]; intros H;
    apply toy_pair_inj in H as [Ht Hv]; try discriminate Ht.
  - apply enc_bytes_inj in Hv. rewrite Hv. reflexivity.
  - destruct b1; destruct b2; try reflexivity; discriminate Hv.
  - rewrite Hv. reflexivity.
Qed.

Lemma fold_snoc HC acc ts t : fold_tokens HC acc (ts ++ [t]) = HC (fold_tokens HC acc ts) t.
Proof. unfold fold_tokens. rewrite fold_left_app. reflexivity. Qed.

Lemma toy_HC_inj a1 t1 a2 t2 : toy_HC a1 t1 = toy_HC a2 t2 -> a1 = a2 /\ t1 = t2.
Proof.
  unfold toy_HC. intros H.
  assert (Hp : toy_pair a1 (enc_token t1) = toy_pair a2 (enc_token t2)) by lia.
  apply toy_pair_inj in Hp as [Hf Ht]. apply enc_token_inj in Ht. auto.
Qed.

(* values of the toy chain: a start value is even or 0, every later value is odd *)
Lemma toy_fold_inj ts1 : forall ts2 a1 a2,
  (forall acc t, a1 <> toy_HC acc t) -> (forall acc t, a2 <> toy_HC acc t) ->
  fold_tokens toy_HC a1 ts1 = fold_tokens toy_HC a2 ts2 -> a1 = a2 /\ ts1 = ts2.
Proof.
  induction ts1 as [|t1 ts1 IH] using rev_ind; intros ts2 a1 a2 Ha1 Ha2 H.
  - destruct ts2 as [|t2 ts2 _] using rev_ind.
    + cbn in H. auto.
    + rewrite fold_snoc in H. cbn [fold_tokens fold_left] in H. exfalso. exact (Ha1 _ _ H).
  - destruct ts2 as [|t2 ts2 _] using rev_ind.
    + rewrite fold_snoc in H. cbn [fold_tokens fold_left] in H. exfalso. exact (Ha2 _ _ (eq_sym H)).
    + rewrite !fold_snoc in H. apply toy_HC_inj in H as [Hf Ht].
      destruct (IH _ _ _ Ha1 Ha2 Hf) as [E1 E2]. subst. auto.
Qed.

Lemma toy_H0_not_HC n acc t : toy_H0 n <> toy_HC acc t.
Proof. unfold toy_H0, toy_HC. lia. Qed.

Lemma zero_not_HC acc t : 0 <> toy_HC acc t.
Proof. unfold toy_HC. lia. Qed.

Theorem toy_ideal_chain : ideal_chain toy_H0 toy_HC.
Proof.
  intros n1 ts1 n2 ts2 H. unfold chain in H.
  apply toy_fold_inj in H as [Hn Ht]; try (intros acc t; apply toy_H0_not_HC).
  split; [|exact Ht]. unfold toy_H0 in Hn. apply enc_bytes_inj. lia.
Qed.

Lemma toy_HC_ge3 a t : 3 <= toy_HC a t.
Proof. unfold toy_HC. pose proof (toy_pair_pos a (enc_token t)). lia. Qed.

Lemma toy_chain_ge2 n ts : 2 <= chain toy_H0 toy_HC n ts.
Proof.
  unfold chain. destruct ts as [|t ts _] using rev_ind.
  - cbn [fold_tokens fold_left]. unfold toy_H0. lia.
  - rewrite fold_snoc. pose proof (toy_HC_ge3 (fold_tokens toy_HC (toy_H0 n) ts) t). lia.
Qed.

Theorem toy_ideal_hash : ideal_hash toy_H0 toy_HC.
Proof.
  intros n1 ts1 n2 ts2 H. apply toy_ideal_chain.
  pose proof (toy_chain_ge2 n1 ts1) as G1. pose proof (toy_chain_ge2 n2 ts2) as G2.
  unfold fix0 in H.
  destruct (N.eqb_spec (chain toy_H0 toy_HC n1 ts1) 0) as [E1|_]; [lia|].
  destruct (N.eqb_spec (chain toy_H0 toy_HC n2 ts2) 0) as [E2|_]; [lia|].
  exact H.
Qed.

Theorem toy_ideal_fold0 : ideal_fold0 toy_HC.
Proof.
  intros ts1 ts2 H. apply toy_fold_inj in H as [_ Ht]; try (intros acc t; apply zero_not_HC). exact Ht.
Qed.

(* ---------- the re-run decision ---------- *)

Lemma output_differs_cons o s outs infos :
  output_differs (o :: outs) (s :: infos) <->
  (on_virtual o = false /\ output_matches o s = false) \/ output_differs outs infos.
Proof.
  unfold output_differs. split.
  - intros (i & o' & s' & H1 & H2 & H3 & H4). destruct i as [|i]; cbn [nth_error] in H1, H2.
    + injection H1 as H1. injection H2 as H2. subst. left. auto.
    + right. exists i, o', s'. auto.
  - intros [[H3 H4] | (i & o' & s' & H1 & H2 & H3 & H4)].
    + exists 0%nat, o, s. cbn [nth_error]. auto.
    + exists (S i), o', s'. cbn [nth_error]. auto.
Qed.

Lemma output_differs_nil infos : ~ output_differs [] infos.
Proof. intros (i & o & s & H1 & _). destruct i; discriminate H1. Qed.

(* with as many stored infos as declared outputs the loop never reads past the stored ones, and it answers
   Invalid exactly when some non-virtual output no longer matches *)
Lemma outputs_valid_spec outs : forall infos, length infos = length outs ->
  (outputs_valid outs infos = Valid /\ ~ output_differs outs infos) \/
  (outputs_valid outs infos = Invalid /\ output_differs outs infos).
Proof.
  induction outs as [|o outs IH]; intros [|s infos] Hl; cbn [length] in Hl; try discriminate Hl.
  - left. split; [reflexivity | apply output_differs_nil].
  - injection Hl as Hl. specialize (IH infos Hl). cbn [outputs_valid tl].
    destruct (on_virtual o) eqn:Ev.
    + destruct IH as [[E D] | [E D]]; [left | right]; (split; [exact E|]).
      * intros HD. apply output_differs_cons in HD as [[Hv _] | HD]; [congruence | exact (D HD)].
      * apply output_differs_cons. right. exact D.
    + destruct (output_matches o s) eqn:Em.
      * destruct IH as [[E D] | [E D]]; [left | right]; (split; [exact E|]).
        -- intros HD. apply output_differs_cons in HD as [[_ Hm] | HD]; [congruence | exact (D HD)].
        -- apply output_differs_cons. right. exact D.
      * right. split; [reflexivity|]. apply output_differs_cons. left. auto.
Qed.

Lemma output_matches_refl o : output_matches o (on_current o) = true.
Proof.
  unfold output_matches. destruct (on_mutated o); [apply Bool.eqb_reflx | apply info_eqb_refl].
Qed.

(* the rule was built before, by a task that was not cancelled, and the recorded dependencies report no change *)
Theorem rerun_iff st cur_sig aood outs :
  st_built_at st <> 0 -> st_cancelled st = false ->
  (cur_sig = st_sig st -> is_successful (bv_kind (st_value st)) = true ->
   length (bv_infos (st_value st)) = length outs) ->
  exists b, reexecutes false (rerun_decision st cur_sig aood outs) = Some b /\
            (b = true <-> cur_sig <> st_sig st \/ aood = true \/ is_successful (bv_kind (st_value st)) = false \/
                          output_differs outs (bv_infos (st_value st))).
Proof.
  intros Hb Hc Hlen. unfold rerun_decision.
  destruct (N.eqb_spec (st_built_at st) 0) as [E|_]; [contradiction|]. rewrite Hc.
  destruct (N.eqb_spec cur_sig (st_sig st)) as [Es|Es]; cbn [negb].
  2:{ exists true. split; [reflexivity|]. split; auto. }
  unfold is_result_valid. destruct aood.
  { exists true. split; [reflexivity|]. split; auto. }
  destruct (is_successful (bv_kind (st_value st))) eqn:Ek; cbn [negb].
  2:{ exists true. split; [reflexivity|]. split; auto. }
  destruct (outputs_valid_spec outs (bv_infos (st_value st)) (Hlen Es eq_refl)) as [[E D] | [E D]]; rewrite E.
  - exists false. split; [reflexivity|]. split; [discriminate|].
    intros [H | [H | [H | H]]]; [contradiction | discriminate H | discriminate H | contradiction].
  - exists true. split; [reflexivity|]. split; auto.
Qed.

(* never built, or built by a cancelled task: runs whatever else holds *)
Theorem rerun_first_time st cur_sig aood outs ic : st_built_at st = 0 \/ st_cancelled st = true ->
  reexecutes ic (rerun_decision st cur_sig aood outs) = Some true.
Proof.
  intros [H | H]; unfold rerun_decision.
  - rewrite H. reflexivity.
  - rewrite H. destruct (N.eqb (st_built_at st) 0); reflexivity.
Qed.

Lemma forall2_same_length {A B : Type} (R : A -> B -> Prop) l1 l2 : Forall2 R l1 l2 -> length l1 = length l2.
Proof. intros H. induction H as [|x y l1 l2 _ _ IH]; cbn [length]; [reflexivity | rewrite IH; reflexivity]. Qed.

(* null build: same signature, a successful stored value whose infos are what the outputs show now *)
Theorem null_build_skips st cur_sig outs :
  st_built_at st <> 0 -> st_cancelled st = false -> cur_sig = st_sig st ->
  is_successful (bv_kind (st_value st)) = true ->
  Forall2 (fun o s => on_virtual o = true \/ s = on_current o) outs (bv_infos (st_value st)) ->
  reexecutes false (rerun_decision st cur_sig false outs) = Some false.
Proof.
  intros Hb Hc Hs Hk HF.
  destruct (rerun_iff st cur_sig false outs Hb Hc) as (b & Hr & Hiff).
  - intros _ _. symmetry. exact (forall2_same_length _ _ _ HF).
  - rewrite Hr. destruct b; [|reflexivity]. exfalso.
    destruct (proj1 Hiff eq_refl) as [H | [H | [H | H]]]; [contradiction | discriminate H | congruence |].
    clear Hr Hiff. induction HF as [|o s outs infos Hos HF IH].
    + exact (output_differs_nil _ H).
    + apply output_differs_cons in H as [[Hv Hm] | H]; [|exact (IH H)].
      destruct Hos as [Hos | Hos]; [congruence|]. subst s. rewrite output_matches_refl in Hm. discriminate Hm.
Qed.

(* the two layers together: with an ideal hash the command re-executes iff its relevant definition changed, or it is
   always out of date, or the stored value is not a success, or an output no longer matches *)
Theorem rerun_iff_definition H0 HC : ideal_hash H0 HC ->
  forall st d_then d_now outs,
  st_built_at st <> 0 -> st_cancelled st = false -> st_sig st = shell_sig H0 HC d_then ->
  (relevant d_now = relevant d_then -> is_successful (bv_kind (st_value st)) = true ->
   length (bv_infos (st_value st)) = length outs) ->
  exists b, reexecutes false (rerun_decision st (shell_sig H0 HC d_now) (c_always_out_of_date d_now) outs) = Some b /\
            (b = true <-> relevant d_now <> relevant d_then \/ c_always_out_of_date d_now = true \/
                          is_successful (bv_kind (st_value st)) = false \/ output_differs outs (bv_infos (st_value st))).
Proof.
  intros Hid st d_then d_now outs Hb Hc Hs Hlen.
  destruct (rerun_iff st (shell_sig H0 HC d_now) (c_always_out_of_date d_now) outs Hb Hc) as (b & Hr & Hiff).
  - intros E Hk. apply Hlen; [|exact Hk]. rewrite Hs in E. apply (sig_injective H0 HC Hid). exact E.
  - exists b. split; [exact Hr|]. rewrite Hiff. rewrite Hs.
    rewrite (sig_changes_iff H0 HC Hid d_now d_then). reflexivity.
Qed.

(* ---------- proofs of the non-vacuity examples stated in Props/Properties_C09.v ---------- *)

Lemma boundary_instances :
  sig_tokens (set_outputs (set_inputs ex_def ([[97;46;99]] ++ [[104]])) []) <> sig_tokens (set_outputs (set_inputs ex_def [[97;46;99]]) [[104]]) /\
  sig_tokens (set_deps_style ex_def 1) <> sig_tokens (set_deps_style ex_def 2) /\
  sig_tokens (flip_flag ex_def 4) <> sig_tokens ex_def.
Proof.
  split; [apply move_input_to_output | split; [apply change_deps_style; [reflexivity | discriminate] | apply flip_one_flag; right; split; [lia | reflexivity]]].
Qed.

Lemma rerun_instance_output_changed :
  reexecutes false (rerun_decision ex_stored 42 false [mkOnode false false (ex_info 11)]) = Some true
  /\ output_differs [mkOnode false false (ex_info 11)] (bv_infos (st_value ex_stored)).
Proof.
  split; [vm_compute; reflexivity|].
  exists 0%nat, (mkOnode false false (ex_info 11)), (ex_info 10). repeat split; vm_compute; reflexivity.
Qed.

Lemma rerun_hypotheses_instance :
  st_built_at ex_stored <> 0 /\ st_cancelled ex_stored = false /\
  length (bv_infos (st_value ex_stored)) = length [mkOnode false false (ex_info 10)].
Proof. repeat split. discriminate. Qed.

(* ---------- symlink commands ---------- *)

Lemma symlink_wf_outputs s : symlink_wf s -> exists o, s_outputs s = [o].
Proof.
  unfold symlink_wf. destruct (s_outputs s) as [|o [|o2 r]]; cbn [length]; intros H; try discriminate H.
  exists o. reflexivity.
Qed.

(* a loadable symlink command has a signature (no over-read) *)
Theorem sdef_sig_tokens_defined s : symlink_wf s -> exists p, sdef_sig_tokens s = Some p.
Proof.
  intros H. destruct (symlink_wf_outputs s H) as [o Ho]. unfold sdef_sig_tokens. rewrite Ho. eexists. reflexivity.
Qed.

(* unique decoding: the tokens determine the declared output, the contents and the inputs *)
Theorem sdef_sig_tokens_injective s1 s2 : symlink_wf s1 -> symlink_wf s2 ->
  sdef_sig_tokens s1 = sdef_sig_tokens s2 -> symlink_relevant s1 = symlink_relevant s2.
Proof.
  intros W1 W2. destruct (symlink_wf_outputs s1 W1) as [o1 E1]. destruct (symlink_wf_outputs s2 W2) as [o2 E2].
  unfold sdef_sig_tokens, symlink_relevant, symlink_sig_tokens. rewrite E1, E2. intros H.
  assert (Ho : o1 = o2) by congruence.
  assert (Hc : s_contents s1 = s_contents s2) by congruence.
  assert (Hi : strs (s_inputs s1) = strs (s_inputs s2)) by congruence.
  apply strs_inj in Hi. rewrite Ho, Hc, Hi. reflexivity.
Qed.

(* and nothing else: name, link-output-path and the repair flag do not take part *)
Theorem sdef_sig_tokens_of_relevant s1 s2 :
  symlink_relevant s1 = symlink_relevant s2 -> sdef_sig_tokens s1 = sdef_sig_tokens s2.
Proof.
  unfold symlink_relevant, sdef_sig_tokens. intros H.
  assert (Ho : s_outputs s1 = s_outputs s2) by congruence.
  assert (Hc : s_contents s1 = s_contents s2) by congruence.
  assert (Hi : s_inputs s1 = s_inputs s2) by congruence.
  rewrite Ho, Hc, Hi. reflexivity.
Qed.

Theorem sdef_sig_injective H0 HC : ideal_chain H0 HC ->
  forall s1 s2, symlink_wf s1 -> symlink_wf s2 ->
  sdef_sig H0 HC s1 = sdef_sig H0 HC s2 -> symlink_relevant s1 = symlink_relevant s2.
Proof.
  intros Hid s1 s2 W1 W2 H. apply sdef_sig_tokens_injective; try assumption.
  destruct (sdef_sig_tokens_defined s1 W1) as [[n1 t1] E1]. destruct (sdef_sig_tokens_defined s2 W2) as [[n2 t2] E2].
  unfold sdef_sig in H. rewrite E1, E2 in H. rewrite E1, E2.
  assert (Hc : chain H0 HC n1 t1 = chain H0 HC n2 t2) by (unfold chain_p in H; cbn [fst snd] in H; congruence).
  apply Hid in Hc as [Hn Ht]. rewrite Hn, Ht. reflexivity.
Qed.

(* renaming the declared output changes the tokens whatever link-output-path says *)
Theorem sdef_change_output n i o1 o2 c l r : o1 <> o2 ->
  sdef_sig_tokens (mkSdef n i [o1] c l r) <> sdef_sig_tokens (mkSdef n i [o2] c l r).
Proof.
  intros Hne H. apply sdef_sig_tokens_injective in H; try reflexivity.
  unfold symlink_relevant in H. cbn [s_outputs s_contents s_inputs] in H. apply Hne. congruence.
Qed.

Theorem sdef_change_contents n i o c1 c2 l r : c1 <> c2 ->
  sdef_sig_tokens (mkSdef n i [o] c1 l r) <> sdef_sig_tokens (mkSdef n i [o] c2 l r).
Proof.
  intros Hne H. apply sdef_sig_tokens_injective in H; try reflexivity.
  unfold symlink_relevant in H. cbn [s_outputs s_contents s_inputs] in H. apply Hne. congruence.
Qed.

Theorem sdef_change_inputs n i1 i2 o c l r : i1 <> i2 ->
  sdef_sig_tokens (mkSdef n i1 [o] c l r) <> sdef_sig_tokens (mkSdef n i2 [o] c l r).
Proof.
  intros Hne H. apply sdef_sig_tokens_injective in H; try reflexivity.
  unfold symlink_relevant in H. cbn [s_outputs s_contents s_inputs] in H. apply Hne. congruence.
Qed.

(* the current code: link-output-path, the repair flag and the command's name are not hashed *)
Theorem sdef_unhashed_parts n1 n2 i o c l1 l2 r1 r2 :
  sdef_sig_tokens (mkSdef n1 i o c l1 r1) = sdef_sig_tokens (mkSdef n2 i o c l2 r2).
Proof. apply sdef_sig_tokens_of_relevant. reflexivity. Qed.

Lemma sdef_instance :
  symlink_wf ex_sdef /\ sdef_sig_tokens ex_sdef = Some ([60;97;62], [TStr [116]; TStr [105]]) /\
  sdef_sig_tokens (mkSdef [76] [] [] [116] [108] false) = None.
Proof. repeat split. Qed.

(* ---------- index alignment of the validity check ---------- *)

(* validity compares output i with stored info i for every non-virtual i; virtual positions are ignored *)
Theorem outputs_valid_aligned outs infos : length infos = length outs ->
  (outputs_valid outs infos = Valid <->
   forall i o s, nth_error outs i = Some o -> nth_error infos i = Some s -> on_virtual o = false -> output_matches o s = true).
Proof.
  intros Hl. destruct (outputs_valid_spec outs infos Hl) as [[E D] | [E D]]; rewrite E; split; intros H.
  - intros i o s H1 H2 H3. destruct (output_matches o s) eqn:Em; [reflexivity|].
    exfalso. apply D. exists i, o, s. auto.
  - reflexivity.
  - discriminate H.
  - exfalso. destruct D as (i & o & s & H1 & H2 & H3 & H4). rewrite (H i o s H1 H2 H3) in H4. discriminate H4.
Qed.

Theorem outputs_valid_invalid_aligned outs infos : length infos = length outs ->
  (outputs_valid outs infos = Invalid <-> output_differs outs infos).
Proof.
  intros Hl. destruct (outputs_valid_spec outs infos Hl) as [[E D] | [E D]]; rewrite E; split; intros H.
  - discriminate H.
  - contradiction.
  - exact D.
  - reflexivity.
Qed.

(* what is stored at a virtual position does not matter, wherever that position is *)
Theorem outputs_valid_virtual_ignored o1 : forall s1 v o2 x y s2,
  length s1 = length o1 -> on_virtual v = true ->
  outputs_valid (o1 ++ v :: o2) (s1 ++ x :: s2) = outputs_valid (o1 ++ v :: o2) (s1 ++ y :: s2).
Proof.
  induction o1 as [|o o1 IH]; intros [|s s1] v o2 x y s2 Hl Hv; cbn [length] in Hl; try discriminate Hl.
  - cbn [app outputs_valid tl]. rewrite Hv. reflexivity.
  - injection Hl as Hl. cbn [app outputs_valid tl].
    destruct (on_virtual o); [apply IH; assumption|].
    destruct (output_matches o s); [apply IH; assumption | reflexivity].
Qed.

(* a file output after a virtual one is compared with ITS OWN stored info: [file a; virtual; file b] *)
Lemma mixed_layout_instance :
  let a := mkOnode false false (ex_info 10) in let v := mkOnode true false (ex_info 0) in
  let b := mkOnode false false (ex_info 20) in
  outputs_valid [a; v; b] [ex_info 10; ex_info 99; ex_info 20] = Valid /\
  outputs_valid [v; a; b] [ex_info 99; ex_info 10; ex_info 20] = Valid /\
  outputs_valid [a; v; b] [ex_info 10; ex_info 99; ex_info 21] = Invalid /\
  outputs_valid [v; v] [ex_info 1; ex_info 2] = Valid /\
  outputs_valid [v; a; b] [ex_info 10; ex_info 20; ex_info 99] = Invalid.
Proof. vm_compute. repeat split. Qed.

(* ---------- output infos are compared in full, whatever the type of the output ---------- *)

(* a non-mutated, non-virtual output matches only if device, inode, size, both time stamp fields and the checksum are
   all equal to the stored ones: no field is skipped for directories (the mode, which carries the file type, does not
   enter the comparison at all, so the check cannot depend on the type) *)
Theorem output_matches_full o s : on_mutated o = false -> output_matches o s = true ->
  fi_device s = fi_device (on_current o) /\ fi_inode s = fi_inode (on_current o) /\ fi_size s = fi_size (on_current o) /\
  fi_sec s = fi_sec (on_current o) /\ fi_nsec s = fi_nsec (on_current o) /\ fi_checksum s = fi_checksum (on_current o) /\
  is_missing s = is_missing (on_current o).
Proof. unfold output_matches. intros Hm H. rewrite Hm in H. apply info_eqb_true. exact H. Qed.

(* the verdict does not look at the mode (file type) of the stored or of the current info *)
Theorem output_matches_type_agnostic v mu c s m1 m2 :
  m1 <> 0 -> m2 <> 0 -> fi_mode c <> 0 -> fi_mode s <> 0 ->
  output_matches (mkOnode v mu (mkFI (fi_device c) (fi_inode c) m1 (fi_size c) (fi_sec c) (fi_nsec c) (fi_checksum c)))
                 (mkFI (fi_device s) (fi_inode s) m2 (fi_size s) (fi_sec s) (fi_nsec s) (fi_checksum s)) =
  output_matches (mkOnode v mu (mkFI (fi_device c) (fi_inode c) (fi_mode c) (fi_size c) (fi_sec c) (fi_nsec c) (fi_checksum c)))
                 (mkFI (fi_device s) (fi_inode s) (fi_mode s) (fi_size s) (fi_sec s) (fi_nsec s) (fi_checksum s)).
Proof.
  intros N1 N2 N3 N4.
  unfold output_matches, info_eqb, is_missing. cbn [on_mutated on_current fi_device fi_inode fi_mode fi_size fi_sec fi_nsec fi_checksum].
  apply N.eqb_neq in N1, N2, N3, N4. rewrite N1, N2, N3, N4. rewrite !andb_false_r. reflexivity.
Qed.

(* a directory output (mode 040755) whose time stamp moved, with unchanged device and inode, is Invalid *)
Lemma directory_output_instance :
  outputs_valid [mkOnode false false (ex_dirinfo 100 4096)] [ex_dirinfo 100 4096] = Valid /\
  outputs_valid [mkOnode false false (ex_dirinfo 101 4096)] [ex_dirinfo 100 4096] = Invalid /\
  outputs_valid [mkOnode false false (ex_dirinfo 100 4097)] [ex_dirinfo 100 4096] = Invalid /\
  outputs_valid [mkOnode false false (ex_info 10)] [ex_dirinfo 100 4096] = Invalid.
Proof. vm_compute. repeat split. Qed.
