(* Model of command / node signatures and of the re-run decision (property C09).
   Transliterated from
     include/llbuild/Basic/Hashing.h           CommandSignature (constructor from a string, combine overloads)
     lib/BuildSystem/ExternalCommand.cpp       ExternalCommand::getSignature, ExternalCommand::isResultValid
     lib/BuildSystem/ShellCommand.cpp          ShellCommand::getSignature
     lib/BuildSystem/BuildNode.cpp             BuildNode::getSignature
     lib/BuildSystem/BuildDescription.cpp      Command::getSignature (stale-file-removal tool)
     lib/BuildSystem/BuildSystem.cpp           SymlinkCommand::getSignature; PhonyCommand / MkdirCommand inherit
                                               ExternalCommand::getSignature
     lib/Core/BuildEngine.cpp                  scanRule (order of the checks that decide "needs to run")
   Definitions only (no proofs). *)
From LLB Require Import Base.Bytes Codec.Codec Codec.FileObs.
Local Open Scope N_scope.

(* ---------- what is fed to the hash chain ---------- *)

(* one call of CommandSignature::combine: the C++ overload that is selected decides the constructor
   (combine(StringRef) / combine(const std::string&) hash the bytes; combine(bool) one byte; combine(uint64_t) eight) *)
Inductive token := TStr (s : bytes) | TBool (b : bool) | TU64 (n : N).

Record cdef := mkCdef {
  c_name : bytes;
  c_inputs : list bytes;                 (* node names, in declaration order *)
  c_outputs : list bytes;
  c_allow_missing_inputs : bool;
  c_allow_modified_outputs : bool;
  c_always_out_of_date : bool;
  (* shell tool *)
  c_sigdata : bytes;                     (* "signature:" attribute; empty = none *)
  c_args : list bytes;
  c_env : list (bytes * bytes);
  c_deps_paths : list bytes;
  c_deps_style : N;                      (* enum DepsStyle: 0 unused, 1 makefile, 2 dependency-info, 3 makefile-ignoring-... *)
  c_inherit_env : bool;
  c_can_safely_interrupt : bool }.

Definition strs (l : list bytes) : list token := map TStr l.

(* code.combine(uint64_t(list.size())); for (x : list) code.combine(x)      -- the repaired code *)
Definition counted (l : list bytes) : list token := TU64 (N.of_nat (length l)) :: strs l.

(* for (entry : env) { combine(entry.first); combine(entry.second); } *)
Fixpoint env_tokens (e : list (bytes * bytes)) : list token :=
  match e with
  | [] => []
  | (k, v) :: e' => TStr k :: TStr v :: env_tokens e'
  end.

Definition is_nil {A : Type} (l : list A) : bool := match l with [] => true | _ => false end.

(* ExternalCommand::getSignature after CommandSignature code(getName()) *)
Definition ext_tokens (d : cdef) : list token :=
  counted (c_inputs d) ++ counted (c_outputs d) ++
  [TBool (c_allow_missing_inputs d); TBool (c_allow_modified_outputs d); TBool (c_always_out_of_date d)].

(* the part ShellCommand::getSignature adds *)
Definition shell_tail (d : cdef) : list token :=
  if is_nil (c_sigdata d)
  then counted (c_args d) ++
       TU64 (N.of_nat (length (c_env d))) :: env_tokens (c_env d) ++
       counted (c_deps_paths d) ++
       [TU64 (c_deps_style d); TBool (c_inherit_env d); TBool (c_can_safely_interrupt d)]
  else [TStr (c_sigdata d)].

(* phony and mkdir commands (ExternalCommand::getSignature is not overridden) *)
Definition ext_sig_tokens (d : cdef) : bytes * list token := (c_name d, ext_tokens d).

(* shell commands *)
Definition sig_tokens (d : cdef) : bytes * list token := (c_name d, ext_tokens d ++ shell_tail d).

(* ---------- the signature-relevant part of a definition ---------- *)

Inductive shell_part :=
| SExplicit (data : bytes)               (* non-empty "signature:" replaces everything below *)
| SDerived (args : list bytes) (env : list (bytes * bytes)) (deps : list bytes) (style : N) (inherit_env csi : bool).

Definition shell_relevant (d : cdef) : shell_part :=
  if is_nil (c_sigdata d)
  then SDerived (c_args d) (c_env d) (c_deps_paths d) (c_deps_style d) (c_inherit_env d) (c_can_safely_interrupt d)
  else SExplicit (c_sigdata d).

Record ext_part := mkExt {
  e_name : bytes; e_inputs : list bytes; e_outputs : list bytes;
  e_allow_missing_inputs : bool; e_allow_modified_outputs : bool; e_always_out_of_date : bool }.

Definition ext_relevant (d : cdef) : ext_part :=
  mkExt (c_name d) (c_inputs d) (c_outputs d) (c_allow_missing_inputs d) (c_allow_modified_outputs d) (c_always_out_of_date d).

Definition relevant (d : cdef) : ext_part * shell_part := (ext_relevant d, shell_relevant d).

(* ---------- the chain before the two repairs (5a0b58d, 55ea100) ---------- *)

(* no list lengths; combine(int(x)) resolved to combine(bool) *)
Definition nonzero (n : N) : bool := negb (N.eqb n 0).

Definition ext_tokens_v0 (d : cdef) : list token :=
  strs (c_inputs d) ++ strs (c_outputs d) ++
  [TBool (c_allow_missing_inputs d); TBool (c_allow_modified_outputs d); TBool (c_always_out_of_date d)].

Definition shell_tail_v0 (d : cdef) : list token :=
  if is_nil (c_sigdata d)
  then strs (c_args d) ++ env_tokens (c_env d) ++ strs (c_deps_paths d) ++
       [TBool (nonzero (c_deps_style d)); TBool (c_inherit_env d); TBool (c_can_safely_interrupt d)]
  else [TStr (c_sigdata d)].

Definition sig_tokens_v0 (d : cdef) : bytes * list token := (c_name d, ext_tokens_v0 d ++ shell_tail_v0 d).

(* ---------- nodes ---------- *)

(* BuildNode::getSignature: starts from the default signature (value 0, no name), the node type as uint64_t,
   then the names of the producing commands (one list, no length) *)
Record ndef := mkNdef { n_type : N;       (* enum NodeType: 0 plain, 1 directory, 2 directory-structure, 3 virtual *)
                        n_producers : list bytes }.

Definition node_sig_tokens (n : ndef) : list token := TU64 (n_type n) :: strs (n_producers n).
(* before the repair: combine(static_cast<unsigned int>(type)) resolved to combine(bool) *)
Definition node_sig_tokens_v0 (n : ndef) : list token := TBool (nonzero (n_type n)) :: strs (n_producers n).

(* ---------- other built-in tools ---------- *)

(* SymlinkCommand::getSignature: CommandSignature code(outputs[0]->getName()); combine(contents); inputs.
   (the command's own name, link-output-path and the flags are not hashed) *)
Definition symlink_sig_tokens (out0 contents : bytes) (inputs : list bytes) : bytes * list token :=
  (out0, TStr contents :: strs inputs).

(* Command::getSignature (stale-file-removal): CommandSignature().combine(name): starts from 0 *)
Definition plain_sig_tokens (name : bytes) : list token := [TStr name].

(* ---------- the hash ---------- *)

Section Hash.
Variable H0 : bytes -> N.               (* size_t(llvm::hash_value(StringRef)) *)
Variable HC : N -> token -> N.          (* llvm::hash_combine(value, x) at the type of the token *)

Definition fold_tokens (acc : N) (ts : list token) : N := fold_left HC ts acc.
Definition chain (name : bytes) (ts : list token) : N := fold_tokens (H0 name) ts.
Definition chain_p (p : bytes * list token) : N := chain (fst p) (snd p).

(* if (signature.isNull()) signature = CommandSignature(1);      -- ShellCommand only *)
Definition fix0 (v : N) : N := if N.eqb v 0 then 1 else v.

Definition shell_sig (d : cdef) : N := fix0 (chain_p (sig_tokens d)).
Definition ext_sig (d : cdef) : N := chain_p (ext_sig_tokens d).
Definition node_sig (n : ndef) : N := fold_tokens 0 (node_sig_tokens n).
Definition symlink_sig (out0 contents : bytes) (inputs : list bytes) : N := chain_p (symlink_sig_tokens out0 contents inputs).
Definition plain_sig (name : bytes) : N := fold_tokens 0 (plain_sig_tokens name).
End Hash.

(* ---------- single-attribute edits used by the boundary corollaries ---------- *)

Definition set_inputs (d : cdef) (l : list bytes) : cdef :=
  mkCdef (c_name d) l (c_outputs d) (c_allow_missing_inputs d) (c_allow_modified_outputs d) (c_always_out_of_date d)
         (c_sigdata d) (c_args d) (c_env d) (c_deps_paths d) (c_deps_style d) (c_inherit_env d) (c_can_safely_interrupt d).
Definition set_outputs (d : cdef) (l : list bytes) : cdef :=
  mkCdef (c_name d) (c_inputs d) l (c_allow_missing_inputs d) (c_allow_modified_outputs d) (c_always_out_of_date d)
         (c_sigdata d) (c_args d) (c_env d) (c_deps_paths d) (c_deps_style d) (c_inherit_env d) (c_can_safely_interrupt d).
Definition set_args (d : cdef) (l : list bytes) : cdef :=
  mkCdef (c_name d) (c_inputs d) (c_outputs d) (c_allow_missing_inputs d) (c_allow_modified_outputs d) (c_always_out_of_date d)
         (c_sigdata d) l (c_env d) (c_deps_paths d) (c_deps_style d) (c_inherit_env d) (c_can_safely_interrupt d).
Definition set_env (d : cdef) (e : list (bytes * bytes)) : cdef :=
  mkCdef (c_name d) (c_inputs d) (c_outputs d) (c_allow_missing_inputs d) (c_allow_modified_outputs d) (c_always_out_of_date d)
         (c_sigdata d) (c_args d) e (c_deps_paths d) (c_deps_style d) (c_inherit_env d) (c_can_safely_interrupt d).
Definition set_deps_paths (d : cdef) (l : list bytes) : cdef :=
  mkCdef (c_name d) (c_inputs d) (c_outputs d) (c_allow_missing_inputs d) (c_allow_modified_outputs d) (c_always_out_of_date d)
         (c_sigdata d) (c_args d) (c_env d) l (c_deps_style d) (c_inherit_env d) (c_can_safely_interrupt d).
Definition set_deps_style (d : cdef) (s : N) : cdef :=
  mkCdef (c_name d) (c_inputs d) (c_outputs d) (c_allow_missing_inputs d) (c_allow_modified_outputs d) (c_always_out_of_date d)
         (c_sigdata d) (c_args d) (c_env d) (c_deps_paths d) s (c_inherit_env d) (c_can_safely_interrupt d).
Definition set_sigdata (d : cdef) (s : bytes) : cdef :=
  mkCdef (c_name d) (c_inputs d) (c_outputs d) (c_allow_missing_inputs d) (c_allow_modified_outputs d) (c_always_out_of_date d)
         s (c_args d) (c_env d) (c_deps_paths d) (c_deps_style d) (c_inherit_env d) (c_can_safely_interrupt d).
Definition set_name (d : cdef) (s : bytes) : cdef :=
  mkCdef s (c_inputs d) (c_outputs d) (c_allow_missing_inputs d) (c_allow_modified_outputs d) (c_always_out_of_date d)
         (c_sigdata d) (c_args d) (c_env d) (c_deps_paths d) (c_deps_style d) (c_inherit_env d) (c_can_safely_interrupt d).

(* the five boolean attributes, addressed by index 0..4 in declaration order *)
Definition flip_flag (d : cdef) (i : nat) : cdef :=
  let f (j : nat) (b : bool) := if Nat.eqb i j then negb b else b in
  mkCdef (c_name d) (c_inputs d) (c_outputs d)
         (f 0%nat (c_allow_missing_inputs d)) (f 1%nat (c_allow_modified_outputs d)) (f 2%nat (c_always_out_of_date d))
         (c_sigdata d) (c_args d) (c_env d) (c_deps_paths d) (c_deps_style d)
         (f 3%nat (c_inherit_env d)) (f 4%nat (c_can_safely_interrupt d)).

(* ---------- the re-run decision ---------- *)

(* BuildValue::isSuccessfulCommand *)
Definition is_successful (k : vkind) : bool :=
  match k with VSuccessfulCommand | VSuccessfulCommandWithOutputSignature => true | _ => false end.

(* one declared output as ExternalCommand::isResultValid sees it *)
Record onode := mkOnode {
  on_virtual : bool;                     (* node->isVirtual() *)
  on_mutated : bool;                     (* node->isMutated() *)
  on_current : fileinfo }.               (* node->getFileInfo(fileSystem) now *)

Inductive verdict := Valid | Invalid | OverRead.

(* does stored info s (value.getNthOutputInfo(i)) still describe output o ? *)
Definition output_matches (o : onode) (s : fileinfo) : bool :=
  if on_mutated o then Bool.eqb (is_missing s) (is_missing (on_current o))
  else info_eqb s (on_current o).

(* the loop "for (i = 0; i != outputs.size(); ++i)": the stored infos are indexed by the same i, also past virtual
   outputs; value.getNthOutputInfo(i) with i >= getNumOutputs() is only guarded by an assert: OverRead *)
Fixpoint outputs_valid (outs : list onode) (stored : list fileinfo) : verdict :=
  match outs with
  | [] => Valid
  | o :: outs' =>
    if on_virtual o then outputs_valid outs' (tl stored)
    else match stored with
         | [] => OverRead
         | s :: stored' => if output_matches o s then outputs_valid outs' stored' else Invalid
         end
  end.

(* ExternalCommand::isResultValid *)
Definition is_result_valid (always_out_of_date : bool) (v : bvalue) (outs : list onode) : verdict :=
  if always_out_of_date then Invalid
  else if negb (is_successful (bv_kind v)) then Invalid
  else outputs_valid outs (bv_infos v).

(* what the engine has stored for the command's rule *)
Record stored := mkStored {
  st_built_at : N;                       (* 0 = never built *)
  st_cancelled : bool;                   (* taskWasCancelled (same engine instance only) *)
  st_sig : N;                            (* result.signature *)
  st_value : bvalue }.

Inductive reason := RNeverBuilt | RForced | RSignatureChanged | RInvalidValue.
Inductive decision :=
| DRun (r : reason)                      (* NeedsToRun *)
| DScanInputs                            (* runs iff the scan of the recorded dependencies finds a change *)
| DOverRead.

(* BuildEngine scanRule, specialised to a command rule *)
Definition rerun_decision (st : stored) (cur_sig : N) (always_out_of_date : bool) (outs : list onode) : decision :=
  if N.eqb (st_built_at st) 0 then DRun RNeverBuilt
  else if st_cancelled st then DRun RForced
  else if negb (N.eqb cur_sig (st_sig st)) then DRun RSignatureChanged
  else match is_result_valid always_out_of_date (st_value st) outs with
       | Invalid => DRun RInvalidValue
       | Valid => DScanInputs
       | OverRead => DOverRead
       end.

(* does the command execute in this build? *)
Definition reexecutes (inputs_changed : bool) (dc : decision) : option bool :=
  match dc with
  | DRun _ => Some true
  | DScanInputs => Some inputs_changed
  | DOverRead => None
  end.

(* an output (by index) whose stored info no longer matches *)
Definition output_differs (outs : list onode) (infos : list fileinfo) : Prop :=
  exists i o s, nth_error outs i = Some o /\ nth_error infos i = Some s /\
                on_virtual o = false /\ output_matches o s = false.

(* ---------- the ideal-hash premises, and a toy hash showing that they are satisfiable ---------- *)

(* shell commands: the fold followed by the 0 -> 1 replacement is collision-free *)
Definition ideal_hash (H0 : bytes -> N) (HC : N -> token -> N) : Prop :=
  forall n1 ts1 n2 ts2, fix0 (chain H0 HC n1 ts1) = fix0 (chain H0 HC n2 ts2) -> n1 = n2 /\ ts1 = ts2.
(* chains that start from a name, without the replacement (phony, mkdir, symlink) *)
Definition ideal_chain (H0 : bytes -> N) (HC : N -> token -> N) : Prop :=
  forall n1 ts1 n2 ts2, chain H0 HC n1 ts1 = chain H0 HC n2 ts2 -> n1 = n2 /\ ts1 = ts2.
(* chains that start from the null signature (nodes, stale-file removal) *)
Definition ideal_fold0 (HC : N -> token -> N) : Prop :=
  forall ts1 ts2, fold_tokens HC 0 ts1 = fold_tokens HC 0 ts2 -> ts1 = ts2.

(* (2b+1) * 2^a: an injective pairing that is never 0 *)
Fixpoint dbl (n : nat) (x : N) : N := match n with O => x | S n' => 2 * dbl n' x end.
Definition toy_pair (a b : N) : N := dbl (N.to_nat a) (2 * b + 1).
Fixpoint enc_bytes (l : bytes) : N := match l with [] => 0 | x :: l' => toy_pair x (enc_bytes l') end.
Definition enc_token (t : token) : N :=
  match t with
  | TStr s => toy_pair 0 (enc_bytes s)
  | TBool b => toy_pair 1 (if b then 1 else 0)
  | TU64 n => toy_pair 2 n
  end.
Definition toy_H0 (name : bytes) : N := 2 * enc_bytes name + 2.             (* even, >= 2 *)
Definition toy_HC (acc : N) (t : token) : N := 2 * toy_pair acc (enc_token t) + 1.   (* odd, >= 3 *)

(* ---------- concrete instances used by the non-vacuity examples ---------- *)

(* cc -c a.c -o a.o with one environment entry and a makefile-style dependency file *)
Definition ex_def : cdef :=
  mkCdef [67;49] [[97;46;99]; [104]] [[97;46;111]] false true false []
         [[99;99]; [45;99]; [97;46;99]] [([75], [86])] [[97;46;100]] 1 true false.

(* a stored successful result with one output *)
Definition ex_info (size : N) : fileinfo := mkFI 1 7 33188 size 100 0 (repeat 0 32).
Definition ex_stored : stored := mkStored 5 false 42 (mkBV VSuccessfulCommand 0 [ex_info 10] []).

(* ---------- symlink commands as definitions ---------- *)

(* SymlinkCommand (lib/BuildSystem/BuildSystem.cpp): configureOutputs accepts exactly one output (otherwise the
   loader reports an error), but a command written without any "outputs:" key keeps an empty vector, and
   getSignature() evaluates outputs[0]->getName() unguarded: None = that over-read.
   link-output-path, repair-via-ownership-analysis, the description and the command's own name are NOT hashed. *)
Record sdef := mkSdef {
  s_name : bytes;
  s_inputs : list bytes;
  s_outputs : list bytes;
  s_contents : bytes;
  s_link_output_path : bytes;            (* empty = not given *)
  s_repair_via_ownership : bool }.

Definition sdef_sig_tokens (s : sdef) : option (bytes * list token) :=
  match s_outputs s with
  | [] => None
  | out0 :: _ => Some (symlink_sig_tokens out0 (s_contents s) (s_inputs s))
  end.

(* the parts of a loadable symlink command (exactly one declared output) that the property calls signature
   relevant: declared outputs, contents (the "argument" of the tool), declared inputs *)
Definition symlink_wf (s : sdef) : Prop := length (s_outputs s) = 1%nat.
Definition symlink_relevant (s : sdef) : list bytes * bytes * list bytes := (s_outputs s, s_contents s, s_inputs s).

Definition sdef_sig (H0 : bytes -> N) (HC : N -> token -> N) (s : sdef) : option N :=
  match sdef_sig_tokens s with Some p => Some (chain_p H0 HC p) | None => None end.

Definition ex_sdef : sdef := mkSdef [76] [[105]] [[60;97;62]] [116] [108;105;110;107] false.

(* a directory as stat reports it (mode 040755) *)
Definition ex_dirinfo (sec size : N) : fileinfo := mkFI 1 9 16877 size sec 0 (repeat 0 32).
