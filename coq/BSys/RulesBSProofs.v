(* Proofs about the build-system layer (property C08): the rule-level facts the engine theorem needs.
   Only BSys/Sig.v's DEFINITIONS are used from the signature area; its injectivity theorems appear as premises. *)
From LLB Require Import Base.Bytes Base.BytesFacts Codec.Codec Codec.FileObs Codec.FileObsProofs BSys.Sig BSys.RulesBS.
Local Open Scope N_scope.

(* ================================================================================================ *)
(* basic facts                                                                                      *)
(* ================================================================================================ *)

Lemma key_eqb_eq a b : key_eqb a b = true <-> a = b.
Proof.
  destruct a as [x|x|x], b as [y|y|y]; cbn [key_eqb]; try (split; [discriminate | intros H; discriminate]);
    rewrite bytes_eqb_eq; (split; [intros ->; reflexivity | intros H; inversion H; reflexivity]).
Qed.

Lemma key_eqb_refl a : key_eqb a a = true.
Proof. apply key_eqb_eq. reflexivity. Qed.

Lemma key_eqb_neq a b : key_eqb a b = false <-> a <> b.
Proof.
  destruct (key_eqb a b) eqn:E.
  - apply key_eqb_eq in E. split; [discriminate | intros H; contradiction].
  - split; [intros _ H; apply key_eqb_eq in H; congruence | reflexivity].
Qed.

Lemma vtag_inj a b : vtag a = vtag b -> a = b.
Proof. destruct a, b; cbn [vtag]; intros H; try reflexivity; discriminate H. Qed.

Lemma kind_is_eq v k : kind_is v k = true <-> bv_kind v = k.
Proof.
  unfold kind_is. rewrite N.eqb_eq. split; [apply vtag_inj | intros ->; reflexivity].
Qed.

Lemma kind_is_neq v k : kind_is v k = false <-> bv_kind v <> k.
Proof.
  destruct (kind_is v k) eqn:E.
  - apply kind_is_eq in E. split; [discriminate | intros H; contradiction].
  - split; [intros _ H; apply kind_is_eq in H; congruence | reflexivity].
Qed.

(* ---------- FileInfo equality is an equivalence ---------- *)

Lemma info_eqb_intro a b :
  fi_device a = fi_device b -> fi_inode a = fi_inode b -> fi_size a = fi_size b -> fi_sec a = fi_sec b ->
  fi_nsec a = fi_nsec b -> fi_checksum a = fi_checksum b -> is_missing a = is_missing b -> info_eqb a b = true.
Proof.
  intros H1 H2 H3 H4 H5 H6 H7. unfold info_eqb. rewrite H1, H2, H3, H4, H5, H6, H7.
  rewrite !N.eqb_refl, bytes_eqb_refl. cbn. destruct (is_missing b); reflexivity.
Qed.

Lemma info_eqb_sym_true a b : info_eqb a b = true -> info_eqb b a = true.
Proof.
  intros H. apply info_eqb_true in H. destruct H as [H1 [H2 [H3 [H4 [H5 [H6 H7]]]]]].
  apply info_eqb_intro; congruence.
Qed.

Lemma info_eqb_sym a b : info_eqb a b = info_eqb b a.
Proof.
  destruct (info_eqb a b) eqn:E1, (info_eqb b a) eqn:E2; try reflexivity.
  - apply info_eqb_sym_true in E1. congruence.
  - apply info_eqb_sym_true in E2. congruence.
Qed.

Lemma info_eqb_trans a b c : info_eqb a b = true -> info_eqb b c = true -> info_eqb a c = true.
Proof.
  intros H K. apply info_eqb_true in H. apply info_eqb_true in K.
  destruct H as [H1 [H2 [H3 [H4 [H5 [H6 H7]]]]]]. destruct K as [K1 [K2 [K3 [K4 [K5 [K6 K7]]]]]].
  apply info_eqb_intro; congruence.
Qed.

Lemma info_eqb_missing a b : info_eqb a b = true -> is_missing a = is_missing b.
Proof. intros H. apply info_eqb_true in H. tauto. Qed.

Lemma info_eqb_sec a b : info_eqb a b = true -> fi_sec a = fi_sec b.
Proof. intros H. apply info_eqb_true in H. tauto. Qed.

Lemma missing_info_is_missing : is_missing missing_info = true.
Proof. reflexivity. Qed.

Lemma infos_equiv_refl l : infos_equiv l l = true.
Proof. induction l as [|x l IH]; cbn [infos_equiv]; [reflexivity|]. rewrite info_eqb_refl, IH. reflexivity. Qed.

Lemma value_equiv_refl v : value_equiv v v = true.
Proof. unfold value_equiv. rewrite N.eqb_refl, infos_equiv_refl. reflexivity. Qed.

(* ---------- the world ---------- *)

Lemma fresh_not_missing w m s : is_missing (fresh w m s) = false.
Proof. reflexivity. Qed.

Lemma fresh_sec w m s : fi_sec (fresh w m s) = w_clock w.
Proof. reflexivity. Qed.

Lemma put_fs_same w p c s : w_fs (put w p c s) p = Some (c, s).
Proof. unfold put. cbn [w_fs]. rewrite bytes_eqb_refl. reflexivity. Qed.

Lemma put_fs_other w p c s q : q <> p -> w_fs (put w p c s) q = w_fs w q.
Proof. intros H. unfold put. cbn [w_fs]. apply bytes_eqb_neq in H. rewrite H. reflexivity. Qed.

Lemma put_clock w p c s : w_clock (put w p c s) = N.max (w_clock w) (fi_sec s) + 1.
Proof. reflexivity. Qed.

Lemma stat_put_same w p c s : stat_w (put w p c s) p = s.
Proof. unfold stat_w. rewrite put_fs_same. reflexivity. Qed.

Lemma stat_put_other w p c s q : q <> p -> stat_w (put w p c s) q = stat_w w q.
Proof. intros H. unfold stat_w. rewrite put_fs_other by assumption. reflexivity. Qed.

Lemma content_put_same w p c s : content_w (put w p c s) p = Some c.
Proof. unfold content_w. rewrite put_fs_same. reflexivity. Qed.

Lemma content_put_other w p c s q : q <> p -> content_w (put w p c s) q = content_w w q.
Proof. intros H. unfold content_w. rewrite put_fs_other by assumption. reflexivity. Qed.

Lemma del_fs_same w p : w_fs (del w p) p = None.
Proof. unfold del. cbn [w_fs]. rewrite bytes_eqb_refl. reflexivity. Qed.

Lemma del_fs_other w p q : q <> p -> w_fs (del w p) q = w_fs w q.
Proof. intros H. unfold del. cbn [w_fs]. apply bytes_eqb_neq in H. rewrite H. reflexivity. Qed.

Lemma wf_put w p c s : wf_world w -> is_missing s = false -> wf_world (put w p c s).
Proof.
  intros W M q c' s' H. rewrite put_clock.
  destruct (bytes_eqb q p) eqn:E.
  - apply bytes_eqb_eq in E. subst q. rewrite put_fs_same in H. inversion H. subst c' s'. split; [exact M | lia].
  - apply bytes_eqb_neq in E. rewrite put_fs_other in H by assumption. destruct (W q c' s' H) as [A B]. split; [exact A | lia].
Qed.

Lemma wf_write_fresh w p m c : wf_world w -> wf_world (write_fresh w p m c).
Proof. intros W. unfold write_fresh. apply wf_put; [exact W | apply fresh_not_missing]. Qed.

Lemma wf_del w p : wf_world w -> wf_world (del w p).
Proof.
  intros W q c s H. unfold del in *. cbn [w_fs w_clock] in *.
  destruct (bytes_eqb q p); [discriminate | exact (W q c s H)].
Qed.

Lemma wf_empty_world : wf_world empty_world.
Proof. intros p c s H. discriminate H. Qed.

Lemma write_fresh_clock w p m c : w_clock (write_fresh w p m c) = w_clock w + 1.
Proof. unfold write_fresh. rewrite put_clock, fresh_sec. lia. Qed.

Lemma stat_missing_iff w p : wf_world w -> (is_missing (stat_w w p) = true <-> w_fs w p = None).
Proof.
  intros W. unfold stat_w. destruct (w_fs w p) as [[c s]|] eqn:E.
  - destruct (W p c s E) as [A _]. rewrite A. split; discriminate.
  - split; reflexivity.
Qed.

Lemma stat_sec_lt w p : wf_world w -> is_missing (stat_w w p) = false -> fi_sec (stat_w w p) < w_clock w.
Proof.
  intros W. unfold stat_w. destruct (w_fs w p) as [[c s]|] eqn:E.
  - intros _. exact (proj2 (W p c s E)).
  - rewrite missing_info_is_missing. discriminate.
Qed.

(* a stamp at or above the clock differs from the stamp of every path: "strictly newer than all existing" *)
Lemma observable_differs w p s : wf_world w -> observable w s -> info_eqb (stat_w w p) s = false.
Proof.
  intros W [M C]. destruct (info_eqb (stat_w w p) s) eqn:E; [exfalso|reflexivity].
  pose proof (info_eqb_missing _ _ E) as Hm. rewrite M in Hm.
  pose proof (stat_sec_lt w p W Hm) as Hl. apply info_eqb_sec in E. lia.
Qed.

Lemma fresh_observable w m s : observable w (fresh w m s).
Proof. split; [apply fresh_not_missing | rewrite fresh_sec; lia]. Qed.

(* ================================================================================================ *)
(* c08_source_edit_detected                                                                         *)
(* ================================================================================================ *)

(* the general form: any change of the fields FileInfo::operator== compares (including appearance and
   disappearance) invalidates the stored value of the input node *)
Theorem file_valid_detects w w' n v :
  wf_world w -> wf_world w' -> file_valid w n v = true ->
  info_eqb (stat_w w n) (stat_w w' n) = false -> file_valid w' n v = false.
Proof.
  intros W W' V D. unfold file_valid in *.
  destruct (is_missing (stat_w w n)) eqn:M; destruct (is_missing (stat_w w' n)) eqn:M'.
  - exfalso. apply (stat_missing_iff w n W) in M. apply (stat_missing_iff w' n W') in M'.
    unfold stat_w in D. rewrite M, M' in D. rewrite info_eqb_refl in D. discriminate.
  - apply kind_is_eq in V. apply andb_false_iff. left. apply kind_is_neq. rewrite V. discriminate.
  - apply andb_true_iff in V. destruct V as [V _]. apply kind_is_eq in V. apply kind_is_neq. rewrite V. discriminate.
  - apply andb_true_iff in V. destruct V as [Vk Vi]. apply andb_false_iff. right.
    destruct (info_eqb (first_info v) (stat_w w' n)) eqn:E; [exfalso|reflexivity].
    apply info_eqb_sym_true in Vi. rewrite (info_eqb_trans _ _ _ Vi E) in D. discriminate.
Qed.

(* an observable edit: new content with a stamp not older than the clock *)
Theorem source_edit_detected w n v c s :
  wf_world w -> observable w s -> file_valid w n v = true -> file_valid (put w n c s) n v = false.
Proof.
  intros W O V. apply (file_valid_detects w (put w n c s) n v W); [apply wf_put; [exact W | exact (proj1 O)] | exact V |].
  rewrite stat_put_same. apply observable_differs; assumption.
Qed.

(* deleting a source that existed *)
Theorem source_delete_detected w n v :
  wf_world w -> is_missing (stat_w w n) = false -> file_valid w n v = true -> file_valid (del w n) n v = false.
Proof.
  intros W M V. apply (file_valid_detects w (del w n) n v W (wf_del w n W) V).
  destruct (info_eqb (stat_w w n) (stat_w (del w n) n)) eqn:E; [exfalso|reflexivity].
  apply info_eqb_missing in E. unfold stat_w at 2 in E. rewrite del_fs_same, missing_info_is_missing in E. congruence.
Qed.

(* an untouched source stays valid, whatever happens to other paths *)
Theorem file_valid_frame w w' n v : w_fs w' n = w_fs w n -> file_valid w' n v = file_valid w n v.
Proof. intros H. unfold file_valid, stat_w. rewrite H. reflexivity. Qed.

(* what the task records is valid in the world it observed *)
Lemma file_valid_run w n : file_valid w n (run_file_input w n) = true.
Proof.
  unfold file_valid, run_file_input. destruct (is_missing (stat_w w n)) eqn:M; [reflexivity|].
  unfold first_info, v_existing, kind_is. cbn. apply info_eqb_refl.
Qed.

(* ================================================================================================ *)
(* c08_tamper_detected                                                                              *)
(* ================================================================================================ *)

Lemma onodes_cons d w x outs :
  onodes d w (x :: outs) =
  mkOnode (node_virtual x) (is_mutated d x) (if node_virtual x then missing_info else stat_w w x) :: onodes d w outs.
Proof. reflexivity. Qed.

Lemma outputs_valid_cons o outs stored :
  outputs_valid (o :: outs) stored =
  if on_virtual o then outputs_valid outs (tl stored)
  else match stored with
       | [] => OverRead
       | s :: stored' => if output_matches o s then outputs_valid outs stored' else Invalid
       end.
Proof. reflexivity. Qed.

(* the change of one output that the code notices: the compared fields differ, and for a node declared
   is-mutated (only existence is compared) the existence changed *)
Definition tampered (d : desc) (w w' : world) (o : path) : Prop :=
  info_eqb (stat_w w o) (stat_w w' o) = false /\
  (is_mutated d o = true -> is_missing (stat_w w o) <> is_missing (stat_w w' o)).

Lemma tampered_no_match d w w' o s :
  tampered d w w' o ->
  output_matches (mkOnode false (is_mutated d o) (stat_w w o)) s = true ->
  output_matches (mkOnode false (is_mutated d o) (stat_w w' o)) s = false.
Proof.
  intros [T1 T2]. unfold output_matches. cbn [on_mutated on_current].
  destruct (is_mutated d o) eqn:Mu.
  - intros H. apply Bool.eqb_prop in H. specialize (T2 eq_refl).
    destruct (Bool.eqb (is_missing s) (is_missing (stat_w w' o))) eqn:E; [|reflexivity].
    apply Bool.eqb_prop in E. congruence.
  - intros H. destruct (info_eqb s (stat_w w' o)) eqn:E; [|reflexivity].
    apply info_eqb_sym_true in H. rewrite (info_eqb_trans _ _ _ H E) in T1. discriminate.
Qed.

Lemma outputs_valid_tamper d w w' o outs : forall stored,
  outputs_valid (onodes d w outs) stored = Valid ->
  In o outs -> node_virtual o = false -> tampered d w w' o ->
  outputs_valid (onodes d w' outs) stored = Invalid.
Proof.
  induction outs as [|x outs IH]; intros stored V I NV T; [destruct I|].
  rewrite onodes_cons, outputs_valid_cons in V |- *. cbn [on_virtual] in V |- *.
  destruct (node_virtual x) eqn:Vx.
  - destruct I as [I|I]; [subst x; congruence|]. apply IH; assumption.
  - destruct stored as [|s stored]; [discriminate V|].
    destruct (output_matches (mkOnode false (is_mutated d x) (stat_w w x)) s) eqn:Mx; [|discriminate V].
    destruct (output_matches (mkOnode false (is_mutated d x) (stat_w w' x)) s) eqn:Mx'; [|reflexivity].
    destruct (bytes_eqb x o) eqn:Exo.
    + apply bytes_eqb_eq in Exo. subst x. rewrite (tampered_no_match d w w' o s T Mx) in Mx'. discriminate.
    + apply bytes_eqb_neq in Exo. destruct I as [I|I]; [contradiction|]. apply IH; assumption.
Qed.

(* deleting or overwriting (with a different stamp) any non-virtual output of a command whose stored value is
   valid makes the stored value invalid.  Shell and phony commands compare every output; mkdir only asks for a
   directory at its first output (by design, see the FIXME in the code); symlink compares the link's own stamp *)
Theorem tamper_detected d w w' c v o :
  cmd_valid d w c v = Valid -> In o (cm_outputs c) -> node_virtual o = false ->
  match cm_tool c with
  | TShell | TPhony => tampered d w w' o
  | TMkdir => o = hd [] (cm_outputs c) /\ (is_missing (stat_w w' o) = true \/ fi_is_dir (stat_w w' o) = false)
  | TSymlink => o = hd [] (cm_outputs c) /\ info_eqb (stat_w w o) (stat_w w' o) = false
  end ->
  cmd_valid d w' c v = Invalid.
Proof.
  intros V I NV T. unfold cmd_valid in *.
  assert (Hext : tampered d w w' o ->
                 is_result_valid (c_always_out_of_date (cm_def c)) v (onodes d w (cm_outputs c)) = Valid ->
                 is_result_valid (c_always_out_of_date (cm_def c)) v (onodes d w' (cm_outputs c)) = Invalid).
  { intros T' V'. unfold is_result_valid in *.
    destruct (c_always_out_of_date (cm_def c)); [discriminate V'|].
    destruct (negb (is_successful (bv_kind v))); [discriminate V'|].
    apply (outputs_valid_tamper d w w' o); assumption. }
  destruct (cm_tool c).
  - apply Hext; assumption.
  - apply Hext; assumption.
  - destruct T as [Ho T]. unfold mkdir_valid in *.
    destruct (negb (is_successful (bv_kind v))); [reflexivity|].
    destruct (cm_outputs c) as [|x outs]; [destruct I|]. cbn [hd] in Ho. subst x.
    destruct T as [T|T]; rewrite T; [reflexivity|]. destruct (is_missing (stat_w w' o)); reflexivity.
  - destruct T as [Ho T]. unfold symlink_valid in *.
    destruct (cm_outputs c) as [|x outs]; [destruct I|]. cbn [hd] in Ho. subst x.
    destruct (is_nil o); [reflexivity|].
    destruct (negb (is_successful (bv_kind v))); [reflexivity|].
    destruct (negb (Nat.eqb (length (bv_infos v)) 1)); [reflexivity|].
    destruct (is_missing (stat_w w o)); [discriminate V|].
    destruct (is_missing (stat_w w' o)); [reflexivity|].
    destruct (info_eqb (stat_w w o) (first_info v)) eqn:E; [|discriminate V].
    destruct (info_eqb (stat_w w' o) (first_info v)) eqn:E'; [exfalso|reflexivity].
    apply info_eqb_sym_true in E'. rewrite (info_eqb_trans _ _ _ E E') in T. discriminate.
Qed.

(* the two tamperings of the property text, for a non-mutated output of a shell or phony command *)
Corollary tamper_overwrite d w o content s :
  wf_world w -> observable w s -> is_mutated d o = false ->
  tampered d w (put w o content s) o.
Proof.
  intros W O Mu. split; [|congruence]. rewrite stat_put_same. apply observable_differs; assumption.
Qed.

Corollary tamper_delete d w o :
  is_missing (stat_w w o) = false -> tampered d w (del w o) o.
Proof.
  intros M. assert (Hd : stat_w (del w o) o = missing_info) by (unfold stat_w; rewrite del_fs_same; reflexivity).
  unfold tampered. rewrite Hd. split.
  - destruct (info_eqb (stat_w w o) missing_info) eqn:E; [|reflexivity].
    apply info_eqb_missing in E. rewrite missing_info_is_missing in E. congruence.
  - intros _. rewrite missing_info_is_missing. congruence.
Qed.

(* by design: overwriting an output declared is-mutated is NOT noticed (only its existence is compared) *)
Lemma mutated_overwrite_unnoticed d w o s stored :
  is_mutated d o = true -> is_missing s = false -> is_missing (stat_w w o) = false ->
  output_matches (mkOnode false (is_mutated d o) (stat_w w o)) stored = true ->
  output_matches (mkOnode false (is_mutated d o) s) stored = true.
Proof.
  intros Mu Ms Mw. unfold output_matches. cbn [on_mutated on_current]. rewrite Mu, Ms, Mw. tauto.
Qed.

(* ================================================================================================ *)
(* running a command: effect on the world                                                           *)
(* ================================================================================================ *)

Lemma outputs_valid_recorded d w outs : outputs_valid (onodes d w outs) (out_infos w outs) = Valid.
Proof.
  induction outs as [|x outs IH]; [reflexivity|].
  rewrite onodes_cons, outputs_valid_cons. cbn [on_virtual out_infos map].
  destruct (node_virtual x) eqn:Vx; [exact IH|].
  fold (out_infos w outs). unfold output_matches. cbn [on_mutated on_current].
  destruct (is_mutated d x).
  - rewrite Bool.eqb_reflx. exact IH.
  - rewrite info_eqb_refl. exact IH.
Qed.

(* a stored value that is valid for non-mutated outputs carries infos equivalent to the current ones *)
Lemma outputs_valid_equiv d w w0 outs :
  (forall o, In o outs -> is_mutated d o = false) ->
  outputs_valid (onodes d w outs) (out_infos w0 outs) = Valid ->
  infos_equiv (out_infos w outs) (out_infos w0 outs) = true.
Proof.
  induction outs as [|x outs IH]; intros Mu V; [reflexivity|].
  rewrite onodes_cons, outputs_valid_cons in V. cbn [on_virtual out_infos map] in V |- *.
  fold (out_infos w0 outs) in V |- *. fold (out_infos w outs).
  cbn [infos_equiv]. destruct (node_virtual x) eqn:Vx.
  - rewrite info_eqb_refl. cbn [tl andb] in V |- *. apply IH; [intros o I; apply Mu; right; exact I | exact V].
  - unfold output_matches in V. cbn [on_mutated on_current] in V. rewrite (Mu x (or_introl eq_refl)) in V.
    destruct (info_eqb (stat_w w0 x) (stat_w w x)) eqn:E; [|discriminate V].
    rewrite (info_eqb_sym_true _ _ E). cbn [andb]. apply IH; [intros o I; apply Mu; right; exact I | exact V].
Qed.

Lemma command_result_infos e w outs : outs <> [] -> bv_infos (command_result e w outs) = out_infos w outs.
Proof. destruct outs; [congruence | reflexivity]. Qed.

Lemma command_result_kind e w outs : bv_kind (command_result e w outs) = VSuccessfulCommand.
Proof. reflexivity. Qed.

Lemma index_of_nth n l : forall i, index_of n l = Some i -> nth_error l i = Some n.
Proof.
  induction l as [|x l IH]; intros i H; [discriminate H|]. cbn [index_of] in H.
  destruct (bytes_eqb x n) eqn:E.
  - apply bytes_eqb_eq in E. inversion H. subst. reflexivity.
  - destruct (index_of n l) as [k|]; [|discriminate H]. inversion H. cbn [nth_error]. apply IH. reflexivity.
Qed.

Lemma index_of_In n l : In n l -> exists i, index_of n l = Some i.
Proof.
  induction l as [|x l IH]; intros I; [destruct I|]. cbn [index_of].
  destruct (bytes_eqb x n) eqn:E; [exists O; reflexivity|].
  destruct I as [I|I]; [subst x; rewrite bytes_eqb_refl in E; discriminate|].
  destruct (IH I) as [i Hi]. rewrite Hi. exists (S i). reflexivity.
Qed.

Lemma nth_info_of_nth k sg l strs i y : nth_error l i = Some y -> nth_info (mkBV k sg l strs) i = Some y.
Proof.
  unfold nth_info. cbn [bv_infos]. destruct l as [|x [|x2 l]]; intros H; try exact H.
  destruct i as [|i]; [exact H|]. cbn in H. destruct i; discriminate H.
Qed.

Lemma out_infos_nth w outs i o : nth_error outs i = Some o -> node_virtual o = false ->
  nth_error (out_infos w outs) i = Some (stat_w w o).
Proof.
  intros H NV. unfold out_infos. rewrite nth_error_map, H. cbn. rewrite NV. reflexivity.
Qed.

(* what a dependent node reads from a value the command recorded itself *)
Lemma ext_result_recorded c e w o :
  In o (cm_outputs c) -> node_virtual o = false ->
  ext_result_for_output c o (command_result e w (cm_outputs c)) =
  Some (if is_missing (stat_w w o) then v_simple VMissingOutput else v_existing (stat_w w o)).
Proof.
  intros I NV. unfold ext_result_for_output. rewrite command_result_kind. cbn [is_failure_kind is_successful negb].
  unfold kind_is at 1. rewrite command_result_kind. cbn [vtag N.eqb Pos.eqb]. rewrite NV.
  destruct (index_of_In o _ I) as [i Hi]. rewrite Hi.
  pose proof (index_of_nth _ _ _ Hi) as Hn.
  assert (Hne : cm_outputs c <> []) by (intros E; rewrite E in I; destruct I).
  unfold command_result, v_success. destruct (cm_outputs c) as [|x l] eqn:Eo; [congruence|].
  rewrite <- Eo in *. rewrite (nth_info_of_nth _ _ _ _ i (stat_w w o)); [reflexivity|].
  apply out_infos_nth; assumption.
Qed.

Lemma existing_values_differ a b : info_eqb a b = false -> value_equiv (v_existing a) (v_existing b) = false.
Proof. intros H. unfold value_equiv, v_existing. cbn. rewrite H. reflexivity. Qed.

Section RunFacts.
Variable F : command -> nat -> list (option bytes) -> bytes.

Lemma write_outputs_wf c ins outs : forall j w, wf_world w -> wf_world (write_outputs F c ins outs j w).
Proof.
  induction outs as [|x outs IH]; intros j w W; cbn [write_outputs]; [exact W|].
  apply IH. destruct (node_virtual x); [exact W | apply wf_write_fresh; exact W].
Qed.

Lemma write_outputs_clock c ins outs : forall j w, w_clock w <= w_clock (write_outputs F c ins outs j w).
Proof.
  induction outs as [|x outs IH]; intros j w; cbn [write_outputs]; [lia|].
  destruct (node_virtual x).
  - apply IH.
  - pose proof (IH (S j) (write_fresh w x mode_file (F c j ins))) as H. rewrite write_fresh_clock in H. lia.
Qed.

Lemma write_outputs_other c ins outs p : forall j w,
  (forall o, In o outs -> node_virtual o = false -> o <> p) ->
  w_fs (write_outputs F c ins outs j w) p = w_fs w p.
Proof.
  induction outs as [|x outs IH]; intros j w H; cbn [write_outputs]; [reflexivity|].
  rewrite IH by (intros o I; apply H; right; exact I).
  destruct (node_virtual x) eqn:Vx; [reflexivity|].
  unfold write_fresh. apply put_fs_other. intros E. apply (H x (or_introl eq_refl) Vx). congruence.
Qed.

(* every non-virtual output carries a stamp handed out during this run *)
Lemma write_outputs_stamp c ins outs o : forall j w, In o outs -> node_virtual o = false ->
  is_missing (stat_w (write_outputs F c ins outs j w) o) = false /\
  w_clock w <= fi_sec (stat_w (write_outputs F c ins outs j w) o).
Proof.
  induction outs as [|x outs IH]; intros j w I NV; [destruct I|]. cbn [write_outputs].
  destruct (mem_bytes o outs) eqn:Em.
  - apply mem_bytes_In in Em. destruct (IH (S j) (if node_virtual x then w else write_fresh w x mode_file (F c j ins)) Em NV) as [A B].
    split; [exact A|]. destruct (node_virtual x); [exact B | rewrite write_fresh_clock in B; lia].
  - assert (Hn : ~ In o outs) by (rewrite <- mem_bytes_In; congruence).
    destruct I as [I|I]; [subst x | contradiction]. rewrite NV.
    unfold stat_w. rewrite write_outputs_other by (intros o' I' _ E; subst o'; contradiction).
    unfold write_fresh. rewrite put_fs_same. split; [apply fresh_not_missing | rewrite fresh_sec; lia].
Qed.

Lemma write_outputs_same_content c ins outs : forall j w0 w,
  same_content w0 w ->
  (forall i o, nth_error outs i = Some o -> node_virtual o = false -> content_w w0 o = Some (F c (j + i)%nat ins)) ->
  same_content w0 (write_outputs F c ins outs j w).
Proof.
  induction outs as [|x outs IH]; intros j w0 w S H; cbn [write_outputs]; [exact S|].
  apply IH.
  - destruct (node_virtual x) eqn:Vx; [exact S|]. intros p. destruct (bytes_eqb p x) eqn:E.
    + apply bytes_eqb_eq in E. subst p. unfold write_fresh. rewrite content_put_same.
      rewrite (H O x eq_refl Vx). rewrite Nat.add_0_r. reflexivity.
    + apply bytes_eqb_neq in E. unfold write_fresh. rewrite content_put_other by assumption. apply S.
  - intros i o Hn NV. rewrite (H (Datatypes.S i) o Hn NV). rewrite Nat.add_succ_r. reflexivity.
Qed.

Lemma write_outputs_content c ins outs : NoDup outs -> forall j w i o,
  nth_error outs i = Some o -> node_virtual o = false ->
  content_w (write_outputs F c ins outs j w) o = Some (F c (j + i)%nat ins).
Proof.
  induction 1 as [|x outs Nx ND IH]; intros j w i o Hn NV; [destruct i; discriminate Hn|].
  cbn [write_outputs]. destruct i as [|i].
  - cbn in Hn. inversion Hn. subst x. rewrite NV. unfold content_w.
    rewrite write_outputs_other by (intros o' I' _ E; subst o'; contradiction).
    unfold write_fresh. rewrite put_fs_same. rewrite Nat.add_0_r. reflexivity.
  - cbn [nth_error] in Hn. rewrite (IH (S j) _ i o Hn NV). rewrite Nat.add_succ_r. reflexivity.
Qed.

Lemma input_contents_same w w' ins : same_content w w' -> input_contents w' ins = input_contents w ins.
Proof. intros S. unfold input_contents. apply map_ext. intros p. apply S. Qed.

Lemma run_external_executes e w c prior ins :
  existsb is_unreachable (map (classify_input (c_allow_missing_inputs (cm_def c))) ins) = false ->
  existsb is_skip (map (classify_input (c_allow_missing_inputs (cm_def c))) ins) = false ->
  c_allow_modified_outputs (cm_def c) = false ->
  run_external F e w c prior ins =
  match exec_tool F c w with
  | Some w' => Some (w', command_result e w' (cm_outputs c), true)
  | None => Some (w, v_simple VFailedCommand, true)
  end.
Proof.
  intros H1 H2 H3. unfold run_external. rewrite H1, H2. unfold can_update. rewrite H3. cbn [andb].
  rewrite andb_false_r. reflexivity.
Qed.

(* with allow-modified-outputs, a command that has a successful prior result and whose outputs all exist is not
   executed at all: its result is only re-recorded (by design; such commands are outside the property) *)
Lemma allow_modified_outputs_skips_execution e w c p ins :
  existsb is_unreachable (map (classify_input (c_allow_missing_inputs (cm_def c))) ins) = false ->
  existsb is_skip (map (classify_input (c_allow_missing_inputs (cm_def c))) ins) = false ->
  existsb is_missing_output (map (classify_input (c_allow_missing_inputs (cm_def c))) ins) = false ->
  is_successful (bv_kind p) = true -> can_update c (command_result e w (cm_outputs c)) = true ->
  run_external F e w c (Some p) ins = Some (w, command_result e w (cm_outputs c), false).
Proof.
  intros H1 H2 H3 H4 H5. unfold run_external. rewrite H1, H2, H3, H4, H5. reflexivity.
Qed.

Lemma recorded_valid d e w c :
  (cm_tool c = TShell \/ cm_tool c = TPhony) -> c_always_out_of_date (cm_def c) = false ->
  cmd_valid d w c (command_result e w (cm_outputs c)) = Valid.
Proof.
  intros T A. unfold cmd_valid.
  assert (H : is_result_valid (c_always_out_of_date (cm_def c)) (command_result e w (cm_outputs c))
                              (onodes d w (cm_outputs c)) = Valid).
  { unfold is_result_valid. rewrite A, command_result_kind. cbn [is_successful negb].
    destruct (cm_outputs c) as [|x l] eqn:Eo; [reflexivity|].
    rewrite command_result_infos by discriminate. apply outputs_valid_recorded. }
  destruct T as [T|T]; rewrite T; exact H.
Qed.

(* ---------- shell: re-running a command whose outputs already hold what it computes ---------- *)

Theorem shell_rerun d e w c prior ins :
  cm_tool c = TShell -> wf_world w ->
  existsb is_unreachable (map (classify_input (c_allow_missing_inputs (cm_def c))) ins) = false ->
  existsb is_skip (map (classify_input (c_allow_missing_inputs (cm_def c))) ins) = false ->
  c_allow_modified_outputs (cm_def c) = false -> c_always_out_of_date (cm_def c) = false ->
  shell_outputs_hold F w c ->
  exists w',
    run_external F e w c prior ins = Some (w', command_result e w' (cm_outputs c), true) /\
    same_content w w' /\ wf_world w' /\ shell_outputs_hold F w' c /\
    cmd_valid d w' c (command_result e w' (cm_outputs c)) = Valid /\
    (forall p, (forall o, In o (cm_outputs c) -> node_virtual o = false -> o <> p) -> w_fs w' p = w_fs w p) /\
    (forall o, In o (cm_outputs c) -> node_virtual o = false -> info_eqb (stat_w w o) (stat_w w' o) = false).
Proof.
  intros T W U K AM AO H.
  set (insc := input_contents w (cm_inputs c)).
  exists (write_outputs F c insc (cm_outputs c) 0 w).
  assert (SC : same_content w (write_outputs F c insc (cm_outputs c) 0 w)).
  { apply write_outputs_same_content; [intros p; reflexivity|]. intros i o Hn NV. exact (H i o Hn NV). }
  split; [|split; [exact SC|split; [apply write_outputs_wf; exact W|split; [|split; [|split]]]]].
  - rewrite run_external_executes by assumption. unfold exec_tool. rewrite T. reflexivity.
  - intros j o Hn NV. rewrite (input_contents_same _ _ _ SC). rewrite SC. exact (H j o Hn NV).
  - apply recorded_valid; [left; exact T | exact AO].
  - intros p Hp. apply write_outputs_other. exact Hp.
  - intros o I NV. apply observable_differs; [exact W|].
    destruct (write_outputs_stamp c insc (cm_outputs c) o 0 w I NV) as [A B]. split; assumption.
Qed.

(* consequently: the value stored before the re-run is no longer valid afterwards (the recorded stamps change) as
   soon as the command has a non-virtual, non-mutated output, and the node of each such output gets a value that
   is not equivalent to its previous one: dependents see a changed producer value and run again *)
Corollary shell_rerun_changes_value d w w' c v o :
  cm_tool c = TShell -> cmd_valid d w c v = Valid ->
  In o (cm_outputs c) -> node_virtual o = false -> is_mutated d o = false ->
  info_eqb (stat_w w o) (stat_w w' o) = false ->
  cmd_valid d w' c v = Invalid.
Proof.
  intros T V I NV Mu D. apply (tamper_detected d w w' c v o V I NV). rewrite T. split; [exact D | congruence].
Qed.

Corollary shell_rerun_dependents_see_change d e0 w0 e w w' c o :
  cm_tool c = TShell -> cmd_valid d w c (command_result e0 w0 (cm_outputs c)) = Valid ->
  (forall o', In o' (cm_outputs c) -> is_mutated d o' = false) ->
  In o (cm_outputs c) -> node_virtual o = false ->
  is_missing (stat_w w o) = false -> is_missing (stat_w w' o) = false ->
  info_eqb (stat_w w o) (stat_w w' o) = false ->
  exists a b, result_for_output c o (command_result e0 w0 (cm_outputs c)) = Some a /\
              result_for_output c o (command_result e w' (cm_outputs c)) = Some b /\
              value_equiv a b = false.
Proof.
  intros T V Mu I NV M M' D. unfold result_for_output. rewrite T.
  rewrite !ext_result_recorded by assumption. rewrite M'.
  assert (Ne : cm_outputs c <> []) by (intros E; rewrite E in I; destruct I).
  unfold cmd_valid in V. rewrite T in V. unfold is_result_valid in V.
  destruct (c_always_out_of_date (cm_def c)); [discriminate V|].
  rewrite command_result_kind in V. cbn [is_successful negb] in V.
  rewrite command_result_infos in V by assumption.
  pose proof (outputs_valid_equiv d w w0 _ Mu V) as Q.
  assert (E0 : info_eqb (stat_w w o) (stat_w w0 o) = true).
  { destruct (In_nth_error _ _ I) as [i Hi].
    clear - Q Hi NV. revert i Hi. induction (cm_outputs c) as [|x l IH]; intros i Hi; [destruct i; discriminate Hi|].
    cbn [out_infos map infos_equiv] in Q. apply andb_true_iff in Q. destruct Q as [Q1 Q2].
    destruct i as [|i].
    - cbn in Hi. inversion Hi. subst x. rewrite NV in Q1. exact Q1.
    - exact (IH Q2 i Hi). }
  assert (M0 : is_missing (stat_w w0 o) = false) by (rewrite <- (info_eqb_missing _ _ E0); exact M).
  rewrite M0. eexists. eexists. split; [reflexivity|split; [reflexivity|]].
  apply existing_values_differ.
  destruct (info_eqb (stat_w w0 o) (stat_w w' o)) eqn:E; [|reflexivity].
  rewrite (info_eqb_trans _ _ _ E0 E) in D. discriminate.
Qed.

(* a command all of whose outputs are virtual touches nothing and records the same value every time *)
Lemma all_virtual_same_result e1 w1 e2 w2 outs :
  outs <> [] -> forallb node_virtual outs = true -> command_result e1 w1 outs = command_result e2 w2 outs.
Proof.
  intros Ne Hv. unfold command_result. destruct outs as [|x l] eqn:Eo; [congruence|]. rewrite <- Eo in *. f_equal.
  clear Eo Ne. induction outs as [|y outs IH]; [reflexivity|]. cbn [forallb] in Hv. apply andb_true_iff in Hv.
  destruct Hv as [Hy Hr]. cbn [out_infos map]. rewrite Hy. f_equal. apply IH. exact Hr.
Qed.

Lemma all_virtual_no_write c ins outs : forall j w, forallb node_virtual outs = true -> write_outputs F c ins outs j w = w.
Proof.
  induction outs as [|x outs IH]; intros j w Hv; [reflexivity|]. cbn [forallb] in Hv. apply andb_true_iff in Hv.
  destruct Hv as [Hx Hr]. cbn [write_outputs]. rewrite Hx. apply IH. exact Hr.
Qed.

(* ---------- phony: nothing is written; the value is re-recorded ---------- *)

Theorem phony_rerun d e0 w0 e w c prior ins :
  cm_tool c = TPhony -> cm_outputs c <> [] ->
  existsb is_unreachable (map (classify_input (c_allow_missing_inputs (cm_def c))) ins) = false ->
  existsb is_skip (map (classify_input (c_allow_missing_inputs (cm_def c))) ins) = false ->
  c_allow_modified_outputs (cm_def c) = false ->
  (forall o, In o (cm_outputs c) -> is_mutated d o = false) ->
  cmd_valid d w c (command_result e0 w0 (cm_outputs c)) = Valid ->
  run_external F e w c prior ins = Some (w, command_result e w (cm_outputs c), true) /\
  value_equiv (command_result e w (cm_outputs c)) (command_result e0 w0 (cm_outputs c)) = true.
Proof.
  intros T Ne U K AM Mu V. split.
  - rewrite run_external_executes by assumption. unfold exec_tool. rewrite T. reflexivity.
  - unfold value_equiv. rewrite !command_result_kind, N.eqb_refl, !command_result_infos by assumption. cbn [andb].
    unfold cmd_valid in V. rewrite T in V. unfold is_result_valid in V.
    destruct (c_always_out_of_date (cm_def c)); [discriminate V|].
    rewrite command_result_kind in V. cbn [is_successful negb] in V.
    rewrite command_result_infos in V by assumption. apply (outputs_valid_equiv d); assumption.
Qed.

(* ---------- mkdir: a valid result means the directory is there; running again changes nothing ---------- *)

Theorem mkdir_rerun d e w c v prior ins :
  cm_tool c = TMkdir -> cmd_valid d w c v = Valid ->
  existsb is_unreachable (map (classify_input (c_allow_missing_inputs (cm_def c))) ins) = false ->
  existsb is_skip (map (classify_input (c_allow_missing_inputs (cm_def c))) ins) = false ->
  c_allow_modified_outputs (cm_def c) = false ->
  run_external F e w c prior ins = Some (w, command_result e w (cm_outputs c), true) /\
  cmd_valid d w c (command_result e w (cm_outputs c)) = Valid.
Proof.
  intros T V U K AM. unfold cmd_valid in *. rewrite T in *. unfold mkdir_valid in *.
  destruct (negb (is_successful (bv_kind v))); [discriminate V|].
  destruct (cm_outputs c) as [|o outs] eqn:Eo; [discriminate V|].
  destruct (is_missing (stat_w w o)) eqn:M; [discriminate V|].
  destruct (negb (fi_is_dir (stat_w w o))) eqn:D; [discriminate V|].
  split.
  - rewrite run_external_executes by assumption. unfold exec_tool. rewrite T, Eo. cbn [hd].
    unfold stat_w in M, D. destruct (w_fs w o) as [[cc s]|].
    + apply negb_false_iff in D. rewrite D. reflexivity.
    + rewrite missing_info_is_missing in M. discriminate M.
  - rewrite command_result_kind. reflexivity.
Qed.

(* ---------- symlink: the link is always created anew: same target, new stamp ---------- *)

Theorem symlink_rerun d w c :
  cm_tool c = TSymlink -> wf_world w ->
  forall o, hd_error (cm_outputs c) = Some o -> o <> [] ->
  exists w' v',
    run_symlink w c = (w', v', true) /\ wf_world w' /\
    content_w w' o = Some (cm_contents c) /\
    (forall p, p <> o -> w_fs w' p = w_fs w p) /\
    info_eqb (stat_w w o) (stat_w w' o) = false /\
    cmd_valid d w' c v' = Valid /\
    (content_w w o = Some (cm_contents c) -> same_content w w').
Proof.
  intros T W o Ho Ne. destruct (cm_outputs c) as [|x outs] eqn:Eo; [discriminate Ho|]. cbn in Ho. inversion Ho. subst x.
  assert (Hn : is_nil o = false) by (destruct o; [congruence | reflexivity]).
  exists (write_fresh w o mode_link (cm_contents c)). eexists.
  split; [unfold run_symlink; rewrite Eo, Hn; reflexivity|].
  split; [apply wf_write_fresh; exact W|].
  split; [unfold write_fresh; apply content_put_same|].
  split; [intros p Hp; unfold write_fresh; apply put_fs_other; exact Hp|].
  split; [unfold write_fresh; rewrite stat_put_same; apply observable_differs; [exact W | apply fresh_observable]|].
  split.
  - unfold cmd_valid. rewrite T. unfold symlink_valid. rewrite Eo, Hn. cbn [v_success bv_kind is_successful negb bv_infos length Nat.eqb].
    unfold write_fresh. rewrite stat_put_same, fresh_not_missing. unfold first_info. cbn [bv_infos hd].
    rewrite info_eqb_refl. reflexivity.
  - intros Hc p. destruct (bytes_eqb p o) eqn:E.
    + apply bytes_eqb_eq in E. subst p. unfold write_fresh. rewrite content_put_same. symmetry. exact Hc.
    + apply bytes_eqb_neq in E. unfold write_fresh. apply content_put_other. exact E.
Qed.

End RunFacts.

(* ---------- produced nodes and targets ---------- *)

(* the value of a produced node is a function of the producer's VALUE alone (no file system access), and
   equivalent producer values give equivalent node values *)
Lemma infos_equiv_length a : forall b, infos_equiv a b = true -> length a = length b.
Proof.
  induction a as [|x a IH]; intros [|y b] H; try reflexivity; try discriminate H.
  cbn [infos_equiv] in H. apply andb_true_iff in H. cbn [length]. f_equal. apply IH. tauto.
Qed.

Lemma infos_equiv_nth a : forall b i x, infos_equiv a b = true -> nth_error a i = Some x ->
  exists y, nth_error b i = Some y /\ info_eqb x y = true.
Proof.
  induction a as [|x0 a IH]; intros [|y0 b] i x H Hn; try (destruct i; discriminate Hn); try discriminate H.
  cbn [infos_equiv] in H. apply andb_true_iff in H. destruct H as [H1 H2]. destruct i as [|i].
  - cbn in Hn. inversion Hn. subst x0. exists y0. split; [reflexivity | exact H1].
  - cbn [nth_error] in Hn |- *. apply (IH b i x H2 Hn).
Qed.

Lemma nth_info_equiv v1 v2 i x : infos_equiv (bv_infos v1) (bv_infos v2) = true -> nth_info v1 i = Some x ->
  exists y, nth_info v2 i = Some y /\ info_eqb x y = true.
Proof.
  unfold nth_info. intros H Hn. pose proof (infos_equiv_length _ _ H) as L.
  destruct (bv_infos v1) as [|a [|a2 l1]] eqn:E1; destruct (bv_infos v2) as [|b [|b2 l2]] eqn:E2; try discriminate L.
  - destruct i; discriminate Hn.
  - inversion Hn. subst a. cbn [infos_equiv] in H. apply andb_true_iff in H. exists b. tauto.
  - apply (infos_equiv_nth _ _ i x H Hn).
Qed.

Definition opt_equiv (a b : option bvalue) : Prop :=
  match a, b with
  | Some x, Some y => value_equiv x y = true
  | None, None => True
  | _, _ => False
  end.

Theorem produced_value_congruent c n v1 v2 :
  value_equiv v1 v2 = true -> opt_equiv (result_for_output c n v1) (result_for_output c n v2).
Proof.
  intros H. unfold value_equiv in H. apply andb_true_iff in H. destruct H as [Hk Hi].
  apply N.eqb_eq in Hk. apply vtag_inj in Hk.
  assert (Hext : opt_equiv (ext_result_for_output c n v1) (ext_result_for_output c n v2)).
  { unfold ext_result_for_output, kind_is. rewrite <- Hk.
    destruct (is_failure_kind (bv_kind v1)); [apply value_equiv_refl|].
    destruct (N.eqb (vtag (bv_kind v1)) (vtag VSkippedCommand)); [apply value_equiv_refl|].
    destruct (negb (is_successful (bv_kind v1))); [exact I|].
    destruct (node_virtual n); [apply value_equiv_refl|].
    destruct (index_of n (cm_outputs c)) as [i|]; [|exact I].
    destruct (nth_info v1 i) as [x|] eqn:E1.
    - destruct (nth_info_equiv v1 v2 i x Hi E1) as [y [E2 Exy]]. rewrite E2. cbn [opt_equiv].
      rewrite <- (info_eqb_missing _ _ Exy). destruct (is_missing x); [apply value_equiv_refl|].
      unfold value_equiv, v_existing. cbn. rewrite Exy. reflexivity.
    - destruct (nth_info v2 i) as [y|] eqn:E2; [|exact I].
      assert (Hi' : infos_equiv (bv_infos v2) (bv_infos v1) = true).
      { clear - Hi. revert Hi. generalize (bv_infos v1) (bv_infos v2). intros a. induction a as [|x a IH]; intros [|y b] H;
          try reflexivity; try discriminate H. cbn [infos_equiv] in *. apply andb_true_iff in H. destruct H as [H1 H2].
        rewrite (info_eqb_sym_true _ _ H1), (IH b H2). reflexivity. }
      destruct (nth_info_equiv v2 v1 i y Hi' E2) as [x [E1' _]]. congruence. }
  unfold result_for_output. destruct (cm_tool c).
  - exact Hext.
  - destruct (node_virtual n); [apply value_equiv_refl | exact Hext].
  - exact Hext.
  - unfold symlink_result_for_output, kind_is. rewrite <- Hk.
    destruct (is_failure_kind (bv_kind v1)); [apply value_equiv_refl|].
    destruct (N.eqb (vtag (bv_kind v1)) (vtag VSkippedCommand)); [apply value_equiv_refl|].
    destruct (negb (is_successful (bv_kind v1))); [exact I|].
    destruct (bv_infos v1) as [|x l1]; destruct (bv_infos v2) as [|y l2]; try discriminate Hi; [exact I|].
    cbn [infos_equiv] in Hi. apply andb_true_iff in Hi. destruct Hi as [Exy _]. cbn [opt_equiv].
    rewrite <- (info_eqb_missing _ _ Exy). destruct (is_missing x); [apply value_equiv_refl|].
    unfold value_equiv, v_existing. cbn. rewrite Exy. reflexivity.
Qed.

(* validity of a produced node's value does not look at the world *)
Theorem produced_valid_world_independent d w1 w2 n v ps :
  lookup_rule d (KN n) = RProduced n ps -> rule_valid d w1 (KN n) v = rule_valid d w2 (KN n) v.
Proof. intros H. unfold rule_valid. rewrite H. reflexivity. Qed.

(* target rules are never valid: the target task runs in every build (it writes nothing) *)
Theorem target_never_valid d w t v : rule_valid d w (KT t) v = Invalid.
Proof. unfold rule_valid, lookup_rule. destruct (find_target (d_targets d) t); reflexivity. Qed.

Theorem missing_command_never_valid d w name v :
  find_cmd (d_cmds d) name = None -> rule_valid d w (KC name) v = Invalid.
Proof. intros H. unfold rule_valid, lookup_rule. rewrite H. reflexivity. Qed.

(* the file-input task: valid means re-running observes the same thing (world untouched: the task only stats) *)
Theorem file_input_rerun w0 w n :
  wf_world w0 -> wf_world w ->
  file_valid w n (run_file_input w0 n) = true -> value_equiv (run_file_input w n) (run_file_input w0 n) = true.
Proof.
  intros W0 W V. unfold file_valid, run_file_input in *.
  destruct (is_missing (stat_w w n)) eqn:M; destruct (is_missing (stat_w w0 n)) eqn:M0.
  - reflexivity.
  - discriminate V.
  - discriminate V.
  - unfold first_info, v_existing, kind_is in V. cbn in V. unfold value_equiv, v_existing. cbn.
    rewrite (info_eqb_sym_true _ _ V). reflexivity.
Qed.
