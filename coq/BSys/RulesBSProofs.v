(* Proofs about the build-system layer (property C08): the rule-level facts the engine theorem needs.
   Only BSys/Sig.v's DEFINITIONS are used from the signature area; its injectivity theorems appear as premises. *)
From LLB Require Import Base.Bytes Base.BytesFacts Codec.Codec Codec.FileObs Codec.FileObsProofs BSys.Sig BSys.RulesBS.
Local Open Scope N_scope.

(* ================================================================================================ *)
(* basic facts                                                                                      *)
(* ================================================================================================ *)

Lemma key_eqb_eq a b : key_eqb a b = true <-> a = b.
Proof.
  destruct a as [x|x|x], b as [y|y|y]; cbn [key_eqb]; try (split; [discriminate | intros H; discriminate]);
    rewrite bytes_eqb_eq; (split; [intros ->; reflexivity | intros H; inversion H; reflexivity]).
Qed.

Lemma key_eqb_refl a : key_eqb a a = true.
Proof. apply key_eqb_eq. reflexivity. Qed.

Lemma key_eqb_neq a b : key_eqb a b = false <-> a <> b.
Proof.
  destruct (key_eqb a b) eqn:E.
  - apply key_eqb_eq in E. split; [discriminate | intros H; contradiction].
  - split; [intros _ H; apply key_eqb_eq in H; congruence | reflexivity].
Qed.

Lemma vtag_inj a b : vtag a = vtag b -> a = b.
Proof. destruct a, b; cbn [vtag]; intros H; try reflexivity; discriminate H. Qed.

Lemma kind_is_eq v k : kind_is v k = true <-> bv_kind v = k.
Proof.
  unfold kind_is. rewrite N.eqb_eq. split; [apply vtag_inj | intros ->; reflexivity].
Qed.

Lemma kind_is_neq v k : kind_is v k = false <-> bv_kind v <> k.
Proof.
  destruct (kind_is v k) eqn:E.
  - apply kind_is_eq in E. split; [discriminate | intros H; contradiction].
  - split; [intros _ H; apply kind_is_eq in H; congruence | reflexivity].
Qed.

(* ---------- FileInfo equality is an equivalence ---------- *)

Lemma info_eqb_intro a b :
  fi_device a = fi_device b -> fi_inode a = fi_inode b -> fi_size a = fi_size b -> fi_sec a = fi_sec b ->
  fi_nsec a = fi_nsec b -> fi_checksum a = fi_checksum b -> is_missing a = is_missing b -> info_eqb a b = true.
Proof.
  intros H1 H2 H3 H4 H5 H6 H7. unfold info_eqb. rewrite H1, H2, H3, H4, H5, H6, H7.
  rewrite !N.eqb_refl, bytes_eqb_refl. cbn. destruct (is_missing b); reflexivity.
Qed.

Lemma info_eqb_sym_true a b : info_eqb a b = true -> info_eqb b a = true.
Proof.
  intros H. apply info_eqb_true in H. destruct H as [H1 [H2 [H3 [H4 [H5 [H6 H7]]]]]].
  apply info_eqb_intro; congruence.
Qed.

Lemma info_eqb_sym a b : info_eqb a b = info_eqb b a.
Proof.
  destruct (info_eqb a b) eqn:E1, (info_eqb b a) eqn:E2; try reflexivity.
  - apply info_eqb_sym_true in E1. congruence.
  - apply info_eqb_sym_true in E2. congruence.
Qed.

Lemma info_eqb_trans a b c : info_eqb a b = true -> info_eqb b c = true -> info_eqb a c = true.
Proof.
  intros H K. apply info_eqb_true in H. apply info_eqb_true in K.
  destruct H as [H1 [H2 [H3 [H4 [H5 [H6 H7]]]]]]. destruct K as [K1 [K2 [K3 [K4 [K5 [K6 K7]]]]]].
  apply info_eqb_intro; congruence.
Qed.

Lemma info_eqb_missing a b : info_eqb a b = true -> is_missing a = is_missing b.
Proof. intros H. apply info_eqb_true in H. tauto. Qed.

Lemma info_eqb_sec a b : info_eqb a b = true -> fi_sec a = fi_sec b.
Proof. intros H. apply info_eqb_true in H. tauto. Qed.

Lemma missing_info_is_missing : is_missing missing_info = true.
Proof. reflexivity. Qed.

Lemma infos_equiv_refl l : infos_equiv l l = true.
Proof. induction l as [|x l IH]; cbn [infos_equiv]; [reflexivity|]. rewrite info_eqb_refl, IH. reflexivity. Qed.

Lemma value_equiv_refl v : value_equiv v v = true.
Proof. unfold value_equiv. rewrite N.eqb_refl, infos_equiv_refl. reflexivity. Qed.

(* ---------- the world ---------- *)

Lemma fresh_not_missing w m s : is_missing (fresh w m s) = false.
Proof. reflexivity. Qed.

Lemma fresh_sec w m s : fi_sec (fresh w m s) = w_clock w.
Proof. reflexivity. Qed.

Lemma put_fs_same w p c s : w_fs (put w p c s) p = Some (c, s).
Proof. unfold put. cbn [w_fs]. rewrite bytes_eqb_refl. reflexivity. Qed.

Lemma put_fs_other w p c s q : q <> p -> w_fs (put w p c s) q = w_fs w q.
Proof. intros H. unfold put. cbn [w_fs]. apply bytes_eqb_neq in H. rewrite H. reflexivity. Qed.

Lemma put_clock w p c s : w_clock (put w p c s) = N.max (w_clock w) (fi_sec s) + 1.
Proof. reflexivity. Qed.

Lemma stat_put_same w p c s : stat_w (put w p c s) p = s.
Proof. unfold stat_w. rewrite put_fs_same. reflexivity. Qed.

Lemma stat_put_other w p c s q : q <> p -> stat_w (put w p c s) q = stat_w w q.
Proof. intros H. unfold stat_w. rewrite put_fs_other by assumption. reflexivity. Qed.

Lemma content_put_same w p c s : content_w (put w p c s) p = Some c.
Proof. unfold content_w. rewrite put_fs_same. reflexivity. Qed.

Lemma content_put_other w p c s q : q <> p -> content_w (put w p c s) q = content_w w q.
Proof. intros H. unfold content_w. rewrite put_fs_other by assumption. reflexivity. Qed.

Lemma del_fs_same w p : w_fs (del w p) p = None.
Proof. unfold del. cbn [w_fs]. rewrite bytes_eqb_refl. reflexivity. Qed.

Lemma del_fs_other w p q : q <> p -> w_fs (del w p) q = w_fs w q.
Proof. intros H. unfold del. cbn [w_fs]. apply bytes_eqb_neq in H. rewrite H. reflexivity. Qed.

Lemma wf_put w p c s : wf_world w -> is_missing s = false -> wf_world (put w p c s).
Proof.
  intros W M q c' s' H. rewrite put_clock.
  destruct (bytes_eqb q p) eqn:E.
  - apply bytes_eqb_eq in E. subst q. rewrite put_fs_same in H. inversion H. subst c' s'. split; [exact M | lia].
  - apply bytes_eqb_neq in E. rewrite put_fs_other in H by assumption. destruct (W q c' s' H) as [A B]. split; [exact A | lia].
Qed.

Lemma wf_write_fresh w p m c : wf_world w -> wf_world (write_fresh w p m c).
Proof. intros W. unfold write_fresh. apply wf_put; [exact W | apply fresh_not_missing]. Qed.

Lemma wf_del w p : wf_world w -> wf_world (del w p).
Proof.
  intros W q c s H. unfold del in *. cbn [w_fs w_clock] in *.
  destruct (bytes_eqb q p); [discriminate | exact (W q c s H)].
Qed.

Lemma wf_empty_world : wf_world empty_world.
Proof. intros p c s H. discriminate H. Qed.

Lemma write_fresh_clock w p m c : w_clock (write_fresh w p m c) = w_clock w + 1.
Proof. unfold write_fresh. rewrite put_clock, fresh_sec. lia. Qed.

Lemma stat_missing_iff w p : wf_world w -> (is_missing (stat_w w p) = true <-> w_fs w p = None).
Proof.
  intros W. unfold stat_w. destruct (w_fs w p) as [[c s]|] eqn:E.
  - destruct (W p c s E) as [A _]. rewrite A. split; discriminate.
  - split; reflexivity.
Qed.

Lemma stat_sec_lt w p : wf_world w -> is_missing (stat_w w p) = false -> fi_sec (stat_w w p) < w_clock w.
Proof.
  intros W. unfold stat_w. destruct (w_fs w p) as [[c s]|] eqn:E.
  - intros _. exact (proj2 (W p c s E)).
  - rewrite missing_info_is_missing. discriminate.
Qed.

(* a stamp at or above the clock differs from the stamp of every path: "strictly newer than all existing" *)
Lemma observable_differs w p s : wf_world w -> observable w s -> info_eqb (stat_w w p) s = false.
Proof.
  intros W [M C]. destruct (info_eqb (stat_w w p) s) eqn:E; [exfalso|reflexivity].
  pose proof (info_eqb_missing _ _ E) as Hm. rewrite M in Hm.
  pose proof (stat_sec_lt w p W Hm) as Hl. apply info_eqb_sec in E. lia.
Qed.

Lemma fresh_observable w m s : observable w (fresh w m s).
Proof. split; [apply fresh_not_missing | rewrite fresh_sec; lia]. Qed.

(* ================================================================================================ *)
(* c08_source_edit_detected                                                                         *)
(* ================================================================================================ *)

(* the general form: any change of the fields FileInfo::operator== compares (including appearance and
   disappearance) invalidates the stored value of the input node *)
Theorem file_valid_detects w w' n v :
  wf_world w -> wf_world w' -> file_valid w n v = true ->
  info_eqb (stat_w w n) (stat_w w' n) = false -> file_valid w' n v = false.
Proof.
  intros W W' V D. unfold file_valid in *.
  destruct (is_missing (stat_w w n)) eqn:M; destruct (is_missing (stat_w w' n)) eqn:M'.
  - exfalso. apply (stat_missing_iff w n W) in M. apply (stat_missing_iff w' n W') in M'.
    unfold stat_w in D. rewrite M, M' in D. rewrite info_eqb_refl in D. discriminate.
  - apply kind_is_eq in V. apply andb_false_iff. left. apply kind_is_neq. rewrite V. discriminate.
  - apply andb_true_iff in V. destruct V as [V _]. apply kind_is_eq in V. apply kind_is_neq. rewrite V. discriminate.
  - apply andb_true_iff in V. destruct V as [Vk Vi]. apply andb_false_iff. right.
    destruct (info_eqb (first_info v) (stat_w w' n)) eqn:E; [exfalso|reflexivity].
    apply info_eqb_sym_true in Vi. rewrite (info_eqb_trans _ _ _ Vi E) in D. discriminate.
Qed.

(* an observable edit: new content with a stamp not older than the clock *)
Theorem source_edit_detected w n v c s :
  wf_world w -> observable w s -> file_valid w n v = true -> file_valid (put w n c s) n v = false.
Proof.
  intros W O V. apply (file_valid_detects w (put w n c s) n v W); [apply wf_put; [exact W | exact (proj1 O)] | exact V |].
  rewrite stat_put_same. apply observable_differs; assumption.
Qed.

(* deleting a source that existed *)
Theorem source_delete_detected w n v :
  wf_world w -> is_missing (stat_w w n) = false -> file_valid w n v = true -> file_valid (del w n) n v = false.
Proof.
  intros W M V. apply (file_valid_detects w (del w n) n v W (wf_del w n W) V).
  destruct (info_eqb (stat_w w n) (stat_w (del w n) n)) eqn:E; [exfalso|reflexivity].
  apply info_eqb_missing in E. unfold stat_w at 2 in E. rewrite del_fs_same, missing_info_is_missing in E. congruence.
Qed.

(* an untouched source stays valid, whatever happens to other paths *)
Theorem file_valid_frame w w' n v : w_fs w' n = w_fs w n -> file_valid w' n v = file_valid w n v.
Proof. intros H. unfold file_valid, stat_w. rewrite H. reflexivity. Qed.

(* what the task records is valid in the world it observed *)
Lemma file_valid_run w n : file_valid w n (run_file_input w n) = true.
Proof.
  unfold file_valid, run_file_input. destruct (is_missing (stat_w w n)) eqn:M; [reflexivity|].
  unfold first_info, v_existing, kind_is. cbn. apply info_eqb_refl.
Qed.

(* ================================================================================================ *)
(* c08_tamper_detected                                                                              *)
(* ================================================================================================ *)

Lemma onodes_cons d w x outs :
  onodes d w (x :: outs) =
  mkOnode (node_virtual x) (is_mutated d x) (if node_virtual x then missing_info else stat_w w x) :: onodes d w outs.
Proof. reflexivity. Qed.

Lemma outputs_valid_cons o outs stored :
  outputs_valid (o :: outs) stored =
  if on_virtual o then outputs_valid outs (tl stored)
  else match stored with
       | [] => OverRead
       | s :: stored' => if output_matches o s then outputs_valid outs stored' else Invalid
       end.
Proof. reflexivity. Qed.

(* the change of one output that the code notices: the compared fields differ, and for a node declared
   is-mutated (only existence is compared) the existence changed *)
Definition tampered (d : desc) (w w' : world) (o : path) : Prop :=
  info_eqb (stat_w w o) (stat_w w' o) = false /\
  (is_mutated d o = true -> is_missing (stat_w w o) <> is_missing (stat_w w' o)).

Lemma tampered_no_match d w w' o s :
  tampered d w w' o ->
  output_matches (mkOnode false (is_mutated d o) (stat_w w o)) s = true ->
  output_matches (mkOnode false (is_mutated d o) (stat_w w' o)) s = false.
Proof.
  intros [T1 T2]. unfold output_matches. cbn [on_mutated on_current].
  destruct (is_mutated d o) eqn:Mu.
  - intros H. apply Bool.eqb_prop in H. specialize (T2 eq_refl).
    destruct (Bool.eqb (is_missing s) (is_missing (stat_w w' o))) eqn:E; [|reflexivity].
    apply Bool.eqb_prop in E. congruence.
  - intros H. destruct (info_eqb s (stat_w w' o)) eqn:E; [|reflexivity].
    apply info_eqb_sym_true in H. rewrite (info_eqb_trans _ _ _ H E) in T1. discriminate.
Qed.

Lemma outputs_valid_tamper d w w' o outs : forall stored,
  outputs_valid (onodes d w outs) stored = Valid ->
  In o outs -> node_virtual o = false -> tampered d w w' o ->
  outputs_valid (onodes d w' outs) stored = Invalid.
Proof.
  induction outs as [|x outs IH]; intros stored V I NV T; [destruct I|].
  rewrite onodes_cons, outputs_valid_cons in V |- *. cbn [on_virtual] in V |- *.
  destruct (node_virtual x) eqn:Vx.
  - destruct I as [I|I]; [subst x; congruence|]. apply IH; assumption.
  - destruct stored as [|s stored]; [discriminate V|].
    destruct (output_matches (mkOnode false (is_mutated d x) (stat_w w x)) s) eqn:Mx; [|discriminate V].
    destruct (output_matches (mkOnode false (is_mutated d x) (stat_w w' x)) s) eqn:Mx'; [|reflexivity].
    destruct (bytes_eqb x o) eqn:Exo.
    + apply bytes_eqb_eq in Exo. subst x. rewrite (tampered_no_match d w w' o s T Mx) in Mx'. discriminate.
    + apply bytes_eqb_neq in Exo. destruct I as [I|I]; [contradiction|]. apply IH; assumption.
Qed.

(* deleting or overwriting (with a different stamp) any non-virtual output of a command whose stored value is
   valid makes the stored value invalid.  Shell and phony commands compare every output; mkdir only asks for a
   directory at its first output (by design, see the FIXME in the code); symlink compares the link's own stamp *)
Theorem tamper_detected d w w' c v o :
  cmd_valid d w c v = Valid -> In o (cm_outputs c) -> node_virtual o = false ->
  match cm_tool c with
  | TShell | TPhony => tampered d w w' o
  | TMkdir => o = hd [] (cm_outputs c) /\ (is_missing (stat_w w' o) = true \/ fi_is_dir (stat_w w' o) = false)
  | TSymlink => o = hd [] (cm_outputs c) /\ info_eqb (stat_w w o) (stat_w w' o) = false
  end ->
  cmd_valid d w' c v = Invalid.
Proof.
  intros V I NV T. unfold cmd_valid in *.
  assert (Hext : tampered d w w' o ->
                 is_result_valid (c_always_out_of_date (cm_def c)) v (onodes d w (cm_outputs c)) = Valid ->
                 is_result_valid (c_always_out_of_date (cm_def c)) v (onodes d w' (cm_outputs c)) = Invalid).
  { intros T' V'. unfold is_result_valid in *.
    destruct (c_always_out_of_date (cm_def c)); [discriminate V'|].
    destruct (negb (is_successful (bv_kind v))); [discriminate V'|].
    apply (outputs_valid_tamper d w w' o); assumption. }
  destruct (cm_tool c).
  - apply Hext; assumption.
  - apply Hext; assumption.
  - destruct T as [Ho T]. unfold mkdir_valid in *.
    destruct (negb (is_successful (bv_kind v))); [reflexivity|].
    destruct (cm_outputs c) as [|x outs]; [destruct I|]. cbn [hd] in Ho. subst x.
    destruct T as [T|T]; rewrite T; [reflexivity|]. destruct (is_missing (stat_w w' o)); reflexivity.
  - destruct T as [Ho T]. unfold symlink_valid in *.
    destruct (cm_outputs c) as [|x outs]; [destruct I|]. cbn [hd] in Ho. subst x.
    destruct (is_nil o); [reflexivity|].
    destruct (negb (is_successful (bv_kind v))); [reflexivity|].
    destruct (negb (Nat.eqb (length (bv_infos v)) 1)); [reflexivity|].
    destruct (is_missing (stat_w w o)); [discriminate V|].
    destruct (is_missing (stat_w w' o)); [reflexivity|].
    destruct (info_eqb (stat_w w o) (first_info v)) eqn:E; [|discriminate V].
    destruct (info_eqb (stat_w w' o) (first_info v)) eqn:E'; [exfalso|reflexivity].
    apply info_eqb_sym_true in E'. rewrite (info_eqb_trans _ _ _ E E') in T. discriminate.
Qed.

(* the two tamperings of the property text, for a non-mutated output of a shell or phony command *)
Corollary tamper_overwrite d w o content s :
  wf_world w -> observable w s -> is_mutated d o = false ->
  tampered d w (put w o content s) o.
Proof.
  intros W O Mu. split; [|congruence]. rewrite stat_put_same. apply observable_differs; assumption.
Qed.

Corollary tamper_delete d w o :
  is_missing (stat_w w o) = false -> tampered d w (del w o) o.
Proof.
  intros M. assert (Hd : stat_w (del w o) o = missing_info) by (unfold stat_w; rewrite del_fs_same; reflexivity).
  unfold tampered. rewrite Hd. split.
  - destruct (info_eqb (stat_w w o) missing_info) eqn:E; [|reflexivity].
    apply info_eqb_missing in E. rewrite missing_info_is_missing in E. congruence.
  - intros _. rewrite missing_info_is_missing. congruence.
Qed.

(* by design: overwriting an output declared is-mutated is NOT noticed (only its existence is compared) *)
Lemma mutated_overwrite_unnoticed d w o s stored :
  is_mutated d o = true -> is_missing s = false -> is_missing (stat_w w o) = false ->
  output_matches (mkOnode false (is_mutated d o) (stat_w w o)) stored = true ->
  output_matches (mkOnode false (is_mutated d o) s) stored = true.
Proof.
  intros Mu Ms Mw. unfold output_matches. cbn [on_mutated on_current]. rewrite Mu, Ms, Mw. tauto.
Qed.

(* ================================================================================================ *)
(* running a command: effect on the world                                                           *)
(* ================================================================================================ *)

Lemma outputs_valid_recorded d w outs : outputs_valid (onodes d w outs) (out_infos w outs) = Valid.
Proof.
  induction outs as [|x outs IH]; [reflexivity|].
  rewrite onodes_cons, outputs_valid_cons. cbn [on_virtual out_infos map].
  destruct (node_virtual x) eqn:Vx; [exact IH|].
  fold (out_infos w outs). unfold output_matches. cbn [on_mutated on_current].
  destruct (is_mutated d x).
  - rewrite Bool.eqb_reflx. exact IH.
  - rewrite info_eqb_refl. exact IH.
Qed.

(* a stored value that is valid for non-mutated outputs carries infos equivalent to the current ones *)
Lemma outputs_valid_equiv d w w0 outs :
  (forall o, In o outs -> is_mutated d o = false) ->
  outputs_valid (onodes d w outs) (out_infos w0 outs) = Valid ->
  infos_equiv (out_infos w outs) (out_infos w0 outs) = true.
Proof.
  induction outs as [|x outs IH]; intros Mu V; [reflexivity|].
  rewrite onodes_cons, outputs_valid_cons in V. cbn [on_virtual out_infos map] in V |- *.
  fold (out_infos w0 outs) in V |- *. fold (out_infos w outs).
  cbn [infos_equiv]. destruct (node_virtual x) eqn:Vx.
  - rewrite info_eqb_refl. cbn [tl andb] in V |- *. apply IH; [intros o I; apply Mu; right; exact I | exact V].
  - unfold output_matches in V. cbn [on_mutated on_current] in V. rewrite (Mu x (or_introl eq_refl)) in V.
    destruct (info_eqb (stat_w w0 x) (stat_w w x)) eqn:E; [|discriminate V].
    rewrite (info_eqb_sym_true _ _ E). cbn [andb]. apply IH; [intros o I; apply Mu; right; exact I | exact V].
Qed.

Lemma command_result_infos e w outs : outs <> [] -> bv_infos (command_result e w outs) = out_infos w outs.
Proof. destruct outs; [congruence | reflexivity]. Qed.

Lemma command_result_kind e w outs : bv_kind (command_result e w outs) = VSuccessfulCommand.
Proof. reflexivity. Qed.

Lemma index_of_nth n l : forall i, index_of n l = Some i -> nth_error l i = Some n.
Proof.
  induction l as [|x l IH]; intros i H; [discriminate H|]. cbn [index_of] in H.
  destruct (bytes_eqb x n) eqn:E.
  - apply bytes_eqb_eq in E. inversion H. subst. reflexivity.
  - destruct (index_of n l) as [k|]; [|discriminate H]. inversion H. cbn [nth_error]. apply IH. reflexivity.
Qed.

Lemma index_of_In n l : In n l -> exists i, index_of n l = Some i.
Proof.
  induction l as [|x l IH]; intros I; [destruct I|]. cbn [index_of].
  destruct (bytes_eqb x n) eqn:E; [exists O; reflexivity|].
  destruct I as [I|I]; [subst x; rewrite bytes_eqb_refl in E; discriminate|].
  destruct (IH I) as [i Hi]. rewrite Hi. exists (S i). reflexivity.
Qed.

Lemma nth_info_of_nth k sg l strs i y : nth_error l i = Some y -> nth_info (mkBV k sg l strs) i = Some y.
Proof.
  unfold nth_info. cbn [bv_infos]. destruct l as [|x [|x2 l]]; intros H; try exact H.
  destruct i as [|i]; [exact H|]. cbn in H. destruct i; discriminate H.
Qed.

Lemma out_infos_nth w outs i o : nth_error outs i = Some o -> node_virtual o = false ->
  nth_error (out_infos w outs) i = Some (stat_w w o).
Proof.
  intros H NV. unfold out_infos. rewrite nth_error_map, H. cbn. rewrite NV. reflexivity.
Qed.

(* what a dependent node reads from a value the command recorded itself *)
Lemma ext_result_recorded c e w o :
  In o (cm_outputs c) -> node_virtual o = false ->
  ext_result_for_output c o (command_result e w (cm_outputs c)) =
  Some (if is_missing (stat_w w o) then v_simple VMissingOutput else v_existing (stat_w w o)).
Proof.
  intros I NV. unfold ext_result_for_output. rewrite command_result_kind. cbn [is_failure_kind is_successful negb].
  unfold kind_is at 1. rewrite command_result_kind. cbn [vtag N.eqb Pos.eqb]. rewrite NV.
  destruct (index_of_In o _ I) as [i Hi]. rewrite Hi.
  pose proof (index_of_nth _ _ _ Hi) as Hn.
  assert (Hne : cm_outputs c <> []) by (intros E; rewrite E in I; destruct I).
  unfold command_result, v_success. destruct (cm_outputs c) as [|x l] eqn:Eo; [congruence|].
  rewrite <- Eo in *. rewrite (nth_info_of_nth _ _ _ _ i (stat_w w o)); [reflexivity|].
  apply out_infos_nth; assumption.
Qed.

Lemma existing_values_differ a b : info_eqb a b = false -> value_equiv (v_existing a) (v_existing b) = false.
Proof. intros H. unfold value_equiv, v_existing. cbn. rewrite H. reflexivity. Qed.

Section RunFacts.
Variable F : command -> nat -> list (option bytes) -> bytes.

Lemma write_outputs_wf c ins outs : forall j w, wf_world w -> wf_world (write_outputs F c ins outs j w).
Proof.
  induction outs as [|x outs IH]; intros j w W; cbn [write_outputs]; [exact W|].
  apply IH. destruct (node_virtual x); [exact W | apply wf_write_fresh; exact W].
Qed.

Lemma write_outputs_clock c ins outs : forall j w, w_clock w <= w_clock (write_outputs F c ins outs j w).
Proof.
  induction outs as [|x outs IH]; intros j w; cbn [write_outputs]; [lia|].
  destruct (node_virtual x).
  - apply IH.
  - pose proof (IH (S j) (write_fresh w x mode_file (F c j ins))) as H. rewrite write_fresh_clock in H. lia.
Qed.

Lemma write_outputs_other c ins outs p : forall j w,
  (forall o, In o outs -> node_virtual o = false -> o <> p) ->
  w_fs (write_outputs F c ins outs j w) p = w_fs w p.
Proof.
  induction outs as [|x outs IH]; intros j w H; cbn [write_outputs]; [reflexivity|].
  rewrite IH by (intros o I; apply H; right; exact I).
  destruct (node_virtual x) eqn:Vx; [reflexivity|].
  unfold write_fresh. apply put_fs_other. intros E. apply (H x (or_introl eq_refl) Vx). congruence.
Qed.

(* every non-virtual output carries a stamp handed out during this run *)
Lemma write_outputs_stamp c ins outs o : forall j w, In o outs -> node_virtual o = false ->
  is_missing (stat_w (write_outputs F c ins outs j w) o) = false /\
  w_clock w <= fi_sec (stat_w (write_outputs F c ins outs j w) o).
Proof.
  induction outs as [|x outs IH]; intros j w I NV; [destruct I|]. cbn [write_outputs].
  destruct (mem_bytes o outs) eqn:Em.
  - apply mem_bytes_In in Em. destruct (IH (S j) (if node_virtual x then w else write_fresh w x mode_file (F c j ins)) Em NV) as [A B].
    split; [exact A|]. destruct (node_virtual x); [exact B | rewrite write_fresh_clock in B; lia].
  - assert (Hn : ~ In o outs) by (rewrite <- mem_bytes_In; congruence).
    destruct I as [I|I]; [subst x | contradiction]. rewrite NV.
    unfold stat_w. rewrite write_outputs_other by (intros o' I' _ E; subst o'; contradiction).
    unfold write_fresh. rewrite put_fs_same. split; [apply fresh_not_missing | rewrite fresh_sec; lia].
Qed.

Lemma write_outputs_same_content c ins outs : forall j w0 w,
  same_content w0 w ->
  (forall i o, nth_error outs i = Some o -> node_virtual o = false -> content_w w0 o = Some (F c (j + i)%nat ins)) ->
  same_content w0 (write_outputs F c ins outs j w).
Proof.
  induction outs as [|x outs IH]; intros j w0 w S H; cbn [write_outputs]; [exact S|].
  apply IH.
  - destruct (node_virtual x) eqn:Vx; [exact S|]. intros p. destruct (bytes_eqb p x) eqn:E.
    + apply bytes_eqb_eq in E. subst p. unfold write_fresh. rewrite content_put_same.
      rewrite (H O x eq_refl Vx). rewrite Nat.add_0_r. reflexivity.
    + apply bytes_eqb_neq in E. unfold write_fresh. rewrite content_put_other by assumption. apply S.
  - intros i o Hn NV. rewrite (H (Datatypes.S i) o Hn NV). rewrite Nat.add_succ_r. reflexivity.
Qed.

Lemma write_outputs_content c ins outs : NoDup outs -> forall j w i o,
  nth_error outs i = Some o -> node_virtual o = false ->
  content_w (write_outputs F c ins outs j w) o = Some (F c (j + i)%nat ins).
Proof.
  induction 1 as [|x outs Nx ND IH]; intros j w i o Hn NV; [destruct i; discriminate Hn|].
  cbn [write_outputs]. destruct i as [|i].
  - cbn in Hn. inversion Hn. subst x. rewrite NV. unfold content_w.
    rewrite write_outputs_other by (intros o' I' _ E; subst o'; contradiction).
    unfold write_fresh. rewrite put_fs_same. rewrite Nat.add_0_r. reflexivity.
  - cbn [nth_error] in Hn. rewrite (IH (S j) _ i o Hn NV). rewrite Nat.add_succ_r. reflexivity.
Qed.

Lemma input_contents_same w w' ins : same_content w w' -> input_contents w' ins = input_contents w ins.
Proof. intros S. unfold input_contents. apply map_ext. intros p. apply S. Qed.

Lemma run_external_executes e w c prior ins :
  existsb is_unreachable (map (classify_input (c_allow_missing_inputs (cm_def c))) ins) = false ->
  existsb is_skip (map (classify_input (c_allow_missing_inputs (cm_def c))) ins) = false ->
  c_allow_modified_outputs (cm_def c) = false ->
  run_external F e w c prior ins =
  match exec_tool F c w with
  | Some w' => Some (w', command_result e w' (cm_outputs c), true)
  | None => Some (w, v_simple VFailedCommand, true)
  end.
Proof.
  intros H1 H2 H3. unfold run_external. rewrite H1, H2. unfold can_update. rewrite H3. cbn [andb].
  rewrite andb_false_r. reflexivity.
Qed.

(* with allow-modified-outputs, a command that has a successful prior result and whose outputs all exist is not
   executed at all: its result is only re-recorded (by design; such commands are outside the property) *)
Lemma allow_modified_outputs_skips_execution e w c p ins :
  existsb is_unreachable (map (classify_input (c_allow_missing_inputs (cm_def c))) ins) = false ->
  existsb is_skip (map (classify_input (c_allow_missing_inputs (cm_def c))) ins) = false ->
  existsb is_missing_output (map (classify_input (c_allow_missing_inputs (cm_def c))) ins) = false ->
  is_successful (bv_kind p) = true -> can_update c (command_result e w (cm_outputs c)) = true ->
  run_external F e w c (Some p) ins = Some (w, command_result e w (cm_outputs c), false).
Proof.
  intros H1 H2 H3 H4 H5. unfold run_external. rewrite H1, H2, H3, H4, H5. reflexivity.
Qed.

Lemma recorded_valid d e w c :
  (cm_tool c = TShell \/ cm_tool c = TPhony) -> c_always_out_of_date (cm_def c) = false ->
  cmd_valid d w c (command_result e w (cm_outputs c)) = Valid.
Proof.
  intros T A. unfold cmd_valid.
  assert (H : is_result_valid (c_always_out_of_date (cm_def c)) (command_result e w (cm_outputs c))
                              (onodes d w (cm_outputs c)) = Valid).
  { unfold is_result_valid. rewrite A, command_result_kind. cbn [is_successful negb].
    destruct (cm_outputs c) as [|x l] eqn:Eo; [reflexivity|].
    rewrite command_result_infos by discriminate. apply outputs_valid_recorded. }
  destruct T as [T|T]; rewrite T; exact H.
Qed.

(* ---------- shell: re-running a command whose outputs already hold what it computes ---------- *)

Theorem shell_rerun d e w c prior ins :
  cm_tool c = TShell -> wf_world w ->
  existsb is_unreachable (map (classify_input (c_allow_missing_inputs (cm_def c))) ins) = false ->
  existsb is_skip (map (classify_input (c_allow_missing_inputs (cm_def c))) ins) = false ->
  c_allow_modified_outputs (cm_def c) = false -> c_always_out_of_date (cm_def c) = false ->
  shell_outputs_hold F w c ->
  exists w',
    run_external F e w c prior ins = Some (w', command_result e w' (cm_outputs c), true) /\
    same_content w w' /\ wf_world w' /\ shell_outputs_hold F w' c /\
    cmd_valid d w' c (command_result e w' (cm_outputs c)) = Valid /\
    (forall p, (forall o, In o (cm_outputs c) -> node_virtual o = false -> o <> p) -> w_fs w' p = w_fs w p) /\
    (forall o, In o (cm_outputs c) -> node_virtual o = false -> info_eqb (stat_w w o) (stat_w w' o) = false).
Proof.
  intros T W U K AM AO H.
  set (insc := input_contents w (cm_inputs c)).
  exists (write_outputs F c insc (cm_outputs c) 0 w).
  assert (SC : same_content w (write_outputs F c insc (cm_outputs c) 0 w)).
  { apply write_outputs_same_content; [intros p; reflexivity|]. intros i o Hn NV. exact (H i o Hn NV). }
  split; [|split; [exact SC|split; [apply write_outputs_wf; exact W|split; [|split; [|split]]]]].
  - rewrite run_external_executes by assumption. unfold exec_tool. rewrite T. reflexivity.
  - intros j o Hn NV. rewrite (input_contents_same _ _ _ SC). rewrite SC. exact (H j o Hn NV).
  - apply recorded_valid; [left; exact T | exact AO].
  - intros p Hp. apply write_outputs_other. exact Hp.
  - intros o I NV. apply observable_differs; [exact W|].
    destruct (write_outputs_stamp c insc (cm_outputs c) o 0 w I NV) as [A B]. split; assumption.
Qed.

(* consequently: the value stored before the re-run is no longer valid afterwards (the recorded stamps change) as
   soon as the command has a non-virtual, non-mutated output, and the node of each such output gets a value that
   is not equivalent to its previous one: dependents see a changed producer value and run again *)
Corollary shell_rerun_changes_value d w w' c v o :
  cm_tool c = TShell -> cmd_valid d w c v = Valid ->
  In o (cm_outputs c) -> node_virtual o = false -> is_mutated d o = false ->
  info_eqb (stat_w w o) (stat_w w' o) = false ->
  cmd_valid d w' c v = Invalid.
Proof.
  intros T V I NV Mu D. apply (tamper_detected d w w' c v o V I NV). rewrite T. split; [exact D | congruence].
Qed.

Corollary shell_rerun_dependents_see_change d e0 w0 e w w' c o :
  cm_tool c = TShell -> cmd_valid d w c (command_result e0 w0 (cm_outputs c)) = Valid ->
  (forall o', In o' (cm_outputs c) -> is_mutated d o' = false) ->
  In o (cm_outputs c) -> node_virtual o = false ->
  is_missing (stat_w w o) = false -> is_missing (stat_w w' o) = false ->
  info_eqb (stat_w w o) (stat_w w' o) = false ->
  exists a b, result_for_output c o (command_result e0 w0 (cm_outputs c)) = Some a /\
              result_for_output c o (command_result e w' (cm_outputs c)) = Some b /\
              value_equiv a b = false.
Proof.
  intros T V Mu I NV M M' D. unfold result_for_output. rewrite T.
  rewrite !ext_result_recorded by assumption. rewrite M'.
  assert (Ne : cm_outputs c <> []) by (intros E; rewrite E in I; destruct I).
  unfold cmd_valid in V. rewrite T in V. unfold is_result_valid in V.
  destruct (c_always_out_of_date (cm_def c)); [discriminate V|].
  rewrite command_result_kind in V. cbn [is_successful negb] in V.
  rewrite command_result_infos in V by assumption.
  pose proof (outputs_valid_equiv d w w0 _ Mu V) as Q.
  assert (E0 : info_eqb (stat_w w o) (stat_w w0 o) = true).
  { destruct (In_nth_error _ _ I) as [i Hi].
    clear - Q Hi NV. revert i Hi. induction (cm_outputs c) as [|x l IH]; intros i Hi; [destruct i; discriminate Hi|].
    cbn [out_infos map infos_equiv] in Q. apply andb_true_iff in Q. destruct Q as [Q1 Q2].
    destruct i as [|i].
    - cbn in Hi. inversion Hi. subst x. rewrite NV in Q1. exact Q1.
    - exact (IH Q2 i Hi). }
  assert (M0 : is_missing (stat_w w0 o) = false) by (rewrite <- (info_eqb_missing _ _ E0); exact M).
  rewrite M0. eexists. eexists. split; [reflexivity|split; [reflexivity|]].
  apply existing_values_differ.
  destruct (info_eqb (stat_w w0 o) (stat_w w' o)) eqn:E; [|reflexivity].
  rewrite (info_eqb_trans _ _ _ E0 E) in D. discriminate.
Qed.

(* a command all of whose outputs are virtual touches nothing and records the same value every time *)
Lemma all_virtual_same_result e1 w1 e2 w2 outs :
  outs <> [] -> forallb node_virtual outs = true -> command_result e1 w1 outs = command_result e2 w2 outs.
Proof.
  intros Ne Hv. unfold command_result. destruct outs as [|x l] eqn:Eo; [congruence|]. rewrite <- Eo in *. f_equal.
  clear Eo Ne. induction outs as [|y outs IH]; [reflexivity|]. cbn [forallb] in Hv. apply andb_true_iff in Hv.
  destruct Hv as [Hy Hr]. cbn [out_infos map]. rewrite Hy. f_equal. apply IH. exact Hr.
Qed.

Lemma all_virtual_no_write c ins outs : forall j w, forallb node_virtual outs = true -> write_outputs F c ins outs j w = w.
Proof.
  induction outs as [|x outs IH]; intros j w Hv; [reflexivity|]. cbn [forallb] in Hv. apply andb_true_iff in Hv.
  destruct Hv as [Hx Hr]. cbn [write_outputs]. rewrite Hx. apply IH. exact Hr.
Qed.

(* ---------- phony: nothing is written; the value is re-recorded ---------- *)

Theorem phony_rerun d e0 w0 e w c prior ins :
  cm_tool c = TPhony -> cm_outputs c <> [] ->
  existsb is_unreachable (map (classify_input (c_allow_missing_inputs (cm_def c))) ins) = false ->
  existsb is_skip (map (classify_input (c_allow_missing_inputs (cm_def c))) ins) = false ->
  c_allow_modified_outputs (cm_def c) = false ->
  (forall o, In o (cm_outputs c) -> is_mutated d o = false) ->
  cmd_valid d w c (command_result e0 w0 (cm_outputs c)) = Valid ->
  run_external F e w c prior ins = Some (w, command_result e w (cm_outputs c), true) /\
  value_equiv (command_result e w (cm_outputs c)) (command_result e0 w0 (cm_outputs c)) = true.
Proof.
  intros T Ne U K AM Mu V. split.
  - rewrite run_external_executes by assumption. unfold exec_tool. rewrite T. reflexivity.
  - unfold value_equiv. rewrite !command_result_kind, N.eqb_refl, !command_result_infos by assumption. cbn [andb].
    unfold cmd_valid in V. rewrite T in V. unfold is_result_valid in V.
    destruct (c_always_out_of_date (cm_def c)); [discriminate V|].
    rewrite command_result_kind in V. cbn [is_successful negb] in V.
    rewrite command_result_infos in V by assumption. apply (outputs_valid_equiv d); assumption.
Qed.

(* ---------- mkdir: a valid result means the directory is there; running again changes nothing ---------- *)

Theorem mkdir_rerun d e w c v prior ins :
  cm_tool c = TMkdir -> cmd_valid d w c v = Valid ->
  existsb is_unreachable (map (classify_input (c_allow_missing_inputs (cm_def c))) ins) = false ->
  existsb is_skip (map (classify_input (c_allow_missing_inputs (cm_def c))) ins) = false ->
  c_allow_modified_outputs (cm_def c) = false ->
  run_external F e w c prior ins = Some (w, command_result e w (cm_outputs c), true) /\
  cmd_valid d w c (command_result e w (cm_outputs c)) = Valid.
Proof.
  intros T V U K AM. unfold cmd_valid in *. rewrite T in *. unfold mkdir_valid in *.
  destruct (negb (is_successful (bv_kind v))); [discriminate V|].
  destruct (cm_outputs c) as [|o outs] eqn:Eo; [discriminate V|].
  destruct (is_missing (stat_w w o)) eqn:M; [discriminate V|].
  destruct (negb (fi_is_dir (stat_w w o))) eqn:D; [discriminate V|].
  split.
  - rewrite run_external_executes by assumption. unfold exec_tool. rewrite T, Eo. cbn [hd].
    unfold stat_w in M, D. destruct (w_fs w o) as [[cc s]|].
    + apply negb_false_iff in D. rewrite D. reflexivity.
    + rewrite missing_info_is_missing in M. discriminate M.
  - rewrite command_result_kind. reflexivity.
Qed.

(* ---------- symlink: the link is always created anew: same target, new stamp ---------- *)

Theorem symlink_rerun d w c :
  cm_tool c = TSymlink -> wf_world w ->
  forall o, hd_error (cm_outputs c) = Some o -> o <> [] ->
  exists w' v',
    run_symlink w c = (w', v', true) /\ wf_world w' /\
    content_w w' o = Some (cm_contents c) /\
    (forall p, p <> o -> w_fs w' p = w_fs w p) /\
    info_eqb (stat_w w o) (stat_w w' o) = false /\
    cmd_valid d w' c v' = Valid /\
    (content_w w o = Some (cm_contents c) -> same_content w w').
Proof.
  intros T W o Ho Ne. destruct (cm_outputs c) as [|x outs] eqn:Eo; [discriminate Ho|]. cbn in Ho. inversion Ho. subst x.
  assert (Hn : is_nil o = false) by (destruct o; [congruence | reflexivity]).
  exists (write_fresh w o mode_link (cm_contents c)). eexists.
  split; [unfold run_symlink; rewrite Eo, Hn; reflexivity|].
  split; [apply wf_write_fresh; exact W|].
  split; [unfold write_fresh; apply content_put_same|].
  split; [intros p Hp; unfold write_fresh; apply put_fs_other; exact Hp|].
  split; [unfold write_fresh; rewrite stat_put_same; apply observable_differs; [exact W | apply fresh_observable]|].
  split.
  - unfold cmd_valid. rewrite T. unfold symlink_valid. rewrite Eo, Hn. cbn [v_success bv_kind is_successful negb bv_infos length Nat.eqb].
    unfold write_fresh. rewrite stat_put_same, fresh_not_missing. unfold first_info. cbn [bv_infos hd].
    rewrite info_eqb_refl. reflexivity.
  - intros Hc p. destruct (bytes_eqb p o) eqn:E.
    + apply bytes_eqb_eq in E. subst p. unfold write_fresh. rewrite content_put_same. symmetry. exact Hc.
    + apply bytes_eqb_neq in E. unfold write_fresh. apply content_put_other. exact E.
Qed.

End RunFacts.

(* ---------- produced nodes and targets ---------- *)

(* the value of a produced node is a function of the producer's VALUE alone (no file system access), and
   equivalent producer values give equivalent node values *)
Lemma infos_equiv_length a : forall b, infos_equiv a b = true -> length a = length b.
Proof.
  induction a as [|x a IH]; intros [|y b] H; try reflexivity; try discriminate H.
  cbn [infos_equiv] in H. apply andb_true_iff in H. cbn [length]. f_equal. apply IH. tauto.
Qed.

Lemma infos_equiv_nth a : forall b i x, infos_equiv a b = true -> nth_error a i = Some x ->
  exists y, nth_error b i = Some y /\ info_eqb x y = true.
Proof.
  induction a as [|x0 a IH]; intros [|y0 b] i x H Hn; try (destruct i; discriminate Hn); try discriminate H.
  cbn [infos_equiv] in H. apply andb_true_iff in H. destruct H as [H1 H2]. destruct i as [|i].
  - cbn in Hn. inversion Hn. subst x0. exists y0. split; [reflexivity | exact H1].
  - cbn [nth_error] in Hn |- *. apply (IH b i x H2 Hn).
Qed.

Lemma nth_info_equiv v1 v2 i x : infos_equiv (bv_infos v1) (bv_infos v2) = true -> nth_info v1 i = Some x ->
  exists y, nth_info v2 i = Some y /\ info_eqb x y = true.
Proof.
  unfold nth_info. intros H Hn. pose proof (infos_equiv_length _ _ H) as L.
  destruct (bv_infos v1) as [|a [|a2 l1]] eqn:E1; destruct (bv_infos v2) as [|b [|b2 l2]] eqn:E2; try discriminate L.
  - destruct i; discriminate Hn.
  - inversion Hn. subst a. cbn [infos_equiv] in H. apply andb_true_iff in H. exists b. tauto.
  - apply (infos_equiv_nth _ _ i x H Hn).
Qed.

Definition opt_equiv (a b : option bvalue) : Prop :=
  match a, b with
  | Some x, Some y => value_equiv x y = true
  | None, None => True
  | _, _ => False
  end.

Theorem produced_value_congruent c n v1 v2 :
  value_equiv v1 v2 = true -> opt_equiv (result_for_output c n v1) (result_for_output c n v2).
Proof.
  intros H. unfold value_equiv in H. apply andb_true_iff in H. destruct H as [Hk Hi].
  apply N.eqb_eq in Hk. apply vtag_inj in Hk.
  assert (Hext : opt_equiv (ext_result_for_output c n v1) (ext_result_for_output c n v2)).
  { unfold ext_result_for_output, kind_is. rewrite <- Hk.
    destruct (is_failure_kind (bv_kind v1)); [apply value_equiv_refl|].
    destruct (N.eqb (vtag (bv_kind v1)) (vtag VSkippedCommand)); [apply value_equiv_refl|].
    destruct (negb (is_successful (bv_kind v1))); [exact I|].
    destruct (node_virtual n); [apply value_equiv_refl|].
    destruct (index_of n (cm_outputs c)) as [i|]; [|exact I].
    destruct (nth_info v1 i) as [x|] eqn:E1.
    - destruct (nth_info_equiv v1 v2 i x Hi E1) as [y [E2 Exy]]. rewrite E2. cbn [opt_equiv].
      rewrite <- (info_eqb_missing _ _ Exy). destruct (is_missing x); [apply value_equiv_refl|].
      unfold value_equiv, v_existing. cbn. rewrite Exy. reflexivity.
    - destruct (nth_info v2 i) as [y|] eqn:E2; [|exact I].
      assert (Hi' : infos_equiv (bv_infos v2) (bv_infos v1) = true).
      { clear - Hi. revert Hi. generalize (bv_infos v1) (bv_infos v2). intros a. induction a as [|x a IH]; intros [|y b] H;
          try reflexivity; try discriminate H. cbn [infos_equiv] in *. apply andb_true_iff in H. destruct H as [H1 H2].
        rewrite (info_eqb_sym_true _ _ H1), (IH b H2). reflexivity. }
      destruct (nth_info_equiv v2 v1 i y Hi' E2) as [x [E1' _]]. congruence. }
  unfold result_for_output. destruct (cm_tool c).
  - exact Hext.
  - destruct (node_virtual n); [apply value_equiv_refl | exact Hext].
  - exact Hext.
  - unfold symlink_result_for_output, kind_is. rewrite <- Hk.
    destruct (is_failure_kind (bv_kind v1)); [apply value_equiv_refl|].
    destruct (N.eqb (vtag (bv_kind v1)) (vtag VSkippedCommand)); [apply value_equiv_refl|].
    destruct (negb (is_successful (bv_kind v1))); [exact I|].
    destruct (bv_infos v1) as [|x l1]; destruct (bv_infos v2) as [|y l2]; try discriminate Hi; [exact I|].
    cbn [infos_equiv] in Hi. apply andb_true_iff in Hi. destruct Hi as [Exy _]. cbn [opt_equiv].
    rewrite <- (info_eqb_missing _ _ Exy). destruct (is_missing x); [apply value_equiv_refl|].
    unfold value_equiv, v_existing. cbn. rewrite Exy. reflexivity.
Qed.

(* validity of a produced node's value does not look at the world *)
Theorem produced_valid_world_independent d w1 w2 n v ps :
  lookup_rule d (KN n) = RProduced n ps -> rule_valid d w1 (KN n) v = rule_valid d w2 (KN n) v.
Proof. intros H. unfold rule_valid. rewrite H. reflexivity. Qed.

(* target rules are never valid: the target task runs in every build (it writes nothing) *)
Theorem target_never_valid d w t v : rule_valid d w (KT t) v = Invalid.
Proof. unfold rule_valid, lookup_rule. destruct (find_target (d_targets d) t); reflexivity. Qed.

Theorem missing_command_never_valid d w name v :
  find_cmd (d_cmds d) name = None -> rule_valid d w (KC name) v = Invalid.
Proof. intros H. unfold rule_valid, lookup_rule. rewrite H. reflexivity. Qed.

(* the file-input task: valid means re-running observes the same thing (world untouched: the task only stats) *)
Theorem file_input_rerun w0 w n :
  wf_world w0 -> wf_world w ->
  file_valid w n (run_file_input w0 n) = true -> value_equiv (run_file_input w n) (run_file_input w0 n) = true.
Proof.
  intros W0 W V. unfold file_valid, run_file_input in *.
  destruct (is_missing (stat_w w n)) eqn:M; destruct (is_missing (stat_w w0 n)) eqn:M0.
  - reflexivity.
  - discriminate V.
  - discriminate V.
  - unfold first_info, v_existing, kind_is in V. cbn in V. unfold value_equiv, v_existing. cbn.
    rewrite (info_eqb_sym_true _ _ V). reflexivity.
Qed.

(* ================================================================================================ *)
(* c08_description_edit                                                                             *)
(* ================================================================================================ *)

Lemma strs_injective l1 : forall l2, strs l1 = strs l2 -> l1 = l2.
Proof.
  induction l1 as [|x l1 IH]; intros [|y l2] H; try reflexivity; try discriminate H.
  unfold strs in H. cbn [map] in H. inversion H. f_equal. apply IH. assumption.
Qed.

Section SigFacts.
Variable H0 : bytes -> N.
Variable HC : N -> token -> N.

(* a node whose producer list changes gets another signature (premise: the fold is collision-free, BSys/Sig.v) *)
Theorem node_sig_changes d1 d2 n : ideal_fold0 HC ->
  map cm_name (producers d1 n) <> map cm_name (producers d2 n) ->
  rule_sig H0 HC d1 (KN n) <> rule_sig H0 HC d2 (KN n).
Proof.
  intros I Hn E. unfold rule_sig, node_sig in E. apply I in E. unfold node_sig_tokens, node_def in E.
  cbn [n_type n_producers] in E. inversion E as [E']. apply strs_injective in E'. contradiction.
Qed.

(* an input node becoming a produced node, or the reverse *)
Corollary input_becomes_produced d1 d2 n : ideal_fold0 HC ->
  producers d1 n = [] -> producers d2 n <> [] ->
  rule_sig H0 HC d1 (KN n) <> rule_sig H0 HC d2 (KN n) /\ rule_sig H0 HC d2 (KN n) <> rule_sig H0 HC d1 (KN n).
Proof.
  intros I P1 P2.
  assert (Hn : map cm_name (producers d1 n) <> map cm_name (producers d2 n)).
  { rewrite P1. destruct (producers d2 n); [congruence | discriminate]. }
  split; [apply node_sig_changes; assumption | apply node_sig_changes; [assumption | congruence]].
Qed.

(* and the rule itself changes kind *)
Theorem input_becomes_produced_rule d1 d2 n : node_type n = 0 ->
  producers d1 n = [] -> producers d2 n <> [] ->
  lookup_rule d1 (KN n) = RFileInput n /\ lookup_rule d2 (KN n) = RProduced n (producers d2 n).
Proof.
  intros T P1 P2. unfold lookup_rule, node_virtual. rewrite P1, T. cbn [N.eqb].
  split; [reflexivity|]. destruct (producers d2 n); [congruence | reflexivity].
Qed.

(* a changed command definition: the signature-area theorem (equal signatures -> equal relevant parts) is a premise *)
Theorem command_edit_changes_sig d1 d2 name c1 c2 :
  (forall x y, shell_sig H0 HC x = shell_sig H0 HC y -> relevant x = relevant y) ->
  find_cmd (d_cmds d1) name = Some c1 -> find_cmd (d_cmds d2) name = Some c2 ->
  cm_tool c1 = TShell -> cm_tool c2 = TShell ->
  relevant (cm_def c1) <> relevant (cm_def c2) ->
  rule_sig H0 HC d1 (KC name) <> rule_sig H0 HC d2 (KC name).
Proof.
  intros Inj F1 F2 T1 T2 R E. unfold rule_sig in E. rewrite F1, F2 in E. unfold cmd_sig in E. rewrite T1, T2 in E.
  apply Inj in E. contradiction.
Qed.

Theorem ext_command_edit_changes_sig d1 d2 name c1 c2 :
  (forall x y, ext_sig H0 HC x = ext_sig H0 HC y -> ext_relevant x = ext_relevant y) ->
  find_cmd (d_cmds d1) name = Some c1 -> find_cmd (d_cmds d2) name = Some c2 ->
  (cm_tool c1 = TPhony \/ cm_tool c1 = TMkdir) -> (cm_tool c2 = TPhony \/ cm_tool c2 = TMkdir) ->
  ext_relevant (cm_def c1) <> ext_relevant (cm_def c2) ->
  rule_sig H0 HC d1 (KC name) <> rule_sig H0 HC d2 (KC name).
Proof.
  intros Inj F1 F2 T1 T2 R E. unfold rule_sig in E. rewrite F1, F2 in E. unfold cmd_sig in E.
  assert (E' : ext_sig H0 HC (cm_def c1) = ext_sig H0 HC (cm_def c2)).
  { destruct T1 as [T1|T1]; destruct T2 as [T2|T2]; rewrite T1, T2 in E; exact E. }
  apply Inj in E'. contradiction.
Qed.

(* a removed command: its key resolves to the missing-command rule, whose stored result is never valid and whose
   task completes with forceChange, so every rule that still depends on it runs again *)
Theorem removed_command_rule d name : find_cmd (d_cmds d) name = None -> lookup_rule d (KC name) = RMissingCommand.
Proof. intros H. unfold lookup_rule. rewrite H. reflexivity. Qed.

End SigFacts.

(* ================================================================================================ *)
(* c08_clean_world_fixpoint                                                                         *)
(* ================================================================================================ *)

Lemma find_cmd_In l name c : find_cmd l name = Some c -> In c l /\ cm_name c = name.
Proof.
  induction l as [|a l IH]; intros H; [discriminate H|]. cbn [find_cmd] in H.
  destruct (bytes_eqb (cm_name a) name) eqn:E.
  - inversion H. subst a. apply bytes_eqb_eq in E. split; [left; reflexivity | exact E].
  - destruct (IH H) as [A B]. split; [right; exact A | exact B].
Qed.

Lemma find_cmd_unique l c : NoDup (map cm_name l) -> In c l -> find_cmd l (cm_name c) = Some c.
Proof.
  induction l as [|a l IH]; intros ND I; [destruct I|]. cbn [find_cmd]. cbn [map] in ND. inversion ND as [|x xs Hx ND']. subst.
  destruct I as [I|I].
  - subst a. rewrite bytes_eqb_refl. reflexivity.
  - destruct (bytes_eqb (cm_name a) (cm_name c)) eqn:E.
    + apply bytes_eqb_eq in E. exfalso. apply Hx. rewrite E. apply in_map. exact I.
    + apply IH; assumption.
Qed.

Lemma filter_nil {A : Type} (f : A -> bool) l : (forall y, In y l -> f y = false) -> filter f l = [].
Proof.
  induction l as [|a l IH]; intros H; [reflexivity|]. cbn [filter]. rewrite (H a (or_introl eq_refl)).
  apply IH. intros y I. apply H. right. exact I.
Qed.

Lemma filter_unique {A : Type} (f : A -> bool) l x :
  NoDup l -> In x l -> f x = true -> (forall y, In y l -> f y = true -> y = x) -> filter f l = [x].
Proof.
  induction l as [|a l IH]; intros ND I Fx U; [destruct I|]. inversion ND as [|a' l' Ha ND']. subst. cbn [filter].
  destruct I as [I|I].
  - subst a. rewrite Fx. f_equal. apply filter_nil. intros y Iy. destruct (f y) eqn:Fy; [|reflexivity].
    exfalso. apply Ha. rewrite <- (U y (or_intror Iy) Fy). exact Iy.
  - destruct (f a) eqn:Fa.
    + exfalso. apply Ha. rewrite (U a (or_introl eq_refl) Fa). exact I.
    + apply IH; [exact ND' | exact I | exact Fx | intros y Iy; apply U; right; exact Iy].
Qed.

Lemma run_file_input_frame w w' n : w_fs w' n = w_fs w n -> run_file_input w' n = run_file_input w n.
Proof. intros H. unfold run_file_input, stat_w. rewrite H. reflexivity. Qed.

Lemma fi_is_dir_fresh w s : fi_is_dir (fresh w mode_dir s) = true.
Proof. reflexivity. Qed.

Lemma wf_world_of_sources src : wf_world (world_of_sources src).
Proof.
  unfold world_of_sources. generalize wf_empty_world. generalize empty_world.
  induction src as [|[p c] src IH]; intros w W; cbn [fold_left]; [exact W|].
  apply IH. apply wf_write_fresh. exact W.
Qed.

Section Clean.
Variable F : command -> nat -> list (option bytes) -> bytes.
Variable d : desc.
Variable epoch : N.
Hypothesis WF : wf_desc d.

Definition in_vals (vals : list (key * bvalue)) (k : key) : Prop := lookup_val vals k <> None.
Definition get_val (vals : list (key * bvalue)) (k : key) : bvalue :=
  match lookup_val vals k with Some v => v | None => v_simple VInvalid end.
Definition mono (vals vals' : list (key * bvalue)) : Prop :=
  forall k v, lookup_val vals k = Some v -> lookup_val vals' k = Some v.

(* what a successful command value must say about the world *)
Definition recorded_ok (w : world) (c : command) (v : bvalue) : Prop :=
  match cm_tool c with
  | TShell => bv_infos v = out_infos w (cm_outputs c) /\ shell_outputs_hold F w c
  | TPhony => bv_infos v = out_infos w (cm_outputs c)
  | TMkdir => exists o, cm_outputs c = [o] /\ is_missing (stat_w w o) = false /\ fi_is_dir (stat_w w o) = true
  | TSymlink => exists o, cm_outputs c = [o] /\ bv_infos v = [stat_w w o] /\ is_missing (stat_w w o) = false /\
                          content_w w o = Some (cm_contents c)
  end.

Definition entry_ok (w : world) (vals : list (key * bvalue)) (k : key) (v : bvalue) : Prop :=
  match k with
  | KN n => match lookup_rule d (KN n) with
            | RFileInput _ => v = run_file_input w n
            | RVirtualInput => v = v_simple VVirtualInput
            | RProduced _ [c] => in_vals vals (KC (cm_name c)) /\
                                 result_for_output c n (get_val vals (KC (cm_name c))) = Some v
            | _ => True
            end
  | KC name => match find_cmd (d_cmds d) name with
               | Some c => (forall n, In n (cm_inputs c) -> in_vals vals (KN n)) /\
                           (is_successful (bv_kind v) = true -> recorded_ok w c v)
               | None => True
               end
  | KT _ => True
  end.

Definition inv (st : bstate) : Prop :=
  wf_world (bs_world st) /\
  forall k v, lookup_val (bs_vals st) k = Some v -> entry_ok (bs_world st) (bs_vals st) k v.

Definition frame_stack (stack : list key) (vals vals' : list (key * bvalue)) : Prop :=
  forall x, In x stack -> lookup_val vals x = None -> lookup_val vals' x = None.

Definition frame_out (c : command) (w w' : world) : Prop :=
  forall p, ~ In p (cm_outputs c) -> w_fs w' p = w_fs w p.

Lemma NoDup_cmds : NoDup (d_cmds d).
Proof. destruct WF as [ND _]. apply (NoDup_map_inv cm_name). exact ND. Qed.

Lemma cmd_wf c : In c (d_cmds d) -> wf_command c.
Proof. destruct WF as [_ [H _]]. apply H. Qed.

Lemma outputs_disjoint c1 c2 o : In c1 (d_cmds d) -> In c2 (d_cmds d) -> In o (cm_outputs c1) -> In o (cm_outputs c2) -> c1 = c2.
Proof. destruct WF as [_ [_ [H _]]]. apply H. Qed.

Lemma producers_unique c n : In c (d_cmds d) -> In n (cm_outputs c) -> producers d n = [c].
Proof.
  intros I O. unfold producers. apply filter_unique.
  - exact NoDup_cmds.
  - exact I.
  - unfold produces. apply mem_bytes_In. exact O.
  - intros y Iy Fy. unfold produces in Fy. apply mem_bytes_In in Fy. apply (outputs_disjoint y c n); assumption.
Qed.

Lemma lookup_rule_output c n : In c (d_cmds d) -> In n (cm_outputs c) -> lookup_rule d (KN n) = RProduced n [c].
Proof.
  intros I O. unfold lookup_rule. rewrite (producers_unique c n I O).
  destruct WF as [_ [_ [_ H]]]. unfold node_type. rewrite (H c n I O). destruct (is_virtual n); reflexivity.
Qed.

Lemma file_input_not_output n m c : lookup_rule d (KN n) = RFileInput m -> In c (d_cmds d) -> ~ In n (cm_outputs c).
Proof. intros R I O. rewrite (lookup_rule_output c n I O) in R. discriminate R. Qed.

Lemma mono_refl vals : mono vals vals.
Proof. intros k v H. exact H. Qed.

Lemma mono_trans a b c : mono a b -> mono b c -> mono a c.
Proof. intros H1 H2 k v H. apply H2. apply H1. exact H. Qed.

Lemma mono_cons vals k v : lookup_val vals k = None -> mono vals ((k, v) :: vals).
Proof.
  intros L k' v' H. cbn [lookup_val]. destruct (key_eqb k' k) eqn:E; [|exact H].
  apply key_eqb_eq in E. subst k'. congruence.
Qed.

Lemma in_vals_mono a b k : mono a b -> in_vals a k -> in_vals b k.
Proof.
  intros M H. unfold in_vals in *. destruct (lookup_val a k) as [v|] eqn:E; [|congruence].
  rewrite (M k v E). discriminate.
Qed.

Lemma get_val_mono a b k : mono a b -> in_vals a k -> get_val b k = get_val a k.
Proof.
  intros M H. unfold in_vals, get_val in *. destruct (lookup_val a k) as [v|] eqn:E; [|congruence].
  rewrite (M k v E). reflexivity.
Qed.

Lemma entry_ok_mono w a b k v : mono a b -> entry_ok w a k v -> entry_ok w b k v.
Proof.
  intros M H. destruct k as [name|n|t]; cbn [entry_ok] in *.
  - destruct (find_cmd (d_cmds d) name) as [c|]; [|exact I]. destruct H as [H1 H2].
    split; [intros n I; apply (in_vals_mono a b _ M); apply H1; exact I | exact H2].
  - destruct (lookup_rule d (KN n)) as [| | | | |m ps| | |]; try exact H.
    destruct ps as [|c [|c2 ps]]; try exact H. destruct H as [H1 H2].
    split; [apply (in_vals_mono a b _ M); exact H1 | rewrite (get_val_mono a b _ M H1); exact H2].
  - exact I.
Qed.

Lemma output_node_needs_producer st c n :
  inv st -> In c (d_cmds d) -> In n (cm_outputs c) -> in_vals (bs_vals st) (KN n) -> in_vals (bs_vals st) (KC (cm_name c)).
Proof.
  intros [_ E] I O V. unfold in_vals in V. destruct (lookup_val (bs_vals st) (KN n)) as [v|] eqn:L; [|congruence].
  specialize (E _ _ L). cbn [entry_ok] in E. rewrite (lookup_rule_output c n I O) in E. exact (proj1 E).
Qed.

Lemma recorded_ok_frame w w' c v :
  (forall o, In o (cm_outputs c) -> w_fs w' o = w_fs w o) ->
  (forall n, In n (cm_inputs c) -> w_fs w' n = w_fs w n) ->
  recorded_ok w c v -> recorded_ok w' c v.
Proof.
  intros Ho Hi R. unfold recorded_ok in *.
  assert (Hinf : out_infos w' (cm_outputs c) = out_infos w (cm_outputs c)).
  { unfold out_infos. apply map_ext_in. intros o I. unfold stat_w. rewrite (Ho o I). reflexivity. }
  destruct (cm_tool c).
  - destruct R as [R1 R2]. split; [rewrite Hinf; exact R1|].
    intros j o Hn NV. unfold content_w at 1. rewrite (Ho o (nth_error_In _ _ Hn)).
    assert (Hic : input_contents w' (cm_inputs c) = input_contents w (cm_inputs c)).
    { unfold input_contents. apply map_ext_in. intros p Ip. apply filter_In in Ip. unfold content_w. rewrite (Hi p (proj1 Ip)). reflexivity. }
    rewrite Hic. exact (R2 j o Hn NV).
  - rewrite Hinf. exact R.
  - destruct R as [o [E [M D]]]. exists o. assert (Io : In o (cm_outputs c)) by (rewrite E; left; reflexivity).
    unfold stat_w in *. rewrite (Ho o Io). auto.
  - destruct R as [o [E [B [M C]]]]. exists o. assert (Io : In o (cm_outputs c)) by (rewrite E; left; reflexivity).
    unfold stat_w, content_w in *. rewrite (Ho o Io). auto.
Qed.

(* a command that has not run yet runs: every entry recorded so far stays correct *)
Lemma entry_ok_world st c w' k v :
  inv st -> In c (d_cmds d) -> lookup_val (bs_vals st) (KC (cm_name c)) = None -> frame_out c (bs_world st) w' ->
  lookup_val (bs_vals st) k = Some v -> entry_ok w' (bs_vals st) k v.
Proof.
  intros I Ic Lc Fr L. pose proof (proj2 I k v L) as E.
  assert (Hnot : forall n, in_vals (bs_vals st) (KN n) -> ~ In n (cm_outputs c)).
  { intros n V O. apply (output_node_needs_producer st c n I Ic O V). exact Lc. }
  destruct k as [name|n|t]; cbn [entry_ok] in *.
  - destruct (find_cmd (d_cmds d) name) as [c0|] eqn:Fc; [|exact Logic.I]. destruct E as [E1 E2]. split; [exact E1|].
    intros S. specialize (E2 S). destruct (find_cmd_In _ _ _ Fc) as [Ic0 Nc0].
    assert (Hne : c0 <> c) by (intros ->; rewrite Nc0 in Lc; congruence).
    apply (recorded_ok_frame (bs_world st)); [| |exact E2].
    + intros o Io. apply Fr. intros Io'. apply Hne. apply (outputs_disjoint c0 c o); assumption.
    + intros n In_. apply Fr. apply Hnot. apply E1. exact In_.
  - destruct (lookup_rule d (KN n)) as [| | |m| |m ps| | |] eqn:R; try exact E.
    rewrite E. symmetry. apply run_file_input_frame. apply Fr. apply (file_input_not_output n m c R Ic).
  - exact Logic.I.
Qed.

Lemma run_command_frame w c ins w' v ex :
  wf_world w -> cm_outputs c <> [] -> run_command F epoch w c None ins = Some (w', v, ex) ->
  wf_world w' /\ frame_out c w w'.
Proof.
  intros W Ne H. unfold run_command in H.
  assert (Hext : run_external F epoch w c None ins = Some (w', v, ex) -> cm_tool c <> TSymlink -> wf_world w' /\ frame_out c w w').
  { clear H. intros H NT. unfold run_external in H.
    destruct (existsb is_unreachable _); [discriminate H|].
    destruct (existsb is_skip _); [inversion H; subst; split; [exact W | intros p _; reflexivity]|].
    rewrite andb_false_r in H. cbn [andb] in H. unfold exec_tool in H. destruct (cm_tool c) eqn:T.
    - inversion H. subst. split; [apply write_outputs_wf; exact W|].
      intros p Hp. apply write_outputs_other. intros o Io _ E. subst. contradiction.
    - inversion H. subst. split; [exact W | intros p _; reflexivity].
    - destruct (cm_outputs c) as [|o outs] eqn:Eo; [congruence|]. cbn [hd] in H.
      destruct (w_fs w o) as [[cc s]|] eqn:Eo'.
      + destruct (fi_is_dir s); inversion H; subst; (split; [exact W | intros p _; reflexivity]).
      + inversion H. subst. split; [apply wf_write_fresh; exact W|].
        intros p Hp. unfold write_fresh. apply put_fs_other. intros E. apply Hp. rewrite Eo. left. congruence.
    - congruence. }
  destruct (cm_tool c) eqn:T; try (apply Hext; [exact H | discriminate]).
  inversion H as [H']. unfold run_symlink in H'. destruct (cm_outputs c) as [|o outs] eqn:Eo; [congruence|].
  destruct (is_nil o); inversion H'; subst; [split; [exact W | intros p _; reflexivity]|].
  split; [apply wf_write_fresh; exact W|]. intros p Hp. unfold write_fresh. apply put_fs_other. intros E. apply Hp. rewrite Eo. left. congruence.
Qed.

(* what the command records about the world it leaves *)
Lemma run_command_recorded w c ins w' v ex :
  wf_world w -> wf_command c -> (forall n, In n (cm_inputs c) -> ~ In n (cm_outputs c)) ->
  run_command F epoch w c None ins = Some (w', v, ex) -> is_successful (bv_kind v) = true ->
  recorded_ok w' c v.
Proof.
  intros W [ND [Ne Hone]] Hself H S. unfold run_command in H. unfold recorded_ok.
  assert (Hsk : forall T, cm_tool c = T -> T <> TSymlink ->
                run_external F epoch w c None ins = Some (w', v, ex) ->
                exists w1, exec_tool F c w = Some w1 /\ w' = w1 /\ v = command_result epoch w1 (cm_outputs c)).
  { intros T ET NT H1. unfold run_external in H1.
    destruct (existsb is_unreachable _); [discriminate H1|].
    destruct (existsb is_skip _); [inversion H1; subst; discriminate S|].
    rewrite andb_false_r in H1. cbn [andb] in H1.
    destruct (exec_tool F c w) as [w1|]; inversion H1; subst; [|discriminate S].
    exists w'. auto. }
  destruct (cm_tool c) eqn:T.
  - destruct (Hsk TShell eq_refl ltac:(discriminate) H) as [w1 [Ex [-> ->]]]. unfold exec_tool in Ex. rewrite T in Ex.
    inversion Ex as [Ew]. rewrite command_result_infos by exact Ne. split; [reflexivity|].
    intros j o Hn NV.
    rewrite (write_outputs_content F c _ _ ND 0 w j o Hn NV). cbn [Nat.add]. f_equal. f_equal.
    unfold input_contents. apply map_ext_in. intros p Ip. apply filter_In in Ip. destruct Ip as [Ip _].
    unfold content_w. rewrite write_outputs_other; [reflexivity|].
    intros o' Io' _ E. subst o'. exact (Hself p Ip Io').
  - destruct (Hsk TPhony eq_refl ltac:(discriminate) H) as [w1 [Ex [-> ->]]]. unfold exec_tool in Ex. rewrite T in Ex.
    inversion Ex. subst. rewrite command_result_infos by exact Ne. reflexivity.
  - destruct (Hsk TMkdir eq_refl ltac:(discriminate) H) as [w1 [Ex [-> ->]]]. unfold exec_tool in Ex. rewrite T in Ex.
    destruct (Hone (or_introl eq_refl)) as [o [Eo [NV No]]]. exists o. split; [exact Eo|]. rewrite Eo in Ex. cbn [hd] in Ex.
    destruct (w_fs w o) as [[cc s]|] eqn:Ew.
    + destruct (fi_is_dir s) eqn:Ds; inversion Ex. subst. unfold stat_w. rewrite Ew. split; [exact (proj1 (W o cc s Ew)) | exact Ds].
    + inversion Ex. unfold write_fresh. rewrite stat_put_same. split; [apply fresh_not_missing | apply fi_is_dir_fresh].
  - inversion H as [H']. destruct (Hone (or_intror eq_refl)) as [o [Eo [NV No]]]. exists o. split; [exact Eo|].
    unfold run_symlink in H'. rewrite Eo in H'. assert (Hn : is_nil o = false) by (destruct o; [congruence | reflexivity]).
    rewrite Hn in H'. inversion H'. subst. cbn [v_success bv_infos]. split; [reflexivity|].
    unfold write_fresh. rewrite stat_put_same, content_put_same. split; [apply fresh_not_missing | reflexivity].
Qed.

Definition good_bk (stack : list key) (bk : bstate -> key -> bres) : Prop :=
  forall st k st', inv st -> bk st k = BOk st' ->
    inv st' /\ mono (bs_vals st) (bs_vals st') /\ in_vals (bs_vals st') k /\ frame_stack stack (bs_vals st) (bs_vals st').

Lemma fold_good stack bk : good_bk stack bk -> forall ks st st', inv st -> fold_keys bk ks st = BOk st' ->
  inv st' /\ mono (bs_vals st) (bs_vals st') /\ (forall k, In k ks -> in_vals (bs_vals st') k) /\
  frame_stack stack (bs_vals st) (bs_vals st').
Proof.
  intros G. induction ks as [|a ks IH]; intros st st' I H; cbn [fold_keys] in H.
  - inversion H. subst st'. split; [exact I|]. split; [apply mono_refl|]. split; [intros k []|]. intros x _ Hx. exact Hx.
  - destruct (bk st a) as [st0| | |] eqn:E; try discriminate H.
    destruct (G st a st0 I E) as [I1 [M1 [V1 S1]]]. destruct (IH st0 st' I1 H) as [I2 [M2 [V2 S2]]].
    split; [exact I2|]. split; [exact (mono_trans _ _ _ M1 M2)|]. split.
    + intros k [Hk|Hk]; [subst a; exact (in_vals_mono _ _ _ M2 V1) | exact (V2 k Hk)].
    + intros x Hx Hn. apply S2; [exact Hx|]. apply S1; assumption.
Qed.

Lemma record_good stack st k v :
  inv st -> lookup_val (bs_vals st) k = None -> existsb (key_eqb k) stack = false ->
  entry_ok (bs_world st) ((k, v) :: bs_vals st) k v ->
  inv (record st k v) /\ mono (bs_vals st) (bs_vals (record st k v)) /\ in_vals (bs_vals (record st k v)) k /\
  frame_stack stack (bs_vals st) (bs_vals (record st k v)).
Proof.
  intros [W E] L Ex Ek. unfold record. cbn [bs_vals bs_world].
  assert (M : mono (bs_vals st) ((k, v) :: bs_vals st)) by (apply mono_cons; exact L).
  split; [split; [exact W|]|split; [exact M|split]].
  - intros k0 v0 H. cbn [bs_vals bs_world lookup_val] in H |- *. destruct (key_eqb k0 k) eqn:E0.
    + apply key_eqb_eq in E0. inversion H. subst. exact Ek.
    + apply (entry_ok_mono _ _ _ _ _ M). apply E. exact H.
  - unfold in_vals. cbn [bs_vals lookup_val]. rewrite key_eqb_refl. discriminate.
  - intros x Hx Hn. cbn [bs_vals lookup_val]. destruct (key_eqb x k) eqn:E0; [|exact Hn].
    apply key_eqb_eq in E0. subst x. exfalso.
    assert (existsb (key_eqb k) stack = true) by (apply existsb_exists; exists k; split; [exact Hx | apply key_eqb_refl]).
    congruence.
Qed.

Lemma frame_stack_cons stack k a b c :
  frame_stack (k :: stack) a b -> frame_stack stack b c -> frame_stack stack a c.
Proof. intros H1 H2 x Hx Hn. apply H2; [exact Hx|]. apply H1; [right; exact Hx | exact Hn]. Qed.

Theorem build_good : forall fuel stack, good_bk stack (build_key F fuel d epoch stack).
Proof.
  induction fuel as [|f IHf]; intros stack st k st' I H; [discriminate H|]. cbn [build_key] in H.
  destruct (lookup_val (bs_vals st) k) as [v0|] eqn:L.
  { inversion H. subst st'. split; [exact I|]. split; [apply mono_refl|]. split; [unfold in_vals; rewrite L; discriminate|].
    intros x _ Hx. exact Hx. }
  destruct (existsb (key_eqb k) stack) eqn:Ex; [discriminate H|].
  destruct k as [name|n|t]; cbn [lookup_rule] in H.
  - (* command keys *)
    destruct (find_cmd (d_cmds d) name) as [c|] eqn:Fc.
    + destruct (find_cmd_In _ _ _ Fc) as [Ic Nc].
      destruct (fold_keys (build_key F f d epoch (KC name :: stack)) (map KN (cm_inputs c)) st) as [st1| | |] eqn:Ef; try discriminate H.
      destruct (fold_good _ _ (IHf (KC name :: stack)) _ _ _ I Ef) as [I1 [M1 [V1 S1]]].
      destruct (run_command F epoch (bs_world st1) c None (map (fun n0 => val_of st1 (KN n0)) (cm_inputs c))) as [[[w' v] ex]|] eqn:Er;
        [|discriminate H].
      inversion H. subst st'. clear H. cbn [bs_vals bs_world].
      assert (L1 : lookup_val (bs_vals st1) (KC name) = None) by (apply S1; [left; reflexivity | exact L]).
      assert (L1' : lookup_val (bs_vals st1) (KC (cm_name c)) = None) by (rewrite Nc; exact L1).
      pose proof (cmd_wf c Ic) as Wc.
      destruct (run_command_frame _ _ _ _ _ _ (proj1 I1) (proj1 (proj2 Wc)) Er) as [W' Fr].
      assert (M : mono (bs_vals st1) ((KC name, v) :: bs_vals st1)) by (apply mono_cons; exact L1).
      assert (Hin : forall n0, In n0 (cm_inputs c) -> in_vals (bs_vals st1) (KN n0)) by (intros n0 In0; apply V1; apply in_map; exact In0).
      assert (Hself : forall n0, In n0 (cm_inputs c) -> ~ In n0 (cm_outputs c)).
      { intros n0 In0 O. apply (output_node_needs_producer st1 c n0 I1 Ic O (Hin n0 In0)). exact L1'. }
      split; [split; [exact W'|]|split; [exact (mono_trans _ _ _ M1 M)|split]].
      * intros k0 v1 Hl. cbn [bs_vals bs_world lookup_val] in Hl |- *. destruct (key_eqb k0 (KC name)) eqn:E0.
        -- apply key_eqb_eq in E0. subst k0. assert (v1 = v) by congruence. subst v1. cbn [entry_ok]. rewrite Fc. split.
           ++ intros n0 In0. apply (in_vals_mono _ _ _ M). exact (Hin n0 In0).
           ++ intros Sv. apply (run_command_recorded _ _ _ _ _ _ (proj1 I1) Wc Hself Er Sv).
        -- apply (entry_ok_mono _ _ _ _ _ M). apply (entry_ok_world st1 c w' k0 v1 I1 Ic L1' Fr Hl).
      * unfold in_vals. cbn [bs_vals lookup_val]. rewrite key_eqb_refl. discriminate.
      * intros x Hx Hn. cbn [bs_vals lookup_val]. destruct (key_eqb x (KC name)) eqn:E0.
        -- apply key_eqb_eq in E0. subst x. exfalso.
           assert (existsb (key_eqb (KC name)) stack = true) by (apply existsb_exists; exists (KC name); split; [exact Hx | apply key_eqb_refl]).
           congruence.
        -- apply S1; [right; exact Hx | exact Hn].
    + inversion H. subst st'. apply record_good; try assumption. cbn [entry_ok]. rewrite Fc. exact Logic.I.
  - (* node keys *)
    destruct (producers d n) as [|c ps] eqn:P.
    + destruct (node_virtual n) eqn:Vn.
      * inversion H. subst st'. apply record_good; try assumption. cbn [entry_ok lookup_rule]. rewrite P, Vn. reflexivity.
      * destruct (N.eqb (node_type n) 1) eqn:Tn; [discriminate H|].
        inversion H. subst st'. apply record_good; try assumption. cbn [entry_ok lookup_rule]. rewrite P, Vn, Tn. reflexivity.
    + destruct (N.eqb (node_type n) 1) eqn:Tn; [discriminate H|].
      destruct ps as [|c2 ps].
      * destruct (build_key F f d epoch (KN n :: stack) st (KC (cm_name c))) as [st1| | |] eqn:Eb; try discriminate H.
        destruct (IHf (KN n :: stack) st (KC (cm_name c)) st1 I Eb) as [I1 [M1 [V1 S1]]].
        destruct (result_for_output c n (val_of st1 (KC (cm_name c)))) as [v|] eqn:Er; [|discriminate H].
        inversion H. subst st'. clear H.
        assert (L1 : lookup_val (bs_vals st1) (KN n) = None) by (apply S1; [left; reflexivity | exact L]).
        destruct (record_good stack st1 (KN n) v I1 L1 Ex) as [I2 [M2 [V2 S2]]].
        { cbn [entry_ok lookup_rule]. rewrite P, Tn.
          assert (M : mono (bs_vals st1) ((KN n, v) :: bs_vals st1)) by (apply mono_cons; exact L1).
          split; [apply (in_vals_mono _ _ _ M); exact V1|]. rewrite (get_val_mono _ _ _ M V1). exact Er. }
        split; [exact I2|]. split; [exact (mono_trans _ _ _ M1 M2)|]. split; [exact V2|].
        exact (frame_stack_cons _ _ _ _ _ S1 S2).
      * inversion H. subst st'. apply record_good; try assumption. cbn [entry_ok lookup_rule]. rewrite P, Tn. exact Logic.I.
  - (* target keys *)
    destruct (find_target (d_targets d) t) as [ns|] eqn:Ft; [|discriminate H].
    destruct (fold_keys (build_key F f d epoch (KT t :: stack)) (map KN ns) st) as [st1| | |] eqn:Ef; try discriminate H.
    destruct (fold_good _ _ (IHf (KT t :: stack)) _ _ _ I Ef) as [I1 [M1 [V1 S1]]].
    inversion H. subst st'. clear H.
    assert (L1 : lookup_val (bs_vals st1) (KT t) = None) by (apply S1; [left; reflexivity | exact L]).
    destruct (record_good stack st1 (KT t) (v_simple VTarget) I1 L1 Ex Logic.I) as [I2 [M2 [V2 S2]]].
    split; [exact I2|]. split; [exact (mono_trans _ _ _ M1 M2)|]. split; [exact V2|].
    exact (frame_stack_cons _ _ _ _ _ S1 S2).
Qed.

Lemma inv_initial w : wf_world w -> inv (mkBS w [] []).
Proof. intros W. split; [exact W|]. intros k v H. discriminate H. Qed.

(* a recorded successful command value is valid in the world the invariant speaks about *)
Lemma recorded_ok_valid w c v :
  wf_command c -> is_successful (bv_kind v) = true -> c_always_out_of_date (cm_def c) = false ->
  recorded_ok w c v -> cmd_valid d w c v = Valid.
Proof.
  intros [_ [_ Hone]] S A R. unfold recorded_ok in R. unfold cmd_valid.
  assert (Hext : bv_infos v = out_infos w (cm_outputs c) ->
                 is_result_valid (c_always_out_of_date (cm_def c)) v (onodes d w (cm_outputs c)) = Valid).
  { intros E. unfold is_result_valid. rewrite A, S, E. cbn [negb]. apply outputs_valid_recorded. }
  destruct (cm_tool c) eqn:T.
  - apply Hext. exact (proj1 R).
  - apply Hext. exact R.
  - destruct R as [o [Eo [M D]]]. unfold mkdir_valid. rewrite S, Eo, M, D. reflexivity.
  - destruct R as [o [Eo [B [M C]]]]. unfold symlink_valid. rewrite Eo, S, B.
    destruct (Hone (or_intror eq_refl)) as [o' [Eo' [_ No]]]. rewrite Eo in Eo'. inversion Eo'. subst o'.
    assert (Hn : is_nil o = false) by (destruct o; [congruence | reflexivity]).
    rewrite Hn, M. unfold first_info. rewrite B. cbn. rewrite info_eqb_refl. reflexivity.
Qed.

(* the state after a build that started from an empty database: every recorded node value is current and every
   recorded successful command value is valid (so a second build finds every rule valid: a null build), and every
   shell command's outputs hold what the command computes from what its inputs hold *)
Theorem clean_fixpoint fuel stack w0 k st :
  wf_world w0 -> build_key F fuel d epoch stack (mkBS w0 [] []) k = BOk st ->
  wf_world (bs_world st) /\
  forall k' v, lookup_val (bs_vals st) k' = Some v ->
    match lookup_rule d k' with
    | RFileInput _ | RVirtualInput => rule_valid d (bs_world st) k' v = Valid
    | RProduced _ _ => produced_valid v = true -> rule_valid d (bs_world st) k' v = Valid
    | RCommand c => is_successful (bv_kind v) = true ->
                    (c_always_out_of_date (cm_def c) = false -> rule_valid d (bs_world st) k' v = Valid) /\
                    (cm_tool c = TShell -> shell_outputs_hold F (bs_world st) c)
    | _ => True
    end.
Proof.
  intros W0 H. destruct (build_good fuel stack _ _ _ (inv_initial w0 W0) H) as [[W E] _]. split; [exact W|].
  intros k' v L. specialize (E k' v L). unfold rule_valid.
  destruct k' as [name|n|t].
  - cbn [lookup_rule]. cbn [entry_ok] in E. destruct (find_cmd (d_cmds d) name) as [c|] eqn:Fc; [|exact Logic.I].
    intros S. destruct E as [_ E]. specialize (E S). destruct (find_cmd_In _ _ _ Fc) as [Ic _]. split.
    + intros A. apply recorded_ok_valid; try assumption. apply cmd_wf. exact Ic.
    + intros T. unfold recorded_ok in E. rewrite T in E. exact (proj2 E).
  - cbn [entry_ok] in E. cbn [lookup_rule] in E |- *. destruct (producers d n) as [|c ps] eqn:P.
    + destruct (node_virtual n) eqn:Vn.
      * rewrite E. reflexivity.
      * destruct (N.eqb (node_type n) 1); [exact Logic.I|]. rewrite E, file_valid_run. reflexivity.
    + destruct (N.eqb (node_type n) 1); [exact Logic.I|]. intros Pv. rewrite Pv. reflexivity.
  - cbn [lookup_rule]. destruct (find_target (d_targets d) t); exact Logic.I.
Qed.

End Clean.

Theorem clean_world_fixpoint F d src t st :
  wf_desc d -> clean F d src t = BOk st ->
  wf_world (bs_world st) /\
  forall k v, lookup_val (bs_vals st) k = Some v ->
    match lookup_rule d k with
    | RFileInput _ | RVirtualInput => rule_valid d (bs_world st) k v = Valid
    | RProduced _ _ => produced_valid v = true -> rule_valid d (bs_world st) k v = Valid
    | RCommand c => is_successful (bv_kind v) = true ->
                    (c_always_out_of_date (cm_def c) = false -> rule_valid d (bs_world st) k v = Valid) /\
                    (cm_tool c = TShell -> shell_outputs_hold F (bs_world st) c)
    | _ => True
    end.
Proof.
  intros WF H. unfold clean in H. apply (clean_fixpoint F d 1 WF _ _ _ _ _ (wf_world_of_sources src) H).
Qed.

(* ================================================================================================ *)
(* non-vacuity: a description with three commands                                                   *)
(*   C.a: src -> mid ; C.b: mid src2 -> out out2 ; C.all (phony): out out2 -> <all> ; target "" = <all> *)
(* ================================================================================================ *)

Definition ex_src : path := [115;114;99].
Definition ex_src2 : path := [115;114;99;50].
Definition ex_mid : path := [109;105;100].
Definition ex_out : path := [111;117;116].
Definition ex_out2 : path := [111;117;116;50].
Definition ex_all : path := [60;97;108;108;62].
Definition ex_def (name : bytes) (ins outs : list path) (args : list bytes) : cdef :=
  mkCdef name ins outs false false false [] args [] [] 0 true false.
Definition ex_ca : command := mkCmd TShell (ex_def [67;46;97] [ex_src] [ex_mid] [[65]]) [].
Definition ex_cb : command := mkCmd TShell (ex_def [67;46;98] [ex_mid; ex_src2] [ex_out; ex_out2] [[66]]) [].
Definition ex_call : command := mkCmd TPhony (ex_def [67;46;97;108;108] [ex_out; ex_out2] [ex_all] []) [].
Definition ex_d3 : desc := mkDesc [ex_ca; ex_cb; ex_call] [] [([], [ex_all])].
Definition ex_sources : list (path * bytes) := [(ex_src, [49]); (ex_src2, [50])].
Definition ex_state : bstate :=
  match clean cat_fn ex_d3 ex_sources [] with BOk st => st | _ => mkBS empty_world [] [] end.

Example ex_wf_d3 : wf_desc ex_d3.
Proof.
  unfold wf_desc. split; [|split; [|split]].
  - cbn. repeat (constructor; [cbn; intuition discriminate|]). constructor.
  - intros c [<-|[<-|[<-|[]]]]; unfold wf_command; cbn; (split; [repeat (constructor; [cbn; intuition discriminate|]); constructor|]);
      (split; [discriminate|]); intros [H|H]; discriminate H.
  - intros c1 c2 o [<-|[<-|[<-|[]]]] [<-|[<-|[<-|[]]]] O1 O2; try reflexivity; cbn in O1, O2;
    cbv [ex_mid ex_out ex_out2 ex_all ex_src ex_src2] in O1, O2; exfalso; intuition congruence.
  - intros c o [<-|[<-|[<-|[]]]] O; cbn in O; intuition (subst; reflexivity).
Qed.

(* the clean build succeeds, runs C.a then C.b (the phony command runs its empty body last), and leaves
   out = "B0(A0(1)2)", out2 = "B1(A0(1)2)" *)
Example ex_clean_ok : clean cat_fn ex_d3 ex_sources [] = BOk ex_state.
Proof. vm_compute. reflexivity. Qed.

Example ex_clean_contents :
  content_w (bs_world ex_state) ex_mid = Some [65;48;40;49;41] /\
  content_w (bs_world ex_state) ex_out = Some [66;48;40;65;48;40;49;41;50;41] /\
  content_w (bs_world ex_state) ex_out2 = Some [66;49;40;65;48;40;49;41;50;41] /\
  bs_ran ex_state = [[67;46;97;108;108]; [67;46;98]; [67;46;97]].
Proof. vm_compute. repeat split; reflexivity. Qed.

(* every command value recorded by the clean build is valid in the clean world *)
Example ex_clean_null_build :
  cmd_valid ex_d3 (bs_world ex_state) ex_ca (val_of ex_state (KC [67;46;97])) = Valid /\
  cmd_valid ex_d3 (bs_world ex_state) ex_cb (val_of ex_state (KC [67;46;98])) = Valid /\
  cmd_valid ex_d3 (bs_world ex_state) ex_call (val_of ex_state (KC [67;46;97;108;108])) = Valid /\
  file_valid (bs_world ex_state) ex_src (val_of ex_state (KN ex_src)) = true.
Proof. vm_compute. repeat split; reflexivity. Qed.

(* tampering with the LAST output of C.b (deleting it, or overwriting it with a newer stamp) is noticed *)
Example ex_tamper_last_output :
  cmd_valid ex_d3 (del (bs_world ex_state) ex_out2) ex_cb (val_of ex_state (KC [67;46;98])) = Invalid /\
  cmd_valid ex_d3 (put (bs_world ex_state) ex_out2 [120] (fresh (bs_world ex_state) mode_file 1)) ex_cb
            (val_of ex_state (KC [67;46;98])) = Invalid.
Proof. vm_compute. split; reflexivity. Qed.

(* the hypotheses of tamper_detected are met by that instance *)
Example ex_tamper_hyps :
  In ex_out2 (cm_outputs ex_cb) /\ node_virtual ex_out2 = false /\
  tampered ex_d3 (bs_world ex_state) (del (bs_world ex_state) ex_out2) ex_out2.
Proof.
  split; [right; left; reflexivity|]. split; [reflexivity|]. apply tamper_delete. vm_compute. reflexivity.
Qed.

(* an observable edit of src invalidates the input node; the hypotheses of source_edit_detected are met *)
Example ex_source_edit :
  wf_world (bs_world ex_state) /\ observable (bs_world ex_state) (fresh (bs_world ex_state) mode_file 2) /\
  file_valid (bs_world ex_state) ex_src (val_of ex_state (KN ex_src)) = true /\
  file_valid (put (bs_world ex_state) ex_src [55;55] (fresh (bs_world ex_state) mode_file 2)) ex_src
             (val_of ex_state (KN ex_src)) = false.
Proof.
  split; [exact (proj1 (clean_world_fixpoint cat_fn ex_d3 ex_sources [] ex_state ex_wf_d3 ex_clean_ok))|].
  split; [apply fresh_observable|]. vm_compute. split; reflexivity.
Qed.

(* re-running C.b in the clean world: same contents, new stamps, the old value is no longer valid *)
Example ex_rerun_cb :
  shell_outputs_hold cat_fn (bs_world ex_state) ex_cb /\
  exists w', run_external cat_fn 2 (bs_world ex_state) ex_cb (Some (val_of ex_state (KC [67;46;98])))
                          [val_of ex_state (KN ex_mid); val_of ex_state (KN ex_src2)]
             = Some (w', command_result 2 w' (cm_outputs ex_cb), true) /\
             content_w w' ex_out = content_w (bs_world ex_state) ex_out /\
             cmd_valid ex_d3 w' ex_cb (val_of ex_state (KC [67;46;98])) = Invalid.
Proof.
  split.
  - destruct (clean_world_fixpoint cat_fn ex_d3 ex_sources [] ex_state ex_wf_d3 ex_clean_ok) as [_ H].
    assert (L : lookup_val (bs_vals ex_state) (KC [67;46;98]) = Some (val_of ex_state (KC [67;46;98]))) by (vm_compute; reflexivity).
    specialize (H _ _ L). change (lookup_rule ex_d3 (KC [67;46;98])) with (RCommand ex_cb) in H. cbv beta iota in H.
    apply H; reflexivity.
  - exists (write_outputs cat_fn ex_cb (input_contents (bs_world ex_state) (cm_inputs ex_cb)) (cm_outputs ex_cb) 0 (bs_world ex_state)).
    split; [vm_compute; reflexivity|]. vm_compute. split; reflexivity.
Qed.

(* src2 turns from an input into a produced node: its rule changes kind and its producer list is no longer empty *)
Definition ex_cgen : command := mkCmd TShell (ex_def [67;46;103] [ex_src] [ex_src2] [[71]]) [].
Definition ex_d4 : desc := mkDesc [ex_ca; ex_cb; ex_call; ex_cgen] [] [([], [ex_all])].
Example ex_input_becomes_produced :
  node_type ex_src2 = 0 /\ producers ex_d3 ex_src2 = [] /\ producers ex_d4 ex_src2 = [ex_cgen] /\
  lookup_rule ex_d3 (KN ex_src2) = RFileInput ex_src2 /\ lookup_rule ex_d4 (KN ex_src2) = RProduced ex_src2 [ex_cgen].
Proof. vm_compute. repeat split; reflexivity. Qed.

(* combined forms used by the property file *)
Lemma virtual_only_rerun F c ins outs j w e1 w1 e2 w2 :
  outs <> [] -> forallb node_virtual outs = true ->
  write_outputs F c ins outs j w = w /\ command_result e1 w1 outs = command_result e2 w2 outs.
Proof.
  intros Ne Hv. split; [exact (all_virtual_no_write F c ins outs j w Hv) | exact (all_virtual_same_result e1 w1 e2 w2 outs Ne Hv)].
Qed.

Lemma removed_command d w name v :
  find_cmd (d_cmds d) name = None -> lookup_rule d (KC name) = RMissingCommand /\ rule_valid d w (KC name) v = Invalid.
Proof.
  intros H. split; [exact (removed_command_rule d name H) | exact (missing_command_never_valid d w name v H)].
Qed.

(* virtual input nodes: a valid stored value is what the task completes with again *)
Lemma virtual_input_rerun v :
  kind_is v VVirtualInput = true -> bv_infos v = [] -> value_equiv (v_simple VVirtualInput) v = true.
Proof.
  intros K I. apply kind_is_eq in K. unfold value_equiv. rewrite K, I. reflexivity.
Qed.

(* ---------- more non-vacuity: phony / dependents / mkdir / symlink ---------- *)

Example ex_phony_rerun :
  run_external cat_fn 2 (bs_world ex_state) ex_call (Some (val_of ex_state (KC [67;46;97;108;108])))
               [val_of ex_state (KN ex_out); val_of ex_state (KN ex_out2)]
  = Some (bs_world ex_state, command_result 2 (bs_world ex_state) (cm_outputs ex_call), true) /\
  forallb node_virtual (cm_outputs ex_call) = true.
Proof. vm_compute. split; reflexivity. Qed.

Definition ex_world_rerun : world :=
  write_outputs cat_fn ex_cb (input_contents (bs_world ex_state) (cm_inputs ex_cb)) (cm_outputs ex_cb) 0 (bs_world ex_state).

Example ex_dependents_see_change :
  exists a b, result_for_output ex_cb ex_out (val_of ex_state (KC [67;46;98])) = Some a /\
              result_for_output ex_cb ex_out (command_result 2 ex_world_rerun (cm_outputs ex_cb)) = Some b /\
              value_equiv a b = false /\ content_w ex_world_rerun ex_out = content_w (bs_world ex_state) ex_out.
Proof.
  eexists. eexists. split; [vm_compute; reflexivity|]. split; [vm_compute; reflexivity|]. vm_compute. split; reflexivity.
Qed.

Definition ex_dir : path := [100;49].
Definition ex_lnk : path := [108;110;107].
Definition ex_cmk : command := mkCmd TMkdir (ex_def [67;46;109] [] [ex_dir] []) [].
Definition ex_cln : command := mkCmd TSymlink (ex_def [67;46;108] [ex_mid] [ex_lnk] []) ex_mid.
Definition ex_call5 : command := mkCmd TPhony (ex_def [67;46;97;108;108] [ex_out; ex_out2; ex_dir; ex_lnk] [ex_all] []) [].
Definition ex_d5 : desc := mkDesc [ex_ca; ex_cb; ex_cmk; ex_cln; ex_call5] [] [([], [ex_all])].
Definition ex_state5 : bstate :=
  match clean cat_fn ex_d5 ex_sources [] with BOk st => st | _ => mkBS empty_world [] [] end.

Example ex_wf_d5 : wf_desc ex_d5.
Proof.
  unfold wf_desc. split; [|split; [|split]].
  - cbn. repeat (constructor; [cbn; intuition discriminate|]). constructor.
  - intros c [<-|[<-|[<-|[<-|[<-|[]]]]]]; unfold wf_command; cbn; (split; [repeat (constructor; [cbn; intuition discriminate|]); constructor|]);
      (split; [discriminate|]); intros [H|H];
      first [discriminate H | (eexists; split; [reflexivity | split; [reflexivity | discriminate]])].
  - intros c1 c2 o [<-|[<-|[<-|[<-|[<-|[]]]]]] [<-|[<-|[<-|[<-|[<-|[]]]]]] O1 O2; try reflexivity; cbn in O1, O2;
    cbv [ex_mid ex_out ex_out2 ex_all ex_src ex_src2 ex_dir ex_lnk] in O1, O2; exfalso; intuition congruence.
  - intros c o [<-|[<-|[<-|[<-|[<-|[]]]]]] O; cbn in O; intuition (subst; reflexivity).
Qed.

Example ex_clean5_ok : clean cat_fn ex_d5 ex_sources [] = BOk ex_state5.
Proof. vm_compute. reflexivity. Qed.

(* the directory and the link are there, their commands' values are valid; deleting either, or replacing the link,
   is noticed; running mkdir again changes nothing *)
Example ex_mkdir_symlink :
  fi_is_dir (stat_w (bs_world ex_state5) ex_dir) = true /\
  content_w (bs_world ex_state5) ex_lnk = Some ex_mid /\
  cmd_valid ex_d5 (bs_world ex_state5) ex_cmk (val_of ex_state5 (KC [67;46;109])) = Valid /\
  cmd_valid ex_d5 (bs_world ex_state5) ex_cln (val_of ex_state5 (KC [67;46;108])) = Valid /\
  cmd_valid ex_d5 (del (bs_world ex_state5) ex_dir) ex_cmk (val_of ex_state5 (KC [67;46;109])) = Invalid /\
  cmd_valid ex_d5 (del (bs_world ex_state5) ex_lnk) ex_cln (val_of ex_state5 (KC [67;46;108])) = Invalid /\
  cmd_valid ex_d5 (put (bs_world ex_state5) ex_lnk [120] (fresh (bs_world ex_state5) mode_link 1)) ex_cln
            (val_of ex_state5 (KC [67;46;108])) = Invalid /\
  run_external cat_fn 2 (bs_world ex_state5) ex_cmk None []
  = Some (bs_world ex_state5, command_result 2 (bs_world ex_state5) (cm_outputs ex_cmk), true).
Proof. vm_compute. repeat split; reflexivity. Qed.

(* a changed argument list is a changed relevant part (the premise of command_edit_changes_sig is met by the
   signature area's sig_injective under its ideal-hash premise, which its toy hash satisfies) *)
Example ex_changed_args :
  relevant (cm_def ex_cb) <> relevant (ex_def [67;46;98] [ex_mid; ex_src2] [ex_out; ex_out2] [[66;50]]).
Proof. vm_compute. discriminate. Qed.

(* ---------- virtual nodes gaining or losing a producer ---------- *)

(* the rule a virtual node's key resolves to changes kind exactly like a file node's
   (the signature statement input_becomes_produced holds for every node name, virtual ones included) *)
Theorem virtual_becomes_produced_rule d1 d2 n : node_type n = 3 ->
  producers d1 n = [] -> producers d2 n <> [] ->
  lookup_rule d1 (KN n) = RVirtualInput /\ lookup_rule d2 (KN n) = RProduced n (producers d2 n).
Proof.
  intros T P1 P2. unfold lookup_rule, node_virtual. rewrite P1, T. cbn [N.eqb Pos.eqb].
  split; [reflexivity|]. destruct (producers d2 n); [congruence | reflexivity].
Qed.

(* "<all>" without and with its producer: the rule, and the tokens fed to the node's signature, differ *)
Definition ex_d2 : desc := mkDesc [ex_ca; ex_cb] [] [([], [ex_all])].
Example ex_virtual_gains_producer :
  node_type ex_all = 3 /\ producers ex_d2 ex_all = [] /\ producers ex_d3 ex_all = [ex_call] /\
  lookup_rule ex_d2 (KN ex_all) = RVirtualInput /\ lookup_rule ex_d3 (KN ex_all) = RProduced ex_all [ex_call] /\
  node_sig_tokens (node_def ex_d2 ex_all) = [TU64 3] /\
  node_sig_tokens (node_def ex_d3 ex_all) = [TU64 3; TStr [67;46;97;108;108]].
Proof. vm_compute. repeat split; reflexivity. Qed.

(* ---------- a source replaced by another file: the inode is one of the compared fields ---------- *)

Lemma info_eqb_inode a b : info_eqb a b = true -> fi_inode a = fi_inode b.
Proof. intros H. apply info_eqb_true in H. tauto. Qed.

(* same size, same modification time, same device - but another inode: the stored value of the input node is
   no longer valid *)
Corollary source_replaced_detected w w' n v :
  wf_world w -> wf_world w' -> file_valid w n v = true ->
  fi_inode (stat_w w n) <> fi_inode (stat_w w' n) -> file_valid w' n v = false.
Proof.
  intros W W' V D. apply (file_valid_detects w w' n v W W' V).
  destruct (info_eqb (stat_w w n) (stat_w w' n)) eqn:E; [|reflexivity].
  apply info_eqb_inode in E. contradiction.
Qed.

(* src of the example replaced by a file whose stamp differs from the recorded one in the inode only *)
Definition ex_replaced_stamp : fileinfo :=
  let s := stat_w (bs_world ex_state) ex_src in
  mkFI (fi_device s) (fi_inode s + 1000) (fi_mode s) (fi_size s) (fi_sec s) (fi_nsec s) (fi_checksum s).
Example ex_source_replaced :
  let w' := put (bs_world ex_state) ex_src [57] ex_replaced_stamp in
  fi_size (stat_w w' ex_src) = fi_size (stat_w (bs_world ex_state) ex_src) /\
  fi_sec (stat_w w' ex_src) = fi_sec (stat_w (bs_world ex_state) ex_src) /\
  fi_nsec (stat_w w' ex_src) = fi_nsec (stat_w (bs_world ex_state) ex_src) /\
  fi_inode (stat_w w' ex_src) <> fi_inode (stat_w (bs_world ex_state) ex_src) /\
  file_valid (bs_world ex_state) ex_src (val_of ex_state (KN ex_src)) = true /\
  file_valid w' ex_src (val_of ex_state (KN ex_src)) = false.
Proof. vm_compute. repeat split; try reflexivity. discriminate. Qed.
