(* Proofs about the build-system layer (property C08): the rule-level facts the engine theorem needs.
   Only BSys/Sig.v's DEFINITIONS are used from the signature area; its injectivity theorems appear as premises. *)
From LLB Require Import Base.Bytes Base.BytesFacts Codec.Codec Codec.FileObs Codec.FileObsProofs BSys.Sig BSys.RulesBS.
Local Open Scope N_scope.

(* ================================================================================================ *)
(* basic facts                                                                                      *)
(* ================================================================================================ *)

Lemma key_eqb_eq a b : key_eqb a b = true <-> a = b.
Proof.
  destruct a as [x|x|x], b as [y|y|y]; cbn [key_eqb]; try (split; [discriminate | intros H; discriminate]);
    rewrite bytes_eqb_eq; (split; [intros ->; reflexivity | intros H; inversion H; reflexivity]).
Qed.

Lemma key_eqb_refl a : key_eqb a a = true.
Proof. apply key_eqb_eq. reflexivity. Qed.

Lemma key_eqb_neq a b : key_eqb a b = false <-> a <> b.
Proof.
  destruct (key_eqb a b) eqn:E.
  - apply key_eqb_eq in E. split; [discriminate | intros H; contradiction].
  - split; [intros _ H; apply key_eqb_eq in H; congruence | reflexivity].
Qed.

Lemma vtag_inj a b : vtag a = vtag b -> a = b.
Proof. destruct a, b; cbn [vtag]; intros H; try reflexivity; discriminate H. Qed.

Lemma kind_is_eq v k : kind_is v k = true <-> bv_kind v = k.
Proof.
  unfold kind_is. rewrite N.eqb_eq. split; [apply vtag_inj | intros ->; reflexivity].
Qed.

Lemma kind_is_neq v k : kind_is v k = false <-> bv_kind v <> k.
Proof.
  destruct (kind_is v k) eqn:E.
  - apply kind_is_eq in E. split; [discriminate | intros H; contradiction].
  - split; [intros _ H; apply kind_is_eq in H; congruence | reflexivity].
Qed.

(* ---------- FileInfo equality is an equivalence ---------- *)

Lemma info_eqb_intro a b :
  fi_device a = fi_device b -> fi_inode a = fi_inode b -> fi_size a = fi_size b -> fi_sec a = fi_sec b ->
  fi_nsec a = fi_nsec b -> fi_checksum a = fi_checksum b -> is_missing a = is_missing b -> info_eqb a b = true.
Proof.
  intros H1 H2 H3 H4 H5 H6 H7. unfold info_eqb. rewrite H1, H2, H3, H4, H5, H6, H7.
  rewrite !N.eqb_refl, bytes_eqb_refl. cbn. destruct (is_missing b); reflexivity.
Qed.

Lemma info_eqb_sym_true a b : info_eqb a b = true -> info_eqb b a = true.
Proof.
  intros H. apply info_eqb_true in H. destruct H as [H1 [H2 [H3 [H4 [H5 [H6 H7]]]]]].
  apply info_eqb_intro; congruence.
Qed.

Lemma info_eqb_sym a b : info_eqb a b = info_eqb b a.
Proof.
  destruct (info_eqb a b) eqn:E1, (info_eqb b a) eqn:E2; try reflexivity.
  - apply info_eqb_sym_true in E1. congruence.
  - apply info_eqb_sym_true in E2. congruence.
Qed.

Lemma info_eqb_trans a b c : info_eqb a b = true -> info_eqb b c = true -> info_eqb a c = true.
Proof.
  intros H K. apply info_eqb_true in H. apply info_eqb_true in K.
  destruct H as [H1 [H2 [H3 [H4 [H5 [H6 H7]]]]]]. destruct K as [K1 [K2 [K3 [K4 [K5 [K6 K7]]]]]].
  apply info_eqb_intro; congruence.
Qed.

Lemma info_eqb_missing a b : info_eqb a b = true -> is_missing a = is_missing b.
Proof. intros H. apply info_eqb_true in H. tauto. Qed.

Lemma info_eqb_sec a b : info_eqb a b = true -> fi_sec a = fi_sec b.
Proof. intros H. apply info_eqb_true in H. tauto. Qed.

Lemma missing_info_is_missing : is_missing missing_info = true.
Proof. reflexivity. Qed.

Lemma infos_equiv_refl l : infos_equiv l l = true.
Proof. induction l as [|x l IH]; cbn [infos_equiv]; [reflexivity|]. rewrite info_eqb_refl, IH. reflexivity. Qed.

Lemma value_equiv_refl v : value_equiv v v = true.
Proof. unfold value_equiv. rewrite N.eqb_refl, infos_equiv_refl. reflexivity. Qed.

(* ---------- the world ---------- *)

Lemma fresh_not_missing w m s : is_missing (fresh w m s) = false.
Proof. reflexivity. Qed.

Lemma fresh_sec w m s : fi_sec (fresh w m s) = w_clock w.
Proof. reflexivity. Qed.

Lemma put_fs_same w p c s : w_fs (put w p c s) p = Some (c, s).
Proof. unfold put. cbn [w_fs]. rewrite bytes_eqb_refl. reflexivity. Qed.

Lemma put_fs_other w p c s q : q <> p -> w_fs (put w p c s) q = w_fs w q.
Proof. intros H. unfold put. cbn [w_fs]. apply bytes_eqb_neq in H. rewrite H. reflexivity. Qed.

Lemma put_clock w p c s : w_clock (put w p c s) = N.max (w_clock w) (fi_sec s) + 1.
Proof. reflexivity. Qed.

Lemma stat_put_same w p c s : stat_w (put w p c s) p = s.
Proof. unfold stat_w. rewrite put_fs_same. reflexivity. Qed.

Lemma stat_put_other w p c s q : q <> p -> stat_w (put w p c s) q = stat_w w q.
Proof. intros H. unfold stat_w. rewrite put_fs_other by assumption. reflexivity. Qed.

Lemma content_put_same w p c s : content_w (put w p c s) p = Some c.
Proof. unfold content_w. rewrite put_fs_same. reflexivity. Qed.

Lemma content_put_other w p c s q : q <> p -> content_w (put w p c s) q = content_w w q.
Proof. intros H. unfold content_w. rewrite put_fs_other by assumption. reflexivity. Qed.

Lemma del_fs_same w p : w_fs (del w p) p = None.
Proof. unfold del. cbn [w_fs]. rewrite bytes_eqb_refl. reflexivity. Qed.

Lemma del_fs_other w p q : q <> p -> w_fs (del w p) q = w_fs w q.
Proof. intros H. unfold del. cbn [w_fs]. apply bytes_eqb_neq in H. rewrite H. reflexivity. Qed.

Lemma wf_put w p c s : wf_world w -> is_missing s = false -> wf_world (put w p c s).
Proof.
  intros W M q c' s' H. rewrite put_clock.
  destruct (bytes_eqb q p) eqn:E.
  - apply bytes_eqb_eq in E. subst q. rewrite put_fs_same in H. inversion H. subst c' s'. split; [exact M | lia].
  - apply bytes_eqb_neq in E. rewrite put_fs_other in H by assumption. destruct (W q c' s' H) as [A B]. split; [exact A | lia].
Qed.

Lemma wf_write_fresh w p m c : wf_world w -> wf_world (write_fresh w p m c).
Proof. intros W. unfold write_fresh. apply wf_put; [exact W | apply fresh_not_missing]. Qed.

Lemma wf_del w p : wf_world w -> wf_world (del w p).
Proof.
  intros W q c s H. unfold del in *. cbn [w_fs w_clock] in *.
  destruct (bytes_eqb q p); [discriminate | exact (W q c s H)].
Qed.

Lemma wf_empty_world : wf_world empty_world.
Proof. intros p c s H. discriminate H. Qed.

Lemma write_fresh_clock w p m c : w_clock (write_fresh w p m c) = w_clock w + 1.
Proof. unfold write_fresh. rewrite put_clock, fresh_sec. lia. Qed.

Lemma stat_missing_iff w p : wf_world w -> (is_missing (stat_w w p) = true <-> w_fs w p = None).
Proof.
  intros W. unfold stat_w. destruct (w_fs w p) as [[c s]|] eqn:E.
  - destruct (W p c s E) as [A _]. rewrite A. split; discriminate.
  - split; reflexivity.
Qed.

Lemma stat_sec_lt w p : wf_world w -> is_missing (stat_w w p) = false -> fi_sec (stat_w w p) < w_clock w.
Proof.
  intros W. unfold stat_w. destruct (w_fs w p) as [[c s]|] eqn:E.
  - intros _. exact (proj2 (W p c s E)).
  - rewrite missing_info_is_missing. discriminate.
Qed.

(* a stamp at or above the clock differs from the stamp of every path: "strictly newer than all existing" *)
Lemma observable_differs w p s : wf_world w -> observable w s -> info_eqb (stat_w w p) s = false.
Proof.
  intros W [M C]. destruct (info_eqb (stat_w w p) s) eqn:E; [exfalso|reflexivity].
  pose proof (info_eqb_missing _ _ E) as Hm. rewrite M in Hm.
  pose proof (stat_sec_lt w p W Hm) as Hl. apply info_eqb_sec in E. lia.
Qed.

Lemma fresh_observable w m s : observable w (fresh w m s).
Proof. split; [apply fresh_not_missing | rewrite fresh_sec; lia]. Qed.

(* ================================================================================================ *)
(* c08_source_edit_detected                                                                         *)
(* ================================================================================================ *)

(* the general form: any change of the fields FileInfo::operator== compares (including appearance and
   disappearance) invalidates the stored value of the input node *)
Theorem file_valid_detects w w' n v :
  wf_world w -> wf_world w' -> file_valid w n v = true ->
  info_eqb (stat_w w n) (stat_w w' n) = false -> file_valid w' n v = false.
Proof.
  intros W W' V D. unfold file_valid in *.
  destruct (is_missing (stat_w w n)) eqn:M; destruct (is_missing (stat_w w' n)) eqn:M'.
  - exfalso. apply (stat_missing_iff w n W) in M. apply (stat_missing_iff w' n W') in M'.
    unfold stat_w in D. rewrite M, M' in D. rewrite info_eqb_refl in D. discriminate.
  - apply kind_is_eq in V. apply andb_false_iff. left. apply kind_is_neq. rewrite V. discriminate.
  - apply andb_true_iff in V. destruct V as [V _]. apply kind_is_eq in V. apply kind_is_neq. rewrite V. discriminate.
  - apply andb_true_iff in V. destruct V as [Vk Vi]. apply andb_false_iff. right.
    destruct (info_eqb (first_info v) (stat_w w' n)) eqn:E; [exfalso|reflexivity].
    apply info_eqb_sym_true in Vi. rewrite (info_eqb_trans _ _ _ Vi E) in D. discriminate.
Qed.

(* an observable edit: new content with a stamp not older than the clock *)
Theorem source_edit_detected w n v c s :
  wf_world w -> observable w s -> file_valid w n v = true -> file_valid (put w n c s) n v = false.
Proof.
  intros W O V. apply (file_valid_detects w (put w n c s) n v W); [apply wf_put; [exact W | exact (proj1 O)] | exact V |].
  rewrite stat_put_same. apply observable_differs; assumption.
Qed.

(* deleting a source that existed *)
Theorem source_delete_detected w n v :
  wf_world w -> is_missing (stat_w w n) = false -> file_valid w n v = true -> file_valid (del w n) n v = false.
Proof.
  intros W M V. apply (file_valid_detects w (del w n) n v W (wf_del w n W) V).
  destruct (info_eqb (stat_w w n) (stat_w (del w n) n)) eqn:E; [exfalso|reflexivity].
  apply info_eqb_missing in E. unfold stat_w at 2 in E. rewrite del_fs_same, missing_info_is_missing in E. congruence.
Qed.

(* an untouched source stays valid, whatever happens to other paths *)
Theorem file_valid_frame w w' n v : w_fs w' n = w_fs w n -> file_valid w' n v = file_valid w n v.
Proof. intros H. unfold file_valid, stat_w. rewrite H. reflexivity. Qed.

(* what the task records is valid in the world it observed *)
Lemma file_valid_run w n : file_valid w n (run_file_input w n) = true.
Proof.
  unfold file_valid, run_file_input. destruct (is_missing (stat_w w n)) eqn:M; [reflexivity|].
  unfold first_info, v_existing, kind_is. cbn. apply info_eqb_refl.
Qed.

(* ================================================================================================ *)
(* c08_tamper_detected                                                                              *)
(* ================================================================================================ *)

Lemma onodes_cons d w x outs :
  onodes d w (x :: outs) =
  mkOnode (node_virtual x) (is_mutated d x) (if node_virtual x then missing_info else stat_w w x) :: onodes d w outs.
Proof. reflexivity. Qed.

Lemma outputs_valid_cons o outs stored :
  outputs_valid (o :: outs) stored =
  if on_virtual o then outputs_valid outs (tl stored)
  else match stored with
       | [] => OverRead
       | s :: stored' => if output_matches o s then outputs_valid outs stored' else Invalid
       end.
Proof. reflexivity. Qed.

(* the change of one output that the code notices: the compared fields differ, and for a node declared
   is-mutated (only existence is compared) the existence changed *)
Definition tampered (d : desc) (w w' : world) (o : path) : Prop :=
  info_eqb (stat_w w o) (stat_w w' o) = false /\
  (is_mutated d o = true -> is_missing (stat_w w o) <> is_missing (stat_w w' o)).

Lemma tampered_no_match d w w' o s :
  tampered d w w' o ->
  output_matches (mkOnode false (is_mutated d o) (stat_w w o)) s = true ->
  output_matches (mkOnode false (is_mutated d o) (stat_w w' o)) s = false.
Proof.
  intros [T1 T2]. unfold output_matches. cbn [on_mutated on_current].
  destruct (is_mutated d o) eqn:Mu.
  - intros H. apply Bool.eqb_prop in H. specialize (T2 eq_refl).
    destruct (Bool.eqb (is_missing s) (is_missing (stat_w w' o))) eqn:E; [|reflexivity].
    apply Bool.eqb_prop in E. congruence.
  - intros H. destruct (info_eqb s (stat_w w' o)) eqn:E; [|reflexivity].
    apply info_eqb_sym_true in H. rewrite (info_eqb_trans _ _ _ H E) in T1. discriminate.
Qed.

Lemma outputs_valid_tamper d w w' o outs : forall stored,
  outputs_valid (onodes d w outs) stored = Valid ->
  In o outs -> node_virtual o = false -> tampered d w w' o ->
  outputs_valid (onodes d w' outs) stored = Invalid.
Proof.
  induction outs as [|x outs IH]; intros stored V I NV T; [destruct I|].
  rewrite onodes_cons, outputs_valid_cons in V |- *. cbn [on_virtual] in V |- *.
  destruct (node_virtual x) eqn:Vx.
  - destruct I as [I|I]; [subst x; congruence|]. apply IH; assumption.
  - destruct stored as [|s stored]; [discriminate V|].
    destruct (output_matches (mkOnode false (is_mutated d x) (stat_w w x)) s) eqn:Mx; [|discriminate V].
    destruct (output_matches (mkOnode false (is_mutated d x) (stat_w w' x)) s) eqn:Mx'; [|reflexivity].
    destruct (bytes_eqb x o) eqn:Exo.
    + apply bytes_eqb_eq in Exo. subst x. rewrite (tampered_no_match d w w' o s T Mx) in Mx'. discriminate.
    + apply bytes_eqb_neq in Exo. destruct I as [I|I]; [contradiction|]. apply IH; assumption.
Qed.

(* deleting or overwriting (with a different stamp) any non-virtual output of a command whose stored value is
   valid makes the stored value invalid.  Shell and phony commands compare every output; mkdir only asks for a
   directory at its first output (by design, see the FIXME in the code); symlink compares the link's own stamp *)
Theorem tamper_detected d w w' c v o :
  cmd_valid d w c v = Valid -> In o (cm_outputs c) -> node_virtual o = false ->
  match cm_tool c with
  | TShell | TPhony => tampered d w w' o
  | TMkdir => o = hd [] (cm_outputs c) /\ (is_missing (stat_w w' o) = true \/ fi_is_dir (stat_w w' o) = false)
  | TSymlink => o = hd [] (cm_outputs c) /\ info_eqb (stat_w w o) (stat_w w' o) = false
  end ->
  cmd_valid d w' c v = Invalid.
Proof.
  intros V I NV T. unfold cmd_valid in *.
  assert (Hext : tampered d w w' o ->
                 is_result_valid (c_always_out_of_date (cm_def c)) v (onodes d w (cm_outputs c)) = Valid ->
                 is_result_valid (c_always_out_of_date (cm_def c)) v (onodes d w' (cm_outputs c)) = Invalid).
  { intros T' V'. unfold is_result_valid in *.
    destruct (c_always_out_of_date (cm_def c)); [discriminate V'|].
    destruct (negb (is_successful (bv_kind v))); [discriminate V'|].
    apply (outputs_valid_tamper d w w' o); assumption. }
  destruct (cm_tool c).
  - apply Hext; assumption.
  - apply Hext; assumption.
  - destruct T as [Ho T]. unfold mkdir_valid in *.
    destruct (negb (is_successful (bv_kind v))); [reflexivity|].
    destruct (cm_outputs c) as [|x outs]; [destruct I|]. cbn [hd] in Ho. subst x.
    destruct T as [T|T]; rewrite T; [reflexivity|]. destruct (is_missing (stat_w w' o)); reflexivity.
  - destruct T as [Ho T]. unfold symlink_valid in *.
    destruct (cm_outputs c) as [|x outs]; [destruct I|]. cbn [hd] in Ho. subst x.
    destruct (is_nil o); [reflexivity|].
    destruct (negb (is_successful (bv_kind v))); [reflexivity|].
    destruct (negb (Nat.eqb (length (bv_infos v)) 1)); [reflexivity|].
    destruct (is_missing (stat_w w o)); [discriminate V|].
    destruct (is_missing (stat_w w' o)); [reflexivity|].
    destruct (info_eqb (stat_w w o) (first_info v)) eqn:E; [|discriminate V].
    destruct (info_eqb (stat_w w' o) (first_info v)) eqn:E'; [exfalso|reflexivity].
    apply info_eqb_sym_true in E'. rewrite (info_eqb_trans _ _ _ E E') in T. discriminate.
Qed.

(* the two tamperings of the property text, for a non-mutated output of a shell or phony command *)
Corollary tamper_overwrite d w o content s :
  wf_world w -> observable w s -> is_mutated d o = false ->
  tampered d w (put w o content s) o.
Proof.
  intros W O Mu. split; [|congruence]. rewrite stat_put_same. apply observable_differs; assumption.
Qed.

Corollary tamper_delete d w o :
  is_missing (stat_w w o) = false -> tampered d w (del w o) o.
Proof.
  intros M. assert (Hd : stat_w (del w o) o = missing_info) by (unfold stat_w; rewrite del_fs_same; reflexivity).
  unfold tampered. rewrite Hd. split.
  - destruct (info_eqb (stat_w w o) missing_info) eqn:E; [|reflexivity].
    apply info_eqb_missing in E. rewrite missing_info_is_missing in E. congruence.
  - intros _. rewrite missing_info_is_missing. congruence.
Qed.

(* by design: overwriting an output declared is-mutated is NOT noticed (only its existence is compared) *)
Lemma mutated_overwrite_unnoticed d w o s stored :
  is_mutated d o = true -> is_missing s = false -> is_missing (stat_w w o) = false ->
  output_matches (mkOnode false (is_mutated d o) (stat_w w o)) stored = true ->
  output_matches (mkOnode false (is_mutated d o) s) stored = true.
Proof.
  intros Mu Ms Mw. unfold output_matches. cbn [on_mutated on_current]. rewrite Mu, Ms, Mw. tauto.
Qed.
