(* P19 - part 5: sums over the rule / task tables, and the invariant of the engine loop (definition and basic consequences). *)
From LLB Require Import Engine.Rules Engine.Spec Engine.Impl Engine.ImplProofs Engine.ImplProofsSticky.
From Coq Require Import Arith Lia.
Local Open Scope N_scope.

(* ---------- asum ---------- *)
Lemma asum_aset {A} (g : A -> nat) m k a :
  (asum g (aset m k a) + match aget m k with Some o => g o | None => 0 end = asum g m + g a)%nat.
Proof.
  induction m as [|[k0 a0] t IH]; cbn [aset aget asum snd]; [lia|].
  destruct (N.eqb k k0); cbn [asum snd]; lia.
Qed.

Lemma asum_adel {A} (g : A -> nat) m k : NoDup (map fst m) ->
  (asum g (adel m k) + match aget m k with Some o => g o | None => 0 end = asum g m)%nat.
Proof.
  induction m as [|[k0 a0] t IH]; cbn [adel aget asum snd map fst]; intros Hnd; [lia|].
  inversion Hnd as [|x l Hni Hnd']. subst. destruct (N.eqb k k0) eqn:E.
  - apply N.eqb_eq in E. subst k0. specialize (IH Hnd').
    destruct (aget t k) eqn:E2; [|lia]. apply aget_in in E2. exfalso. apply Hni. change k with (fst (k, a)). now apply in_map.
  - cbn [asum snd]. specialize (IH Hnd'). lia.
Qed.

Lemma asum_ext {A} (g h : A -> nat) m : (forall a, g a = h a) -> asum g m = asum h m.
Proof. intros H. induction m as [|e t IH]; cbn [asum]; auto; try now rewrite H, IH. Qed.

Lemma asum_zero {A} (g : A -> nat) m : (forall k a, In (k, a) m -> g a = 0%nat) -> asum g m = 0%nat.
Proof.
  induction m as [|[k a] t IH]; cbn [asum snd]; auto. intros H. rewrite (H k a), IH; auto.
  - intros; eapply H; right; eauto.
  - now left.
Qed.

Lemma asum_pos {A} (g : A -> nat) m : (0 < asum g m)%nat -> exists k a, In (k, a) m /\ (0 < g a)%nat.
Proof.
  induction m as [|[k a] t IH]; cbn [asum snd]; [lia|]. intros H.
  destruct (Nat.eq_dec (g a) 0) as [E|E].
  - destruct IH as (k' & a' & Hin & Hp); [lia|]. exists k', a'. split; auto. now right.
  - exists k, a. split; [now left|lia].
Qed.

Lemma asum_in_le {A} (g : A -> nat) m k a : In (k, a) m -> (g a <= asum g m)%nat.
Proof.
  induction m as [|[k0 a0] t IH]; cbn [asum snd In]; [tauto|]. intros [H|H].
  - inversion H. subst. lia.
  - specialize (IH H). lia.
Qed.

(* ---------- rule table ---------- *)
Lemma rinfo_of_some s k ri : aget (is_rules s) k = Some ri -> rinfo_of s k = ri.
Proof. unfold rinfo_of. now intros ->. Qed.
Lemma rinfo_of_none s k : aget (is_rules s) k = None -> exists r, rinfo_of s k = new_rinfo r.
Proof. unfold rinfo_of. intros ->. eauto. Qed.

Lemma asum_rules_set_ri (g : rinfo -> nat) s k ri' : (forall r, g (new_rinfo r) = 0%nat) ->
  (asum g (is_rules (set_ri s k ri')) + g (rinfo_of s k) = asum g (is_rules s) + g ri')%nat.
Proof.
  intros Hz. cbn [set_ri is_rules upd_rules]. pose proof (asum_aset g (is_rules s) k ri') as H.
  unfold rinfo_of. destruct (aget (is_rules s) k); [exact H|]. rewrite Hz. exact H.
Qed.

Lemma asum_rules_touch (g : rinfo -> nat) s k : (forall r, g (new_rinfo r) = 0%nat) -> asum g (is_rules (touch s k)) = asum g (is_rules s).
Proof.
  intros Hz. unfold touch. destruct (aget (is_rules s) k) eqn:E; auto.
  cbn [is_rules upd_rules]. pose proof (asum_aset g (is_rules s) k (rinfo_of s k)) as H. rewrite E in H.
  destruct (rinfo_of_none s k E) as [r Hr]. rewrite Hr, Hz in H. rewrite Hr. lia.
Qed.

Lemma asum_rules_mod_ri (g : rinfo -> nat) s k f : (forall r, g (new_rinfo r) = 0%nat) ->
  (asum g (is_rules (mod_ri s k f)) + g (rinfo_of s k) = asum g (is_rules s) + g (f (rinfo_of s k)))%nat.
Proof. intros Hz. unfold mod_ri. now apply asum_rules_set_ri. Qed.

Lemma nodup_rules_set_ri s k ri : NoDup (map fst (is_rules s)) -> NoDup (map fst (is_rules (set_ri s k ri))).
Proof. cbn [set_ri is_rules upd_rules]. apply nodup_aset. Qed.
Lemma nodup_rules_touch s k : NoDup (map fst (is_rules s)) -> NoDup (map fst (is_rules (touch s k))).
Proof. unfold touch. destruct (aget _ _); auto. cbn [is_rules upd_rules]. apply nodup_aset. Qed.

(* ---------- the invariant ----------
   It is stated for states INSIDE a step as well: [cx_fi]/[cx_fs] are the requests the running step has taken off a queue and
   not yet put anywhere, [cx_ex] is the task that is being started (its start() is running: waitCount may be 0 without the
   task being queued as ready), [cx_slack] is 1 between setComputing and ++numOutstandingUnfinishedTasks. *)
Record ctx := mkCtx { cx_fi : list ireq; cx_fs : list sreq; cx_ex : option key; cx_slack : nat }.
Definition ctx0 : ctx := mkCtx [] [] None 0.

Definition n_computing (s : istate) : nat :=
  length (filter (fun e => kind_eqb (kind_of s (fst e)) KComputing) (is_tasks s)).

(* tasks, their rule's state kind, the ready / finished queues *)
Record InvT (c : ctx) (s : istate) : Prop := {
  t_nd_rules : NoDup (map fst (is_rules s));
  t_nd_tasks : NoDup (map fst (is_tasks s));
  t_nd_ready : NoDup (is_ready s);
  t_nd_fin : NoDup (is_fintasks s);
  t_tk : forall t, aget (is_tasks s) t <> None <-> is_in_progress s t = true;
  t_cw : forall t ti, aget (is_tasks s) t = Some ti -> kind_of s t = KComputing -> ti_wait ti = 0%nat;
  t_rd1 : forall t, In t (is_ready s) -> exists ti, aget (is_tasks s) t = Some ti /\ kind_of s t = KWaiting /\ ti_wait ti = 0%nat;
  t_rd2 : forall t ti, aget (is_tasks s) t = Some ti -> kind_of s t = KWaiting -> ti_wait ti = 0%nat -> In t (is_ready s) \/ cx_ex c = Some t;
  t_ft : forall t, In t (is_fintasks s) -> exists ti, aget (is_tasks s) t = Some ti /\ kind_of s t = KComputing /\ ti_pending ti = None;
  t_pd : forall t ti, aget (is_tasks s) t = Some ti -> ti_pending ti <> None -> kind_of s t = KComputing /\ ~ In t (is_fintasks s);
  t_out : (is_outstanding s + cx_slack c = n_computing s)%nat
}.

(* input requests *)
Definition ireq_ok (rules : key -> rule) (s : istate) (rq : ireq) : Prop :=
  forall t, iq_task rq = Some t -> aget (is_tasks s) t <> None /\ In (iq_input rq) (requestable (rules t)).
Record InvI (rules : key -> rule) (c : ctx) (s : istate) : Prop := {
  i_wc : forall t ti, aget (is_tasks s) t = Some ti -> ti_wait ti = (cnt_i t (cx_fi c) + outstanding_count s t)%nat;
  i_ok_fi : Forall (ireq_ok rules s) (cx_fi c);
  i_ok_in : Forall (ireq_ok rules s) (is_inreq s);
  i_ok_paused : forall k, Forall (ireq_ok rules s) (ri_paused (rinfo_of s k));
  i_ok_reqby : forall t ti, aget (is_tasks s) t = Some ti -> Forall (ireq_ok rules s) (ti_reqby ti);
  i_ok_fin : Forall (ireq_ok rules s) (is_fininreq s);
  i_hyg : forall k, kind_of s k <> KScanning -> ri_paused (rinfo_of s k) = [];
  i_pl_paused : forall k rq, In rq (ri_paused (rinfo_of s k)) -> iq_input rq = k;
  i_pl_reqby : forall t ti rq, aget (is_tasks s) t = Some ti -> In rq (ti_reqby ti) -> iq_input rq = t /\ iq_task rq <> None;
  i_fin_nd : forall rq, In rq (is_fininreq s) -> iq_task rq <> None
}.

(* scan requests *)
Definition sreq_ok (s : istate) (rq : sreq) : Prop :=
  kind_of s (sq_rule rq) = KScanning /\
  (sq_index rq < length (res_deps (res_of s (sq_rule rq))))%nat /\
  forall i, sq_input rq = Some i -> exists d, nth_error (res_deps (res_of s (sq_rule rq))) (sq_index rq) = Some d /\ d_key d = i.
Record InvS (c : ctx) (s : istate) : Prop := {
  s_cnt : forall k, (cnt_s k (cx_fs c) + scan_count s k = if kind_eqb (kind_of s k) KScanning then 1 else 0)%nat;
  s_ok_fs : Forall (sreq_ok s) (cx_fs c);
  s_ok_toscan : Forall (sreq_ok s) (is_toscan s);
  s_ok_rdef : forall k, Forall (sreq_ok s) (ri_deferred (rinfo_of s k));
  s_ok_tdef : forall t ti, aget (is_tasks s) t = Some ti -> Forall (sreq_ok s) (ti_deferred ti);
  s_hyg : forall k, kind_of s k <> KScanning -> ri_deferred (rinfo_of s k) = [];
  s_pl_rdef : forall k rq, In rq (ri_deferred (rinfo_of s k)) -> sq_input rq = Some k;
  s_pl_tdef : forall t ti rq, aget (is_tasks s) t = Some ti -> In rq (ti_deferred ti) -> sq_input rq = Some t
}.

Definition Inv (rules : key -> rule) (c : ctx) (s : istate) : Prop := nf s /\ InvT c s /\ InvI rules c s /\ InvS c s.

(* ---------- frame lemmas: each part of the invariant depends on a few views of the state only ---------- *)
Lemma in_progress_iff s t : is_in_progress s t = true <-> kind_of s t = KWaiting \/ kind_of s t = KComputing.
Proof. unfold is_in_progress. destruct (kind_of s t); split; intros H; try discriminate; auto; destruct H; discriminate. Qed.

Lemma kind_eqb_iff (a b c : kind) : (a = c <-> b = c) -> kind_eqb a c = kind_eqb b c.
Proof.
  intros H. destruct (kind_eqb a c) eqn:E1, (kind_eqb b c) eqn:E2; auto.
  - apply kind_eqb_eq in E1. apply H in E1. apply kind_eqb_neq in E2. contradiction.
  - apply kind_eqb_eq in E2. apply H in E2. apply kind_eqb_neq in E1. contradiction.
Qed.

(* InvT looks at the state kinds only through "is InProgressWaiting" and "is InProgressComputing" *)
Lemma InvT_frame_k c s s' :
  NoDup (map fst (is_rules s')) ->
  (forall k, kind_of s' k = KWaiting <-> kind_of s k = KWaiting) -> (forall k, kind_of s' k = KComputing <-> kind_of s k = KComputing) ->
  is_tasks s' = is_tasks s -> is_ready s' = is_ready s -> is_fintasks s' = is_fintasks s -> is_outstanding s' = is_outstanding s ->
  InvT c s -> InvT c s'.
Proof.
  intros Hnd Hw Hc Ht Hr Hf Ho [A1 A2 A3 A4 A5 A6 A7 A8 A9 A10 A11].
  constructor; rewrite ?Ht, ?Hr, ?Hf, ?Ho; auto.
  - intros t. split; intros H.
    + apply in_progress_iff. apply A5, in_progress_iff in H. destruct H as [H|H]; [left; now apply Hw|right; now apply Hc].
    + apply A5, in_progress_iff. apply in_progress_iff in H. destruct H as [H|H]; [left; now apply Hw|right; now apply Hc].
  - intros t ti Hg Hk. apply Hc in Hk. eapply A6; eauto.
  - intros t Hin. destruct (A7 t Hin) as (ti & Hg & Hk & Hw0). exists ti. repeat split; auto. now apply Hw.
  - intros t ti Hg Hk. apply Hw in Hk. eapply A8; eauto.
  - intros t Hin. destruct (A9 t Hin) as (ti & Hg & Hk & Hp0). exists ti. repeat split; auto. now apply Hc.
  - intros t ti Hg Hp. destruct (A10 t ti Hg Hp) as [H1 H2]. split; auto. now apply Hc.
  - rewrite A11. unfold n_computing. rewrite Ht. f_equal. apply filter_ext. intros e. apply kind_eqb_iff. symmetry. apply Hc.
Qed.

Lemma InvT_frame c s s' :
  NoDup (map fst (is_rules s')) -> (forall k, kind_of s' k = kind_of s k) -> is_tasks s' = is_tasks s ->
  is_ready s' = is_ready s -> is_fintasks s' = is_fintasks s -> is_outstanding s' = is_outstanding s ->
  InvT c s -> InvT c s'.
Proof. intros Hnd Hk. apply InvT_frame_k; auto; intros k; now rewrite Hk. Qed.

Lemma n_computing_frame s s' : (forall k, kind_of s' k = kind_of s k) -> is_tasks s' = is_tasks s -> n_computing s' = n_computing s.
Proof.
  intros Hk Ht. unfold n_computing. rewrite Ht. f_equal. apply filter_ext. intros e. now rewrite Hk.
Qed.

Lemma ireq_ok_frame rules s s' rq : is_tasks s' = is_tasks s -> ireq_ok rules s rq -> ireq_ok rules s' rq.
Proof. unfold ireq_ok. now intros ->. Qed.

(* InvI and InvS look at the state kinds only through "is IsScanning" *)
Lemma InvI_frame_k rules c s s' :
  (forall k, kind_of s k = KScanning -> kind_of s' k = KScanning) -> (forall k, ri_paused (rinfo_of s' k) = ri_paused (rinfo_of s k)) ->
  (forall t, asum (fun ri => cnt_i t (ri_paused ri)) (is_rules s') = asum (fun ri => cnt_i t (ri_paused ri)) (is_rules s)) ->
  is_tasks s' = is_tasks s -> is_inreq s' = is_inreq s -> is_fininreq s' = is_fininreq s ->
  InvI rules c s -> InvI rules c s'.
Proof.
  intros Hk Hp Hs Ht Hi Hf [B1 B2 B3 B4 B5 B6 B7 B8 B9 B10].
  assert (Hok : forall rq, ireq_ok rules s rq -> ireq_ok rules s' rq) by (intros; eapply ireq_ok_frame; eauto).
  constructor; rewrite ?Ht, ?Hi, ?Hf; auto.
  - intros t ti Hg. rewrite (B1 t ti Hg). unfold outstanding_count. now rewrite Hs, Ht, Hi, Hf.
  - eapply Forall_impl; [apply Hok|auto].
  - eapply Forall_impl; [apply Hok|auto].
  - intros k. rewrite Hp. eapply Forall_impl; [apply Hok|auto].
  - intros t ti Hg. eapply Forall_impl; [apply Hok|eauto].
  - eapply Forall_impl; [apply Hok|auto].
  - intros k Hns. rewrite Hp. apply B7. intros Hc. apply Hns. now apply Hk.
  - intros k rq. rewrite Hp. apply B8.
Qed.

Lemma InvI_frame rules c s s' :
  (forall k, kind_of s' k = kind_of s k) -> (forall k, ri_paused (rinfo_of s' k) = ri_paused (rinfo_of s k)) ->
  (forall t, asum (fun ri => cnt_i t (ri_paused ri)) (is_rules s') = asum (fun ri => cnt_i t (ri_paused ri)) (is_rules s)) ->
  is_tasks s' = is_tasks s -> is_inreq s' = is_inreq s -> is_fininreq s' = is_fininreq s ->
  InvI rules c s -> InvI rules c s'.
Proof. intros Hk. apply InvI_frame_k. intros k. now rewrite Hk. Qed.

Lemma sreq_ok_frame_k s s' rq :
  (forall k, kind_of s' k = KScanning <-> kind_of s k = KScanning) -> (forall k, kind_of s k = KScanning -> res_deps (res_of s' k) = res_deps (res_of s k)) ->
  sreq_ok s rq -> sreq_ok s' rq.
Proof. unfold sreq_ok. intros Hk Hd (H1 & H2 & H3). rewrite (Hd _ H1). split; [now apply Hk|auto]. Qed.

Lemma InvS_frame_k c s s' :
  (forall k, kind_of s' k = KScanning <-> kind_of s k = KScanning) -> (forall k, kind_of s k = KScanning -> res_deps (res_of s' k) = res_deps (res_of s k)) ->
  (forall k, ri_deferred (rinfo_of s' k) = ri_deferred (rinfo_of s k)) ->
  (forall t, asum (fun ri => cnt_s t (ri_deferred ri)) (is_rules s') = asum (fun ri => cnt_s t (ri_deferred ri)) (is_rules s)) ->
  is_tasks s' = is_tasks s -> is_toscan s' = is_toscan s ->
  InvS c s -> InvS c s'.
Proof.
  intros Hk Hd Hp Hs Ht Hq [C1 C2 C3 C4 C5 C6 C7 C8].
  assert (Hok : forall rq, sreq_ok s rq -> sreq_ok s' rq) by (intros; eapply sreq_ok_frame_k; eauto).
  constructor; rewrite ?Ht, ?Hq; auto.
  - intros k. rewrite (kind_eqb_iff _ _ _ (Hk k)), <- C1. unfold scan_count. now rewrite Hs, Ht, Hq.
  - eapply Forall_impl; [apply Hok|auto].
  - eapply Forall_impl; [apply Hok|auto].
  - intros k. rewrite Hp. eapply Forall_impl; [apply Hok|auto].
  - intros t ti Hg. eapply Forall_impl; [apply Hok|eauto].
  - intros k Hns. rewrite Hp. apply C6. intros Hc. apply Hns. now apply Hk.
  - intros k rq. rewrite Hp. apply C7.
Qed.

Lemma InvS_frame c s s' :
  (forall k, kind_of s' k = kind_of s k) -> (forall k, kind_of s k = KScanning -> res_deps (res_of s' k) = res_deps (res_of s k)) ->
  (forall k, ri_deferred (rinfo_of s' k) = ri_deferred (rinfo_of s k)) ->
  (forall t, asum (fun ri => cnt_s t (ri_deferred ri)) (is_rules s') = asum (fun ri => cnt_s t (ri_deferred ri)) (is_rules s)) ->
  is_tasks s' = is_tasks s -> is_toscan s' = is_toscan s ->
  InvS c s -> InvS c s'.
Proof. intros Hk. apply InvS_frame_k. intros k. now rewrite Hk. Qed.

Lemma kind_of_rinfo s s' k : rinfo_of s' k = rinfo_of s k -> kind_of s' k = kind_of s k.
Proof. unfold kind_of. now intros ->. Qed.
Lemma res_of_rinfo s s' k : rinfo_of s' k = rinfo_of s k -> res_of s' k = res_of s k.
Proof. unfold res_of. now intros ->. Qed.

(* nothing but the log, the database or the fault flag changes; rules may have been looked up *)
Lemma Inv_frame rules c s s' :
  nf s' -> NoDup (map fst (is_rules s')) -> (forall k, rinfo_of s' k = rinfo_of s k) ->
  (forall g : rinfo -> nat, (forall r, g (new_rinfo r) = 0%nat) -> asum g (is_rules s') = asum g (is_rules s)) ->
  is_tasks s' = is_tasks s -> is_toscan s' = is_toscan s -> is_inreq s' = is_inreq s -> is_fininreq s' = is_fininreq s ->
  is_ready s' = is_ready s -> is_fintasks s' = is_fintasks s -> is_outstanding s' = is_outstanding s ->
  Inv rules c s -> Inv rules c s'.
Proof.
  intros Hn Hnd Hr Hs Ht Hq Hi Hf Hrd Hft Ho (_ & HT & HI & HS).
  assert (Hk : forall k, kind_of s' k = kind_of s k) by (intros; now apply kind_of_rinfo).
  split; [auto|]. split; [|split].
  - eapply InvT_frame; eauto.
  - eapply InvI_frame; eauto; intros; try (now rewrite Hr); try (now apply Hs).
  - eapply InvS_frame; eauto; intros; try (now rewrite Hr); try (now apply Hs); try (now rewrite (res_of_rinfo s s' _ (Hr _))).
Qed.

Lemma Inv_nf rules c s : Inv rules c s -> nf s. Proof. now intros [H _]. Qed.

Lemma Inv_touch rules c s k : Inv rules c s -> Inv rules c (touch s k).
Proof.
  intros H. pose proof H as (Hn & HT & _). apply (Inv_frame rules c s); auto; try (now autorewrite with iv).
  - now apply nf_touch.
  - apply nodup_rules_touch, HT.
  - intros k'. now autorewrite with iv.
  - intros g Hg. now apply asum_rules_touch.
Qed.

Lemma Inv_iemit rules c s e : Inv rules c s -> Inv rules c (iemit s e).
Proof.
  intros H. pose proof H as (Hn & HT & _).
  apply (Inv_frame rules c s); auto; try (now autorewrite with iv); try (now apply nf_iemit); try apply HT.
Qed.
