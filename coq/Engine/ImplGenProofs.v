(* ImplGen.v: the enumerator is sound; the steps of Impl.v are the steps at position 0. *)
From LLB Require Import Engine.Rules Engine.Spec Engine.Impl Engine.ImplGen.
From Coq Require Import List NArith Arith Lia.
Import ListNotations.

Lemma pick_some {A} (l : list A) : forall i, (i < length l)%nat -> pick i l <> None.
Proof.
  induction l as [|x l IH]; intros i Hi; cbn [length] in Hi; [exfalso; lia|]. destruct i; cbn [pick]; [discriminate|].
  specialize (IH i). destruct (pick i l) as [[y r]|]; [discriminate|]. apply IH. lia.
Qed.
Lemma pick_none {A} (l : list A) : forall i, (length l <= i)%nat -> pick i l = None.
Proof.
  induction l as [|x l IH]; intros i Hi; [reflexivity|]. cbn [length] in Hi. destruct i; [exfalso; lia|]. cbn [pick]. rewrite IH; auto. lia.
Qed.
Lemma pick_head {A} (x : A) l : pick 0 (x :: l) = Some (x, l). Proof. reflexivity. Qed.
Lemma in_positions {A} (l : list A) i : In i (positions l) -> (i < length l)%nat.
Proof. unfold positions. rewrite in_seq. lia. Qed.

Section Gen.
Variable rules : key -> rule.
Variable env : key -> N.
Variable F : key -> N -> list value -> list N -> N -> N.
Variable ord : key -> list rkind.
Variable syncp : key -> bool.

Theorem enabled_gen_sound : enabled_gen_sound_statement rules env F ord syncp.
Proof.
  intros s l s' H. unfold enabled_gen in H. repeat (apply in_app_or in H; destruct H as [H|H]).
  - apply in_map_iff in H. destruct H as (i & E & Hi). inversion E. subst. apply ms_scan_at. now apply pick_some, in_positions.
  - apply in_map_iff in H. destruct H as (i & E & Hi). inversion E. subst. apply ms_inreq_at. now apply pick_some, in_positions.
  - apply in_map_iff in H. destruct H as (i & E & Hi). inversion E. subst. apply ms_fininreq_at. now apply pick_some, in_positions.
  - apply in_map_iff in H. destruct H as (i & E & Hi). inversion E. subst. apply ms_ready_at. now apply pick_some, in_positions.
  - apply in_map_iff in H. destruct H as (i & E & Hi). inversion E. subst. apply ms_fintask_at. now apply pick_some, in_positions.
  - apply in_map_iff in H. destruct H as (e & E & He). inversion E. subst. apply ms_finish_gen.
Qed.

(* the loop's steps are the steps at position 0 *)
Lemma step_scan_at_0 s : step_scan_at rules env ord 0 s = step_scan rules env ord s.
Proof. unfold step_scan_at, step_scan. now destruct (is_toscan s). Qed.
Lemma step_inreq_at_0 s : step_inreq_at rules env ord 0 s = step_inreq rules env ord s.
Proof. unfold step_inreq_at, step_inreq. now destruct (is_inreq s). Qed.
Lemma step_fininreq_at_0 s : step_fininreq_at rules 0 s = step_fininreq rules s.
Proof. unfold step_fininreq_at, step_fininreq. now destruct (is_fininreq s). Qed.
Lemma step_ready_at_0 s : step_ready_at rules env F syncp 0 s = step_ready rules env F syncp s.
Proof. unfold step_ready_at, step_ready. now destruct (is_ready s). Qed.
Lemma step_fintask_at_0 s : step_fintask_at 0 s = step_fintask s.
Proof. unfold step_fintask_at, step_fintask. now destruct (is_fintasks s). Qed.

(* a step on an empty queue is the identity; so every step of Impl.mstep is a (possibly empty) sequence of general steps *)
Lemma mstep_msteps_gen s s' : mstep rules env F ord syncp s s' -> msteps_gen rules env F ord syncp s s'.
Proof.
  intros H. destruct H.
  - eapply msg_step; [apply msg_refl|apply ms_finish_gen].
  - rewrite <- step_scan_at_0. destruct (is_toscan s) eqn:E; [unfold step_scan_at; rewrite E; apply msg_refl|].
    eapply msg_step; [apply msg_refl|apply ms_scan_at; rewrite E; discriminate].
  - rewrite <- step_inreq_at_0. destruct (is_inreq s) eqn:E; [unfold step_inreq_at; rewrite E; apply msg_refl|].
    eapply msg_step; [apply msg_refl|apply ms_inreq_at; rewrite E; discriminate].
  - rewrite <- step_fininreq_at_0. destruct (is_fininreq s) eqn:E; [unfold step_fininreq_at; rewrite E; apply msg_refl|].
    eapply msg_step; [apply msg_refl|apply ms_fininreq_at; rewrite E; discriminate].
  - rewrite <- step_ready_at_0. destruct (is_ready s) eqn:E; [unfold step_ready_at; rewrite E; apply msg_refl|].
    eapply msg_step; [apply msg_refl|apply ms_ready_at; rewrite E; discriminate].
  - rewrite <- step_fintask_at_0. destruct (is_fintasks s) eqn:E; [unfold step_fintask_at; rewrite E; apply msg_refl|].
    eapply msg_step; [apply msg_refl|apply ms_fintask_at; rewrite E; discriminate].
Qed.
Lemma msteps_gen_trans s1 s2 s3 : msteps_gen rules env F ord syncp s1 s2 -> msteps_gen rules env F ord syncp s2 s3 -> msteps_gen rules env F ord syncp s1 s3.
Proof. intros H1 H2. induction H2 as [|s s' s'' H IH Hs]; auto. eapply msg_step; [apply IH; exact H1|exact Hs]. Qed.
Lemma msteps_msteps_gen s s' : msteps rules env F ord syncp s s' -> msteps_gen rules env F ord syncp s s'.
Proof. intros H. induction H; [apply msg_refl|]. eapply msteps_gen_trans; [exact IHmsteps|now apply mstep_msteps_gen]. Qed.
End Gen.
