(* P19 - part 18: link to the per-task protocol automaton of C06 (Protocol.v), without the slot multiset: the events one task
   sees in a build form  start [prior] provide* [avail [complete]]  and are therefore accepted by proto_prefix_ok for the
   request multiset made of the slots that were provided. *)
From LLB Require Import Engine.Rules Engine.Spec Engine.Impl Engine.ImplProofs Engine.ImplProofsSticky Engine.ImplProofsMono Engine.ImplProofsInv
  Engine.ImplProofsInv2 Engine.ImplProofsInv3 Engine.ImplProofsInv9 Engine.Protocol.
From Coq Require Import Arith Lia.
Local Open Scope N_scope.

(* what task k observes of an event *)
Definition pproj (k : key) (e : event) : option pevent :=
  match e with
  | EStart k' => if N.eqb k k' then Some PStart else None
  | EPrior k' _ => if N.eqb k k' then Some PPrior else None
  | EProvide k' slot _ _ => if N.eqb k k' then Some (PProvide slot) else None
  | EAvail k' => if N.eqb k k' then Some PAvail else None
  | EComplete k' _ => if N.eqb k k' then Some PComplete else None
  | _ => None
  end.
(* projection of a piece of log (most recent first) in chronological order *)
Fixpoint projl (k : key) (l : list event) : list pevent :=
  match l with
  | [] => []
  | e :: t => projl k t ++ match pproj k e with Some p => [p] | None => [] end
  end.
Lemma projl_app k a b : projl k (a ++ b) = projl k b ++ projl k a.
Proof. induction a as [|e a IH]; cbn [projl app]; [now rewrite app_nil_r|]. now rewrite IH, app_assoc. Qed.

(* the automaton of Protocol.v without the pending multiset *)
Inductive ph := HInit | HStartedA | HStartedB | HComputing | HFinished.
Definition stepA (q : ph) (e : pevent) : option ph :=
  match q, e with
  | HInit, PStart => Some HStartedA
  | HStartedA, PPrior => Some HStartedB
  | (HStartedA | HStartedB), PProvide _ => Some HStartedB
  | (HStartedA | HStartedB), PAvail => Some HComputing
  | HComputing, PComplete => Some HFinished
  | _, _ => None
  end.
Fixpoint runA (q : ph) (evs : list pevent) : option ph :=
  match evs with [] => Some q | e :: t => match stepA q e with Some q' => runA q' t | None => None end end.
Lemma runA_app q a b : runA q (a ++ b) = match runA q a with Some q' => runA q' b | None => None end.
Proof. revert q. induction a as [|e a IH]; intros q; cbn [runA app]; auto. destruct (stepA q e); auto. Qed.

(* how far the task of rule k has got, read off the state *)
Definition pend (s : istate) (k : key) : bool :=
  match aget (is_tasks s) k with Some ti => match ti_pending ti with Some _ => true | None => false end | None => false end.
Definition qok (s : istate) (k : key) (q : ph) : Prop :=
  match q with
  | HInit => (krank s k <= 2 \/ krank s k = 5)%nat
  | HStartedA | HStartedB => krank s k = 3%nat
  | HComputing => krank s k = 4%nat /\ pend s k = true
  | HFinished => (krank s k = 4%nat /\ pend s k = false) \/ krank s k = 5%nat
  end.

(* the events a piece of the run adds are accepted from every automaton state that fits the state before, and lead to one that fits after *)
Definition R2 (s s' : istate) : Prop :=
  nf s' -> exists l, is_log s' = l ++ is_log s /\ forall k q, qok s k q -> exists q', runA q (projl k l) = Some q' /\ qok s' k q'.

Lemma R2_refl s : R2 s s.
Proof. intros _. exists []. split; auto. intros k q H. exists q. split; auto. Qed.
