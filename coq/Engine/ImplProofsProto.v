(* P19 - part 18: link to the per-task protocol automaton of C06 (Protocol.v), without the slot multiset: the events one task
   sees in a build form  start [prior] provide* [avail [complete]]  and are therefore accepted by proto_prefix_ok for the
   request multiset made of the slots that were provided. *)
From LLB Require Import Engine.Rules Engine.Spec Engine.Impl Engine.ImplProofs Engine.ImplProofsSticky Engine.ImplProofsMono Engine.ImplProofsInv
  Engine.ImplProofsInv2 Engine.ImplProofsInv3 Engine.ImplProofsInv4 Engine.ImplProofsInv5 Engine.ImplProofsInv6 Engine.ImplProofsInv7 Engine.ImplProofsInv8 Engine.ImplProofsInv9 Engine.ImplProofsAvail Engine.Protocol.
From Coq Require Import Arith Lia.
Local Open Scope N_scope.

(* what task k observes of an event *)
Definition pproj (k : key) (e : event) : option pevent :=
  match e with
  | EStart k' => if N.eqb k k' then Some PStart else None
  | EPrior k' _ => if N.eqb k k' then Some PPrior else None
  | EProvide k' slot _ _ => if N.eqb k k' then Some (PProvide slot) else None
  | EAvail k' => if N.eqb k k' then Some PAvail else None
  | EComplete k' _ => if N.eqb k k' then Some PComplete else None
  | _ => None
  end.
(* projection of a piece of log (most recent first) in chronological order *)
Fixpoint projl (k : key) (l : list event) : list pevent :=
  match l with
  | [] => []
  | e :: t => projl k t ++ match pproj k e with Some p => [p] | None => [] end
  end.
Lemma projl_app k a b : projl k (a ++ b) = projl k b ++ projl k a.
Proof. induction a as [|e a IH]; cbn [projl app]; [now rewrite app_nil_r|]. now rewrite IH, app_assoc. Qed.

(* the automaton of Protocol.v without the pending multiset *)
Inductive ph := HInit | HStartedA | HStartedB | HComputing | HFinished.
Definition stepA (q : ph) (e : pevent) : option ph :=
  match q, e with
  | HInit, PStart => Some HStartedA
  | HStartedA, PPrior => Some HStartedB
  | (HStartedA | HStartedB), PProvide _ => Some HStartedB
  | (HStartedA | HStartedB), PAvail => Some HComputing
  | HComputing, PComplete => Some HFinished
  | _, _ => None
  end.
Fixpoint runA (q : ph) (evs : list pevent) : option ph :=
  match evs with [] => Some q | e :: t => match stepA q e with Some q' => runA q' t | None => None end end.
Lemma runA_app q a b : runA q (a ++ b) = match runA q a with Some q' => runA q' b | None => None end.
Proof. revert q. induction a as [|e a IH]; intros q; cbn [runA app]; auto. destruct (stepA q e); auto. Qed.

(* how far the task of rule k has got, read off the state *)
Definition pend (s : istate) (k : key) : bool :=
  match aget (is_tasks s) k with Some ti => match ti_pending ti with Some _ => true | None => false end | None => false end.
Definition qok (s : istate) (k : key) (q : ph) : Prop :=
  match q with
  | HInit => (krank s k <= 2 \/ krank s k = 5)%nat
  | HStartedA | HStartedB => krank s k = 3%nat
  | HComputing => krank s k = 4%nat /\ pend s k = true
  | HFinished => (krank s k = 4%nat /\ pend s k = false) \/ krank s k = 5%nat
  end.

(* the events a piece of the run adds are accepted from every automaton state that fits the state before, and lead to one that fits after *)
Definition R2 (s s' : istate) : Prop :=
  nf s' -> nf s /\ exists l, is_log s' = l ++ is_log s /\ forall k q, qok s k q -> exists q', runA q (projl k l) = Some q' /\ qok s' k q'.

Lemma R2_refl s : R2 s s.
Proof. intros Hn. split; auto. exists []. split; auto. intros k q H. exists q. split; auto. Qed.

Lemma R2_trans s1 s2 s3 : R2 s1 s2 -> R2 s2 s3 -> R2 s1 s3.
Proof.
  intros H12 H23 H3. destruct (H23 H3) as (H2 & l2 & Hl2 & Hq2). destruct (H12 H2) as (H1 & l1 & Hl1 & Hq1). split; auto.
  exists (l2 ++ l1). split; [rewrite Hl2, Hl1; now rewrite app_assoc|].
  intros k q Hq. destruct (Hq1 k q Hq) as (q1 & Hr1 & Hok1). destruct (Hq2 k q1 Hok1) as (q2 & Hr2 & Hok2).
  exists q2. split; auto. now rewrite projl_app, runA_app, Hr1.
Qed.

(* ---------- steps that no task observes ---------- *)
Definition qpres (r : nat) (p : bool) (r' : nat) (p' : bool) : Prop :=
  ((r <= 2)%nat -> (r' <= 2)%nat \/ r' = 5%nat) /\ (r = 3%nat -> r' = 3%nat) /\
  (r = 4%nat -> (r' = 4%nat /\ p' = p) \/ (p = false /\ r' = 5%nat)) /\ (r = 5%nat -> r' = 5%nat).
Lemma qpres_refl r p : qpres r p r p.
Proof. unfold qpres. repeat split; auto. Qed.
Lemma qpres_trans r1 p1 r2 p2 r3 p3 : qpres r1 p1 r2 p2 -> qpres r2 p2 r3 p3 -> qpres r1 p1 r3 p3.
Proof.
  unfold qpres. intros (A1 & A2 & A3 & A4) (B1 & B2 & B3 & B4). repeat split.
  - intros H. destruct (A1 H) as [H2|H2]; auto.
  - intros H. auto.
  - intros H. destruct (A3 H) as [[H2 Hp]|[Hp H2]].
    + destruct (B3 H2) as [[H3 Hp3]|[Hp3 H3]]; [left; split; congruence|right; split; congruence].
    + right. split; auto.
  - intros H. auto.
Qed.
Lemma qpres_qok s s' k q : qpres (krank s k) (pend s k) (krank s' k) (pend s' k) -> qok s k q -> qok s' k q.
Proof.
  unfold qpres, qok. intros (A1 & A2 & A3 & A4). destruct q.
  - intros [H|H]; [destruct (A1 H); auto|right; auto].
  - auto.
  - auto.
  - intros [H Hp]. destruct (A3 H) as [[H2 Hp2]|[Hp2 _]]; [split; congruence|congruence].
  - intros [[H Hp]|H]; [|right; auto]. destruct (A3 H) as [[H2 Hp2]|[_ H2]]; [left; split; congruence|right; auto].
Qed.

Definition QT (s s' : istate) : Prop :=
  nf s' -> nf s /\ exists l, is_log s' = l ++ is_log s /\ (forall k, projl k l = []) /\
                  forall k, qpres (krank s k) (pend s k) (krank s' k) (pend s' k).
Lemma QT_R2 s s' : QT s s' -> R2 s s'.
Proof.
  intros H Hn. destruct (H Hn) as (Hn0 & l & Hl & Hp & Hq). split; auto. exists l. split; auto.
  intros k q Hok. exists q. rewrite Hp. split; auto. eapply qpres_qok; eauto.
Qed.
Lemma QT_refl s : QT s s.
Proof. intros Hn. split; auto. exists []. split; [auto|]. split; [auto|]. intros k. apply qpres_refl. Qed.
Lemma QT_trans s1 s2 s3 : QT s1 s2 -> QT s2 s3 -> QT s1 s3.
Proof.
  intros H12 H23 H3. destruct (H23 H3) as (H2 & l2 & Hl2 & Hp2 & Hq2). destruct (H12 H2) as (H1 & l1 & Hl1 & Hp1 & Hq1). split; auto.
  exists (l2 ++ l1). split; [rewrite Hl2, Hl1; now rewrite app_assoc|]. split.
  - intros k. now rewrite projl_app, Hp1, Hp2.
  - intros k. eapply qpres_trans; eauto.
Qed.

Lemma pend_set_ti s t ti k : pend (set_ti s t ti) k = if N.eqb k t then match ti_pending ti with Some _ => true | None => false end else pend s k.
Proof. unfold pend. autorewrite with iv. rewrite aget_aset. now destruct (N.eqb k t). Qed.

Lemma QT_frame s s' : (nf s' -> nf s) -> is_log s' = is_log s -> is_epoch s' = is_epoch s -> (forall k, rinfo_of s' k = rinfo_of s k) ->
  (forall k, pend s' k = pend s k) -> QT s s'.
Proof.
  intros Hn Hl He Hr Hp H. split; auto. exists []. split; [auto|]. split; [auto|]. intros k. unfold krank. rewrite He, Hr, Hp. apply qpres_refl.
Qed.
Ltac qtf := apply QT_frame; [intros Hf; unfold nf in *; now autorewrite with iv in Hf | now autorewrite with iv | now autorewrite with iv
                            | intros; now autorewrite with iv | intros; unfold pend; now autorewrite with iv].
Ltac qts L := eapply QT_trans; [|apply L].

Definition silent (e : event) : Prop := forall k, pproj k e = None.
Lemma QT_iemit s e : silent e -> QT s (iemit s e).
Proof.
  intros Hs H. split; [now apply nf_iemit in H|]. exists [e]. split; [reflexivity|]. split.
  - intros k. cbn [projl]. now rewrite Hs.
  - intros k. apply qpres_refl.
Qed.
Lemma QT_fault s c : QT s (fault s c). Proof. intros H. now apply nf_fault in H. Qed.
Lemma QT_check s b c : QT s (check s b c). Proof. destruct b; [apply QT_refl|apply QT_fault]. Qed.
Lemma QT_touch s k : QT s (touch s k). Proof. qtf. Qed.
Lemma QT_push_inreq s rq : QT s (push_inreq s rq). Proof. qtf. Qed.
Lemma QT_upd_toscan s m : QT s (upd_toscan s m). Proof. qtf. Qed.
Lemma QT_upd_inreq s m : QT s (upd_inreq s m). Proof. qtf. Qed.
Lemma QT_upd_fininreq s m : QT s (upd_fininreq s m). Proof. qtf. Qed.
Lemma QT_upd_ready s m : QT s (upd_ready s m). Proof. qtf. Qed.
Lemma QT_upd_fintasks s m : QT s (upd_fintasks s m). Proof. qtf. Qed.
Lemma QT_upd_outstanding s m : QT s (upd_outstanding s m). Proof. qtf. Qed.

(* a task record changes, "has a pending value" stays *)
Lemma QT_set_ti s t ti ti' : aget (is_tasks s) t = Some ti ->
  (match ti_pending ti' with Some _ => true | None => false end) = (match ti_pending ti with Some _ => true | None => false end) -> QT s (set_ti s t ti').
Proof.
  intros Hg Hp. apply QT_frame; [intros Hf; now apply nf_set_ti in Hf|now autorewrite with iv|now autorewrite with iv|intros; now autorewrite with iv|].
  intros k. rewrite pend_set_ti. destruct (N.eqb k t) eqn:E; auto. apply N.eqb_eq in E. subst k. unfold pend. now rewrite Hg.
Qed.
Lemma QT_mod_ti s t f : (forall ti, ti_pending (f ti) = ti_pending ti) -> QT s (mod_ti s t f).
Proof. intros Hf. unfold mod_ti. destruct (aget (is_tasks s) t) eqn:E; [|apply QT_fault]. eapply QT_set_ti; eauto. now rewrite Hf. Qed.

(* a rule record changes in a way no task notices *)
Lemma QT_mod_ri s k f :
  (let r := rrank (is_epoch s) (rinfo_of s k) in let r' := rrank (is_epoch s) (f (rinfo_of s k)) in
   ((r <= 2)%nat -> (r' <= 2)%nat \/ r' = 5%nat) /\ (r = 3%nat -> r' = 3%nat) /\ (r = 4%nat -> r' = 4%nat) /\ (r = 5%nat -> r' = 5%nat)) ->
  QT s (mod_ri s k f).
Proof.
  cbn zeta. intros (A1 & A2 & A3 & A4) H. split; [now apply nf_mod_ri in H|]. exists []. split; [auto|]. split; [auto|].
  intros k0. rewrite krank_mod_ri. change (pend (mod_ri s k f) k0) with (pend s k0).
  destruct (N.eqb k0 k) eqn:E; [|apply qpres_refl]. apply N.eqb_eq in E. subst k0. fold (krank s k) in *.
  unfold qpres. repeat split; auto.
Qed.
Lemma QT_mod_ri_same s k f : (forall ri, ri_kind (f ri) = ri_kind ri /\ res_builtAt (ri_res (f ri)) = res_builtAt (ri_res ri)) -> QT s (mod_ri s k f).
Proof.
  intros Hf. apply QT_mod_ri. cbn zeta. unfold rrank. destruct (Hf (rinfo_of s k)) as [-> ->]. repeat split; auto.
Qed.

(* ---------- functions no task observes ---------- *)
Lemma ti_inc_wait_pending ti : ti_pending (ti_inc_wait ti) = ti_pending ti. Proof. reflexivity. Qed.
Lemma QT_add_request s t inp slot o sg : QT s (add_request s t inp slot o sg).
Proof.
  unfold add_request. destruct (aget _ _); [|apply QT_fault]. destruct (negb _); [apply QT_fault|].
  qts QT_mod_ti; [|reflexivity]. qts QT_push_inreq. apply QT_touch.
Qed.
Lemma QT_add_reqs ks : forall s t slot sg, QT s (add_reqs s t ks slot sg).
Proof. induction ks as [|x ks IH]; intros; cbn [add_reqs]; [apply QT_refl|]. eapply QT_trans; [apply QT_add_request|apply IH]. Qed.
Lemma QT_add_follows ks : forall s t, QT s (add_follows s t ks).
Proof. induction ks as [|x ks IH]; intros; cbn [add_follows]; [apply QT_refl|]. eapply QT_trans; [apply QT_add_request|apply IH]. Qed.
Lemma QT_start_group rules s t c : QT s (start_group rules s t c).
Proof. unfold start_group. destruct c; [apply QT_add_reqs|apply QT_add_reqs|apply QT_add_follows]. Qed.
Lemma QT_fold {A} (f : istate -> A -> istate) (Hf : forall s a, QT s (f s a)) l : forall s, QT s (fold_left f l s).
Proof. induction l as [|a l IH]; intros s; cbn [fold_left]; [apply QT_refl|]. eapply QT_trans; [apply Hf|apply IH]. Qed.
Lemma QT_branch_reqs ks : forall s t, QT s (branch_reqs s t ks).
Proof.
  induction ks as [|x ks IH]; intros; cbn [branch_reqs]; [apply QT_refl|].
  destruct (aget (is_tasks s) t) eqn:E; [|apply QT_fault]. eapply QT_trans; [|apply IH]. qts QT_add_request. eapply QT_set_ti; eauto.
Qed.
Lemma QT_discovered s t d : QT s (discovered s t d).
Proof. unfold discovered. destruct (aget _ _); [|apply QT_fault]. destruct (negb _); [apply QT_fault|now apply QT_mod_ti]. Qed.
Lemma QT_set_res_same s k r : res_builtAt r = res_builtAt (res_of s k) -> QT s (set_res s k r).
Proof.
  intros Hb. unfold set_res. apply QT_mod_ri. cbn zeta. unfold rrank, ri_with_res. cbn [ri_kind ri_res]. unfold res_of in Hb. rewrite Hb. repeat split; auto.
Qed.
Lemma QT_task_is_complete rules s t v : QT s (task_is_complete rules s t v).
Proof.
  unfold task_is_complete. destruct (negb _); [apply QT_fault|]. cbn zeta. qts QT_upd_fintasks. apply QT_set_res_same. apply completed_result_built.
Qed.
Lemma silent_need k r i : silent (ENeed k r i). Proof. intros k'. reflexivity. Qed.
Lemma silent_valid k b : silent (EValid k b). Proof. intros k'. reflexivity. Qed.
Lemma silent_create k : silent (ECreate k). Proof. intros k'. reflexivity. Qed.

Lemma QT_set_kind_low s k kd : (krank s k <= 2)%nat -> (kd = KScanning \/ kd = KNeedsToRun \/ kd = KDoesNotNeedToRun) -> QT s (set_kind s k kd).
Proof.
  intros Hr Hkd. unfold set_kind. apply QT_mod_ri. cbn zeta. fold (krank s k).
  assert (Hn : (rrank (is_epoch s) (ri_with_kind kd (rinfo_of s k)) <= 2)%nat) by (unfold rrank, ri_with_kind; cbn [ri_kind]; destruct Hkd as [->|[->| ->]]; lia).
  repeat split; intros; try lia; try (now left).
Qed.
Lemma QT_need s k r i : (krank s k <= 2)%nat -> QT s (need s k r i).
Proof. intros H. unfold need. eapply QT_trans; [|apply QT_iemit, silent_need]. apply QT_set_kind_low; auto. Qed.

Lemma QT_scan_rule rules env s k : QT s (snd (scan_rule rules env s k)).
Proof.
  unfold scan_rule. destruct (is_scanned s k) eqn:E1; [apply QT_refl|]. destruct (kind_eqb _ _) eqn:E2; [apply QT_refl|]. cbn zeta.
  pose proof (unscanned_rank0 s k E1 E2) as H0.
  assert (H1 : krank (mod_ri s k ri_clean_single) k = 0%nat) by (rewrite krank_mod_ri, N.eqb_refl, rrank_clean_single; exact H0).
  assert (Hc : QT s (mod_ri s k ri_clean_single)) by (now apply QT_mod_ri_same).
  destruct (N.eqb _ 0); [cbn [snd]; qts QT_need; [exact Hc|lia]|].
  destruct (ri_cancelled _); [cbn [snd]; qts QT_need; [exact Hc|lia]|].
  destruct (negb (N.eqb _ _)); [cbn [snd]; qts QT_need; [exact Hc|lia]|].
  destruct (negb (valid _ _ _ _)).
  { cbn [snd]. qts QT_need; [|rewrite krank_iemit; lia]. eapply QT_trans; [exact Hc|apply QT_iemit, silent_valid]. }
  destruct (res_deps _); cbn [snd].
  - eapply QT_trans; [exact Hc|]. apply QT_trans with (iemit (mod_ri s k ri_clean_single) (EValid k true)); [apply QT_iemit, silent_valid|].
    apply QT_set_kind_low; [rewrite krank_iemit; lia|auto].
  - qts QT_upd_toscan. eapply QT_trans; [exact Hc|]. apply QT_trans with (iemit (mod_ri s k ri_clean_single) (EValid k true)); [apply QT_iemit, silent_valid|].
    apply QT_mod_ri. cbn zeta. fold (krank (iemit (mod_ri s k ri_clean_single) (EValid k true)) k). rewrite krank_iemit, H1.
    unfold rrank, ri_begin_scan. cbn [ri_kind]. repeat split; intros; try lia; try (left; lia).
Qed.

(* ---------- createTask: the task sees start [prior] ---------- *)
Lemma QT_task_start_rest rules ord s t :
  QT s (fold_left (fun s c => start_group rules s t c) (ord t) (mod_ti s t (ti_with_slots (initial_slots (rules t))))).
Proof. eapply QT_trans; [|apply QT_fold; intros; apply QT_start_group]. now apply QT_mod_ti. Qed.

Lemma QT_ready_if_nowait s k : QT s (ready_if_nowait s k).
Proof. unfold ready_if_nowait. destruct (aget _ _); [|apply QT_fault]. destruct (Nat.eqb _ _); [apply QT_upd_ready|apply QT_refl]. Qed.

Lemma pend_begin_task s k k' : aget (is_tasks s) k = None -> pend (begin_task s k) k' = pend s k'.
Proof.
  intros Hno. unfold pend. rewrite begin_task_tasks, aget_aset. destruct (N.eqb k' k) eqn:E; auto.
  apply N.eqb_eq in E. subst k'. now rewrite Hno.
Qed.

Lemma projl_single k e : projl k [e] = match pproj k e with Some p => [p] | None => [] end.
Proof. reflexivity. Qed.

Lemma R2_create_task rules ord s k : aget (is_tasks s) k = None -> R2 s (create_task rules ord s k).
Proof.
  intros Hno Hn. split; [now apply sticky_create_task in Hn|]. unfold create_task in *. cbn zeta in *.
  destruct (kind_eqb (kind_of s k) KNeedsToRun) eqn:Ek.
  2:{ exfalso. apply sticky_ready_if_nowait, sticky_prior_value, sticky_task_start, sticky_begin_task in Hn. now apply nf_fault in Hn. }
  cbn [check] in *. apply kind_eqb_eq in Ek.
  assert (Hr2 : krank s k = 2%nat) by (rewrite (krank_kind s k _ Ek); [reflexivity|discriminate]).
  set (s1 := begin_task s k) in *.
  unfold task_start in *. cbn zeta in *.
  set (s2 := fold_left _ (ord k) _) in *.
  set (s3 := prior_value rules s2 k) in *.
  (* the silent parts *)
  assert (Hn3 : nf s3) by (now apply sticky_ready_if_nowait in Hn).
  assert (Hn2 : nf s2) by (now apply sticky_prior_value in Hn3).
  destruct (QT_ready_if_nowait s3 k Hn) as (_ & l4 & Hl4 & Hp4 & Hq4).
  destruct (QT_task_start_rest rules ord (iemit s1 (EStart k)) k Hn2) as (_ & l2 & Hl2 & Hp2 & Hq2). fold s2 in Hl2, Hq2.
  (* the prior value *)
  assert (HD : exists l3, is_log s3 = l3 ++ is_log s2 /\ (forall k', projl k' l3 = if N.eqb k' k then projl k l3 else []) /\
                          (projl k l3 = [] \/ projl k l3 = [PPrior]) /\ (forall k', krank s3 k' = krank s2 k' /\ pend s3 k' = pend s2 k')).
  { unfold s3, prior_value. cbn zeta. destruct (_ && _).
    - exists [EPrior k (res_value (res_of s2 k))]. split; [reflexivity|]. split; [|split; [right; cbn [projl pproj]; now rewrite N.eqb_refl|auto]].
      intros k'. cbn [projl pproj app]. destruct (N.eqb k' k) eqn:E; auto. apply N.eqb_eq in E. subst k'. now rewrite N.eqb_refl.
    - exists []. split; [reflexivity|]. split; [intros k'; now destruct (N.eqb k' k)|split; [now left|auto]]. }
  destruct HD as (l3 & Hl3 & Hp3 & Hk3 & Hq3).
  exists (l4 ++ l3 ++ l2 ++ [EStart k; ECreate k]). split.
  { rewrite Hl4, Hl3, Hl2. unfold s1, begin_task. autorewrite with iv. now rewrite <- !app_assoc. }
  intros k' q Hok. rewrite !projl_app, Hp4, Hp2, app_nil_r. cbn [projl pproj app].
  destruct (N.eqb k' k) eqn:E.
  - apply N.eqb_eq in E. subst k'. cbn [app].
    assert (Hq : q = HInit). { destruct q; cbn [qok] in Hok; auto; try lia; destruct Hok as [Hok|Hok]; lia. }
    subst q.
    assert (Hr3 : krank (ready_if_nowait s3 k) k = 3%nat).
    { destruct (Hq4 k) as (_ & A2 & _). apply A2. destruct (Hq3 k) as [-> _]. destruct (Hq2 k) as (_ & B2 & _). apply B2.
      rewrite krank_iemit. unfold s1, begin_task. rewrite krank_mod_ri, N.eqb_refl. reflexivity. }
    destruct Hk3 as [-> | ->]; cbn [runA stepA app]; [exists HStartedA|exists HStartedB]; split; auto.
  - rewrite Hp3, E. cbn [app runA]. exists q. split; auto.
    eapply qpres_qok; [|exact Hok]. eapply qpres_trans; [|apply Hq4]. destruct (Hq3 k') as [-> ->].
    eapply qpres_trans; [|apply Hq2]. rewrite krank_iemit. change (pend (iemit s1 (EStart k)) k') with (pend s1 k').
    unfold s1. rewrite (pend_begin_task s k k' Hno). unfold begin_task. rewrite krank_mod_ri, E. apply qpres_refl.
Qed.

Definition no_task_when_idle (s : istate) : Prop := forall k, kind_of s k = KNeedsToRun -> aget (is_tasks s) k = None.

Lemma R2_demand_rule rules ord s k : no_task_when_idle s -> R2 s (snd (demand_rule rules ord s k)).
Proof.
  intros Hnt. unfold demand_rule. destruct (is_complete s k); [apply R2_refl|]. destruct (is_in_progress s k); [apply R2_refl|].
  destruct (kind_eqb (kind_of s k) KDoesNotNeedToRun) eqn:E; cbn [snd].
  - apply QT_R2. unfold set_complete. apply QT_mod_ri. cbn zeta. apply kind_eqb_eq in E. unfold kind_of in E.
    assert (H2 : rrank (is_epoch s) (rinfo_of s k) = 2%nat) by (unfold rrank; now rewrite E).
    assert (H5 : rrank (is_epoch s) (ri_complete (is_epoch s) (rinfo_of s k)) = 5%nat).
    { unfold rrank, ri_complete, ri_with_kind, ri_with_res, res_with_built. cbn [ri_kind ri_res res_builtAt]. now rewrite N.eqb_refl. }
    rewrite H2, H5. repeat split; intros; try lia; try (now right).
  - destruct (kind_eqb (kind_of s k) KNeedsToRun) eqn:E2.
    + apply R2_create_task. apply Hnt. now apply kind_eqb_eq.
    + intros Hn. exfalso. unfold create_task in Hn. cbn zeta in Hn. rewrite E2 in Hn. cbn [check] in Hn.
      apply sticky_ready_if_nowait, sticky_prior_value, sticky_task_start, sticky_begin_task in Hn. now apply nf_fault in Hn.
Qed.

Lemma QT_finish_scan s k kd : kd = KNeedsToRun \/ kd = KDoesNotNeedToRun -> QT s (finish_scan s k kd).
Proof.
  intros Hkd. unfold finish_scan. cbn zeta. destruct (kind_eqb (kind_of s k) KScanning) eqn:E.
  - cbn [check]. unfold wake_scan_record. eapply QT_trans; [|apply QT_mod_ri].
    + qts QT_upd_inreq. apply QT_upd_toscan.
    + cbn zeta. autorewrite with iv. apply kind_eqb_eq in E. unfold kind_of in E.
      assert (H1 : rrank (is_epoch s) (rinfo_of s k) = 1%nat) by (unfold rrank; now rewrite E).
      assert (H2 : rrank (is_epoch s) (ri_end_scan kd (rinfo_of s k)) = 2%nat) by (unfold rrank, ri_end_scan; cbn [ri_kind]; now destruct Hkd as [-> | ->]).
      change (is_epoch (upd_inreq _ _)) with (is_epoch s). rewrite H1, H2. repeat split; intros; try lia; try (left; lia).
  - intros H. exfalso. apply nf_mod_ri in H. unfold wake_scan_record, nf in H. autorewrite with iv in H.
    cbn [check] in H. fold (nf (fault s FNotScanning)) in H. now apply nf_fault in H.
Qed.
Lemma QT_defer_on_rule s inp rq : QT s (defer_on_rule s inp rq).
Proof. unfold defer_on_rule. eapply QT_trans; [apply QT_check|]. now apply QT_mod_ri_same. Qed.
Lemma QT_pause_on_rule s inp rq : QT s (pause_on_rule s inp rq).
Proof. unfold pause_on_rule. eapply QT_trans; [apply QT_check|]. now apply QT_mod_ri_same. Qed.
Lemma QT_defer_on_task s inp rq : QT s (defer_on_task s inp rq).
Proof. unfold defer_on_task. now apply QT_mod_ti. Qed.
Lemma QT_route_request s t rq avail : QT s (route_request s t rq avail).
Proof. unfold route_request. cbn zeta. destruct avail; [qts QT_upd_fininreq|qts QT_mod_ti; [|reflexivity]]; now apply QT_mod_ri_same. Qed.

Lemma Inv_no_task_when_idle rules c s : Inv rules c s -> no_task_when_idle s.
Proof. intros (_ & HT & _) k Hk. eapply no_task_of_kind; eauto. Qed.

(* ---------- processRuleScanRequest / one input request ---------- *)
Lemma R2_scan_inputs rules env ord c0 fs' ds : forall s rq,
  cx_ex c0 = None -> Inv rules (cx_set_fs c0 (rq :: fs')) s -> skipn (sq_index rq) (res_deps (res_of s (sq_rule rq))) = ds ->
  R2 s (scan_inputs rules env ord s rq ds).
Proof.
  induction ds as [|d ds IH]; intros s rq Hex HI Hsk; cbn [scan_inputs]; [apply QT_R2, QT_fault|]. cbn zeta.
  set (k := sq_rule rq). set (inp := request_input rq d). set (rq1 := fill_request rq d).
  pose proof (Inv_head_ok rules (cx_set_fs c0 (rq :: fs')) s rq fs' eq_refl HI) as Hrqok.
  assert (Hk : kind_of s k = KScanning) by apply Hrqok.
  assert (HI1 : Inv rules (cx_set_fs c0 (rq1 :: fs')) (touch s inp)).
  { apply Inv_touch. apply (Inv_replace_fs rules (cx_set_fs c0 (rq :: fs')) s rq rq1 fs'); auto; [apply fill_request_rule|eapply sreq_ok_fill; eauto]. }
  pose proof (QT_scan_rule rules env (touch s inp) inp) as Q1.
  destruct (scan_rule rules env (touch s inp) inp) as [b1 s1] eqn:E1. cbn [snd] in Q1.
  destruct (scan_rule_post rules env _ _ _ _ _ E1 HI1) as (HI2 & KS & Hf1 & Ht1).
  assert (Q1' : R2 s s1) by (apply QT_R2; eapply QT_trans; [apply QT_touch|exact Q1]).
  destruct b1; [|eapply R2_trans; [exact Q1'|apply QT_R2, QT_defer_on_rule]].
  specialize (Ht1 eq_refl).
  assert (Hne : inp <> k).
  { intros E. destruct KS as (_ & _ & _ & _ & _ & _ & _ & _ & KSs & _).
    assert (Hks : kind_of (touch s inp) inp = KScanning) by (unfold kind_of; rewrite rinfo_of_touch, E; exact Hk).
    assert (Hk1 : kind_of s1 inp = KScanning) by (unfold kind_of in *; now rewrite (KSs Hks)).
    rewrite (scanning_not_scanned s1 inp Hk1) in Ht1. discriminate. }
  pose proof (R2_demand_rule rules ord s1 inp (Inv_no_task_when_idle rules _ s1 HI2)) as Q2.
  destruct (demand_rule rules ord s1 inp) as [b2 s2] eqn:E2. cbn [snd] in Q2.
  destruct (demand_rule_post rules ord _ _ _ _ _ E2 HI2 Hex Ht1) as (HI3 & KD & Hf2 & Ht2).
  assert (Q2' : R2 s s2) by (eapply R2_trans; eauto).
  destruct b2; [|eapply R2_trans; [exact Q2'|apply QT_R2, QT_defer_on_task]].
  assert (Hr2 : rinfo_of s2 k = rinfo_of s k).
  { destruct KD as (KD1 & _). rewrite (KD1 k); auto. destruct KS as (KS1 & _). rewrite (KS1 k); [apply rinfo_of_touch|auto]. }
  destruct (negb (sq_order rq1) && input_rebuilt s2 k inp).
  { eapply R2_trans; [exact Q2'|]. apply QT_R2. eapply QT_trans; [apply QT_finish_scan; now left|apply QT_iemit, silent_need]. }
  destruct ds as [|d' ds'].
  { eapply R2_trans; [exact Q2'|]. apply QT_R2. apply QT_finish_scan. now right. }
  destruct (skipn_head_nth _ _ _ _ Hsk) as (_ & _ & Hsk').
  set (rq2 := mkSReq k (S (sq_index rq1)) None false false).
  assert (Hidx : sq_index rq1 = sq_index rq) by apply fill_request_index.
  assert (Hsk2 : skipn (sq_index rq2) (res_deps (res_of s2 (sq_rule rq2))) = d' :: ds').
  { cbn [rq2 sq_index sq_rule]. unfold res_of. rewrite Hr2, Hidx. exact Hsk'. }
  eapply R2_trans; [exact Q2'|]. apply (IH s2 rq2); auto.
  assert (Hrq1 : sq_rule rq1 = k) by apply fill_request_rule.
  apply (Inv_replace_fs rules (cx_set_fs c0 (rq1 :: fs')) s2 rq1 rq2 fs'); auto.
  unfold sreq_ok. cbn [rq2 sq_rule sq_index sq_input]. split; [unfold kind_of; rewrite Hr2; exact Hk|]. split; [|discriminate].
  destruct (skipn_head_nth _ _ _ _ Hsk2) as (_ & Hlt & _). exact Hlt.
Qed.

Lemma R2_step_scan rules env ord s : Inv rules ctx0 s -> R2 s (step_scan rules env ord s).
Proof.
  intros HI. unfold step_scan. destruct (is_toscan s) as [|rq rest] eqn:Hq; [apply R2_refl|].
  pose proof (Inv_pop_toscan rules ctx0 s rq rest Hq HI) as HI1.
  pose proof (Inv_head_ok rules (cx_set_fs ctx0 (rq :: cx_fs ctx0)) (upd_toscan s rest) rq (cx_fs ctx0) eq_refl HI1) as (Hk & _).
  unfold process_scan_request. rewrite Hk. cbn [kind_eqb negb].
  eapply R2_trans; [apply QT_R2, QT_upd_toscan|]. eapply (R2_scan_inputs rules env ord ctx0 (cx_fs ctx0)); eauto.
Qed.

Lemma R2_step_inreq rules env ord s : Inv rules ctx0 s -> R2 s (step_inreq rules env ord s).
Proof.
  intros HI. unfold step_inreq. destruct (is_inreq s) as [|rq rest] eqn:Hq; [apply R2_refl|].
  pose proof (Inv_pop_inreq rules ctx0 s rq rest Hq HI) as HI0. set (c := cx_set_fi ctx0 (rq :: cx_fi ctx0)) in *.
  eapply R2_trans; [apply QT_R2, QT_upd_inreq|]. unfold process_input_request.
  pose proof (QT_scan_rule rules env (upd_inreq s rest) (iq_input rq)) as Q1.
  destruct (scan_rule rules env (upd_inreq s rest) (iq_input rq)) as [b1 s1] eqn:E1. cbn [snd] in Q1.
  destruct (scan_rule_post rules env c _ _ _ _ E1 HI0) as (HI1 & KS & Hf1 & Ht1).
  destruct b1; [|eapply R2_trans; [apply QT_R2, Q1|apply QT_R2, QT_pause_on_rule]].
  pose proof (R2_demand_rule rules ord s1 (iq_input rq) (Inv_no_task_when_idle rules _ s1 HI1)) as Q2.
  destruct (demand_rule rules ord s1 (iq_input rq)) as [b2 s2] eqn:E2. cbn [snd] in Q2.
  assert (Q2' : R2 (upd_inreq s rest) s2) by (eapply R2_trans; [apply QT_R2, Q1|exact Q2]).
  destruct (iq_task rq); auto. eapply R2_trans; [exact Q2'|apply QT_R2, QT_route_request].
Qed.

(* ---------- one finished input request: the task sees provide ---------- *)
Lemma R2_emit_provide s t slot inp v : krank s t = 3%nat -> R2 s (iemit s (EProvide t slot inp v)).
Proof.
  intros Hr Hn. split; [now apply nf_iemit in Hn|]. exists [EProvide t slot inp v]. split; [reflexivity|].
  intros k q Hok. cbn [projl pproj app]. destruct (N.eqb k t) eqn:E.
  - apply N.eqb_eq in E. subst k. destruct q; cbn [qok] in Hok; try lia; try (destruct Hok; lia);
      try (destruct Hok as [[Hok _]|Hok]; lia); cbn [runA stepA]; exists HStartedB; split; auto.
  - cbn [runA]. exists q. split; auto.
Qed.

Lemma store_slot_pending slot v ti : ti_pending (store_slot slot v ti) = ti_pending ti.
Proof. unfold store_slot. now destruct (Nat.ltb _ _). Qed.

Lemma R2_provide_value rules s t slot inp v : krank s t = 3%nat -> R2 s (provide_value rules s t slot inp v).
Proof.
  intros Hr. unfold provide_value. cbn zeta. eapply R2_trans; [apply (R2_emit_provide s t slot inp v Hr)|]. apply QT_R2.
  destruct (aget (is_tasks (iemit s (EProvide t slot inp v))) t) as [ti|] eqn:E; [|apply QT_fault].
  destruct (branch_fire _ _ _ _ _).
  - qts QT_branch_reqs. eapply QT_set_ti; eauto. cbn [ti_with_branched ti_pending]. now rewrite store_slot_pending.
  - eapply QT_set_ti; eauto. now rewrite store_slot_pending.
Qed.

Lemma QT_decrement_wait s t : QT s (decrement_wait s t).
Proof.
  unfold decrement_wait. destruct (aget (is_tasks s) t) as [ti|] eqn:E; [|apply QT_fault]. destruct (ti_wait ti); [apply QT_fault|]. cbn zeta.
  destruct (Nat.eqb _ _); [qts QT_upd_ready|]; eapply QT_set_ti; eauto.
Qed.

Lemma krank_waiting s k : kind_of s k = KWaiting -> krank s k = 3%nat.
Proof. intros H. rewrite (krank_kind s k _ H); [reflexivity|discriminate]. Qed.

Lemma R2_step_fininreq rules s : Inv rules ctx0 s -> R2 s (step_fininreq rules s).
Proof.
  intros HI. unfold step_fininreq. destruct (is_fininreq s) as [|rq rest] eqn:Hq; [apply R2_refl|].
  assert (Hnd : iq_task rq <> None). { destruct HI as (_ & _ & HI' & _). apply (i_fin_nd rules ctx0 s HI'). rewrite Hq. now left. }
  pose proof (Inv_pop_fininreq rules ctx0 s rq rest Hq HI) as HI1.
  eapply R2_trans; [apply QT_R2, QT_upd_fininreq|]. unfold deliver. destruct (iq_task rq) as [t|] eqn:Et; [|contradiction]. cbn zeta.
  destruct (waiting_of_request rules (cx_set_fi ctx0 (rq :: cx_fi ctx0)) (upd_fininreq s rest) t rq (cx_fi ctx0) eq_refl Et HI1) as (ti & Hg & Hw & Hk & Hnr).
  destruct (iq_order rq).
  - apply QT_R2, QT_decrement_wait.
  - eapply R2_trans; [apply R2_provide_value; apply krank_waiting; exact Hk|apply QT_R2, QT_decrement_wait].
Qed.

(* ---------- complete(): the task sees complete ---------- *)
Lemma R2_task_finish rules s t : R2 s (task_finish rules s t).
Proof.
  unfold task_finish. destruct (aget (is_tasks s) t) as [ti|] eqn:Hg; [|apply R2_refl]. destruct (ti_pending ti) as [v|] eqn:Hp; [|apply R2_refl].
  cbn zeta. set (s1 := set_ti s t (ti_with_pending None ti)). set (s2 := fold_left (fun s d => discovered s t d) (r_disc (rules t)) s1).
  set (s3 := iemit s2 (EComplete t v)). intros Hn.
  pose proof (QT_task_is_complete rules s3 t v Hn) as (Hn3 & lD & HlD & HpD & HqD).
  assert (Hn2 : nf s2) by exact Hn3.
  pose proof (QT_fold (fun s d => discovered s t d) (fun s d => QT_discovered s t d) (r_disc (rules t)) s1 Hn2) as (Hn1 & lB & HlB & HpB & HqB). fold s2 in HlB, HqB.
  split; [unfold s1 in Hn1; now apply nf_set_ti in Hn1|].
  (* the task's rule is InProgressComputing (otherwise taskIsComplete records a fault) *)
  assert (Hk3 : kind_of s3 t = KComputing).
  { unfold task_is_complete in Hn. destruct (kind_eqb (kind_of s3 t) KComputing) eqn:E; [now apply kind_eqb_eq|]. cbn [negb] in Hn. now apply nf_fault in Hn. }
  pose proof (keeps_fold (fun s d => discovered s t d) (fun s d => keeps_discovered s t d) (r_disc (rules t)) s1) as (_ & K2 & _ & _ & _ & _ & _ & K8).
  fold s2 in K2, K8.
  assert (Hr : krank s t = 4%nat).
  { assert (E : krank s t = krank s3 t).
    { unfold krank. change (rinfo_of s3 t) with (rinfo_of s2 t). change (is_epoch s3) with (is_epoch s2). rewrite K2, K8. reflexivity. }
    rewrite E. rewrite (krank_kind s3 t _ Hk3); [reflexivity|discriminate]. }
  assert (Hps : pend s t = true) by (unfold pend; now rewrite Hg, Hp).
  assert (Hp1 : forall k, pend s1 k = if N.eqb k t then false else pend s k).
  { intros k. unfold s1. rewrite pend_set_ti. reflexivity. }
  assert (Hr1 : forall k, krank s1 k = krank s k) by reflexivity.
  exists (lD ++ [EComplete t v] ++ lB). split.
  { rewrite HlD. unfold s3. autorewrite with iv. rewrite HlB. unfold s1. autorewrite with iv. now rewrite <- !app_assoc. }
  intros k q Hok. rewrite !projl_app, HpD, HpB. cbn [projl pproj app].
  assert (Hstep : forall q1, qok s1 k q1 -> qok (task_is_complete rules s3 t v) k q1).
  { intros q1 H1. eapply qpres_qok; [apply HqD|]. change (qok s3 k q1) with (qok s2 k q1). eapply qpres_qok; [apply HqB|exact H1]. }
  destruct (N.eqb k t) eqn:E.
  - apply N.eqb_eq in E. subst k. cbn [app].
    assert (Hq : q = HComputing).
    { destruct q; cbn [qok] in Hok; auto; try lia; try (destruct Hok; lia). destruct Hok as [[_ Hpf]|Hok]; [congruence|lia]. }
    subst q. cbn [runA stepA]. exists HFinished. split; auto. apply Hstep. cbn [qok]. left. rewrite Hr1, Hp1, N.eqb_refl. auto.
  - cbn [app runA]. exists q. split; auto. apply Hstep. destruct q; cbn [qok] in *; rewrite ?Hr1, ?Hp1, ?E; auto.
Qed.

(* ---------- one ready task: the task sees avail (and complete, if it completes inside inputsAvailable) ---------- *)
Lemma R2_avail_unit s t ti v : aget (is_tasks s) t = Some ti -> krank s t = 3%nat ->
  R2 s (set_ti (iemit (set_kind s t KComputing) (EAvail t)) t (ti_with_pending (Some v) ti)).
Proof.
  intros Hg Hr Hn. split; [unfold nf in *; now autorewrite with iv in Hn|].
  exists [EAvail t]. split; [now autorewrite with iv|].
  set (s' := set_ti _ t _).
  assert (Hk : forall k, krank s' k = if N.eqb k t then 4%nat else krank s k).
  { intros k. unfold s'. rewrite krank_set_ti, krank_iemit. unfold set_kind. rewrite krank_mod_ri. destruct (N.eqb k t); auto. }
  assert (Hp : forall k, pend s' k = if N.eqb k t then true else pend s k).
  { intros k. unfold s'. rewrite pend_set_ti. destruct (N.eqb k t); auto. }
  intros k q Hok. cbn [projl pproj app]. destruct (N.eqb k t) eqn:E.
  - apply N.eqb_eq in E. subst k. destruct q; cbn [qok] in Hok; try lia; try (destruct Hok; lia); try (destruct Hok as [[Hok _]|Hok]; lia);
      cbn [runA stepA]; exists HComputing; (split; [reflexivity|]); cbn [qok]; rewrite Hk, Hp, N.eqb_refl; auto.
  - cbn [runA]. exists q. split; auto. destruct q; cbn [qok] in *; rewrite ?Hk, ?Hp, ?E; auto.
Qed.

Lemma R2_step_ready rules env F syncp s : R2 s (step_ready rules env F syncp s).
Proof.
  unfold step_ready. destruct (is_ready s) as [|t rest] eqn:Hq; [apply R2_refl|]. unfold run_ready, inputs_available. cbn zeta.
  set (s0 := upd_ready s rest). destruct (kind_eqb (kind_of s0 t) KWaiting) eqn:Ek.
  2:{ intros Hn. exfalso. unfold nf in Hn. rewrite is_fault_upd_outstanding in Hn.
      match type of Hn with is_fault ?x = None => fold (nf x) in Hn end. apply sticky_avail_body in Hn.
      unfold nf in Hn. autorewrite with iv in Hn. cbn [check] in Hn. fold (nf (fault s0 FNotWaiting)) in Hn. now apply nf_fault in Hn. }
  cbn [check]. apply kind_eqb_eq in Ek.
  eapply R2_trans; [apply QT_R2, (QT_upd_ready s rest)|]. fold s0.
  eapply R2_trans; [|apply QT_R2, QT_upd_outstanding].
  unfold avail_body. change (aget (is_tasks (iemit (set_kind s0 t KComputing) (EAvail t))) t) with (aget (is_tasks s0) t).
  destruct (aget (is_tasks s0) t) as [ti|] eqn:Hg; [|intros Hn; now apply nf_fault in Hn]. cbn zeta.
  pose proof (R2_avail_unit s0 t ti (task_value rules env F t ti) Hg (krank_waiting s0 t Ek)) as HA.
  destruct (syncp t); [eapply R2_trans; [exact HA|apply R2_task_finish]|exact HA].
Qed.

(* ---------- one finished task: nothing for the tasks to see ---------- *)
Lemma krank_unloaded s k : aget (is_rules s) k = None -> krank s k = 0%nat.
Proof. intros H. unfold krank. destruct (rinfo_of_none s k H) as [r ->]. reflexivity. Qed.

Lemma db_write_krank s t k : krank (db_write s t) k = krank s k.
Proof.
  destruct (aget (is_rules s) k) as [ri|] eqn:E.
  - unfold krank. rewrite db_write_loaded; [|unfold loaded; congruence]. unfold db_write. now destruct (is_usedb s).
  - rewrite (krank_unloaded s k E). apply krank_unloaded. destruct (db_write_fields s t) as (-> & _). exact E.
Qed.

Lemma finish_task_views s t rest ti : aget (is_tasks s) t = Some ti -> kind_of s t = KComputing ->
  let s' := finish_task (upd_fintasks s rest) t in
  (forall k, krank s' k = if N.eqb k t then 5%nat else krank s k) /\ (forall k, pend s' k = if N.eqb k t then false else pend s k) /\
  is_log s' = is_log s /\ (nf s' -> nf s).
Proof.
  intros Hg Hk. cbn zeta. unfold finish_task. change (aget (is_tasks (upd_fintasks s rest)) t) with (aget (is_tasks s) t). rewrite Hg. cbn zeta.
  change (kind_of (upd_fintasks s rest) t) with (kind_of s t). rewrite Hk. cbn [kind_eqb check].
  set (s0 := upd_fintasks s rest). set (s2 := mod_ri (set_complete s0 t) t (ri_append_deps (ti_disc ti))).
  destruct (push_dummies_views (ti_disc ti) s2) as (P1 & _ & _ & _ & _ & P6 & _ & _ & _ & _ & _ & _ & _ & P14 & P15).
  set (s3 := push_dummies s2 (ti_disc ti)) in *.
  destruct (db_write_fields s3 t) as (_ & D2 & _ & _ & _ & _ & _ & _ & D9).
  assert (K3 : forall k, krank s3 k = if N.eqb k t then 5%nat else krank s k).
  { intros k. unfold krank. rewrite P1, P15. unfold s2, set_complete. autorewrite with iv. rewrite N.eqb_refl. destruct (N.eqb k t); [|reflexivity].
    unfold rrank, ri_append_deps, ri_complete, ri_with_res, ri_with_kind, res_with_deps, res_with_built. cbn [ri_kind ri_res res_builtAt]. now rewrite N.eqb_refl. }
  split; [|split; [|split]].
  - intros k. unfold retire_task, wake_task_waiters.
    change (krank (upd_tasks (upd_outstanding (upd_fininreq (upd_toscan (db_write s3 t) _) _) _) _) k) with (krank (db_write s3 t) k).
    rewrite db_write_krank. apply K3.
  - intros k. unfold pend, retire_task, wake_task_waiters. autorewrite with iv. rewrite D2, P6. change (is_tasks s2) with (is_tasks s).
    rewrite aget_adel. now destruct (N.eqb k t).
  - unfold retire_task, wake_task_waiters, db_write. destruct (is_usedb s3); autorewrite with iv; unfold s3; now rewrite push_dummies_log.
  - unfold nf, retire_task, wake_task_waiters. autorewrite with iv. rewrite D9, P14. auto.
Qed.

Lemma R2_step_fintask rules s : Inv rules ctx0 s -> R2 s (step_fintask s).
Proof.
  intros HI. unfold step_fintask. destruct (is_fintasks s) as [|t rest] eqn:Hq; [apply R2_refl|].
  pose proof HI as (_ & HT & _). destruct (t_ft ctx0 s HT t) as (ti & Hg & Hk & Hp); [rewrite Hq; now left|].
  destruct (finish_task_views s t rest ti Hg Hk) as (V1 & V2 & V3 & V4). intros Hn. split; auto. exists []. split; [exact V3|].
  intros k q Hok. exists q. split; auto.
  assert (Hr : krank s t = 4%nat) by (rewrite (krank_kind s t _ Hk); [reflexivity|discriminate]).
  assert (Hpf : pend s t = false) by (unfold pend; now rewrite Hg, Hp).
  destruct (N.eqb k t) eqn:E.
  - apply N.eqb_eq in E. subst k. destruct q; cbn [qok] in *; rewrite ?V1, ?V2, ?N.eqb_refl; try lia; try (destruct Hok; lia); auto.
    destruct Hok; congruence.
  - destruct q; cbn [qok] in *; rewrite ?V1, ?V2, ?E; auto.
Qed.

(* ---------- the protocol automaton accepts what the structure automaton accepts ---------- *)
Fixpoint provided (evs : list pevent) : list nat :=
  match evs with [] => [] | PProvide s :: t => s :: provided t | _ :: t => provided t end.

Lemma runA_finished evs q' : runA HFinished evs = Some q' -> evs = [].
Proof. destruct evs as [|e t]; auto. cbn [runA stepA]. destruct e; discriminate. Qed.
Lemma runA_computing req evs q' : runA HComputing evs = Some q' -> provided evs = [] /\ exists st', proto_run req PSComputing evs = Some st'.
Proof.
  destruct evs as [|e t]; [intros _; split; [reflexivity|exists PSComputing; reflexivity]|]. cbn [runA stepA]. destruct e; try discriminate. intros H.
  apply runA_finished in H. subst t. split; [reflexivity|]. exists PSFinished. reflexivity.
Qed.
Lemma runA_started req evs : forall q q' b, runA q evs = Some q' -> (q = HStartedA /\ b = true) \/ (q = HStartedB /\ b = false) ->
  exists st', proto_run req (PSStarted b (provided evs)) evs = Some st'.
Proof.
  induction evs as [|e t IH]; intros q q' b Hr Hq; [exists (PSStarted b []); reflexivity|]. cbn [runA] in Hr.
  destruct Hq as [[-> ->]|[-> ->]]; destruct e; cbn [stepA] in Hr; try discriminate; cbn [proto_run proto_step provided remove1].
  - eapply IH; eauto.
  - rewrite Nat.eqb_refl. eapply IH; eauto.
  - destruct (runA_computing req t q' Hr) as (Hp & st' & Hst). rewrite Hp. eauto.
  - rewrite Nat.eqb_refl. eapply IH; eauto.
  - destruct (runA_computing req t q' Hr) as (Hp & st' & Hst). rewrite Hp. eauto.
Qed.
Theorem runA_proto evs q' : runA HInit evs = Some q' -> proto_prefix_ok (provided evs) evs = true.
Proof.
  unfold proto_prefix_ok. destruct evs as [|e t]; [reflexivity|]. cbn [runA stepA]. destruct e; try discriminate. intros H.
  cbn [proto_run proto_step provided]. destruct (runA_started (provided t) t HStartedA q' true H) as (st' & ->); auto.
Qed.

Section Proto.
Variable rules : key -> rule.
Variable env : key -> N.
Variable F : key -> N -> list value -> list N -> N -> N.
Variable ord : key -> list rkind.
Variable syncp : key -> bool.

Lemma R2_mstep s s' : Inv rules ctx0 s -> mstep rules env F ord syncp s s' -> R2 s s'.
Proof.
  intros HI H. destruct H.
  - apply R2_task_finish.
  - now apply R2_step_scan.
  - now apply R2_step_inreq.
  - now apply R2_step_fininreq.
  - apply R2_step_ready.
  - now apply (R2_step_fintask rules).
Qed.

Lemma R2_msteps s s' : Inv rules ctx0 s -> msteps rules env F ord syncp s s' -> R2 s s'.
Proof.
  intros HI H. induction H as [|s s' s'' H IH Hs]; [apply R2_refl|].
  eapply R2_trans; [exact (IH HI)|]. apply R2_mstep; auto. eapply Inv_msteps; eauto.
Qed.

(* Each task's view of a build is accepted (as a prefix) by the protocol automaton of C06 for the request multiset made of the slots it
   was provided: start first and once, the prior value only right after start, provides only before inputsAvailable, inputsAvailable
   once, complete only after it and once. *)
Theorem protocol_prefix s0 root s : in_build rules env F ord syncp s0 root s ->
  exists l, is_log s = l ++ is_log (start_build (iemit (bump s0) (EBuildStart root)) root) /\
            forall k, proto_prefix_ok (provided (projl k l)) (projl k l) = true.
Proof.
  intros [Q M]. pose proof (Inv_start rules s0 root Q) as HI0.
  assert (Hn : nf s) by (apply (Inv_msteps rules env F ord syncp _ _ M HI0)).
  destruct (R2_msteps _ _ HI0 M Hn) as (_ & l & Hl & Hq). exists l. split; auto.
  intros k. destruct (Hq k HInit) as (q' & Hr & _).
  - (* at the start of the build no rule is in progress *)
    cbn [qok]. destruct Q as (_ & _ & _ & _ & _ & _ & _ & _ & Q9). destruct (Q9 k) as (H1 & H2 & H3 & _).
    set (st := start_build (iemit (bump s0) (EBuildStart root)) root).
    assert (Hk : kind_of st k = kind_of s0 k) by (unfold st, start_build, kind_of; now autorewrite with iv).
    pose proof (rrank_le5 (is_epoch st) (rinfo_of st k)) as Hle. unfold krank. unfold rrank in *. fold (kind_of st k) in *. rewrite Hk in *.
    destruct (kind_of s0 k); try contradiction; try lia. destruct (N.eqb _ _); lia.
  - eapply runA_proto; eauto.
Qed.
End Proto.
