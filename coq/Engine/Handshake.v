(* C06 - the wait/notify handshake between the engine thread and the threads that report task completion
   (lib/Core/BuildEngine.cpp: executeTasks phase 6 + wait block, cancelRemainingTasks drain loop, taskIsComplete).
   Definitions only; proofs are in HandshakeProofs.v.

   What is modelled, line by line:

     taskIsComplete (any thread, also the engine thread itself when a task completes inside inputsAvailable):
         { lock_guard g(finishedTaskInfosMutex);            LThrLock i      CIdle     -> CHasLock
           finishedTaskInfos.push_back(taskInfo); }         LThrPush i      CHasLock  -> CPushed
                                                            LThrUnlock i    CPushed   -> CReleased   (end of the guard's scope)
         finishedTaskInfosCondition.notify_one();           LThrNotify i    CReleased -> CDone       (AFTER the mutex was released)

     executeTasks, one iteration (didWork = the flag [dw]):
         phases 1-5 (may call inputsAvailable, ++numOutstandingUnfinishedTasks)      LSpawn          ERun dw -> ERun true
         phase 6:  { lock_guard; if (!empty) { back(); pop_back(); } }               LPollLock       ERun dw -> EPollLocked dw
                   taken: didWork = true; ...; --numOutstandingUnfinishedTasks       LPoll           EPollLocked dw -> ERun true
                   none : break                                                      LPoll           EPollLocked dw -> EDecide dw
         if (!didWork && numOutstandingUnfinishedTasks != 0) {
             unique_lock lock(mutex);                                                LWaitLock       EDecide false -> EWaitLocked Main
             if (empty) cv.wait(lock);                                               LCheck          -> EWaiting Main (mutex released atomically)
                                                                                                     or EWaitExit Main (queue not empty)
             (woken: re-acquire the mutex inside wait)                               LReacquire      EWoken Main -> EWaitExit Main
             didWork = true; }  (lock destroyed)                                     LWaitUnlock     EWaitExit Main -> ERun false
         if (!didWork) { cycle resolved: continue / nothing left: break }            LCycleContinue / LExit
         else next iteration                                                          LContinue       EDecide true -> ERun false
         buildCancelled seen at the top of the loop, or the database write failed     LCancel         ERun dw -> EDrain

     cancelRemainingTasks: while (numOutstandingUnfinishedTasks != 0) {              LExit when the counter is 0
             unique_lock lock(mutex);                                                LWaitLock       EDrain -> EWaitLocked Drain
             if (empty) cv.wait(lock);                                               LCheck          -> EWaiting Drain
             else { n -= size(); clear(); } }                                        LCheck          -> EWaitExit Drain

   Condition-variable semantics: notify_one wakes the engine if it is blocked in wait, otherwise it has NO effect
   (it is lost); wait may also return spuriously (LSpurious).  Only the engine thread ever waits on this condition.

   The queue is a list whose HEAD is the BACK of the std::vector (push_back = cons, back()/pop_back() = head/tail).
   Completer threads are numbered by creation order; thread i pushes the task number i.
   [consumed] is a ghost component: the tasks the engine has taken out of the queue (popped or drained).

   The order "inputsAvailable(); ++numOutstandingUnfinishedTasks" of the code is folded into the single label LSpawn: the counter
   is read and written by the engine thread only, so the order relative to the steps of other threads is unobservable. *)
From Coq Require Import List Arith Bool.
Import ListNotations.

Inductive cstate := CIdle | CHasLock | CPushed | CReleased | CDone.
Inductive owner := OEngine | OThread (i : nat).
Inductive wmode := Main | Drain.

Inductive epc :=
| ERun (dw : bool)          (* phases 1-5, or between two polls of phase 6; holds no lock *)
| EPollLocked (dw : bool)   (* phase 6, inside the lock_guard *)
| EDecide (dw : bool)       (* phase 6 saw the queue empty *)
| EPeeked                   (* BROKEN VARIANT ONLY: saw the queue empty WITHOUT holding the mutex, about to lock and wait *)
| EWaitLocked (m : wmode)   (* holds the unique_lock, has not looked at the queue yet *)
| EWaiting (m : wmode)      (* blocked in condition_variable::wait; the mutex is released *)
| EWoken (m : wmode)        (* notified (or spurious); must re-acquire the mutex before wait returns *)
| EWaitExit (m : wmode)     (* holds the mutex at the end of the wait block *)
| EDrain                    (* head of the loop of cancelRemainingTasks *)
| EDone.                    (* executeTasks returned *)

Record state := mkState {
  pc : epc;
  mutex : option owner;
  queue : list nat;
  threads : list cstate;
  outstanding : nat;          (* numOutstandingUnfinishedTasks *)
  consumed : list nat
}.

Inductive label :=
| LSpawn | LPollLock | LPoll | LContinue | LExit | LCycleContinue | LWaitLock | LPeek | LCheck
| LReacquire | LWaitUnlock | LCancel | LSpurious
| LThrLock (i : nat) | LThrPush (i : nat) | LThrUnlock (i : nat) | LThrNotify (i : nat).

Fixpoint upd (i : nat) (c : cstate) (l : list cstate) : list cstate :=
  match l, i with
  | [], _ => []
  | _ :: t, O => c :: t
  | x :: t, S j => x :: upd j c t
  end.

Definition cstate_eqb (a b : cstate) : bool :=
  match a, b with
  | CIdle, CIdle | CHasLock, CHasLock | CPushed, CPushed | CReleased, CReleased | CDone, CDone => true
  | _, _ => false
  end.

Definition thread_is (s : state) (i : nat) (c : cstate) : bool :=
  match nth_error (threads s) i with Some c' => cstate_eqb c' c | None => false end.

Definition with_pc (s : state) (p : epc) : state :=
  mkState p (mutex s) (queue s) (threads s) (outstanding s) (consumed s).
Definition with_pc_mutex (s : state) (p : epc) (m : option owner) : state :=
  mkState p m (queue s) (threads s) (outstanding s) (consumed s).
Definition is_free (m : option owner) : bool := match m with None => true | Some _ => false end.
Definition wake (p : epc) : epc := match p with EWaiting m => EWoken m | _ => p end.

(* [broken = false]: the code as it is.  [broken = true]: the emptiness check of the wait block of executeTasks is made
   BEFORE the mutex is taken (label LPeek), and the wait that follows is unconditional. *)
Definition step_gen (broken : bool) (s : state) (l : label) : option state :=
  match l with
  | LSpawn =>
      match pc s with
      | ERun _ => Some (mkState (ERun true) (mutex s) (queue s) (threads s ++ [CIdle]) (S (outstanding s)) (consumed s))
      | _ => None
      end
  | LPollLock =>
      match pc s with
      | ERun dw => if is_free (mutex s) then Some (with_pc_mutex s (EPollLocked dw) (Some OEngine)) else None
      | _ => None
      end
  | LPoll =>
      match pc s with
      | EPollLocked dw =>
          match queue s with
          | [] => Some (with_pc_mutex s (EDecide dw) None)
          | i :: q => Some (mkState (ERun true) None q (threads s) (outstanding s - 1) (i :: consumed s))
          end
      | _ => None
      end
  | LContinue =>
      match pc s with EDecide true => Some (with_pc s (ERun false)) | _ => None end
  | LExit =>
      match pc s, outstanding s with
      | EDecide false, O => Some (with_pc s EDone)
      | EDrain, O => Some (with_pc s EDone)
      | _, _ => None
      end
  | LCycleContinue =>
      match pc s, outstanding s with
      | EDecide false, O => Some (with_pc s (ERun false))
      | _, _ => None
      end
  | LWaitLock =>
      match pc s, outstanding s with
      | EDecide false, S _ =>
          if broken then None
          else if is_free (mutex s) then Some (with_pc_mutex s (EWaitLocked Main) (Some OEngine)) else None
      | EPeeked, _ => if is_free (mutex s) then Some (with_pc_mutex s (EWaitLocked Main) (Some OEngine)) else None
      | EDrain, S _ => if is_free (mutex s) then Some (with_pc_mutex s (EWaitLocked Drain) (Some OEngine)) else None
      | _, _ => None
      end
  | LPeek =>
      match pc s, outstanding s with
      | EDecide false, S _ =>
          if broken then
            match queue s with
            | [] => Some (with_pc s EPeeked)
            | _ :: _ => Some (with_pc s (ERun false))
            end
          else None
      | _, _ => None
      end
  | LCheck =>
      match pc s with
      | EWaitLocked Main =>
          if broken then Some (with_pc_mutex s (EWaiting Main) None)
          else match queue s with
               | [] => Some (with_pc_mutex s (EWaiting Main) None)
               | _ :: _ => Some (with_pc s (EWaitExit Main))
               end
      | EWaitLocked Drain =>
          match queue s with
          | [] => Some (with_pc_mutex s (EWaiting Drain) None)
          | _ :: _ => Some (mkState (EWaitExit Drain) (mutex s) [] (threads s)
                                    (outstanding s - length (queue s)) (queue s ++ consumed s))
          end
      | _ => None
      end
  | LReacquire =>
      match pc s with
      | EWoken m => if is_free (mutex s) then Some (with_pc_mutex s (EWaitExit m) (Some OEngine)) else None
      | _ => None
      end
  | LWaitUnlock =>
      match pc s with
      | EWaitExit Main => Some (with_pc_mutex s (ERun false) None)
      | EWaitExit Drain => Some (with_pc_mutex s EDrain None)
      | _ => None
      end
  | LCancel =>
      match pc s with ERun _ => Some (with_pc s EDrain) | _ => None end
  | LSpurious =>
      match pc s with EWaiting m => Some (with_pc s (EWoken m)) | _ => None end
  | LThrLock i =>
      if thread_is s i CIdle && is_free (mutex s)
      then Some (mkState (pc s) (Some (OThread i)) (queue s) (upd i CHasLock (threads s)) (outstanding s) (consumed s))
      else None
  | LThrPush i =>
      if thread_is s i CHasLock
      then Some (mkState (pc s) (mutex s) (i :: queue s) (upd i CPushed (threads s)) (outstanding s) (consumed s))
      else None
  | LThrUnlock i =>
      if thread_is s i CPushed
      then Some (mkState (pc s) None (queue s) (upd i CReleased (threads s)) (outstanding s) (consumed s))
      else None
  | LThrNotify i =>
      if thread_is s i CReleased
      then Some (mkState (wake (pc s)) (mutex s) (queue s) (upd i CDone (threads s)) (outstanding s) (consumed s))
      else None
  end.

Definition step : state -> label -> option state := step_gen false.
Definition step_broken : state -> label -> option state := step_gen true.

Fixpoint steps_gen (broken : bool) (s : state) (ls : list label) : option state :=
  match ls with
  | [] => Some s
  | l :: t => match step_gen broken s l with Some s' => steps_gen broken s' t | None => None end
  end.
Definition steps := steps_gen false.
Definition steps_broken := steps_gen true.

Definition init : state := mkState (ERun false) None [] [] 0 [].

Definition reachable (s : state) : Prop := exists ls, steps init ls = Some s.
Definition reachable_broken (s : state) : Prop := exists ls, steps_broken init ls = Some s.

(* index of the first label that is not enabled, for the harness *)
Fixpoint first_reject (broken : bool) (s : state) (ls : list label) (n : nat) : state + nat :=
  match ls with
  | [] => inl s
  | l :: t => match step_gen broken s l with Some s' => first_reject broken s' t (S n) | None => inr n end
  end.
Definition hs_run (broken : bool) (ls : list label) : state + nat := first_reject broken init ls 0.

(* labels that are neither an action of the environment (a new task, a cancellation, a broken cycle) nor a spurious wake-up:
   the steps the engine and the completers take on their own.  [progress] only uses these. *)
Definition internal (l : label) : bool :=
  match l with LSpawn | LCancel | LCycleContinue | LSpurious | LPeek => false | _ => true end.

(* classification of a completer's state *)
Definition holds_lock (o : option cstate) : bool :=
  match o with Some CHasLock | Some CPushed => true | _ => false end.
Definition has_pushed (o : option cstate) : bool :=
  match o with Some CPushed | Some CReleased | Some CDone => true | _ => false end.
Definition not_notified (o : option cstate) : bool :=
  match o with Some CPushed | Some CReleased => true | _ => false end.
Definition engine_holds (p : epc) : bool :=
  match p with EPollLocked _ | EWaitLocked _ | EWaitExit _ => true | _ => false end.
Definition in_wait_block (p : epc) : bool :=
  match p with EWaitLocked _ | EWaiting _ => true | _ => false end.
Definition all_done (s : state) : bool := forallb (fun c => cstate_eqb c CDone) (threads s).
Definition is_waiting (p : epc) : bool := match p with EWaiting _ => true | _ => false end.

(* steps a completer still has to take *)
Definition remaining (c : cstate) : nat :=
  match c with CIdle => 4 | CHasLock => 3 | CPushed => 2 | CReleased => 1 | CDone => 0 end.
Fixpoint work (l : list cstate) : nat := match l with [] => 0 | c :: t => remaining c + work t end.
