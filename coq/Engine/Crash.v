(* C04 - what a database looks like after the process died at an arbitrary point of a build.
   Definitions only (proofs: Engine/CrashProofs.v).

   Source read: /repo/lib/Core/SQLiteBuildDB.cpp and the four call sites in /repo/lib/Core/BuildEngine.cpp.
   One BuildEngine::build() call issues, in this order:
     buildStarted()            BEGIN EXCLUSIVE                                     -> Begin
     per finished task, setRuleResult(k, result):                                    (inside the transaction)
        getKeyID(k)            SELECT id FROM key_names / INSERT OR IGNORE INTO key_names   -> AddKey k
        getKeyID(d) for every recorded dependency d, in list order                         -> AddKey d ...
        INSERT OR REPLACE INTO rule_results (value, signature, epochs and the encoded
          dependency list travel in ONE row)                                               -> SetResult k r
     setCurrentIteration(e)    UPDATE info SET iteration = e  (after executeTasks, still inside)  -> SetIteration e
     buildComplete()           END (= COMMIT), then the connection is closed               -> Commit
   A build refused at entry (buildCancelled already set) issues only  Begin; Commit.
   A CANCELLED or CYCLE-FAILED build issues the same shape as a successful one: executeTasks() returns false after the
   tasks that completed before the cancellation went through setRuleResult, setCurrentIteration(e) is still called
   (it precedes the `if (!success) return` of build()), then END.  So its trace is [trace_of_build e completed] with
   [completed] = the results of the tasks that finished (a sub-list of what the whole build would have stored);
   [wf_trace] accepts it as it stands.  What must not happen is in [trace_failed_no_iteration].

   Atomicity of a SQLite transaction under process death (rollback journal, hot-journal recovery by the next
   connection) is NOT proved here: it is built into [recover], which returns the state as of the last [Commit]
   of the prefix of operations that were issued before the process died. *)
From LLB Require Import Engine.Rules.
Local Open Scope N_scope.

(* ---- the database *)
Record dbst := mkDb {
  rows : alist;            (* table rule_results: key -> Core::Result (value, signature, epochs, dependency list) *)
  key_names : list key;    (* table key_names (a set; dependency lists and rows refer to it) *)
  iteration : N            (* info.iteration *)
}.
Definition empty_db : dbst := mkDb [] [] 0.

Inductive dbop :=
| Begin
| AddKey (k : key)
| SetResult (k : key) (r : result)
| SetIteration (n : N)
| Commit.

Definition mem (k : key) (ks : list key) : bool := existsb (N.eqb k) ks.
(* SELECT ... / INSERT OR IGNORE: adding a present key changes nothing *)
Definition add_key (ks : list key) (k : key) : list key := if mem k ks then ks else ks ++ [k].

(* effect of one statement on the connection's view *)
Definition apply_op (st : dbst) (o : dbop) : dbst :=
  match o with
  | Begin => st
  | Commit => st
  | AddKey k => mkDb (rows st) (add_key (key_names st) k) (iteration st)
  | SetResult k r => mkDb (update (rows st) k r) (key_names st) (iteration st)
  | SetIteration n => mkDb (rows st) (key_names st) n
  end.

(* all statements of completed transactions applied *)
Definition apply_committed (st : dbst) (ops : list dbop) : dbst := fold_left apply_op ops st.

(* What the NEXT process finds when the previous one died after issuing exactly [ops]:
   c = durable (committed) state, w = the dying connection's view, intx = inside BEGIN..END.
   Statements outside an explicit transaction are committed one by one (SQLite autocommit). *)
Fixpoint recover_aux (c w : dbst) (intx : bool) (ops : list dbop) : dbst :=
  match ops with
  | [] => c
  | Begin :: t => recover_aux c c true t
  | Commit :: t => if intx then recover_aux w w false t else recover_aux c c false t
  | o :: t => if intx then recover_aux c (apply_op w o) true t
              else recover_aux (apply_op c o) (apply_op c o) false t
  end.
Definition recover (st : dbst) (ops : list dbop) : dbst := recover_aux st st false ops.

(* ---- the trace one build emits *)
Definition ops_of_result (kr : key * result) : list dbop :=
  AddKey (fst kr) :: map (fun d => AddKey (d_key d)) (res_deps (snd kr)) ++ [SetResult (fst kr) (snd kr)].

(* results: the (key, result) pairs handed to setRuleResult in the order the engine finished the tasks;
   e: the epoch of the build (currentEpoch after ++currentEpoch) *)
Definition trace_of_build (e : N) (results : list (key * result)) : list dbop :=
  Begin :: flat_map ops_of_result results ++ [SetIteration e; Commit].
Definition trace_refused : list dbop := [Begin; Commit].

(* every result stored during the build of epoch e was built at e and computed no later *)
Definition result_epochs_ok (e : N) (r : result) : bool := N.eqb (res_builtAt r) e && N.leb (res_computedAt r) e.
Definition results_ok (e : N) (results : list (key * result)) : bool :=
  forallb (fun kr => result_epochs_ok e (snd kr)) results.

(* ---- well-formed traces (as the code emits them), relative to the state the transaction starts from *)
Definition res_ok (e : N) (ks : list key) (k : key) (r : result) : bool :=
  result_epochs_ok e r && mem k ks && forallb (fun d => mem (d_key d) ks) (res_deps r).

(* the operations after Begin; ks = key_names as seen by the connection *)
Fixpoint wf_body (e : N) (ks : list key) (ops : list dbop) : bool :=
  match ops with
  | [] => false
  | AddKey k :: t => wf_body e (add_key ks k) t
  | SetResult k r :: t => res_ok e ks k r && wf_body e ks t
  | SetIteration m :: t => N.eqb m e && match t with [Commit] => true | _ => false end
  | Begin :: _ => false
  | Commit :: _ => false
  end.
Definition is_refused_tail (t : list dbop) : bool := match t with [Commit] => true | _ => false end.
Definition wf_trace (st : dbst) (ops : list dbop) : bool :=
  match ops with
  | Begin :: t => is_refused_tail t || wf_body (iteration st + 1) (key_names st) t
  | _ => false
  end.

(* ---- the invariant (clauses 1 and 2 of the property; clause 3 is [Provenance]) *)
Definition row_epochs_le (n : N) (kr : key * result) : Prop :=
  res_builtAt (snd kr) <= n /\ res_computedAt (snd kr) <= n.
Definition row_keys_in (ks : list key) (kr : key * result) : Prop :=
  In (fst kr) ks /\ Forall (fun d => In (d_key d) ks) (res_deps (snd kr)).
Record DbInv (st : dbst) : Prop := mkInv {
  inv_epochs : Forall (row_epochs_le (iteration st)) (rows st);   (* stored epoch >= every stored result's epochs *)
  inv_keys : Forall (row_keys_in (key_names st)) (rows st)        (* every row's key and every stored dependency is a stored key *)
}.

(* executable form of the invariant (used by the extracted model on observed states) *)
Definition row_epochs_le_b (n : N) (kr : key * result) : bool :=
  N.leb (res_builtAt (snd kr)) n && N.leb (res_computedAt (snd kr)) n.
Definition row_keys_in_b (ks : list key) (kr : key * result) : bool :=
  mem (fst kr) ks && forallb (fun d => mem (d_key d) ks) (res_deps (snd kr)).
Definition db_inv_b (st : dbst) : bool :=
  forallb (row_epochs_le_b (iteration st)) (rows st) && forallb (row_keys_in_b (key_names st)) (rows st).

(* clause 3: every stored row is the LAST (key, result) pair some setRuleResult call of a committed build emitted -
   value, epochs and dependency list of one and the same task execution *)
Definition emitted (ops : list dbop) : list (key * result) :=
  flat_map (fun o => match o with SetResult k r => [(k, r)] | _ => [] end) ops.
Definition store (m : alist) (kr : key * result) : alist := update m (fst kr) (snd kr).
Definition last_wins (log : list (key * result)) : alist := fold_left store log [].
Definition Provenance (log : list (key * result)) (st : dbst) : Prop := rows st = last_wins log.

(* ---- histories of process runs: each run issues one build trace, either completely or only its first n operations *)
Record run := mkRun { run_trace : list dbop; run_cut : option nat }.
Definition run_ops (r : run) : list dbop :=
  match run_cut r with None => run_trace r | Some n => firstn n (run_trace r) end.
Definition run_committed (r : run) : bool :=
  match run_cut r with None => true | Some n => Nat.leb (length (run_trace r)) n end.
Definition after_run (st : dbst) (r : run) : dbst := recover st (run_ops r).
Definition after_history (st : dbst) (rs : list run) : dbst := fold_left after_run rs st.
Fixpoint wf_history (st : dbst) (rs : list run) : bool :=
  match rs with
  | [] => true
  | r :: t => wf_trace st (run_trace r) && wf_history (after_run st r) t
  end.
Definition committed_log (rs : list run) : list (key * result) :=
  flat_map (fun r => if run_committed r then emitted (run_trace r) else []) rs.
(* the same history with every killed run removed and every surviving run whole *)
Definition uncrashed (rs : list run) : list run :=
  map (fun r => mkRun (run_trace r) None) (filter run_committed rs).

(* entry point of the correspondence check: state found after the first n operations of the concatenated traces of a
   history that started from an empty database *)
Definition recover_prefix (n : nat) (ops : list dbop) : dbst := recover empty_db (firstn n ops).

(* ---- counter-models: what the code must NOT do *)
(* setCurrentIteration moved after buildComplete: the iteration travels in a second transaction *)
Definition trace_iteration_after_commit (e : N) (results : list (key * result)) : list dbop :=
  Begin :: flat_map ops_of_result results ++ [Commit; Begin; SetIteration e; Commit].
(* every result committed on its own *)
Definition trace_commit_per_result (e : N) (results : list (key * result)) : list dbop :=
  flat_map (fun kr => Begin :: ops_of_result kr ++ [Commit]) results ++ [Begin; SetIteration e; Commit].
(* the database update moved behind the `!success` early return of build(): a cancelled / cycle-failed build commits
   the rows of its completed tasks but not its epoch *)
Definition trace_failed_no_iteration (e : N) (completed : list (key * result)) : list dbop :=
  Begin :: flat_map ops_of_result completed ++ [Commit].
