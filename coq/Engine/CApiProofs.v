(* Proofs about the C binding layer model (Engine/CApi.v). *)
From LLB Require Import Base.Bytes Engine.CApi.
Local Open Scope N_scope.

(* ------------------------------------------------------------------ blobs are copied byte for byte *)

Lemma firstn_length_app {A} (b rest : list A) : firstn (length b) (b ++ rest) = b.
Proof.
  induction b as [|x b IH]; cbn [length app firstn]; [reflexivity|]. rewrite IH. reflexivity.
Qed.

(* ANY byte list, including NUL bytes, whatever follows it in memory *)
Lemma copy_n_data_of b rest : copy_n (data_of b rest) = b.
Proof.
  unfold copy_n, data_of. cbn [d_length d_mem]. rewrite Nat2N.id. apply firstn_length_app.
Qed.

Lemma copy_n_out_string s : copy_n (out_string s) = s.
Proof. exact (copy_n_data_of s [0]). Qed.

Lemma copy_n_out_vector v : copy_n (out_vector v) = v.
Proof.
  unfold copy_n, out_vector. cbn [d_length d_mem]. rewrite Nat2N.id. apply firstn_all.
Qed.

Lemma valid_data_of b rest : valid_data (data_of b rest).
Proof. unfold valid_data, data_of. cbn [d_length d_mem]. rewrite Nat2N.id, app_length. lia. Qed.

Lemma copy_n_length d : valid_data d -> length (copy_n d) = N.to_nat (d_length d).
Proof. unfold valid_data, copy_n. intros H. apply firstn_length_le. exact H. Qed.

(* a key/value goes in through one call and comes back through a callback unchanged *)
Lemma key_roundtrip k rest : copy_n (out_string (copy_n (data_of k rest))) = k.
Proof. rewrite copy_n_data_of. apply copy_n_out_string. Qed.
Lemma value_roundtrip v rest : copy_n (out_vector (copy_n (data_of v rest))) = v.
Proof. rewrite copy_n_data_of. apply copy_n_out_vector. Qed.

(* ---- the C-string reading is a different function *)

Lemma c_str_nul_free m : nul_free (c_str m) = true.
Proof.
  induction m as [|b m IH]; cbn [c_str]; [reflexivity|].
  destruct (N.eqb b 0) eqn:E; [reflexivity|]. cbn [nul_free]. rewrite E, IH. reflexivity.
Qed.

Lemma nul_free_app a b : nul_free (a ++ b) = nul_free a && nul_free b.
Proof.
  induction a as [|x a IH]; cbn [app nul_free]; [reflexivity|]. rewrite IH. apply andb_assoc.
Qed.

(* a blob containing a NUL byte is never reproduced by the C-string reading *)
Lemma copy_cstr_loses_nul b rest : nul_free b = false -> copy_cstr (data_of b rest) <> b.
Proof.
  intros H E. pose proof (c_str_nul_free (d_mem (data_of b rest))) as N0.
  unfold copy_cstr in E. rewrite E in N0. rewrite N0 in H. discriminate.
Qed.

Lemma c_str_app_nul b rest : nul_free b = true -> c_str (b ++ 0 :: rest) = b.
Proof.
  induction b as [|x b IH]; intros H; cbn [app c_str]; [reflexivity|].
  cbn [nul_free] in H. apply andb_true_iff in H. destruct H as [Hx Hb].
  destruct (N.eqb x 0); [discriminate|]. rewrite IH by exact Hb. reflexivity.
Qed.

(* ... and it agrees with the length-based copy exactly on NUL-free blobs that happen to be followed by a terminator:
   the only inputs existing tests use *)
Lemma copy_cstr_agrees_nul_free b rest : nul_free b = true -> copy_cstr (data_of b (0 :: rest)) = b.
Proof. intros H. unfold copy_cstr, data_of. cbn [d_mem]. apply c_str_app_nul. exact H. Qed.

Lemma copy_cstr_differs_witness :
  exists b rest, copy_cstr (data_of b rest) <> b /\ copy_n (data_of b rest) = b.
Proof.
  exists [97; 0; 98], [0]. split; [|apply copy_n_data_of]. vm_compute. discriminate.
Qed.

(* without a terminator inside the blob the C-string reading runs past its end *)
Lemma copy_cstr_overreads_witness :
  exists b rest, (length b < length (copy_cstr (data_of b rest)))%nat.
Proof. exists [97; 98], [99; 100; 0]. vm_compute. lia. Qed.

(* ------------------------------------------------------------------ forward: every C argument reaches the C++ call *)

Lemma forward_attach_db e path rest v :
  forward (CAttachDB e (data_of path rest) v) = PAttachSQLite e path v true.
Proof. cbn [forward]. rewrite copy_n_data_of. reflexivity. Qed.
Lemma forward_build e key rest : forward (CBuild e (data_of key rest)) = PBuild e key.
Proof. cbn [forward]. rewrite copy_n_data_of. reflexivity. Qed.
Lemma forward_needs_input ti key rest id :
  forward (CTaskNeedsInput ti (data_of key rest) id) = PRequest (ti_in ti) key id.
Proof. cbn [forward]. rewrite copy_n_data_of. reflexivity. Qed.
Lemma forward_must_follow ti key rest :
  forward (CTaskMustFollow ti (data_of key rest)) = PMustFollow (ti_in ti) key.
Proof. cbn [forward]. rewrite copy_n_data_of. reflexivity. Qed.
Lemma forward_discovered ti key rest :
  forward (CTaskDiscoveredDependency ti (data_of key rest)) = PDiscoveredDependency (ti_in ti) key.
Proof. cbn [forward]. rewrite copy_n_data_of. reflexivity. Qed.
Lemma forward_is_complete ti value rest force :
  forward (CTaskIsComplete ti (data_of value rest) force) = PComplete (ti_in ti) value force.
Proof. cbn [forward]. rewrite copy_n_data_of. reflexivity. Qed.

Lemma forward_exact_image :
  (forall e path rest v, forward (CAttachDB e (data_of path rest) v) = PAttachSQLite e path v true) /\
  (forall e key rest, forward (CBuild e (data_of key rest)) = PBuild e key) /\
  (forall ti key rest id, forward (CTaskNeedsInput ti (data_of key rest) id) = PRequest (ti_in ti) key id) /\
  (forall ti key rest, forward (CTaskMustFollow ti (data_of key rest)) = PMustFollow (ti_in ti) key) /\
  (forall ti key rest, forward (CTaskDiscoveredDependency ti (data_of key rest)) = PDiscoveredDependency (ti_in ti) key) /\
  (forall ti value rest force, forward (CTaskIsComplete ti (data_of value rest) force) = PComplete (ti_in ti) value force).
Proof.
  split; [exact forward_attach_db|]. split; [exact forward_build|]. split; [exact forward_needs_input|].
  split; [exact forward_must_follow|]. split; [exact forward_discovered|]. exact forward_is_complete.
Qed.

Lemma ti_in_inj a b : ti_in a = ti_in b -> a = b.
Proof. destruct a, b. unfold ti_in. cbn. intros H. inversion H. reflexivity. Qed.
Lemma ti_out_in t : ti_out (ti_in t) = t.
Proof. destruct t. reflexivity. Qed.
Lemma ti_in_out t : ti_in (ti_out t) = t.
Proof. destruct t. reflexivity. Qed.

(* no argument is dropped, fixed or merged with another *)
Lemma forward_injective a b : forward a = forward b -> same_call a b.
Proof.
  destruct a as [e p v|e k|[t1 t2] k i|[t1 t2] k|[t1 t2] k|[t1 t2] v f],
           b as [e' p' v'|e' k'|[t1' t2'] k' i'|[t1' t2'] k'|[t1' t2'] k'|[t1' t2'] v' f'];
    cbn [forward same_call ti_in cti_impl cti_ctx]; intros H; try discriminate H;
    injection H; intros; subst; unfold same_data; repeat split; (assumption || reflexivity).
Qed.

Lemma forward_complete a b : same_call a b -> forward a = forward b.
Proof.
  destruct a as [e p v|e k|t k i|t k|t k|t v f], b as [e' p' v'|e' k'|t' k' i'|t' k'|t' k'|t' v' f'];
    cbn [forward same_call]; unfold same_data; intros H; try contradiction.
  - destruct H as [H1 [H2 H3]]. rewrite H1, H2, H3. reflexivity.
  - destruct H as [H1 H2]. rewrite H1, H2. reflexivity.
  - destruct H as [H1 [H2 H3]]. rewrite H1, H2, H3. reflexivity.
  - destruct H as [H1 H2]. rewrite H1, H2. reflexivity.
  - destruct H as [H1 H2]. rewrite H1, H2. reflexivity.
  - destruct H as [H1 [H2 H3]]. rewrite H1, H2, H3. reflexivity.
Qed.

Lemma exact_data_eq a b : exact_data a -> exact_data b -> copy_n a = copy_n b -> a = b.
Proof.
  destruct a as [la ma], b as [lb mb]. unfold exact_data, copy_n. cbn [d_length d_mem]. intros Ha Hb H.
  rewrite <- Ha, <- Hb in H. rewrite !firstn_all in H. subst mb.
  assert (E : la = lb) by (apply N2Nat.inj; rewrite <- Ha, <- Hb; reflexivity).
  subst lb. reflexivity.
Qed.

(* literal injectivity, for clients whose blobs are modelled without trailing memory *)
Lemma forward_injective_exact a b : exact_call a -> exact_call b -> forward a = forward b -> a = b.
Proof.
  intros Ea Eb H. apply forward_injective in H.
  destruct a as [e p v|e k|t k i|t k|t k|t v f], b as [e' p' v'|e' k'|t' k' i'|t' k'|t' k'|t' v' f'];
    cbn [same_call] in H; try contradiction; unfold exact_call in Ea, Eb; cbn [call_blob] in Ea, Eb; unfold same_data in H.
  - destruct H as [H1 [H2 H3]]. rewrite (exact_data_eq _ _ Ea Eb H2), H1, H3. reflexivity.
  - destruct H as [H1 H2]. rewrite (exact_data_eq _ _ Ea Eb H2), H1. reflexivity.
  - destruct H as [H1 [H2 H3]]. rewrite (exact_data_eq _ _ Ea Eb H2), H1, H3. reflexivity.
  - destruct H as [H1 H2]. rewrite (exact_data_eq _ _ Ea Eb H2), H1. reflexivity.
  - destruct H as [H1 H2]. rewrite (exact_data_eq _ _ Ea Eb H2), H1. reflexivity.
  - destruct H as [H1 [H2 H3]]. rewrite (exact_data_eq _ _ Ea Eb H2), H1, H3. reflexivity.
Qed.

(* the individual arguments the property text names *)
Lemma force_change_reaches_complete ti v rest f ti' v' f' :
  forward (CTaskIsComplete ti (data_of v rest) f) = PComplete ti' v' f' -> f' = f /\ v' = v /\ ti' = ti_in ti.
Proof. rewrite forward_is_complete. intros H. inversion H. repeat split. Qed.

Lemma schema_version_reaches_attach e path rest v e' path' v' r :
  forward (CAttachDB e (data_of path rest) v) = PAttachSQLite e' path' v' r -> v' = v /\ path' = path /\ r = true.
Proof. rewrite forward_attach_db. intros H. inversion H. repeat split. Qed.

Lemma input_id_reaches_request ti key rest id ti' key' id' :
  forward (CTaskNeedsInput ti (data_of key rest) id) = PRequest ti' key' id' -> id' = id /\ key' = key.
Proof. rewrite forward_needs_input. intros H. inversion H. repeat split. Qed.

(* ---- the unrepaired file and the hypothetical deviations are NOT faithful *)

Lemma forward_v0_drops_force_change : exists a b, a <> b /\ ~ same_call a b /\ forward_v0 a = forward_v0 b.
Proof.
  exists (CTaskIsComplete (mkCTi 1 2) (data_of [7] []) true), (CTaskIsComplete (mkCTi 1 2) (data_of [7] []) false).
  split; [discriminate|]. split; [|reflexivity].
  cbn [same_call]. intros [_ [_ H]]. discriminate H.
Qed.

Lemma forward_v0_agrees_without_force c :
  (forall ti v, c <> CTaskIsComplete ti v true) -> forward_v0 c = forward c.
Proof.
  intros H. destruct c as [e p v|e k|t k i|t k|t k|t v f]; try reflexivity.
  destruct f; [|reflexivity]. exfalso. apply (H t v). reflexivity.
Qed.

Lemma forward_cstr_follow_conflates : exists a b, ~ same_call a b /\ forward_cstr_follow a = forward_cstr_follow b.
Proof.
  exists (CTaskMustFollow (mkCTi 1 2) (data_of [97; 0; 98] [0])), (CTaskMustFollow (mkCTi 1 2) (data_of [97; 0; 99] [0])).
  split; [|reflexivity]. cbn [same_call]. unfold same_data. rewrite !copy_n_data_of. intros [_ H]. discriminate H.
Qed.

Lemma forward_id32_conflates : exists a b, wf_call a /\ wf_call b /\ ~ same_call a b /\ forward_id32 a = forward_id32 b.
Proof.
  exists (CTaskNeedsInput (mkCTi 1 2) (data_of [97] []) 4294967301), (CTaskNeedsInput (mkCTi 1 2) (data_of [97] []) 5).
  split; [split; [apply valid_data_of | reflexivity]|].
  split; [split; [apply valid_data_of | reflexivity]|].
  split; [|reflexivity]. cbn [same_call]. intros [_ [_ H]]. discriminate H.
Qed.

Lemma forward_noschema_conflates : exists a b, ~ same_call a b /\ forward_noschema a = forward_noschema b.
Proof.
  exists (CAttachDB 1 (data_of [100; 98] []) 7), (CAttachDB 1 (data_of [100; 98] []) 8).
  split; [|reflexivity]. cbn [same_call]. intros [_ [_ H]]. discriminate H.
Qed.

Lemma force_change_reaches_complete_empty ti rest f :
  forward (CTaskIsComplete ti (data_of [] rest) f) = PComplete (ti_in ti) [] f.
Proof. exact (forward_is_complete ti [] rest f). Qed.

Lemma forward_empty_noforce_conflates : exists a b, ~ same_call a b /\ forward_empty_noforce a = forward_empty_noforce b.
Proof.
  exists (CTaskIsComplete (mkCTi 1 2) (data_of [] []) true), (CTaskIsComplete (mkCTi 1 2) (data_of [] []) false).
  split; [|reflexivity]. cbn [same_call]. intros [_ [_ H]]. discriminate H.
Qed.

(* ------------------------------------------------------------------ backward: what the C client is shown *)

Lemma backward_lookup_rule e key : option_map view (backward e (BLookupRule key)) = Some (VLookupRule e key).
Proof. cbn [backward option_map view]. rewrite copy_n_out_string. reflexivity. Qed.

Lemma backward_create_task e ec key r :
  option_map view (backward e (BCreateTask (wrap_rule ec key r))) = Some (VCreateTask (cr_context r) ec).
Proof. reflexivity. Qed.

Lemma backward_is_result_valid e ec key r v :
  cr_has_valid r = true ->
  option_map view (backward e (BIsResultValid (wrap_rule ec key r) v)) = Some (VIsResultValid (cr_context r) ec (cr_context r) v).
Proof.
  intros H. cbn [backward wrap_rule ar_rule ar_engine_context]. rewrite H. cbn [option_map view]. rewrite copy_n_out_vector. reflexivity.
Qed.

Lemma backward_is_result_valid_null e ec key r v :
  cr_has_valid r = false ->
  backward e (BIsResultValid (wrap_rule ec key r) v) = None /\ forall answer, valid_answer r answer = true.
Proof.
  intros H. split.
  - cbn [backward wrap_rule ar_rule]. rewrite H. reflexivity.
  - intros answer. unfold valid_answer. rewrite H. reflexivity.
Qed.

Lemma backward_update_status e ec key r s :
  cr_has_status r = true ->
  option_map view (backward e (BUpdateStatus (wrap_rule ec key r) s)) = Some (VUpdateStatus (cr_context r) ec s).
Proof. intros H. cbn [backward wrap_rule ar_rule ar_engine_context]. rewrite H. reflexivity. Qed.

Lemma backward_start e t ti : option_map view (backward e (BStart t ti)) = Some (VStart (ct_context t) e (ti_out ti)).
Proof. reflexivity. Qed.

Lemma backward_provide_value e t ti id key v :
  option_map view (backward e (BProvideValue t ti id key v)) = Some (VProvideValue (ct_context t) e (ti_out ti) id v).
Proof. cbn [backward option_map view]. rewrite copy_n_out_vector. reflexivity. Qed.

Lemma backward_inputs_available e t ti :
  option_map view (backward e (BInputsAvailable t ti)) = Some (VInputsAvailable (ct_context t) e (ti_out ti)).
Proof. reflexivity. Qed.

Lemma map_copy_n_out_string keys : map copy_n (map out_string keys) = keys.
Proof.
  induction keys as [|k keys IH]; cbn [map]; [reflexivity|]. rewrite copy_n_out_string, IH. reflexivity.
Qed.

Lemma backward_cycle_detected e keys :
  option_map view (backward e (BCycleDetected keys)) = Some (VCycleDetected e keys).
Proof.
  cbn [backward option_map view]. rewrite Nat2N.id, map_copy_n_out_string.
  rewrite firstn_all. reflexivity.
Qed.

Lemma backward_error e m : backward e (BError m) = Some (KError e (c_str m)).
Proof. reflexivity. Qed.

Lemma backward_faithful :
  (forall e key, option_map view (backward e (BLookupRule key)) = Some (VLookupRule e key)) /\
  (forall e ec key r, option_map view (backward e (BCreateTask (wrap_rule ec key r))) = Some (VCreateTask (cr_context r) ec)) /\
  (forall e ec key r v, cr_has_valid r = true ->
     option_map view (backward e (BIsResultValid (wrap_rule ec key r) v)) = Some (VIsResultValid (cr_context r) ec (cr_context r) v)) /\
  (forall e ec key r s, cr_has_status r = true ->
     option_map view (backward e (BUpdateStatus (wrap_rule ec key r) s)) = Some (VUpdateStatus (cr_context r) ec s)) /\
  (forall e t ti, option_map view (backward e (BStart t ti)) = Some (VStart (ct_context t) e (ti_out ti))) /\
  (forall e t ti id key v,
     option_map view (backward e (BProvideValue t ti id key v)) = Some (VProvideValue (ct_context t) e (ti_out ti) id v)) /\
  (forall e t ti, option_map view (backward e (BInputsAvailable t ti)) = Some (VInputsAvailable (ct_context t) e (ti_out ti))) /\
  (forall e keys, option_map view (backward e (BCycleDetected keys)) = Some (VCycleDetected e keys)).
Proof.
  split; [exact backward_lookup_rule|]. split; [exact backward_create_task|]. split; [exact backward_is_result_valid|].
  split; [exact backward_update_status|]. split; [exact backward_start|]. split; [exact backward_provide_value|].
  split; [exact backward_inputs_available|]. exact backward_cycle_detected.
Qed.

(* ---- what the C interface does not carry (the behaviour of the current code) *)

(* provideValue's key argument is not handed to the C callback: two deliveries differing only in the key look alike *)
Lemma backward_provide_drops_key :
  exists e a b, a <> b /\ backward e a = backward e b /\ backward e a <> None.
Proof.
  exists 0, (BProvideValue (mkCTask 0) (mkTi 1 2) 0 [97] [1]), (BProvideValue (mkCTask 0) (mkTi 1 2) 0 [98] [1]).
  split; [discriminate|]. split; [reflexivity|discriminate].
Qed.

(* the prior value and the reason a rule runs are never shown to a C client *)
Lemma backward_no_prior_value e t ti v : backward e (BProvidePriorValue t ti v) = None.
Proof. reflexivity. Qed.
Lemma backward_no_run_reason e k r i : backward e (BNeedsToRun k r i) = None.
Proof. reflexivity. Qed.

(* a rule made through the C interface has the null signature and the key the engine looked up; llb_rule_t.key is ignored *)
Lemma wrap_rule_signature_null ec key r : ar_signature (wrap_rule ec key r) = 0.
Proof. reflexivity. Qed.
Lemma wrap_rule_key_is_lookup_key ec key r : ar_key (wrap_rule ec key r) = key.
Proof. reflexivity. Qed.
Lemma wrap_rule_ignores_key_field :
  exists ec key r1 r2, cr_key r1 <> cr_key r2 /\
    ar_key (wrap_rule ec key r1) = ar_key (wrap_rule ec key r2) /\ ar_signature (wrap_rule ec key r1) = ar_signature (wrap_rule ec key r2).
Proof.
  exists 0, [97], (mkCRule 0 (data_of [97] []) true true), (mkCRule 0 (data_of [98] []) true true).
  split; [discriminate|]. split; reflexivity.
Qed.

(* diagnostics travel as C strings: a message is cut at its first NUL byte (messages are not keys or values) *)
Lemma backward_error_truncates : exists e m, backward e (BError m) = Some (KError e (c_str m)) /\ c_str m <> m.
Proof. exists 0, [97; 0; 98]. split; [reflexivity|]. vm_compute. discriminate. Qed.
Lemma backward_error_nul_free e m : nul_free m = true -> backward e (BError m) = Some (KError e m).
Proof.
  intros H. cbn [backward]. f_equal. f_equal.
  induction m as [|b m IH]; cbn [c_str]; [reflexivity|].
  cbn [nul_free] in H. apply andb_true_iff in H. destruct H as [Hb Hm].
  destruct (N.eqb b 0); [discriminate|]. rewrite IH by exact Hm. reflexivity.
Qed.

(* is_result_valid: every stored value - of any length, the empty one included - is shown to the client unchanged and the
   client's answer is the engine's answer *)
Lemma capi_valid_forwarded r client v : cr_has_valid r = true -> valid_thunk r client v = client v.
Proof. intros H. unfold valid_thunk. rewrite H, copy_n_out_vector. reflexivity. Qed.

Lemma capi_valid_consulted_on_empty e ec key r :
  cr_has_valid r = true ->
  option_map view (backward e (BIsResultValid (wrap_rule ec key r) [])) = Some (VIsResultValid (cr_context r) ec (cr_context r) []).
Proof. intros H. exact (backward_is_result_valid e ec key r [] H). Qed.

Lemma valid_thunk_null_callback r client v : cr_has_valid r = false -> valid_thunk r client v = true.
Proof. intros H. unfold valid_thunk. rewrite H. reflexivity. Qed.

Lemma valid_thunk_skip_empty_refuted :
  exists r client v, cr_has_valid r = true /\ valid_thunk_skip_empty r client v <> client v /\ valid_thunk r client v = client v.
Proof.
  exists (mkCRule 0 (data_of [] []) true true), (fun _ => true), []. split; [reflexivity|]. split; [|reflexivity].
  cbn. discriminate.
Qed.

Lemma valid_thunk_skip_empty_agrees_nonempty r client b v :
  valid_thunk_skip_empty r client (b :: v) = valid_thunk r client (b :: v).
Proof. reflexivity. Qed.

(* input ids: exactly the ids up to and including kMaximumInputID are the client's, and each of them is delivered *)
Lemma capi_input_id_ok_spec id : capi_input_id_ok id = true <-> id <= kMaximumInputID.
Proof. unfold capi_input_id_ok. apply N.leb_le. Qed.

Lemma capi_accepted_id_delivered e t ti key rest id v :
  id <= kMaximumInputID ->
  option_map view (request_then_provide e t ti (data_of key rest) id v) = Some (VProvideValue (ct_context t) e ti id v).
Proof.
  intros H. unfold request_then_provide. rewrite forward_needs_input.
  apply capi_input_id_ok_spec in H. rewrite H. rewrite backward_provide_value, ti_out_in. reflexivity.
Qed.

Lemma capi_reserved_id_rejected e t ti key id v : kMaximumInputID < id -> request_then_provide e t ti key id v = None.
Proof.
  intros H. unfold request_then_provide. cbn [forward]. unfold capi_input_id_ok.
  destruct (N.leb_spec id kMaximumInputID) as [L|_]; [lia|reflexivity].
Qed.

Lemma backward_provide_guard_ge_refuted :
  exists e t ti id key v, capi_input_id_ok id = true /\ backward_provide_guard_ge e t ti id key v = None /\
                          backward e (BProvideValue t ti id key v) <> None.
Proof.
  exists 0, (mkCTask 0), (mkTi 1 2), kMaximumInputID, [97], [1]. split; [reflexivity|]. split; [reflexivity|discriminate].
Qed.

Lemma backward_provide_guard_ge_agrees_below e t ti id key v :
  id < kMaximumInputID -> backward_provide_guard_ge e t ti id key v = backward e (BProvideValue t ti id key v).
Proof.
  intros H. unfold backward_provide_guard_ge. destruct (N.leb_spec kMaximumInputID id) as [L|_]; [lia|reflexivity].
Qed.

Example ex_max_id_delivered :
  option_map view (request_then_provide 3 (mkCTask 4) (mkCTi 1 2) (data_of [105; 0] [0]) kMaximumInputID [9])
  = Some (VProvideValue 4 3 (mkCTi 1 2) 18446744073709551360 [9]).
Proof. vm_compute. reflexivity. Qed.

Lemma capi_status_all_forwarded e ec key r ss :
  cr_has_status r = true ->
  status_trace e (wrap_rule ec key r) ss = map (fun s => Some (VUpdateStatus (cr_context r) ec s)) ss.
Proof.
  intros H. unfold status_trace. apply map_ext. intros s. apply backward_update_status. exact H.
Qed.

(* scanning (0) reported in a build abandoned on a cycle, scanning again in the next build: the second one would be lost *)
Lemma dedup_statuses_refuted : exists ss, dedup_statuses None ss <> ss.
Proof. exists [0; 0; 2]. vm_compute. discriminate. Qed.

Lemma build_result_exact v : copy_n (build_result v) = v.
Proof. apply copy_n_out_vector. Qed.

(* ------------------------------------------------------------------ the serialised forms used by the check *)

Lemma forward_tagged_spec tag b rest num flag c :
  ccall_of_tag tag (data_of b rest) num flag = Some c ->
  forward_tagged tag (N.of_nat (length b)) (b ++ rest) num flag = Some (tag_of_cpp (forward c)).
Proof. intros H. unfold forward_tagged. fold (data_of b rest). rewrite H. reflexivity. Qed.

Lemma backward_provide_spec id key v : backward_provide id key v = Some (id, v).
Proof. unfold backward_provide. cbn [backward view]. rewrite copy_n_out_vector. reflexivity. Qed.
Lemma backward_lookup_spec key : backward_lookup key = Some key.
Proof. unfold backward_lookup. cbn [backward view]. rewrite copy_n_out_string. reflexivity. Qed.
Lemma backward_cycle_spec keys : backward_cycle keys = Some keys.
Proof.
  unfold backward_cycle. cbn [backward view]. rewrite Nat2N.id, map_copy_n_out_string, firstn_all. reflexivity.
Qed.

Lemma forward_injective_iff a b : forward a = forward b <-> same_call a b.
Proof. split; [exact (forward_injective a b) | exact (forward_complete a b)]. Qed.

Lemma wrap_rule_null_signature_lookup_key ec key r :
  ar_signature (wrap_rule ec key r) = 0 /\ ar_key (wrap_rule ec key r) = key.
Proof. split; reflexivity. Qed.

Lemma serialised_backward_spec id key v keys :
  backward_provide id key v = Some (id, v) /\ backward_lookup key = Some key /\ backward_cycle keys = Some keys.
Proof.
  split; [exact (backward_provide_spec id key v)|].
  split; [exact (backward_lookup_spec key) | exact (backward_cycle_spec keys)].
Qed.

(* the names used by the task description *)
Lemma bytes_preserved b rest : copy_n (data_of b rest) = b.
Proof. exact (copy_n_data_of b rest). Qed.
Lemma forward_faithful :
  (forall a b, forward a = forward b <-> same_call a b) /\
  (forall a b, exact_call a -> exact_call b -> forward a = forward b -> a = b).
Proof. split; [exact forward_injective_iff | exact forward_injective_exact]. Qed.

(* ------------------------------------------------------------------ non-vacuity *)

Example ex_forward_nul_key :
  forward (CTaskNeedsInput (mkCTi 5 6) (data_of [97; 0; 98; 0] [0; 77]) 18446744073709551359)
  = PRequest (mkTi 5 6) [97; 0; 98; 0] 18446744073709551359.
Proof. vm_compute. reflexivity. Qed.
Example ex_wf_nul_key : wf_call (CTaskNeedsInput (mkCTi 5 6) (data_of [97; 0; 98; 0] [0; 77]) 18446744073709551359).
Proof. split; [apply valid_data_of | reflexivity]. Qed.
Example ex_forward_empty_key : forward (CBuild 9 (data_of [] [1; 2; 3])) = PBuild 9 [].
Proof. vm_compute. reflexivity. Qed.
Example ex_exact : exact_call (CTaskIsComplete (mkCTi 1 2) (data_of [0; 0; 1] []) true).
Proof. vm_compute. reflexivity. Qed.
Example ex_same_call_junk :
  same_call (CTaskMustFollow (mkCTi 1 2) (data_of [0; 1] [5])) (CTaskMustFollow (mkCTi 1 2) (data_of [0; 1] [6; 7])).
Proof. split; reflexivity. Qed.
Example ex_backward_provide :
  option_map view (backward 3 (BProvideValue (mkCTask 4) (mkTi 1 2) 4294967296 [107; 0] [0; 255; 0]))
  = Some (VProvideValue 4 3 (mkCTi 1 2) 4294967296 [0; 255; 0]).
Proof. vm_compute. reflexivity. Qed.
Example ex_cstr_agree : copy_cstr (data_of [97; 98] [0; 9]) = [97; 98].
Proof. vm_compute. reflexivity. Qed.
Example ex_valid_null_callback : cr_has_valid (mkCRule 0 (data_of [] []) false true) = false.
Proof. reflexivity. Qed.
Example ex_valid_empty_asked :
  valid_thunk (mkCRule 0 (data_of [] []) true true) (fun v => match v with [] => true | _ => false end) [] = true.
Proof. reflexivity. Qed.
