(* P19 - part 2: a recorded fault is never erased (nf (f s) -> nf s for every function of the model). *)
From LLB Require Import Engine.Rules Engine.Spec Engine.Impl Engine.ImplProofs.
From Coq Require Import Arith.
Local Open Scope N_scope.

Ltac nfs := unfold nf in *; autorewrite with iv in *; auto.

Lemma nf_touch s k : nf (touch s k) <-> nf s. Proof. unfold nf. now autorewrite with iv. Qed.
Lemma nf_set_ri s k ri : nf (set_ri s k ri) <-> nf s. Proof. unfold nf. now autorewrite with iv. Qed.
Lemma nf_mod_ri s k f : nf (mod_ri s k f) <-> nf s. Proof. unfold nf. now autorewrite with iv. Qed.
Lemma nf_set_ti s k ti : nf (set_ti s k ti) <-> nf s. Proof. unfold nf. now autorewrite with iv. Qed.
Lemma nf_set_kind s k kd : nf (set_kind s k kd) <-> nf s. Proof. unfold nf. now autorewrite with iv. Qed.
Lemma nf_set_res s k r : nf (set_res s k r) <-> nf s. Proof. unfold nf. now autorewrite with iv. Qed.
Lemma nf_set_complete s k : nf (set_complete s k) <-> nf s. Proof. unfold nf. now autorewrite with iv. Qed.
Lemma nf_iemit s e : nf (iemit s e) <-> nf s. Proof. unfold nf. now autorewrite with iv. Qed.
Lemma nf_push_inreq s rq : nf (push_inreq s rq) <-> nf s. Proof. unfold nf. now autorewrite with iv. Qed.
Lemma nf_fault_elim s c (P : Prop) : nf (fault s c) -> P. Proof. intros H. now apply nf_fault in H. Qed.
Lemma sticky_check s b c : nf (check s b c) -> nf s. Proof. intros H. now apply nf_check in H. Qed.
Lemma sticky_mod_ti s t f : nf (mod_ti s t f) -> nf s. Proof. intros H. now apply nf_mod_ti in H. Qed.

Lemma sticky_add_request s t inp slot o sg : nf (add_request s t inp slot o sg) -> nf s.
Proof.
  unfold add_request. destruct (aget (is_tasks s) t); [|apply nf_fault_elim].
  destruct (negb (kind_eqb (kind_of s t) KWaiting)); [apply nf_fault_elim|].
  intros H. apply sticky_mod_ti in H. nfs.
Qed.

Lemma sticky_add_reqs ks : forall s t slot sg, nf (add_reqs s t ks slot sg) -> nf s.
Proof. induction ks as [|x ks IH]; cbn [add_reqs]; auto. intros s t slot sg H. apply IH in H. now apply sticky_add_request in H. Qed.
Lemma sticky_add_follows ks : forall s t, nf (add_follows s t ks) -> nf s.
Proof. induction ks as [|x ks IH]; cbn [add_follows]; auto. intros s t H. apply IH in H. now apply sticky_add_request in H. Qed.
Lemma sticky_start_group rules s t c : nf (start_group rules s t c) -> nf s.
Proof. unfold start_group. destruct c; [apply sticky_add_reqs|apply sticky_add_reqs|apply sticky_add_follows]. Qed.

Lemma sticky_fold {A} (f : istate -> A -> istate) (Hf : forall s a, nf (f s a) -> nf s) l : forall s, nf (fold_left f l s) -> nf s.
Proof. induction l as [|a l IH]; cbn [fold_left]; auto. intros s H. apply IH in H. now apply Hf in H. Qed.

Lemma sticky_task_start rules ord s t : nf (task_start rules ord s t) -> nf s.
Proof.
  unfold task_start. intros H. apply sticky_fold in H; [|intros; eapply sticky_start_group; eauto].
  apply sticky_mod_ti in H. nfs.
Qed.

Lemma sticky_branch_reqs ks : forall s t, nf (branch_reqs s t ks) -> nf s.
Proof.
  induction ks as [|x ks IH]; cbn [branch_reqs]; auto. intros s t H.
  destruct (aget (is_tasks s) t); [|now apply nf_fault in H].
  apply IH in H. apply sticky_add_request in H. nfs.
Qed.

Lemma sticky_provide_value rules s t slot inp v : nf (provide_value rules s t slot inp v) -> nf s.
Proof.
  unfold provide_value. destruct (aget (is_tasks (iemit s (EProvide t slot inp v))) t) as [ti|]; [|apply nf_fault_elim].
  destruct (branch_fire rules t ti slot v); intros H.
  - apply sticky_branch_reqs in H. nfs.
  - nfs.
Qed.

Lemma sticky_discovered s t d : nf (discovered s t d) -> nf s.
Proof.
  unfold discovered. destruct (aget (is_tasks s) t); [|apply nf_fault_elim].
  destruct (negb _); [apply nf_fault_elim|]. apply sticky_mod_ti.
Qed.

Lemma sticky_task_is_complete rules s t v : nf (task_is_complete rules s t v) -> nf s.
Proof. unfold task_is_complete. destruct (negb _); [apply nf_fault_elim|]. cbn zeta. intros H. nfs. Qed.

Lemma sticky_task_finish rules s t : nf (task_finish rules s t) -> nf s.
Proof.
  unfold task_finish. destruct (aget (is_tasks s) t) as [ti|]; auto. destruct (ti_pending ti); auto.
  intros H. apply sticky_task_is_complete in H. apply nf_iemit in H.
  apply sticky_fold in H; [|intros; eapply sticky_discovered; eauto]. nfs.
Qed.

Lemma sticky_avail_body rules env F syncp s t : nf (avail_body rules env F syncp s t) -> nf s.
Proof.
  unfold avail_body. destruct (aget (is_tasks s) t); [|apply nf_fault_elim].
  destruct (syncp t); intros H; [apply sticky_task_finish in H|]; nfs.
Qed.
Lemma sticky_inputs_available rules env F syncp s t : nf (inputs_available rules env F syncp s t) -> nf s.
Proof. unfold inputs_available. intros H. apply sticky_avail_body in H. nfs. Qed.

Lemma nf_need s k r i : nf (need s k r i) <-> nf s.
Proof. unfold need. rewrite nf_iemit. apply nf_set_kind. Qed.

Lemma sticky_scan_rule rules env s k : nf (snd (scan_rule rules env s k)) -> nf s.
Proof.
  unfold scan_rule. destruct (is_scanned s k); auto. destruct (kind_eqb _ _); auto. cbn zeta.
  destruct (N.eqb _ 0); [cbn [snd]; rewrite nf_need; apply nf_mod_ri|].
  destruct (ri_cancelled _); [cbn [snd]; rewrite nf_need; apply nf_mod_ri|].
  destruct (negb (N.eqb _ _)); [cbn [snd]; rewrite nf_need; apply nf_mod_ri|].
  destruct (negb (valid _ _ _ _)); [cbn [snd]; rewrite nf_need, nf_iemit; apply nf_mod_ri|].
  destruct (res_deps _); cbn [snd]; intros H; nfs.
Qed.

Lemma sticky_prior_value rules s k : nf (prior_value rules s k) -> nf s.
Proof. unfold prior_value. cbn zeta. destruct (_ && _); auto; try apply nf_iemit. Qed.
Lemma sticky_ready_if_nowait s k : nf (ready_if_nowait s k) -> nf s.
Proof. unfold ready_if_nowait. destruct (aget _ _) as [ti|]; [|apply nf_fault_elim]. destruct (Nat.eqb _ _); nfs. Qed.
Lemma sticky_begin_task s k : nf (begin_task s k) -> nf s.
Proof. unfold begin_task. intros H. nfs. Qed.

Lemma sticky_create_task rules ord s k : nf (create_task rules ord s k) -> nf s.
Proof.
  unfold create_task. cbn zeta. intros H. apply sticky_ready_if_nowait, sticky_prior_value, sticky_task_start, sticky_begin_task in H.
  now apply sticky_check in H.
Qed.

Lemma sticky_demand_rule rules ord s k : nf (snd (demand_rule rules ord s k)) -> nf s.
Proof.
  unfold demand_rule. destruct (is_complete s k); auto. destruct (is_in_progress s k); auto.
  destruct (kind_eqb (kind_of s k) KDoesNotNeedToRun); cbn [snd]; [apply nf_set_complete|apply sticky_create_task].
Qed.

Lemma sticky_finish_scan s k kd : nf (finish_scan s k kd) -> nf s.
Proof. unfold finish_scan. cbn zeta. intros H. apply nf_mod_ri in H. unfold wake_scan_record in H. nfs. now apply sticky_check in H. Qed.
Lemma sticky_defer_on_rule s inp rq : nf (defer_on_rule s inp rq) -> nf s.
Proof. unfold defer_on_rule. intros H. apply nf_mod_ri in H. now apply sticky_check in H. Qed.
Lemma sticky_pause_on_rule s inp rq : nf (pause_on_rule s inp rq) -> nf s.
Proof. unfold pause_on_rule. intros H. apply nf_mod_ri in H. now apply sticky_check in H. Qed.
Lemma sticky_defer_on_task s inp rq : nf (defer_on_task s inp rq) -> nf s.
Proof. apply sticky_mod_ti. Qed.

Lemma sticky_scan_inputs rules env ord ds : forall s rq, nf (scan_inputs rules env ord s rq ds) -> nf s.
Proof.
  induction ds as [|d ds IH]; intros s rq; cbn [scan_inputs]; [apply nf_fault_elim|]. cbn zeta.
  destruct (scan_rule rules env (touch s (request_input rq d)) (request_input rq d)) as [b1 s1] eqn:E1.
  assert (H1 : nf s1 -> nf s).
  { intros H. apply nf_touch with (k := request_input rq d). apply sticky_scan_rule with (rules := rules) (env := env) (k := request_input rq d). now rewrite E1. }
  destruct b1; [|intros H; apply H1; eapply sticky_defer_on_rule; eauto].
  destruct (demand_rule rules ord s1 (request_input rq d)) as [b2 s2] eqn:E2.
  assert (H2 : nf s2 -> nf s1).
  { intros H. apply sticky_demand_rule with (rules := rules) (ord := ord) (k := request_input rq d). now rewrite E2. }
  destruct b2; [|intros H; apply H1, H2; eapply sticky_defer_on_task; eauto].
  destruct (_ && _).
  - intros H. apply nf_iemit, sticky_finish_scan in H. auto.
  - destruct ds; intros H; [apply sticky_finish_scan in H|apply IH in H]; auto.
Qed.

Lemma sticky_process_scan_request rules env ord s rq : nf (process_scan_request rules env ord s rq) -> nf s.
Proof. unfold process_scan_request. destruct (negb _); auto. apply sticky_scan_inputs. Qed.

Lemma sticky_step_scan rules env ord s : nf (step_scan rules env ord s) -> nf s.
Proof. unfold step_scan. destruct (is_toscan s) eqn:E; auto. intros H. apply sticky_process_scan_request in H. nfs. Qed.

Lemma sticky_route_request s t rq avail : nf (route_request s t rq avail) -> nf s.
Proof. unfold route_request. cbn zeta. destruct avail; intros H; [|apply sticky_mod_ti in H]; nfs. Qed.

Lemma sticky_process_input_request rules env ord s rq : nf (process_input_request rules env ord s rq) -> nf s.
Proof.
  unfold process_input_request.
  destruct (scan_rule rules env s (iq_input rq)) as [b1 s1] eqn:E1.
  assert (H1 : nf s1 -> nf s).
  { intros H. apply sticky_scan_rule with (rules := rules) (env := env) (k := iq_input rq). now rewrite E1. }
  destruct b1; [|intros H; apply H1; eapply sticky_pause_on_rule; eauto].
  destruct (demand_rule rules ord s1 (iq_input rq)) as [b2 s2] eqn:E2.
  assert (H2 : nf s2 -> nf s1).
  { intros H. apply sticky_demand_rule with (rules := rules) (ord := ord) (k := iq_input rq). now rewrite E2. }
  destruct (iq_task rq); intros H; auto. apply sticky_route_request in H. auto.
Qed.

Lemma sticky_step_inreq rules env ord s : nf (step_inreq rules env ord s) -> nf s.
Proof. unfold step_inreq. destruct (is_inreq s) eqn:E; auto. intros H. apply sticky_process_input_request in H. nfs. Qed.

Lemma sticky_decrement_wait s t : nf (decrement_wait s t) -> nf s.
Proof.
  unfold decrement_wait. destruct (aget _ _) as [ti|]; [|apply nf_fault_elim].
  destruct (ti_wait ti); [apply nf_fault_elim|]. cbn zeta. destruct (Nat.eqb _ _); intros H; nfs.
Qed.

Lemma sticky_deliver rules s rq : nf (deliver rules s rq) -> nf s.
Proof.
  unfold deliver. destruct (iq_task rq); [|apply nf_fault_elim]. cbn zeta. intros H. apply sticky_decrement_wait in H.
  destruct (iq_order rq); auto. now apply sticky_provide_value in H.
Qed.

Lemma sticky_step_fininreq rules s : nf (step_fininreq rules s) -> nf s.
Proof. unfold step_fininreq. destruct (is_fininreq s) eqn:E; auto. intros H. apply sticky_deliver in H. nfs. Qed.

Lemma sticky_run_ready rules env F syncp s t : nf (run_ready rules env F syncp s t) -> nf s.
Proof.
  unfold run_ready. cbn zeta. intros H. unfold nf in H. rewrite is_fault_upd_outstanding in H. fold (nf (inputs_available rules env F syncp
    (set_kind (check s (kind_eqb (kind_of s t) KWaiting) FNotWaiting) t KComputing) t)) in H.
  apply sticky_inputs_available, nf_set_kind, sticky_check in H. auto.
Qed.

Lemma sticky_step_ready rules env F syncp s : nf (step_ready rules env F syncp s) -> nf s.
Proof. unfold step_ready. destruct (is_ready s) eqn:E; auto. intros H. apply sticky_run_ready in H. nfs. Qed.

Lemma sticky_push_dummies ds : forall s, nf (push_dummies s ds) -> nf s.
Proof. induction ds as [|d ds IH]; cbn [push_dummies]; auto. intros s H. apply IH in H. nfs. Qed.

Lemma sticky_finish_task s t : nf (finish_task s t) -> nf s.
Proof.
  unfold finish_task. destruct (aget _ _) as [ti|]; [|apply nf_fault_elim]. cbn zeta. intros H.
  unfold retire_task, wake_task_waiters, db_write in H.
  match type of H with context [if ?b then _ else _] => destruct b end; unfold nf in H; autorewrite with iv in H;
  match type of H with is_fault ?x = None => fold (nf x) in H end;
  apply sticky_push_dummies, nf_mod_ri, nf_set_complete, sticky_check in H; auto.
Qed.

Lemma sticky_step_fintask s : nf (step_fintask s) -> nf s.
Proof. unfold step_fintask. destruct (is_fintasks s) eqn:E; auto. intros H. apply sticky_finish_task in H. nfs. Qed.

Lemma sticky_drain step ne (Hs : forall s, nf (step s) -> nf s) fuel : forall s, nf (drain step ne fuel s) -> nf s.
Proof.
  induction fuel as [|f IH]; intros s; cbn [drain]; destruct (ne s); auto; try apply nf_fault_elim.
Qed.
