(* P19 - part 2: a recorded fault is never erased (nf (f s) -> nf s for every function of the model). *)
From LLB Require Import Engine.Rules Engine.Spec Engine.Impl Engine.ImplProofs.
From Coq Require Import Arith.
Local Open Scope N_scope.

Ltac nfs := unfold nf in *; autorewrite with iv in *; auto.

Lemma nf_touch s k : nf (touch s k) <-> nf s. Proof. unfold nf. now autorewrite with iv. Qed.
Lemma nf_set_ri s k ri : nf (set_ri s k ri) <-> nf s. Proof. unfold nf. now autorewrite with iv. Qed.
Lemma nf_mod_ri s k f : nf (mod_ri s k f) <-> nf s. Proof. unfold nf. now autorewrite with iv. Qed.
Lemma nf_set_ti s k ti : nf (set_ti s k ti) <-> nf s. Proof. unfold nf. now autorewrite with iv. Qed.
Lemma nf_set_kind s k kd : nf (set_kind s k kd) <-> nf s. Proof. unfold nf. now autorewrite with iv. Qed.
Lemma nf_set_res s k r : nf (set_res s k r) <-> nf s. Proof. unfold nf. now autorewrite with iv. Qed.
Lemma nf_set_complete s k : nf (set_complete s k) <-> nf s. Proof. unfold nf. now autorewrite with iv. Qed.
Lemma nf_iemit s e : nf (iemit s e) <-> nf s. Proof. unfold nf. now autorewrite with iv. Qed.
Lemma nf_push_inreq s rq : nf (push_inreq s rq) <-> nf s. Proof. unfold nf. now autorewrite with iv. Qed.
Lemma nf_fault_elim s c (P : Prop) : nf (fault s c) -> P. Proof. intros H. now apply nf_fault in H. Qed.
Lemma sticky_check s b c : nf (check s b c) -> nf s. Proof. intros H. now apply nf_check in H. Qed.
Lemma sticky_mod_ti s t f : nf (mod_ti s t f) -> nf s. Proof. intros H. now apply nf_mod_ti in H. Qed.

Lemma sticky_add_request s t inp slot o sg : nf (add_request s t inp slot o sg) -> nf s.
Proof.
  unfold add_request. destruct (aget (is_tasks s) t); [|apply nf_fault_elim].
  destruct (negb (kind_eqb (kind_of s t) KWaiting)); [apply nf_fault_elim|].
  intros H. apply sticky_mod_ti in H. nfs.
Qed.

Lemma sticky_add_reqs ks : forall s t slot sg, nf (add_reqs s t ks slot sg) -> nf s.
Proof. induction ks as [|x ks IH]; cbn [add_reqs]; auto. intros s t slot sg H. apply IH in H. now apply sticky_add_request in H. Qed.
Lemma sticky_add_follows ks : forall s t, nf (add_follows s t ks) -> nf s.
Proof. induction ks as [|x ks IH]; cbn [add_follows]; auto. intros s t H. apply IH in H. now apply sticky_add_request in H. Qed.
Lemma sticky_start_group rules s t c : nf (start_group rules s t c) -> nf s.
Proof. unfold start_group. destruct c; [apply sticky_add_reqs|apply sticky_add_reqs|apply sticky_add_follows]. Qed.

Lemma sticky_fold {A} (f : istate -> A -> istate) (Hf : forall s a, nf (f s a) -> nf s) l : forall s, nf (fold_left f l s) -> nf s.
Proof. induction l as [|a l IH]; cbn [fold_left]; auto. intros s H. apply IH in H. now apply Hf in H. Qed.

Lemma sticky_task_start rules ord s t : nf (task_start rules ord s t) -> nf s.
Proof.
  unfold task_start. intros H. apply sticky_fold in H; [|intros; eapply sticky_start_group; eauto].
  apply sticky_mod_ti in H. nfs.
Qed.

Lemma sticky_branch_reqs ks : forall s t, nf (branch_reqs s t ks) -> nf s.
Proof.
  induction ks as [|x ks IH]; cbn [branch_reqs]; auto. intros s t H.
  destruct (aget (is_tasks s) t); [|now apply nf_fault in H].
  apply IH in H. apply sticky_add_request in H. nfs.
Qed.

Lemma sticky_provide_value rules s t slot inp v : nf (provide_value rules s t slot inp v) -> nf s.
Proof.
  unfold provide_value. destruct (aget (is_tasks (iemit s (EProvide t slot inp v))) t) as [ti|]; [|apply nf_fault_elim].
  destruct (branch_fire rules t ti slot v); intros H.
  - apply sticky_branch_reqs in H. nfs.
  - nfs.
Qed.

Lemma sticky_discovered s t d : nf (discovered s t d) -> nf s.
Proof.
  unfold discovered. destruct (aget (is_tasks s) t); [|apply nf_fault_elim].
  destruct (negb _); [apply nf_fault_elim|]. apply sticky_mod_ti.
Qed.

Lemma sticky_task_is_complete rules s t v : nf (task_is_complete rules s t v) -> nf s.
Proof. unfold task_is_complete. destruct (negb _); [apply nf_fault_elim|]. cbn zeta. intros H. nfs. Qed.

Lemma sticky_task_finish rules s t : nf (task_finish rules s t) -> nf s.
Proof.
  unfold task_finish. destruct (aget (is_tasks s) t) as [ti|]; auto. destruct (ti_pending ti); auto.
  intros H. apply sticky_task_is_complete in H. apply nf_iemit in H.
  apply sticky_fold in H; [|intros; eapply sticky_discovered; eauto]. nfs.
Qed.

Lemma sticky_inputs_available rules env F syncp s t : nf (inputs_available rules env F syncp s t) -> nf s.
Proof.
  unfold inputs_available. destruct (aget (is_tasks (iemit s (EAvail t))) t); [|apply nf_fault_elim].
  destruct (syncp t); intros H; [apply sticky_task_finish in H|]; nfs.
Qed.

Lemma nf_need s k r i : nf (need s k r i) <-> nf s.
Proof. unfold need. rewrite nf_iemit. apply nf_set_kind. Qed.
