(* C02, part 8: the null build.  After a successful build, building any key that the first build brought up to date
   (in particular the same key) executes nothing. *)
From LLB Require Import Engine.Rules Engine.Spec Engine.SpecOnceFrame Engine.SpecOnce1 Engine.SpecOnce3
  Engine.SpecOnce6 Engine.SpecOnce7.
From Coq Require Import List NArith Bool Lia Arith.
Local Open Scope N_scope.

(* every stored epoch is at most the current one (true of every reachable state) *)
Definition bounded (s : state) : Prop :=
  forall x, res_computedAt (get (st_mem s) x) <= st_epoch s /\ res_builtAt (get (st_mem s) x) <= st_epoch s.

Section Null.
Variable rules : key -> rule.
Variable env : key -> N.
Variable F : key -> N -> list value -> list N -> N -> N.
Variable order : N -> key -> list dep -> list dep.

Lemma key_trans_bounded : forall ok x e r r' cr, key_trans rules env order ok x e r r' cr ->
  res_computedAt r <= e /\ res_builtAt r <= e -> res_computedAt r' <= e /\ res_builtAt r' <= e.
Proof.
  intros ok x e r r' cr [[_ [->|[->|[_ ->]]]]|[_ [(v & bk & _ & ->)|[_ ->]]]] [A B]; cbn; try (split; lia).
  destruct (changed_b r v); split; lia.
Qed.

Theorem ensure_bounded : forall fuel stack s k s', ostate (ensure rules env F order fuel stack s k) = Some s' ->
  bounded s -> bounded s'.
Proof.
  intros fuel stack s k s' E Hb x. pose proof (ensure_trans rules env order F fuel stack s k) as T.
  destruct (ensure_frame rules env F order fuel stack s k) as [A _].
  destruct (ensure rules env F order fuel stack s k) as [t|t p|]; cbn [ostate] in E; inversion E; subst t;
    cbn [trans_o frame_o] in T, A; rewrite (fr_epoch _ _ _ _ _ A); eapply key_trans_bounded; [apply T | apply Hb | apply T | apply Hb].
Qed.

Lemma bounded_bump : forall s, bounded s -> bounded (bump_epoch s).
Proof. intros s H x. destruct (H x) as [A B]. cbn [bump_epoch st_mem st_epoch]. split; lia. Qed.

Theorem build_bounded : forall fuel s k s', ostate (build rules env F order fuel s k) = Some s' -> bounded s -> bounded s'.
Proof.
  intros fuel s k s' E Hb. destruct (build_new_log rules env F order _ _ _ _ E) as (s1 & E1 & -> & _).
  exact (ensure_bounded _ _ _ _ _ E1 (bounded_bump _ Hb)).
Qed.

Hypothesis Horder : forall e k l d, In d (order e k l) -> In d l.

(* the rules that are complete at the end of a successful build are settled for the next one *)
Lemma build_settles : forall fuel s k s1, bounded s -> build rules env F order fuel s k = Ok s1 ->
  settled rules env (fun x => res_builtAt (get (st_mem s1) x) = st_epoch s1) (bump_epoch s1).
Proof.
  intros fuel s k s1 Hb E. unfold build in E.
  destruct (ensure rules env F order fuel [] (bump_epoch s) k) as [s1'|s1' p|] eqn:E1; inversion E. subst s1. clear E.
  assert (G0 : good_done rules env [] (bump_epoch s)).
  { intros x Hx _. exfalso. unfold done in Hx. cbn [bump_epoch st_mem st_epoch] in Hx. destruct (Hb x) as [_ B]. lia. }
  pose proof (ensure_good rules env F order Horder _ _ _ _ _ E1 G0) as G.
  assert (Hb1 : bounded s1') by (eapply ensure_bounded; [rewrite E1; reflexivity | now apply bounded_bump]).
  destruct (ensure_frame rules env F order fuel [] (bump_epoch s) k) as [A _]. rewrite E1 in A. cbn [frame_o] in A.
  assert (He : st_epoch s1' = st_epoch s + 1) by exact (fr_epoch _ _ _ _ _ A).
  intros x Hx. cbn [commit_epoch st_mem st_epoch] in Hx.
  destruct (G x Hx (fun C => C)) as (Q1 & Q2 & Q3 & Q4).
  unfold settled_at. cbn [bump_epoch commit_epoch st_mem st_epoch]. change (flagged _ x) with (flagged s1' x).
  split; [lia|]. split; [exact Q1|]. split; [exact Q2|]. split; [exact Q3|]. split; [lia|].
  intros d Hd. apply filter_In in Hd. destruct Hd as [Hd _]. specialize (Q4 d Hd). split; [exact Q4|].
  right. destruct (Hb1 (d_key d)) as [B _]. lia.
Qed.

Theorem null_build : forall fuel1 fuel2 s k s1 k' s2, bounded s ->
  build rules env F order fuel1 s k = Ok s1 ->
  res_builtAt (get (st_mem s1) k') = st_epoch s1 ->
  ostate (build rules env F order fuel2 s1 k') = Some s2 ->
  creates (new_log s1 s2) = [].
Proof.
  intros fuel1 fuel2 s k s1 k' s2 Hb E1 Hk' E2.
  pose proof (build_settles _ _ _ _ Hb E1) as St.
  destruct (build_new_log rules env F order _ _ _ _ E2) as (t & Et & _ & ->).
  destruct (ensure_null rules env _ F order fuel2 [] (bump_epoch s1) k' Hk' St t Et) as (l & L & C & _).
  now rewrite (new_log_intro _ _ _ L).
Qed.

Lemma build_target_complete : forall fuel s k s1, build rules env F order fuel s k = Ok s1 ->
  res_builtAt (get (st_mem s1) k) = st_epoch s1.
Proof.
  intros fuel s k s1 E. unfold build in E.
  destruct (ensure rules env F order fuel [] (bump_epoch s) k) as [s1'|s1' p|] eqn:E1; inversion E. subst s1.
  destruct (ensure_frame rules env F order fuel [] (bump_epoch s) k) as [_ D]. exact (D s1' E1).
Qed.

Theorem null_build_same_key : forall fuel1 fuel2 s k s1 s2, bounded s ->
  build rules env F order fuel1 s k = Ok s1 ->
  ostate (build rules env F order fuel2 s1 k) = Some s2 ->
  creates (new_log s1 s2) = [].
Proof.
  intros fuel1 fuel2 s k s1 s2 Hb E1 E2. eapply null_build; try eassumption. eapply build_target_complete; eassumption.
Qed.

End Null.
