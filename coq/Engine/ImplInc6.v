(* P19b stage 3, part 6: changes on the rule side (state kinds, scan records, queues) with every stored result unchanged. *)
From LLB Require Import Engine.Rules Engine.Spec Engine.SpecInv1 Engine.Impl Engine.ImplProofs Engine.ImplProofsSticky Engine.ImplProofsMono Engine.ImplProofsInv
  Engine.ImplProofsInv2 Engine.ImplVal1 Engine.ImplVal2 Engine.ImplInc1 Engine.ImplInc2 Engine.ImplInc3.
From Coq Require Import Arith Lia.
Local Open Scope N_scope.

Section Inc.
Variable rules : key -> rule.
Variable env : key -> N.
Variable F : key -> N -> list value -> list N -> N -> N.
Variable rank : key -> nat.
Variable R : key -> N -> rule.
Notation cvK := (cvK rules env F rank).
Notation task_ok2 := (task_ok2 rules env F rank).
Notation concl := (concl F R).
Notation rowok := (rowok F R).
Notation cstruct := (cstruct rules).
Notation BT := (BT rules env F rank).
Notation BC := (BC rules F R).
Notation BS := (BS rules env F rank R).
Notation BInv := (BInv rules env F rank R).

(* the task side when no stored result changes and task records change at most in their wait counts and deferred scan requests *)
Lemma BT_rules_change_gen root s s' : BT root s ->
  is_usedb s' = is_usedb s -> is_epoch s' = is_epoch s ->
  (forall t y, task_of s t = Some y -> exists z, task_of s' t = Some z /\ core2 z = core2 y) ->
  (forall t z, task_of s' t = Some z -> exists y, task_of s t = Some y /\ core2 z = core2 y) ->
  (forall k, stored s' k = stored s k) -> (forall t y, task_of s t = Some y -> deps s' t = deps s t) -> (forall k, res_sig (res_of s' k) = res_sig (res_of s k)) ->
  (forall k, curk s k -> curk s' k) -> (forall k, curk s' k -> curk s k \/ stored s k = cvK k) ->
  (forall rq, Unrouted s' rq -> Unrouted s rq) -> (forall rq, Unrouted s rq -> iq_task rq <> None -> Unrouted s' rq) ->
  is_fininreq s' = is_fininreq s -> is_fintasks s' = is_fintasks s ->
  (In (dummy_root root) (is_inreq s') \/ (exists k, In (dummy_root root) (ri_paused (rinfo_of s' k))) \/ is_in_progress s' root = true \/ curk s' root) ->
  BT root s'.
Proof.
  intros [T2 T3 T4 T5 T6 T7] Hu He Hfw Hbw Hst Hdp Hsg Hc1 Hc2 HU2 HU1 Hf Hft Hroot.
  assert (O2 : forall rq, Oreq2 s' rq -> Oreq2 s rq).
  { intros rq [H|[(t0 & z & Hz & Hin)|H]]; [left; auto| |right; right; now rewrite <- Hf].
    destruct (Hbw t0 z Hz) as (y & Hy & Hc). apply core2_fields in Hc. destruct Hc as (_ & _ & _ & Hr & _). right. left. exists t0, y. split; auto. now rewrite <- Hr. }
  assert (O1 : forall rq, Oreq2 s rq -> iq_task rq <> None -> Oreq2 s' rq).
  { intros rq [H|[(t0 & z & Hz & Hin)|H]] Hnd; [left; auto| |right; right; now rewrite Hf].
    destruct (Hfw t0 z Hz) as (y & Hy & Hc). apply core2_fields in Hc. destruct Hc as (_ & _ & _ & Hr & _). right. left. exists t0, y. split; auto. now rewrite Hr. }
  constructor.
  - congruence.
  - intros k Hc. rewrite Hst. destruct (Hc2 k Hc) as [H|H]; auto.
  - intros rq Ho. destruct (T4 rq (O2 rq Ho)) as [Hw Hsg']. split; auto. intros t Hk Hor. destruct (Hw t Hk Hor) as (H1 & ti & Hg & Hl). split; auto.
    destruct (Hfw t ti Hg) as (z & Hz & Hc). apply core2_fields in Hc. destruct Hc as (Hs & _). exists z. split; auto. now rewrite Hs.
  - intros rq. rewrite Hf. intros Hin. now apply Hc1, T5.
  - intros t z Hz. destruct (Hbw t z Hz) as (ti & Hg & Hc). apply core2_fields in Hc. destruct Hc as (E1 & E2 & E3 & E4 & E5).
    destruct (T6 t ti Hg) as [K1 K2 K3 K4 K5 K6 K7 K8 K9 K10 K11]. pose proof (Hdp t ti Hg) as Hdt. clear Hdp. rename Hdt into Hdp. constructor; rewrite ?E1, ?E2, ?E3, ?E5; auto.
    + intros i Hu' Hn0. destruct (K3 i Hu' Hn0) as (rq & H1 & H2 & H3). exists rq. split; auto. apply O1; auto. congruence.
    + rewrite Hft, Hst. exact K6.
    + intros i y Hu0 Hi' Hy. rewrite Hdp. destruct (K7 i y Hu0 Hi' Hy) as [(rq & H1 & H2 & H3)|H]; [left; exists rq; split; auto; apply HU1; auto; congruence|now right].
    + intros d. rewrite Hdp. intros Hin. destruct (K8 d Hin) as [H|(rq & H1 & H2 & H3)]; [left; now apply Hc1|right; exists rq; split; auto; apply O1; auto; congruence].
    + intros d. rewrite Hdp. apply K9.
    + rewrite Hft. exact K10.
    + rewrite Hft, Hsg. exact K11.
  - exact Hroot.
Qed.

(* the task side when no task record and no stored result changes *)
Lemma BT_rules_change root s s' : BT root s ->
  is_usedb s' = is_usedb s -> is_epoch s' = is_epoch s -> (forall t, task_of s' t = task_of s t) ->
  (forall k, stored s' k = stored s k) -> (forall k, deps s' k = deps s k) -> (forall k, res_sig (res_of s' k) = res_sig (res_of s k)) ->
  (forall k, curk s k -> curk s' k) -> (forall k, curk s' k -> curk s k \/ stored s k = cvK k) ->
  (forall rq, Unrouted s' rq -> Unrouted s rq) -> (forall rq, Unrouted s rq -> iq_task rq <> None -> Unrouted s' rq) ->
  is_fininreq s' = is_fininreq s -> is_fintasks s' = is_fintasks s ->
  (In (dummy_root root) (is_inreq s') \/ (exists k, In (dummy_root root) (ri_paused (rinfo_of s' k))) \/ is_in_progress s' root = true \/ curk s' root) ->
  BT root s'.
Proof.
  intros HT Hu He Htk Hst Hdp. apply BT_rules_change_gen; auto.
  - intros t y Hy. exists y. rewrite Htk. auto.
  - intros t z Hz. exists z. rewrite <- Htk. auto.
Qed.

Lemma res_ext s s' k : stored s' k = stored s k -> cAt s' k = cAt s k -> bAt s' k = bAt s k -> deps s' k = deps s k ->
  res_sig (res_of s' k) = res_sig (res_of s k) -> res_of s' k = res_of s k.
Proof. unfold stored, cAt, bAt, deps. destruct (res_of s' k), (res_of s k). cbn. intros. subst. reflexivity. Qed.

Lemma in_drop_single d ds : In d (drop_single ds) <-> In d ds /\ d_single d = false.
Proof. unfold drop_single. rewrite filter_In. split; intros [H1 H2]; split; auto; destruct (d_single d); auto; discriminate. Qed.

(* cleanSingleUseDependencies does not touch what a row says *)
Lemma rowok_drop s s' k : (forall x, stored s' x = stored s x) -> (forall x, cAt s' x = cAt s x) -> bAt s' k = bAt s k ->
  res_sig (res_of s' k) = res_sig (res_of s k) -> deps s' k = drop_single (deps s k) -> rowok s k -> rowok s' k.
Proof.
  intros Hst Hca Hb Hsg Hd (v & Hv & Ho & Hm & Hc).
  assert (Erl : rule_of R s' k = rule_of R s k) by (unfold rule_of; now rewrite Hsg).
  exists v. split; [now rewrite Hst|]. split; [rewrite Erl; exact Ho|]. split.
  - intros d. rewrite Hd, Erl. intros Hin. apply in_drop_single in Hin. apply Hm, Hin.
  - intros Hf. apply (concl_same_gen F R s s' k v Hsg).
    + intros x Hx. split; [rewrite Hd; apply in_drop_single; split; auto|apply Hst].
    + apply Hc. intros d Hin Hor Hsi. rewrite <- Hca, <- Hb. apply Hf; auto. rewrite Hd. apply in_drop_single. auto.
Qed.

(* the stored results when only state kinds and build stamps change: a rule either keeps its stamp (its single-use dependencies
   may be dropped if it is not complete), or it is stamped complete (demandRule on a rule that does not need to run) *)
Lemma BC_kinds s s' : BC s -> is_epoch s' = is_epoch s ->
  (forall k, stored s' k = stored s k) -> (forall k, cAt s' k = cAt s k) ->
  (forall k, deps s' k = deps s k \/ (deps s' k = drop_single (deps s k) /\ ~ curk s' k /\ bAt s' k = bAt s k)) ->
  (forall k, res_sig (res_of s' k) = res_sig (res_of s k)) -> (forall k, ri_cancelled (rinfo_of s' k) = false) ->
  (forall k, idle s' k -> idle s k) -> (forall k, curk s k -> curk s' k) ->
  (forall k, is_in_progress s k = true -> is_in_progress s' k = true \/ curk s' k) ->
  (forall x, pending_dummy s x -> pending_dummy s' x \/ is_in_progress s' x = true \/ curk s' x) ->
  (forall k, (bAt s' k = bAt s k /\ (curk s' k -> curk s k)) \/
             (bAt s' k = is_epoch s /\ curk s' k /\ idle s k /\ bAt s k <> 0 /\ cstruct s' k)) ->
  BC s'.
Proof.
  intros [C1 C2 C3 C4 C6 C7] He Hst Hca Hdp Hsg Hnc Hid Hc1 Hip Hpd Hb.
  constructor.
  - exact Hnc.
  - intros k Hi. rewrite Hca. destruct (Hb k) as [[Eb _]|(Eb & _)]; rewrite Eb; [apply C2; auto|apply C3].
  - intros k. rewrite He, Hca. destruct (Hb k) as [[Eb _]|(Eb & _)]; rewrite Eb; [apply C3|split; [lia|apply C3]].
  - intros k. rewrite He. destruct (Hb k) as [[Eb _]|(Eb & Hk & _)]; [|intros _; apply Hk]. rewrite Eb. intros Hbe.
    assert (Hc : curk s k) by (split; [now apply C4|exact Hbe]). apply (Hc1 k Hc).
  - intros k Hi Hb' Hncu. destruct (Hb k) as [[Eb Hcc]|(_ & Hk & _)]; [|contradiction].
    rewrite Eb in Hb'. assert (Hn0 : ~ curk s k) by (intros H; apply Hncu; now apply Hc1).
    destruct (Hdp k) as [Hd|(Hd & _)].
    + pose proof (res_ext s s' k (Hst k) (Hca k) Eb Hd (Hsg k)) as Hr.
      apply (rowok_step F R s s' k Hr); [|apply C6; auto].
      intros d _ _ _. left. rewrite Hst, Hca. split; auto. lia.
    + apply (rowok_drop s s' k); auto.
  - intros k Hc. destruct (Hb k) as [[Eb Hcc]|(_ & _ & _ & _ & Hcs)]; [|exact Hcs].
    destruct (Hdp k) as [Hd|(_ & Hn & _)]; [|contradiction].
    destruct (C7 k (Hcc Hc)) as (S0 & S1 & S2 & S3). unfold cstruct in *. cbn zeta in *.
    assert (Hreq : map (stored s') (r_req (rules k)) = map (stored s) (r_req (rules k))) by (apply map_ext; intros; apply Hst).
    rewrite Hreq, Hd, Hsg. split; [exact S0|]. split; [|split].
    + intros y Hy. destruct (S1 y Hy) as [H1 H2]. split; auto.
    + exact S2.
    + intros d Hin. destruct (S3 d Hin) as [Hm Hs']. split; auto. destruct Hs' as [Hcd|(Hdd & [Hp|Hp])]; [left; auto| |].
      * destruct (Hip _ Hp) as [H|H]; [right; split; auto|left; exact H].
      * destruct (Hpd _ Hp) as [H|[H|H]]; [right; split; auto|right; split; auto|left; exact H].
Qed.

Lemma valid_stored s s' k : stored s' k = stored s k -> valid rules env k (res_of s' k) = valid rules env k (res_of s k).
Proof. unfold stored, valid. intros ->. reflexivity. Qed.

(* the scanning side under the same kind of change; new scan requests, newly scanning rules and rules newly found not to need
   to run bring their own facts *)
Lemma BS_kinds x x' s s' : BS x s -> (forall rq, Sreq s rq -> kind_of s (sq_rule rq) = KScanning) ->
  (forall k, stored s' k = stored s k) -> (forall k, cAt s' k = cAt s k) -> (forall k, res_sig (res_of s' k) = res_sig (res_of s k)) ->
  (forall k, kind_of s k = KScanning \/ kind_of s k = KDoesNotNeedToRun -> deps s' k = deps s k) ->
  (forall k, curk s k -> curk s' k) -> (forall k, kind_of s k = KScanning -> bAt s' k = bAt s k) ->
  (forall rq, Sreq s' rq -> Sreq s rq \/
     forall j d, (j < sq_index rq)%nat -> nth_error (deps s' (sq_rule rq)) j = Some d ->
       curk s' (d_key d) /\ (d_order d = false -> cAt s' (d_key d) <= bAt s' (sq_rule rq))) ->
  (forall rq, Sreq s' rq -> Sreq s rq \/
     forall i d, sq_input rq = Some i -> nth_error (deps s' (sq_rule rq)) (sq_index rq) = Some d -> sq_order rq = d_order d) ->
  (forall k, kind_of s' k = KScanning ->
     (kind_of s k = KScanning /\ (ri_deferred (rinfo_of s k) <> [] \/ ri_paused (rinfo_of s k) <> [] \/ x = Some k ->
                                 ri_deferred (rinfo_of s' k) <> [] \/ ri_paused (rinfo_of s' k) <> [] \/ x' = Some k)) \/
     (res_sig (res_of s' k) = r_sig (rules k) /\ bAt s' k <> 0 /\ valid rules env k (res_of s' k) = true /\ (ri_deferred (rinfo_of s' k) <> [] \/ ri_paused (rinfo_of s' k) <> [] \/ x' = Some k))) ->
  (forall k, kind_of s' k = KDoesNotNeedToRun ->
     (kind_of s k = KDoesNotNeedToRun /\ bAt s' k = bAt s k /\ (pending_for s k -> pending_for s' k)) \/
     ((exists v, stored s' k = Some v /\ Some v = cvK k /\ concl s' k v) /\ (forall d, In d (deps s' k) -> curk s' (d_key d)) /\ bAt s' k <> 0 /\ pending_for s' k /\
      res_sig (res_of s' k) = r_sig (rules k))) ->
  BS x' s'.
Proof.
  intros [S1 S2 S3 S4] Hss Hst Hca Hsgs Hdp Hc1 Hbs Hsr Hsi Hsc Hdn. constructor.
  - intros rq Hrq j d Hj Hn. destruct (Hsr rq Hrq) as [Hold|Hnew]; [|now apply (Hnew j d)].
    rewrite (Hdp _ (or_introl (Hss rq Hold))) in Hn. destruct (S1 rq Hold j d Hj Hn) as [Hc Hf]. split; [now apply Hc1|]. rewrite Hca, (Hbs _ (Hss rq Hold)). exact Hf.
  - intros k Hk. destruct (Hsc k Hk) as [(Hk0 & Hrec)|H]; [|exact H].
    destruct (S2 k Hk0) as (B0 & B1 & B2 & B3). rewrite (Hbs k Hk0), (valid_stored s s' k (Hst k)), Hsgs. auto.
  - intros k Hk. destruct (Hdn k Hk) as [(Hk0 & Eb & Hp)|H]; [|exact H].
    destruct (S3 k Hk0) as ((v & Hv & Hcv & Hco) & Hd & Hb & Hpe & Hsg0). split; [|split; [|split; [|split]]]; [| | | |now rewrite Hsgs].
    + exists v. split; [now rewrite Hst|]. split; auto. apply (concl_same F R s s' k v (Hsgs k) (Hdp k (or_intror Hk0))); auto.
    + intros d. rewrite (Hdp k (or_intror Hk0)). intros Hin. now apply Hc1, Hd.
    + now rewrite Eb.
    + now apply Hp.
  - intros rq Hrq i d Hi. destruct (Hsi rq Hrq) as [Hold|Hnew]; [rewrite (Hdp _ (or_introl (Hss rq Hold))); now apply (S4 rq Hold i d)|now apply (Hnew i d)].
Qed.

Hypothesis Hrank : wf_rank rules rank.
Hypothesis Hwfd : wf_disc rules.
Hypothesis HRt : table_ok rules R.

(* a valid row all of whose recorded inputs are complete and were not recomputed after it was built holds the clean value *)
Lemma row_clean s k : (forall y, curk s y -> stored s y = cvK y) -> res_sig (res_of s k) = r_sig (rules k) -> rowok s k ->
  valid rules env k (res_of s k) = true ->
  (forall d, In d (deps s k) -> curk s (d_key d) /\ (d_order d = false -> cAt s (d_key d) <= bAt s k)) ->
  exists v, stored s k = Some v /\ Some v = cvK k /\ concl s k v.
Proof.
  intros HT Hsg (v & Hv & Ho & Hm & Hc) Hval Hd.
  assert (Erl : rule_of R s k = rules k) by (unfold rule_of; rewrite Hsg; apply HRt).
  assert (Hfr : ImplInc1.fresh s k) by (intros d Hin Hor _; now apply (Hd d Hin)).
  pose proof (Hc Hfr) as Hco. exists v. split; auto. split; auto.
  destruct Hco as [Hf Hrec]. cbn zeta in Hf, Hrec. rewrite Erl, Hsg in Hf. rewrite Erl in Hrec, Ho.
  assert (Hcl : forall y, In (mkDep y false false) (deps s k) -> stored s y = cvK y).
  { intros y Hy. apply HT. apply (Hd _ Hy). }
  assert (Hreq : map (stored s) (r_req (rules k)) = map cvK (r_req (rules k))).
  { apply map_ext_in. intros y Hy. apply Hcl, Hrec. apply in_or_app. now left. }
  rewrite Hreq in Hf, Hrec. change (branch_keys (rules k) (map cvK (r_req (rules k)))) with (bkK rules env F rank k) in Hf, Hrec.
  assert (Hbk : map (stored s) (bkK rules env F rank k) = map cvK (bkK rules env F rank k)).
  { apply map_ext_in. intros y Hy. apply Hcl, Hrec. apply in_or_app. right. apply in_or_app. now left. }
  rewrite Hbk in Hf.
  assert (Hdc : map (fun d => snd (payload_of (stored s d))) (r_disc (rules k)) = map env (r_disc (rules k))).
  { apply map_ext_in. intros y Hy. rewrite (Hcl y); [|apply Hrec; apply in_or_app; right; apply in_or_app; now right].
    unfold ImplVal1.cvK. rewrite (cvk_unfold rules env F rank Hrank y). cbn [payload_of snd]. unfold obs. now rewrite (Hwfd k y Hy). }
  rewrite Hdc in Hf.
  assert (Hsnd : snd v = obs rules env k).
  { unfold obs. unfold valid in Hval. unfold stored in Hv. rewrite Hv in Hval. destruct (r_obs (rules k)); [now apply N.eqb_eq in Hval|now apply Ho]. }
  unfold ImplVal1.cvK at 1. rewrite (cvk_unfold rules env F rank Hrank k). cbn zeta. f_equal.
  rewrite <- Hsnd. rewrite (surjective_pairing v) at 1. f_equal. rewrite Hf. f_equal. rewrite map_app, !map_map. reflexivity.
Qed.

(* the five outcomes of scanRule, for a rule that is not marked cancelled; [ri_clean_single]: its single-use dependencies are dropped *)
Definition scan_outcome (s : istate) (k : key) (b : bool) (ri1 : rinfo) (ts1 : list sreq) : Prop :=
  let rc := ri_clean_single (rinfo_of s k) in
  (b = true /\ is_scanned s k = true /\ ri1 = rinfo_of s k /\ ts1 = is_toscan s) \/
  (b = false /\ kind_of s k = KScanning /\ ri1 = rinfo_of s k /\ ts1 = is_toscan s) \/
  (b = true /\ is_scanned s k = false /\ kind_of s k <> KScanning /\ ri1 = ri_with_kind KNeedsToRun rc /\ ts1 = is_toscan s) \/
  (b = true /\ is_scanned s k = false /\ kind_of s k <> KScanning /\ bAt s k <> 0 /\ valid rules env k (res_of s k) = true /\ drop_single (deps s k) = [] /\
     res_sig (res_of s k) = r_sig (rules k) /\ ri1 = ri_with_kind KDoesNotNeedToRun rc /\ ts1 = is_toscan s) \/
  (b = false /\ is_scanned s k = false /\ kind_of s k <> KScanning /\ bAt s k <> 0 /\ valid rules env k (res_of s k) = true /\ drop_single (deps s k) <> [] /\
     res_sig (res_of s k) = r_sig (rules k) /\ ri1 = ri_begin_scan rc /\ ts1 = mkSReq k 0%nat None false false :: is_toscan s).

Lemma scan_rule_gen s k : ri_cancelled (rinfo_of s k) = false ->
  exists b s1 ri1, scan_rule rules env s k = (b, s1) /\
    (forall k', rinfo_of s1 k' = if N.eqb k' k then ri1 else rinfo_of s k') /\ is_tasks s1 = is_tasks s /\ is_inreq s1 = is_inreq s /\
    is_fininreq s1 = is_fininreq s /\ is_fintasks s1 = is_fintasks s /\ is_ready s1 = is_ready s /\ is_usedb s1 = is_usedb s /\ is_epoch s1 = is_epoch s /\
    scan_outcome s k b ri1 (is_toscan s1).
Proof.
  intros Hnc. unfold scan_rule.
  assert (Hid : forall k', (if N.eqb k' k then rinfo_of s k else rinfo_of s k') = rinfo_of s k').
  { intros k'. destruct (N.eqb k' k) eqn:E; auto. apply N.eqb_eq in E. now subst. }
  destruct (is_scanned s k) eqn:E1.
  { exists true, s, (rinfo_of s k). split; auto. split; [intros; now rewrite Hid|]. repeat split; auto. left. auto. }
  destruct (kind_eqb (kind_of s k) KScanning) eqn:E2.
  { apply kind_eqb_eq in E2. exists false, s, (rinfo_of s k). split; auto. split; [intros; now rewrite Hid|]. repeat split; auto. right. left. auto. }
  apply kind_eqb_neq in E2.
  set (rc := ri_clean_single (rinfo_of s k)).
  set (s0 := mod_ri s k ri_clean_single).
  assert (R0 : forall k', rinfo_of s0 k' = if N.eqb k' k then rc else rinfo_of s k') by (intros k'; unfold s0; now rewrite rinfo_of_mod_ri).
  assert (Hr0 : res_of s0 k = ri_res rc) by (unfold res_of; now rewrite R0, N.eqb_refl).
  assert (Hb0 : res_builtAt (ri_res rc) = res_builtAt (res_of s k)) by reflexivity.
  assert (Hs0 : res_sig (ri_res rc) = res_sig (res_of s k)) by reflexivity.
  assert (Hv0 : valid rules env k (ri_res rc) = valid rules env k (res_of s k)) by reflexivity.
  assert (Hd0 : res_deps (ri_res rc) = drop_single (deps s k)) by reflexivity.
  rewrite Hr0, Hb0, Hs0, Hv0, Hd0. unfold need.
  assert (Kneed : forall sx r i, (forall k', rinfo_of sx k' = rinfo_of s0 k') -> is_tasks sx = is_tasks s -> is_inreq sx = is_inreq s -> is_fininreq sx = is_fininreq s ->
            is_fintasks sx = is_fintasks s -> is_ready sx = is_ready s -> is_usedb sx = is_usedb s -> is_epoch sx = is_epoch s -> is_toscan sx = is_toscan s ->
            exists b s1 ri1, (true, iemit (set_kind sx k KNeedsToRun) (ENeed k r i)) = (b, s1) /\
              (forall k', rinfo_of s1 k' = if N.eqb k' k then ri1 else rinfo_of s k') /\ is_tasks s1 = is_tasks s /\ is_inreq s1 = is_inreq s /\
              is_fininreq s1 = is_fininreq s /\ is_fintasks s1 = is_fintasks s /\ is_ready s1 = is_ready s /\ is_usedb s1 = is_usedb s /\ is_epoch s1 = is_epoch s /\
              scan_outcome s k b ri1 (is_toscan s1)).
  { intros sx r i H1 H2 H3 H4 H5 H6 H7 H8 H9. eexists _, _, _. split; [reflexivity|]. split.
    - intros k'. autorewrite with iv. rewrite !H1, !R0, N.eqb_refl. destruct (N.eqb k' k); reflexivity.
    - autorewrite with iv. repeat split; auto. right. right. left. repeat split; auto. }
  destruct (N.eqb (res_builtAt (res_of s k)) 0) eqn:Eb; [apply Kneed; auto; unfold s0; now autorewrite with iv|].
  assert (Hc0 : ri_cancelled (rinfo_of s0 k) = false) by (rewrite R0, N.eqb_refl; exact Hnc). rewrite Hc0.
  destruct (N.eqb (r_sig (rules k)) (res_sig (res_of s k))) eqn:Esg; cbn [negb]; [|apply Kneed; auto; unfold s0; now autorewrite with iv].
  apply N.eqb_eq in Esg. symmetry in Esg.
  destruct (valid rules env k (res_of s k)) eqn:Ev; cbn [negb]; [|apply Kneed; auto; unfold s0; now autorewrite with iv].
  apply N.eqb_neq in Eb.
  destruct (drop_single (deps s k)) as [|d ds] eqn:Ed.
  - eexists _, _, _. split; [reflexivity|]. split.
    + intros k'. autorewrite with iv. rewrite !R0, N.eqb_refl. destruct (N.eqb k' k); reflexivity.
    + unfold s0. autorewrite with iv. repeat split; auto. right. right. right. left. repeat split; auto.
  - eexists _, _, _. split; [reflexivity|]. split.
    + intros k'. autorewrite with iv. rewrite !R0, N.eqb_refl. destruct (N.eqb k' k); reflexivity.
    + unfold s0. autorewrite with iv. repeat split; auto. right. right. right. right. repeat split; auto. rewrite Ed. discriminate.
Qed.

Lemma BS_weaken x s : BS None s -> BS x s.
Proof. intros [S1 S2 S3 S4]. constructor; auto. intros k Hk. destruct (S2 k Hk) as (B0 & B1 & B2 & [B3|[B3|B3]]); [auto 6|auto 6|discriminate]. Qed.

Lemma unscanned_not_curk s k : is_scanned s k = false -> kind_of s k <> KScanning ->
  ~ curk s k /\ idle s k /\ (kind_of s k = KIncomplete \/ kind_of s k = KComplete).
Proof.
  unfold is_scanned, is_complete, curk, idle, bAt. intros H Hs. destruct (kind_of s k) eqn:E; try discriminate; try contradiction.
  - repeat split; try discriminate; auto. intros [H1 _]. discriminate.
  - cbn [kind_eqb andb] in H. apply N.eqb_neq in H. repeat split; try discriminate; auto. intros [_ H2]. contradiction.
Qed.

(* scanRule gives an unscanned idle rule its new state kind (and drops its single-use dependencies) *)
Lemma BInv_rekind root x' su su1 k kd' : BInv root None su -> sreq_scanning su -> task_of su k = None ->
  (forall k', rinfo_of su1 k' = if N.eqb k' k then ri_with_kind kd' (ri_clean_single (rinfo_of su k)) else rinfo_of su k') ->
  is_tasks su1 = is_tasks su -> is_inreq su1 = is_inreq su -> is_fininreq su1 = is_fininreq su -> is_fintasks su1 = is_fintasks su ->
  is_usedb su1 = is_usedb su -> is_epoch su1 = is_epoch su ->
  is_scanned su k = false -> kind_of su k <> KScanning ->
  (forall rq, In rq (is_toscan su1) <-> (kd' = KScanning /\ rq = mkSReq k 0%nat None false false) \/ In rq (is_toscan su)) ->
  (kd' = KNeedsToRun \/
   (kd' = KDoesNotNeedToRun /\ bAt su k <> 0 /\ valid rules env k (res_of su k) = true /\ drop_single (deps su k) = [] /\ pending_for su k /\
    res_sig (res_of su k) = r_sig (rules k)) \/
   (kd' = KScanning /\ bAt su k <> 0 /\ valid rules env k (res_of su k) = true /\ x' = Some k /\ res_sig (res_of su k) = r_sig (rules k))) ->
  BInv root x' su1.
Proof.
  intros (HT & HC & HS) Hss Hnt RI Htk Hi Hf Hft Hu He Hsc Hns Hts Hcase.
  destruct (unscanned_not_curk su k Hsc Hns) as (Hnc & Hidle & Hkk).
  assert (Hkd : kd' = KNeedsToRun \/ kd' = KDoesNotNeedToRun \/ kd' = KScanning) by (destruct Hcase as [H|[(H & _)|(H & _)]]; auto).
  assert (RO : forall k', k' <> k -> rinfo_of su1 k' = rinfo_of su k') by (intros k' Hne; rewrite RI; apply N.eqb_neq in Hne; now rewrite Hne).
  assert (HRo : forall k', k' <> k -> res_of su1 k' = res_of su k') by (intros k' Hne; unfold res_of; now rewrite (RO k' Hne)).
  assert (HRk : res_of su1 k = res_with_deps (res_of su k) (drop_single (deps su k))) by (unfold res_of; rewrite RI, N.eqb_refl; reflexivity).
  assert (HK : forall k', kind_of su1 k' = if N.eqb k' k then kd' else kind_of su k').
  { intros k'. unfold kind_of. rewrite RI. destruct (N.eqb k' k); auto. }
  assert (HL : forall k', ri_paused (rinfo_of su1 k') = ri_paused (rinfo_of su k') /\ ri_deferred (rinfo_of su1 k') = ri_deferred (rinfo_of su k') /\
                         ri_cancelled (rinfo_of su1 k') = ri_cancelled (rinfo_of su k')).
  { intros k'. rewrite RI. destruct (N.eqb k' k) eqn:E; auto. apply N.eqb_eq in E. now subst. }
  assert (Hall : forall k', stored su1 k' = stored su k' /\ cAt su1 k' = cAt su k' /\ bAt su1 k' = bAt su k' /\ res_sig (res_of su1 k') = res_sig (res_of su k')).
  { intros k'. unfold stored, cAt, bAt. destruct (N.eq_dec k' k) as [->|E]; [rewrite HRk; auto|rewrite (HRo k' E); auto]. }
  assert (Hst : forall k', stored su1 k' = stored su k') by (intros; apply Hall).
  assert (Hca : forall k', cAt su1 k' = cAt su k') by (intros; apply Hall).
  assert (Hba : forall k', bAt su1 k' = bAt su k') by (intros; apply Hall).
  assert (Hdpo : forall k', k' <> k -> deps su1 k' = deps su k') by (intros k' E; unfold deps; now rewrite (HRo k' E)).
  assert (Hdpk : deps su1 k = drop_single (deps su k)) by (unfold deps at 1; now rewrite HRk).
  assert (Hcu : forall k', curk su1 k' <-> curk su k').
  { intros k'. unfold curk. rewrite HK, Hba, He. destruct (N.eqb k' k) eqn:E; [|tauto]. apply N.eqb_eq in E. subst k'.
    split; [intros [H _]; destruct Hkd as [->|[->| ->]]; discriminate|intros H; contradiction]. }
  assert (Htask : forall t, task_of su1 t = task_of su t) by (intros; unfold task_of; now rewrite Htk).
  assert (HU : forall rq, Unrouted su rq <-> Unrouted su1 rq) by (apply Unrouted_same; auto; intros k'; apply HL).
  assert (Hip : forall k', is_in_progress su1 k' = is_in_progress su k').
  { intros k'. unfold is_in_progress. rewrite HK. destruct (N.eqb k' k) eqn:E; auto. apply N.eqb_eq in E. subst k'.
    destruct Hidle as [I1 I2]. destruct Hkd as [->|[->| ->]]; destruct (kind_of su k); auto; contradiction. }
  assert (Hsd : forall k', kind_of su k' = KScanning \/ kind_of su k' = KDoesNotNeedToRun -> deps su1 k' = deps su k').
  { intros k' Hk'. apply Hdpo. intros ->. destruct Hkk as [H|H]; rewrite H in Hk'; destruct Hk'; discriminate. }
  split; [|split].
  - apply (BT_rules_change_gen root su su1 HT); auto.
    + intros t y Hy. exists y. rewrite Htask. auto.
    + intros t z Hz. exists z. rewrite <- Htask. auto.
    + intros t y Hy. apply Hdpo. intros ->. congruence.
    + intros k'. apply Hall.
    + intros k' H. now apply Hcu.
    + intros k' H. left. now apply Hcu.
    + intros rq H. now apply HU.
    + intros rq H _. now apply HU.
    + rewrite Hi, Hip. destruct (b_root _ _ _ _ _ _ HT) as [H|[(k0 & H)|[H|H]]]; auto; [right; left; exists k0; now rewrite (proj1 (HL k0))|right; right; right; now apply Hcu].
  - assert (Hsgs : forall k', res_sig (res_of su1 k') = res_sig (res_of su k')) by (intros; apply Hall).
    apply (BC_kinds su su1 HC); auto.
    + intros k'. destruct (N.eq_dec k' k) as [->|E]; [right; split; [exact Hdpk|]; split; [|apply Hba]|left; now apply Hdpo].
      intros H. apply Hcu in H. contradiction.
    + intros k'. rewrite (proj2 (proj2 (HL k'))). apply (b_nc _ _ _ _ HC).
    + intros k'. unfold idle. rewrite HK. destruct (N.eqb k' k) eqn:E; auto. apply N.eqb_eq in E. now subst.
    + intros k' H. now apply Hcu.
    + intros k' H. left. now rewrite Hip.
    + intros y (rq & Hu' & H1' & H2'). left. exists rq. split; [now apply HU|auto].
    + intros k'. left. split; auto. intros H. now apply Hcu.
  - assert (Hsgs : forall k', res_sig (res_of su1 k') = res_sig (res_of su k')) by (intros; apply Hall).
    apply (BS_kinds None x' su su1 HS); auto.
    + intros k' H. now apply Hcu.
    + intros rq [H|[(k0 & H)|(t0 & z & Hz & H)]].
      * apply Hts in H. destruct H as [[_ ->]|H]; [right; intros j d Hj; cbn [sq_index] in Hj; lia|left; now left].
      * left. right. left. exists k0. now rewrite <- (proj1 (proj2 (HL k0))).
      * left. right. right. exists t0, z. now rewrite <- Htask.
    + intros rq [H|[(k0 & H)|(t0 & z & Hz & H)]].
      * apply Hts in H. destruct H as [[_ ->]|H]; [right; intros i d Hsi; discriminate|left; now left].
      * left. right. left. exists k0. now rewrite <- (proj1 (proj2 (HL k0))).
      * left. right. right. exists t0, z. now rewrite <- Htask.
    + intros k'. rewrite HK. destruct (N.eqb k' k) eqn:E.
      * apply N.eqb_eq in E. subst k'. intros ->. right. destruct Hcase as [H|[(H & _)|(_ & B1 & B2 & B3 & B5)]]; try discriminate.
        rewrite Hba, (valid_stored su su1 k (Hst k)), Hsgs. auto 6.
      * intros Hk. left. split; auto. destruct (HL k') as (-> & -> & _). intros [H|[H|H]]; auto; discriminate.
    + intros k'. rewrite HK. destruct (N.eqb k' k) eqn:E.
      * apply N.eqb_eq in E. subst k'. intros ->. right. destruct Hcase as [H|[(_ & B1 & B2 & B3 & B4 & B5)|(H & _)]]; try discriminate.
        assert (Hrow : rowok su1 k) by (apply (rowok_drop su su1 k); auto; apply (b_rows _ _ _ _ HC); auto).
        assert (Hcur1 : forall y, curk su1 y -> stored su1 y = cvK y) by (intros y Hy; rewrite Hst; apply (b_cur _ _ _ _ _ _ HT); now apply Hcu).
        destruct (row_clean su1 k Hcur1) as (v & Hv & Hcv & Hco); [now rewrite Hsgs|exact Hrow|now rewrite (valid_stored su su1 k (Hst k))|rewrite Hdpk, B3; intros d []|].
        split; [|split; [|split; [|split]]]; [| | | |now rewrite Hsgs].
        -- exists v. auto.
        -- rewrite Hdpk, B3. intros d [].
        -- now rewrite Hba.
        -- destruct B4 as [(rq & H1 & H2)|(rq & H1 & H2)]; [left; exists rq; split; auto; apply Hts; now right|right; exists rq; now rewrite Hi].
      * intros Hk. left. split; auto. split; auto.
        intros [(rq & H1 & H2)|(rq & H1 & H2)]; [left; exists rq; split; auto; apply Hts; now right|right; exists rq; now rewrite Hi].
Qed.
End Inc.
