(* P19b stage 3 - incremental builds, part 1: vocabulary.  Restriction of this development: no earlier build was cancelled (no rule carries
   the flag "cancelled"); rule tables may be edited between builds (rows are relative to a table R of rules by key and signature). *)
From LLB Require Import Engine.Rules Engine.Spec Engine.SpecInv1 Engine.Impl Engine.ImplProofs Engine.ImplProofsSticky Engine.ImplProofsInv
  Engine.ImplProofsInv2 Engine.ImplVal1.
From Coq Require Import Arith Lia.
Local Open Scope N_scope.

Definition stored (s : istate) (k : key) : option value := res_value (res_of s k).
Definition cAt (s : istate) (k : key) : N := res_computedAt (res_of s k).
Definition bAt (s : istate) (k : key) : N := res_builtAt (res_of s k).
Definition deps (s : istate) (k : key) : list dep := res_deps (res_of s k).
(* complete in the current epoch *)
Definition curk (s : istate) (k : key) : Prop := kind_of s k = KComplete /\ bAt s k = is_epoch s.
Definition idle (s : istate) (k : key) : Prop := kind_of s k <> KWaiting /\ kind_of s k <> KComputing.
(* neither being scanned nor settled by a scan or a task *)
Definition unsettled (s : istate) (k : key) : Prop := kind_of s k <> KScanning /\ kind_of s k <> KDoesNotNeedToRun /\ kind_of s k <> KComplete.

(* outstanding input requests, now including the ones paused on a rule that is being scanned *)
Definition Unrouted (s : istate) (rq : ireq) : Prop := In rq (is_inreq s) \/ exists k, In rq (ri_paused (rinfo_of s k)).
Definition Oreq2 (s : istate) (rq : ireq) : Prop :=
  Unrouted s rq \/ (exists t' ti', task_of s t' = Some ti' /\ In rq (ti_reqby ti')) \/ In rq (is_fininreq s).
(* scan requests, wherever they are *)
Definition Sreq (s : istate) (rq : sreq) : Prop :=
  In rq (is_toscan s) \/ (exists k, In rq (ri_deferred (rinfo_of s k))) \/ (exists t ti, task_of s t = Some ti /\ In rq (ti_deferred ti)).
(* something queued will demand rule k *)
Definition pending_for (s : istate) (k : key) : Prop :=
  (exists rq, In rq (is_toscan s) /\ sq_input rq = Some k) \/ (exists rq, In rq (is_inreq s) /\ iq_input rq = k).

(* a dummy request (no task) for key x is still on its way: the request of the build, or the one issued for a discovered dependency *)
Definition pending_dummy (s : istate) (x : key) : Prop := exists rq, Unrouted s rq /\ iq_task rq = None /\ iq_input rq = x.
Definition mkd (x : key) : dep := mkDep x false false.

Section Inc.
Variable rules : key -> rule.
Variable env : key -> N.
Variable F : key -> N -> list value -> list N -> N -> N.
Variable rank : key -> nat.
(* the rule of key k with signature sg (Properties_C01: table_ok rules R says that the current table agrees with it) *)
Variable R : key -> N -> rule.
Notation cvK := (cvK rules env F rank).
Notation bkK := (bkK rules env F rank).
Notation n1 := (n1 rules).
Notation n2 := (n2 rules).
Notation key_of_slot := (key_of_slot rules env F rank).

(* ---------- rows: what a stored result says (the row_ok of SpecInv1) ---------- *)
Definition fresh (s : istate) (k : key) : Prop :=
  forall d, In d (deps s k) -> d_order d = false -> d_single d = false -> cAt s (d_key d) <= bAt s k.
(* the rule a stored result was computed by: the rule of its key with its signature *)
Definition rule_of (s : istate) (k : key) : rule := R k (res_sig (res_of s k)).
Definition concl (s : istate) (k : key) (v : value) : Prop :=
  let rl := rule_of s k in
  let sl := map (stored s) (r_req rl) in
  let bk := branch_keys rl sl in
  fst v = F k (res_sig (res_of s k)) (map payload_of (sl ++ map (stored s) bk)) (map (fun d => snd (payload_of (stored s d))) (r_disc rl)) (snd v) /\
  forall x, In x (r_req rl ++ bk ++ r_disc rl) -> In (mkDep x false false) (deps s k).
Definition rowok (s : istate) (k : key) : Prop :=
  exists v, stored s k = Some v /\ (r_obs (rule_of s k) = false -> snd v = 0) /\
            (forall d, In d (deps s k) -> In (d_key d) (requestable (rule_of s k) ++ r_disc (rule_of s k))) /\
            (fresh s k -> concl s k v).

Definition cstruct (s : istate) (k : key) : Prop :=
  let rl := rules k in
  let bk := branch_keys rl (map (stored s) (r_req rl)) in
  res_sig (res_of s k) = r_sig rl /\
  (forall x, In x (r_req rl ++ bk) -> In (mkDep x false false) (deps s k) /\ curk s x) /\
  (forall x, In x (r_disc rl) -> In (mkDep x false false) (deps s k)) /\
  (forall d, In d (deps s k) -> In (d_key d) (requestable rl ++ r_disc rl) /\
     (curk s (d_key d) \/ (In (d_key d) (r_disc rl) /\ (is_in_progress s (d_key d) = true \/ pending_dummy s (d_key d))))).

(* ---------- tasks ---------- *)
Record task_ok2 (s : istate) (t : key) (ti : tinfo) : Prop := {
  k2_len : length (ti_slots ti) = (n1 t + n2 t + if ti_branched ti then length (bkK t) else 0)%nat;
  k2_val : forall i v x, nth_error (ti_slots ti) i = Some (Some v) -> key_of_slot t i = Some x -> Some v = cvK x;
  k2_wit : forall i, used rules t i -> nth_error (ti_slots ti) i = Some None ->
             exists rq, Oreq2 s rq /\ iq_task rq = Some t /\ iq_order rq = false /\ iq_slot rq = i;
  k2_br : ti_branched ti = false -> forall i a b, r_br (rules t) = Some (i, a, b) -> (i < n1 t)%nat -> nth_error (ti_slots ti) i = Some None;
  k2_pend : forall v, ti_pending ti = Some v -> Some v = cvK t;
  k2_fin : In t (is_fintasks s) -> stored s t = cvK t;
  (* the dependency of every request that has been looked at is recorded *)
  k2_rec : forall i x, used rules t i -> (i < length (ti_slots ti))%nat -> key_of_slot t i = Some x ->
             (exists rq, Unrouted s rq /\ iq_task rq = Some t /\ iq_order rq = false /\ iq_slot rq = i) \/ In (mkDep x false false) (deps s t);
  (* a recorded dependency is complete, or its request is still outstanding *)
  k2_dcur : forall d, In d (deps s t) -> curk s (d_key d) \/ exists rq, Oreq2 s rq /\ iq_task rq = Some t /\ iq_input rq = d_key d;
  k2_dmen : forall d, In d (deps s t) -> In (d_key d) (requestable (rules t));
  k2_disc : (In t (is_fintasks s) -> ti_disc ti = map mkd (r_disc (rules t))) /\ (~ In t (is_fintasks s) -> ti_disc ti = []) /\
            (ti_pending ti <> None -> ~ In t (is_fintasks s));
  k2_fsig : In t (is_fintasks s) -> res_sig (res_of s t) = r_sig (rules t)
}.

(* tasks and values *)
Record BT (root : key) (s : istate) : Prop := {
  b_ep : is_epoch s <> 0;
  b_cur : forall k, curk s k -> stored s k = cvK k;
  b_req : forall rq, Oreq2 s rq -> rq_wf rules env F rank s rq /\
            (forall t, iq_task rq = Some t -> iq_order rq = false -> used rules t (iq_slot rq) -> iq_single rq = false);
  b_fin : forall rq, In rq (is_fininreq s) -> curk s (iq_input rq);
  b_task : forall t ti, task_of s t = Some ti -> task_ok2 s t ti;
  b_root : In (dummy_root root) (is_inreq s) \/ (exists k, In (dummy_root root) (ri_paused (rinfo_of s k))) \/ is_in_progress s root = true \/ curk s root
}.
(* stored results *)
Record BC (s : istate) : Prop := {
  b_nc : forall k, ri_cancelled (rinfo_of s k) = false;
  b_bnd : forall k, idle s k -> cAt s k <= bAt s k;
  b_le : forall k, bAt s k <= is_epoch s /\ cAt s k <= is_epoch s;
  b_be : forall k, bAt s k = is_epoch s -> kind_of s k = KComplete;
  b_rows : forall k, idle s k -> bAt s k <> 0 -> ~ curk s k -> rowok s k;
  (* a rule completed in this build: its requested inputs are recorded and complete; its discovered dependencies are recorded, and
     complete, in progress or about to be demanded *)
  b_cstr : forall k, curk s k -> cstruct s k
}.
(* scanning.  [x]: a rule whose scan has just begun and whose requester has not yet been entered into its scan record *)
Record BS (x : option key) (s : istate) : Prop := {
  b_scan : forall rq, Sreq s rq -> forall j d, (j < sq_index rq)%nat -> nth_error (deps s (sq_rule rq)) j = Some d ->
             curk s (d_key d) /\ (d_order d = false -> cAt s (d_key d) <= bAt s (sq_rule rq));
  b_scanning : forall k, kind_of s k = KScanning -> res_sig (res_of s k) = r_sig (rules k) /\ bAt s k <> 0 /\ valid rules env k (res_of s k) = true /\
                 (ri_deferred (rinfo_of s k) <> [] \/ ri_paused (rinfo_of s k) <> [] \/ x = Some k);
  b_dn : forall k, kind_of s k = KDoesNotNeedToRun ->
           (exists v, stored s k = Some v /\ Some v = cvK k /\ concl s k v) /\ (forall d, In d (deps s k) -> curk s (d_key d)) /\
           bAt s k <> 0 /\ pending_for s k /\ res_sig (res_of s k) = r_sig (rules k);
  (* a scan request that has its input cached has cached the order-only flag of that dependency *)
  b_sord : forall rq, Sreq s rq -> forall i d, sq_input rq = Some i -> nth_error (deps s (sq_rule rq)) (sq_index rq) = Some d -> sq_order rq = d_order d
}.
Definition BInv (root : key) (x : option key) (s : istate) : Prop := BT root s /\ BC s /\ BS x s.

(* the invariant of the states between builds: nothing depends on env *)
Record HInv (s : istate) : Prop := {
  h_q : quiescent s;
  h_nc : forall k, ri_cancelled (rinfo_of s k) = false;
  h_dn : forall k, kind_of s k <> KDoesNotNeedToRun;
  h_bnd : forall k, cAt s k <= bAt s k /\ bAt s k <= is_epoch s;
  h_rows : forall k, bAt s k <> 0 -> rowok s k
}.
End Inc.

(* the part of a task record the values depend on *)
Definition core2 (ti : tinfo) := (ti_slots ti, ti_branched ti, ti_pending ti, ti_reqby ti, ti_disc ti).
Definition tcore2 (s : istate) (t : key) := option_map core2 (task_of s t).
Lemma core2_fields a b : core2 a = core2 b -> ti_slots a = ti_slots b /\ ti_branched a = ti_branched b /\ ti_pending a = ti_pending b /\
  ti_reqby a = ti_reqby b /\ ti_disc a = ti_disc b.
Proof. unfold core2. intros H. inversion H. auto. Qed.
Lemma tcore2_some s s' t ti : tcore2 s' t = tcore2 s t -> task_of s' t = Some ti -> exists ti0, task_of s t = Some ti0 /\ core2 ti0 = core2 ti.
Proof. unfold tcore2. intros H Hg. rewrite Hg in H. destruct (task_of s t) as [ti0|]; [|discriminate]. cbn [option_map] in H. exists ti0. split; auto. congruence. Qed.
Lemma tcore2_task s s' t ti : tcore2 s' t = tcore2 s t -> task_of s t = Some ti -> exists ti', task_of s' t = Some ti' /\ core2 ti' = core2 ti.
Proof. intros H Hg. symmetry in H. destruct (tcore2_some s' s t ti H Hg) as (y & Hy & Hc). eauto. Qed.
Lemma tcore2_eq_tasks s s' : is_tasks s' = is_tasks s -> forall t, tcore2 s' t = tcore2 s t.
Proof. intros H t. unfold tcore2, task_of. now rewrite H. Qed.

