(* P19b stage 3, part 3: complete() and the ready-queue step keep the incremental invariant. *)
From LLB Require Import Engine.Rules Engine.Spec Engine.SpecInv1 Engine.Impl Engine.ImplProofs Engine.ImplProofsSticky Engine.ImplProofsMono Engine.ImplProofsInv
  Engine.ImplProofsInv2 Engine.ImplProofsInv3 Engine.ImplProofsInv7 Engine.ImplProofsInv8 Engine.ImplProofsInv9
  Engine.ImplVal1 Engine.ImplVal2 Engine.ImplVal3 Engine.ImplInc1 Engine.ImplInc2.
From Coq Require Import Arith Lia.
Local Open Scope N_scope.

Section Inc.
Variable rules : key -> rule.
Variable env : key -> N.
Variable F : key -> N -> list value -> list N -> N -> N.
Variable rank : key -> nat.
Variable R : key -> N -> rule.
Hypothesis Hrank : wf_rank rules rank.
Hypothesis Hdisc : forall k, r_disc (rules k) = [].
Notation cvK := (cvK rules env F rank).
Notation task_ok2 := (task_ok2 rules env F rank).
Notation BT := (BT rules env F rank).
Notation BC := (BC rules F R).
Notation BS := (BS rules env F rank R).
Notation BInv := (BInv rules env F rank R).

(* ---------- outstanding requests under changes of the task table ---------- *)
Lemma Oreq2_sub s s' : (forall rq, Unrouted s rq -> Unrouted s' rq) -> incl (is_fininreq s) (is_fininreq s') ->
  (forall t' ti', task_of s t' = Some ti' -> exists ti'', task_of s' t' = Some ti'' /\ incl (ti_reqby ti') (ti_reqby ti'')) ->
  forall rq, Oreq2 s rq -> Oreq2 s' rq.
Proof.
  intros Hu Hf Ht rq [H|[(t' & ti' & Hg & Hin)|H]]; [left; auto| |right; right; auto].
  right. left. destruct (Ht t' ti' Hg) as (y & Hy & Hinc). exists t', y. auto.
Qed.

Lemma Unrouted_same s s' : is_inreq s' = is_inreq s -> (forall k, ri_paused (rinfo_of s' k) = ri_paused (rinfo_of s k)) ->
  forall rq, Unrouted s rq <-> Unrouted s' rq.
Proof. intros Hi Hp rq. unfold Unrouted. rewrite Hi. split; intros [H|(k & H)]; auto; right; exists k; [rewrite Hp|rewrite <- Hp]; auto. Qed.

(* complete(): the discovered dependencies are noted in the task record *)
Lemma fold_discovered_eff t ds : forall s ti, task_of s t = Some ti -> kind_of s t = KComputing ->
  let s' := fold_left (fun s d => discovered s t d) ds s in
  (forall k, rinfo_of s' k = rinfo_of s k) /\ task_of s' t = Some (ti_with_disc (ti_disc ti ++ map mkd ds) ti) /\
  (forall t0, t0 <> t -> task_of s' t0 = task_of s t0) /\ is_inreq s' = is_inreq s /\ is_fininreq s' = is_fininreq s /\
  is_fintasks s' = is_fintasks s /\ is_toscan s' = is_toscan s /\ is_usedb s' = is_usedb s /\ is_epoch s' = is_epoch s.
Proof.
  induction ds as [|d ds IH]; intros s ti Hg Hk; cbn [fold_left map].
  - rewrite app_nil_r. repeat split; auto. rewrite Hg. now destruct ti.
  - set (s1 := discovered s t d).
    assert (E1 : s1 = set_ti s t (ti_add_disc d ti)).
    { unfold s1, discovered. unfold task_of in Hg. rewrite Hg, Hk. cbn [kind_eqb negb]. apply (mod_ti_some _ _ _ _ Hg). }
    assert (Hg1 : task_of s1 t = Some (ti_add_disc d ti)) by (rewrite E1; unfold task_of; autorewrite with iv; apply aget_aset_same).
    assert (Hk1 : kind_of s1 t = KComputing) by (rewrite E1; exact Hk).
    destruct (IH s1 _ Hg1 Hk1) as (A1 & A2 & A3 & A4 & A5 & A6 & A7 & A8 & A9). cbn zeta in *.
    split; [intros k; rewrite A1, E1; now autorewrite with iv|]. split.
    + rewrite A2. f_equal. unfold ti_add_disc, ti_with_disc. cbn. now rewrite <- app_assoc.
    + split; [intros t0 Hne; rewrite (A3 t0 Hne), E1; unfold task_of; autorewrite with iv; rewrite aget_aset; apply N.eqb_neq in Hne; now rewrite Hne|].
      rewrite A4, A5, A6, A7, A8, A9, E1. repeat split; now autorewrite with iv.
Qed.

Lemma rinfo_fold_discovered t ds : forall s k, rinfo_of (fold_left (fun s d => discovered s t d) ds s) k = rinfo_of s k.
Proof.
  induction ds as [|d ds IH]; intros s k; cbn [fold_left]; auto. rewrite IH. unfold discovered.
  destruct (aget (is_tasks s) t) eqn:E; [|now autorewrite with iv]. destruct (negb _); [now autorewrite with iv|]. rewrite (mod_ti_some _ _ _ _ E). now autorewrite with iv.
Qed.

Definition sreq_scanning (s : istate) : Prop := forall rq, Sreq s rq -> kind_of s (sq_rule rq) = KScanning.

Lemma completed_result_cases sg ep r v :
  (res_value (completed_result sg ep r v) = res_value r /\ res_computedAt (completed_result sg ep r v) = res_computedAt r) \/
  res_computedAt (completed_result sg ep r v) = ep.
Proof. unfold completed_result. cbn zeta. destruct (match res_value r with Some old => value_eqb old v | None => false end); [left|right]; auto. Qed.
Lemma completed_result_sig sg ep r v : res_sig (completed_result sg ep r v) = sg.
Proof. unfold completed_result. cbn zeta. now destruct (match res_value r with Some old => value_eqb old v | None => false end). Qed.
Lemma completed_result_deps sg ep r v : res_deps (completed_result sg ep r v) = res_deps r.
Proof. unfold completed_result. cbn zeta. now destruct (match res_value r with Some old => value_eqb old v | None => false end). Qed.

Lemma BInv_task_finish root x s t : BInv root x s -> sreq_scanning s -> nf (task_finish rules s t) -> BInv root x (task_finish rules s t).
Proof.
  intros (HT & HC & HS) Hss Hn. destruct (task_of s t) as [ti|] eqn:Hg; [|unfold task_finish; unfold task_of in Hg; rewrite Hg; exact (conj HT (conj HC HS))].
  destruct (ti_pending ti) as [v|] eqn:Hp; [|unfold task_finish; unfold task_of in Hg; rewrite Hg, Hp; exact (conj HT (conj HC HS))].
  unfold task_finish in *. unfold task_of in Hg. rewrite Hg, Hp in *. fold (task_of s t) in Hg.
  set (tiP := ti_with_pending None ti) in *. set (s0 := set_ti s t tiP) in *.
  set (sF := fold_left (fun s d => discovered s t d) (r_disc (rules t)) s0) in *. set (s3 := iemit sF (EComplete t v)) in *.
  assert (Hk3 : kind_of s3 t = KComputing).
  { unfold task_is_complete in Hn. destruct (kind_eqb (kind_of s3 t) KComputing) eqn:E; [now apply kind_eqb_eq|]. cbn [negb] in Hn. now apply nf_fault in Hn. }
  assert (Hk : kind_of s t = KComputing).
  { unfold kind_of in *. change (rinfo_of s3 t) with (rinfo_of sF t) in Hk3. unfold sF in Hk3. rewrite rinfo_fold_discovered in Hk3. exact Hk3. }
  assert (Hg0 : task_of s0 t = Some tiP) by (unfold s0, task_of; autorewrite with iv; apply aget_aset_same).
  destruct (fold_discovered_eff t (r_disc (rules t)) s0 tiP Hg0 Hk) as (A1 & A2 & A3 & A4 & A5 & A6 & A7 & A8 & A9). fold sF in A1, A2, A3, A4, A5, A6, A7, A8, A9.
  set (tiN := ti_with_disc (ti_disc tiP ++ map mkd (r_disc (rules t))) tiP) in *.
  assert (Hr3 : res_of s3 t = res_of s t) by (unfold res_of; change (rinfo_of s3 t) with (rinfo_of sF t); rewrite A1; unfold s0; now autorewrite with iv).
  assert (He3 : is_epoch s3 = is_epoch s) by (unfold s3; autorewrite with iv; rewrite A9; unfold s0; now autorewrite with iv).
  unfold task_is_complete. rewrite Hk3. cbn [kind_eqb negb]. cbn zeta. rewrite Hr3, He3.
  set (r' := completed_result (r_sig (rules t)) (is_epoch s) (res_of s t) v).
  set (s' := upd_fintasks (set_res s3 t r') (t :: is_fintasks (set_res s3 t r'))).
  assert (RI : forall k, rinfo_of s' k = if N.eqb k t then ri_with_res r' (rinfo_of s t) else rinfo_of s k).
  { intros k. unfold s', s3. autorewrite with iv. rewrite !A1. unfold s0. now autorewrite with iv. }
  assert (Ei : is_inreq s' = is_inreq s) by (unfold s', s3; autorewrite with iv; rewrite A4; unfold s0; now autorewrite with iv).
  assert (Ef : is_fininreq s' = is_fininreq s) by (unfold s', s3; autorewrite with iv; rewrite A5; unfold s0; now autorewrite with iv).
  assert (Eft : is_fintasks s' = t :: is_fintasks s) by (unfold s', s3; autorewrite with iv; rewrite A6; unfold s0; now autorewrite with iv).
  assert (Ets : is_toscan s' = is_toscan s) by (unfold s', s3; autorewrite with iv; rewrite A7; unfold s0; now autorewrite with iv).
  assert (Eu : is_usedb s' = is_usedb s) by (unfold s', s3; autorewrite with iv; rewrite A8; unfold s0; now autorewrite with iv).
  assert (Ee : is_epoch s' = is_epoch s) by (unfold s', s3; autorewrite with iv; rewrite A9; unfold s0; now autorewrite with iv).
  assert (RO : forall k, k <> t -> res_of s' k = res_of s k /\ kind_of s' k = kind_of s k).
  { intros k Hne. apply N.eqb_neq in Hne. unfold res_of, kind_of. now rewrite RI, Hne. }
  assert (RT : res_of s' t = r' /\ kind_of s' t = KComputing).
  { unfold res_of, kind_of. rewrite RI, N.eqb_refl. split; auto. }
  assert (TK : forall t0, task_of s' t0 = if N.eqb t0 t then Some tiN else task_of s t0).
  { intros t0. assert (E0 : task_of s' t0 = task_of sF t0) by (unfold s', s3, task_of; now autorewrite with iv). rewrite E0.
    destruct (N.eqb t0 t) eqn:E; [apply N.eqb_eq in E; subst t0; exact A2|]. apply N.eqb_neq in E. rewrite (A3 t0 E). unfold s0, task_of. autorewrite with iv. rewrite aget_aset. apply N.eqb_neq in E. now rewrite E. }
  assert (Hv' : stored s' t = Some v) by (unfold stored; destruct RT as [-> _]; apply completed_result_value).
  assert (HP : forall k, ri_paused (rinfo_of s' k) = ri_paused (rinfo_of s k) /\ ri_deferred (rinfo_of s' k) = ri_deferred (rinfo_of s k) /\ ri_cancelled (rinfo_of s' k) = ri_cancelled (rinfo_of s k)).
  { intros k. rewrite RI. destruct (N.eqb k t) eqn:E; auto. apply N.eqb_eq in E. subst k. auto. }
  assert (Hcurk : forall k, curk s' k <-> curk s k).
  { intros k. destruct (N.eq_dec k t) as [->|E].
    - unfold curk. destruct RT as [_ ->]. rewrite Hk. split; intros [H _]; discriminate.
    - destruct (RO k E) as [Hr Hkk]. now apply curk_same. }
  assert (Hdeps : forall k, deps s' k = deps s k).
  { intros k. destruct (N.eq_dec k t) as [->|E]; [|unfold deps; now destruct (RO k E) as [-> _]].
    unfold deps. destruct RT as [-> _]. unfold r'. now rewrite completed_result_deps. }
  assert (Hcv : Some v = cvK t) by (apply (k2_pend _ _ _ _ _ _ _ (b_task _ _ _ _ _ _ HT t ti Hg)); exact Hp).
  assert (Hip : is_in_progress s t = true /\ is_in_progress s' t = true) by (unfold is_in_progress; destruct RT as [_ ->]; now rewrite Hk).
  split; [|split].
  - (* tasks and values *)
    destruct HT as [T2 T3 T4 T5 T6 T7].
    assert (Hfw : forall t0 y, task_of s t0 = Some y -> exists z, task_of s' t0 = Some z /\ ti_slots z = ti_slots y /\ ti_branched z = ti_branched y /\ ti_reqby z = ti_reqby y /\ (t0 <> t -> z = y)).
    { intros t0 y Hy. rewrite TK. destruct (N.eqb t0 t) eqn:E; [|exists y; repeat split; auto].
      apply N.eqb_eq in E. subst t0. rewrite Hg in Hy. inversion Hy. subst y. exists tiN. repeat split; auto. intros H. now contradiction H. }
    assert (Hbw : forall t0 z, task_of s' t0 = Some z -> exists y, task_of s t0 = Some y /\ ti_slots z = ti_slots y /\ ti_branched z = ti_branched y /\ ti_reqby z = ti_reqby y /\ (t0 <> t -> z = y) /\ (t0 = t -> z = tiN)).
    { intros t0 z. rewrite TK. destruct (N.eqb t0 t) eqn:E; intros Hz.
      - apply N.eqb_eq in E. subst t0. inversion Hz. subst z. exists ti. repeat split; auto. intros H. now contradiction H.
      - exists z. apply N.eqb_neq in E. repeat split; auto. intros H. contradiction. }
    assert (HU : forall rq, Unrouted s rq <-> Unrouted s' rq) by (apply Unrouted_same; [exact Ei|intros k; apply HP]).
    assert (O1 : forall rq, Oreq2 s rq -> Oreq2 s' rq).
    { apply Oreq2_sub; [intros rq; apply HU|rewrite Ef; apply incl_refl|]. intros t0 y Hy. destruct (Hfw t0 y Hy) as (z & Hz & _ & _ & Hr & _). exists z. split; auto. rewrite Hr. apply incl_refl. }
    assert (O2 : forall rq, Oreq2 s' rq -> Oreq2 s rq).
    { apply Oreq2_sub; [intros rq; apply HU|rewrite Ef; apply incl_refl|]. intros t0 z Hz. destruct (Hbw t0 z Hz) as (y & Hy & _ & _ & Hr & _). exists y. split; auto. rewrite Hr. apply incl_refl. }
    constructor.
    + congruence.
    + intros k Hc. apply Hcurk in Hc. assert (Hne : k <> t) by (intros ->; destruct Hc as [Hc _]; congruence).
      unfold stored. destruct (RO k Hne) as [-> _]. now apply T3.
    + intros rq Ho. destruct (T4 rq (O2 rq Ho)) as [Hw Hsg]. split; auto.
      apply (rq_wf_sub rules env F rank s s'); auto. intros t0 y Hy. destruct (Hfw t0 y Hy) as (z & Hz & Hs & _). exists z. split; auto. rewrite Hs. lia.
    + intros rq. rewrite Ef. intros Hin. apply Hcurk. now apply T5.
    + intros t0 z Hz. destruct (Hbw t0 z Hz) as (y & Hy & E1 & E2 & E3 & E5 & E6). destruct (T6 t0 y Hy) as [K1 K2 K3 K4 K5 K6 K7 K8 K9 K10 K11].
      constructor; rewrite ?E1, ?E2; auto.
      * intros i Hu Hn0. destruct (K3 i Hu Hn0) as (rq & H1 & H2). exists rq. split; auto.
      * destruct (N.eq_dec t0 t) as [->|E]; [rewrite (E6 eq_refl); discriminate|rewrite (E5 E); exact K5].
      * destruct (N.eq_dec t0 t) as [->|E]; [intros _; rewrite Hv'; exact Hcv|].
        rewrite Eft. intros [H|H]; [congruence|]. unfold stored. destruct (RO t0 E) as [-> _]. now apply K6.
      * intros i y0 Hu0 Hi Hy0. rewrite Hdeps. destruct (K7 i y0 Hu0 Hi Hy0) as [(rq & H1 & H2)|H]; [left; exists rq; split; [now apply HU|auto]|now right].
      * intros d. rewrite Hdeps. intros Hd. destruct (K8 d Hd) as [H|(rq & H1 & H2)]; [left; now apply Hcurk|right; exists rq; split; auto].
      * intros d. rewrite Hdeps. apply K9.
      * destruct K10 as (D1 & D2 & D3). destruct (N.eq_dec t0 t) as [->|E].
        -- rewrite (E6 eq_refl). rewrite Hg in Hy. inversion Hy. subst y. cbn [tiN tiP ti_with_disc ti_with_pending ti_disc ti_pending].
           rewrite (D2 (D3 ltac:(congruence))). cbn [app]. rewrite Eft. split; [auto|]. split; [intros H; exfalso; apply H; now left|intros H; now contradiction H].
        -- rewrite (E5 E). rewrite Eft. repeat split.
           ++ intros [H|H]; [congruence|auto].
           ++ intros H. apply D2. intros H'. apply H. now right.
           ++ intros Hp0 [H|H]; [congruence|]. now apply (D3 Hp0).
      * destruct (N.eq_dec t0 t) as [->|E]; [intros _; destruct RT as [-> _]; unfold r'; apply completed_result_sig|].
        rewrite Eft. intros [H|H]; [congruence|]. destruct (RO t0 E) as [-> _]. now apply K11.
    + destruct T7 as [H|[(k & H)|[H|H]]]; [left; now rewrite Ei|right; left; exists k; now rewrite (proj1 (HP k))| |right; right; right; now apply Hcurk].
      right. right. left. destruct (N.eq_dec root t) as [->|E]; [apply Hip|]. unfold is_in_progress in *. now destruct (RO root E) as [_ ->].
  - (* stored results *)
    apply (BC_change rules F R (fun k => N.eqb k t) s s'); auto.
    + intros k. rewrite (proj2 (proj2 (HP k))). apply HC.
    + intros k E. apply N.eqb_neq in E. now apply RO.
    + intros k E. apply N.eqb_eq in E. subst k. destruct Hip as [I1 I2]. split; [now apply in_progress_unsettled|]. split; [exact I2|].
      unfold bAt. destruct RT as [-> _]. unfold r'. apply completed_result_built.
    + intros k E. apply N.eqb_eq in E. subst k. unfold stored, cAt. destruct RT as [-> _]. unfold r'. apply completed_result_cases.
    + intros y (rq & Hu' & H1' & H2'). left. exists rq. split; auto. apply (Unrouted_same s s' Ei (fun k => proj1 (HP k))). exact Hu'.
  - (* scanning *)
    apply (BS_change rules env F R rank (fun k => N.eqb k t) x s s'); auto.
    + intros k E. apply N.eqb_neq in E. now apply RO.
    + intros k E. apply N.eqb_eq in E. subst k. split; [apply in_progress_unsettled|]; apply Hip.
    + intros rq [H|[(k & H)|(t0 & z & Hz & H)]]; [left; now rewrite <- Ets|right; left; exists k; now rewrite <- (proj1 (proj2 (HP k)))|].
      right. right. rewrite TK in Hz. destruct (N.eqb t0 t) eqn:E; [|eauto]. apply N.eqb_eq in E. subst t0. inversion Hz. subst z. exists t, ti. auto.
    + intros k _. now rewrite (proj1 (HP k)), (proj1 (proj2 (HP k))).
    + intros k _ [(rq & H1 & H2)|(rq & H1 & H2)]; [left; exists rq; now rewrite Ets|right; exists rq; now rewrite Ei].
Qed.

Notation bkK := (bkK rules env F rank).
Notation n1 := (n1 rules).
Notation n2 := (n2 rules).
Notation key_of_slot := (key_of_slot rules env F rank).

(* all used slots filled (no witness request can exist) => the task computes the clean value *)
Lemma task_value_cv2 s t ti : task_ok2 s t ti -> (forall rq, Oreq2 s rq -> iq_task rq <> Some t) ->
  Some (task_value rules env F t ti) = cvK t.
Proof.
  intros [K1 K2 K3 K4 K5 K6 K7 K8 K9 K10 K11] Hno.
  assert (Hfilled : forall i, used rules t i -> (i < length (ti_slots ti))%nat -> exists v, nth_error (ti_slots ti) i = Some (Some v)).
  { intros i Hu Hl. destruct (nth_error (ti_slots ti) i) as [[v|]|] eqn:E; [eauto| |apply nth_error_None in E; lia].
    destruct (K3 i Hu E) as (rq & Ho & Ht & _). exfalso. exact (Hno rq Ho Ht). }
  (* the branch has fired iff there are branch keys *)
  assert (Hlen : length (ti_slots ti) = (n1 t + n2 t + length (bkK t))%nat).
  { rewrite K1. destruct (ti_branched ti) eqn:Eb; [reflexivity|]. f_equal.
    unfold ImplVal1.bkK, branch_keys. destruct (r_br (rules t)) as [[[i a] b]|] eqn:Ebr; [|reflexivity].
    destruct (Nat.ltb i (length (r_req (rules t)))) eqn:El.
    - apply Nat.ltb_lt in El. exfalso. pose proof (K4 eq_refl i a b eq_refl El) as Hn.
      destruct (Hfilled i) as (v & Hv); [left; exact El|rewrite K1; unfold ImplVal1.n1 in *; lia|]. congruence.
    - destruct (nth_error _ i) as [[v|]|]; reflexivity. }
  unfold task_value. cbn zeta. unfold ImplVal1.cvK at 1. rewrite (cvk_unfold rules env F rank Hrank t). cbn zeta. f_equal. f_equal. f_equal.
  unfold used_slots. rewrite map_app. unfold used in *. unfold ImplVal1.n1, ImplVal1.n2, ImplVal1.bkK in *. f_equal.
  - apply map_by_nth.
    + rewrite firstn_length. lia.
    + intros i a x Ha Hx. assert (Hi : (i < length (r_req (rules t)))%nat) by (apply nth_error_Some; congruence).
      rewrite nth_error_firstn in Ha by exact Hi. destruct (Hfilled i) as (v & Hv); [now left|lia|]. rewrite Hv in Ha. inversion Ha. subst a.
      assert (Hks : key_of_slot t i = Some x). { unfold ImplVal1.key_of_slot, ImplVal1.n1. apply Nat.ltb_lt in Hi. now rewrite Hi. }
      rewrite (K2 i v x Hv Hks). reflexivity.
  - apply map_by_nth.
    + rewrite skipn_length. change cvK with (cvk rules env F rank) in Hlen. lia.
    + intros j a x Ha Hx. assert (Hj : (j < length (branch_keys (rules t) (map cvK (r_req (rules t)))))%nat) by (apply nth_error_Some; change cvK with (cvk rules env F rank); congruence).
      rewrite nth_error_skipn in Ha.
      destruct (Hfilled (length (r_req (rules t)) + length (r_single (rules t)) + j)%nat) as (v & Hv); [right; lia|lia|]. rewrite Hv in Ha. inversion Ha. subst a.
      assert (Hks : key_of_slot t (length (r_req (rules t)) + length (r_single (rules t)) + j) = Some x).
      { unfold ImplVal1.key_of_slot, ImplVal1.n1, ImplVal1.n2, ImplVal1.bkK.
        assert (E1 : Nat.ltb (length (r_req (rules t)) + length (r_single (rules t)) + j) (length (r_req (rules t))) = false) by (apply Nat.ltb_ge; lia).
        assert (E2 : Nat.ltb (length (r_req (rules t)) + length (r_single (rules t)) + j) (length (r_req (rules t)) + length (r_single (rules t))) = false) by (apply Nat.ltb_ge; lia).
        rewrite E1, E2.
        replace (length (r_req (rules t)) + length (r_single (rules t)) + j - length (r_req (rules t)) - length (r_single (rules t)))%nat with j by lia. exact Hx. }
      rewrite (K2 _ v x Hv Hks). reflexivity.
Qed.


(* ---------- the ready-queue step ---------- *)
Lemma BInv_avail_unit root x s rest t ti tv : BInv root x s -> sreq_scanning s -> task_of s t = Some ti -> kind_of s t = KWaiting -> ~ In t (is_fintasks s) -> Some tv = cvK t ->
  BInv root x (set_ti (iemit (set_kind (upd_ready s rest) t KComputing) (EAvail t)) t (ti_with_pending (Some tv) ti)).
Proof.
  intros (HT & HC & HS) Hss Hg Hk Hnft Htv. set (s' := set_ti _ t _).
  assert (RI : forall k, rinfo_of s' k = if N.eqb k t then ri_with_kind KComputing (rinfo_of s t) else rinfo_of s k).
  { intros k. unfold s', set_kind. now autorewrite with iv. }
  assert (HR : forall k, res_of s' k = res_of s k).
  { intros k. unfold res_of. rewrite RI. destruct (N.eqb k t) eqn:E; auto. apply N.eqb_eq in E. now subst. }
  assert (HK : forall k, kind_of s' k = if N.eqb k t then KComputing else kind_of s k).
  { intros k. unfold kind_of. rewrite RI. now destruct (N.eqb k t). }
  assert (HP : forall k, ri_paused (rinfo_of s' k) = ri_paused (rinfo_of s k) /\ ri_deferred (rinfo_of s' k) = ri_deferred (rinfo_of s k) /\ ri_cancelled (rinfo_of s' k) = ri_cancelled (rinfo_of s k)).
  { intros k. rewrite RI. destruct (N.eqb k t) eqn:E; auto. apply N.eqb_eq in E. subst k. auto. }
  assert (TK : forall t0, task_of s' t0 = if N.eqb t0 t then Some (ti_with_pending (Some tv) ti) else task_of s t0).
  { intros t0. unfold s', task_of. autorewrite with iv. now rewrite aget_aset. }
  assert (Hcurk : forall k, curk s' k <-> curk s k).
  { intros k. unfold curk, bAt. rewrite HR, HK. destruct (N.eqb k t) eqn:E; [|tauto]. apply N.eqb_eq in E. subst k. rewrite Hk. split; intros [H _]; discriminate. }
  assert (Hdeps : forall k, deps s' k = deps s k) by (intros; unfold deps; now rewrite HR).
  assert (Hst : forall k, stored s' k = stored s k) by (intros; unfold stored; now rewrite HR).
  assert (Hip : is_in_progress s t = true /\ is_in_progress s' t = true) by (unfold is_in_progress; rewrite HK, N.eqb_refl, Hk; auto).
  assert (RO : forall k, N.eqb k t = false -> res_of s' k = res_of s k /\ kind_of s' k = kind_of s k) by (intros k E; split; [apply HR|now rewrite HK, E]).
  split; [|split].
  - destruct HT as [T2 T3 T4 T5 T6 T7].
    assert (Hfw : forall t0 y, task_of s t0 = Some y -> exists z, task_of s' t0 = Some z /\ ti_slots z = ti_slots y /\ ti_reqby z = ti_reqby y).
    { intros t0 y Hy. rewrite TK. destruct (N.eqb t0 t) eqn:E; [|eauto]. apply N.eqb_eq in E. subst t0. rewrite Hg in Hy. inversion Hy. subst y. eauto. }
    assert (Hbw : forall t0 z, task_of s' t0 = Some z -> exists y, task_of s t0 = Some y /\ ti_slots z = ti_slots y /\ ti_reqby z = ti_reqby y).
    { intros t0 z. rewrite TK. destruct (N.eqb t0 t) eqn:E; [|eauto]. apply N.eqb_eq in E. subst t0. intros Hz. inversion Hz. exists ti. auto. }
    assert (HU : forall rq, Unrouted s rq <-> Unrouted s' rq) by (apply Unrouted_same; [reflexivity|intros k; apply HP]).
    assert (O1 : forall rq, Oreq2 s rq -> Oreq2 s' rq).
    { apply Oreq2_sub; [intros rq; apply HU|apply incl_refl|]. intros t0 y Hy. destruct (Hfw t0 y Hy) as (z & Hz & _ & Hr). exists z. split; auto. rewrite Hr. apply incl_refl. }
    assert (O2 : forall rq, Oreq2 s' rq -> Oreq2 s rq).
    { apply Oreq2_sub; [intros rq; apply HU|apply incl_refl|]. intros t0 z Hz. destruct (Hbw t0 z Hz) as (y & Hy & _ & Hr). exists y. split; auto. rewrite Hr. apply incl_refl. }
    constructor.
    + exact T2.
    + intros k Hc. rewrite Hst. now apply T3, Hcurk.
    + intros rq Ho. destruct (T4 rq (O2 rq Ho)) as [Hw Hsg]. split; auto.
      apply (rq_wf_sub rules env F rank s s'); auto. intros t0 y Hy. destruct (Hfw t0 y Hy) as (z & Hz & Hs & _). exists z. split; auto. rewrite Hs. lia.
    + intros rq Hin. apply Hcurk. now apply T5.
    + intros t0 z. rewrite TK. destruct (N.eqb t0 t) eqn:E; intros Hz.
      * apply N.eqb_eq in E. subst t0. inversion Hz. subst z. destruct (T6 t ti Hg) as [K1 K2 K3 K4 K5 K6 K7 K8 K9 K10 K11].
        constructor; cbn [ti_with_pending ti_slots ti_branched ti_pending ti_disc]; auto.
        -- intros i Hu Hn0. destruct (K3 i Hu Hn0) as (rq & H1 & H2). exists rq. split; auto.
        -- intros v Hv. inversion Hv. now subst.
        -- rewrite Hst. exact K6.
        -- intros i y0 Hu0 Hi Hy0. rewrite Hdeps. destruct (K7 i y0 Hu0 Hi Hy0) as [(rq & H1 & H2)|H]; [left; exists rq; split; [now apply HU|auto]|now right].
        -- intros d. rewrite Hdeps. intros Hd. destruct (K8 d Hd) as [H|(rq & H1 & H2)]; [left; now apply Hcurk|right; exists rq; split; auto].
        -- intros d. rewrite Hdeps. apply K9.
        -- destruct K10 as (D1 & D2 & D3). split; [exact D1|]. split; [exact D2|intros _; exact Hnft].
        -- rewrite HR. exact K11.
      * destruct (T6 t0 z Hz) as [K1 K2 K3 K4 K5 K6 K7 K8 K9 K10 K11]. constructor; auto.
        -- intros i Hu Hn0. destruct (K3 i Hu Hn0) as (rq & H1 & H2). exists rq. split; auto.
        -- rewrite Hst. exact K6.
        -- intros i y0 Hu0 Hi Hy0. rewrite Hdeps. destruct (K7 i y0 Hu0 Hi Hy0) as [(rq & H1 & H2)|H]; [left; exists rq; split; [now apply HU|auto]|now right].
        -- intros d. rewrite Hdeps. intros Hd. destruct (K8 d Hd) as [H|(rq & H1 & H2)]; [left; now apply Hcurk|right; exists rq; split; auto].
        -- intros d. rewrite Hdeps. apply K9.
        -- rewrite HR. exact K11.
    + destruct T7 as [H|[(k & H)|[H|H]]]; [now left|right; left; exists k; now rewrite (proj1 (HP k))| |right; right; right; now apply Hcurk].
      right. right. left. unfold is_in_progress in *. rewrite HK. destruct (N.eqb root t); auto.
  - apply (BC_change rules F R (fun k => N.eqb k t) s s'); auto.
    + intros k. rewrite (proj2 (proj2 (HP k))). apply HC.
    + intros k E. apply N.eqb_eq in E. subst k. destruct Hip as [I1 I2]. split; [now apply in_progress_unsettled|]. split; [exact I2|]. unfold bAt. rewrite HR. reflexivity.
    + intros k E. left. unfold cAt. now rewrite Hst, HR.
    + intros y (rq & Hu' & H1' & H2'). left. exists rq. split; auto. apply (Unrouted_same s s' eq_refl (fun k => proj1 (HP k))). exact Hu'.
  - apply (BS_change rules env F R rank (fun k => N.eqb k t) x s s'); auto.
    + intros k E. apply N.eqb_eq in E. subst k. split; [apply in_progress_unsettled|]; apply Hip.
    + intros rq [H|[(k & H)|(t0 & z & Hz & H)]]; [now left|right; left; exists k; now rewrite <- (proj1 (proj2 (HP k)))|].
      right. right. rewrite TK in Hz. destruct (N.eqb t0 t) eqn:E; [|eauto]. apply N.eqb_eq in E. subst t0. inversion Hz. subst z. exists t, ti. auto.
    + intros k _. now rewrite (proj1 (HP k)), (proj1 (proj2 (HP k))).
Qed.

(* nothing the invariant looks at changes *)
Lemma BInv_frame root x s s' : (forall k, rinfo_of s' k = rinfo_of s k) -> is_tasks s' = is_tasks s -> is_inreq s' = is_inreq s ->
  is_fininreq s' = is_fininreq s -> is_fintasks s' = is_fintasks s -> is_toscan s' = is_toscan s -> is_usedb s' = is_usedb s ->
  is_epoch s' = is_epoch s -> sreq_scanning s -> BInv root x s -> BInv root x s'.
Proof.
  intros HR Ht Hi Hf Hft Hts Hu He Hss (HT & HC & HS).
  assert (HK : forall k, kind_of s' k = kind_of s k) by (intros; unfold kind_of; now rewrite HR).
  assert (HRes : forall k, res_of s' k = res_of s k) by (intros; unfold res_of; now rewrite HR).
  assert (Htk : forall t, task_of s' t = task_of s t) by (intros; unfold task_of; now rewrite Ht).
  assert (Hcurk : forall k, curk s' k <-> curk s k) by (intros; now apply curk_same).
  assert (HU : forall rq, Unrouted s rq <-> Unrouted s' rq) by (apply Unrouted_same; auto; intros k; now rewrite HR).
  assert (HO : forall rq, Oreq2 s' rq <-> Oreq2 s rq).
  { intros rq. unfold Oreq2. rewrite Hf. rewrite <- (HU rq). split; intros [H|[(t0 & y & Hy & H)|H]]; auto; right; left; exists t0, y; [rewrite <- Htk|rewrite Htk]; auto. }
  split; [|split].
  - destruct HT as [T2 T3 T4 T5 T6 T7]. constructor.
    + congruence.
    + intros k Hc. unfold stored. rewrite HRes. now apply T3, Hcurk.
    + intros rq Ho. apply HO in Ho. destruct (T4 rq Ho) as [Hw Hsg]. split; auto. intros t Hk Hor. destruct (Hw t Hk Hor) as (H1 & ti & Hg & Hl). split; auto. exists ti. now rewrite Htk.
    + intros rq. rewrite Hf. intros Hin. now apply Hcurk, T5.
    + intros t ti. rewrite Htk. intros Hg. destruct (T6 t ti Hg) as [K1 K2 K3 K4 K5 K6 K7 K8 K9 K10 K11].
      assert (Hd : deps s' t = deps s t) by (unfold deps; now rewrite HRes).
      constructor; auto.
      * intros i Hu' Hn0. destruct (K3 i Hu' Hn0) as (rq & H1 & H2). exists rq. split; auto. now apply HO.
      * rewrite Hft. unfold stored. now rewrite HRes.
      * intros i y Hu0 Hi' Hy. rewrite Hd. destruct (K7 i y Hu0 Hi' Hy) as [(rq & H1 & H2)|H]; [left; exists rq; split; [now apply HU|auto]|now right].
      * intros d. rewrite Hd. intros Hin. destruct (K8 d Hin) as [H|(rq & H1 & H2)]; [left; now apply Hcurk|right; exists rq; split; auto; now apply HO].
      * intros d. rewrite Hd. apply K9.
      * rewrite Hft. exact K10.
      * rewrite Hft, HRes. exact K11.
    + rewrite Hi, (in_progress_of_kind s s' root (HK root)). destruct T7 as [H|[(k & H)|[H|H]]]; auto; [right; left; exists k; now rewrite HR|right; right; right; now apply Hcurk].
  - apply (BC_change rules F R (fun _ => false) s s'); auto; try discriminate; [intros k; rewrite HR; apply HC|].
    intros y (rq & Hu' & H1' & H2'). left. exists rq. split; auto. now apply HU.
  - apply (BS_change rules env F R rank (fun _ => false) x s s'); auto; try discriminate.
    + intros rq [H|[(k & H)|(t0 & z & Hz & H)]]; [left; congruence|right; left; exists k; now rewrite <- HR|right; right; exists t0, z; now rewrite <- Htk].
    + intros k _. now rewrite HR.
    + intros k _ [(rq & H1 & H2)|(rq & H1 & H2)]; [left; exists rq; now rewrite Hts|right; exists rq; now rewrite Hi].
Qed.

Lemma Inv_sreq_scanning c s : Inv rules c s -> sreq_scanning s.
Proof.
  intros (_ & _ & _ & HS) rq [H|[(k & H)|(t0 & z & Hz & H)]].
  - pose proof (s_ok_toscan c s HS) as Hf. rewrite Forall_forall in Hf. apply (Hf rq H).
  - pose proof (s_ok_rdef c s HS k) as Hf. rewrite Forall_forall in Hf. apply (Hf rq H).
  - pose proof (s_ok_tdef c s HS t0 z Hz) as Hf. rewrite Forall_forall in Hf. apply (Hf rq H).
Qed.

Lemma BInv_step_ready root syncp s : Inv rules ctx0 s -> BInv root None s -> nf (step_ready rules env F syncp s) ->
  BInv root None (step_ready rules env F syncp s).
Proof.
  intros HI HB Hn.
  pose proof (Inv_sreq_scanning ctx0 _ (Inv_mstep rules env F (fun _ => []) syncp _ _ (ms_ready rules env F (fun _ => []) syncp s) HI)) as Hfin.
  unfold step_ready in *. destruct (is_ready s) as [|t rest] eqn:Hq; auto.
  pose proof HI as (_ & HT & HII & _). pose proof (Inv_sreq_scanning ctx0 s HI) as Hss.
  destruct (t_rd1 ctx0 s HT t) as (ti & Hg & Hk & Hw); [rewrite Hq; now left|].
  assert (Hz : (cnt_i t (cx_fi ctx0) + outstanding_count s t = 0)%nat) by (rewrite <- (i_wc rules ctx0 s HII t ti Hg); exact Hw).
  destruct (no_ireq_of s t (cx_fi ctx0) Hz (t_nd_rules ctx0 s HT) (t_nd_tasks ctx0 s HT)) as (_ & Z2 & Z3 & Z4 & Z5).
  assert (Hno : forall rq, Oreq2 s rq -> iq_task rq <> Some t).
  { intros rq [[H|(k & H)]|[(t0 & y & Hy & Hin)|H]]; [now apply Z2|eapply Z3; eauto|eapply Z4; eauto|now apply Z5]. }
  pose proof HB as (HBT & _).
  pose proof (task_value_cv2 s t ti (b_task _ _ _ _ _ _ HBT t ti Hg) Hno) as Htv.
  unfold run_ready, inputs_available in *. cbn zeta in *.
  change (kind_of (upd_ready s rest) t) with (kind_of s t) in *. rewrite Hk in *. cbn [kind_eqb check] in *.
  unfold avail_body in *. change (aget (is_tasks (iemit (set_kind (upd_ready s rest) t KComputing) (EAvail t))) t) with (aget (is_tasks s) t) in *.
  unfold task_of in Hg. rewrite Hg in *. cbn zeta in *.
  assert (Hnft : ~ In t (is_fintasks s)) by (intros H; destruct (t_ft ctx0 s HT t H) as (_ & _ & Hkc & _); congruence).
  pose proof (BInv_avail_unit root None s rest t ti (task_value rules env F t ti) HB Hss Hg Hk Hnft Htv) as HB1.
  set (s2 := set_ti _ t _) in *.
  assert (Hss2 : sreq_scanning s2).
  { intros rq Hrq. assert (Hrq0 : Sreq s rq).
    { destruct Hrq as [H|[(k & H)|(t0 & z & Hz0 & H)]]; [now left|right; left; exists k; unfold s2, set_kind in H; autorewrite with iv in H; destruct (N.eqb k t) eqn:E; [apply N.eqb_eq in E; subst k|]; exact H|].
      right. right. unfold s2, task_of in Hz0. autorewrite with iv in Hz0. rewrite aget_aset in Hz0. destruct (N.eqb t0 t) eqn:E; [|eauto].
      apply N.eqb_eq in E. subst t0. inversion Hz0. subst z. exists t, ti. auto. }
    pose proof (Hss rq Hrq0) as Hks. unfold s2, set_kind. change (kind_of (set_ti ?a ?b ?c) ?k) with (kind_of a k). change (kind_of (iemit ?a ?e) ?k) with (kind_of a k).
    rewrite kind_of_mod_ri. destruct (N.eqb (sq_rule rq) t) eqn:E; [apply N.eqb_eq in E; rewrite E in Hks; congruence|exact Hks]. }
  assert (Hn2 : nf (if syncp t then task_finish rules s2 t else s2)) by (unfold nf in *; now rewrite is_fault_upd_outstanding in Hn).
  assert (HB2 : BInv root None (if syncp t then task_finish rules s2 t else s2)).
  { destruct (syncp t); auto. now apply BInv_task_finish. }
  assert (Hss3 : sreq_scanning (if syncp t then task_finish rules s2 t else s2)) by (intros rq Hrq; exact (Hfin rq Hrq)).
  eapply BInv_frame; [..|exact Hss3|exact HB2]; auto.
Qed.
End Inc.
