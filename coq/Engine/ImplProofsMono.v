(* P19 - part 3: within a build a rule's state only moves forward; at most one task per rule; inputsAvailable at most once.
   Everything is stated for fault-free runs (ImplProofsInv*: no fault is reachable).  One preorder R1 bundles what every
   function of the model guarantees. *)
From LLB Require Import Engine.Rules Engine.Spec Engine.Impl Engine.ImplProofs Engine.ImplProofsSticky.
From Coq Require Import Arith Lia.
Local Open Scope N_scope.

Lemma count_ev_app p a b : count_ev p (a ++ b) = (count_ev p a + count_ev p b)%nat.
Proof. induction a as [|e a IH]; cbn [count_ev app]; auto. rewrite IH. lia. Qed.

(* what a piece of log may contain for key k, given the rank of k before and after *)
Definition log_ok (s s' : istate) (l : list event) : Prop :=
  forall k,
    (count_ev (is_create k) l <= 1 /\ (count_ev (is_create k) l = 1 -> krank s k <= 2 /\ 3 <= krank s' k))%nat /\
    (count_ev (is_avail k) l <= 1 /\ (count_ev (is_avail k) l = 1 -> krank s k <= 3 /\ 4 <= krank s' k))%nat.

Definition R1 (s s' : istate) : Prop :=
  nf s' -> nf s /\ is_epoch s' = is_epoch s /\ (forall k, (krank s k <= krank s' k)%nat) /\
           exists l, is_log s' = l ++ is_log s /\ log_ok s s' l.

Lemma R1_refl s : R1 s s.
Proof.
  intros H. repeat split; auto. exists []. split; auto. intros k. cbn [count_ev]. repeat split; try lia.
Qed.

Lemma R1_trans s1 s2 s3 : R1 s1 s2 -> R1 s2 s3 -> R1 s1 s3.
Proof.
  intros H12 H23 H3. destruct (H23 H3) as (H2 & He2 & Hr2 & l2 & Hl2 & Hok2).
  destruct (H12 H2) as (H1 & He1 & Hr1 & l1 & Hl1 & Hok1).
  split; auto. split; [congruence|]. split; [intros k; specialize (Hr1 k); specialize (Hr2 k); lia|].
  exists (l2 ++ l1). split; [rewrite Hl2, Hl1; now rewrite app_assoc|].
  intros k. specialize (Hr1 k). specialize (Hr2 k). destruct (Hok1 k) as [[Ha1 Hb1] [Hc1 Hd1]]. destruct (Hok2 k) as [[Ha2 Hb2] [Hc2 Hd2]].
  rewrite !count_ev_app. repeat split; try lia.
Qed.

(* nothing about the rules, the epoch or the log changes *)
Lemma R1_frame s s' :
  (nf s' -> nf s) -> is_epoch s' = is_epoch s -> (forall k, rinfo_of s' k = rinfo_of s k) -> is_log s' = is_log s -> R1 s s'.
Proof.
  intros Hn He Hr Hl H. repeat split; auto.
  - intros k. unfold krank. now rewrite He, Hr.
  - exists []. split; auto. intros k. cbn [count_ev]. repeat split; try lia.
Qed.

(* an event that is neither createTask nor inputsAvailable *)
Definition plain (e : event) : Prop := match e with ECreate _ | EAvail _ => False | _ => True end.
Lemma R1_iemit s e : plain e -> R1 s (iemit s e).
Proof.
  intros Hp H. split; [now apply nf_iemit in H|]. split; [reflexivity|]. split; [intros k; unfold krank; now autorewrite with iv|].
  exists [e]. split; [reflexivity|]. intros k. cbn [count_ev]. destruct e; cbn [is_create is_avail plain] in *; try contradiction; repeat split; try lia.
Qed.

Lemma R1_fault s c : R1 s (fault s c).
Proof. intros H. now apply nf_fault in H. Qed.

Lemma R1_check s b c : R1 s (check s b c).
Proof. destruct b; [apply R1_refl|apply R1_fault]. Qed.

Ltac frame := apply R1_frame; [intros Hf; unfold nf in *; now autorewrite with iv in Hf | now autorewrite with iv | intros; now autorewrite with iv | now autorewrite with iv].

Lemma R1_touch s k : R1 s (touch s k). Proof. frame. Qed.
Lemma R1_set_ti s t ti : R1 s (set_ti s t ti). Proof. frame. Qed.
Lemma R1_push_inreq s rq : R1 s (push_inreq s rq). Proof. frame. Qed.
Lemma R1_upd_tasks s m : R1 s (upd_tasks s m). Proof. frame. Qed.
Lemma R1_upd_toscan s m : R1 s (upd_toscan s m). Proof. frame. Qed.
Lemma R1_upd_inreq s m : R1 s (upd_inreq s m). Proof. frame. Qed.
Lemma R1_upd_fininreq s m : R1 s (upd_fininreq s m). Proof. frame. Qed.
Lemma R1_upd_ready s m : R1 s (upd_ready s m). Proof. frame. Qed.
Lemma R1_upd_fintasks s m : R1 s (upd_fintasks s m). Proof. frame. Qed.
Lemma R1_upd_outstanding s m : R1 s (upd_outstanding s m). Proof. frame. Qed.
Lemma R1_mod_ti s t f : R1 s (mod_ti s t f).
Proof. unfold mod_ti. destruct (aget _ _); [apply R1_set_ti|apply R1_fault]. Qed.

Lemma R1_rank_frame s s' :
  (nf s' -> nf s) -> is_epoch s' = is_epoch s -> (forall k, krank s' k = krank s k) -> is_log s' = is_log s -> R1 s s'.
Proof.
  intros Hn He Hr Hl H. repeat split; auto.
  - intros k. rewrite Hr. lia.
  - exists []. split; auto. intros k. cbn [count_ev]. repeat split; try lia.
Qed.

Lemma R1_upd_db s d : R1 s (upd_db s d).
Proof.
  apply R1_rank_frame; auto.
  intros k. unfold krank, rrank. rewrite rinfo_kind_upd_db. cbn [is_epoch upd_db].
  destruct (aget (is_rules s) k) as [ri|] eqn:E.
  - now rewrite (rinfo_of_upd_db_loaded s d k ri E).
  - unfold rinfo_of. rewrite E. reflexivity.
Qed.

Lemma rrank_le5 ep ri : (rrank ep ri <= 5)%nat.
Proof. unfold rrank. destruct (ri_kind ri); try lia. destruct (N.eqb _ _); lia. Qed.

(* a rule record is replaced by one that is not earlier in the order *)
Lemma R1_mod_ri s k f : (rrank (is_epoch s) (rinfo_of s k) <= rrank (is_epoch s) (f (rinfo_of s k)))%nat -> R1 s (mod_ri s k f).
Proof.
  intros Hle H. split; [now apply nf_mod_ri in H|]. split; [reflexivity|]. split.
  - intros k'. unfold krank. autorewrite with iv. destruct (N.eqb k' k) eqn:E; [|lia]. apply N.eqb_eq in E. now subst.
  - exists []. split; [reflexivity|]. intros k'. cbn [count_ev]. repeat split; try lia.
Qed.

(* updates that keep the state kind and builtAt *)
Lemma R1_mod_ri_same s k f :
  (forall ri, ri_kind (f ri) = ri_kind ri /\ res_builtAt (ri_res (f ri)) = res_builtAt (ri_res ri)) -> R1 s (mod_ri s k f).
Proof. intros Hf. apply R1_mod_ri. unfold rrank. destruct (Hf (rinfo_of s k)) as [-> ->]. lia. Qed.

Lemma R1_set_res_same s k r : res_builtAt r = res_builtAt (res_of s k) -> R1 s (set_res s k r).
Proof. intros Hb. apply R1_mod_ri. unfold rrank, ri_with_res. cbn [ri_kind ri_res]. unfold res_of in Hb. rewrite Hb. lia. Qed.

Lemma krank_kind s k kd : kind_of s k = kd -> kd <> KComplete ->
  krank s k = match kd with KIncomplete => 0 | KScanning => 1 | KNeedsToRun | KDoesNotNeedToRun => 2 | KWaiting => 3 | KComputing => 4 | KComplete => 0 end%nat.
Proof. unfold krank, rrank, kind_of. intros <- Hne. destruct (ri_kind (rinfo_of s k)); auto. now contradiction Hne. Qed.

Lemma R1_set_kind s k kd : kd <> KComplete ->
  (krank s k <= match kd with KIncomplete => 0 | KScanning => 1 | KNeedsToRun | KDoesNotNeedToRun => 2 | KWaiting => 3 | KComputing => 4 | KComplete => 0 end)%nat ->
  R1 s (set_kind s k kd).
Proof.
  intros Hne Hle. apply R1_mod_ri. fold (krank s k). unfold rrank, ri_with_kind. cbn [ri_kind]. destruct kd; auto. now contradiction Hne.
Qed.

Lemma R1_set_complete s k : R1 s (set_complete s k).
Proof.
  apply R1_mod_ri. unfold ri_complete, rrank at 2, ri_with_kind, ri_with_res, res_with_built. cbn [ri_kind ri_res res_builtAt].
  rewrite N.eqb_refl. apply rrank_le5.
Qed.

Ltac r1step L := eapply R1_trans; [|apply L].

Lemma R1_add_request s t inp slot o sg : R1 s (add_request s t inp slot o sg).
Proof.
  unfold add_request. destruct (aget (is_tasks s) t); [|apply R1_fault].
  destruct (negb _); [apply R1_fault|]. r1step R1_mod_ti. r1step R1_push_inreq. apply R1_touch.
Qed.

Lemma R1_add_reqs ks : forall s t slot sg, R1 s (add_reqs s t ks slot sg).
Proof. induction ks as [|x ks IH]; intros; cbn [add_reqs]; [apply R1_refl|]. eapply R1_trans; [apply R1_add_request|apply IH]. Qed.
Lemma R1_add_follows ks : forall s t, R1 s (add_follows s t ks).
Proof. induction ks as [|x ks IH]; intros; cbn [add_follows]; [apply R1_refl|]. eapply R1_trans; [apply R1_add_request|apply IH]. Qed.
Lemma R1_start_group rules s t c : R1 s (start_group rules s t c).
Proof. unfold start_group. destruct c; [apply R1_add_reqs|apply R1_add_reqs|apply R1_add_follows]. Qed.

Lemma R1_fold {A} (f : istate -> A -> istate) (Hf : forall s a, R1 s (f s a)) l : forall s, R1 s (fold_left f l s).
Proof. induction l as [|a l IH]; intros s; cbn [fold_left]; [apply R1_refl|]. eapply R1_trans; [apply Hf|apply IH]. Qed.

Lemma R1_task_start rules ord s t : R1 s (task_start rules ord s t).
Proof.
  unfold task_start. cbn zeta. eapply R1_trans; [|apply R1_fold; intros; apply R1_start_group].
  r1step R1_mod_ti. now apply R1_iemit.
Qed.

Lemma R1_branch_reqs ks : forall s t, R1 s (branch_reqs s t ks).
Proof.
  induction ks as [|x ks IH]; intros; cbn [branch_reqs]; [apply R1_refl|].
  destruct (aget _ _); [|apply R1_fault]. eapply R1_trans; [|apply IH]. r1step R1_add_request. apply R1_set_ti.
Qed.

Lemma R1_provide_value rules s t slot inp v : R1 s (provide_value rules s t slot inp v).
Proof.
  unfold provide_value. cbn zeta. apply R1_trans with (iemit s (EProvide t slot inp v)); [now apply R1_iemit|].
  destruct (aget _ _) as [ti|]; [|apply R1_fault].
  destruct (branch_fire _ _ _ _ _); [|apply R1_set_ti]. r1step R1_branch_reqs. apply R1_set_ti.
Qed.

Lemma R1_discovered s t d : R1 s (discovered s t d).
Proof. unfold discovered. destruct (aget _ _); [|apply R1_fault]. destruct (negb _); [apply R1_fault|apply R1_mod_ti]. Qed.

Lemma completed_result_built sg ep r v : res_builtAt (completed_result sg ep r v) = res_builtAt r.
Proof. unfold completed_result. cbn zeta. now destruct (match res_value r with Some _ => _ | None => _ end). Qed.

Lemma R1_task_is_complete rules s t v : R1 s (task_is_complete rules s t v).
Proof.
  unfold task_is_complete. destruct (negb _); [apply R1_fault|]. cbn zeta. r1step R1_upd_fintasks.
  apply R1_set_res_same. apply completed_result_built.
Qed.

Lemma R1_task_finish rules s t : R1 s (task_finish rules s t).
Proof.
  unfold task_finish. destruct (aget _ _) as [ti|]; [|apply R1_refl]. destruct (ti_pending ti); [|apply R1_refl]. cbn zeta.
  r1step R1_task_is_complete. eapply R1_trans; [|now apply R1_iemit].
  eapply R1_trans; [|apply R1_fold; intros; apply R1_discovered]. apply R1_set_ti.
Qed.

Lemma R1_avail_body rules env F syncp s t : R1 s (avail_body rules env F syncp s t).
Proof.
  unfold avail_body. destruct (aget _ _); [|apply R1_fault]. cbn zeta.
  destruct (syncp t); [r1step R1_task_finish|]; apply R1_set_ti.
Qed.

Lemma krank_iemit s e k : krank (iemit s e) k = krank s k. Proof. reflexivity. Qed.
Lemma krank_mod_ri s k f k' : krank (mod_ri s k f) k' = if N.eqb k' k then rrank (is_epoch s) (f (rinfo_of s k)) else krank s k'.
Proof. unfold krank. autorewrite with iv. now destruct (N.eqb k' k). Qed.
Lemma krank_set_ti s t ti k : krank (set_ti s t ti) k = krank s k. Proof. reflexivity. Qed.

Lemma unscanned_rank0 s k : is_scanned s k = false -> kind_eqb (kind_of s k) KScanning = false -> krank s k = 0%nat.
Proof.
  unfold is_scanned, is_complete, krank, rrank, kind_of, res_of. intros H1 H2.
  destruct (ri_kind (rinfo_of s k)); try discriminate; auto. cbn [kind_eqb andb] in H1. now rewrite H1.
Qed.

Lemma R1_need s k r i : (krank s k <= 2)%nat -> R1 s (need s k r i).
Proof. intros H. unfold need. eapply R1_trans; [|now apply R1_iemit]. apply R1_set_kind; [discriminate|auto]. Qed.

Lemma rrank_clean_single ep ri : rrank ep (ri_clean_single ri) = rrank ep ri.
Proof. reflexivity. Qed.

Lemma R1_scan_rule rules env s k : R1 s (snd (scan_rule rules env s k)).
Proof.
  unfold scan_rule. destruct (is_scanned s k) eqn:E1; [apply R1_refl|]. destruct (kind_eqb _ _) eqn:E2; [apply R1_refl|]. cbn zeta.
  pose proof (unscanned_rank0 s k E1 E2) as H0.
  assert (H1 : krank (mod_ri s k ri_clean_single) k = 0%nat).
  { rewrite krank_mod_ri, N.eqb_refl, rrank_clean_single. exact H0. }
  assert (Hc : R1 s (mod_ri s k ri_clean_single)).
  { apply R1_mod_ri. rewrite rrank_clean_single. lia. }
  destruct (N.eqb _ 0); [cbn [snd]; r1step R1_need; [exact Hc|lia]|].
  destruct (ri_cancelled _); [cbn [snd]; r1step R1_need; [exact Hc|lia]|].
  destruct (negb (N.eqb _ _)); [cbn [snd]; r1step R1_need; [exact Hc|lia]|].
  destruct (negb (valid _ _ _ _)).
  { cbn [snd]. r1step R1_need; [|rewrite krank_iemit; lia]. eapply R1_trans; [exact Hc|now apply R1_iemit]. }
  destruct (res_deps _); cbn [snd].
  - eapply R1_trans; [exact Hc|]. apply R1_trans with (iemit (mod_ri s k ri_clean_single) (EValid k true)); [now apply R1_iemit|].
    apply R1_set_kind; [discriminate|]. rewrite krank_iemit. lia.
  - r1step R1_upd_toscan. eapply R1_trans; [exact Hc|]. apply R1_trans with (iemit (mod_ri s k ri_clean_single) (EValid k true)); [now apply R1_iemit|].
    apply R1_mod_ri. fold (krank (iemit (mod_ri s k ri_clean_single) (EValid k true)) k). rewrite krank_iemit, H1. lia.
Qed.

Lemma R1_begin_task s k : (krank s k <= 2)%nat -> R1 s (begin_task s k).
Proof.
  intros Hle H. split; [now apply sticky_begin_task in H|]. split; [reflexivity|]. unfold begin_task. split.
  - intros k'. rewrite krank_mod_ri. destruct (N.eqb k' k) eqn:E; [|rewrite krank_set_ti, krank_iemit; lia].
    apply N.eqb_eq in E. subst. unfold rrank, ri_begin_task. cbn [ri_kind]. lia.
  - exists [ECreate k]. split; [reflexivity|]. intros k'. cbn [count_ev is_create is_avail]. rewrite krank_mod_ri.
    destruct (N.eqb k' k) eqn:E.
    + apply N.eqb_eq in E. subst. unfold rrank, ri_begin_task. cbn [ri_kind]. repeat split; lia.
    + rewrite krank_set_ti, krank_iemit. repeat split; lia.
Qed.

Lemma R1_prior_value rules s k : R1 s (prior_value rules s k).
Proof. unfold prior_value. cbn zeta. destruct (_ && _); [now apply R1_iemit|apply R1_refl]. Qed.
Lemma R1_ready_if_nowait s k : R1 s (ready_if_nowait s k).
Proof. unfold ready_if_nowait. destruct (aget _ _); [|apply R1_fault]. destruct (Nat.eqb _ _); [apply R1_upd_ready|apply R1_refl]. Qed.

Lemma R1_create_task rules ord s k : R1 s (create_task rules ord s k).
Proof.
  unfold create_task. cbn zeta. destruct (kind_eqb (kind_of s k) KNeedsToRun) eqn:E.
  - cbn [check]. r1step R1_ready_if_nowait. r1step R1_prior_value. r1step R1_task_start. apply R1_begin_task.
    apply kind_eqb_eq in E. rewrite (krank_kind s k _ E); [lia|discriminate].
  - intros H. exfalso. apply sticky_ready_if_nowait, sticky_prior_value, sticky_task_start, sticky_begin_task in H.
    now apply nf_fault in H.
Qed.

Lemma R1_demand_rule rules ord s k : R1 s (snd (demand_rule rules ord s k)).
Proof.
  unfold demand_rule. destruct (is_complete s k); [apply R1_refl|]. destruct (is_in_progress s k); [apply R1_refl|].
  destruct (kind_eqb _ _); cbn [snd]; [apply R1_set_complete|apply R1_create_task].
Qed.

(* leaving the scan: IsScanning -> NeedsToRun / DoesNotNeedToRun *)
Lemma R1_finish_scan s k kd : kd = KNeedsToRun \/ kd = KDoesNotNeedToRun -> R1 s (finish_scan s k kd).
Proof.
  intros Hkd. unfold finish_scan. cbn zeta. destruct (kind_eqb (kind_of s k) KScanning) eqn:E.
  - cbn [check]. unfold wake_scan_record. eapply R1_trans; [|apply R1_mod_ri].
    + r1step R1_upd_inreq. apply R1_upd_toscan.
    + autorewrite with iv. apply kind_eqb_eq in E. unfold kind_of in E. unfold rrank at 1. rewrite E.
      unfold rrank, ri_end_scan. cbn [ri_kind]. destruct Hkd; subst; lia.
  - intros H. exfalso. apply nf_mod_ri in H. unfold wake_scan_record, nf in H. autorewrite with iv in H.
    cbn [check] in H. fold (nf (fault s FNotScanning)) in H. now apply nf_fault in H.
Qed.

Lemma R1_defer_on_rule s inp rq : R1 s (defer_on_rule s inp rq).
Proof. unfold defer_on_rule. eapply R1_trans; [apply R1_check|]. now apply R1_mod_ri_same. Qed.
Lemma R1_pause_on_rule s inp rq : R1 s (pause_on_rule s inp rq).
Proof. unfold pause_on_rule. eapply R1_trans; [apply R1_check|]. now apply R1_mod_ri_same. Qed.
Lemma R1_defer_on_task s inp rq : R1 s (defer_on_task s inp rq).
Proof. apply R1_mod_ti. Qed.

Lemma R1_scan_inputs rules env ord ds : forall s rq, R1 s (scan_inputs rules env ord s rq ds).
Proof.
  induction ds as [|d ds IH]; intros s rq; cbn [scan_inputs]; [apply R1_fault|]. cbn zeta.
  pose proof (R1_scan_rule rules env (touch s (request_input rq d)) (request_input rq d)) as H1.
  destruct (scan_rule rules env (touch s (request_input rq d)) (request_input rq d)) as [b1 s1]. cbn [snd] in H1.
  assert (H1' : R1 s s1) by (eapply R1_trans; [apply R1_touch|exact H1]).
  destruct b1; [|eapply R1_trans; [exact H1'|apply R1_defer_on_rule]].
  pose proof (R1_demand_rule rules ord s1 (request_input rq d)) as H2.
  destruct (demand_rule rules ord s1 (request_input rq d)) as [b2 s2]. cbn [snd] in H2.
  assert (H2' : R1 s s2) by (eapply R1_trans; eauto).
  destruct b2; [|eapply R1_trans; [exact H2'|apply R1_defer_on_task]].
  destruct (_ && _).
  - eapply R1_trans; [exact H2'|]. eapply R1_trans; [apply R1_finish_scan; now left|now apply R1_iemit].
  - destruct ds; (eapply R1_trans; [exact H2'|]); [apply R1_finish_scan; now right|apply IH].
Qed.

Lemma R1_process_scan_request rules env ord s rq : R1 s (process_scan_request rules env ord s rq).
Proof. unfold process_scan_request. destruct (negb _); [apply R1_refl|apply R1_scan_inputs]. Qed.

Lemma R1_step_scan rules env ord s : R1 s (step_scan rules env ord s).
Proof. unfold step_scan. destruct (is_toscan s); [apply R1_refl|]. r1step R1_process_scan_request. apply R1_upd_toscan. Qed.

Lemma R1_route_request s t rq avail : R1 s (route_request s t rq avail).
Proof.
  unfold route_request. cbn zeta. destruct avail; [r1step R1_upd_fininreq|r1step R1_mod_ti]; now apply R1_mod_ri_same.
Qed.

Lemma R1_process_input_request rules env ord s rq : R1 s (process_input_request rules env ord s rq).
Proof.
  unfold process_input_request.
  pose proof (R1_scan_rule rules env s (iq_input rq)) as H1.
  destruct (scan_rule rules env s (iq_input rq)) as [b1 s1]. cbn [snd] in H1.
  destruct b1; [|eapply R1_trans; [exact H1|apply R1_pause_on_rule]].
  pose proof (R1_demand_rule rules ord s1 (iq_input rq)) as H2.
  destruct (demand_rule rules ord s1 (iq_input rq)) as [b2 s2]. cbn [snd] in H2.
  assert (H2' : R1 s s2) by (eapply R1_trans; eauto).
  destruct (iq_task rq); auto. eapply R1_trans; [exact H2'|apply R1_route_request].
Qed.

Lemma R1_step_inreq rules env ord s : R1 s (step_inreq rules env ord s).
Proof. unfold step_inreq. destruct (is_inreq s); [apply R1_refl|]. r1step R1_process_input_request. apply R1_upd_inreq. Qed.

Lemma R1_decrement_wait s t : R1 s (decrement_wait s t).
Proof.
  unfold decrement_wait. destruct (aget _ _) as [ti|]; [|apply R1_fault]. destruct (ti_wait ti); [apply R1_fault|]. cbn zeta.
  destruct (Nat.eqb _ _); [r1step R1_upd_ready|]; apply R1_set_ti.
Qed.

Lemma R1_deliver rules s rq : R1 s (deliver rules s rq).
Proof.
  unfold deliver. destruct (iq_task rq); [|apply R1_fault]. cbn zeta. r1step R1_decrement_wait.
  destruct (iq_order rq); [apply R1_refl|apply R1_provide_value].
Qed.

Lemma R1_step_fininreq rules s : R1 s (step_fininreq rules s).
Proof. unfold step_fininreq. destruct (is_fininreq s); [apply R1_refl|]. r1step R1_deliver. apply R1_upd_fininreq. Qed.

Lemma R1_compute_avail s t : (krank s t <= 3)%nat -> R1 s (iemit (set_kind s t KComputing) (EAvail t)).
Proof.
  intros Hle H. split; [unfold nf in *; now autorewrite with iv in H|]. split; [reflexivity|]. split.
  - intros k'. rewrite krank_iemit. unfold set_kind. rewrite krank_mod_ri. destruct (N.eqb k' t) eqn:E; [|lia].
    apply N.eqb_eq in E. subst. unfold rrank, ri_with_kind. cbn [ri_kind]. lia.
  - exists [EAvail t]. split; [reflexivity|]. intros k'. cbn [count_ev is_create is_avail]. rewrite krank_iemit. unfold set_kind. rewrite krank_mod_ri.
    destruct (N.eqb k' t) eqn:E.
    + apply N.eqb_eq in E. subst. unfold rrank, ri_with_kind. cbn [ri_kind]. repeat split; lia.
    + repeat split; lia.
Qed.

Lemma R1_run_ready rules env F syncp s t : R1 s (run_ready rules env F syncp s t).
Proof.
  unfold run_ready. cbn zeta. r1step R1_upd_outstanding. unfold inputs_available. destruct (kind_eqb (kind_of s t) KWaiting) eqn:E.
  - cbn [check]. r1step R1_avail_body. apply R1_compute_avail. apply kind_eqb_eq in E. rewrite (krank_kind s t _ E); [lia|discriminate].
  - intros H. exfalso. apply sticky_avail_body in H. unfold nf in H. autorewrite with iv in H. cbn [check] in H.
    fold (nf (fault s FNotWaiting)) in H. now apply nf_fault in H.
Qed.

Lemma R1_step_ready rules env F syncp s : R1 s (step_ready rules env F syncp s).
Proof. unfold step_ready. destruct (is_ready s); [apply R1_refl|]. r1step R1_run_ready. apply R1_upd_ready. Qed.

Lemma R1_push_dummies ds : forall s, R1 s (push_dummies s ds).
Proof. induction ds as [|d ds IH]; intros s; cbn [push_dummies]; [apply R1_refl|]. eapply R1_trans; [|apply IH]. r1step R1_push_inreq. apply R1_touch. Qed.

Lemma R1_finish_task s t : R1 s (finish_task s t).
Proof.
  unfold finish_task. destruct (aget _ _) as [ti|]; [|apply R1_fault]. cbn zeta.
  unfold retire_task, wake_task_waiters, db_write.
  r1step R1_upd_tasks. r1step R1_upd_outstanding. r1step R1_upd_fininreq. r1step R1_upd_toscan.
  match goal with |- R1 _ (if ?b then _ else _) => destruct b end; [r1step R1_upd_db|];
  (r1step R1_push_dummies; eapply R1_trans; [|now apply R1_mod_ri_same]; r1step R1_set_complete; apply R1_check).
Qed.

Lemma R1_step_fintask s : R1 s (step_fintask s).
Proof. unfold step_fintask. destruct (is_fintasks s); [apply R1_refl|]. r1step R1_finish_task. apply R1_upd_fintasks. Qed.

Section Steps.
Variable rules : key -> rule.
Variable env : key -> N.
Variable F : key -> N -> list value -> list N -> N -> N.
Variable ord : key -> list rkind.
Variable syncp : key -> bool.

Lemma R1_mstep s s' : mstep rules env F ord syncp s s' -> R1 s s'.
Proof.
  intros H. destruct H; [apply R1_task_finish|apply R1_step_scan|apply R1_step_inreq|apply R1_step_fininreq|apply R1_step_ready|apply R1_step_fintask].
Qed.

Lemma R1_msteps s s' : msteps rules env F ord syncp s s' -> R1 s s'.
Proof. induction 1; [apply R1_refl|]. eapply R1_trans; eauto using R1_mstep. Qed.

(* within one build (a fault-free sequence of steps) a rule's position in the order
   Incomplete < IsScanning < {NeedsToRun, DoesNotNeedToRun} < InProgressWaiting < InProgressComputing < Complete never decreases *)
Theorem state_monotone s s' : msteps rules env F ord syncp s s' -> nf s' ->
  nf s /\ is_epoch s' = is_epoch s /\ forall k, (krank s k <= krank s' k)%nat.
Proof. intros H Hn. destruct (R1_msteps s s' H Hn) as (H1 & H2 & H3 & _). auto. Qed.

(* C02 on the small-step model: at most one createTask per key; also at most one inputsAvailable per key *)
Theorem at_most_once s s' : msteps rules env F ord syncp s s' -> nf s' ->
  exists l, is_log s' = l ++ is_log s /\ forall k, (count_ev (is_create k) l <= 1)%nat /\ (count_ev (is_avail k) l <= 1)%nat.
Proof.
  intros H Hn. destruct (R1_msteps s s' H Hn) as (_ & _ & _ & l & Hl & Hok). exists l. split; auto.
  intros k. destruct (Hok k) as [[Ha _] [Hb _]]. auto.
Qed.
End Steps.
