(* Proofs about the database tables model (Engine/DbTables.v). *)
From LLB Require Import Base.Bytes Base.BytesFacts Base.LE Codec.DepBlob Codec.DepBlobProofs Engine.DbTables.
Local Open Scope N_scope.

(* ---------- key_names ---------- *)

(* ids unique, names unique, ids start at 1, ids handed out densely (max = count) *)
Definition KN (kn : list (N * bytes)) : Prop :=
  NoDup (map fst kn) /\ NoDup (map snd kn) /\ Forall (fun p => 1 <= fst p) kn /\ max_id kn = N.of_nat (length kn).

Lemma find_id_In kn k id : find_id kn k = Some id -> In (id, k) kn.
Proof.
  induction kn as [|[id' k'] t IH]; cbn [find_id]; [discriminate|].
  destruct (bytes_eqb k k') eqn:E.
  - apply bytes_eqb_eq in E. intros H. inversion H; subst. left. reflexivity.
  - intros H. right. apply IH. exact H.
Qed.

Lemma find_name_In kn k id : find_name kn id = Some k -> In (id, k) kn.
Proof.
  induction kn as [|[id' k'] t IH]; cbn [find_name]; [discriminate|].
  destruct (N.eqb id id') eqn:E.
  - apply N.eqb_eq in E. intros H. inversion H; subst. left. reflexivity.
  - intros H. right. apply IH. exact H.
Qed.

Lemma In_find_id kn k id : NoDup (map snd kn) -> In (id, k) kn -> find_id kn k = Some id.
Proof.
  induction kn as [|[id' k'] t IH]; intros Hnd Hin; [destruct Hin|].
  cbn [map snd] in Hnd. inversion Hnd as [|x l Hx Hl]; subst. cbn [find_id].
  destruct Hin as [Hin|Hin].
  - inversion Hin; subst. rewrite bytes_eqb_refl. reflexivity.
  - destruct (bytes_eqb k k') eqn:E.
    + apply bytes_eqb_eq in E. subst. exfalso. apply Hx. apply (in_map snd) in Hin. exact Hin.
    + apply IH; assumption.
Qed.

Lemma In_find_name kn k id : NoDup (map fst kn) -> In (id, k) kn -> find_name kn id = Some k.
Proof.
  induction kn as [|[id' k'] t IH]; intros Hnd Hin; [destruct Hin|].
  cbn [map fst] in Hnd. inversion Hnd as [|x l Hx Hl]; subst. cbn [find_name].
  destruct Hin as [Hin|Hin].
  - inversion Hin; subst. rewrite N.eqb_refl. reflexivity.
  - destruct (N.eqb id id') eqn:E.
    + apply N.eqb_eq in E. subst. exfalso. apply Hx. apply (in_map fst) in Hin. exact Hin.
    + apply IH; assumption.
Qed.

Lemma find_id_none kn k : find_id kn k = None -> ~ In k (map snd kn).
Proof.
  induction kn as [|[id' k'] t IH]; cbn [find_id map snd]; intros H Hin; [destruct Hin|].
  destruct (bytes_eqb k k') eqn:E; [discriminate|]. apply bytes_eqb_neq in E.
  destruct Hin as [Hin|Hin]; [congruence|]. apply IH; assumption.
Qed.

Lemma max_id_ge kn id k : In (id, k) kn -> id <= max_id kn.
Proof.
  induction kn as [|[id' k'] t IH]; intros Hin; [destruct Hin|]. cbn [max_id].
  destruct Hin as [Hin|Hin]; [inversion Hin; subst; lia|]. apply IH in Hin. lia.
Qed.

Lemma max_id_app kn id k : max_id (kn ++ [(id, k)]) = N.max (max_id kn) id.
Proof. induction kn as [|[id' k'] t IH]; cbn [app max_id]; [lia|]. rewrite IH. lia. Qed.

Lemma KN_nil : KN [].
Proof. repeat split; constructor. Qed.

Definition kn_ext (kn kn' : list (N * bytes)) : Prop := forall p, In p kn -> In p kn'.

Lemma kn_ext_refl kn : kn_ext kn kn. Proof. intros p H. exact H. Qed.
Lemma kn_ext_trans a b c : kn_ext a b -> kn_ext b c -> kn_ext a c.
Proof. intros H1 H2 p H. apply H2, H1, H. Qed.

Lemma intern_ext kn k : kn_ext kn (intern kn k).
Proof.
  unfold intern. destruct (find_id kn k); intros p H; [exact H|]. apply in_or_app. left. exact H.
Qed.

Lemma intern_In kn k : In (id_after_intern kn k, k) (intern kn k).
Proof.
  unfold intern, id_after_intern. destruct (find_id kn k) eqn:E.
  - apply find_id_In. exact E.
  - apply in_or_app. right. left. reflexivity.
Qed.

Lemma NoDup_app_single {A} (l : list A) (x : A) : NoDup l -> ~ In x l -> NoDup (l ++ [x]).
Proof.
  induction l as [|y l IH]; intros Hnd Hx; cbn [app]; [constructor; [intros []|constructor]|].
  inversion Hnd as [|y' l' Hy Hl]; subst. constructor.
  - intros Hin. apply in_app_or in Hin. destruct Hin as [Hin|[Hin|[]]]; [contradiction|].
    subst. apply Hx. left. reflexivity.
  - apply IH; [exact Hl|]. intros Hin. apply Hx. right. exact Hin.
Qed.

Lemma intern_KN kn k : KN kn -> KN (intern kn k).
Proof.
  intros [H1 [H2 [H3 H4]]]. unfold intern. destruct (find_id kn k) eqn:E; [repeat split; assumption|].
  repeat split.
  - rewrite map_app. cbn [map fst]. apply NoDup_app_single; [exact H1|].
    intros Hin. apply in_map_iff in Hin. destruct Hin as [[id' k'] [Hf Hin]]. cbn [fst] in Hf. subst.
    apply max_id_ge in Hin. lia.
  - rewrite map_app. cbn [map snd]. apply NoDup_app_single; [exact H2|]. apply find_id_none. exact E.
  - apply Forall_app. split; [exact H3|]. constructor; [cbn [fst]; lia | constructor].
  - rewrite max_id_app, app_length. cbn [length]. lia.
Qed.

Lemma intern_max kn k : max_id (intern kn k) <= max_id kn + 1.
Proof. unfold intern. destruct (find_id kn k); [lia|]. rewrite max_id_app. lia. Qed.

Lemma id_after_intern_pos kn k : KN kn -> 1 <= id_after_intern kn k.
Proof.
  intros [_ [_ [H3 _]]]. unfold id_after_intern. destruct (find_id kn k) eqn:E; [|lia].
  apply find_id_In in E. rewrite Forall_forall in H3. apply H3 in E. exact E.
Qed.

Lemma intern_known kn k id : In (id, k) kn -> NoDup (map snd kn) -> intern kn k = kn.
Proof. intros H Hnd. unfold intern. rewrite (In_find_id kn k id Hnd H). reflexivity. Qed.

(* under KN the two directions are inverse of each other and injective *)
Lemma KN_inverse kn : KN kn -> forall k id, find_id kn k = Some id <-> find_name kn id = Some k.
Proof.
  intros [H1 [H2 _]] k id. split; intros H.
  - apply In_find_name; [exact H1|]. apply find_id_In. exact H.
  - apply In_find_id; [exact H2|]. apply find_name_In. exact H.
Qed.

Lemma KN_id_inj kn : KN kn -> forall k1 k2 id, find_id kn k1 = Some id -> find_id kn k2 = Some id -> k1 = k2.
Proof.
  intros HK k1 k2 id E1 E2. apply (KN_inverse kn HK) in E1. apply (KN_inverse kn HK) in E2. congruence.
Qed.

Lemma KN_name_inj kn : KN kn -> forall id1 id2 k, find_name kn id1 = Some k -> find_name kn id2 = Some k -> id1 = id2.
Proof.
  intros HK id1 id2 k E1 E2. apply (KN_inverse kn HK) in E1. apply (KN_inverse kn HK) in E2. congruence.
Qed.

(* ---------- the invariant ---------- *)

Definition cacheOK (t : tables) : Prop :=
  (forall k id, cache_find_id (cache_ids t) k = Some id -> In (id, k) (key_names t)) /\
  (forall id k, find_name (cache_names t) id = Some k -> In (id, k) (key_names t)).

Definition id_known (kn : list (N * bytes)) (id : N) : Prop := exists k, In (id, k) kn.

(* a stored blob decodes, and every id in it is a key_names id *)
Definition rowOK (kn : list (N * bytes)) (r : row) : Prop :=
  exists ds, decode_deps (row_depblob r) = Some ds /\ Forall (fun d : dbdep => id_known kn (fst (fst d))) ds.

Definition rowsOK (kn : list (N * bytes)) (rr : list (N * row)) : Prop :=
  forall id r, find_row rr id = Some r -> id_known kn id /\ rowOK kn r.

(* the id part (holds after ANY operation sequence) and the full invariant (needs ids < 2^62 to persist) *)
Definition WI (t : tables) : Prop := KN (key_names t) /\ cacheOK t.
Definition WF (t : tables) : Prop := WI t /\ rowsOK (key_names t) (rule_results t).

Lemma id_known_ext kn kn' id : kn_ext kn kn' -> id_known kn id -> id_known kn' id.
Proof. intros He [k Hk]. exists k. apply He. exact Hk. Qed.

Lemma rowOK_ext kn kn' r : kn_ext kn kn' -> rowOK kn r -> rowOK kn' r.
Proof.
  intros He [ds [Hd Hf]]. exists ds. split; [exact Hd|].
  eapply Forall_impl; [|exact Hf]. intros d Hk. eapply id_known_ext; eassumption.
Qed.

Lemma rowsOK_ext kn kn' rr : kn_ext kn kn' -> rowsOK kn rr -> rowsOK kn' rr.
Proof.
  intros He H id r Hr. destruct (H id r Hr) as [H1 H2].
  split; [eapply id_known_ext | eapply rowOK_ext]; eassumption.
Qed.

Lemma cache_both_cacheOK t id k : cacheOK t -> In (id, k) (key_names t) -> cacheOK (cache_both t id k).
Proof.
  intros [C1 C2] Hin. split; cbn [cache_both cache_ids cache_names key_names].
  - intros k0 id0. cbn [cache_find_id]. destruct (bytes_eqb k0 k) eqn:E.
    + apply bytes_eqb_eq in E. intros H. inversion H; subst. exact Hin.
    + apply C1.
  - intros id0 k0. cbn [find_name]. destruct (N.eqb id0 id) eqn:E.
    + apply N.eqb_eq in E. intros H. inversion H; subst. exact Hin.
    + apply C2.
Qed.

Lemma WI_empty s c : WI (empty_tables s c).
Proof. split; [exact KN_nil|]. split; cbn; discriminate. Qed.

Lemma WF_empty s c : WF (empty_tables s c).
Proof. split; [apply WI_empty|]. intros id r H. cbn in H. discriminate. Qed.

(* getKeyID: the key ends up in key_names under the returned id; nothing else of the file changes *)
Lemma get_key_id_spec t k t' id : WI t -> get_key_id t k = (t', id) ->
  WI t' /\ key_names t' = intern (key_names t) k /\ In (id, k) (key_names t') /\
  rule_results t' = rule_results t /\ info t' = info t.
Proof.
  intros [HK HC] H. unfold get_key_id in H.
  destruct (cache_find_id (cache_ids t) k) as [id0|] eqn:E.
  - inversion H; subst. pose proof (proj1 HC _ _ E) as Hin.
    assert (Hi : intern (key_names t') k = key_names t').
    { eapply intern_known; [exact Hin | apply HK]. }
    split; [split; [exact HK | exact HC]|].
    split; [symmetry; exact Hi|]. split; [exact Hin|]. split; reflexivity.
  - pose proof (id_after_intern_pos _ k HK) as Hpos.
    destruct (N.eqb_spec (id_after_intern (key_names t) k) 0) as [E0|E0]; [lia|].
    inversion H; subst. clear H.
    cbn [cache_both set_key_names key_names rule_results info].
    assert (Hin : In (id_after_intern (key_names t) k, k) (intern (key_names t) k)) by apply intern_In.
    split; [|split; [reflexivity | split; [exact Hin | split; reflexivity]]].
    split; [apply intern_KN; exact HK|].
    apply (cache_both_cacheOK (set_key_names t (intern (key_names t) k))); [|exact Hin].
    destruct HC as [C1 C2]. split; cbn [set_key_names cache_ids cache_names key_names]; intros a b Hab.
    + apply intern_ext. apply C1. exact Hab.
    + apply intern_ext. apply C2. exact Hab.
Qed.

Lemma get_key_id_max t k t' id : WI t -> get_key_id t k = (t', id) ->
  kn_ext (key_names t) (key_names t') /\ max_id (key_names t') <= max_id (key_names t) + 1.
Proof.
  intros HW H. destruct (get_key_id_spec t k t' id HW H) as [_ [E _]]. rewrite E.
  split; [apply intern_ext | apply intern_max].
Qed.

(* a name-level dependency and its stored form *)
Definition dep_rel (kn : list (N * bytes)) (nd : ndep) (d : dbdep) : Prop :=
  In (fst (fst d), fst (fst nd)) kn /\ snd (fst d) = snd (fst nd) /\ snd d = snd nd.

Lemma dep_rel_ext kn kn' nd d : kn_ext kn kn' -> dep_rel kn nd d -> dep_rel kn' nd d.
Proof. intros He [H1 H2]. split; [apply He; exact H1 | exact H2]. Qed.

Lemma map_key_ids_spec ds : forall t t' out, WI t -> map_key_ids t ds = (t', out) ->
  WI t' /\ kn_ext (key_names t) (key_names t') /\ rule_results t' = rule_results t /\ info t' = info t /\
  Forall2 (dep_rel (key_names t')) ds out /\
  max_id (key_names t') <= max_id (key_names t) + N.of_nat (length ds).
Proof.
  induction ds as [|[[k oo] su] ds IH]; intros t t' out HW H; cbn [map_key_ids] in H.
  - inversion H; subst. split; [exact HW|]. split; [apply kn_ext_refl|].
    split; [reflexivity|]. split; [reflexivity|]. split; [constructor | cbn [length]; lia].
  - destruct (get_key_id t k) as [t1 id] eqn:E1.
    destruct (map_key_ids t1 ds) as [t2 out'] eqn:E2. inversion H; subst. clear H.
    destruct (get_key_id_spec t k t1 id HW E1) as [HW1 [_ [Hin [Hr1 Hi1]]]].
    destruct (get_key_id_max t k t1 id HW E1) as [He1 Hm1].
    destruct (IH t1 t' out' HW1 E2) as [HW2 [He2 [Hr2 [Hi2 [HF Hm2]]]]].
    split; [exact HW2|]. split; [eapply kn_ext_trans; eassumption|].
    split; [congruence|]. split; [congruence|]. split.
    + constructor; [|exact HF]. split; [cbn [fst]; apply He2; exact Hin | split; reflexivity].
    + cbn [length]. rewrite Nat2N.inj_succ. lia.
Qed.

(* getKeyIDForID answers what the table says, whatever the caches hold *)
Lemma get_key_name_spec t id t' o : WI t -> get_key_name t id = (t', o) ->
  WI t' /\ key_names t' = key_names t /\ rule_results t' = rule_results t /\ info t' = info t /\
  o = find_name (key_names t) id.
Proof.
  intros [HK HC] H. unfold get_key_name in H.
  destruct (find_name (cache_names t) id) as [k|] eqn:E.
  - inversion H; subst. split; [split; [exact HK | exact HC]|].
    split; [reflexivity|]. split; [reflexivity|]. split; [reflexivity|].
    symmetry. apply In_find_name; [apply HK|]. apply HC. exact E.
  - destruct (find_name (key_names t) id) as [k|] eqn:E2.
    + inversion H; subst. cbn [cache_both key_names rule_results info].
      split; [|split; [reflexivity | split; [reflexivity | split; reflexivity]]].
      split; [exact HK|].
      apply cache_both_cacheOK; [exact HC|]. apply find_name_In. exact E2.
    + inversion H; subst. split; [split; [exact HK | exact HC]|].
      split; [reflexivity|]. split; [reflexivity|]. split; reflexivity.
Qed.

(* ---------- cache-free reading of a lookup ---------- *)

Fixpoint pure_names (kn : list (N * bytes)) (ds : list dbdep) : option (list ndep) :=
  match ds with
  | [] => Some []
  | (id, oo, su) :: ds' =>
    match find_name kn id with
    | Some k => match pure_names kn ds' with Some out => Some ((k, oo, su) :: out) | None => None end
    | None => None
    end
  end.

Definition pure_decode (kn : list (N * bytes)) (r : row) : lres :=
  match decode_deps (row_depblob r) with
  | None => LookupError
  | Some ds =>
    match pure_names kn ds with
    | Some nds => Found (mkDbRes (row_value r) (row_sig r) (row_builtAt r) (row_computedAt r) nds)
    | None => LookupError
    end
  end.

Definition pure_lookup (kn : list (N * bytes)) (rr : list (N * row)) (k : bytes) : lres :=
  match find_id kn k with
  | None => NotFound
  | Some id => match find_row rr id with None => NotFound | Some r => pure_decode kn r end
  end.

Definition same_file (t t' : tables) : Prop :=
  key_names t' = key_names t /\ rule_results t' = rule_results t /\ info t' = info t.

Lemma map_key_names_spec ds : forall t t' o, WI t -> map_key_names t ds = (t', o) ->
  WI t' /\ same_file t t' /\ o = pure_names (key_names t) ds.
Proof.
  induction ds as [|[[id oo] su] ds IH]; intros t t' o HW H; cbn [map_key_names pure_names] in *.
  - inversion H; subst. split; [exact HW|]. split; [repeat split|reflexivity].
  - destruct (get_key_name t id) as [t1 o1] eqn:E1.
    destruct (get_key_name_spec t id t1 o1 HW E1) as [HW1 [Hk1 [Hr1 [Hi1 Ho1]]]]. rewrite <- Ho1.
    destruct o1 as [k|].
    + destruct (map_key_names t1 ds) as [t2 o2] eqn:E2.
      destruct (IH t1 t2 o2 HW1 E2) as [HW2 [[Hk2 [Hr2 Hi2]] Ho2]]. rewrite Hk1 in Ho2. rewrite <- Ho2.
      destruct o2 as [out|]; inversion H; subst; (split; [exact HW2|]);
        (split; [split; [congruence | split; congruence] | reflexivity]).
    + inversion H; subst. split; [exact HW1|]. split; [split; [exact Hk1 | split; assumption] | reflexivity].
Qed.

Lemma decode_row_spec t r t' o : WI t -> decode_row t r = (t', o) ->
  WI t' /\ same_file t t' /\ o = pure_decode (key_names t) r.
Proof.
  intros HW H. unfold decode_row, pure_decode in *.
  destruct (decode_deps (row_depblob r)) as [ds|].
  - destruct (map_key_names t ds) as [t1 o1] eqn:E.
    destruct (map_key_names_spec ds t t1 o1 HW E) as [HW1 [HS Ho]]. rewrite <- Ho.
    destruct o1; inversion H; subst; (split; [exact HW1 | split; [exact HS | reflexivity]]).
  - inversion H; subst. split; [exact HW|]. split; [repeat split | reflexivity].
Qed.

Lemma same_file_refl t : same_file t t. Proof. repeat split. Qed.

(* lookupRuleResult = the cache-free lookup; it changes nothing but the caches *)
Lemma lookup_spec t k t' o : WI t -> lookup_rule_result_st t k = (t', o) ->
  WI t' /\ same_file t t' /\ o = pure_lookup (key_names t) (rule_results t) k.
Proof.
  intros HW H. pose proof HW as [HK HC]. unfold lookup_rule_result_st, pure_lookup in *.
  destruct (cache_find_id (cache_ids t) k) as [id|] eqn:E.
  - apply (proj1 HC) in E. rewrite (In_find_id _ _ _ (proj1 (proj2 HK)) E).
    destruct (find_row (rule_results t) id) as [r|].
    + apply decode_row_spec; assumption.
    + inversion H; subst. split; [exact HW | split; [apply same_file_refl | reflexivity]].
  - destruct (find_id (key_names t) k) as [id|] eqn:E2.
    + destruct (find_row (rule_results t) id) as [r|].
      * assert (HW1 : WI (cache_both t id k)).
        { split; [exact HK|]. apply cache_both_cacheOK; [exact HC|]. apply find_id_In. exact E2. }
        destruct (decode_row_spec _ r t' o HW1 H) as [HW' [HS Ho]].
        split; [exact HW' | split; [exact HS | exact Ho]].
      * inversion H; subst. split; [exact HW | split; [apply same_file_refl | reflexivity]].
    + inversion H; subst. split; [exact HW | split; [apply same_file_refl | reflexivity]].
Qed.

(* ---------- setRuleResult ---------- *)

Definition row_of (r : dbresult) (ds : list dbdep) : row :=
  mkRow (dr_value r) (dr_sig r) (dr_builtAt r) (dr_computedAt r) (encode_deps ds).

Lemma set_rule_result_spec t k r : WI t ->
  exists id ds, let t' := set_rule_result t k r in
    WI t' /\ kn_ext (key_names t) (key_names t') /\ In (id, k) (key_names t') /\
    Forall2 (dep_rel (key_names t')) (dr_deps r) ds /\
    rule_results t' = put_row (rule_results t) id (row_of r ds) /\ info t' = info t /\
    max_id (key_names t') <= max_id (key_names t) + 1 + N.of_nat (length (dr_deps r)).
Proof.
  intros HW. unfold set_rule_result.
  destruct (get_key_id t k) as [t1 id] eqn:E1.
  destruct (map_key_ids t1 (dr_deps r)) as [t2 ds] eqn:E2.
  destruct (get_key_id_spec t k t1 id HW E1) as [HW1 [_ [Hin [Hr1 Hi1]]]].
  destruct (get_key_id_max t k t1 id HW E1) as [He1 Hm1].
  destruct (map_key_ids_spec _ t1 t2 ds HW1 E2) as [HW2 [He2 [Hr2 [Hi2 [HF Hm2]]]]].
  exists id, ds. cbv zeta. cbn [set_rows key_names rule_results info].
  split; [destruct HW2 as [A B]; split; [exact A | exact B]|].
  split; [eapply kn_ext_trans; eassumption|].
  split; [apply He2; exact Hin|]. split; [exact HF|].
  split; [unfold row_of; rewrite Hr2, Hr1; reflexivity|].
  split; [congruence | lia].
Qed.

Lemma find_put_row_same rr id r : find_row (put_row rr id r) id = Some r.
Proof.
  induction rr as [|[id' r'] t IH]; cbn [put_row find_row]; [rewrite N.eqb_refl; reflexivity|].
  destruct (N.eqb id id') eqn:E; cbn [find_row]; [rewrite N.eqb_refl; reflexivity|]. rewrite E. exact IH.
Qed.

Lemma find_put_row_other rr id r id0 : id0 <> id -> find_row (put_row rr id r) id0 = find_row rr id0.
Proof.
  intros Hne. induction rr as [|[id' r'] t IH]; cbn [put_row find_row].
  - destruct (N.eqb_spec id0 id); [contradiction | reflexivity].
  - destruct (N.eqb_spec id id') as [E|E]; cbn [find_row].
    + subst. destruct (N.eqb_spec id0 id'); [contradiction | reflexivity].
    + destruct (N.eqb id0 id'); [reflexivity | exact IH].
Qed.

(* reading the stored form back through the table gives the names *)
Lemma pure_names_of_rel kn : KN kn -> forall nds ds, Forall2 (dep_rel kn) nds ds -> pure_names kn ds = Some nds.
Proof.
  intros HK nds ds HF. induction HF as [|nd d nds ds [H1 [H2 H3]] HF IH]; [reflexivity|].
  destruct d as [[id oo] su]. destruct nd as [[k oo'] su']. cbn [fst snd] in *. subst.
  cbn [pure_names]. rewrite (In_find_name kn k id (proj1 HK) H1), IH. reflexivity.
Qed.

Lemma rel_ids_ok kn nds ds : Forall2 (dep_rel kn) nds ds -> max_id kn < TWO62 -> ids_ok ds.
Proof.
  intros HF Hm. induction HF as [|nd d nds ds [H1 _] HF IH]; [constructor|].
  constructor; [|exact IH]. apply max_id_ge in H1. lia.
Qed.

Lemma rel_ids_known kn nds ds : Forall2 (dep_rel kn) nds ds -> Forall (fun d : dbdep => id_known kn (fst (fst d))) ds.
Proof.
  intros HF. induction HF as [|nd d nds ds [H1 _] HF IH]; [constructor|].
  constructor; [|exact IH]. exists (fst (fst nd)). exact H1.
Qed.

(* the number of keys after the operation stays below 2^62 *)
Definition room (t : tables) (r : dbresult) : Prop :=
  N.of_nat (length (key_names t)) + 1 + N.of_nat (length (dr_deps r)) < TWO62.

Lemma lookup_pure t k : WI t -> lookup_rule_result t k = pure_lookup (key_names t) (rule_results t) k.
Proof.
  intros HW. unfold lookup_rule_result. destruct (lookup_rule_result_st t k) as [t' o] eqn:E.
  destruct (lookup_spec t k t' o HW E) as [_ [_ Ho]]. exact Ho.
Qed.

Theorem tables_roundtrip t k r : WI t -> room t r -> lookup_rule_result (set_rule_result t k r) k = Found r.
Proof.
  intros HW Hroom. destruct (set_rule_result_spec t k r HW) as [id [ds Hs]]. cbv zeta in Hs.
  destruct Hs as [HW' [He [Hin [HF [Hrr [Hi Hm]]]]]].
  rewrite lookup_pure by exact HW'. unfold pure_lookup.
  destruct HW' as [HK' HC'].
  rewrite (In_find_id _ _ _ (proj1 (proj2 HK')) Hin). rewrite Hrr, find_put_row_same.
  unfold pure_decode, row_of. cbn [row_depblob row_value row_sig row_builtAt row_computedAt].
  assert (Hmax : max_id (key_names (set_rule_result t k r)) < TWO62).
  { destruct HW as [[_ [_ [_ Hd]]] _]. unfold room in Hroom. lia. }
  rewrite depblob_roundtrip by (eapply rel_ids_ok; eassumption).
  rewrite (pure_names_of_rel _ HK' _ _ HF). destruct r; reflexivity.
Qed.

Theorem set_rule_result_WF t k r : WF t -> room t r -> WF (set_rule_result t k r).
Proof.
  intros [HW HR] Hroom. destruct (set_rule_result_spec t k r HW) as [id [ds Hs]]. cbv zeta in Hs.
  destruct Hs as [HW' [He [Hin [HF [Hrr [Hi Hm]]]]]].
  split; [exact HW'|]. rewrite Hrr. intros id0 r0 H0.
  destruct (N.eq_dec id0 id) as [->|Hne].
  - rewrite find_put_row_same in H0. inversion H0; subst. split; [exists k; exact Hin|].
    exists ds. unfold row_of. cbn [row_depblob]. split; [|eapply rel_ids_known; exact HF].
    apply depblob_roundtrip. eapply rel_ids_ok; [exact HF|].
    destruct HW as [[_ [_ [_ Hd]]] _]. unfold room in Hroom. lia.
  - rewrite find_put_row_other in H0 by exact Hne.
    destruct (HR id0 r0 H0) as [A B]. split; [eapply id_known_ext | eapply rowOK_ext]; eassumption.
Qed.

Lemma pure_names_ext kn kn' ds : KN kn -> KN kn' -> kn_ext kn kn' ->
  Forall (fun d : dbdep => id_known kn (fst (fst d))) ds -> pure_names kn' ds = pure_names kn ds.
Proof.
  intros HK HK' He HF. induction HF as [|[[id oo] su] ds [k0 Hk] HF IH]; [reflexivity|].
  cbn [fst] in Hk. cbn [pure_names].
  rewrite (In_find_name kn k0 id (proj1 HK) Hk), (In_find_name kn' k0 id (proj1 HK') (He _ Hk)), IH.
  reflexivity.
Qed.

Lemma pure_decode_ext kn kn' r : KN kn -> KN kn' -> kn_ext kn kn' -> rowOK kn r ->
  pure_decode kn' r = pure_decode kn r.
Proof.
  intros HK HK' He [ds [Hd HF]]. unfold pure_decode. rewrite Hd.
  rewrite (pure_names_ext kn kn' ds HK HK' He HF). reflexivity.
Qed.

Lemma KN_In_fst_inj kn id k1 k2 : KN kn -> In (id, k1) kn -> In (id, k2) kn -> k1 = k2.
Proof.
  intros HK H1 H2. apply (In_find_name kn _ _ (proj1 HK)) in H1. apply (In_find_name kn _ _ (proj1 HK)) in H2.
  congruence.
Qed.

Theorem tables_frame t k r k' : WF t -> k' <> k ->
  lookup_rule_result (set_rule_result t k r) k' = lookup_rule_result t k'.
Proof.
  intros [HW HR] Hne. destruct (set_rule_result_spec t k r HW) as [id [ds Hs]]. cbv zeta in Hs.
  destruct Hs as [HW' [He [Hin [HF [Hrr [Hi Hm]]]]]].
  rewrite (lookup_pure _ k' HW'), (lookup_pure _ k' HW). unfold pure_lookup. rewrite Hrr.
  destruct HW as [HK HC]. destruct HW' as [HK' HC'].
  set (kn' := key_names (set_rule_result t k r)) in *.
  destruct (find_id (key_names t) k') as [id'|] eqn:E.
  - pose proof (find_id_In _ _ _ E) as Hin0. pose proof (He _ Hin0) as Hin'.
    rewrite (In_find_id kn' k' id' (proj1 (proj2 HK')) Hin').
    assert (Hid : id' <> id).
    { intros ->. apply Hne. eapply KN_In_fst_inj; eassumption. }
    rewrite find_put_row_other by exact Hid.
    destruct (find_row (rule_results t) id') as [r0|] eqn:Er; [|reflexivity].
    apply pure_decode_ext; try assumption. apply (HR id' r0 Er).
  - destruct (find_id kn' k') as [id'|] eqn:E'; [|reflexivity].
    pose proof (find_id_In _ _ _ E') as Hin'.
    assert (Hid : id' <> id).
    { intros ->. apply Hne. eapply KN_In_fst_inj; eassumption. }
    rewrite find_put_row_other by exact Hid.
    destruct (find_row (rule_results t) id') as [r0|] eqn:Er; [|reflexivity].
    exfalso. destruct (HR id' r0 Er) as [[k0 Hk0] _].
    assert (k0 = k') by (eapply KN_In_fst_inj; [exact HK' | apply He; exact Hk0 | exact Hin']). subst k0.
    rewrite (In_find_id _ _ _ (proj1 (proj2 HK)) Hk0) in E. discriminate.
Qed.

(* ---------- the invariant over operation sequences ---------- *)

Lemma db_step_WI t o : WI t -> WI (db_step t o).
Proof.
  intros HW. destruct o as [k r|k|n|]; cbn [db_step].
  - destruct (set_rule_result_spec t k r HW) as [id [ds Hs]]. apply Hs.
  - destruct (lookup_rule_result_st t k) as [t' o] eqn:E. cbn [fst]. apply (lookup_spec t k t' o HW E).
  - destruct HW as [HK HC]. split; [exact HK | exact HC].
  - destruct HW as [HK HC]. split; [exact HK|]. split; cbn; discriminate.
Qed.

Lemma db_run_WI ops : forall t, WI t -> WI (db_run t ops).
Proof.
  induction ops as [|o ops IH]; intros t HW; [exact HW|]. cbn [db_run fold_left]. apply IH. apply db_step_WI. exact HW.
Qed.

(* what WI says, spelled out: the two directions are mutually inverse, each injective, and both caches agree
   with the table *)
Definition ids_coherent (t : tables) : Prop :=
  (forall k id, find_id (key_names t) k = Some id <-> find_name (key_names t) id = Some k) /\
  (forall k1 k2 id, find_id (key_names t) k1 = Some id -> find_id (key_names t) k2 = Some id -> k1 = k2) /\
  (forall id1 id2 k, find_name (key_names t) id1 = Some k -> find_name (key_names t) id2 = Some k -> id1 = id2) /\
  (forall k id, cache_find_id (cache_ids t) k = Some id -> find_id (key_names t) k = Some id) /\
  (forall id k, find_name (cache_names t) id = Some k -> find_name (key_names t) id = Some k) /\
  (forall k id, find_id (key_names t) k = Some id -> 1 <= id).

Lemma WI_coherent t : WI t -> ids_coherent t.
Proof.
  intros [HK [C1 C2]]. split; [apply KN_inverse; exact HK|]. split; [apply KN_id_inj; exact HK|].
  split; [apply KN_name_inj; exact HK|]. split; [|split].
  - intros k id H. apply In_find_id; [apply HK | apply C1; exact H].
  - intros id k H. apply In_find_name; [apply HK | apply C2; exact H].
  - intros k id H. apply find_id_In in H. destruct HK as [_ [_ [H3 _]]]. rewrite Forall_forall in H3.
    apply (H3 _ H).
Qed.

Theorem ids_inverse s c ops : ids_coherent (db_run (empty_tables s c) ops).
Proof. apply WI_coherent. apply db_run_WI. apply WI_empty. Qed.

(* ---------- the version gate ---------- *)

Lemma versions_match_iff stored cur : versions_match stored cur = true <-> stored = Some cur.
Proof.
  destruct cur as [a b]. destruct stored as [[sv cv]|]; cbn [versions_match fst snd].
  - rewrite andb_true_iff, !N.eqb_eq. split; [intros [-> ->]; reflexivity | intros H; inversion H; auto].
  - split; discriminate.
Qed.

Theorem version_gate stored cur rc :
  (open_decision stored cur rc = UseStored <-> stored = Some cur) /\
  (stored <> Some cur -> open_decision stored cur rc = if rc then Recreate else Reject).
Proof.
  unfold open_decision. destruct (versions_match stored cur) eqn:E.
  - apply versions_match_iff in E. split; [split; auto | intros H; contradiction].
  - assert (Hn : stored <> Some cur) by (intros H; apply versions_match_iff in H; congruence).
    split; [|reflexivity]. split; [destruct rc; discriminate | intros H; contradiction].
Qed.

(* what open() leaves the process with: the stored tables only when both versions match; otherwise empty tables
   carrying the CURRENT versions (recreate) or an error - in neither case is anything of the file interpreted *)
Theorem open_db_gate file cur rc :
  match open_db file cur rc with
  | Some t => (exists f, file = Some f /\ fst (info f) = cur /\ t = fresh_process f) \/
              (stored_versions file <> Some cur /\ rc = true /\ t = empty_tables (fst cur) (snd cur))
  | None => stored_versions file <> Some cur /\ rc = false
  end.
Proof.
  unfold open_db. destruct (version_gate (stored_versions file) cur rc) as [G1 G2].
  destruct (open_decision (stored_versions file) cur rc) eqn:E.
  - assert (Hs : stored_versions file = Some cur) by (apply G1; reflexivity).
    destruct file as [f|]; [|discriminate]. left. exists f. cbn in Hs. inversion Hs. auto.
  - assert (Hn : stored_versions file <> Some cur) by (intros H; apply G1 in H; discriminate).
    right. specialize (G2 Hn). destruct rc; [auto | discriminate].
  - assert (Hn : stored_versions file <> Some cur) by (intros H; apply G1 in H; discriminate).
    specialize (G2 Hn). destruct rc; [discriminate | auto].
Qed.

Theorem open_db_mismatch_blind file1 file2 cur rc :
  stored_versions file1 <> Some cur -> stored_versions file2 <> Some cur ->
  open_db file1 cur rc = open_db file2 cur rc.
Proof.
  intros H1 H2. unfold open_db.
  rewrite (proj2 (version_gate _ cur rc) H1), (proj2 (version_gate _ cur rc) H2). destruct rc; reflexivity.
Qed.

(* ---------- the lock ---------- *)

Lemma lock_step_le l o : (length l <= 1)%nat -> (length (lock_step l o) <= 1)%nat.
Proof.
  intros H. destruct o as [c|c]; cbn [lock_step].
  - unfold build_started. destruct l; cbn [fst length] in *; lia.
  - unfold build_complete. destruct l as [|x [|y l]]; cbn [length] in H; [cbn; lia | | lia].
    cbn [filter]. destruct (negb (N.eqb x c)); cbn; lia.
Qed.

Lemma lock_run_le ops : forall l, (length l <= 1)%nat -> (length (fold_left lock_step ops l) <= 1)%nat.
Proof. induction ops as [|o ops IH]; intros l H; [exact H|]. cbn [fold_left]. apply IH, lock_step_le, H. Qed.

Theorem lock_excludes ops c1 c2 : In c1 (lock_run ops) -> In c2 (lock_run ops) -> c1 = c2.
Proof.
  unfold lock_run. pose proof (lock_run_le ops [] ltac:(cbn; lia)) as H.
  destruct (fold_left lock_step ops []) as [|x [|y l]]; cbn [length] in H; [intros [] | | lia].
  intros [<-|[]] [<-|[]]. reflexivity.
Qed.

Theorem lock_second_start_fails l c c' : In c' l -> build_started l c = (l, false).
Proof. intros H. destruct l; [destruct H | reflexivity]. Qed.

Theorem lock_blocks_writer l c c' t k r : In c' l -> c <> c' -> db_write l c t k r = None.
Proof.
  intros Hin Hne. unfold db_write, may_write.
  destruct (forallb (N.eqb c) l) eqn:E; [|reflexivity].
  rewrite forallb_forall in E. apply E in Hin. apply N.eqb_eq in Hin. contradiction.
Qed.

(* ---------- non-vacuity ---------- *)

Definition ex_r1 : dbresult :=
  mkDbRes [1; 0; 255] 5 3 2 [([0], false, false); ([], true, false); ([49], false, true); ([49; 46; 48], true, true)].
Definition ex_t1 : tables := set_rule_result (empty_tables 18 7) [0; 0] ex_r1.

Example tables_example :
  WF ex_t1 /\ room ex_t1 ex_r1 /\
  lookup_rule_result ex_t1 [0; 0] = Found ex_r1 /\
  lookup_rule_result (fresh_process ex_t1) [0; 0] = Found ex_r1 /\
  lookup_rule_result (set_rule_result ex_t1 [] (mkDbRes [] 0 4 4 [([0; 0], false, false)])) [0; 0] = Found ex_r1 /\
  lookup_rule_result ex_t1 [0] = NotFound /\
  map fst (key_names ex_t1) = [1; 2; 3; 4; 5].
Proof.
  split; [|split; [|repeat split; vm_compute; reflexivity]].
  - apply set_rule_result_WF; [apply WF_empty|]. unfold room. vm_compute. reflexivity.
  - unfold room. vm_compute. reflexivity.
Qed.

Example gate_example :
  open_decision (Some (18, 7)) (18, 7) false = UseStored /\
  open_decision (Some (17, 7)) (18, 7) true = Recreate /\
  open_decision (Some (18, 6)) (18, 7) false = Reject /\
  open_decision None (18, 7) false = Reject /\
  open_db (Some ex_t1) (18, 8) true = Some (empty_tables 18 8) /\
  open_db (Some ex_t1) (18, 7) false = Some (fresh_process ex_t1).
Proof. repeat split; vm_compute; reflexivity. Qed.

Example lock_example :
  lock_run [LStart 1; LStart 2; LComplete 1; LStart 2] = [2] /\
  build_started [1] 2 = ([1], false) /\ db_write [1] 2 ex_t1 [] ex_r1 = None /\
  db_write [1] 1 ex_t1 [] ex_r1 <> None.
Proof. repeat split; try (vm_compute; reflexivity). vm_compute. discriminate. Qed.
