(* C05 - part 6: the invariant `Good` of the C01 proof (SpecInv1-3.v) along a traversal that may be cut short.
   SpecInv3.v proves "Good E s -> ensure = Ok s' /\ Good E s'" (success only).  Here the same induction is redone for a
   recursive call that may stop with `Cycle s' []`: the state at the stop is Good for the window set enlarged by the
   keys W that have completed and were waiting for their discovered dependencies, and for each of them the facts that
   `Good_close` needs are recorded (`wfacts`). *)
From LLB Require Import Engine.Rules Engine.Spec Engine.Exec Engine.Cancel.
From LLB Require Import Engine.SpecFrame Engine.SpecInv1 Engine.SpecInv2 Engine.SpecInv3.
From Coq Require Import List NArith Bool Lia Arith Permutation.
Local Open Scope N_scope.

Lemma Good_E_ext : forall rules env F rank R (E E' : key -> Prop) s,
  (forall x, E x <-> E' x) -> Good rules env F rank R E s -> Good rules env F rank R E' s.
Proof.
  intros rules env F rank R E E' s HE (Hb & Hs & Hr & Hc & Hcur & Hd). unfold Good. repeat apply conj; auto.
  - intros k Hk. apply Hr. intros H. apply Hk. now apply HE.
  - intros k Hk. apply Hc. intros H. apply Hk. now apply HE.
  - intros k Hk. apply Hd. now apply HE.
Qed.

Definition log_ext (s s' : state) : Prop := exists l, st_log s' = l ++ st_log s.

Lemma log_ext_refl : forall s, log_ext s s.
Proof. intros s. exists []. reflexivity. Qed.

Lemma log_ext_trans : forall s1 s2 s3, log_ext s1 s2 -> log_ext s2 s3 -> log_ext s1 s3.
Proof. intros s1 s2 s3 [l1 H1] [l2 H2]. exists (l2 ++ l1). rewrite H2, H1. now rewrite app_assoc. Qed.

Lemma frame_log_ext : forall st s s', frame_st st s s' -> log_ext s s'.
Proof. intros st s s' (_ & _ & _ & H & _). exact H. Qed.

Section Abort.
Variable rules : key -> rule.
Variable env : key -> N.
Variable F : key -> N -> list value -> list N -> N -> N.
Variable order : N -> key -> list dep -> list dep.
Variable rank : key -> nat.
Variable R : key -> N -> rule.

Local Notation G := (Good rules env F rank R).
Local Notation cvk := (cvk rules env F rank).

Definition bk_of (k : key) : list key := branch_keys (rules k) (map cvk (r_req (rules k))).

(* k completed after state s and is waiting in s' for its discovered dependencies *)
Definition wfacts (s s' : state) (k : key) : Prop :=
  exists r v,
    get (st_mem s') k = complete_row order (st_epoch s') k (rules k) r (bk_of k) v /\
    Some v = cvk k /\
    (forall x, In x (r_req (rules k) ++ bk_of k) -> done s' x) /\
    (exists l, st_log s' = l ++ st_log s /\ In (EComplete k v) l).

(* the state s' at which a traversal started in s (window set E) was stopped *)
Definition Ab (E : key -> Prop) (s s' : state) : Prop :=
  exists W : list key, G (fun x => In x W \/ E x) s' /\ (forall k, In k W -> wfacts s s' k).

Lemma wfacts_start : forall s0 s s' k, log_ext s0 s -> wfacts s s' k -> wfacts s0 s' k.
Proof.
  intros s0 s s' k [l0 H0] (r & v & Hm & Hv & Hd & l & Hl & Hin).
  exists r, v. repeat split; auto. exists (l ++ l0). split; [rewrite Hl, H0; now rewrite app_assoc|].
  apply in_or_app. now left.
Qed.

Lemma Ab_start : forall E s0 s s', log_ext s0 s -> Ab E s s' -> Ab E s0 s'.
Proof.
  intros E s0 s s' Hl (W & HG & HW). exists W. split; [exact HG|]. intros k Hk. eapply wfacts_start; eauto.
Qed.

Lemma Ab_here : forall E s, G E s -> Ab E s s.
Proof.
  intros E s HG. exists []. split; [|intros k []].
  eapply Good_E_ext; [|exact HG]. intros x. cbn [In]. tauto.
Qed.

(* what a possibly stopped piece guarantees from a Good state *)
Definition PG (E : key -> Prop) (s : state) (o : outcome) : Prop :=
  (exists s', o = Ok s' /\ G E s') \/ (exists s', o = Cycle s' [] /\ Ab E s s').

End Abort.

Section Main.
Variable rules : key -> rule.
Variable env : key -> N.
Variable F : key -> N -> list value -> list N -> N -> N.
Variable order : N -> key -> list dep -> list dep.
Variable rank : key -> nat.
Variable R : key -> N -> rule.
Hypothesis HR : table_ok rules R.
Hypothesis Hrank : wf_rank rules rank.
Hypothesis Hdisc : wf_disc rules.
Hypothesis Horder : wf_order order.

Local Notation G := (Good rules env F rank R).
Local Notation cvk := (cvk rules env F rank).
Local Notation Ab := (Ab rules env F order rank R).
Local Notation PG := (PG rules env F order rank R).

Variable ens : list key -> state -> key -> outcome.
Variable n : nat.
Hypothesis HensF : forall stack s k, frame_o stack s k (ens stack s k).
Hypothesis HensP : forall E stack s x, (rank x < n)%nat -> (forall y, In y stack -> (rank x < rank y)%nat) ->
  G E s -> PG E s (ens stack s x).

(* requests: either all delivered (clean values), or stopped; with what the frame gives in both cases *)
Lemma requests_pg : forall E k stack ks slot s acc,
  (forall x, In x ks -> (rank x < n)%nat /\ (rank x < rank k)%nat) ->
  (forall y, In y stack -> (rank k < rank y)%nat) -> G E s ->
  (exists s', requests ens k stack ks slot s acc = (Ok s', acc ++ map cvk ks) /\ G E s') \/
  (exists s' acc', requests ens k stack ks slot s acc = (Cycle s' [], acc') /\ Ab E s s').
Proof.
  intros E k stack ks. induction ks as [|x ks IH]; intros slot s acc Hks Hst HG; cbn [requests map].
  - left. exists s. rewrite app_nil_r. split; [reflexivity | exact HG].
  - destruct (Hks x (or_introl eq_refl)) as [Hxn Hxk].
    assert (Hst' : forall y, In y (k :: stack) -> (rank x < rank y)%nat).
    { intros y [<-|Hy]; [exact Hxk | specialize (Hst y Hy); lia]. }
    pose proof (HensF (k :: stack) s x) as Hf.
    destruct (HensP E (k :: stack) s x Hxn Hst' HG) as [(s1 & E1 & G1)|(s1 & E1 & A1)]; rewrite E1 in *.
    + destruct Hf as [F1 Hdx].
      assert (Hv : stored (st_mem s1) x = cvk x) by (apply G1; exact Hdx).
      unfold stored in Hv. rewrite Hv.
      assert (L1 : log_ext s (emit s1 (EProvide k slot x (cvk x)))).
      { eapply log_ext_trans; [eapply frame_log_ext; exact F1|]. exists [EProvide k slot x (cvk x)]. reflexivity. }
      destruct (IH (S slot) (emit s1 (EProvide k slot x (cvk x))) (acc ++ [cvk x])) as [(s' & E2 & G2)|(s' & acc' & E2 & A2)].
      * intros y Hy. apply Hks. now right.
      * exact Hst.
      * now apply Good_emit.
      * left. exists s'. split; [rewrite E2; now rewrite <- app_assoc | exact G2].
      * right. exists s', acc'. split; [exact E2|]. eapply Ab_start; [exact L1 | exact A2].
    + right. exists s1, acc. split; [reflexivity | exact A1].
Qed.

Lemma follows_pg : forall E k stack ks s,
  (forall x, In x ks -> (rank x < n)%nat /\ (rank x < rank k)%nat) ->
  (forall y, In y stack -> (rank k < rank y)%nat) -> G E s ->
  PG E s (follows ens k stack ks s).
Proof.
  intros E k stack ks. induction ks as [|x ks IH]; intros s Hks Hst HG; cbn [follows].
  - left. exists s. split; [reflexivity | exact HG].
  - destruct (Hks x (or_introl eq_refl)) as [Hxn Hxk].
    assert (Hst' : forall y, In y (k :: stack) -> (rank x < rank y)%nat).
    { intros y [<-|Hy]; [exact Hxk | specialize (Hst y Hy); lia]. }
    pose proof (HensF (k :: stack) s x) as Hf.
    destruct (HensP E (k :: stack) s x Hxn Hst' HG) as [(s1 & E1 & G1)|(s1 & E1 & A1)]; rewrite E1 in *.
    + destruct Hf as [F1 _].
      destruct (IH s1) as [(s' & E2 & G2)|(s' & E2 & A2)]; auto.
      * intros y Hy. apply Hks. now right.
      * left. exists s'. split; [exact E2 | exact G2].
      * right. exists s'. split; [exact E2|]. eapply Ab_start; [eapply frame_log_ext; exact F1 | exact A2].
    + right. exists s1. split; [reflexivity | exact A1].
Qed.

Lemma requests_step : forall E k stack ks slot s,
  (forall x, In x ks -> (rank x < n)%nat /\ (rank x < rank k)%nat) ->
  (forall y, In y stack -> (rank k < rank y)%nat) -> G E s ->
  (exists s', requests ens k stack ks slot s [] = (Ok s', map cvk ks) /\ G E s' /\
              frame_st (k :: stack) s s' /\ (forall x, In x ks -> done s' x)) \/
  (exists s' acc', requests ens k stack ks slot s [] = (Cycle s' [], acc') /\ Ab E s s' /\ frame_st (k :: stack) s s').
Proof.
  intros E k stack ks slot s Hks Hst HG.
  destruct (requests_pg E k stack ks slot s [] Hks Hst HG) as [(s' & Eq & G')|(s' & acc' & Eq & A')].
  - left. exists s'. cbn [app] in Eq. split; [exact Eq|]. split; [exact G'|].
    apply (requests_frame ens HensF) in Eq. destruct Eq as [Hf Hd]. split; [exact Hf | now apply Hd].
  - right. exists s', acc'. split; [exact Eq|]. split; [exact A'|].
    apply (requests_frame ens HensF) in Eq. destruct Eq as [Hf _]. exact Hf.
Qed.

Lemma follows_step : forall E k stack ks s,
  (forall x, In x ks -> (rank x < n)%nat /\ (rank x < rank k)%nat) ->
  (forall y, In y stack -> (rank k < rank y)%nat) -> G E s ->
  (exists s', follows ens k stack ks s = Ok s' /\ G E s' /\
              frame_st (k :: stack) s s' /\ (forall x, In x ks -> done s' x)) \/
  (exists s', follows ens k stack ks s = Cycle s' [] /\ Ab E s s' /\ frame_st (k :: stack) s s').
Proof.
  intros E k stack ks s Hks Hst HG.
  destruct (follows_pg E k stack ks s Hks Hst HG) as [(s' & Eq & G')|(s' & Eq & A')].
  - left. exists s'. split; [exact Eq|]. split; [exact G'|].
    apply (follows_frame ens HensF) in Eq. destruct Eq as [Hf Hd]. split; [exact Hf | now apply Hd].
  - right. exists s'. split; [exact Eq|]. split; [exact A'|].
    apply (follows_frame ens HensF) in Eq. destruct Eq as [Hf _]. exact Hf.
Qed.

Lemma pg_stop : forall E s si s', log_ext s si -> Ab E si s' -> PG E s (Cycle s' []).
Proof. intros E s si s' Hl HA. right. exists s'. split; [reflexivity|]. eapply Ab_start; eauto. Qed.

Lemma run_pre_good' : forall E k r s, G E s -> G E (run_pre rules k r s).
Proof.
  intros E k r s HG. unfold run_pre.
  destruct (negb (N.eqb (res_builtAt r) 0) && N.eqb (r_sig (rules k)) (res_sig r)); now repeat apply Good_emit.
Qed.

Lemma task_value_clean' : forall k,
  Some (task_value rules env F k (rules k) (map cvk (r_req (rules k)))
          (map cvk (branch_keys (rules k) (map cvk (r_req (rules k)))))) = cvk k.
Proof. intros k. rewrite (cvk_value rules env F rank Hrank k). reflexivity. Qed.

Lemma window_equiv : forall (E : key -> Prop) (W : list key) k x,
  (In x W \/ (x = k \/ E x)) <-> (In x (k :: W) \/ E x).
Proof.
  intros E W k x. cbn [In]. split; intros H.
  - destruct H as [H|[H|H]]; [left; now right | left; left; now symmetry | now right].
  - destruct H as [[H|H]|H]; [right; left; now symmetry | now left | right; now right].
Qed.

Lemma run_pg : forall E k stack r s,
  (rank k <= n)%nat -> (forall y, In y stack -> (rank k < rank y)%nat) ->
  G E s -> get (st_mem s) k = r -> ~ done s k ->
  PG E s (run rules env F order ens k stack r s).
Proof.
  intros E k stack r s Hkn Hst HG Hr Hnd.
  assert (Hnst : ~ In k stack) by (intros Hin; specialize (Hst k Hin); lia).
  assert (Hlt : forall l, (forall x, In x l -> (rank x < rank k)%nat) ->
                forall x, In x l -> (rank x < n)%nat /\ (rank x < rank k)%nat).
  { intros l Hl x Hx. specialize (Hl x Hx). lia. }
  unfold run. fold (run_pre rules k r s).
  pose proof (run_pre_good' E k r s HG) as G0.
  pose proof (run_pre_frame rules (k :: stack) k r s) as F0.
  set (s0 := run_pre rules k r s) in *.
  destruct (requests_step E k stack (r_req (rules k)) 0 s0 (Hlt _ (rank_req rules env F rank Hrank k)) Hst G0)
    as [(s1 & E1 & G1 & F1 & D1)|(s' & acc' & E1 & A1 & F1)]; rewrite E1.
  2:{ apply pg_stop with (si := s0); [eapply frame_log_ext; exact F0 | exact A1]. }
  pose proof (frame_trans _ _ _ _ F0 F1) as F01.
  destruct (requests_step E k stack (r_single (rules k)) (length (map cvk (r_req (rules k)))) s1
              (Hlt _ (rank_single rules env F rank Hrank k)) Hst G1)
    as [(s2 & E2 & G2 & F2 & D2)|(s' & acc' & E2 & A2 & F2)]; rewrite E2.
  2:{ apply pg_stop with (si := s1); [eapply frame_log_ext; exact F01 | exact A2]. }
  pose proof (frame_trans _ _ _ _ F01 F2) as F02.
  destruct (follows_step E k stack (r_follow (rules k)) s2 (Hlt _ (rank_follow rules env F rank Hrank k)) Hst G2)
    as [(s3 & E3 & G3 & F3 & D3)|(s' & E3 & A3 & F3)]; rewrite E3.
  2:{ apply pg_stop with (si := s2); [eapply frame_log_ext; exact F02 | exact A3]. }
  pose proof (frame_trans _ _ _ _ F02 F3) as F03.
  set (bk := branch_keys (rules k) (map cvk (r_req (rules k)))).
  destruct (requests_step E k stack bk (length (map cvk (r_req (rules k))) + length (map cvk (r_single (rules k)))) s3
              (Hlt _ (rank_branch rules env F rank Hrank k _)) Hst G3)
    as [(s4 & E4 & G4 & F4 & D4)|(s' & acc' & E4 & A4 & F4)]; rewrite E4.
  2:{ apply pg_stop with (si := s3); [eapply frame_log_ext; exact F03 | exact A4]. }
  set (s5 := emit s4 (EAvail k)).
  assert (F5 : frame_st (k :: stack) s s5).
  { eapply frame_trans; [exact F03|]. eapply frame_trans; [exact F4 | apply frame_emit]. }
  assert (G5 : G E s5) by now apply Good_emit.
  assert (Hr5 : get (st_mem s5) k = r).
  { rewrite <- Hr. apply F5. left. now left. }
  pose proof (frame_notdone _ _ _ _ F5 Hnd) as Hnd5.
  set (v := task_value rules env F k (rules k) (map cvk (r_req (rules k))) (map cvk bk)).
  assert (Hv : Some v = cvk k) by apply task_value_clean'.
  pose proof (Good_complete rules env F order rank R E s5 k r bk v G5 Hr5 Hnd5 Hv) as G6.
  pose proof (complete_frame rules env F order stack s5 k (rules k) r bk v Hnst Hnd5) as F6.
  assert (L6 : st_log (complete order s5 k (rules k) r bk v) = EComplete k v :: st_log s5) by reflexivity.
  assert (M6 : get (st_mem (complete order s5 k (rules k) r bk v)) k =
               complete_row order (st_epoch (complete order s5 k (rules k) r bk v)) k (rules k) r bk v).
  { unfold complete; cbn [st_mem st_epoch set_db set_mem unflag emit]. rewrite get_update_same. reflexivity. }
  set (s6 := complete order s5 k (rules k) r bk v) in *.
  assert (Mreq : forall s', frame_st (k :: stack) s6 s' ->
                 forall x, In x (r_req (rules k) ++ bk) -> done s' x).
  { intros s' F7 x Hx.
    assert (M45 : done s4 x -> done s' x).
    { intros H. eapply frame_done_mono; [exact F7|]. eapply frame_done_mono; [exact F6|]. now apply done_emit. }
    apply in_app_or in Hx. destruct Hx as [Hx|Hx].
    - apply M45. eapply frame_done_mono; [exact F4|]. eapply frame_done_mono; [exact F3|].
      eapply frame_done_mono; [exact F2|]. now apply D1.
    - apply M45. now apply D4. }
  assert (Mrow : forall s', frame_st (k :: stack) s6 s' ->
                 get (st_mem s') k = complete_row order (st_epoch s') k (rules k) r bk v).
  { intros s' F7. destruct F7 as (He7 & _ & _ & _ & Hm7 & _). rewrite Hm7 by (left; now left).
    rewrite He7. exact M6. }
  destruct (follows_step (fun x => x = k \/ E x) k stack (r_disc (rules k)) s6
              (Hlt _ (rank_disc rules env F rank Hrank k)) Hst G6)
    as [(s7 & E7 & G7 & F7 & D7)|(s' & E7 & A7 & F7)]; rewrite E7.
  - left. exists s7. split; [reflexivity|].
    apply (Good_close rules env F order rank R HR Hrank Hdisc Horder E s7 k r v G7).
    + fold bk. now apply Mrow.
    + exact Hv.
    + fold bk. intros x Hx. rewrite app_assoc in Hx. apply in_app_or in Hx. destruct Hx as [Hx|Hx].
      * now apply (Mreq s7 F7).
      * now apply D7.
  - right. exists s'. split; [reflexivity|]. destruct A7 as (W & GW & HW).
    assert (L06 : log_ext s s6).
    { eapply log_ext_trans; [eapply frame_log_ext; exact F5 | eapply frame_log_ext; exact F6]. }
    exists (k :: W). split.
    + eapply Good_E_ext; [|exact GW]. intros x. apply window_equiv.
    + intros k' [<-|Hk'].
      * exists r, v. split; [now apply Mrow|]. split; [exact Hv|]. split; [now apply Mreq|].
        destruct (frame_log_ext _ _ _ F5) as [l5 L5]. destruct (frame_log_ext _ _ _ F7) as [l7 L7].
        exists (l7 ++ EComplete k v :: l5). split.
        -- rewrite L7, L6, L5. rewrite <- app_assoc. reflexivity.
        -- apply in_or_app. right. now left.
      * eapply wfacts_start; [exact L06 | now apply HW].
Qed.

Lemma scan_pg : forall E k stack r ds s,
  (rank k <= n)%nat -> (forall y, In y stack -> (rank k < rank y)%nat) ->
  res_builtAt r <> 0 -> res_sig r = r_sig (rules k) -> valid rules env k r = true ->
  G E s -> get (st_mem s) k = r -> ~ done s k ->
  (forall d, In d ds -> (rank (d_key d) < rank k)%nat) ->
  (forall d, In d (cdeps r) -> In d ds \/
      (done s (d_key d) /\ res_computedAt (get (st_mem s) (d_key d)) <= res_builtAt r)) ->
  PG E s (scan rules env F order ens k stack r ds s).
Proof.
  intros E k stack r ds. induction ds as [|d ds IH]; intros s Hkn Hst Hb Hs Hval HG Hr Hnd Hrk Hproc; cbn [scan].
  - left. eexists. split; [reflexivity|].
    apply (Good_mark rules env F rank R HR Hrank Hdisc E s k r HG Hr Hnd Hb Hs Hval).
    + intros d Hd. destruct (Hproc d Hd) as [[]|[_ H]]. exact H.
    + intros d Hd. destruct (Hproc d Hd) as [[]|[H _]]. exact H.
  - assert (Hdn : (rank (d_key d) < n)%nat) by (specialize (Hrk d (or_introl eq_refl)); lia).
    assert (Hst' : forall y, In y (k :: stack) -> (rank (d_key d) < rank y)%nat).
    { intros y [<-|Hy]; [apply Hrk; now left | specialize (Hst y Hy); specialize (Hrk d (or_introl eq_refl)); lia]. }
    pose proof (HensF (k :: stack) s (d_key d)) as Hf.
    destruct (HensP E (k :: stack) s (d_key d) Hdn Hst' HG) as [(s1 & E1 & G1)|(s1 & E1 & A1)]; rewrite E1 in *.
    2:{ right. exists s1. split; [reflexivity | exact A1]. }
    destruct Hf as [F1 Hdd].
    assert (Hr1 : get (st_mem s1) k = r).
    { rewrite <- Hr. apply F1. left. now left. }
    pose proof (frame_notdone _ _ _ _ F1 Hnd) as Hnd1.
    pose proof (frame_log_ext _ _ _ F1) as L1.
    destruct (negb (d_order d) && (res_builtAt r <? res_computedAt (get (st_mem s1) (d_key d)))) eqn:Ec.
    + destruct (run_pg E k stack r (emit s1 (ENeed k InputRebuilt (Some (d_key d)))) Hkn Hst) as [(s' & E2 & G2)|(s' & E2 & A2)].
      * now apply Good_emit.
      * exact Hr1.
      * intros H. apply Hnd1. now apply done_emit in H.
      * left. exists s'. split; [exact E2 | exact G2].
      * right. exists s'. split; [exact E2|]. eapply Ab_start; [|exact A2].
        eapply log_ext_trans; [exact L1|]. exists [ENeed k InputRebuilt (Some (d_key d))]. reflexivity.
    + destruct (IH s1) as [(s' & E2 & G2)|(s' & E2 & A2)]; auto.
      * intros d' Hd'. apply Hrk. now right.
      * intros d' Hd'. destruct (Hproc d' Hd') as [[<-|Hin]|[Hdone Hle]].
        -- right. split; [exact Hdd|]. apply in_cdeps in Hd'. destruct Hd' as (_ & Ho & _).
           rewrite Ho in Ec. cbn in Ec. apply N.ltb_ge in Ec. exact Ec.
        -- now left.
        -- right. destruct F1 as (F1a & F1b & F1c & F1d & Hm1 & F1e). split.
           ++ eapply frame_done_mono; [|exact Hdone]. repeat split; eauto.
           ++ rewrite Hm1 by now right. exact Hle.
      * left. exists s'. split; [exact E2 | exact G2].
      * right. exists s'. split; [exact E2|]. eapply Ab_start; [exact L1 | exact A2].
Qed.

Lemma ensure_body_pg : forall E stack s k,
  (rank k <= n)%nat -> (forall y, In y stack -> (rank k < rank y)%nat) -> G E s ->
  PG E s (ensure_body rules env F order ens stack s k).
Proof.
  intros E stack s k Hkn Hst HG. unfold ensure_body.
  assert (Hnst : ~ In k stack) by (intros Hin; specialize (Hst k Hin); lia).
  apply existsb_eqb_nIn in Hnst. rewrite Hnst.
  destruct (N.eqb (res_builtAt (get (st_mem s) k)) (st_epoch s)) eqn:Ed.
  { left. exists s. split; [reflexivity | exact HG]. }
  apply N.eqb_neq in Ed. fold (done s k) in Ed.
  set (r0 := get (st_mem s) k) in *.
  set (r := mkRes (res_value r0) (res_sig r0) (res_computedAt r0) (res_builtAt r0) (drop_single (res_deps r0))).
  cbn [res_builtAt r].
  assert (G1 : G E (set_mem s k r)).
  { apply Good_set_mem_quiet; auto. cbn. apply drop_single_idem. }
  assert (Hr1 : get (st_mem (set_mem s k r)) k = r) by (unfold set_mem; cbn; apply get_update_same).
  assert (Hnd1 : ~ done (set_mem s k r) k).
  { unfold done. rewrite Hr1. cbn. exact Ed. }
  assert (L1 : log_ext s (set_mem s k r)) by (exists []; reflexivity).
  set (s1 := set_mem s k r) in *.
  assert (Hrun : forall s2, G E s2 -> get (st_mem s2) k = r -> ~ done s2 k -> log_ext s s2 ->
            PG E s (run rules env F order ens k stack r s2)).
  { intros s2 G2 Hr2 Hnd2 L2. destruct (run_pg E k stack r s2 Hkn Hst G2 Hr2 Hnd2) as [(s' & E' & G')|(s' & E' & A')].
    - left. exists s'. split; [exact E' | exact G'].
    - right. exists s'. split; [exact E'|]. eapply Ab_start; eauto. }
  assert (Hemit : forall e,
            G E (emit s1 e) /\ get (st_mem (emit s1 e)) k = r /\ ~ done (emit s1 e) k /\ log_ext s (emit s1 e)).
  { intros e. split; [now apply Good_emit|]. split; [exact Hr1|]. split.
    - intros H. apply Hnd1. now apply done_emit in H.
    - eapply log_ext_trans; [exact L1|]. exists [e]. reflexivity. }
  destruct (N.eqb (res_builtAt r0) 0) eqn:Eb.
  { destruct (Hemit (ENeed k NeverBuilt None)) as (A & B & C & D). now apply Hrun. }
  destruct (flagged s1 k).
  { destruct (Hemit (ENeed k Forced None)) as (A & B & C & D). now apply Hrun. }
  destruct (negb (N.eqb (r_sig (rules k)) (res_sig r))) eqn:Es.
  { destruct (Hemit (ENeed k SignatureChanged None)) as (A & B & C & D). now apply Hrun. }
  destruct (negb (valid rules env k r)) eqn:Ev.
  { destruct (Hemit (EValid k false)) as (A & B & C & D). apply Hrun.
    - now apply Good_emit.
    - exact B.
    - intros H. apply C. now apply done_emit in H.
    - eapply log_ext_trans; [exact D|]. exists [ENeed k InvalidValue None]. reflexivity. }
  apply N.eqb_neq in Eb. apply negb_false_iff in Es, Ev. apply N.eqb_eq in Es.
  destruct (Hemit (EValid k true)) as (A & B & C & D).
  assert (HkE : ~ E k). { intros H. apply Ed. now apply HG. }
  assert (Hdeps : forall d, In d (res_deps r) -> (rank (d_key d) < rank k)%nat).
  { intros d Hd. destruct G1 as (_ & _ & Hrows & _). specialize (Hrows k HkE). rewrite Hr1 in Hrows.
    destruct Hrows as (v & _ & _ & Hm & _); [exact Eb|].
    rewrite <- Es, (HR k) in Hm. apply Hrank. apply Hm. cbn [res_deps r]. now rewrite drop_single_idem. }
  destruct (scan_pg E k stack r (res_deps r) (emit s1 (EValid k true))) as [(s' & E' & G')|(s' & E' & A')]; auto.
  - intros d Hd. left. now apply in_cdeps in Hd.
  - left. exists s'. split; [exact E' | exact G'].
  - right. exists s'. split; [exact E'|]. eapply Ab_start; eauto.
Qed.

End Main.

Section LiftC.
Variable rules : key -> rule.
Variable env : key -> N.
Variable F : key -> N -> list value -> list N -> N -> N.
Variable order : N -> key -> list dep -> list dep.
Variable rank : key -> nat.
Variable R : key -> N -> rule.
Hypothesis HR : table_ok rules R.
Hypothesis Hrank : wf_rank rules rank.
Hypothesis Hdisc : wf_disc rules.
Hypothesis Horder : wf_order order.
Variable n base : nat.

Theorem ensure_c_frame : forall fuel stack s k,
  frame_o stack s k (ensure_c rules env F order n base fuel stack s k).
Proof.
  induction fuel as [|f IH]; intros stack s k; cbn [ensure_c]; [exact I|].
  destruct (budget_reached n base s); [cbn [frame_o]; apply frame_refl|].
  apply ensure_body_frame. exact IH.
Qed.

Theorem ensure_c_pg : forall fuel E stack s k,
  (rank k < fuel)%nat -> (forall y, In y stack -> (rank k < rank y)%nat) -> Good rules env F rank R E s ->
  PG rules env F order rank R E s (ensure_c rules env F order n base fuel stack s k).
Proof.
  induction fuel as [|f IH]; intros E stack s k Hk Hst HG; [lia|]. cbn [ensure_c].
  destruct (budget_reached n base s).
  - right. exists s. split; [reflexivity | now apply Ab_here].
  - apply ensure_body_pg with (n := f); auto.
    + intros st s0 k0. apply ensure_c_frame.
    + lia.
Qed.

End LiftC.
