(* C06 - proofs about the wait/notify handshake (Handshake.v): the inductive invariant behind "no lost wake-up",
   progress without spurious wake-ups, and the refutation for the variant that checks emptiness outside the mutex. *)
From Coq Require Import List Arith Bool Lia Permutation.
From LLB Require Import Engine.Handshake.
Import ListNotations.

(* ------------------------------------------------------------------ lists *)

Lemma upd_length : forall l i c, length (upd i c l) = length l.
Proof.
  induction l as [|x t IH]; intros i c; [destruct i; reflexivity|].
  destruct i as [|j]; cbn [upd length]; [reflexivity|]. now rewrite IH.
Qed.

Lemma nth_error_upd : forall l i c a j,
  nth_error l i = Some a ->
  nth_error (upd i c l) j = if Nat.eqb j i then Some c else nth_error l j.
Proof.
  induction l as [|x t IH]; intros i c a j Hi.
  - destruct i; discriminate.
  - destruct i as [|i']; destruct j as [|j']; cbn [upd nth_error Nat.eqb] in *; try reflexivity.
    now apply IH with (a := a).
Qed.

Lemma nth_error_snoc_class : forall (f : option cstate -> bool) l j,
  f (Some CIdle) = f None -> f (nth_error (l ++ [CIdle]) j) = f (nth_error l j).
Proof.
  intros f l j Hf. destruct (lt_dec j (length l)) as [Hlt|Hge].
  - now rewrite nth_error_app1.
  - rewrite nth_error_app2 by lia.
    assert (Hn : nth_error l j = None) by (apply nth_error_None; lia). rewrite Hn.
    destruct (j - length l) as [|k]; cbn [nth_error]; [exact Hf|]. destruct k; reflexivity.
Qed.

Lemma cstate_eqb_eq : forall a b, cstate_eqb a b = true <-> a = b.
Proof. intros a b; destruct a, b; cbn; split; intro H; try reflexivity; discriminate. Qed.

Lemma thread_is_spec : forall s i c, thread_is s i c = true <-> nth_error (threads s) i = Some c.
Proof.
  intros s i c. unfold thread_is. destruct (nth_error (threads s) i) as [c'|].
  - rewrite cstate_eqb_eq. split; intro H; [now subst | now inversion H].
  - split; discriminate.
Qed.

Lemma work_upd_lt : forall l i a c,
  nth_error l i = Some a -> remaining c < remaining a -> work (upd i c l) < work l.
Proof.
  induction l as [|x t IH]; intros i a c Hi Hlt.
  - destruct i; discriminate.
  - destruct i as [|j]; cbn [upd work nth_error] in *.
    + inversion Hi; subst. lia.
    + specialize (IH j a c Hi Hlt). lia.
Qed.

Lemma work_pos_exists : forall l, work l <> 0 -> exists i a, nth_error l i = Some a /\ a <> CDone.
Proof.
  induction l as [|x t IH]; intros Hw; [now elim Hw|].
  destruct (cstate_eqb x CDone) eqn:Hx.
  - apply cstate_eqb_eq in Hx; subst. cbn [work remaining] in Hw.
    destruct (IH Hw) as (i & a & Hi & Ha). exists (S i), a. now split.
  - exists 0, x. split; [reflexivity|]. intro E; subst; discriminate.
Qed.

Lemma work_zero_all_done : forall l, work l = 0 -> forall i a, nth_error l i = Some a -> a = CDone.
Proof.
  induction l as [|x t IH]; intros Hw i a Hi.
  - destruct i; discriminate.
  - cbn [work] in Hw. destruct i as [|j]; cbn [nth_error] in Hi.
    + inversion Hi; subst. destruct a; cbn in Hw; try lia. reflexivity.
    + apply (IH ltac:(lia) j a Hi).
Qed.

(* a duplicate-free list of numbers below n has at most n elements *)
Lemma nodup_bounded_length : forall (l : list nat) n,
  NoDup l -> (forall i, In i l -> i < n) -> length l <= n.
Proof.
  intros l n Hnd Hb. rewrite <- (seq_length n 0). apply NoDup_incl_length; [exact Hnd|].
  intros i Hi. apply in_seq. specialize (Hb i Hi). lia.
Qed.

(* ------------------------------------------------------------------ the invariant *)

Record Inv (s : state) : Prop := mkInv {
  inv_mx_eng : mutex s = Some OEngine <-> engine_holds (pc s) = true;
  inv_mx_thr : forall i, mutex s = Some (OThread i) <-> holds_lock (nth_error (threads s) i) = true;
  inv_nodup : NoDup (queue s ++ consumed s);
  inv_pushed : forall i, In i (queue s ++ consumed s) <-> has_pushed (nth_error (threads s) i) = true;
  inv_count : outstanding s + length (consumed s) = length (threads s);
  (* THE handshake fact: while the engine sleeps, every queued element still has its notify to come *)
  inv_wait : is_waiting (pc s) = true ->
             forall i, In i (queue s) -> not_notified (nth_error (threads s) i) = true;
  inv_out : in_wait_block (pc s) = true -> outstanding s <> 0;
  inv_peek : pc s <> EPeeked;
  inv_done : pc s = EDone -> outstanding s = 0
}.

Lemma inv_init : Inv init.
Proof.
  constructor; cbn.
  - split; discriminate.
  - intro i; split; [discriminate|]. destruct i; discriminate.
  - constructor.
  - intro i; split; [intros []|]. destruct i; discriminate.
  - reflexivity.
  - discriminate.
  - discriminate.
  - discriminate.
  - discriminate.
Qed.

Lemma has_pushed_bound : forall l i, has_pushed (nth_error l i) = true -> i < length l.
Proof.
  intros l i H. apply nth_error_Some. intro E. rewrite E in H. discriminate.
Qed.

Lemma inv_seen_bound : forall s, Inv s -> length (queue s) + length (consumed s) <= length (threads s).
Proof.
  intros s HI. rewrite <- app_length. apply nodup_bounded_length; [apply (inv_nodup s HI)|].
  intros i Hi. apply has_pushed_bound. now apply (inv_pushed s HI).
Qed.

Lemma in_middle : forall (j i : nat) q c, In j (q ++ i :: c) <-> In j (i :: q ++ c).
Proof.
  intros j i q c. cbn [In]. rewrite !in_app_iff. cbn [In]. tauto.
Qed.

Lemma class_upd : forall (f : option cstate -> bool) t i a c j,
  nth_error t i = Some a ->
  f (nth_error (upd i c t) j) = if Nat.eqb j i then f (Some c) else f (nth_error t j).
Proof.
  intros f t i a c j Hi. rewrite (nth_error_upd t i c a j Hi). now destruct (Nat.eqb j i).
Qed.

Ltac start :=
  intros s s' HI Hst; pose proof (inv_seen_bound s HI) as Hsb;
  destruct HI as [Hme Hmt Hnd Hpu Hct Hwt Hout Hpk Hdn];
  destruct s as [p m q t o c]; unfold step, step_gen in Hst;
  cbn [pc mutex queue threads outstanding consumed with_pc with_pc_mutex] in *.

Ltac fields := cbn [pc mutex queue threads outstanding consumed engine_holds is_waiting in_wait_block is_free app with_pc with_pc_mutex] in *.

Ltac got := match goal with H : Some _ = Some ?s' |- _ => inversion H; subst s'; clear H end.

Ltac thr_free :=
  let i := fresh "i" in let H := fresh "H" in
  intro i; split; [discriminate | intro H; apply Hmt in H; discriminate].
Ltac easy_fields :=
  try assumption; try discriminate; try (split; discriminate); try (split; reflexivity); try reflexivity; try thr_free.

(* ---- engine steps *)

Lemma inv_spawn : forall s s', Inv s -> step s LSpawn = Some s' -> Inv s'.
Proof.
  start. destruct p; try discriminate. got. constructor; fields; easy_fields.
  - intro i. rewrite (nth_error_snoc_class holds_lock) by reflexivity. apply Hmt.
  - intro i. rewrite (nth_error_snoc_class has_pushed) by reflexivity. apply Hpu.
  - rewrite app_length; cbn [length]; lia.
Qed.

Lemma inv_polllock : forall s s', Inv s -> step s LPollLock = Some s' -> Inv s'.
Proof.
  start. destruct p; try discriminate. destruct m; fields; try discriminate. got. constructor; fields; easy_fields.
Qed.

Lemma inv_poll : forall s s', Inv s -> step s LPoll = Some s' -> Inv s'.
Proof.
  start. destruct p; try discriminate. fields.
  assert (Hm : m = Some OEngine) by (apply Hme; reflexivity). subst m.
  destruct q as [|i q'].
  - got. constructor; fields; easy_fields.
  - got. constructor; fields; easy_fields.
    + apply (Permutation_NoDup (Permutation_middle q' c i)). exact Hnd.
    + intro j. rewrite in_middle. apply Hpu.
    + cbn [length] in *. lia.
Qed.

Lemma inv_continue : forall s s', Inv s -> step s LContinue = Some s' -> Inv s'.
Proof.
  start. destruct p as [| |dw| | | | | | |]; try discriminate. destruct dw; try discriminate. got.
  constructor; fields; easy_fields.
Qed.

Lemma inv_exit : forall s s', Inv s -> step s LExit = Some s' -> Inv s'.
Proof.
  start. destruct p as [| |dw| | | | | | |]; try discriminate.
  - destruct dw; try discriminate. destruct o; try discriminate. got.
    constructor; fields; easy_fields.
  - destruct o; try discriminate. got.
    constructor; fields; easy_fields.
Qed.

Lemma inv_cyclecontinue : forall s s', Inv s -> step s LCycleContinue = Some s' -> Inv s'.
Proof.
  start. destruct p as [| |dw| | | | | | |]; try discriminate.
  destruct dw; try discriminate. destruct o; try discriminate. got.
  constructor; fields; easy_fields.
Qed.

Lemma inv_waitlock : forall s s', Inv s -> step s LWaitLock = Some s' -> Inv s'.
Proof.
  start. destruct p as [| |dw| | | | | | |]; try discriminate.
  - destruct dw; try discriminate. destruct o; try discriminate. cbn in Hst.
    destruct m; fields; try discriminate. got. constructor; fields; easy_fields.
  - now elim Hpk.
  - destruct o; try discriminate. destruct m; fields; try discriminate. got. constructor; fields; easy_fields.
Qed.

Lemma inv_peek_step : forall s s', Inv s -> step s LPeek = Some s' -> Inv s'.
Proof.
  start. destruct p as [| |dw| | | | | | |]; try discriminate.
  destruct dw; try discriminate. destruct o; discriminate.
Qed.

Lemma inv_check : forall s s', Inv s -> step s LCheck = Some s' -> Inv s'.
Proof.
  start. destruct p as [| | | |md| | | | |]; try discriminate. fields.
  assert (Hm : m = Some OEngine) by (apply Hme; reflexivity). subst m.
  assert (Ho : o <> 0) by (apply Hout; reflexivity).
  destruct md; cbn in Hst; destruct q as [|j q'].
  - got. constructor; fields; easy_fields. intros _ i [].
  - got. constructor; fields; easy_fields.
  - got. constructor; fields; easy_fields. intros _ i [].
  - got. constructor; fields; easy_fields.
    rewrite app_length in *. cbn [length] in *. lia.
Qed.

Lemma inv_reacquire : forall s s', Inv s -> step s LReacquire = Some s' -> Inv s'.
Proof.
  start. destruct p as [| | | | | |md| | |]; try discriminate.
  destruct m; fields; try discriminate. got. constructor; fields; easy_fields.
Qed.

Lemma inv_waitunlock : forall s s', Inv s -> step s LWaitUnlock = Some s' -> Inv s'.
Proof.
  start. destruct p as [| | | | | | |md| |]; try discriminate. fields.
  assert (Hm : m = Some OEngine) by (apply Hme; reflexivity). subst m.
  destruct md; got; constructor; fields; easy_fields.
Qed.

Lemma inv_cancel : forall s s', Inv s -> step s LCancel = Some s' -> Inv s'.
Proof.
  start. destruct p; try discriminate. got. constructor; fields; easy_fields.
Qed.

Lemma inv_spurious : forall s s', Inv s -> step s LSpurious = Some s' -> Inv s'.
Proof.
  start. destruct p; try discriminate. got. constructor; fields; easy_fields.
Qed.
