(* C06 - proofs about the wait/notify handshake (Handshake.v): the inductive invariant behind "no lost wake-up",
   progress without spurious wake-ups, and the refutation for the variant that checks emptiness outside the mutex. *)
From Coq Require Import List Arith Bool Lia Permutation.
From LLB Require Import Engine.Handshake.
Import ListNotations.

(* ------------------------------------------------------------------ lists *)

Lemma upd_length : forall l i c, length (upd i c l) = length l.
Proof.
  induction l as [|x t IH]; intros i c; [destruct i; reflexivity|].
  destruct i as [|j]; cbn [upd length]; [reflexivity|]. now rewrite IH.
Qed.

Lemma nth_error_upd : forall l i c a j,
  nth_error l i = Some a ->
  nth_error (upd i c l) j = if Nat.eqb j i then Some c else nth_error l j.
Proof.
  induction l as [|x t IH]; intros i c a j Hi.
  - destruct i; discriminate.
  - destruct i as [|i']; destruct j as [|j']; cbn [upd nth_error Nat.eqb] in *; try reflexivity.
    now apply IH with (a := a).
Qed.

Lemma nth_error_snoc_class : forall (f : option cstate -> bool) l j,
  f (Some CIdle) = f None -> f (nth_error (l ++ [CIdle]) j) = f (nth_error l j).
Proof.
  intros f l j Hf. destruct (lt_dec j (length l)) as [Hlt|Hge].
  - now rewrite nth_error_app1.
  - rewrite nth_error_app2 by lia.
    assert (Hn : nth_error l j = None) by (apply nth_error_None; lia). rewrite Hn.
    destruct (j - length l) as [|k]; cbn [nth_error]; [exact Hf|]. destruct k; reflexivity.
Qed.

Lemma cstate_eqb_eq : forall a b, cstate_eqb a b = true <-> a = b.
Proof. intros a b; destruct a, b; cbn; split; intro H; try reflexivity; discriminate. Qed.

Lemma thread_is_spec : forall s i c, thread_is s i c = true <-> nth_error (threads s) i = Some c.
Proof.
  intros s i c. unfold thread_is. destruct (nth_error (threads s) i) as [c'|].
  - rewrite cstate_eqb_eq. split; intro H; [now subst | now inversion H].
  - split; discriminate.
Qed.

Lemma work_upd_lt : forall l i a c,
  nth_error l i = Some a -> remaining c < remaining a -> work (upd i c l) < work l.
Proof.
  induction l as [|x t IH]; intros i a c Hi Hlt.
  - destruct i; discriminate.
  - destruct i as [|j]; cbn [upd work nth_error] in *.
    + inversion Hi; subst. lia.
    + specialize (IH j a c Hi Hlt). lia.
Qed.

Lemma work_pos_exists : forall l, work l <> 0 -> exists i a, nth_error l i = Some a /\ a <> CDone.
Proof.
  induction l as [|x t IH]; intros Hw; [now elim Hw|].
  destruct (cstate_eqb x CDone) eqn:Hx.
  - apply cstate_eqb_eq in Hx; subst. cbn [work remaining] in Hw.
    destruct (IH Hw) as (i & a & Hi & Ha). exists (S i), a. now split.
  - exists 0, x. split; [reflexivity|]. intro E; subst; discriminate.
Qed.

Lemma work_zero_all_done : forall l, work l = 0 -> forall i a, nth_error l i = Some a -> a = CDone.
Proof.
  induction l as [|x t IH]; intros Hw i a Hi.
  - destruct i; discriminate.
  - cbn [work] in Hw. destruct i as [|j]; cbn [nth_error] in Hi.
    + inversion Hi; subst. destruct a; cbn in Hw; try lia. reflexivity.
    + apply (IH ltac:(lia) j a Hi).
Qed.

(* a duplicate-free list of numbers below n has at most n elements *)
Lemma nodup_bounded_length : forall (l : list nat) n,
  NoDup l -> (forall i, In i l -> i < n) -> length l <= n.
Proof.
  intros l n Hnd Hb. rewrite <- (seq_length n 0). apply NoDup_incl_length; [exact Hnd|].
  intros i Hi. apply in_seq. specialize (Hb i Hi). lia.
Qed.

(* ------------------------------------------------------------------ the invariant *)

Record Inv (s : state) : Prop := mkInv {
  inv_mx_eng : mutex s = Some OEngine <-> engine_holds (pc s) = true;
  inv_mx_thr : forall i, mutex s = Some (OThread i) <-> holds_lock (nth_error (threads s) i) = true;
  inv_nodup : NoDup (queue s ++ consumed s);
  inv_pushed : forall i, In i (queue s ++ consumed s) <-> has_pushed (nth_error (threads s) i) = true;
  inv_count : outstanding s + length (consumed s) = length (threads s);
  (* THE handshake fact: while the engine sleeps, every queued element still has its notify to come *)
  inv_wait : is_waiting (pc s) = true ->
             forall i, In i (queue s) -> not_notified (nth_error (threads s) i) = true;
  inv_out : in_wait_block (pc s) = true -> outstanding s <> 0;
  inv_peek : pc s <> EPeeked;
  inv_done : pc s = EDone -> outstanding s = 0
}.

Lemma inv_init : Inv init.
Proof.
  constructor; cbn.
  - split; discriminate.
  - intro i; split; [discriminate|]. destruct i; discriminate.
  - constructor.
  - intro i; split; [intros []|]. destruct i; discriminate.
  - reflexivity.
  - discriminate.
  - discriminate.
  - discriminate.
  - discriminate.
Qed.

Lemma has_pushed_bound : forall l i, has_pushed (nth_error l i) = true -> i < length l.
Proof.
  intros l i H. apply nth_error_Some. intro E. rewrite E in H. discriminate.
Qed.

Lemma inv_seen_bound : forall s, Inv s -> length (queue s) + length (consumed s) <= length (threads s).
Proof.
  intros s HI. rewrite <- app_length. apply nodup_bounded_length; [apply (inv_nodup s HI)|].
  intros i Hi. apply has_pushed_bound. now apply (inv_pushed s HI).
Qed.

Lemma in_middle : forall (j i : nat) q c, In j (q ++ i :: c) <-> In j (i :: q ++ c).
Proof.
  intros j i q c. cbn [In]. rewrite !in_app_iff. cbn [In]. tauto.
Qed.

Lemma class_upd : forall (f : option cstate -> bool) t i a c j,
  nth_error t i = Some a ->
  f (nth_error (upd i c t) j) = if Nat.eqb j i then f (Some c) else f (nth_error t j).
Proof.
  intros f t i a c j Hi. rewrite (nth_error_upd t i c a j Hi). now destruct (Nat.eqb j i).
Qed.

Ltac start :=
  intros s s' HI Hst; pose proof (inv_seen_bound s HI) as Hsb;
  destruct HI as [Hme Hmt Hnd Hpu Hct Hwt Hout Hpk Hdn];
  destruct s as [p m q t o c]; unfold step, step_gen in Hst;
  cbn [pc mutex queue threads outstanding consumed with_pc with_pc_mutex] in *.

Ltac fields := cbn [pc mutex queue threads outstanding consumed engine_holds is_waiting in_wait_block is_free app with_pc with_pc_mutex] in *.

Ltac got := match goal with H : Some _ = Some ?s' |- _ => inversion H; subst s'; clear H end.

Ltac thr_free :=
  let i := fresh "i" in let H := fresh "H" in
  intro i; split; [discriminate | intro H; match goal with Hx : forall k, _ = Some (OThread k) <-> _ |- _ => apply Hx in H end; discriminate].
Ltac easy_fields :=
  try assumption; try discriminate; try (split; discriminate); try (split; reflexivity); try reflexivity; try thr_free.

(* ---- engine steps *)

Lemma inv_spawn : forall s s', Inv s -> step s LSpawn = Some s' -> Inv s'.
Proof.
  start. destruct p; try discriminate. got. constructor; fields; easy_fields.
  - intro i. rewrite (nth_error_snoc_class holds_lock) by reflexivity. apply Hmt.
  - intro i. rewrite (nth_error_snoc_class has_pushed) by reflexivity. apply Hpu.
  - rewrite app_length; cbn [length]; lia.
Qed.

Lemma inv_polllock : forall s s', Inv s -> step s LPollLock = Some s' -> Inv s'.
Proof.
  start. destruct p; try discriminate. destruct m; fields; try discriminate. got. constructor; fields; easy_fields.
Qed.

Lemma inv_poll : forall s s', Inv s -> step s LPoll = Some s' -> Inv s'.
Proof.
  start. destruct p; try discriminate. fields.
  assert (Hm : m = Some OEngine) by (apply Hme; reflexivity). subst m.
  destruct q as [|i q'].
  - got. constructor; fields; easy_fields.
  - got. constructor; fields; easy_fields.
    + apply (Permutation_NoDup (Permutation_middle q' c i)). exact Hnd.
    + intro j. rewrite in_middle. apply Hpu.
    + cbn [length] in *. lia.
Qed.

Lemma inv_continue : forall s s', Inv s -> step s LContinue = Some s' -> Inv s'.
Proof.
  start. destruct p as [| |dw| | | | | | |]; try discriminate. destruct dw; try discriminate. got.
  constructor; fields; easy_fields.
Qed.

Lemma inv_exit : forall s s', Inv s -> step s LExit = Some s' -> Inv s'.
Proof.
  start. destruct p as [| |dw| | | | | | |]; try discriminate.
  - destruct dw; try discriminate. destruct o; try discriminate. got.
    constructor; fields; easy_fields.
  - destruct o; try discriminate. got.
    constructor; fields; easy_fields.
Qed.

Lemma inv_cyclecontinue : forall s s', Inv s -> step s LCycleContinue = Some s' -> Inv s'.
Proof.
  start. destruct p as [| |dw| | | | | | |]; try discriminate.
  destruct dw; try discriminate. destruct o; try discriminate. got.
  constructor; fields; easy_fields.
Qed.

Lemma inv_waitlock : forall s s', Inv s -> step s LWaitLock = Some s' -> Inv s'.
Proof.
  start. destruct p as [| |dw| | | | | | |]; try discriminate.
  - destruct dw; try discriminate. destruct o; try discriminate. cbn in Hst.
    destruct m; fields; try discriminate. got. constructor; fields; easy_fields.
  - now elim Hpk.
  - destruct o; try discriminate. destruct m; fields; try discriminate. got. constructor; fields; easy_fields.
Qed.

Lemma inv_peek_step : forall s s', Inv s -> step s LPeek = Some s' -> Inv s'.
Proof.
  start. destruct p as [| |dw| | | | | | |]; try discriminate.
  destruct dw; try discriminate. destruct o; discriminate.
Qed.

Lemma inv_check : forall s s', Inv s -> step s LCheck = Some s' -> Inv s'.
Proof.
  start. destruct p as [| | | |md| | | | |]; try discriminate. fields.
  assert (Hm : m = Some OEngine) by (apply Hme; reflexivity). subst m.
  assert (Ho : o <> 0) by (apply Hout; reflexivity).
  destruct md; cbn in Hst; destruct q as [|j q'].
  - got. constructor; fields; easy_fields. intros _ i [].
  - got. constructor; fields; easy_fields.
  - got. constructor; fields; easy_fields. intros _ i [].
  - got. constructor; fields; easy_fields.
    cbn [length] in *. rewrite app_length. lia.
Qed.

Lemma inv_reacquire : forall s s', Inv s -> step s LReacquire = Some s' -> Inv s'.
Proof.
  start. destruct p as [| | | | | |md| | |]; try discriminate.
  destruct m; fields; try discriminate. got. constructor; fields; easy_fields.
Qed.

Lemma inv_waitunlock : forall s s', Inv s -> step s LWaitUnlock = Some s' -> Inv s'.
Proof.
  start. destruct p as [| | | | | | |md| |]; try discriminate. fields.
  assert (Hm : m = Some OEngine) by (apply Hme; reflexivity). subst m.
  destruct md; got; constructor; fields; easy_fields.
Qed.

Lemma inv_cancel : forall s s', Inv s -> step s LCancel = Some s' -> Inv s'.
Proof.
  start. destruct p; try discriminate. got. constructor; fields; easy_fields.
Qed.

Lemma inv_spurious : forall s s', Inv s -> step s LSpurious = Some s' -> Inv s'.
Proof.
  start. destruct p; try discriminate. got. constructor; fields; easy_fields.
Qed.

(* ---- completer steps *)

Ltac thr_start c0 :=
  start;
  match goal with
  | Hx : context [thread_is ?s ?i c0] |- _ =>
      destruct (thread_is s i c0) eqn:Hti; [|discriminate];
      apply thread_is_spec in Hti; cbn [threads] in Hti
  end.

Ltac by_cases j i :=
  destruct (Nat.eqb j i) eqn:E; [apply Nat.eqb_eq in E; subst j | apply Nat.eqb_neq in E].

Lemma inv_thrlock : forall i s s', Inv s -> step s (LThrLock i) = Some s' -> Inv s'.
Proof.
  intro i. thr_start CIdle. cbn [andb] in Hst. destruct m; fields; try discriminate. got.
  assert (Hni : ~ In i (q ++ c)) by (rewrite Hpu, Hti; discriminate).
  constructor; fields.
  - split; [discriminate|]. intro H. apply Hme in H. discriminate.
  - intro j. rewrite (class_upd holds_lock t i CIdle CHasLock j Hti). by_cases j i.
    + split; reflexivity.
    + split; [intro H; inversion H; congruence | intro H; apply Hmt in H; discriminate].
  - exact Hnd.
  - intro j. rewrite (class_upd has_pushed t i CIdle CHasLock j Hti). by_cases j i.
    + split; [intro H; now elim Hni | discriminate].
    + apply Hpu.
  - now rewrite upd_length.
  - intros Hw j Hj. rewrite (class_upd not_notified t i CIdle CHasLock j Hti). by_cases j i.
    + elim Hni. apply in_or_app. now left.
    + now apply Hwt.
  - exact Hout.
  - exact Hpk.
  - exact Hdn.
Qed.

Lemma inv_thrpush : forall i s s', Inv s -> step s (LThrPush i) = Some s' -> Inv s'.
Proof.
  intro i. thr_start CHasLock. got.
  assert (Hni : ~ In i (q ++ c)) by (rewrite Hpu, Hti; discriminate).
  assert (Hm : m = Some (OThread i)) by (apply Hmt; rewrite Hti; reflexivity).
  constructor; fields.
  - exact Hme.
  - intro j. rewrite (class_upd holds_lock t i CHasLock CPushed j Hti). by_cases j i.
    + split; [reflexivity | intros _; exact Hm].
    + apply Hmt.
  - constructor; assumption.
  - intro j. rewrite (class_upd has_pushed t i CHasLock CPushed j Hti). by_cases j i.
    + split; [reflexivity | intros _; now left].
    + split; [intros [H|H]; [congruence | now apply Hpu] | intro H; right; now apply Hpu].
  - now rewrite upd_length.
  - intros Hw j Hj. rewrite (class_upd not_notified t i CHasLock CPushed j Hti). by_cases j i.
    + reflexivity.
    + destruct Hj as [Hj|Hj]; [congruence | now apply Hwt].
  - exact Hout.
  - exact Hpk.
  - exact Hdn.
Qed.

Lemma inv_throunlock : forall i s s', Inv s -> step s (LThrUnlock i) = Some s' -> Inv s'.
Proof.
  intro i. thr_start CPushed. got.
  assert (Hin : In i (q ++ c)) by (apply Hpu; rewrite Hti; reflexivity).
  assert (Hm : m = Some (OThread i)) by (apply Hmt; rewrite Hti; reflexivity). subst m.
  constructor; fields.
  - split; [discriminate|]. intro H. apply Hme in H. discriminate.
  - intro j. rewrite (class_upd holds_lock t i CPushed CReleased j Hti). by_cases j i.
    + split; discriminate.
    + split; [discriminate | intro H; apply Hmt in H; inversion H; congruence].
  - exact Hnd.
  - intro j. rewrite (class_upd has_pushed t i CPushed CReleased j Hti). by_cases j i.
    + split; [reflexivity | intros _; exact Hin].
    + apply Hpu.
  - now rewrite upd_length.
  - intros Hw j Hj. rewrite (class_upd not_notified t i CPushed CReleased j Hti). by_cases j i.
    + reflexivity.
    + now apply Hwt.
  - exact Hout.
  - exact Hpk.
  - exact Hdn.
Qed.

Lemma inv_thrnotify : forall i s s', Inv s -> step s (LThrNotify i) = Some s' -> Inv s'.
Proof.
  intro i. thr_start CReleased. got.
  assert (Hin : In i (q ++ c)) by (apply Hpu; rewrite Hti; reflexivity).
  constructor; fields.
  - destruct p; exact Hme.
  - intro j. rewrite (class_upd holds_lock t i CReleased CDone j Hti). by_cases j i.
    + split; [intro H; apply Hmt in H; rewrite Hti in H; discriminate | discriminate].
    + apply Hmt.
  - exact Hnd.
  - intro j. rewrite (class_upd has_pushed t i CReleased CDone j Hti). by_cases j i.
    + split; [reflexivity | intros _; exact Hin].
    + apply Hpu.
  - now rewrite upd_length.
  - destruct p; discriminate.
  - destruct p; cbn [wake in_wait_block]; try discriminate. exact Hout.
  - destruct p; cbn [wake]; try discriminate. exact Hpk.
  - destruct p; cbn [wake]; try discriminate. exact Hdn.
Qed.

Theorem inv_step : forall s l s', Inv s -> step s l = Some s' -> Inv s'.
Proof.
  intros s l s' HI Hst. destruct l.
  - now apply (inv_spawn s).
  - now apply (inv_polllock s).
  - now apply (inv_poll s).
  - now apply (inv_continue s).
  - now apply (inv_exit s).
  - now apply (inv_cyclecontinue s).
  - now apply (inv_waitlock s).
  - now apply (inv_peek_step s).
  - now apply (inv_check s).
  - now apply (inv_reacquire s).
  - now apply (inv_waitunlock s).
  - now apply (inv_cancel s).
  - now apply (inv_spurious s).
  - now apply (inv_thrlock i s).
  - now apply (inv_thrpush i s).
  - now apply (inv_throunlock i s).
  - now apply (inv_thrnotify i s).
Qed.

Lemma inv_steps : forall ls s s', Inv s -> steps s ls = Some s' -> Inv s'.
Proof.
  induction ls as [|l t IH]; intros s s' HI Hst.
  - unfold steps in Hst. cbn [steps_gen] in Hst. inversion Hst; now subst.
  - unfold steps in Hst. cbn [steps_gen] in Hst.
    destruct (step_gen false s l) as [s1|] eqn:H1; [|discriminate].
    apply (IH s1 s'); [now apply (inv_step s l s1)|exact Hst].
Qed.

Theorem reachable_inv : forall s, reachable s -> Inv s.
Proof. intros s [ls Hls]. apply (inv_steps ls init s inv_init Hls). Qed.

(* ------------------------------------------------------------------ no lost wake-up *)

(* The invariant the proof needs: while the engine is blocked in wait, every element of the queue was pushed by a thread that
   has not yet called notify_one - so a wake-up for it is still to come. *)
Theorem no_lost_wakeup : forall s, reachable s ->
  forall m, pc s = EWaiting m ->
  forall i, In i (queue s) ->
  nth_error (threads s) i = Some CPushed \/ nth_error (threads s) i = Some CReleased.
Proof.
  intros s Hr m Hpc i Hi. pose proof (inv_wait s (reachable_inv s Hr)) as Hw.
  rewrite Hpc in Hw. specialize (Hw eq_refl i Hi).
  destruct (nth_error (threads s) i) as [[]|]; try discriminate; [now left | now right].
Qed.

(* never: engine asleep, queue non-empty, and no notification still to come *)
Corollary never_asleep_with_work : forall s, reachable s ->
  ~ (is_waiting (pc s) = true /\ queue s <> [] /\
     forall i, not_notified (nth_error (threads s) i) = false).
Proof.
  intros s Hr (Hw & Hq & Hall). destruct (pc s) as [| | | | |m| | | |] eqn:Hpc; try discriminate.
  destruct (queue s) as [|i q] eqn:Eq; [now elim Hq|].
  destruct (no_lost_wakeup s Hr m Hpc i) as [H|H]; [rewrite Eq; now left | |];
    specialize (Hall i); rewrite H in Hall; discriminate.
Qed.

Corollary never_asleep_all_done : forall s, reachable s ->
  ~ (is_waiting (pc s) = true /\ queue s <> [] /\ all_done s = true).
Proof.
  intros s Hr (Hw & Hq & Hall). apply (never_asleep_with_work s Hr). split; [exact Hw|]. split; [exact Hq|].
  intro i. destruct (nth_error (threads s) i) as [c|] eqn:Hi; [|reflexivity].
  unfold all_done in Hall. rewrite forallb_forall in Hall.
  specialize (Hall c (nth_error_In _ _ Hi)). apply cstate_eqb_eq in Hall. now subst.
Qed.

Lemma exists_fresh : forall (l : list nat) n, length l < n -> exists j, j < n /\ ~ In j l.
Proof.
  intros l n Hlt.
  destruct (find (fun j => negb (existsb (Nat.eqb j) l)) (seq 0 n)) as [j|] eqn:F.
  - apply find_some in F. destruct F as [Hin Hneg]. apply in_seq in Hin. exists j. split; [lia|].
    intro Hj. apply negb_true_iff in Hneg.
    assert (Hex : existsb (Nat.eqb j) l = true) by (apply existsb_exists; exists j; split; [exact Hj | apply Nat.eqb_refl]).
    rewrite Hex in Hneg. discriminate.
  - assert (Hincl : incl (seq 0 n) l).
    { intros j Hj. pose proof (find_none _ _ F j Hj) as Hn. cbn beta in Hn. apply negb_false_iff in Hn.
      apply existsb_exists in Hn. destruct Hn as (k & Hk & Ek). apply Nat.eqb_eq in Ek. now subst. }
    pose proof (NoDup_incl_length (seq_NoDup n 0) Hincl) as Hlen. rewrite seq_length in Hlen. lia.
Qed.

(* the engine only ever sleeps while some completer still has its notify_one ahead of it *)
Theorem waiting_has_waker : forall s, reachable s -> is_waiting (pc s) = true ->
  exists j c, nth_error (threads s) j = Some c /\ c <> CDone.
Proof.
  intros s Hr Hw. pose proof (reachable_inv s Hr) as HI.
  destruct (queue s) as [|i q] eqn:Eq.
  - assert (Ho : outstanding s <> 0) by (apply (inv_out s HI); destruct (pc s); try discriminate; reflexivity).
    pose proof (inv_count s HI) as Hc.
    destruct (exists_fresh (consumed s) (length (threads s))) as (j & Hj & Hnj); [lia|].
    destruct (nth_error (threads s) j) as [c|] eqn:Hn; [|apply nth_error_None in Hn; lia].
    exists j, c. split; [exact Hn|]. intro E; subst c.
    apply Hnj. pose proof (proj2 (inv_pushed s HI j)) as Hp. rewrite Hn, Eq in Hp. apply (Hp eq_refl).
  - destruct (pc s) as [| | | | |m| | | |] eqn:Hpc; try discriminate.
    destruct (no_lost_wakeup s Hr m Hpc i) as [H|H]; [rewrite Eq; now left | |].
    + exists i, CPushed. split; [exact H | discriminate].
    + exists i, CReleased. split; [exact H | discriminate].
Qed.

(* ------------------------------------------------------------------ the broken variant loses a wake-up *)

Definition broken_witness : list label :=
  [LSpawn; LPollLock; LPoll; LContinue; LPollLock; LPoll; LPeek; LThrLock 0; LThrPush 0; LThrUnlock 0; LThrNotify 0; LWaitLock; LCheck].

Theorem broken_variant_loses_wakeup :
  exists s, reachable_broken s /\ pc s = EWaiting Main /\ queue s <> [] /\ all_done s = true /\ outstanding s = 1.
Proof.
  exists (mkState (EWaiting Main) None [0] [CDone] 1 []).
  split; [exists broken_witness; vm_compute; reflexivity|].
  split; [reflexivity|]. split; [discriminate|]. split; reflexivity.
Qed.

(* the same label sequence is not a behaviour of the code as it is: LPeek is not a step of the real engine *)
Lemma broken_witness_rejected : steps init broken_witness = None.
Proof. vm_compute. reflexivity. Qed.

(* ------------------------------------------------------------------ progress *)

Definition Goal (i : nat) (s : state) : Prop :=
  exists ls s', forallb internal ls = true /\ steps s ls = Some s' /\ In i (consumed s').

Lemma goal_now : forall i s, In i (consumed s) -> Goal i s.
Proof. intros i s H. exists [], s. split; [reflexivity|]. split; [reflexivity|exact H]. Qed.

Lemma goal_step : forall i s l s', internal l = true -> step s l = Some s' -> Goal i s' -> Goal i s.
Proof.
  intros i s l s' Hl Hst (ls & s2 & Hi & Hs & Hin). exists (l :: ls), s2.
  split; [cbn [forallb]; now rewrite Hl, Hi|]. split; [|exact Hin].
  unfold steps. cbn [steps_gen]. unfold step in Hst. rewrite Hst. exact Hs.
Qed.

Lemma goal_run : forall i q dw t o c, In i q -> Goal i (mkState (ERun dw) None q t o c).
Proof.
  intros i q. induction q as [|j q' IH]; intros dw t o c Hin; [now elim Hin|].
  apply (goal_step i _ LPollLock (mkState (EPollLocked dw) (Some OEngine) (j :: q') t o c)); [reflexivity|reflexivity|].
  apply (goal_step i _ LPoll (mkState (ERun true) None q' t (o - 1) (j :: c))); [reflexivity|reflexivity|].
  destruct Hin as [E|Hin].
  - subst j. apply goal_now. now left.
  - now apply IH.
Qed.

Lemma goal_drain : forall i q t o c, In i q -> length q + length c <= length t -> o + length c = length t ->
  Goal i (mkState EDrain None q t o c).
Proof.
  intros i q t o c Hin Hsb Hct. destruct q as [|j q']; [now elim Hin|]. cbn [length] in Hsb.
  destruct o as [|o']; [lia|].
  apply (goal_step i _ LWaitLock (mkState (EWaitLocked Drain) (Some OEngine) (j :: q') t (S o') c)); [reflexivity|reflexivity|].
  apply (goal_step i _ LCheck (mkState (EWaitExit Drain) (Some OEngine) [] t (S o' - length (j :: q')) ((j :: q') ++ c)));
    [reflexivity|reflexivity|].
  apply goal_now. cbn [consumed]. apply in_or_app. now left.
Qed.

(* the engine running alone takes a queued element out, provided its completer is Done (so the engine is not asleep) *)
Lemma goal_engine_alone : forall i s, Inv s -> mutex s = None -> In i (queue s) ->
  nth_error (threads s) i = Some CDone -> Goal i s.
Proof.
  intros i s HI Hm Hin Hdone. pose proof (inv_seen_bound s HI) as Hsb.
  destruct HI as [Hme Hmt Hnd Hpu Hct Hwt Hout Hpk Hdn].
  destruct s as [p m q t o c]. fields. subst m.
  assert (Hq : length q <> 0) by (destruct q; [now elim Hin | discriminate]).
  destruct p as [dw|dw|dw| |md|md|md|md| |]; fields.
  - now apply goal_run.
  - assert (E : @None owner = Some OEngine) by (apply Hme; reflexivity). discriminate.
  - destruct dw.
    + apply (goal_step i _ LContinue (mkState (ERun false) None q t o c)); [reflexivity|reflexivity|]. now apply goal_run.
    + destruct o as [|o']; [lia|]. destruct q as [|j q']; [now elim Hin|].
      apply (goal_step i _ LWaitLock (mkState (EWaitLocked Main) (Some OEngine) (j :: q') t (S o') c)); [reflexivity|reflexivity|].
      apply (goal_step i _ LCheck (mkState (EWaitExit Main) (Some OEngine) (j :: q') t (S o') c)); [reflexivity|reflexivity|].
      apply (goal_step i _ LWaitUnlock (mkState (ERun false) None (j :: q') t (S o') c)); [reflexivity|reflexivity|].
      now apply goal_run.
  - now elim Hpk.
  - assert (E : @None owner = Some OEngine) by (apply Hme; reflexivity). discriminate.
  - specialize (Hwt eq_refl i Hin). rewrite Hdone in Hwt. discriminate.
  - apply (goal_step i _ LReacquire (mkState (EWaitExit md) (Some OEngine) q t o c)); [reflexivity|reflexivity|].
    destruct md.
    + apply (goal_step i _ LWaitUnlock (mkState (ERun false) None q t o c)); [reflexivity|reflexivity|]. now apply goal_run.
    + apply (goal_step i _ LWaitUnlock (mkState EDrain None q t o c)); [reflexivity|reflexivity|]. now apply goal_drain.
  - assert (E : @None owner = Some OEngine) by (apply Hme; reflexivity). discriminate.
  - now apply goal_drain.
  - specialize (Hdn eq_refl). lia.
Qed.

(* explicit forms of the completer steps *)
Lemma step_thrlock : forall s j, nth_error (threads s) j = Some CIdle -> mutex s = None ->
  step s (LThrLock j) = Some (mkState (pc s) (Some (OThread j)) (queue s) (upd j CHasLock (threads s)) (outstanding s) (consumed s)).
Proof.
  intros s j Hj Hm. unfold step, step_gen. rewrite (proj2 (thread_is_spec s j CIdle) Hj), Hm. reflexivity.
Qed.
Lemma step_thrpush : forall s j, nth_error (threads s) j = Some CHasLock ->
  step s (LThrPush j) = Some (mkState (pc s) (mutex s) (j :: queue s) (upd j CPushed (threads s)) (outstanding s) (consumed s)).
Proof.
  intros s j Hj. unfold step, step_gen. rewrite (proj2 (thread_is_spec s j CHasLock) Hj). reflexivity.
Qed.
Lemma step_thrunlock : forall s j, nth_error (threads s) j = Some CPushed ->
  step s (LThrUnlock j) = Some (mkState (pc s) None (queue s) (upd j CReleased (threads s)) (outstanding s) (consumed s)).
Proof.
  intros s j Hj. unfold step, step_gen. rewrite (proj2 (thread_is_spec s j CPushed) Hj). reflexivity.
Qed.
Lemma step_thrnotify : forall s j, nth_error (threads s) j = Some CReleased ->
  step s (LThrNotify j) = Some (mkState (wake (pc s)) (mutex s) (queue s) (upd j CDone (threads s)) (outstanding s) (consumed s)).
Proof.
  intros s j Hj. unfold step, step_gen. rewrite (proj2 (thread_is_spec s j CReleased) Hj). reflexivity.
Qed.

Lemma engine_holds_wake : forall p, engine_holds (wake p) = engine_holds p.
Proof. destruct p; reflexivity. Qed.

(* phase A: the engine leaves its critical section *)
Lemma release_engine : forall i s, Inv s ->
  (forall s', Inv s' -> engine_holds (pc s') = false -> length (threads s') = length (threads s) -> Goal i s') ->
  Goal i s.
Proof.
  intros i s HI K.
  destruct (engine_holds (pc s)) eqn:Hh; [|now apply K].
  assert (Hm : mutex s = Some OEngine) by (now apply (inv_mx_eng s HI)).
  assert (Hunlock : forall s1 md, Inv s1 -> pc s1 = EWaitExit md -> length (threads s1) = length (threads s) -> Goal i s1).
  { intros s1 md HI1 Hpc1 Hlen1.
    assert (Hs : exists s2, step s1 LWaitUnlock = Some s2 /\ engine_holds (pc s2) = false /\ threads s2 = threads s1).
    { unfold step, step_gen. rewrite Hpc1. destruct md; eexists; (split; [reflexivity|]); split; reflexivity. }
    destruct Hs as (s2 & Hst & Hh2 & Ht2).
    apply (goal_step i s1 LWaitUnlock s2); [reflexivity|exact Hst|].
    apply K; [now apply (inv_step s1 LWaitUnlock s2)|exact Hh2|now rewrite Ht2]. }
  destruct (pc s) as [dw|dw|dw| |md|md|md|md| |] eqn:Hpc; try discriminate.
  - assert (Hs : exists s2, step s LPoll = Some s2 /\ engine_holds (pc s2) = false /\ threads s2 = threads s).
    { unfold step, step_gen. rewrite Hpc. destruct (queue s); eexists; (split; [reflexivity|]); split; reflexivity. }
    destruct Hs as (s2 & Hst & Hh2 & Ht2).
    apply (goal_step i s LPoll s2); [reflexivity|exact Hst|].
    apply K; [now apply (inv_step s LPoll s2)|exact Hh2|now rewrite Ht2].
  - assert (Hs : exists s2, step s LCheck = Some s2 /\ threads s2 = threads s /\
                            (engine_holds (pc s2) = false \/ exists md', pc s2 = EWaitExit md')).
    { unfold step, step_gen. rewrite Hpc. cbn match.
      destruct md; destruct (queue s); eexists; (split; [reflexivity|]); (split; [reflexivity|]);
        solve [left; reflexivity | right; eexists; reflexivity]. }
    destruct Hs as (s2 & Hst & Ht2 & Hcase).
    apply (goal_step i s LCheck s2); [reflexivity|exact Hst|].
    pose proof (inv_step s LCheck s2 HI Hst) as HI2.
    destruct Hcase as [Hh2|(md' & Hpc2)].
    + apply K; [exact HI2|exact Hh2|now rewrite Ht2].
    + apply (Hunlock s2 md' HI2 Hpc2). now rewrite Ht2.
  - now apply (Hunlock s md HI Hpc).
Qed.

(* phase B: every completer runs to the end (the engine holds no lock, so each of them can take the mutex in turn) *)
Lemma finish_threads : forall i n s, work (threads s) <= n -> Inv s -> engine_holds (pc s) = false ->
  (forall s', Inv s' -> engine_holds (pc s') = false -> work (threads s') = 0 ->
              length (threads s') = length (threads s) -> Goal i s') ->
  Goal i s.
Proof.
  intros i n. induction n as [|n IH]; intros s Hw HI Hh K.
  - apply K; [exact HI|exact Hh|lia|reflexivity].
  - destruct (Nat.eq_dec (work (threads s)) 0) as [Hz|Hnz]; [apply K; [exact HI|exact Hh|exact Hz|reflexivity]|].
    (* one completer step that decreases the work *)
    assert (Hs : exists l s1, internal l = true /\ step s l = Some s1 /\ engine_holds (pc s1) = false /\
                              work (threads s1) < work (threads s) /\ length (threads s1) = length (threads s)).
    { destruct (mutex s) as [[|j]|] eqn:Hm.
      - apply (inv_mx_eng s HI) in Hm. rewrite Hm in Hh. discriminate.
      - pose proof (proj1 (inv_mx_thr s HI j) Hm) as Hl.
        destruct (nth_error (threads s) j) as [[]|] eqn:Hj; try discriminate.
        + exists (LThrPush j). eexists. split; [reflexivity|]. split; [apply (step_thrpush s j Hj)|].
          cbn [pc threads]. split; [exact Hh|]. split; [apply (work_upd_lt _ _ _ _ Hj); cbn; lia | apply upd_length].
        + exists (LThrUnlock j). eexists. split; [reflexivity|]. split; [apply (step_thrunlock s j Hj)|].
          cbn [pc threads]. split; [exact Hh|]. split; [apply (work_upd_lt _ _ _ _ Hj); cbn; lia | apply upd_length].
      - destruct (work_pos_exists (threads s) Hnz) as (j & a & Hj & Ha).
        destruct a.
        + exists (LThrLock j). eexists. split; [reflexivity|]. split; [apply (step_thrlock s j Hj Hm)|].
          cbn [pc threads]. split; [exact Hh|]. split; [apply (work_upd_lt _ _ _ _ Hj); cbn; lia | apply upd_length].
        + pose proof (proj2 (inv_mx_thr s HI j)) as Hx. rewrite Hj, Hm in Hx. specialize (Hx eq_refl). discriminate.
        + pose proof (proj2 (inv_mx_thr s HI j)) as Hx. rewrite Hj, Hm in Hx. specialize (Hx eq_refl). discriminate.
        + exists (LThrNotify j). eexists. split; [reflexivity|]. split; [apply (step_thrnotify s j Hj)|].
          cbn [pc threads]. split; [now rewrite engine_holds_wake|].
          split; [apply (work_upd_lt _ _ _ _ Hj); cbn; lia | apply upd_length].
        + now elim Ha. }
    destruct Hs as (l & s1 & Hil & Hst & Hh1 & Hw1 & Hl1).
    apply (goal_step i s l s1 Hil Hst).
    apply IH; [lia|now apply (inv_step s l s1)|exact Hh1|].
    intros s' HI' Hh' Hw' Hl'. apply K; [exact HI'|exact Hh'|exact Hw'|congruence].
Qed.

(* No deadlock in the handshake: from ANY reachable state, every completion that has been started (thread i exists) is
   taken out of the queue by the engine after finitely many steps that the engine and the completers take on their own -
   without spurious wake-ups, without new tasks, without cancellation. *)
Theorem progress : forall s i, reachable s -> i < length (threads s) ->
  exists ls s', forallb internal ls = true /\ steps s ls = Some s' /\ In i (consumed s').
Proof.
  intros s i Hr Hi. change (Goal i s). pose proof (reachable_inv s Hr) as HI.
  apply (release_engine i s HI). intros s1 HI1 Hh1 Hl1.
  apply (finish_threads i (work (threads s1)) s1 (le_n _) HI1 Hh1). intros s2 HI2 Hh2 Hw2 Hl2.
  assert (Hi2 : i < length (threads s2)) by lia.
  destruct (nth_error (threads s2) i) as [a|] eqn:Ha; [|apply nth_error_None in Ha; lia].
  assert (a = CDone) by (apply (work_zero_all_done _ Hw2 i a Ha)). subst a.
  assert (Hin : In i (queue s2 ++ consumed s2)) by (apply (inv_pushed s2 HI2); rewrite Ha; reflexivity).
  apply in_app_or in Hin. destruct Hin as [Hq|Hc]; [|now apply goal_now].
  apply (goal_engine_alone i s2 HI2); [|exact Hq|exact Ha].
  destruct (mutex s2) as [[|j]|] eqn:Hm; [| |reflexivity].
  - apply (inv_mx_eng s2 HI2) in Hm. rewrite Hm in Hh2. discriminate.
  - pose proof (proj1 (inv_mx_thr s2 HI2 j) Hm) as Hl.
    destruct (nth_error (threads s2) j) as [b|] eqn:Hb; [|discriminate].
    rewrite (work_zero_all_done _ Hw2 j b Hb) in Hl. discriminate.
Qed.

(* non-vacuity: a reachable state with the engine asleep, one completer between push and notify, one not started *)
Definition demo_labels : list label :=
  [LSpawn; LSpawn; LPollLock; LPoll; LContinue; LPollLock; LPoll; LWaitLock; LCheck; LThrLock 1; LThrPush 1; LThrUnlock 1].
Example demo_reachable :
  reachable (mkState (EWaiting Main) None [1] [CIdle; CReleased] 2 []).
Proof. exists demo_labels. vm_compute. reflexivity. Qed.
