(* P19 - part 13: every step preserves the invariant; it holds when a build starts; the waitCount identity and fault freedom. *)
From LLB Require Import Engine.Rules Engine.Spec Engine.Impl Engine.ImplProofs Engine.ImplProofsSticky Engine.ImplProofsInv Engine.ImplProofsInv2
  Engine.ImplProofsInv3 Engine.ImplProofsInv4 Engine.ImplProofsInv5 Engine.ImplProofsInv6 Engine.ImplProofsInv7 Engine.ImplProofsInv8.
From Coq Require Import Arith Lia.
Local Open Scope N_scope.

Lemma Inv_step_fintask rules c s : cx_slack c = 0%nat -> Inv rules c s -> Inv rules c (step_fintask s).
Proof.
  intros Hsl HI. unfold step_fintask. destruct (is_fintasks s) as [|t rest] eqn:Hq; auto.
  pose proof HI as (Hn & HT & _).
  destruct (t_ft c s HT t) as (ti & Hg & Hk & _); [rewrite Hq; now left|].
  eapply Inv_retired; eauto. apply finish_task_retired; auto. apply HT.
  intros k. destruct (N.eq_dec k t) as [->|Hne]; [left; rewrite Hk; discriminate|now right].
Qed.

Section Steps.
Variable rules : key -> rule.
Variable env : key -> N.
Variable F : key -> N -> list value -> list N -> N -> N.
Variable ord : key -> list rkind.
Variable syncp : key -> bool.

Lemma Inv_mstep s s' : mstep rules env F ord syncp s s' -> Inv rules ctx0 s -> Inv rules ctx0 s'.
Proof.
  intros H HI. destruct H.
  - now apply Inv_task_finish.
  - now apply Inv_step_scan.
  - now apply Inv_step_inreq.
  - now apply Inv_step_fininreq.
  - now apply Inv_step_ready.
  - now apply Inv_step_fintask.
Qed.

Lemma Inv_msteps s s' : msteps rules env F ord syncp s s' -> Inv rules ctx0 s -> Inv rules ctx0 s'.
Proof. induction 1; auto. intros HI. eapply Inv_mstep; eauto. Qed.
End Steps.

(* ---------- the state at the start of a build ---------- *)
Lemma Inv_quiescent rules s : quiescent s -> Inv rules ctx0 (upd_fininreq s []).
Proof.
  intros (Q1 & Q2 & Q3 & Q4 & Q5 & Q6 & Q7 & Q8 & Q9).
  assert (Hsum : forall g : rinfo -> nat, (forall ri, ri_paused ri = [] -> ri_deferred ri = [] -> g ri = 0%nat) -> asum g (is_rules s) = 0%nat).
  { intros g Hg. apply asum_zero. intros k ri Hin. pose proof (in_aget_nodup _ _ _ Q8 Hin) as Ha.
    destruct (Q9 k) as (_ & _ & _ & Hp & Hd). rewrite (rinfo_of_some s k ri Ha) in Hp, Hd. now apply Hg. }
  set (s' := upd_fininreq s []).
  assert (R : forall k, rinfo_of s' k = rinfo_of s k) by reflexivity.
  assert (T : is_tasks s' = []) by exact Q1.
  assert (K : forall k, kind_of s' k = kind_of s k) by reflexivity.
  split; [exact Q7|]. split; [|split].
  - constructor.
    + exact Q8.
    + rewrite T. constructor.
    + change (is_ready s') with (is_ready s). rewrite Q4. constructor.
    + change (is_fintasks s') with (is_fintasks s). rewrite Q5. constructor.
    + intros t0. rewrite T. cbn [aget]. split; [intros H; now contradiction H|]. unfold is_in_progress. rewrite K.
      destruct (Q9 t0) as (_ & H2 & H3 & _). destruct (kind_of s t0); try discriminate; contradiction.
    + intros t0 ti. rewrite T. discriminate.
    + intros t0. change (is_ready s') with (is_ready s). rewrite Q4. intros [].
    + intros t0 ti. rewrite T. discriminate.
    + intros t0. change (is_fintasks s') with (is_fintasks s). rewrite Q5. intros [].
    + intros t0 ti. rewrite T. discriminate.
    + change (is_outstanding s') with (is_outstanding s). rewrite Q6. unfold n_computing. rewrite T. reflexivity.
  - constructor.
    + intros t0 ti. rewrite T. discriminate.
    + constructor.
    + change (is_inreq s') with (is_inreq s). rewrite Q3. constructor.
    + intros k. rewrite R. destruct (Q9 k) as (_ & _ & _ & Hp & _). rewrite Hp. constructor.
    + intros t0 ti. rewrite T. discriminate.
    + constructor.
    + intros k _. rewrite R. now destruct (Q9 k) as (_ & _ & _ & Hp & _).
    + intros k rq. rewrite R. destruct (Q9 k) as (_ & _ & _ & Hp & _). rewrite Hp. intros [].
    + intros t0 ti rq. rewrite T. discriminate.
    + intros rq [].
  - constructor.
    + intros k. unfold scan_count. change (is_toscan s') with (is_toscan s). change (is_rules s') with (is_rules s). rewrite T, Q2. cbn [asum ctx0 cx_fs].
      rewrite Hsum; [|intros ri _ Hd; now rewrite Hd]. rewrite K. destruct (Q9 k) as (H1 & _). apply kind_eqb_neq in H1. rewrite H1. reflexivity.
    + constructor.
    + change (is_toscan s') with (is_toscan s). rewrite Q2. constructor.
    + intros k. rewrite R. destruct (Q9 k) as (_ & _ & _ & _ & Hd). rewrite Hd. constructor.
    + intros t0 ti. rewrite T. discriminate.
    + intros k _. rewrite R. now destruct (Q9 k) as (_ & _ & _ & _ & Hd).
    + intros k rq. rewrite R. destruct (Q9 k) as (_ & _ & _ & _ & Hd). rewrite Hd. intros [].
    + intros t0 ti rq. rewrite T. discriminate.
Qed.

Lemma Inv_push_dummy rules c s rq : iq_task rq = None -> Inv rules c s -> Inv rules c (push_inreq s rq).
Proof.
  intros Hd (Hn & HT & HI & HS). split; [now apply nf_push_inreq|]. split; [now apply InvT_push_inreq|]. split; [|now apply InvS_push_inreq].
  destruct HI as [B1 B2 B3 B4 B5 B6 B7 B8 B9 B10]. constructor; autorewrite with iv; auto.
  - intros t ti Hg. rewrite (B1 t ti Hg). unfold outstanding_count. autorewrite with iv. rewrite cnt_i_app, cnt_i_cons, cnt_i_nil. unfold for_task. rewrite Hd. lia.
  - apply Forall_app. split; auto. constructor; [|constructor]. intros t Ht. rewrite Hd in Ht. discriminate.
Qed.

Lemma quiescent_bump_emit s e : quiescent s -> quiescent (iemit (bump s) e).
Proof. intros Q. exact Q. Qed.

Lemma Inv_start rules s root : quiescent s -> Inv rules ctx0 (start_build (iemit (bump s) (EBuildStart root)) root).
Proof.
  intros Q. unfold start_build. apply Inv_push_dummy; [reflexivity|]. apply Inv_touch. apply Inv_quiescent. now apply quiescent_bump_emit.
Qed.

Section Theorems.
Variable rules : key -> rule.
Variable env : key -> N.
Variable F : key -> N -> list value -> list N -> N -> N.
Variable ord : key -> list rkind.
Variable syncp : key -> bool.

Notation in_build := (in_build rules env F ord syncp).

Lemma in_build_Inv s0 root s : in_build s0 root s -> Inv rules ctx0 s.
Proof. intros [Q M]. eapply Inv_msteps; eauto. now apply Inv_start. Qed.

(* no assert of the code fails *)
Theorem no_fault s0 root s : in_build s0 root s -> is_fault s = None.
Proof. intros H. apply in_build_Inv in H. apply H. Qed.

(* the waitCount identity *)
Theorem waitcount s0 root s : in_build s0 root s ->
  forall t ti, aget (is_tasks s) t = Some ti -> ti_wait ti = outstanding_count s t.
Proof.
  intros H t ti Hg. apply in_build_Inv in H. destruct H as (_ & _ & HI & _). rewrite (i_wc rules ctx0 s HI t ti Hg). reflexivity.
Qed.
End Theorems.
