(* C02, part 6: a set of rules that is "settled" (built, unflagged, same signature, valid, closed under recorded
   dependencies, no dependency computed after its dependent was built) is brought up to date without executing
   anything, and stays settled. *)
From LLB Require Import Engine.Rules Engine.Spec Engine.SpecOnceFrame Engine.SpecOnce1 Engine.SpecOnce3.
From Coq Require Import List NArith Bool Lia Arith.
Local Open Scope N_scope.

Section Settled.
Variable rules : key -> rule.
Variable env : key -> N.
Variable S : key -> Prop.

Definition settled_at (s : state) (x : key) : Prop :=
  let r := get (st_mem s) x in
  res_builtAt r <> 0 /\ flagged s x = false /\ r_sig (rules x) = res_sig r /\ valid rules env x r = true /\
  res_builtAt r <= st_epoch s /\
  forall d, In d (drop_single (res_deps r)) ->
    S (d_key d) /\ (d_order d = true \/ res_computedAt (get (st_mem s) (d_key d)) <= res_builtAt r).

Definition settled (s : state) : Prop := forall x, S x -> settled_at s x.

Lemma settled_same : forall s s', st_mem s' = st_mem s -> st_epoch s' = st_epoch s -> st_flag s' = st_flag s ->
  settled s -> settled s'.
Proof.
  intros s s' M E Fl H x Hx. specialize (H x Hx). unfold settled_at, flagged in *. rewrite M, E, Fl. exact H.
Qed.

Lemma settled_upd : forall s k r', settled s ->
  res_value r' = res_value (get (st_mem s) k) -> res_sig r' = res_sig (get (st_mem s) k) ->
  res_computedAt r' = res_computedAt (get (st_mem s) k) ->
  drop_single (res_deps r') = drop_single (res_deps (get (st_mem s) k)) ->
  res_builtAt (get (st_mem s) k) <= res_builtAt r' -> res_builtAt r' <= st_epoch s ->
  settled (set_mem s k r').
Proof.
  intros s k r' H Ev Es Ec Ed Eb1 Eb2 x Hx. specialize (H x Hx). unfold settled_at in *. cbn [set_mem st_mem st_epoch].
  assert (G : forall y, res_computedAt (get (update (st_mem s) k r') y) = res_computedAt (get (st_mem s) y)).
  { intros y. destruct (N.eq_dec y k) as [->|Hy]; [now rewrite get_update_same | now rewrite get_update_other]. }
  destruct H as (H1 & H2 & H3 & H4 & H5 & H6).
  destruct (N.eq_dec x k) as [->|Hxk].
  - rewrite get_update_same. split; [lia|]. split; [exact H2|]. split; [now rewrite Es|].
    split; [unfold valid in *; now rewrite Ev|]. split; [exact Eb2|].
    intros d Hd. rewrite G. rewrite Ed in Hd. destruct (H6 d Hd) as [A [B|B]]; (split; [exact A|]); [now left | right; lia].
  - rewrite get_update_other by exact Hxk. repeat (split; [assumption|]). intros d Hd. rewrite G. now apply H6.
Qed.

Lemma settled_clean : forall s k, settled s -> S k -> settled (set_mem s k (clean (get (st_mem s) k))).
Proof.
  intros s k H Hk. destruct (H k Hk) as (_ & _ & _ & _ & H5 & _).
  apply settled_upd.
  - exact H.
  - reflexivity.
  - reflexivity.
  - reflexivity.
  - unfold clean. cbn [res_deps]. apply drop_single_idem.
  - unfold clean. cbn [res_builtAt]. lia.
  - unfold clean. cbn [res_builtAt]. exact H5.
Qed.

Lemma settled_validate : forall s k, settled s -> S k ->
  settled (set_mem s k (let r := get (st_mem s) k in mkRes (res_value r) (res_sig r) (res_computedAt r) (st_epoch s) (res_deps r))).
Proof.
  intros s k H Hk. cbv zeta. destruct (H k Hk) as (_ & _ & _ & _ & H5 & _).
  apply settled_upd.
  - exact H.
  - reflexivity.
  - reflexivity.
  - reflexivity.
  - reflexivity.
  - cbn [res_builtAt]. exact H5.
  - cbn [res_builtAt]. lia.
Qed.

Definition null_o (s : state) (o : outcome) : Prop :=
  forall s', ostate o = Some s' -> exists l, st_log s' = l ++ st_log s /\ creates l = [] /\ settled s'.

Section Step.
Variable F : key -> N -> list value -> list N -> N -> N.
Variable order : N -> key -> list dep -> list dep.
Variable ens : list key -> state -> key -> outcome.
Hypothesis Hens : forall stack s k, frame stack s k (ens stack s k).
Hypothesis Hnull : forall stack s k, S k -> settled s -> null_o s (ens stack s k).

Lemma scan_null : forall k stack r ds s0 s l0, st_log s = l0 ++ st_log s0 -> creates l0 = [] ->
  settled s -> S k -> get (st_mem s) k = r -> drop_single (res_deps r) = res_deps r -> incl ds (res_deps r) ->
  null_o s0 (scan rules env F order ens k stack r ds s).
Proof.
  intros k stack r ds. induction ds as [|d ds IH]; intros s0 s l0 L0 C0 Hs Hk Hr Hcl Hincl; cbn [scan].
  - intros s' E. inversion E. subst s'. exists l0. split; [exact L0|]. split; [exact C0|].
    pose proof (settled_validate s k Hs Hk) as V. cbv zeta in V. rewrite Hr in V. exact V.
  - assert (Hd : In d (drop_single (res_deps r))) by (rewrite Hcl; apply Hincl; now left).
    pose proof (Hs k Hk) as Kk. unfold settled_at in Kk. rewrite Hr in Kk.
    destruct Kk as (_ & _ & _ & _ & _ & K6). destruct (K6 d Hd) as [Sd _].
    pose proof (Hnull (k :: stack) s (d_key d) Sd Hs) as N1. destruct (Hens (k :: stack) s (d_key d)) as [A _].
    destruct (ens (k :: stack) s (d_key d)) as [s1|s1 p|] eqn:Ec.
    + destruct (N1 s1 eq_refl) as (l1 & L1 & C1 & Hs1). cbn [frame_o] in A.
      assert (Hr1 : get (st_mem s1) k = r) by (rewrite (fr_stack _ _ _ _ _ A k) by (now left); exact Hr).
      pose proof (Hs1 k Hk) as Kk1. unfold settled_at in Kk1. rewrite Hr1 in Kk1.
      destruct Kk1 as (_ & _ & _ & _ & _ & K6'). destruct (K6' d Hd) as [_ Q].
      assert (T : negb (d_order d) && (res_builtAt r <? res_computedAt (get (st_mem s1) (d_key d))) = false).
      { destruct Q as [Q|Q]; [now rewrite Q | apply N.ltb_ge in Q; rewrite Q; apply andb_false_r]. }
      rewrite T. eapply (IH s0 s1 (l1 ++ l0)); try assumption.
      * rewrite L1, L0. now rewrite app_assoc.
      * rewrite creates_app, C1, C0. reflexivity.
      * intros y Hy. apply Hincl. now right.
    + intros s' E. cbn [ostate] in E. inversion E. subst s'.
      destruct (N1 s1 eq_refl) as (l1 & L1 & C1 & Hs1). exists (l1 ++ l0).
      split; [rewrite L1, L0; now rewrite app_assoc|]. split; [|exact Hs1]. rewrite creates_app, C1, C0. reflexivity.
    + intros s' E. discriminate.
Qed.

Lemma ensure_body_null : forall stack s k, S k -> settled s ->
  null_o s (ensure_body rules env F order ens stack s k).
Proof.
  intros stack s k Hk Hs. unfold ensure_body.
  destruct (existsb (N.eqb k) stack).
  { intros s' E. inversion E. subst. exists []. split; [reflexivity|]. split; [reflexivity | exact Hs]. }
  destruct (N.eqb (res_builtAt (get (st_mem s) k)) (st_epoch s)).
  { intros s' E. inversion E. subst. exists []. split; [reflexivity|]. split; [reflexivity | exact Hs]. }
  pose proof (Hs k Hk) as Kk. unfold settled_at in Kk. destruct Kk as (K1 & K2 & K3 & K4 & K5 & K6).
  set (r0 := get (st_mem s) k) in *. fold (clean r0). set (r := clean r0). set (s1 := set_mem s k r).
  change (res_builtAt r) with (res_builtAt r0). change (res_sig r) with (res_sig r0).
  change (flagged s1 k) with (flagged s k). change (valid rules env k r) with (valid rules env k r0).
  apply N.eqb_neq in K1. rewrite K1, K2, K3, N.eqb_refl, K4. cbn [negb].
  eapply scan_null with (l0 := [EValid k true]); try reflexivity; try assumption.
  - apply (settled_same s1); try reflexivity. unfold s1, r, r0. now apply settled_clean.
  - unfold s1. cbn [emit set_mem st_mem]. now rewrite get_update_same.
  - unfold r, clean. cbn [res_deps]. apply drop_single_idem.
  - apply incl_refl.
Qed.

End Step.

Variable F : key -> N -> list value -> list N -> N -> N.
Variable order : N -> key -> list dep -> list dep.

Theorem ensure_null : forall fuel stack s k, S k -> settled s -> null_o s (ensure rules env F order fuel stack s k).
Proof.
  induction fuel as [|f IH]; intros stack s k Hk Hs; cbn [ensure].
  - intros s' E. discriminate.
  - apply ensure_body_null; try assumption. apply ensure_frame.
Qed.

End Settled.
