(* P19b - values, part 7: the values of a first build do not depend on the schedule; non-vacuity (the 6-rule set). *)
From LLB Require Import Engine.Rules Engine.Spec Engine.SpecInv1 Engine.SpecC01 Engine.Exec Engine.Impl Engine.ImplProofs Engine.ImplProofsExamples
  Engine.ImplVal1 Engine.ImplVal6.
From Coq Require Import Arith Lia.
Local Open Scope N_scope.

Section Indep.
Variable rules : key -> rule.
Variable env : key -> N.
Variable ord : key -> list rkind.
Variable F : key -> N -> list value -> list N -> N -> N.
Variable rank : key -> nat.
Hypothesis Hrank : wf_rank rules rank.
Hypothesis Hord : forall k, In RReq (ord k).

(* Stage 2: two first builds of the same key under any two schedules (completion policy, completion order, fuel) that both return a value
   store the same value for the requested key and for every key both completed *)
Theorem values_schedule_independent syncp1 syncp2 fuel1 pfuel1 fuel2 pfuel2 s0 root sched1 sched2 sf1 m1 sf2 m2 : fresh s0 ->
  ibuild rules env F ord syncp1 fuel1 pfuel1 s0 root sched1 = (RDone sf1, m1) -> is_fault sf1 = None ->
  ibuild rules env F ord syncp2 fuel2 pfuel2 s0 root sched2 = (RDone sf2, m2) -> is_fault sf2 = None ->
  res_value (res_of sf1 root) = res_value (res_of sf2 root) /\
  forall k, kind_of sf1 k = KComplete -> kind_of sf2 k = KComplete -> res_value (res_of sf1 k) = res_value (res_of sf2 k).
Proof.
  intros Hf H1 Hn1 H2 Hn2.
  destruct (first_build_values rules env ord F rank syncp1 Hrank Hord fuel1 pfuel1 (S (rank root)) s0 root sched1 sf1 m1 Hf H1 Hn1) as [A1 _].
  destruct (first_build_values rules env ord F rank syncp2 Hrank Hord fuel2 pfuel2 (S (rank root)) s0 root sched2 sf2 m2 Hf H2 Hn2) as [B1 _].
  split.
  - destruct (A1 (Nat.lt_succ_diag_r _)) as [_ ->]. destruct (B1 (Nat.lt_succ_diag_r _)) as [_ ->]. reflexivity.
  - intros k K1 K2.
    destruct (first_build_values rules env ord F rank syncp1 Hrank Hord fuel1 pfuel1 (S (rank k)) s0 root sched1 sf1 m1 Hf H1 Hn1) as [_ A2].
    destruct (first_build_values rules env ord F rank syncp2 Hrank Hord fuel2 pfuel2 (S (rank k)) s0 root sched2 sf2 m2 Hf H2 Hn2) as [_ B2].
    rewrite (A2 k K1 (Nat.lt_succ_diag_r _)), (B2 k K2 (Nat.lt_succ_diag_r _)). reflexivity.
Qed.
End Indep.

(* ---------- non-vacuity: the 6-rule set of ImplProofsExamples.v ---------- *)
Definition T6 : list (key * rule) :=
  [(0, mkRule 0 true [] [] [] None []); (1, mkRule 0 true [] [] [] None []);
   (2, mkRule 1 false [0; 1] [] [] None []);
   (3, mkRule 1 false [2] [] [1] (Some (0%nat, [0], [1])) [0]);
   (4, mkRule 2 false [3; 2] [1] [] None []);
   (5, mkRule 3 false [4] [] [] None [0])].
Definition rank6 : key -> nat := rank_of [(2, 1%nat); (3, 2%nat); (4, 3%nat); (5, 4%nat)].

Example R6_table : R6 = rules_of T6. Proof. reflexivity. Qed.
Example R6_ranked : wf_rank R6 rank6. Proof. apply (wf_rank_b_sound T6 rank6). vm_compute. reflexivity. Qed.
Example ord6_ok : forall k, In RReq (ord6 k).
Proof. intros k. unfold ord6, ord0. destruct (N.eqb k 4); cbn; auto. Qed.

(* the hypotheses of first_build_values hold for the three runs of ImplProofsExamples.v (sync; everything at every wait; one at a time) ... *)
Example runs_done_without_fault :
  (exists s m, runA = (RDone s, m) /\ is_fault s = None) /\ (exists s m, runB = (RDone s, m) /\ is_fault s = None) /\
  (exists s m, runC = (RDone s, m) /\ is_fault s = None).
Proof.
  split; [|split].
  - exists (final_state (fst runA)), (snd runA). split; vm_compute; reflexivity.
  - exists (final_state (fst runB)), (snd runB). split; vm_compute; reflexivity.
  - exists (final_state (fst runC)), (snd runC). split; vm_compute; reflexivity.
Qed.
(* ... and the conclusion is what the computation shows: all six keys complete, with the clean values *)
Example runs_values_are_cv :
  values_of runA = map (cv R6 E6 mixF 5) [0; 1; 2; 3; 4; 5] /\ values_of runB = map (cv R6 E6 mixF 5) [0; 1; 2; 3; 4; 5] /\
  map (fun k => kind_of (final_state (fst runB)) k) [0; 1; 2; 3; 4; 5] = repeat KComplete 6.
Proof. vm_compute. repeat split; reflexivity. Qed.
