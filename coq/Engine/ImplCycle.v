(* After a build that reported a cycle (executeTasks returned false after cancelRemainingTasks) the engine is quiescent again: no
   task, nothing queued, no rule IsScanning / InProgress - for ANY rule table (ranked or not).  So the next build starts from a state
   the first-stage theorems (in_build) apply to. *)
From LLB Require Import Engine.Rules Engine.Spec Engine.Impl Engine.ImplProofs Engine.ImplProofsSticky Engine.ImplProofsInv Engine.ImplProofsInv2
  Engine.ImplProofsInv3 Engine.ImplProofsInv9 Engine.ImplProofsStall Engine.ImplProofsRun.
From LLB Require Engine.FindCycle.
From Coq Require Import Arith Lia.
Local Open Scope N_scope.

Lemma map_fst_cancel tk rs : map fst (map (cancel_rule tk) rs) = map fst rs.
Proof. induction rs as [|e rs IH]; cbn [map]; auto. rewrite IH. f_equal. unfold cancel_rule. destruct (aget tk (fst e)); [reflexivity|]. now destruct (ri_kind (snd e)). Qed.
Lemma aget_map_cancel tk rs k : aget (map (cancel_rule tk) rs) k = option_map (fun ri => snd (cancel_rule tk (k, ri))) (aget rs k).
Proof.
  induction rs as [|[k0 ri0] rs IH]; cbn [map aget option_map]; auto.
  assert (Hf : fst (cancel_rule tk (k0, ri0)) = k0) by (unfold cancel_rule; cbn [fst snd]; destruct (aget tk k0); [reflexivity|]; now destruct (ri_kind ri0)).
  rewrite (surjective_pairing (cancel_rule tk (k0, ri0))), Hf. cbn [aget]. destruct (N.eqb k k0) eqn:Ek; [|exact IH].
  apply N.eqb_eq in Ek. subst k0. reflexivity.
Qed.

Section Cycle.
Variable rules : key -> rule.
Variable env : key -> N.
Variable F : key -> N -> list value -> list N -> N -> N.
Variable ord : key -> list rkind.
Variable syncp : key -> bool.

(* cancelRemainingTasks on a stalled state *)
Lemma cancel_quiescent s : Inv rules ctx0 s -> idle_queues s -> quiescent (cancel_remaining s).
Proof.
  intros (Hn & HT & HI & HS) (Q1 & Q2 & Q3 & Q4 & Q5 & Q6). unfold quiescent. cbn [cancel_remaining is_tasks is_toscan is_inreq is_ready is_fintasks is_outstanding is_fault is_rules].
  split; [reflexivity|]. split; [reflexivity|]. split; [reflexivity|]. split; [reflexivity|]. split; [reflexivity|]. split; [exact Q6|]. split; [exact Hn|]. split.
  - rewrite map_fst_cancel. apply HT.
  - intros k. unfold kind_of, rinfo_of. cbn [cancel_remaining is_rules is_usedb is_db]. rewrite aget_map_cancel.
    destruct (aget (is_rules s) k) as [ri|] eqn:Er; cbn [option_map]; [|repeat split; try discriminate; reflexivity].
    assert (Hri : rinfo_of s k = ri) by (unfold rinfo_of; now rewrite Er).
    unfold cancel_rule. cbn [fst snd]. destruct (aget (is_tasks s) k) as [ti|] eqn:Et; [cbn; repeat split; try discriminate; reflexivity|].
    assert (Hnip : is_in_progress s k = false).
    { destruct (is_in_progress s k) eqn:E; auto. apply (t_tk ctx0 s HT) in E. congruence. }
    unfold is_in_progress, kind_of in Hnip. rewrite Hri in Hnip.
    destruct (ri_kind ri) eqn:Ek; cbn; try discriminate; repeat split; try discriminate; try reflexivity; try congruence;
      try (rewrite <- Hri; apply (i_hyg rules ctx0 s HI); unfold kind_of; rewrite Hri, Ek; discriminate);
      try (rewrite <- Hri; apply (s_hyg ctx0 s HS); unfold kind_of; rewrite Hri, Ek; discriminate).
Qed.

Lemma run_loop_sticky_cycle stalled fuel pfuel root : forall s sched marks sC g c m,
  run_loop_gen rules env F ord syncp stalled fuel pfuel root s sched marks = (RCycle sC g c, m) -> nf sC -> nf s.
Proof.
  induction fuel as [|f IH]; intros s sched marks sC g c m Hrun Hn; cbn [run_loop_gen] in Hrun; [discriminate|].
  destruct (loop_iteration_gen rules env F ord syncp stalled pfuel s _) as [s' st] eqn:Hit.
  assert (Hs : nf s' -> nf s).
  { intros H. eapply sticky_loop_iteration. rewrite Hit. exact H. }
  destruct st.
  - apply Hs. eapply IH; eauto.
  - destruct (_ && _); [discriminate|]. apply Hs. eapply sticky_finish_all. eapply IH; eauto.
  - inversion Hrun. subst sC g c m. apply Hs. unfold nf in *. cbn [cancel_remaining is_fault] in Hn.
    destruct (FindCycle.findcycle_names _ _ _); [now autorewrite with iv in Hn|exact Hn].
  - discriminate.
Qed.

Lemma run_loop_cycle_quiescent fuel pfuel root s0 : forall s sched marks sC g c m,
  in_build rules env F ord syncp s0 root s -> run_loop_gen rules env F ord syncp stall_test fuel pfuel root s sched marks = (RCycle sC g c, m) -> nf sC ->
  quiescent sC.
Proof.
  induction fuel as [|f IH]; intros s sched marks sC g c m Hb Hrun Hn; cbn [run_loop_gen] in Hrun; [discriminate|].
  destruct (loop_iteration_gen rules env F ord syncp stall_test pfuel s _) as [s' st] eqn:Hit.
  destruct st.
  - assert (Hn' : nf s') by (eapply run_loop_sticky_cycle; eauto).
    eapply IH; [|exact Hrun|exact Hn]. eapply in_build_iteration; eauto.
  - destruct (_ && _); [discriminate|].
    assert (Hn'' : nf (fold_left (task_finish rules) (match sched with [] => [] | c0 :: _ => snd c0 end) s')) by (eapply run_loop_sticky_cycle; eauto).
    eapply IH; [|exact Hrun|exact Hn]. apply in_build_finish_all. eapply in_build_iteration; eauto. now apply sticky_finish_all in Hn''.
  - inversion Hrun. subst sC g c m.
    assert (Hn' : nf s').
    { unfold nf in *. cbn [cancel_remaining is_fault] in Hn. destruct (FindCycle.findcycle_names _ _ _); [now autorewrite with iv in Hn|exact Hn]. }
    assert (Hb' : in_build rules env F ord syncp s0 root s') by (eapply in_build_iteration; eauto).
    pose proof (in_build_Inv rules env F ord syncp s0 root s' Hb') as HI.
    destruct (loop_iteration_no_work _ _ _ _ _ _ _ _ _ _ _ Hit) as (_ & Q1 & Q2 & Q3 & Q4 & Q5 & _ & Hst & _); [discriminate|].
    destruct (Hst eq_refl) as [Q6 _].
    assert (Hid : idle_queues s') by (repeat split; auto).
    destruct (FindCycle.findcycle_names (wait_graph s') root (fc_linear_fuel (wait_graph s'))) as [p|].
    + apply (cancel_quiescent (iemit s' (ECycleReported p))); [now apply Inv_iemit|exact Hid].
    + now apply cancel_quiescent.
  - discriminate.
Qed.

(* BuildEngine::build reported a cycle and no assert failed: the engine is quiescent for the next build *)
Theorem build_cycle_quiescent fuel pfuel s0 root sched sC g c m : quiescent s0 ->
  ibuild rules env F ord syncp fuel pfuel s0 root sched = (RCycle sC g c, m) -> is_fault sC = None -> quiescent sC.
Proof.
  intros Q Hrun Hn. unfold ibuild, ibuild_gen in Hrun. cbn zeta in Hrun.
  destruct (run_build_gen rules env F ord syncp stall_test fuel pfuel root (iemit (bump s0) (EBuildStart root)) sched) as [r mm] eqn:Hr.
  destruct r; inversion Hrun. subst sC g c m. apply quiescent_commit_emit.
  unfold run_build_gen in Hr. eapply run_loop_cycle_quiescent; [|exact Hr|].
  - split; [exact Q|apply mss_refl].
  - unfold nf in *. now autorewrite with iv in Hn.
Qed.
End Cycle.
