(* P19b stage 3b-3, part 3: non-vacuity - a history with restarts from the database, over the rule set of ImplInc10. *)
From LLB Require Import Engine.Rules Engine.Spec Engine.SpecInv1 Engine.SpecC01 Engine.Exec Engine.Impl Engine.ImplProofs Engine.ImplProofsExamples
  Engine.ImplVal7 Engine.ImplInc1 Engine.ImplInc9 Engine.ImplInc10 Engine.ImplInc13.
From Coq Require Import Arith Lia.
Local Open Scope N_scope.

(* build 5; restart; build 5 again (every rule is reloaded from the database and found not to need to run); input 0 changes; restart;
   input 1 changes and key 4 is requested; everything changes back *)
Definition O7 : list hop :=
  [HBuild (mkBspec E7a 5 [] 200 200); HRestart; HBuild (mkBspec E7a 5 [] 200 200); HBuild (mkBspec E7b 5 [] 200 200); HRestart;
   HBuild (mkBspec E7c 4 [] 200 200); HBuild (mkBspec E7a 5 [] 200 200)].
Definition dres7 := run_hops R7 mixF ord6 all_sync (irestart true init_istate) O7.
Definition dend7 : istate := match dres7 with Some (s, _) => s | None => init_istate end.
Definition dvals7 : list (option value) := match dres7 with Some (_, v) => v | None => [] end.
Lemma drun7_eq : run_hops R7 mixF ord6 all_sync (irestart true init_istate) O7 = Some (dend7, dvals7).
Proof. vm_compute. reflexivity. Qed.
Lemma O7_ranks : forall b, In b (hop_roots O7) -> (rank6 (bs_root b) < 5)%nat.
Proof. intros b Hb. cbn in Hb. repeat (destruct Hb as [Hb|Hb]; [subst b; cbn [bs_root]; vm_compute; lia|]). destruct Hb. Qed.

Example hops7_clean : dvals7 = map (fun b => cv R7 (bs_env b) mixF 5 (bs_root b)) (hop_roots O7) /\ DInv mixF RT7 dend7.
Proof.
  pose proof (hops_values_clean R7 mixF rank6 RT7 ord6 all_sync R7_ranked R7_wfdisc (fixedR_ok R7) ord6_ok 5 O7 (irestart true init_istate) dend7 dvals7 (DInv_new mixF RT7)) as H.
  specialize (H drun7_eq). specialize (H O7_ranks). exact H.
Qed.
(* ... and the computation agrees; the build after the first restart created no task *)
Example hops7_computed :
  dvals7 = map (fun b => cv R7 (bs_env b) mixF 5 (bs_root b)) (hop_roots O7) /\ length dvals7 = 5%nat /\
  (let s1 := final_state (fst (ibuild R7 E7a mixF ord6 all_sync 200 200 (irestart true init_istate) 5 [])) in
   let s2 := final_state (fst (ibuild R7 E7a mixF ord6 all_sync 200 200 (irestart true s1) 5 [])) in
   creates (is_log s1) = 6%nat /\ creates (is_log s2) = 6%nat /\ is_db s1 <> []).
Proof. vm_compute. repeat split; try reflexivity. discriminate. Qed.
