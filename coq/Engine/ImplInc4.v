(* P19b stage 3, part 4: the finished-input-request step keeps the incremental invariant. *)
From LLB Require Import Engine.Rules Engine.Spec Engine.SpecInv1 Engine.Impl Engine.ImplProofs Engine.ImplProofsSticky Engine.ImplProofsMono Engine.ImplProofsInv
  Engine.ImplProofsInv2 Engine.ImplProofsInv3 Engine.ImplProofsInv7 Engine.ImplProofsInv8 Engine.ImplProofsInv9
  Engine.ImplVal1 Engine.ImplVal2 Engine.ImplVal3 Engine.ImplVal4 Engine.ImplInc1 Engine.ImplInc2 Engine.ImplInc3.
From Coq Require Import Arith Lia.
Local Open Scope N_scope.

Lemma decrement_wait_self s t ti : task_of s t = Some ti -> nf (decrement_wait s t) ->
  exists n, task_of (decrement_wait s t) t = Some (ti_with_wait n ti).
Proof.
  unfold decrement_wait, task_of. intros Hg. rewrite Hg. destruct (ti_wait ti) as [|n]; [intros H; now apply nf_fault in H|]. cbn zeta. intros _.
  exists n. destruct (Nat.eqb n 0); autorewrite with iv; now rewrite aget_aset_same.
Qed.

Section Inc.
Variable rules : key -> rule.
Variable env : key -> N.
Variable F : key -> N -> list value -> list N -> N -> N.
Variable rank : key -> nat.
Hypothesis Hrank : wf_rank rules rank.
Hypothesis Hdisc : forall k, r_disc (rules k) = [].
Hypothesis Hsingle : forall k, r_single (rules k) = [].
Notation cvK := (cvK rules env F rank).
Notation bkK := (bkK rules env F rank).
Notation n1 := (n1 rules).
Notation n2 := (n2 rules).
Notation key_of_slot := (key_of_slot rules env F rank).
Notation task_ok2 := (task_ok2 rules env F rank).
Notation BT := (BT rules env F rank).
Notation BC := (BC rules F).
Notation BS := (BS rules env F rank).
Notation BInv := (BInv rules env F rank).
Notation delivered := (delivered rules env F rank).

(* the part of the task record of the requester that the delivery does not touch *)
Lemma step_fininreq_self s rq rest t ti : is_fininreq s = rq :: rest -> iq_task rq = Some t -> task_of s t = Some ti -> nf (step_fininreq rules s) ->
  exists ti', task_of (step_fininreq rules s) t = Some ti' /\ ti_disc ti' = ti_disc ti /\ ti_deferred ti' = ti_deferred ti.
Proof.
  intros Hq Ht Hg Hn. unfold step_fininreq in *. rewrite Hq in *. unfold deliver in *. rewrite Ht in *. cbn zeta in *.
  set (s0 := upd_fininreq s rest) in *.
  assert (Hg0 : task_of s0 t = Some ti) by exact Hg.
  destruct (iq_order rq).
  - destruct (decrement_wait_self s0 t ti Hg0 Hn) as (n & Hy). exists (ti_with_wait n ti). now destruct ti.
  - set (s1 := provide_value rules s0 t (iq_slot rq) (iq_input rq) (res_value (res_of s0 (iq_input rq)))) in *.
    assert (Hn1 : nf s1) by (eapply sticky_decrement_wait; eauto).
    assert (H1 : exists y, task_of s1 t = Some y /\ ti_disc y = ti_disc ti /\ ti_deferred y = ti_deferred ti).
    { unfold s1, provide_value in *. cbn zeta in *. set (se := iemit s0 _) in *. change (aget (is_tasks se) t) with (task_of s0 t) in *. rewrite Hg0 in *.
      set (v := res_value _) in *. set (slot := iq_slot rq) in *.
      assert (Hst : ti_disc (store_slot slot v ti) = ti_disc ti /\ ti_deferred (store_slot slot v ti) = ti_deferred ti).
      { unfold store_slot. destruct (Nat.ltb slot (length (ti_slots ti))); destruct ti; auto. }
      destruct (branch_fire rules t ti slot v) as [ks|].
      - set (sb := set_ti se t _) in *.
        assert (Hgb : task_of sb t = Some (ti_with_branched true (store_slot slot v ti))) by (unfold sb, task_of; autorewrite with iv; now rewrite aget_aset_same).
        destruct (is_self _ _ _ _ _ (issues_branch_reqs ks sb t _ Hgb Hn1) _ Hgb) as (n & Hy).
        eexists. split; [exact Hy|]. destruct Hst as [E1 E2]. destruct (store_slot slot v ti); cbn in *; auto.
      - eexists. split; [unfold task_of; autorewrite with iv; now rewrite aget_aset_same|exact Hst]. }
    destruct H1 as (y & Hy & E1 & E2). destruct (decrement_wait_self s1 t y Hy Hn) as (n & Hy').
    exists (ti_with_wait n y). split; auto.
Qed.
