(* P19b stage 3, part 4: the finished-input-request step keeps the incremental invariant. *)
From LLB Require Import Engine.Rules Engine.Spec Engine.SpecInv1 Engine.Impl Engine.ImplProofs Engine.ImplProofsSticky Engine.ImplProofsMono Engine.ImplProofsInv
  Engine.ImplProofsInv2 Engine.ImplProofsInv3 Engine.ImplProofsInv5 Engine.ImplProofsInv6 Engine.ImplProofsInv7 Engine.ImplProofsInv8 Engine.ImplProofsInv9
  Engine.ImplVal1 Engine.ImplVal2 Engine.ImplVal3 Engine.ImplVal4 Engine.ImplInc1 Engine.ImplInc2 Engine.ImplInc3.
From Coq Require Import Arith Lia.
Local Open Scope N_scope.

Lemma decrement_wait_self s t ti : task_of s t = Some ti -> nf (decrement_wait s t) ->
  exists n, task_of (decrement_wait s t) t = Some (ti_with_wait n ti).
Proof.
  unfold decrement_wait, task_of. intros Hg. rewrite Hg. destruct (ti_wait ti) as [|n]; [intros H; now apply nf_fault in H|]. cbn zeta. intros _.
  exists n. destruct (Nat.eqb n 0); autorewrite with iv; now rewrite aget_aset_same.
Qed.

Section Inc.
Variable rules : key -> rule.
Variable env : key -> N.
Variable F : key -> N -> list value -> list N -> N -> N.
Variable rank : key -> nat.
Variable R : key -> N -> rule.
Hypothesis Hrank : wf_rank rules rank.
Hypothesis Hdisc : forall k, r_disc (rules k) = [].
Notation cvK := (cvK rules env F rank).
Notation bkK := (bkK rules env F rank).
Notation n1 := (n1 rules).
Notation n2 := (n2 rules).
Notation key_of_slot := (key_of_slot rules env F rank).
Notation task_ok2 := (task_ok2 rules env F rank).
Notation BT := (BT rules env F rank).
Notation BC := (BC rules F R).
Notation BS := (BS rules env F rank R).
Notation BInv := (BInv rules env F rank R).
Notation delivered := (delivered rules env F rank).

(* the part of the task record of the requester that the delivery does not touch *)
Lemma step_fininreq_self s rq rest t ti : is_fininreq s = rq :: rest -> iq_task rq = Some t -> task_of s t = Some ti -> nf (step_fininreq rules s) ->
  exists ti', task_of (step_fininreq rules s) t = Some ti' /\ ti_disc ti' = ti_disc ti /\ ti_deferred ti' = ti_deferred ti.
Proof.
  intros Hq Ht Hg Hn. unfold step_fininreq in *. rewrite Hq in *. unfold deliver in *. rewrite Ht in *. cbn zeta in *.
  set (s0 := upd_fininreq s rest) in *.
  assert (Hg0 : task_of s0 t = Some ti) by exact Hg.
  destruct (iq_order rq).
  - destruct (decrement_wait_self s0 t ti Hg0 Hn) as (n & Hy). exists (ti_with_wait n ti). now destruct ti.
  - set (s1 := provide_value rules s0 t (iq_slot rq) (iq_input rq) (res_value (res_of s0 (iq_input rq)))) in *.
    assert (Hn1 : nf s1) by (eapply sticky_decrement_wait; eauto).
    assert (H1 : exists y, task_of s1 t = Some y /\ ti_disc y = ti_disc ti /\ ti_deferred y = ti_deferred ti).
    { unfold s1, provide_value in *. cbn zeta in *. set (se := iemit s0 _) in *. change (aget (is_tasks se) t) with (task_of s0 t) in *. rewrite Hg0 in *.
      set (v := res_value _) in *. set (slot := iq_slot rq) in *.
      assert (Hst : ti_disc (store_slot slot v ti) = ti_disc ti /\ ti_deferred (store_slot slot v ti) = ti_deferred ti).
      { unfold store_slot. destruct (Nat.ltb slot (length (ti_slots ti))); destruct ti; auto. }
      destruct (branch_fire rules t ti slot v) as [ks|].
      - set (sb := set_ti se t _) in *.
        assert (Hgb : task_of sb t = Some (ti_with_branched true (store_slot slot v ti))) by (unfold sb, task_of; autorewrite with iv; now rewrite aget_aset_same).
        destruct (is_self _ _ _ _ _ (issues_branch_reqs ks sb t _ Hgb Hn1) _ Hgb) as (n & Hy).
        eexists. split; [exact Hy|]. destruct Hst as [E1 E2]. destruct (store_slot slot v ti); cbn in *; auto.
      - eexists. split; [unfold task_of; autorewrite with iv; now rewrite aget_aset_same|exact Hst]. }
    destruct H1 as (y & Hy & E1 & E2). destruct (decrement_wait_self s1 t y Hy Hn) as (n & Hy').
    exists (ti_with_wait n y). split; auto.
Qed.

(* the delivery of a (non order-only) request, from the facts about the request alone *)
Lemma step_fininreq_delivered_gen s rq rest t ti : Inv rules ctx0 s -> is_fininreq s = rq :: rest -> iq_task rq = Some t ->
  iq_order rq = false -> task_of s t = Some ti -> key_of_slot t (iq_slot rq) = Some (iq_input rq) -> (iq_slot rq < length (ti_slots ti))%nat ->
  res_value (res_of s (iq_input rq)) = cvK (iq_input rq) -> nf (step_fininreq rules s) ->
  exists ti' ks, delivered s (step_fininreq rules s) rq rest t ti ti' ks.
Proof.
  intros HI Hq Ht Hord Hg Hkey Hsl Hval Hn. unfold step_fininreq in *. rewrite Hq in *. unfold deliver in *. rewrite Ht, Hord in *. cbn zeta in *.
  set (s0 := upd_fininreq s rest) in *. set (slot := iq_slot rq). set (inp := iq_input rq).
  fold slot inp in Hkey, Hsl, Hval.
  destruct (cvK_some rules env F rank Hrank inp) as (cv0 & Hcv).
  fold inp slot in Hn |- *. assert (Hv0 : res_value (res_of s0 inp) = cvK inp) by exact Hval. rewrite Hv0 in *.
  set (s1 := provide_value rules s0 t slot inp (cvK inp)) in *.
  assert (Hn1 : nf s1) by (eapply sticky_decrement_wait; eauto).
  destruct (decrement_wait_views s1 t Hn) as (W1 & W2 & Wx & W3 & W4 & W5 & W6 & W7 & W8).
  (* provideValue *)
  set (tis := ti_with_slots (set_nth (ti_slots ti) slot (cvK inp)) ti) in *.
  set (se := iemit s0 (EProvide t slot inp (cvK inp))) in *.
  assert (Hs1 : s1 = match branch_fire rules t ti slot (cvK inp) with
                     | None => set_ti se t tis
                     | Some ks => branch_reqs (set_ti se t (ti_with_branched true tis)) t ks end).
  { unfold s1, provide_value. cbn zeta. fold se. change (aget (is_tasks se) t) with (aget (is_tasks s) t). unfold task_of in Hg. rewrite Hg.
    now rewrite (store_slot_in_range slot (cvK inp) ti Hsl). }
  clearbody s1.
  destruct (branch_fire rules t ti slot (cvK inp)) as [ks|] eqn:Ef; subst s1.
  - (* the branch fires *)
    rewrite Hcv in Ef.
    assert (Hlt : (slot < n1 t)%nat).
    { unfold branch_fire in Ef. destruct (r_br (rules t)) as [[[i a] b]|]; [|discriminate]. destruct (negb (ti_branched ti) && Nat.eqb slot i) eqn:E1; [|discriminate].
      apply Bool.andb_true_iff in E1. destruct E1 as [_ E1]. apply Nat.eqb_eq in E1. subst i. cbn [andb] in Ef.
      destruct (Nat.ltb slot (length (r_req (rules t)))) eqn:E2; [|discriminate]. now apply Nat.ltb_lt in E2. }
    destruct (branch_fire_bkK rules env F rank t ti slot inp cv0 ks Hkey Hcv Hlt Ef) as (Hks & Hb & a & b & Hbr).
    set (sb := set_ti se t (ti_with_branched true tis)) in *.
    assert (Hgb : task_of sb t = Some (ti_with_branched true tis)) by (unfold sb, task_of; autorewrite with iv; now rewrite aget_aset_same).
    pose proof (issues_branch_reqs ks sb t _ Hgb Hn1) as [A1 A2 A3 A4 A5 A6 A7 A8 A9 A10].
    destruct (A4 _ Hgb) as (n & Hg1). set (s1 := branch_reqs sb t ks) in *.
    destruct (tcore_task s1 (decrement_wait s1 t) t _ (W2 t) Hg1) as (y & Hy & Hcc). apply core_fields in Hcc. destruct Hcc as (C1 & C2 & C3 & C4).
    cbn [ti_with_wait ti_with_slots ti_with_branched ti_slots ti_branched ti_pending ti_reqby tis] in C1, C2, C3, C4.
    exists y, ks. constructor.
    + exact Hq.
    + intros k. rewrite W1, A1. reflexivity.
    + intros t0 Hne. rewrite (Wx t0 Hne), (A3 t0 Hne). unfold sb, se, task_of. autorewrite with iv. rewrite aget_aset. apply N.eqb_neq in Hne. now rewrite Hne.
    + exact Hy.
    + exact C1.
    + exact C3.
    + exact C4.
    + rewrite W3, A2. cbn [ti_with_branched tis ti_with_slots ti_slots]. now rewrite length_set_nth.
    + rewrite W4, A5. reflexivity.
    + rewrite W5, A6. reflexivity.
    + rewrite W6, A7. reflexivity.
    + rewrite W7, A9. reflexivity.
    + rewrite W8, A8. reflexivity.
    + left. fold slot. repeat split; auto. exists a, b. auto.
  - (* no branch request *)
    set (s1 := set_ti se t tis) in *.
    assert (Hg1 : task_of s1 t = Some tis) by (unfold s1, task_of; autorewrite with iv; now rewrite aget_aset_same).
    destruct (tcore_task s1 (decrement_wait s1 t) t _ (W2 t) Hg1) as (y & Hy & Hcc). apply core_fields in Hcc. destruct Hcc as (C1 & C2 & C3 & C4).
    cbn [tis ti_with_slots ti_slots ti_branched ti_pending ti_reqby] in C1, C2, C3, C4.
    exists y, []. constructor.
    + exact Hq.
    + intros k. rewrite W1. unfold s1. now autorewrite with iv.
    + intros t0 Hne. rewrite (Wx t0 Hne). unfold s1, se, task_of. autorewrite with iv. rewrite aget_aset. apply N.eqb_neq in Hne. now rewrite Hne.
    + exact Hy.
    + cbn [repeat length]. now rewrite app_nil_r.
    + exact C3.
    + exact C4.
    + rewrite W3. unfold s1. autorewrite with iv. cbn [mk_reqs]. now rewrite app_nil_r.
    + rewrite W4. unfold s1. now autorewrite with iv.
    + rewrite W5. unfold s1. now autorewrite with iv.
    + rewrite W6. unfold s1. now autorewrite with iv.
    + rewrite W7. unfold s1. now autorewrite with iv.
    + rewrite W8. unfold s1. now autorewrite with iv.
    + right. repeat split; auto. fold slot. now apply (branch_fire_none rules t ti slot (cvK inp)).
Qed.

Lemma BInv_delivered root x s s' rq rest t ti ti' ks : BInv root x s -> sreq_scanning s -> iq_task rq = Some t -> iq_order rq = false ->
  task_of s t = Some ti -> delivered s s' rq rest t ti ti' ks -> ti_disc ti' = ti_disc ti -> ti_deferred ti' = ti_deferred ti -> BInv root x s'.
Proof.
  intros (HT & HC & HS) Hss Ht Hord Hg [D1 D2 D3 D4 D5 D6 D7 D8 D9 D10 D11 D12 D13 D14] Edisc Edef.
  destruct HT as [T2 T3 T4 T5 T6 T7].
  set (slot := iq_slot rq) in *. set (inp := iq_input rq) in *. set (sl := ti_slots ti) in *.
  assert (Hrq : Oreq2 s rq) by (right; right; rewrite D1; now left).
  destruct (T4 rq Hrq) as [Hw _]. destruct (Hw t Ht Hord) as (Hkey & ti0 & Hg0 & Hsl). rewrite Hg in Hg0. inversion Hg0. subst ti0. fold slot inp sl in Hkey, Hsl. clear Hw Hg0.
  destruct (cvK_some rules env F rank Hrank inp) as (cv0 & Hcv).
  assert (Hlen' : length (ti_slots ti') = (length sl + length ks)%nat) by (rewrite D5, app_length, length_set_nth, repeat_length; reflexivity).
  assert (Hnth : forall i, (i < length sl)%nat -> nth_error (ti_slots ti') i = if Nat.eqb i slot then Some (cvK inp) else nth_error sl i).
  { intros i Hi. rewrite D5, nth_error_app1 by (rewrite length_set_nth; exact Hi). now apply nth_error_set_nth. }
  assert (Hnth2 : forall i, (length sl <= i)%nat -> (i < length sl + length ks)%nat -> nth_error (ti_slots ti') i = Some None).
  { intros i H1 H2. rewrite D5, nth_error_app2 by (rewrite length_set_nth; exact H1). rewrite length_set_nth. apply nth_error_repeat_none. lia. }
  assert (HK : forall k, kind_of s' k = kind_of s k) by (intros; unfold kind_of; now rewrite D2).
  assert (HR : forall k, res_of s' k = res_of s k) by (intros; unfold res_of; now rewrite D2).
  assert (Hcurk : forall k, curk s' k <-> curk s k) by (intros; now apply curk_same).
  assert (Hdeps : forall k, deps s' k = deps s k) by (intros; unfold deps; now rewrite HR).
  assert (HU1 : forall y, Unrouted s y -> Unrouted s' y).
  { intros y [H|(k & H)]; [left; rewrite D8; apply in_or_app; now left|right; exists k; now rewrite D2]. }
  assert (HU2 : forall y, Unrouted s' y -> Unrouted s y \/ In y (mk_reqs t ks (length sl) false)).
  { intros y [H|(k & H)]; [rewrite D8 in H; apply in_app_or in H; destruct H; [left; now left|now right]|left; right; exists k; now rewrite <- D2]. }
  assert (O1' : forall y, Oreq2 s y -> y = rq \/ Oreq2 s' y).
  { intros y [H|[(t0 & z & Hz & Hin)|H]].
    - right. left. now apply HU1.
    - right. right. left. destruct (N.eq_dec t0 t) as [->|Hn0].
      + rewrite Hg in Hz. inversion Hz. subst z. exists t, ti'. split; auto. now rewrite D7.
      + exists t0, z. rewrite (D3 t0 Hn0). auto.
    - rewrite D1 in H. destruct H as [H|H]; [now left|right; right; right; now rewrite D9]. }
  assert (O1 : forall y, Oreq2 s y -> y <> rq -> Oreq2 s' y) by (intros y Hy Hne; destruct (O1' y Hy); [contradiction|auto]).
  assert (O2 : forall y, Oreq2 s' y -> Oreq2 s y \/ In y (mk_reqs t ks (length sl) false)).
  { intros y [H|[(t0 & z & Hz & Hin)|H]].
    - destruct (HU2 y H); [left; now left|now right].
    - left. right. left. destruct (N.eq_dec t0 t) as [->|Hn0].
      + rewrite D4 in Hz. inversion Hz. subst z. exists t, ti. split; auto. now rewrite <- D7.
      + exists t0, z. rewrite <- (D3 t0 Hn0). auto.
    - left. right. right. rewrite D1. right. now rewrite <- D9. }
  assert (Hexists : forall t0 z, task_of s t0 = Some z -> exists y, task_of s' t0 = Some y /\ (length (ti_slots z) <= length (ti_slots y))%nat).
  { intros t0 z Hz. destruct (N.eq_dec t0 t) as [->|Hn0].
    - rewrite Hg in Hz. inversion Hz. subst z. exists ti'. split; auto. fold sl. lia.
    - exists z. rewrite (D3 t0 Hn0). auto. }
  assert (Hinp : curk s inp) by (apply T5; rewrite D1; now left).
  (* a recorded dependency whose request is the delivered one is complete *)
  assert (Hdc : forall t0 d, (curk s (d_key d) \/ exists y, Oreq2 s y /\ iq_task y = Some t0 /\ iq_input y = d_key d) ->
                  curk s' (d_key d) \/ exists y, Oreq2 s' y /\ iq_task y = Some t0 /\ iq_input y = d_key d).
  { intros t0 d [H|(y & Hy & H1 & H2)]; [left; now apply Hcurk|].
    destruct (O1' y Hy) as [->|Hy']; [left; apply Hcurk; now rewrite <- H2|right; exists y; auto]. }
  split; [|split].
  - constructor.
    + congruence.
    + intros k Hc. unfold stored. rewrite HR. now apply T3, Hcurk.
    + intros y Ho. destruct (O2 y Ho) as [Hold|Hnew].
      * destruct (T4 y Hold) as [Hw Hsg]. split; auto. apply (rq_wf_sub rules env F rank s s'); auto.
      * destruct (mk_reqs_inv _ _ _ _ _ Hnew) as (j & z & Hj & ->). split; [|reflexivity]. intros t0 Ht0 _. cbn [iq_task iq_slot iq_input] in *. inversion Ht0. subst t0.
        destruct D14 as [(Hb & Hb' & Hks & a & b & Hbr & Hlt)|(Hks & _)]; [|subst ks; now destruct j].
        assert (Hsl0 : length sl = (n1 t + n2 t)%nat) by (pose proof (k2_len _ _ _ _ _ _ _ (T6 t ti Hg)) as K1; fold sl in K1; rewrite Hb in K1; lia).
        split.
        -- unfold ImplVal1.key_of_slot. fold (n1 t) (n2 t). rewrite Hsl0.
           assert (E1 : Nat.ltb (n1 t + n2 t + j) (n1 t) = false) by (apply Nat.ltb_ge; lia).
           assert (E2 : Nat.ltb (n1 t + n2 t + j) (n1 t + n2 t) = false) by (apply Nat.ltb_ge; lia).
           rewrite E1, E2. replace (n1 t + n2 t + j - n1 t - n2 t)%nat with j by lia. now rewrite <- Hks.
        -- exists ti'. split; auto. rewrite Hlen'. assert (j < length ks)%nat by (apply nth_error_Some; congruence). lia.
    + intros y Hin. apply Hcurk, T5. rewrite D1. right. now rewrite <- D9.
    + intros t0 y Hy. destruct (N.eq_dec t0 t) as [->|Hn0].
      * rewrite D4 in Hy. inversion Hy. subst y. destruct (T6 t ti Hg) as [K1 K2 K3 K4 K5 K6 K7 K8 K9 K10 K11]. fold sl in K1, K2, K3, K4, K7. constructor.
        -- rewrite Hlen', K1. destruct D14 as [(Hb & Hb' & Hks & _)|(Hks & Hb' & _)]; rewrite Hb'; [rewrite Hb, Hks; lia|rewrite Hks; cbn [length]; lia].
        -- intros i v z Hv Hz. destruct (Nat.lt_ge_cases i (length sl)) as [Hi|Hi].
           ++ rewrite (Hnth i Hi) in Hv. destruct (Nat.eqb i slot) eqn:E; [|eauto]. apply Nat.eqb_eq in E. subst i.
              rewrite Hkey in Hz. inversion Hz. subst z. now inversion Hv.
           ++ destruct (Nat.lt_ge_cases i (length sl + length ks)) as [Hi2|Hi2]; [rewrite (Hnth2 i Hi Hi2) in Hv; discriminate|].
              assert (Hn : nth_error (ti_slots ti') i = None) by (apply nth_error_None; lia). congruence.
        -- intros i Hu Hn. destruct (Nat.lt_ge_cases i (length sl)) as [Hi|Hi].
           ++ rewrite (Hnth i Hi) in Hn. destruct (Nat.eqb i slot) eqn:E; [rewrite Hcv in Hn; discriminate|]. apply Nat.eqb_neq in E.
              destruct (K3 i Hu Hn) as (z & Hoz & Hzt & Hzo & Hzs). exists z. repeat split; auto. apply O1; auto. intros ->. fold slot in Hzs. congruence.
           ++ assert (Hi2 : (i < length sl + length ks)%nat) by (rewrite <- Hlen'; apply nth_error_Some; congruence).
              assert (Hj : exists z, nth_error ks (i - length sl) = Some z).
              { destruct (nth_error ks (i - length sl)) eqn:E; [eauto|]. apply nth_error_None in E. lia. }
              destruct Hj as (z & Hz). exists (mkIReq (Some t) (length sl + (i - length sl)) z false false). cbn [iq_task iq_order iq_slot]. repeat split; auto; [|lia].
              left. left. rewrite D8. apply in_or_app. right. now apply in_mk_reqs.
        -- intros Hb' i a b Hbr Hlt. destruct D14 as [(_ & Hb'' & _)|(Hks & Hbeq & Hne)]; [congruence|].
           rewrite Hbeq in Hb'. assert (Hi : (i < length sl)%nat) by (rewrite K1; fold (n1 t); lia).
           rewrite (Hnth i Hi). pose proof (Hne Hb' i a b Hbr Hlt) as Hns. apply Nat.eqb_neq in Hns. fold slot in Hns. rewrite Hns. now apply (K4 Hb' i a b).
        -- intros v. rewrite D6. apply K5.
        -- rewrite D10. unfold stored. rewrite HR. apply K6.
        -- intros i z Hu0 Hi Hz. rewrite Hdeps. rewrite Hlen' in Hi. destruct (Nat.lt_ge_cases i (length sl)) as [Hi1|Hi1].
           ++ destruct (K7 i z Hu0 Hi1 Hz) as [(y & Hy1 & Hy2)|Hr]; [left; exists y; split; [now apply HU1|auto]|now right].
           ++ assert (Hj : exists w, nth_error ks (i - length sl) = Some w).
              { destruct (nth_error ks (i - length sl)) eqn:E; [eauto|]. apply nth_error_None in E. lia. }
              destruct Hj as (w & Hw). left. exists (mkIReq (Some t) (length sl + (i - length sl)) w false false). cbn [iq_task iq_order iq_slot].
              split; [left; rewrite D8; apply in_or_app; right; now apply in_mk_reqs|]. repeat split; auto. lia.
        -- intros d Hd. rewrite Hdeps in Hd. apply Hdc, K8, Hd.
        -- intros d. rewrite Hdeps. apply K9.
        -- rewrite D10, D6, Edisc. exact K10.
        -- rewrite D10, HR. exact K11.
      * rewrite (D3 t0 Hn0) in Hy. destruct (T6 t0 y Hy) as [J1 J2 J3 J4 J5 J6 J7 J8 J9 J10 J11]. constructor.
        -- exact J1.
        -- exact J2.
        -- intros i Hu Hn. destruct (J3 i Hu Hn) as (z & Hoz & Hzt & Hz'). exists z. repeat split; auto; try apply Hz'. apply O1; auto. intros ->. congruence.
        -- exact J4.
        -- exact J5.
        -- rewrite D10. unfold stored. rewrite HR. exact J6.
        -- intros i z Hu0 Hi Hz. rewrite Hdeps. destruct (J7 i z Hu0 Hi Hz) as [(w & Hw1 & Hw2)|Hr]; [left; exists w; split; [now apply HU1|auto]|now right].
        -- intros d Hd. rewrite Hdeps in Hd. apply Hdc, J8, Hd.
        -- intros d. rewrite Hdeps. apply J9.
        -- rewrite D10. exact J10.
        -- rewrite D10, HR. exact J11.
    + destruct T7 as [H|[(k & H)|[H|H]]]; [left; rewrite D8; apply in_or_app; now left|right; left; exists k; now rewrite D2| |].
      * right. right. left. now rewrite (in_progress_of_kind s s' root (HK root)).
      * right. right. right. now apply Hcurk.
  - apply (BC_change rules F R (fun _ => false) s s'); auto; try discriminate; [intros k; rewrite D2; apply HC|].
    intros y (r & Hu' & H1' & H2'). left. exists r. split; auto.
  - apply (BS_change rules env F R rank (fun _ => false) x s s'); auto; try discriminate.
    + intros y [H|[(k & H)|(t0 & z & Hz & H)]]; [left; congruence|right; left; exists k; now rewrite <- D2|right; right].
      destruct (N.eq_dec t0 t) as [->|Hn0].
      * rewrite D4 in Hz. inversion Hz. subst z. exists t, ti. split; auto. now rewrite <- Edef.
      * exists t0, z. rewrite <- (D3 t0 Hn0). auto.
    + intros k _. now rewrite D2.
    + intros k _ [(y & H1 & H2)|(y & H1 & H2)]; [left; exists y; now rewrite D11|right; exists y; rewrite D8; split; auto; apply in_or_app; now left].
Qed.

(* two task records that differ at most in the wait count *)
Definition same_task (y z : tinfo) : Prop :=
  ti_slots z = ti_slots y /\ ti_branched z = ti_branched y /\ ti_pending z = ti_pending y /\ ti_reqby z = ti_reqby y /\ ti_disc z = ti_disc y /\
  ti_deferred z = ti_deferred y.

(* an order-only request leaves finishedInputRequests *)
Lemma BInv_drop_order root x s s' rq rest : BInv root x s -> sreq_scanning s -> is_fininreq s = rq :: rest -> iq_order rq = true ->
  (forall k, rinfo_of s' k = rinfo_of s k) ->
  (forall t y, task_of s t = Some y -> exists z, task_of s' t = Some z /\ same_task y z) ->
  (forall t z, task_of s' t = Some z -> exists y, task_of s t = Some y /\ same_task y z) ->
  is_inreq s' = is_inreq s -> is_fininreq s' = rest ->
  is_fintasks s' = is_fintasks s -> is_toscan s' = is_toscan s -> is_usedb s' = is_usedb s -> is_epoch s' = is_epoch s -> BInv root x s'.
Proof.
  intros (HT & HC & HS) Hss Hq Hord HR0 Hfw Hbw Hi Hf Hft Hts Hu He.
  assert (HK : forall k, kind_of s' k = kind_of s k) by (intros; unfold kind_of; now rewrite HR0).
  assert (HR : forall k, res_of s' k = res_of s k) by (intros; unfold res_of; now rewrite HR0).
  assert (Hcurk : forall k, curk s' k <-> curk s k) by (intros; now apply curk_same).
  assert (Hdeps : forall k, deps s' k = deps s k) by (intros; unfold deps; now rewrite HR).
  assert (HU : forall y, Unrouted s y <-> Unrouted s' y) by (apply Unrouted_same; auto; intros k; now rewrite HR0).
  assert (O1' : forall y, Oreq2 s y -> y = rq \/ Oreq2 s' y).
  { intros y [H|[(t0 & z & Hz & Hin)|H]].
    - right. left. now apply HU.
    - right. right. left. destruct (Hfw t0 z Hz) as (w & Hw & _ & _ & _ & Hrb & _). exists t0, w. split; auto. now rewrite Hrb.
    - rewrite Hq in H. destruct H as [H|H]; [now left|right; right; right; now rewrite Hf]. }
  assert (O2 : forall y, Oreq2 s' y -> Oreq2 s y).
  { intros y [H|[(t0 & z & Hz & Hin)|H]].
    - left. now apply HU.
    - right. left. destruct (Hbw t0 z Hz) as (w & Hw & _ & _ & _ & Hrb & _). exists t0, w. split; auto. now rewrite <- Hrb.
    - right. right. rewrite Hq. right. now rewrite <- Hf. }
  destruct HT as [T2 T3 T4 T5 T6 T7].
  assert (Hinp : curk s (iq_input rq)) by (apply T5; rewrite Hq; now left).
  split; [|split].
  - constructor.
    + congruence.
    + intros k Hc. unfold stored. rewrite HR. now apply T3, Hcurk.
    + intros y Ho. destruct (T4 y (O2 y Ho)) as [Hw Hsg]. split; auto. apply (rq_wf_sub rules env F rank s s'); auto.
      intros t0 z Hz. destruct (Hfw t0 z Hz) as (w & Hw' & Hs & _). exists w. split; auto. rewrite Hs. lia.
    + intros y Hin. apply Hcurk, T5. rewrite Hq. right. now rewrite <- Hf.
    + intros t0 z Hz. destruct (Hbw t0 z Hz) as (y & Hy & E1 & E2 & E3 & E4 & E5 & E6). destruct (T6 t0 y Hy) as [J1 J2 J3 J4 J5 J6 J7 J8 J9 J10 J11]. constructor.
      * now rewrite E1, E2.
      * rewrite E1. exact J2.
      * rewrite E1. intros i Hu' Hn. destruct (J3 i Hu' Hn) as (w & Hw1 & Hw2 & Hw3 & Hw4). exists w. repeat split; auto.
        destruct (O1' w Hw1) as [->|H]; [congruence|exact H].
      * rewrite E1, E2. exact J4.
      * rewrite E3. exact J5.
      * rewrite Hft. unfold stored. rewrite HR. exact J6.
      * rewrite E1. intros i w Hu0 Hi' Hw. rewrite Hdeps. destruct (J7 i w Hu0 Hi' Hw) as [(r & Hr1 & Hr2)|Hr]; [left; exists r; split; [now apply HU|auto]|now right].
      * intros d Hd. rewrite Hdeps in Hd. destruct (J8 d Hd) as [H|(r & Hr1 & Hr2 & Hr3)]; [left; now apply Hcurk|].
        destruct (O1' r Hr1) as [->|H]; [left; apply Hcurk; now rewrite <- Hr3|right; exists r; auto].
      * intros d. rewrite Hdeps. apply J9.
      * rewrite Hft, E3, E5. exact J10.
      * rewrite Hft, HR. exact J11.
    + rewrite Hi, (in_progress_of_kind s s' root (HK root)). destruct T7 as [H|[(k & H)|[H|H]]]; auto; [right; left; exists k; now rewrite HR0|right; right; right; now apply Hcurk].
  - apply (BC_change rules F R (fun _ => false) s s'); auto; try discriminate; [intros k; rewrite HR0; apply HC|].
    intros y (r & Hu' & H1' & H2'). left. exists r. split; auto. now apply HU.
  - apply (BS_change rules env F R rank (fun _ => false) x s s'); auto; try discriminate.
    + intros y [H|[(k & H)|(t0 & z & Hz & H)]]; [left; congruence|right; left; exists k; now rewrite <- HR0|right; right].
      destruct (Hbw t0 z Hz) as (w & Hw & _ & _ & _ & _ & _ & Hd). exists t0, w. split; auto. now rewrite <- Hd.
    + intros k _. now rewrite HR0.
    + intros k _ [(y & H1 & H2)|(y & H1 & H2)]; [left; exists y; now rewrite Hts|right; exists y; now rewrite Hi].
Qed.

Lemma BInv_step_fininreq root x s : Inv rules ctx0 s -> BInv root x s -> nf (step_fininreq rules s) -> BInv root x (step_fininreq rules s).
Proof.
  intros HI HB Hn. destruct (is_fininreq s) as [|rq rest] eqn:Hq; [unfold step_fininreq; now rewrite Hq|].
  pose proof (Inv_sreq_scanning rules ctx0 s HI) as Hss.
  assert (Hnd : iq_task rq <> None). { destruct HI as (_ & _ & HI' & _). apply (i_fin_nd rules ctx0 s HI'). rewrite Hq. now left. }
  destruct (iq_task rq) as [t|] eqn:Et; [|contradiction].
  pose proof (Inv_pop_fininreq rules ctx0 s rq rest Hq HI) as HI1.
  destruct (waiting_of_request rules (cx_set_fi ctx0 (rq :: cx_fi ctx0)) (upd_fininreq s rest) t rq (cx_fi ctx0) eq_refl Et HI1) as (ti & Hg & _).
  change (aget (is_tasks (upd_fininreq s rest)) t) with (task_of s t) in Hg.
  destruct (step_fininreq_self s rq rest t ti Hq Et Hg Hn) as (ti1 & Hg1 & Ed1 & Ef1).
  destruct (iq_order rq) eqn:Eo.
  - unfold step_fininreq in *. rewrite Hq in *. unfold deliver in *. rewrite Et, Eo in *. cbn zeta in *.
    destruct (decrement_wait_views (upd_fininreq s rest) t Hn) as (W1 & W2 & Wx & W3 & W4 & W5 & W6 & W7 & W8).
    assert (Hst : same_task ti ti1).
    { destruct (tcore_task (upd_fininreq s rest) _ t ti (W2 t) Hg) as (z & Hz & Hc). rewrite Hg1 in Hz. inversion Hz. subst z.
      apply core_fields in Hc. destruct Hc as (C1 & C2 & C3 & C4). unfold same_task. auto 7. }
    apply (BInv_drop_order root x s _ rq rest HB Hss Hq Eo); auto.
    + intros t0 y Hy. destruct (N.eq_dec t0 t) as [->|Hne].
      * rewrite Hg in Hy. inversion Hy. subst y. exists ti1. auto.
      * exists y. split; [rewrite (Wx t0 Hne); exact Hy|unfold same_task; auto 7].
    + intros t0 z Hz. destruct (N.eq_dec t0 t) as [->|Hne].
      * rewrite Hg1 in Hz. inversion Hz. subst z. exists ti. auto.
      * exists z. split; [pose proof (Wx t0 Hne) as E; change (task_of (upd_fininreq s rest) t0) with (task_of s t0) in E; congruence|unfold same_task; auto 7].
  - pose proof HB as (HT & _).
    assert (Hrq : Oreq2 s rq) by (right; right; rewrite Hq; now left).
    destruct (b_req _ _ _ _ _ _ HT rq Hrq) as [Hw _]. destruct (Hw t Et Eo) as (Hkey & ti0 & Hg0 & Hsl). rewrite Hg in Hg0. inversion Hg0. subst ti0.
    assert (Hval : res_value (res_of s (iq_input rq)) = cvK (iq_input rq)).
    { apply (b_cur _ _ _ _ _ _ HT). apply (b_fin _ _ _ _ _ _ HT). rewrite Hq. now left. }
    destruct (step_fininreq_delivered_gen s rq rest t ti HI Hq Et Eo Hg Hkey Hsl Hval Hn) as (ti' & ks & HD).
    pose proof (dl_self _ _ _ _ _ _ _ _ _ _ _ _ HD) as Hs'. rewrite Hg1 in Hs'. inversion Hs'. subst ti'.
    apply (BInv_delivered root x s _ rq rest t ti ti1 ks HB Hss Et Eo Hg HD); auto.
Qed.
End Inc.
