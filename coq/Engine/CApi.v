(* The binding layer between the libllbuild C interface (products/libllbuild/include/llbuild/core.h) and the C++ build
   engine (include/llbuild/Core/BuildEngine.h): a transliteration of products/libllbuild/Core-C-API.cpp.
   Every C entry point is a constructor of [ccall] carrying its C arguments, every C++ member function it reaches is a
   constructor of [cppcall]; [forward] is the argument conversion the .cpp file performs.  Likewise [backward] for the
   callbacks the engine makes on CAPIRule / CAPITask / CAPIBuildEngineDelegate objects.
   Definitions only (proofs: CApiProofs.v). *)
From LLB Require Import Base.Bytes.
Local Open Scope N_scope.

(* ------------------------------------------------------------------ llb_data_t *)

(* typedef struct { uint64_t length; const uint8_t* data; } llb_data_t;
   [d_mem] is what memory holds from the [data] pointer onwards: for a valid argument at least [d_length] bytes, then
   whatever the client's memory happens to contain. *)
Record cdata := mkData { d_length : N; d_mem : bytes }.

Definition valid_data (d : cdata) : Prop := (N.to_nat (d_length d) <= length (d_mem d))%nat.
(* no byte of memory is modelled beyond the blob *)
Definition exact_data (d : cdata) : Prop := length (d_mem d) = N.to_nat (d_length d).

(* KeyType(data, length), std::string(data, length),
   std::vector<uint8_t> result(d->length); memcpy(result.data(), d->data, d->length) : exactly [length] bytes *)
Definition copy_n (d : cdata) : bytes := firstn (N.to_nat (d_length d)) (d_mem d).

(* what `std::string(data)` / `KeyType(const char* key)` would do instead (NOT what the code does): read up to the first NUL,
   ignoring [length] *)
Fixpoint c_str (m : bytes) : bytes :=
  match m with
  | [] => []
  | b :: t => if N.eqb b 0 then [] else b :: c_str t
  end.
Definition copy_cstr (d : cdata) : bytes := c_str (d_mem d).

(* how a client hands over the byte string [b]: its length and a pointer to memory that holds b followed by [rest] *)
Definition data_of (b rest : bytes) : cdata := mkData (N.of_nat (length b)) (b ++ rest).

(* llb_data_t{ key.size(), key.data() } for a std::string: the characters are followed by the terminator *)
Definition out_string (s : bytes) : cdata := mkData (N.of_nat (length s)) (s ++ [0]).
(* llb_data_t{ value.size(), value.data() } for a std::vector<uint8_t> *)
Definition out_vector (v : bytes) : cdata := mkData (N.of_nat (length v)) v.

Fixpoint nul_free (b : bytes) : bool :=
  match b with [] => true | x :: t => negb (N.eqb x 0) && nul_free t end.

(* ------------------------------------------------------------------ handles *)

Definition ptr := N.
(* llb_task_interface_t { void* impl; void* ctx; } and core::TaskInterface { void* impl; void* ctx; } : converted with
   reinterpret_cast in both directions, i.e. field by field *)
Record c_ti := mkCTi { cti_impl : ptr; cti_ctx : ptr }.
Record cpp_ti := mkTi { ti_impl : ptr; ti_ctx : ptr }.
Definition ti_in (t : c_ti) : cpp_ti := mkTi (cti_impl t) (cti_ctx t).
Definition ti_out (t : cpp_ti) : c_ti := mkCTi (ti_impl t) (ti_ctx t).

(* ------------------------------------------------------------------ calls: C client -> engine *)

Inductive ccall :=
| CAttachDB (engine : ptr) (path : cdata) (schema_version : N)          (* llb_buildengine_attach_db; uint32_t *)
| CBuild (engine : ptr) (key : cdata)                                   (* llb_buildengine_build *)
| CTaskNeedsInput (ti : c_ti) (key : cdata) (input_id : N)              (* llb_buildengine_task_needs_input; uintptr_t *)
| CTaskMustFollow (ti : c_ti) (key : cdata)                             (* llb_buildengine_task_must_follow *)
| CTaskDiscoveredDependency (ti : c_ti) (key : cdata)                   (* llb_buildengine_task_discovered_dependency *)
| CTaskIsComplete (ti : c_ti) (value : cdata) (force_change : bool).    (* llb_buildengine_task_is_complete *)

Inductive cppcall :=
| PAttachSQLite (engine : ptr) (path : bytes) (clientSchemaVersion : N) (recreateUnmatchedVersion : bool)
                                                                        (* createSQLiteBuildDB(..) + engine.attachDB *)
| PBuild (engine : ptr) (key : bytes)                                   (* BuildEngine::build *)
| PRequest (ti : cpp_ti) (key : bytes) (inputID : N)                    (* TaskInterface::request *)
| PMustFollow (ti : cpp_ti) (key : bytes)                               (* TaskInterface::mustFollow *)
| PDiscoveredDependency (ti : cpp_ti) (key : bytes)                     (* TaskInterface::discoveredDependency *)
| PComplete (ti : cpp_ti) (value : bytes) (forceChange : bool).         (* TaskInterface::complete *)

(* Core-C-API.cpp, lines 189-247 *)
Definition forward (c : ccall) : cppcall :=
  match c with
  | CAttachDB e path v => PAttachSQLite e (copy_n path) v true
  | CBuild e key => PBuild e (copy_n key)
  | CTaskNeedsInput ti key id => PRequest (ti_in ti) (copy_n key) id
  | CTaskMustFollow ti key => PMustFollow (ti_in ti) (copy_n key)
  | CTaskDiscoveredDependency ti key => PDiscoveredDependency (ti_in ti) (copy_n key)
  | CTaskIsComplete ti value force => PComplete (ti_in ti) (copy_n value) force
  end.

(* the file as it was before the repair 9068215: `coreti->complete(std::move(result));` (forceChange defaults to false) *)
Definition forward_v0 (c : ccall) : cppcall :=
  match c with
  | CTaskIsComplete ti value _ => PComplete (ti_in ti) (copy_n value) false
  | _ => forward c
  end.

(* three hypothetical one-line deviations, kept to state what the faithfulness theorems exclude:
   a key read as a C string in one entry point only; the input id narrowed to 32 bits; the schema version not passed on *)
Definition forward_cstr_follow (c : ccall) : cppcall :=
  match c with
  | CTaskMustFollow ti key => PMustFollow (ti_in ti) (copy_cstr key)
  | _ => forward c
  end.
Definition forward_id32 (c : ccall) : cppcall :=
  match c with
  | CTaskNeedsInput ti key id => PRequest (ti_in ti) (copy_n key) (id mod 4294967296)
  | _ => forward c
  end.
(* a further hypothetical deviation: a zero-length value completes through `complete(ValueType())`, losing force_change *)
Definition forward_empty_noforce (c : ccall) : cppcall :=
  match c with
  | CTaskIsComplete ti value force =>
      if N.eqb (d_length value) 0 then PComplete (ti_in ti) [] false else PComplete (ti_in ti) (copy_n value) force
  | _ => forward c
  end.
Definition forward_noschema (c : ccall) : cppcall :=
  match c with
  | CAttachDB e path _ => PAttachSQLite e (copy_n path) 0 true
  | _ => forward c
  end.

(* two C calls mean the same when they are the same entry point with the same scalar arguments and blobs holding the
   same [length] bytes (what lies in memory behind a blob is not part of the argument) *)
Definition same_data (a b : cdata) : Prop := copy_n a = copy_n b.
Definition same_call (a b : ccall) : Prop :=
  match a, b with
  | CAttachDB e p v, CAttachDB e' p' v' => e = e' /\ same_data p p' /\ v = v'
  | CBuild e k, CBuild e' k' => e = e' /\ same_data k k'
  | CTaskNeedsInput t k i, CTaskNeedsInput t' k' i' => t = t' /\ same_data k k' /\ i = i'
  | CTaskMustFollow t k, CTaskMustFollow t' k' => t = t' /\ same_data k k'
  | CTaskDiscoveredDependency t k, CTaskDiscoveredDependency t' k' => t = t' /\ same_data k k'
  | CTaskIsComplete t v f, CTaskIsComplete t' v' f' => t = t' /\ same_data v v' /\ f = f'
  | _, _ => False
  end.

Definition call_blob (c : ccall) : cdata :=
  match c with
  | CAttachDB _ d _ | CBuild _ d | CTaskNeedsInput _ d _ | CTaskMustFollow _ d | CTaskDiscoveredDependency _ d
  | CTaskIsComplete _ d _ => d
  end.
Definition exact_call (c : ccall) : Prop := exact_data (call_blob c).
(* C integer types of the scalar arguments *)
Definition wf_call (c : ccall) : Prop :=
  valid_data (call_blob c) /\
  match c with
  | CAttachDB _ _ v => v < 4294967296
  | CTaskNeedsInput _ _ i => i < 18446744073709551616
  | _ => True
  end.

(* ------------------------------------------------------------------ rules: what lookup_rule returns *)

(* llb_rule_t as filled in by the client's lookup_rule (function pointers: present or null; create_task is asserted) *)
Record crule := mkCRule { cr_context : ptr; cr_key : cdata; cr_has_valid : bool; cr_has_status : bool }.
(* the CAPIRule object: core::Rule{key, signature} + the stored struct + the engine delegate's context *)
Record capi_rule := mkCapiRule { ar_key : bytes; ar_signature : N; ar_rule : crule; ar_engine_context : ptr }.
(* CAPIBuildEngineDelegate::lookupRule: `new CAPIRule(key)` - Rule(key) with the default (null) signature; the key is
   the one the engine asked for, llb_rule_t.key is never read *)
Definition wrap_rule (engine_context : ptr) (lookup_key : bytes) (r : crule) : capi_rule :=
  mkCapiRule lookup_key 0 r engine_context.

(* llb_task_delegate_t (start / provide_value / inputs_available are asserted non-null by CAPITask) *)
Record ctask := mkCTask { ct_context : ptr }.

(* ------------------------------------------------------------------ callbacks: engine -> C client *)

Inductive cppcallback :=
| BLookupRule (key : bytes)                                             (* BuildEngineDelegate::lookupRule *)
| BCreateTask (r : capi_rule)                                           (* Rule::createTask *)
| BIsResultValid (r : capi_rule) (value : bytes)                        (* Rule::isResultValid *)
| BUpdateStatus (r : capi_rule) (status : N)                            (* Rule::updateStatus *)
| BStart (t : ctask) (ti : cpp_ti)                                      (* Task::start *)
| BProvidePriorValue (t : ctask) (ti : cpp_ti) (value : bytes)          (* Task::providePriorValue: not overridden *)
| BProvideValue (t : ctask) (ti : cpp_ti) (inputID : N) (key value : bytes)   (* Task::provideValue *)
| BInputsAvailable (t : ctask) (ti : cpp_ti)                            (* Task::inputsAvailable *)
| BNeedsToRun (key : bytes) (reason : N) (input : option bytes)         (* determinedRuleNeedsToRun: not overridden *)
| BCycleDetected (keys : list bytes)                                    (* BuildEngineDelegate::cycleDetected *)
| BError (message : bytes).                                             (* BuildEngineDelegate::error *)

Inductive ccallback :=
| KLookupRule (context : ptr) (key : cdata)
| KCreateTask (context engine_context : ptr)
| KIsResultValid (context engine_context : ptr) (rule : crule) (result : cdata)
| KUpdateStatus (context engine_context : ptr) (kind : N)
| KStart (context engine_context : ptr) (ti : c_ti)
| KProvideValue (context engine_context : ptr) (ti : c_ti) (input_id : N) (value : cdata)
| KInputsAvailable (context engine_context : ptr) (ti : c_ti)
| KCycleDetected (context : ptr) (keys : list cdata) (key_count : N)
| KError (context : ptr) (message : bytes).                             (* const char*: what a C reader sees, up to NUL *)

(* Core-C-API.cpp, lines 31-167.  [ectx]: cAPIDelegate.context of the engine delegate.  None: the binding makes no C
   callback for this engine callback. *)
Definition backward (ectx : ptr) (b : cppcallback) : option ccallback :=
  match b with
  | BLookupRule key => Some (KLookupRule ectx (out_string key))
  | BCreateTask r => Some (KCreateTask (cr_context (ar_rule r)) (ar_engine_context r))
  | BIsResultValid r v =>
      if cr_has_valid (ar_rule r)
      then Some (KIsResultValid (cr_context (ar_rule r)) (ar_engine_context r) (ar_rule r) (out_vector v))
      else None
  | BUpdateStatus r s =>
      if cr_has_status (ar_rule r) then Some (KUpdateStatus (cr_context (ar_rule r)) (ar_engine_context r) s) else None
  | BStart t ti => Some (KStart (ct_context t) ectx (ti_out ti))
  | BProvidePriorValue _ _ _ => None
  | BProvideValue t ti id _ v => Some (KProvideValue (ct_context t) ectx (ti_out ti) id (out_vector v))
  | BInputsAvailable t ti => Some (KInputsAvailable (ct_context t) ectx (ti_out ti))
  | BNeedsToRun _ _ _ => None
  | BCycleDetected keys => Some (KCycleDetected ectx (map out_string keys) (N.of_nat (length keys)))
  | BError m => Some (KError ectx (c_str m))
  end.

(* the answer the engine receives from isResultValid: the client's, or true when the callback pointer is null *)
Definition valid_answer (r : crule) (client_answer : bool) : bool :=
  if cr_has_valid r then client_answer else true.

(* CAPIRule::isResultValid as a function: what the engine is told, given the client's callback (which reads the blob it is
   shown with its length).  The stored value is handed over whatever it consists of - the empty value included. *)
Definition valid_thunk (r : crule) (client : bytes -> bool) (v : bytes) : bool :=
  if cr_has_valid r then client (copy_n (out_vector v)) else true.
(* a hypothetical deviation (NOT the code): an empty stored value is declared invalid without asking the client *)
Definition valid_thunk_skip_empty (r : crule) (client : bytes -> bool) (v : bytes) : bool :=
  if cr_has_valid r then match v with [] => false | _ => client (copy_n (out_vector v)) end else true.

(* input ids: BuildEngine::kMaximumInputID = ~(uintptr_t)0xFF; BuildEngine::taskNeedsInput rejects ids GREATER than it (error
   callback, build cancelled).  The provideValue thunk itself has no id guard: whatever id the engine delivers is handed on. *)
Definition kMaximumInputID : N := 18446744073709551360.
Definition capi_input_id_ok (id : N) : bool := id <=? kMaximumInputID.
(* what a task requesting (key, id) through the C interface is eventually shown for it: the id and the value, or nothing
   when the engine rejects the request *)
Definition request_then_provide (ectx : ptr) (t : ctask) (ti : c_ti) (key : cdata) (id : N) (value : bytes) : option ccallback :=
  match forward (CTaskNeedsInput ti key id) with
  | PRequest ti' key' id' => if capi_input_id_ok id' then backward ectx (BProvideValue t ti' id' key' value) else None
  | _ => None
  end.
(* a hypothetical deviation (NOT the code): the thunk drops deliveries whose id is >= kMaximumInputID (off by one) *)
Definition backward_provide_guard_ge (ectx : ptr) (t : ctask) (ti : cpp_ti) (id : N) (key value : bytes) : option ccallback :=
  if kMaximumInputID <=? id then None else backward ectx (BProvideValue t ti id key value).

(* llb_buildengine_build: *result_out = llb_data_t{ result.size(), result.data() } *)
Definition build_result (v : bytes) : cdata := out_vector v.

(* what a C client can read from a callback (blobs read with their length) *)
Inductive cview :=
| VLookupRule (context : ptr) (key : bytes)
| VCreateTask (context engine_context : ptr)
| VIsResultValid (context engine_context rule_context : ptr) (result : bytes)
| VUpdateStatus (context engine_context : ptr) (kind : N)
| VStart (context engine_context : ptr) (ti : c_ti)
| VProvideValue (context engine_context : ptr) (ti : c_ti) (input_id : N) (value : bytes)
| VInputsAvailable (context engine_context : ptr) (ti : c_ti)
| VCycleDetected (context : ptr) (keys : list bytes)
| VError (context : ptr) (message : bytes).

Definition view (k : ccallback) : cview :=
  match k with
  | KLookupRule c key => VLookupRule c (copy_n key)
  | KCreateTask c e => VCreateTask c e
  | KIsResultValid c e r v => VIsResultValid c e (cr_context r) (copy_n v)
  | KUpdateStatus c e s => VUpdateStatus c e s
  | KStart c e ti => VStart c e ti
  | KProvideValue c e ti id v => VProvideValue c e ti id (copy_n v)
  | KInputsAvailable c e ti => VInputsAvailable c e ti
  | KCycleDetected c keys n => VCycleDetected c (firstn (N.to_nat n) (map copy_n keys))
  | KError c m => VError c m
  end.

(* update_status over a history of notifications for one rule (the rule object lives as long as the engine, across builds): the
   thunk is stateless, every notification is passed on *)
Definition status_trace (ectx : ptr) (r : capi_rule) (ss : list N) : list (option cview) :=
  map (fun s => option_map view (backward ectx (BUpdateStatus r s))) ss.
(* a hypothetical deviation (NOT the code): only transitions are reported, remembered in the rule object *)
Fixpoint dedup_statuses (last : option N) (ss : list N) : list N :=
  match ss with
  | [] => []
  | s :: t =>
    match last with
    | Some l => if N.eqb l s then dedup_statuses last t else s :: dedup_statuses (Some s) t
    | None => s :: dedup_statuses (Some s) t
    end
  end.

(* ------------------------------------------------------------------ serialised form used by the correspondence check *)
(* calls and callbacks as (tag, blob, number, flag) tuples: harness/py/props/c20.py feeds the raw C arguments logged by
   harness/cpp/capi_driver.c through [forward] / [backward] and compares with the C++ side's events *)
Definition tag_of_cpp (p : cppcall) : N * bytes * N * bool :=
  match p with
  | PAttachSQLite _ path v r => (0, path, v, r)
  | PBuild _ k => (1, k, 0, false)
  | PRequest _ k i => (2, k, i, false)
  | PMustFollow _ k => (3, k, 0, false)
  | PDiscoveredDependency _ k => (4, k, 0, false)
  | PComplete _ v f => (5, v, 0, f)
  end.
Definition ccall_of_tag (tag : N) (blob : cdata) (num : N) (flag : bool) : option ccall :=
  let ti := mkCTi 1 2 in
  match tag with
  | 0 => Some (CAttachDB 1 blob num)
  | 1 => Some (CBuild 1 blob)
  | 2 => Some (CTaskNeedsInput ti blob num)
  | 3 => Some (CTaskMustFollow ti blob)
  | 4 => Some (CTaskDiscoveredDependency ti blob)
  | 5 => Some (CTaskIsComplete ti blob flag)
  | _ => None
  end.
Definition forward_tagged (tag : N) (len : N) (mem : bytes) (num : N) (flag : bool) : option (N * bytes * N * bool) :=
  option_map (fun c => tag_of_cpp (forward c)) (ccall_of_tag tag (mkData len mem) num flag).

(* provideValue(id, key, value) as the C callback sees it: (input_id, value bytes) *)
Definition backward_provide (id : N) (key value : bytes) : option (N * bytes) :=
  match backward 0 (BProvideValue (mkCTask 0) (mkTi 1 2) id key value) with
  | Some k => match view k with VProvideValue _ _ _ i v => Some (i, v) | _ => None end
  | None => None
  end.
Definition backward_lookup (key : bytes) : option bytes :=
  match backward 0 (BLookupRule key) with
  | Some k => match view k with VLookupRule _ key' => Some key' | _ => None end
  | None => None
  end.
Definition backward_cycle (keys : list bytes) : option (list bytes) :=
  match backward 0 (BCycleDetected keys) with
  | Some k => match view k with VCycleDetected _ ks => Some ks | _ => None end
  | None => None
  end.
