(* ImplGen.v: the first-stage theorems (P19) over the steps under ANY queue discipline. *)
From LLB Require Import Engine.Rules Engine.Spec Engine.Impl Engine.ImplProofs Engine.ImplProofsSticky Engine.ImplProofsMono Engine.ImplProofsLoop
  Engine.ImplProofsInv Engine.ImplProofsInv2 Engine.ImplProofsInv3 Engine.ImplProofsInv4 Engine.ImplProofsInv5 Engine.ImplProofsInv6 Engine.ImplProofsInv7 Engine.ImplProofsInv8 Engine.ImplProofsInv9 Engine.ImplProofsStall Engine.ImplProofsRun
  Engine.ImplProofsAvail Engine.ImplProofsProto Engine.Protocol Engine.ImplGen Engine.ImplGenProofs Engine.ImplGenInv.
From LLB Require Engine.FindCycle Engine.FindCycleProofs.
From Coq Require Import List NArith Arith Lia Permutation.
Import ListNotations.

Section Thms.
Variable rules : key -> rule.
Variable env : key -> N.
Variable F : key -> N -> list value -> list N -> N -> N.
Variable ord : key -> list rkind.
Variable syncp : key -> bool.
Notation mstep_gen := (mstep_gen rules env F ord syncp).
Notation msteps_gen := (msteps_gen rules env F ord syncp).
Notation in_build_gen := (in_build_gen rules env F ord syncp).

(* ---------- monotonicity, at most once ---------- *)
Lemma R1_qperm s sp : qperm s sp -> R1 s sp.
Proof. intros H. destruct H; apply R1_frame; try (intros; now autorewrite with iv); intros Hf; unfold nf in *; now autorewrite with iv in Hf. Qed.
Lemma R1_mstep_gen s s' : mstep_gen s s' -> R1 s s'.
Proof.
  intros H. destruct (mstep_gen_head rules env F ord syncp s s' H) as (sp & [->|Hq] & Hs); [now apply (R1_mstep rules env F ord syncp)|].
  eapply R1_trans; [apply (R1_qperm s sp Hq)|now apply (R1_mstep rules env F ord syncp)].
Qed.
Lemma R1_msteps_gen s s' : msteps_gen s s' -> R1 s s'.
Proof. induction 1; [apply R1_refl|]. eapply R1_trans; eauto using R1_mstep_gen. Qed.

Theorem state_monotone_gen s s' : msteps_gen s s' -> nf s' -> nf s /\ is_epoch s' = is_epoch s /\ forall k, (krank s k <= krank s' k)%nat.
Proof. intros H Hn. destruct (R1_msteps_gen s s' H Hn) as (H1 & H2 & H3 & _). auto. Qed.
Theorem at_most_once_gen s s' : msteps_gen s s' -> nf s' ->
  exists l, is_log s' = l ++ is_log s /\ forall k, (count_ev (is_create k) l <= 1)%nat /\ (count_ev (is_avail k) l <= 1)%nat.
Proof.
  intros H Hn. destruct (R1_msteps_gen s s' H Hn) as (_ & _ & _ & l & Hl & Hok). exists l. split; auto.
  intros k. destruct (Hok k) as [[Ha _] [Hb _]]. auto.
Qed.

(* ---------- waitCount, inputsAvailable ---------- *)
Theorem waitcount_gen s0 root s : in_build_gen s0 root s -> forall t ti, aget (is_tasks s) t = Some ti -> ti_wait ti = outstanding_count s t.
Proof.
  intros H t ti Hg. apply (in_build_gen_Inv rules env F ord syncp) in H. destruct H as (_ & _ & HI & _). rewrite (i_wc rules ctx0 s HI t ti Hg). reflexivity.
Qed.

Lemma outstanding_count_qperm s sp t : qperm s sp -> outstanding_count sp t = outstanding_count s t.
Proof.
  intros H. destruct H as [l Hp|l Hp|l Hp|l Hp|l Hp]; unfold outstanding_count; autorewrite with iv; auto.
  - now rewrite (cnt_i_perm t _ _ Hp).
  - now rewrite (cnt_i_perm t _ _ Hp).
Qed.

Theorem inputs_available_at_zero_gen s0 root s s' l k :
  in_build_gen s0 root s -> mstep_gen s s' -> is_log s' = l ++ is_log s -> In (EAvail k) l ->
  exists ti, aget (is_tasks s) k = Some ti /\ kind_of s k = KWaiting /\ ti_wait ti = 0%nat /\ outstanding_count s k = 0%nat.
Proof.
  intros Hb Hm Hl Hin. pose proof (in_build_gen_Inv rules env F ord syncp s0 root s Hb) as HI.
  destruct (mstep_gen_head rules env F ord syncp s s' Hm) as (sp & Hsp & Hs).
  assert (HIp : Inv rules ctx0 sp) by (destruct Hsp as [->|Hq]; [exact HI|now apply (Inv_qperm rules ctx0 s sp Hq)]).
  assert (Hlog : is_log sp = is_log s) by (destruct Hsp as [->|Hq]; [reflexivity|destruct Hq; now autorewrite with iv]).
  assert (Htk : is_tasks sp = is_tasks s) by (destruct Hsp as [->|Hq]; [reflexivity|destruct Hq; now autorewrite with iv]).
  assert (Hkd : forall x, kind_of sp x = kind_of s x) by (intros x; destruct Hsp as [->|Hq]; [reflexivity|destruct Hq; reflexivity]).
  assert (Hoc : outstanding_count sp k = outstanding_count s k) by (destruct Hsp as [->|Hq]; [reflexivity|now apply outstanding_count_qperm]).
  rewrite <- Hlog in Hl. destruct (avail_only_ready rules env F ord syncp sp s' l k Hs Hl Hin) as (rest & Hq).
  destruct HIp as (_ & HT & HII & _).
  destruct (t_rd1 ctx0 sp HT k) as (ti & Hg & Hk & Hw); [rewrite Hq; now left|].
  exists ti. rewrite <- Htk, <- Hkd, <- Hoc. repeat split; auto. rewrite <- Hw. symmetry. rewrite (i_wc rules ctx0 sp HII k ti Hg). reflexivity.
Qed.

(* ---------- the protocol automaton of C06 ---------- *)
Lemma R2_qperm s sp : qperm s sp -> R2 s sp.
Proof.
  intros H Hn. assert (Hn0 : nf s) by (destruct H; unfold nf in *; now autorewrite with iv in Hn). split; auto.
  exists []. split; [destruct H; now autorewrite with iv|]. intros k q Hq. exists q. split; auto. destruct H; exact Hq.
Qed.
Lemma R2_mstep_gen s s' : Inv rules ctx0 s -> mstep_gen s s' -> R2 s s'.
Proof.
  intros HI H. destruct (mstep_gen_head rules env F ord syncp s s' H) as (sp & [->|Hq] & Hs); [now apply (R2_mstep rules env F ord syncp)|].
  eapply R2_trans; [apply (R2_qperm s sp Hq)|]. apply (R2_mstep rules env F ord syncp); auto. now apply (Inv_qperm rules ctx0 s sp Hq).
Qed.
Lemma R2_msteps_gen s s' : Inv rules ctx0 s -> msteps_gen s s' -> R2 s s'.
Proof.
  intros HI H. induction H as [|s s' s'' H IH Hs]; [apply R2_refl|].
  eapply R2_trans; [exact (IH HI)|]. apply R2_mstep_gen; auto. eapply Inv_msteps_gen; eauto.
Qed.
Theorem protocol_prefix_gen s0 root s : in_build_gen s0 root s ->
  exists l, is_log s = l ++ is_log (start_build (iemit (bump s0) (EBuildStart root)) root) /\
            forall k, proto_prefix_ok (provided (projl k l)) (projl k l) = true.
Proof.
  intros [Q M]. pose proof (Inv_start rules s0 root Q) as HI0.
  assert (Hn : nf s) by (apply (Inv_msteps_gen rules env F ord syncp _ _ M HI0)).
  destruct (R2_msteps_gen _ _ HI0 M Hn) as (_ & l & Hl & Hq). exists l. split; auto.
  intros k. destruct (Hq k HInit) as (q' & Hr & _).
  - cbn [qok]. destruct Q as (_ & _ & _ & _ & _ & _ & _ & _ & Q9). destruct (Q9 k) as (H1 & H2 & H3 & _).
    set (st := start_build (iemit (bump s0) (EBuildStart root)) root).
    assert (Hk : kind_of st k = kind_of s0 k) by (unfold st, start_build, kind_of; now autorewrite with iv).
    pose proof (rrank_le5 (is_epoch st) (rinfo_of st k)) as Hle. unfold krank. unfold rrank in *. fold (kind_of st k) in *. rewrite Hk in *.
    destruct (kind_of s0 k); try contradiction; try lia. destruct (N.eqb _ _); lia.
  - eapply runA_proto; eauto.
Qed.

(* ---------- the loop of Impl.v from a state reached under any discipline: stall, termination ---------- *)
Lemma Inv_finish_all s comps : Inv rules ctx0 s -> Inv rules ctx0 (fold_left (task_finish rules) comps s).
Proof. revert s. induction comps as [|t l IH]; intros s HI; cbn [fold_left]; auto. apply IH. now apply Inv_task_finish. Qed.
Lemma in_build_gen_finish_all s0 root s comps : in_build_gen s0 root s -> in_build_gen s0 root (fold_left (task_finish rules) comps s).
Proof.
  intros [Q M]. split; auto. revert s M. induction comps as [|t l IH]; intros s M; cbn [fold_left]; auto.
  apply IH. eapply msg_step; [exact M|apply ms_finish_gen].
Qed.
(* one iteration of the loop of Impl.v is a run of general steps *)
Theorem loop_iteration_msteps_gen stalled fuel s comps :
  nf (fst (loop_iteration_gen rules env F ord syncp stalled fuel s comps)) ->
  msteps_gen s (fst (loop_iteration_gen rules env F ord syncp stalled fuel s comps)).
Proof. intros Hn. apply msteps_msteps_gen. now apply loop_iteration_msteps. Qed.

Theorem stall_finds_cycle_gen stalled s0 root s fuel comps s' :
  in_build_gen s0 root s -> loop_iteration_gen rules env F ord syncp stalled fuel s comps = (s', StStall) -> live s' root ->
  FindCycle.no_dead_end (wait_graph s') root /\
  exists l, FindCycle.findcycle_names (wait_graph s') root (fc_linear_fuel (wait_graph s')) = FindCycle.FcDone l /\ l <> [].
Proof.
  intros Hb Hrun Hlive. destruct (loop_iteration_no_work _ _ _ _ _ _ _ _ _ _ _ Hrun) as (Hs' & Q1 & Q2 & Q3 & Q4 & Q5 & _ & Hst & _); [discriminate|].
  destruct (Hst eq_refl) as [Q6 _].
  assert (HI : Inv rules ctx0 s') by (rewrite Hs'; apply Inv_finish_all; eapply in_build_gen_Inv; eauto).
  assert (Hnd : FindCycle.no_dead_end (wait_graph s') root) by (apply (stall_no_dead_end rules); auto; repeat split; auto).
  split; auto. apply FindCycleProofs.fc_stall_linear; auto. apply fc_linear_fuel_enough.
Qed.
Theorem edges_real_gen s0 root s a b : in_build_gen s0 root s -> In (a, b) (wait_graph s) ->
  In a (requestable (rules b)) \/ In a (map d_key (res_deps (res_of s b))).
Proof. intros Hb Hin. apply (in_build_gen_Inv rules env F ord syncp) in Hb. now destruct (edge_facts rules s a b Hb Hin). Qed.
Theorem done_quiescent_gen s0 root s fuel comps s' :
  in_build_gen s0 root s -> loop_iteration rules env F ord syncp fuel s comps = (s', StDone) -> quiescent s'.
Proof.
  intros Hb Hrun. destruct (loop_iteration_no_work _ _ _ _ _ _ _ _ _ _ _ Hrun) as (Hs' & Q1 & Q2 & Q3 & Q4 & Q5 & _ & _ & Hst); [discriminate|].
  destruct (Hst eq_refl) as [Q6 Hns]. unfold stall_test in Hns. apply Bool.orb_false_iff in Hns. destruct Hns as [Hnt Hsc]. apply nonnil_false in Hnt.
  assert (HI : Inv rules ctx0 s') by (rewrite Hs'; apply Inv_finish_all; eapply in_build_gen_Inv; eauto).
  destruct HI as (Hn & HT & HI & HS).
  assert (Hnoscan : forall k, kind_of s' k <> KScanning).
  { intros k Hk. destruct (scanning_loaded s' k Hk) as (ri & Hri & Hr). apply aget_in in Hri.
    assert (Hex : existsb (fun e => kind_eqb (ri_kind (snd e)) KScanning) (is_rules s') = true).
    { apply existsb_exists. exists (k, ri). split; auto. cbn [snd]. unfold kind_of in Hk. rewrite Hr in Hk. rewrite Hk. reflexivity. }
    unfold any_scanning in Hsc. congruence. }
  repeat split; auto; try apply HT.
  - intros Hw. assert (Hip : is_in_progress s' k = true) by (apply in_progress_iff; now left). apply (t_tk ctx0 s' HT) in Hip. rewrite Hnt in Hip. now apply Hip.
  - intros Hw. assert (Hip : is_in_progress s' k = true) by (apply in_progress_iff; now right). apply (t_tk ctx0 s' HT) in Hip. rewrite Hnt in Hip. now apply Hip.
  - now apply (i_hyg rules ctx0 s' HI).
  - now apply (s_hyg ctx0 s' HS).
Qed.
End Thms.
