(* ImplGen.v: the first-stage theorems (P19) over the steps under ANY queue discipline. *)
From LLB Require Import Engine.Rules Engine.Spec Engine.Impl Engine.ImplProofs Engine.ImplProofsSticky Engine.ImplProofsMono Engine.ImplProofsLoop
  Engine.ImplProofsInv Engine.ImplProofsInv2 Engine.ImplProofsInv3 Engine.ImplProofsInv7 Engine.ImplProofsInv9 Engine.ImplProofsStall Engine.ImplProofsRun
  Engine.ImplProofsAvail Engine.ImplProofsProto Engine.Protocol Engine.ImplGen Engine.ImplGenProofs Engine.ImplGenInv.
From LLB Require Engine.FindCycle Engine.FindCycleProofs.
From Coq Require Import List NArith Arith Lia Permutation.
Import ListNotations.

Section Thms.
Variable rules : key -> rule.
Variable env : key -> N.
Variable F : key -> N -> list value -> list N -> N -> N.
Variable ord : key -> list rkind.
Variable syncp : key -> bool.
Notation mstep_gen := (mstep_gen rules env F ord syncp).
Notation msteps_gen := (msteps_gen rules env F ord syncp).
Notation in_build_gen := (in_build_gen rules env F ord syncp).

(* ---------- monotonicity, at most once ---------- *)
Lemma R1_qperm s sp : qperm s sp -> R1 s sp.
Proof. intros H. destruct H; apply R1_frame; try (intros; now autorewrite with iv); intros Hf; unfold nf in *; now autorewrite with iv in Hf. Qed.
Lemma R1_mstep_gen s s' : mstep_gen s s' -> R1 s s'.
Proof.
  intros H. destruct (mstep_gen_head rules env F ord syncp s s' H) as (sp & [->|Hq] & Hs); [now apply (R1_mstep rules env F ord syncp)|].
  eapply R1_trans; [apply (R1_qperm s sp Hq)|now apply (R1_mstep rules env F ord syncp)].
Qed.
Lemma R1_msteps_gen s s' : msteps_gen s s' -> R1 s s'.
Proof. induction 1; [apply R1_refl|]. eapply R1_trans; eauto using R1_mstep_gen. Qed.

Theorem state_monotone_gen s s' : msteps_gen s s' -> nf s' -> nf s /\ is_epoch s' = is_epoch s /\ forall k, (krank s k <= krank s' k)%nat.
Proof. intros H Hn. destruct (R1_msteps_gen s s' H Hn) as (H1 & H2 & H3 & _). auto. Qed.
Theorem at_most_once_gen s s' : msteps_gen s s' -> nf s' ->
  exists l, is_log s' = l ++ is_log s /\ forall k, (count_ev (is_create k) l <= 1)%nat /\ (count_ev (is_avail k) l <= 1)%nat.
Proof.
  intros H Hn. destruct (R1_msteps_gen s s' H Hn) as (_ & _ & _ & l & Hl & Hok). exists l. split; auto.
  intros k. destruct (Hok k) as [[Ha _] [Hb _]]. auto.
Qed.

(* ---------- waitCount, inputsAvailable ---------- *)
Theorem waitcount_gen s0 root s : in_build_gen s0 root s -> forall t ti, aget (is_tasks s) t = Some ti -> ti_wait ti = outstanding_count s t.
Proof.
  intros H t ti Hg. apply (in_build_gen_Inv rules env F ord syncp) in H. destruct H as (_ & _ & HI & _). rewrite (i_wc rules ctx0 s HI t ti Hg). reflexivity.
Qed.

Lemma outstanding_count_qperm s sp t : qperm s sp -> outstanding_count sp t = outstanding_count s t.
Proof.
  intros H. destruct H as [l Hp|l Hp|l Hp|l Hp|l Hp]; unfold outstanding_count; autorewrite with iv; auto.
  - now rewrite (cnt_i_perm t _ _ Hp).
  - now rewrite (cnt_i_perm t _ _ Hp).
Qed.

Theorem inputs_available_at_zero_gen s0 root s s' l k :
  in_build_gen s0 root s -> mstep_gen s s' -> is_log s' = l ++ is_log s -> In (EAvail k) l ->
  exists ti, aget (is_tasks s) k = Some ti /\ kind_of s k = KWaiting /\ ti_wait ti = 0%nat /\ outstanding_count s k = 0%nat.
Proof.
  intros Hb Hm Hl Hin. pose proof (in_build_gen_Inv rules env F ord syncp s0 root s Hb) as HI.
  destruct (mstep_gen_head rules env F ord syncp s s' Hm) as (sp & Hsp & Hs).
  assert (HIp : Inv rules ctx0 sp) by (destruct Hsp as [->|Hq]; [exact HI|now apply (Inv_qperm rules ctx0 s sp Hq)]).
  assert (Hlog : is_log sp = is_log s) by (destruct Hsp as [->|Hq]; [reflexivity|destruct Hq; now autorewrite with iv]).
  assert (Htk : is_tasks sp = is_tasks s) by (destruct Hsp as [->|Hq]; [reflexivity|destruct Hq; now autorewrite with iv]).
  assert (Hkd : forall x, kind_of sp x = kind_of s x) by (intros x; destruct Hsp as [->|Hq]; [reflexivity|destruct Hq; reflexivity]).
  assert (Hoc : outstanding_count sp k = outstanding_count s k) by (destruct Hsp as [->|Hq]; [reflexivity|now apply outstanding_count_qperm]).
  rewrite <- Hlog in Hl. destruct (avail_only_ready rules env F ord syncp sp s' l k Hs Hl Hin) as (rest & Hq).
  destruct HIp as (_ & HT & HII & _).
  destruct (t_rd1 ctx0 sp HT k) as (ti & Hg & Hk & Hw); [rewrite Hq; now left|].
  exists ti. rewrite <- Htk, <- Hkd, <- Hoc. repeat split; auto. rewrite <- Hw. symmetry. rewrite (i_wc rules ctx0 sp HII k ti Hg). reflexivity.
Qed.
End Thms.
