(* P19b stage 3, part 7: scanRule and demandRule on a state with a request in flight; one input request. *)
From LLB Require Import Engine.Rules Engine.Spec Engine.SpecInv1 Engine.Impl Engine.ImplProofs Engine.ImplProofsSticky Engine.ImplProofsMono Engine.ImplProofsInv
  Engine.ImplProofsInv2 Engine.ImplProofsInv3 Engine.ImplProofsInv4 Engine.ImplProofsInv5 Engine.ImplProofsInv6 Engine.ImplProofsInv7 Engine.ImplProofsInv8 Engine.ImplProofsInv9
  Engine.ImplVal1 Engine.ImplVal2 Engine.ImplVal3 Engine.ImplVal4 Engine.ImplVal5 Engine.ImplInc1 Engine.ImplInc2 Engine.ImplInc3 Engine.ImplInc4 Engine.ImplInc5 Engine.ImplInc6.
From Coq Require Import Arith Lia.
Local Open Scope N_scope.

(* the state with the requests in flight put back at the head of their queues: the invariant is stated on this state *)
Definition unpop (fi : list ireq) (fs : list sreq) (s : istate) : istate := upd_toscan (upd_inreq s (fi ++ is_inreq s)) (fs ++ is_toscan s).

Lemma sreq_scanning_unpop rules c fi fs s : Inv rules c s -> Forall (sreq_ok s) fs -> sreq_scanning (unpop fi fs s).
Proof.
  intros HI Hfs rq [H|H].
  - cbn in H. apply in_app_or in H. destruct H as [H|H]; [rewrite Forall_forall in Hfs; apply (Hfs rq H)|].
    apply (Inv_sreq_scanning rules c s HI). now left.
  - apply (Inv_sreq_scanning rules c s HI). right. exact H.
Qed.

Section Inc.
Variable rules : key -> rule.
Variable env : key -> N.
Variable F : key -> N -> list value -> list N -> N -> N.
Variable rank : key -> nat.
Variable R : key -> N -> rule.
Variable ord : key -> list rkind.
Hypothesis Hrank : wf_rank rules rank.
Hypothesis Hwfd : wf_disc rules.
Hypothesis HRt : table_ok rules R.
Hypothesis Hord : forall k, In RReq (ord k).
Notation cvK := (cvK rules env F rank).
Notation bkK := (bkK rules env F rank).
Notation n1 := (n1 rules).
Notation n2 := (n2 rules).
Notation key_of_slot := (key_of_slot rules env F rank).
Notation task_ok2 := (task_ok2 rules env F rank).
Notation concl := (concl F R).
Notation rowok := (rowok F R).
Notation BT := (BT rules env F rank).
Notation BC := (BC rules F R).
Notation BS := (BS rules env F rank R).
Notation BInv := (BInv rules env F rank R).

Lemma ri_begin_scan_hyg ri : ri_paused ri = [] -> ri_deferred ri = [] -> ri_begin_scan ri = ri_with_kind KScanning ri.
Proof. unfold ri_begin_scan, ri_with_kind. now intros -> ->. Qed.

Lemma BInv_scan_rule root c fi fs s k : Inv rules c s -> BInv root None (unpop fi fs s) -> Forall (sreq_ok s) fs -> pending_for (unpop fi fs s) k ->
  exists b s1, scan_rule rules env s k = (b, s1) /\ BInv root (if b then None else Some k) (unpop fi fs s1) /\
    (b = false -> kind_of s k <> KScanning -> ri_paused (rinfo_of s1 k) = [] /\ ri_deferred (rinfo_of s1 k) = []).
Proof.
  intros HI HB Hfs Hpe. pose proof (sreq_scanning_unpop rules c fi fs s HI Hfs) as Hss.
  pose proof HB as (HT & HC & HS).
  destruct (scan_rule_gen rules env s k (b_nc _ _ _ _ HC k)) as (b & s1 & ri1 & Esc & RI & E1 & E2 & E3 & E4 & E5 & E6 & E7 & Hout).
  exists b, s1. split; [exact Esc|].
  set (su := unpop fi fs s) in *. set (su1 := unpop fi fs s1).
  assert (Hsame : ri1 = rinfo_of s k -> is_toscan s1 = is_toscan s -> BInv root (if b then None else Some k) su1).
  { intros -> Ets. assert (HBf : BInv root None su1).
    { apply (BInv_frame rules env F rank R root None su su1); auto; unfold su, su1, unpop; autorewrite with iv; try congruence.
      intros k'. change (rinfo_of (upd_toscan (upd_inreq s1 _) _) k') with (rinfo_of s1 k'). rewrite RI. destruct (N.eqb k' k) eqn:E; auto. apply N.eqb_eq in E. now subst. }
    destruct HBf as (A1 & A2 & A3). split; [|split]; auto. now apply BS_weaken. }
  assert (Hre : forall kd', ri1 = ri_with_kind kd' (ri_clean_single (rinfo_of s k)) -> is_scanned s k = false -> kind_of s k <> KScanning ->
            (forall rq, In rq (is_toscan su1) <-> (kd' = KScanning /\ rq = mkSReq k 0%nat None false false) \/ In rq (is_toscan su)) ->
            (kd' = KNeedsToRun \/ (kd' = KDoesNotNeedToRun /\ bAt su k <> 0 /\ valid rules env k (res_of su k) = true /\ drop_single (deps su k) = [] /\ pending_for su k /\ res_sig (res_of su k) = r_sig (rules k)) \/
             (kd' = KScanning /\ bAt su k <> 0 /\ valid rules env k (res_of su k) = true /\ (if b then None else Some k) = Some k /\ res_sig (res_of su k) = r_sig (rules k))) ->
            BInv root (if b then None else Some k) su1).
  { intros kd' -> Hsc Hns Hts Hcase. apply (BInv_rekind rules env F rank R Hrank Hwfd HRt root _ su su1 k kd'); auto; unfold su, su1, unpop; autorewrite with iv; try congruence.
    unfold task_of. autorewrite with iv. destruct (aget (is_tasks s) k) eqn:Eg; auto. exfalso.
    assert (Hex : aget (is_tasks s) k <> None) by congruence. apply (t_tk c s (proj1 (proj2 HI))) in Hex.
    destruct (unscanned_not_curk s k Hsc Hns) as (_ & [I1 I2] & _). unfold is_in_progress in Hex. destruct (kind_of s k); try discriminate; contradiction. }
  destruct Hout as [(-> & Hsc & -> & Ets)|[(-> & Hk & -> & Ets)|[(-> & Hsc & Hns & -> & Ets)|[(-> & Hsc & Hns & Hb & Hv & Hd & Hsg & -> & Ets)|(-> & Hsc & Hns & Hb & Hv & Hd & Hsg & -> & Ets)]]]].
  - split; [now apply Hsame|]. discriminate.
  - split; [now apply Hsame|]. intros _ H. contradiction.
  - split; [|discriminate]. apply (Hre KNeedsToRun); auto.
    intros rq. unfold su1, su, unpop. cbn [is_toscan upd_toscan]. rewrite Ets. split; [now right|intros [[H _]|H]; [discriminate|auto]].
  - split; [|discriminate]. apply (Hre KDoesNotNeedToRun); auto.
    + intros rq. unfold su1, su, unpop. cbn [is_toscan upd_toscan]. rewrite Ets. split; [now right|intros [[H _]|H]; [discriminate|auto]].
    + right. left. repeat split; auto.
  - destruct HI as (_ & _ & HII & HSS). pose proof (i_hyg rules c s HII k Hns) as Hp0. pose proof (s_hyg c s HSS k Hns) as Hd0.
    split.
    + apply (Hre KScanning); auto; [now apply ri_begin_scan_hyg| |].
      * intros rq. unfold su1, su, unpop. cbn [is_toscan upd_toscan]. rewrite Ets. rewrite !in_app_iff. cbn [In]. split.
        -- intros [H|[H|H]]; auto.
        -- intros [[_ ->]|[H|H]]; auto.
      * right. right. repeat split; auto.
    + intros _ _. rewrite RI, N.eqb_refl. auto.
Qed.

(* demandRule on a rule that does not need to run: it is stamped complete *)
Lemma BInv_set_complete root su su1 k : BInv root None su -> sreq_scanning su -> kind_of su k = KDoesNotNeedToRun ->
  (forall k', rinfo_of su1 k' = if N.eqb k' k then ri_complete (is_epoch su) (rinfo_of su k) else rinfo_of su k') ->
  is_tasks su1 = is_tasks su -> is_inreq su1 = is_inreq su -> is_toscan su1 = is_toscan su -> is_fininreq su1 = is_fininreq su ->
  is_fintasks su1 = is_fintasks su -> is_usedb su1 = is_usedb su -> is_epoch su1 = is_epoch su -> BInv root None su1.
Proof.
  intros (HT & HC & HS) Hss Hk RI Htk Hi Hts Hf Hft Hu He.
  destruct (b_dn _ _ _ _ _ _ _ HS k Hk) as ((v & Hv & Hcv & Hco) & Hdc & Hb0 & Hpe & Hsg0).
  assert (Erl : rule_of R su k = rules k) by (unfold rule_of; rewrite Hsg0; apply HRt).
  assert (HK : forall k', kind_of su1 k' = if N.eqb k' k then KComplete else kind_of su k') by (intros k'; unfold kind_of; rewrite RI; now destruct (N.eqb k' k)).
  assert (HRo : forall k', k' <> k -> res_of su1 k' = res_of su k') by (intros k' Hne; unfold res_of; rewrite RI; apply N.eqb_neq in Hne; now rewrite Hne).
  assert (Hst : forall k', stored su1 k' = stored su k') by (intros k'; unfold stored, res_of; rewrite RI; destruct (N.eqb k' k) eqn:E; [apply N.eqb_eq in E; subst|]; reflexivity).
  assert (Hca : forall k', cAt su1 k' = cAt su k') by (intros k'; unfold cAt, res_of; rewrite RI; destruct (N.eqb k' k) eqn:E; [apply N.eqb_eq in E; subst|]; reflexivity).
  assert (Hdp : forall k', deps su1 k' = deps su k') by (intros k'; unfold deps, res_of; rewrite RI; destruct (N.eqb k' k) eqn:E; [apply N.eqb_eq in E; subst|]; reflexivity).
  assert (HdpC : forall k', deps su1 k' = deps su k' \/ (deps su1 k' = drop_single (deps su k') /\ ~ curk su1 k' /\ bAt su1 k' = bAt su k')) by (intros; left; apply Hdp).
  assert (HdpS : forall k', kind_of su k' = KScanning \/ kind_of su k' = KDoesNotNeedToRun -> deps su1 k' = deps su k') by (intros; apply Hdp).
  assert (Hsg : forall k', res_sig (res_of su1 k') = res_sig (res_of su k')) by (intros k'; unfold res_of; rewrite RI; destruct (N.eqb k' k) eqn:E; [apply N.eqb_eq in E; subst|]; reflexivity).
  assert (Hba : forall k', bAt su1 k' = if N.eqb k' k then is_epoch su else bAt su k') by (intros k'; unfold bAt, res_of; rewrite RI; now destruct (N.eqb k' k)).
  assert (HL : forall k', ri_paused (rinfo_of su1 k') = ri_paused (rinfo_of su k') /\ ri_deferred (rinfo_of su1 k') = ri_deferred (rinfo_of su k') /\
                         ri_cancelled (rinfo_of su1 k') = ri_cancelled (rinfo_of su k')).
  { intros k'. rewrite RI. destruct (N.eqb k' k) eqn:E; auto. apply N.eqb_eq in E. now subst. }
  assert (Hc1 : forall k', curk su k' -> curk su1 k').
  { intros k' [H1 H2]. unfold curk. rewrite HK, Hba, He. destruct (N.eqb k' k); auto. }
  assert (Hck : curk su1 k) by (unfold curk; now rewrite HK, Hba, He, N.eqb_refl).
  assert (Hc2 : forall k', curk su1 k' -> k' = k \/ curk su k').
  { intros k' [H1 H2]. destruct (N.eq_dec k' k) as [E|E]; [now left|right]. rewrite HK, Hba, He in *. apply N.eqb_neq in E. rewrite E in *. split; auto. }
  assert (Htask : forall t, task_of su1 t = task_of su t) by (intros; unfold task_of; now rewrite Htk).
  assert (HU : forall rq, Unrouted su rq <-> Unrouted su1 rq) by (apply Unrouted_same; auto; intros k'; apply HL).
  assert (Hip : forall k', is_in_progress su1 k' = is_in_progress su k').
  { intros k'. unfold is_in_progress. rewrite HK. destruct (N.eqb k' k) eqn:E; auto. apply N.eqb_eq in E. subst k'. now rewrite Hk. }
  assert (Hne : forall k', kind_of su1 k' = KScanning \/ kind_of su1 k' = KDoesNotNeedToRun -> k' <> k /\ kind_of su1 k' = kind_of su k').
  { intros k'. rewrite HK. destruct (N.eqb k' k) eqn:E; [intros [H|H]; discriminate|]. apply N.eqb_neq in E. auto. }
  split; [|split].
  - apply (BT_rules_change rules env F rank root su su1 HT); auto.
    + intros k' H. destruct (Hc2 k' H) as [->|H']; [right; now rewrite Hv|now left].
    + intros rq H. now apply HU.
    + intros rq H _. now apply HU.
    + rewrite Hi, Hip. destruct (b_root _ _ _ _ _ _ HT) as [H|[(k0 & H)|[H|H]]];
        [left; exact H|right; left; exists k0; now rewrite (proj1 (HL k0))|right; right; left; exact H|right; right; right; now apply Hc1].
  - apply (BC_kinds rules F R su su1 HC); auto.
    + intros k'. rewrite (proj2 (proj2 (HL k'))). apply (b_nc _ _ _ _ HC).
    + intros k'. unfold idle. rewrite HK. destruct (N.eqb k' k) eqn:E; auto. apply N.eqb_eq in E. subst k'. rewrite Hk. intros _. split; discriminate.
    + intros k' H. left. now rewrite Hip.
    + intros y (rq & Hu' & H1' & H2'). left. exists rq. split; [now apply HU|auto].
    + intros k'. rewrite Hba. destruct (N.eqb k' k) eqn:E.
      * apply N.eqb_eq in E. subst k'. right. split; auto. split; [exact Hck|]. assert (Hidk : idle su k) by (unfold idle; rewrite Hk; split; discriminate).
        split; [exact Hidk|]. split; auto.
        assert (Hncu : ~ curk su k) by (intros [H _]; congruence).
        destruct (b_rows _ _ _ _ HC k Hidk Hb0 Hncu) as (v0 & _ & _ & Hm & _). rewrite Erl in Hm.
        destruct Hco as [_ Hrec]. cbn zeta in Hrec. rewrite Erl in Hrec. unfold ImplInc1.cstruct. cbn zeta.
        assert (Hreq : map (stored su1) (r_req (rules k)) = map (stored su) (r_req (rules k))) by (apply map_ext; intros; apply Hst).
        rewrite Hreq, Hdp, Hsg. split; [exact Hsg0|]. split; [|split].
        -- intros y Hy. assert (Hin : In (mkDep y false false) (deps su k)).
           { apply Hrec. apply in_app_or in Hy. destruct Hy as [Hy|Hy]; apply in_or_app; [now left|right; apply in_or_app; now left]. }
           split; auto. apply Hc1. apply (Hdc _ Hin).
        -- intros y Hy. apply Hrec. apply in_or_app. right. apply in_or_app. now right.
        -- intros d Hd. split; [now apply Hm|left; now apply Hc1, Hdc].
      * left. split; auto. intros H. destruct (Hc2 k' H) as [->|H']; auto. rewrite N.eqb_refl in E. discriminate.
  - apply (BS_kinds rules env F rank R None None su su1 HS); auto.
    + intros k' Hks. rewrite Hba. destruct (N.eqb k' k) eqn:E; auto. apply N.eqb_eq in E. subst k'. congruence.
    + intros rq [H|[(k0 & H)|(t0 & z & Hz & H)]]; left; [left; congruence|right; left; exists k0; now rewrite <- (proj1 (proj2 (HL k0)))|right; right; exists t0, z; now rewrite <- Htask].
    + intros rq [H|[(k0 & H)|(t0 & z & Hz & H)]]; left; [left; congruence|right; left; exists k0; now rewrite <- (proj1 (proj2 (HL k0)))|right; right; exists t0, z; now rewrite <- Htask].
    + intros k' Hk'. destruct (Hne k' (or_introl Hk')) as [E Hkk]. left. rewrite <- Hkk. split; auto. destruct (HL k') as (-> & -> & _). auto.
    + intros k' Hk'. destruct (Hne k' (or_intror Hk')) as [E Hkk]. left. rewrite <- Hkk. split; auto. rewrite Hba. apply N.eqb_neq in E. rewrite E. split; auto.
      intros [(rq & H1 & H2)|(rq & H1 & H2)]; [left; exists rq; now rewrite Hts|right; exists rq; now rewrite Hi].
Qed.

(* createTask, seen through any view that ignores the event log and the ready queue *)
Lemma create_task_view {A} (g : istate -> A) s k : (forall s e, g (iemit s e) = g s) -> (forall s q, g (upd_ready s q) = g s) ->
  kind_of s k = KNeedsToRun -> nf (create_task rules ord s k) -> g (create_task rules ord s k) = g (task_start rules ord (begin_task s k) k).
Proof.
  intros G1 G2 Hk Hn. unfold create_task in *. cbn zeta in *. rewrite Hk in *. cbn [kind_eqb check] in *.
  set (s2 := task_start rules ord (begin_task s k) k) in *.
  assert (Hp : g (prior_value rules s2 k) = g s2) by (unfold prior_value; cbn zeta; destruct (_ && _); auto).
  rewrite <- Hp. unfold ready_if_nowait in *. destruct (aget (is_tasks (prior_value rules s2 k)) k); [destruct (Nat.eqb _ _); auto|].
  exfalso. now apply nf_fault in Hn.
Qed.

Lemma create_task_gen s k : kind_of s k = KNeedsToRun -> nf (create_task rules ord s k) ->
  created rules ord s (create_task rules ord s k) k /\ rinfo_of (create_task rules ord s k) k = ri_begin_task (rinfo_of s k).
Proof.
  intros Hk Hn.
  set (s1 := begin_task s k) in *.
  assert (Hg1 : task_of s1 k = Some new_tinfo) by (unfold s1, task_of; rewrite begin_task_tasks; apply aget_aset_same).
  assert (Hn2 : nf (task_start rules ord s1 k)).
  { unfold create_task in Hn. cbn zeta in Hn. rewrite Hk in Hn. cbn [kind_eqb check] in Hn. apply sticky_ready_if_nowait in Hn. now apply sticky_prior_value in Hn. }
  pose proof (issues_task_start rules ord s1 k new_tinfo Hg1 Hn2) as [A1 A2 A3 A4 A5 A6 A7 A8 A9 A10].
  set (s2 := task_start rules ord s1 k) in *.
  assert (R1 : forall k', rinfo_of s1 k' = if N.eqb k' k then ri_begin_task (rinfo_of s k) else rinfo_of s k').
  { intros k'. unfold s1, begin_task. now autorewrite with iv. }
  assert (V : forall {A} (g : istate -> A), (forall s e, g (iemit s e) = g s) -> (forall s q, g (upd_ready s q) = g s) -> g (create_task rules ord s k) = g s2).
  { intros A g G1 G2. now apply create_task_view. }
  assert (VR : forall k', rinfo_of (create_task rules ord s k) k' = rinfo_of s2 k') by (intros k'; apply (V _ (fun x => rinfo_of x k')); intros; now autorewrite with iv).
  split.
  - constructor.
    + intros k' Hne. rewrite VR, A1, R1. apply N.eqb_neq in Hne. now rewrite Hne.
    + unfold kind_of. rewrite VR, A1, R1, N.eqb_refl. reflexivity.
    + unfold res_of. rewrite VR, A1, R1, N.eqb_refl. reflexivity.
    + unfold res_of. rewrite VR, A1, R1, N.eqb_refl. reflexivity.
    + intros t0 Hne. rewrite (V _ (fun x => task_of x t0)) by (intros; unfold task_of; now autorewrite with iv). rewrite (A3 t0 Hne).
      unfold s1, task_of. rewrite begin_task_tasks, aget_aset. apply N.eqb_neq in Hne. now rewrite Hne.
    + destruct (A4 _ Hg1) as (n & Hg2). exists n. rewrite (V _ (fun x => task_of x k)) by (intros; unfold task_of; now autorewrite with iv). exact Hg2.
    + rewrite (V _ is_inreq) by (intros; now autorewrite with iv). rewrite A2. reflexivity.
    + rewrite (V _ is_fininreq) by (intros; now autorewrite with iv). rewrite A5. reflexivity.
    + rewrite (V _ is_fintasks) by (intros; now autorewrite with iv). rewrite A6. reflexivity.
    + rewrite (V _ is_toscan) by (intros; now autorewrite with iv). rewrite A7. reflexivity.
    + rewrite (V _ is_usedb) by (intros; now autorewrite with iv). rewrite A9. reflexivity.
    + rewrite (V _ is_epoch) by (intros; now autorewrite with iv). rewrite A8. reflexivity.
  - rewrite VR, A1, R1, N.eqb_refl. reflexivity.
Qed.

Lemma in_group_reqs_used k rq : In rq (flat_map (group_reqs rules k) (ord k)) -> iq_order rq = false -> used rules k (iq_slot rq) -> iq_single rq = false.
Proof.
  intros H Hor Hu. apply in_flat_map in H. destruct H as (c & _ & H). destruct c; cbn [group_reqs] in H.
  - destruct (mk_reqs_inv _ _ _ _ _ H) as (j & x & Hj & ->). reflexivity.
  - destruct (mk_reqs_inv _ _ _ _ _ H) as (j & x & Hj & ->). cbn [iq_slot] in Hu. exfalso.
    assert (Hlt : (j < n2 k)%nat) by (apply nth_error_Some; unfold ImplVal1.n2; congruence). unfold used, ImplVal1.n1, ImplVal1.n2 in *. lia.
  - unfold mk_follows in H. apply in_map_iff in H. destruct H as (x & <- & _). discriminate.
Qed.

(* demandRule creates the task of a rule that needs to run *)
Lemma BInv_created root su su1 k : BInv root None su -> sreq_scanning su -> kind_of su k = KNeedsToRun -> task_of su k = None -> ~ In k (is_fintasks su) ->
  (forall k', rinfo_of su1 k' = if N.eqb k' k then ri_begin_task (rinfo_of su k) else rinfo_of su k') ->
  (forall t0, t0 <> k -> task_of su1 t0 = task_of su t0) ->
  (exists n, task_of su1 k = Some (ti_with_wait n (ti_with_slots (initial_slots (rules k)) new_tinfo))) ->
  is_inreq su1 = is_inreq su ++ flat_map (group_reqs rules k) (ord k) -> is_toscan su1 = is_toscan su -> is_fininreq su1 = is_fininreq su ->
  is_fintasks su1 = is_fintasks su -> is_usedb su1 = is_usedb su -> is_epoch su1 = is_epoch su -> BInv root None su1.
Proof.
  intros (HT & HC & HS) Hss Hk Hno Hnf RI C5 (n & Hnew) C7 Hts Hf Hft Hu He.
  set (tn := ti_with_wait n (ti_with_slots (initial_slots (rules k)) new_tinfo)) in *.
  set (news := flat_map (group_reqs rules k) (ord k)) in *.
  assert (HK : forall k', kind_of su1 k' = if N.eqb k' k then KWaiting else kind_of su k') by (intros k'; unfold kind_of; rewrite RI; now destruct (N.eqb k' k)).
  assert (HRo : forall k', k' <> k -> res_of su1 k' = res_of su k' /\ kind_of su1 k' = kind_of su k').
  { intros k' Hne. unfold res_of, kind_of. rewrite RI. apply N.eqb_neq in Hne. now rewrite Hne. }
  assert (HRk : res_of su1 k = res_with_deps (res_of su k) []) by (unfold res_of; rewrite RI, N.eqb_refl; reflexivity).
  assert (Hst : forall k', stored su1 k' = stored su k').
  { intros k'. destruct (N.eq_dec k' k) as [->|E]; [unfold stored; now rewrite HRk|unfold stored; now rewrite (proj1 (HRo k' E))]. }
  assert (Hdp : forall k', k' <> k -> deps su1 k' = deps su k') by (intros k' E; unfold deps; now rewrite (proj1 (HRo k' E))).
  assert (Hdk : deps su1 k = []) by (unfold deps; now rewrite HRk).
  assert (HL : forall k', ri_paused (rinfo_of su1 k') = ri_paused (rinfo_of su k') /\ ri_deferred (rinfo_of su1 k') = ri_deferred (rinfo_of su k')).
  { intros k'. rewrite RI. destruct (N.eqb k' k) eqn:E; auto. apply N.eqb_eq in E. now subst. }
  assert (Hcu : forall k', curk su1 k' <-> curk su k').
  { intros k'. destruct (N.eq_dec k' k) as [->|E].
    - unfold curk. rewrite HK, N.eqb_refl, Hk. split; intros [H _]; discriminate.
    - destruct (HRo k' E) as [Hr Hkk]. now apply curk_same. }
  assert (HU1 : forall y, Unrouted su y -> Unrouted su1 y).
  { intros y [H|(k0 & H)]; [left; rewrite C7; apply in_or_app; now left|right; exists k0; now rewrite (proj1 (HL k0))]. }
  assert (HU2 : forall y, Unrouted su1 y -> Unrouted su y \/ In y news).
  { intros y [H|(k0 & H)]; [rewrite C7 in H; apply in_app_or in H; destruct H; [left; now left|now right]|left; right; exists k0; now rewrite <- (proj1 (HL k0))]. }
  assert (O1 : forall y, Oreq2 su y -> Oreq2 su1 y).
  { intros y [H|[(t0 & z & Hz & Hin)|H]]; [left; now apply HU1| |right; right; congruence].
    right. left. exists t0, z. split; auto. rewrite C5; auto. intros ->. congruence. }
  assert (O2 : forall y, Oreq2 su1 y -> Oreq2 su y \/ In y news).
  { intros y [H|[(t0 & z & Hz & Hin)|H]]; [destruct (HU2 y H); [left; now left|now right]| |left; right; right; congruence].
    destruct (N.eq_dec t0 k) as [->|E].
    - rewrite Hnew in Hz. inversion Hz. subst z. destruct Hin.
    - left. right. left. exists t0, z. rewrite <- (C5 t0 E). auto. }
  assert (Hlen : length (ti_slots tn) = (n1 k + n2 k)%nat) by (cbn [tn ti_with_wait ti_with_slots ti_slots]; unfold initial_slots; now rewrite repeat_length).
  assert (Hnone : forall i, (i < n1 k + n2 k)%nat -> nth_error (ti_slots tn) i = Some None).
  { intros i Hi. cbn [tn ti_with_wait ti_with_slots ti_slots]. unfold initial_slots. now apply nth_error_repeat_none. }
  assert (Hwit : forall i x, (i < n1 k)%nat -> key_of_slot k i = Some x -> In (mkIReq (Some k) i x false false) news).
  { intros i x Hi Hx. unfold ImplVal1.key_of_slot in Hx. apply Nat.ltb_lt in Hi. rewrite Hi in Hx. now apply (req_witness rules ord Hord). }
  destruct HT as [T2 T3 T4 T5 T6 T7].
  split; [|split].
  - constructor.
    + congruence.
    + intros k' Hc. rewrite Hst. now apply T3, Hcu.
    + intros y Ho. destruct (O2 y Ho) as [Hold|Hn].
      * destruct (T4 y Hold) as [Hw Hsg]. split; auto. intros t0 Ht0 Hor. destruct (Hw t0 Ht0 Hor) as (H1 & z & Hz & Hl). split; auto. exists z. split; auto.
        rewrite C5; auto. intros ->. congruence.
      * destruct (in_group_reqs rules env ord F rank k y Hn) as (Htk & Hwf). split; [|intros t0 Ht0 Hor Hu0; rewrite Htk in Ht0; inversion Ht0; subst t0; now apply (in_group_reqs_used k)]. intros t0 Ht0 Hor. rewrite Htk in Ht0. inversion Ht0. subst t0.
        destruct (Hwf Hor) as (H1 & H2). split; auto. exists tn. split; auto. lia.
    + intros y. rewrite Hf. intros Hin. now apply Hcu, T5.
    + intros t0 y Hy. destruct (N.eq_dec t0 k) as [->|E].
      * rewrite Hnew in Hy. inversion Hy. subst y. constructor.
        -- rewrite Hlen. cbn [tn ti_with_wait ti_with_slots ti_branched new_tinfo]. lia.
        -- intros i v x Hv. destruct (Nat.lt_ge_cases i (n1 k + n2 k)) as [Hi|Hi]; [rewrite (Hnone i Hi) in Hv; discriminate|].
           assert (Hn0 : nth_error (ti_slots tn) i = None) by (apply nth_error_None; lia). congruence.
        -- intros i Hu' Hn0. assert (Hi : (i < n1 k + n2 k)%nat) by (rewrite <- Hlen; apply nth_error_Some; congruence).
           assert (Hi1 : (i < n1 k)%nat) by (unfold used in Hu'; lia).
           destruct (key_of_slot k i) as [x|] eqn:Ex.
           ++ exists (mkIReq (Some k) i x false false). cbn [iq_task iq_order iq_slot]. repeat split; auto. left. left. rewrite C7. apply in_or_app. right. apply Hwit; auto.
           ++ unfold ImplVal1.key_of_slot in Ex. assert (Hlt : Nat.ltb i (n1 k) = true) by (apply Nat.ltb_lt; lia). rewrite Hlt in Ex.
              apply nth_error_None in Ex. unfold ImplVal1.n1 in Hi1. lia.
        -- intros _ i a b _ Hi. apply Hnone. lia.
        -- cbn [tn ti_with_wait ti_with_slots ti_pending new_tinfo]. discriminate.
        -- rewrite Hft. intros H. contradiction.
        -- rewrite Hlen. intros i x Hu0 Hi Hx. assert (Hi1 : (i < n1 k)%nat) by (unfold used in Hu0; lia). left. exists (mkIReq (Some k) i x false false). cbn [iq_task iq_order iq_slot]. repeat split; auto.
           left. rewrite C7. apply in_or_app. right. apply Hwit; auto.
        -- rewrite Hdk. intros d [].
        -- rewrite Hdk. intros d [].
        -- rewrite Hft. cbn [tn ti_with_wait ti_with_slots ti_disc ti_pending new_tinfo]. split; [intros H; contradiction|]. split; [reflexivity|intros H; now contradiction H].
        -- rewrite Hft. intros H. contradiction.
      * rewrite (C5 t0 E) in Hy. destruct (T6 t0 y Hy) as [J1 J2 J3 J4 J5 J6 J7 J8 J9 J10 J11]. constructor.
        -- exact J1.
        -- exact J2.
        -- intros i Hu' Hn0. destruct (J3 i Hu' Hn0) as (z & Hoz & Hz'). exists z. split; auto.
        -- exact J4.
        -- exact J5.
        -- rewrite Hft, Hst. exact J6.
        -- intros i z Hu0 Hi Hz. rewrite (Hdp t0 E). destruct (J7 i z Hu0 Hi Hz) as [(w & Hw1 & Hw2)|Hr]; [left; exists w; split; auto|now right].
        -- rewrite (Hdp t0 E). intros d Hd. destruct (J8 d Hd) as [H|(w & Hw1 & Hw2)]; [left; now apply Hcu|right; exists w; split; auto].
        -- rewrite (Hdp t0 E). exact J9.
        -- rewrite Hft. exact J10.
        -- rewrite Hft, (proj1 (HRo t0 E)). exact J11.
    + destruct T7 as [H|[(k0 & H)|[H|H]]].
      * left. rewrite C7. apply in_or_app. now left.
      * right. left. exists k0. now rewrite (proj1 (HL k0)).
      * right. right. left. unfold is_in_progress in *. rewrite HK. destruct (N.eqb root k); auto.
      * right. right. right. now apply Hcu.
  - apply (BC_change rules F R (fun k' => N.eqb k' k) su su1); auto.
    + intros k'. rewrite RI. destruct (N.eqb k' k); [reflexivity|apply (b_nc _ _ _ _ HC)].
    + intros k' E. apply N.eqb_neq in E. now apply HRo.
    + intros k' E. apply N.eqb_eq in E. subst k'. split; [unfold unsettled; rewrite Hk; repeat split; discriminate|].
      split; [unfold is_in_progress; now rewrite HK, N.eqb_refl|]. unfold bAt. rewrite HRk. reflexivity.
    + intros k' E. apply N.eqb_eq in E. subst k'. left. unfold cAt. rewrite Hst, HRk. auto.
    + intros y (rq & Hu' & H1' & H2'). left. exists rq. split; [now apply HU1|auto].
  - apply (BS_change rules env F R rank (fun k' => N.eqb k' k) None su su1); auto.
    + intros k' E. apply N.eqb_neq in E. now apply HRo.
    + intros k' E. apply N.eqb_eq in E. subst k'. split; [unfold unsettled; rewrite Hk; repeat split; discriminate|unfold is_in_progress; now rewrite HK, N.eqb_refl].
    + intros y [H|[(k0 & H)|(t0 & z & Hz & H)]]; [left; congruence|right; left; exists k0; now rewrite <- (proj2 (HL k0))|].
      destruct (N.eq_dec t0 k) as [->|E]; [rewrite Hnew in Hz; inversion Hz; subst z; destruct H|]. right. right. exists t0, z. rewrite <- (C5 t0 E). auto.
    + intros k' _. destruct (HL k') as (-> & ->). auto.
    + intros k' _ [(y & H1 & H2)|(y & H1 & H2)]; [left; exists y; now rewrite Hts|right; exists y; rewrite C7; split; auto; apply in_or_app; now left].
Qed.

Lemma is_complete_curk s k : is_complete s k = true <-> curk s k.
Proof.
  unfold is_complete, curk, bAt. split.
  - intros H. apply Bool.andb_true_iff in H. destruct H as [H1 H2]. apply kind_eqb_eq in H1. apply N.eqb_eq in H2. auto.
  - intros [H1 H2]. rewrite H1, H2, N.eqb_refl. reflexivity.
Qed.

Lemma BInv_demand_rule root c fi fs s k : Inv rules c s -> BInv root None (unpop fi fs s) -> Forall (sreq_ok s) fs -> is_scanned s k = true ->
  exists b s1, demand_rule rules ord s k = (b, s1) /\
    (nf s1 -> BInv root None (unpop fi fs s1) /\ (b = true -> curk s1 k) /\ (b = false -> is_in_progress s1 k = true)).
Proof.
  intros HI HB Hfs Hsc. pose proof (sreq_scanning_unpop rules c fi fs s HI Hfs) as Hss. unfold demand_rule.
  destruct (is_complete s k) eqn:E1.
  { exists true, s. split; auto. intros _. split; auto. split; [intros _; now apply is_complete_curk|discriminate]. }
  destruct (is_in_progress s k) eqn:E2.
  { exists false, s. split; auto. intros _. split; auto. split; [discriminate|auto]. }
  destruct (kind_eqb (kind_of s k) KDoesNotNeedToRun) eqn:E3.
  { apply kind_eqb_eq in E3. exists true, (set_complete s k). split; auto. intros _. split.
    - apply (BInv_set_complete root (unpop fi fs s) _ k HB Hss E3); unfold unpop, set_complete; autorewrite with iv; auto.
      intros k'. change (rinfo_of (upd_toscan (upd_inreq ?a _) _) k') with (rinfo_of a k'). now rewrite rinfo_of_mod_ri.
    - split; [|discriminate]. intros _. unfold curk, bAt, kind_of, res_of, set_complete. rewrite rinfo_of_mod_ri, N.eqb_refl. cbn. now autorewrite with iv. }
  apply kind_eqb_neq in E3.
  assert (Hk : kind_of s k = KNeedsToRun).
  { unfold is_scanned, is_in_progress in *. destruct (kind_of s k); try discriminate; auto; try contradiction. congruence. }
  exists false, (create_task rules ord s k). split; auto. intros Hn.
  destruct (create_task_gen s k Hk Hn) as ([C1 C2 C3 C4 C5 C6 C7 C8 C9 C10 C11 C12] & Crk).
  pose proof HI as (_ & HT & _).
  split; [|split; [discriminate|intros _; unfold is_in_progress; now rewrite C2]].
  apply (BInv_created root (unpop fi fs s) _ k HB Hss Hk); unfold unpop; autorewrite with iv; try congruence.
  - unfold task_of. destruct (aget (is_tasks s) k) eqn:E; auto. assert (H : aget (is_tasks s) k <> None) by congruence. apply (t_tk c s HT) in H. congruence.
  - intros H. destruct (t_ft c s HT k H) as (_ & _ & Hkc & _). congruence.
  - intros k'. change (rinfo_of (upd_toscan (upd_inreq ?a _) _) k') with (rinfo_of a k'). destruct (N.eqb k' k) eqn:E; [apply N.eqb_eq in E; now subst|]. apply N.eqb_neq in E. now apply C1.
  - exact C5.
  - exact C6.
  - rewrite C7. apply app_assoc.
Qed.

(* a request in flight comes to rest in a scan record or in a task record: nothing else changes *)
Lemma BInv_moved root x su s' : BInv root x su -> sreq_scanning su ->
  (forall k, res_of s' k = res_of su k /\ kind_of s' k = kind_of su k /\ ri_cancelled (rinfo_of s' k) = ri_cancelled (rinfo_of su k)) ->
  (forall t y, task_of su t = Some y -> exists z, task_of s' t = Some z /\ core2 z = core2 y) ->
  (forall t z, task_of s' t = Some z -> exists y, task_of su t = Some y /\ core2 z = core2 y) ->
  (forall rq, Unrouted su rq <-> Unrouted s' rq) -> (forall rq, Sreq s' rq -> Sreq su rq) ->
  is_fininreq s' = is_fininreq su -> is_fintasks s' = is_fintasks su -> is_usedb s' = is_usedb su -> is_epoch s' = is_epoch su ->
  (forall k, kind_of su k = KScanning -> ri_deferred (rinfo_of su k) <> [] \/ ri_paused (rinfo_of su k) <> [] \/ x = Some k ->
             ri_deferred (rinfo_of s' k) <> [] \/ ri_paused (rinfo_of s' k) <> []) ->
  (forall k, kind_of su k = KDoesNotNeedToRun -> pending_for su k -> pending_for s' k) ->
  BInv root None s'.
Proof.
  intros (HT & HC & HS) Hss HR Hfw Hbw HU HSr Hf Hft Hu He Hrec Hpe.
  assert (Hst : forall k, stored s' k = stored su k) by (intros k; unfold stored; now rewrite (proj1 (HR k))).
  assert (Hca : forall k, cAt s' k = cAt su k) by (intros k; unfold cAt; now rewrite (proj1 (HR k))).
  assert (Hba : forall k, bAt s' k = bAt su k) by (intros k; unfold bAt; now rewrite (proj1 (HR k))).
  assert (Hdp : forall k, deps s' k = deps su k) by (intros k; unfold deps; now rewrite (proj1 (HR k))).
  assert (HdpC : forall k, deps s' k = deps su k \/ (deps s' k = drop_single (deps su k) /\ ~ curk s' k /\ bAt s' k = bAt su k)) by (intros; left; apply Hdp).
  assert (HdpS : forall k, kind_of su k = KScanning \/ kind_of su k = KDoesNotNeedToRun -> deps s' k = deps su k) by (intros; apply Hdp).
  assert (HK : forall k, kind_of s' k = kind_of su k) by (intros k; apply HR).
  assert (Hsgs : forall k, res_sig (res_of s' k) = res_sig (res_of su k)) by (intros k; now rewrite (proj1 (HR k))).
  assert (Hcu : forall k, curk s' k <-> curk su k) by (intros k; apply curk_same; auto; apply HR).
  split; [|split].
  - apply (BT_rules_change_gen rules env F rank root su s' HT); auto.
    + intros k H. now apply Hcu.
    + intros k H. left. now apply Hcu.
    + intros rq H. now apply HU.
    + intros rq H _. now apply HU.
    + destruct (b_root _ _ _ _ _ _ HT) as [H|[H|[H|H]]].
      * assert (Hd : Unrouted su (dummy_root root)) by now left. apply HU in Hd. destruct Hd; auto.
      * assert (Hd : Unrouted su (dummy_root root)) by now right. apply HU in Hd. destruct Hd; auto.
      * right. right. left. now rewrite (in_progress_of_kind su s' root (HK root)).
      * right. right. right. now apply Hcu.
  - apply (BC_kinds rules F R su s' HC); auto.
    + intros k. rewrite (proj2 (proj2 (HR k))). apply (b_nc _ _ _ _ HC).
    + intros k. unfold idle. now rewrite HK.
    + intros k H. now apply Hcu.
    + intros k H. left. now rewrite (in_progress_of_kind su s' k (HK k)).
    + intros y (rq & Hu' & H1' & H2'). left. exists rq. split; [now apply HU|auto].
    + intros k. left. split; auto. intros H. now apply Hcu.
  - apply (BS_kinds rules env F rank R x None su s' HS); auto.
    + intros k H. now apply Hcu.
    + intros k. rewrite HK. intros Hk. left. split; auto. intros H. destruct (Hrec k Hk H); auto.
    + intros k. rewrite HK. intros Hk. left. split; auto.
Qed.

Lemma route_request_eff s t rq avail : nf (route_request s t rq avail) ->
  let s' := route_request s t rq avail in
  (forall k, rinfo_of s' k = if N.eqb k t then ri_add_dep (mkDep (iq_input rq) (iq_order rq) (iq_single rq)) (rinfo_of s t) else rinfo_of s k) /\
  is_inreq s' = is_inreq s /\ is_fintasks s' = is_fintasks s /\ is_toscan s' = is_toscan s /\ is_usedb s' = is_usedb s /\ is_epoch s' = is_epoch s /\
  (if avail then is_tasks s' = is_tasks s /\ is_fininreq s' = rq :: is_fininreq s
   else is_fininreq s' = is_fininreq s /\ (forall t0, t0 <> iq_input rq -> task_of s' t0 = task_of s t0) /\
        exists ti, task_of s (iq_input rq) = Some ti /\ task_of s' (iq_input rq) = Some (ti_add_reqby rq ti)).
Proof.
  intros Hn. cbn zeta. unfold route_request in *. cbn zeta in *. set (s1 := mod_ri s t _) in *.
  assert (R1 : forall k, rinfo_of s1 k = if N.eqb k t then ri_add_dep (mkDep (iq_input rq) (iq_order rq) (iq_single rq)) (rinfo_of s t) else rinfo_of s k).
  { intros k. unfold s1. now rewrite rinfo_of_mod_ri. }
  destruct avail.
  - repeat split; try (intros k; autorewrite with iv; apply R1); now autorewrite with iv.
  - destruct (nf_mod_ti _ _ _ Hn) as (_ & ti & Hg). rewrite (mod_ti_some _ _ _ _ Hg).
    repeat split; try (intros k; autorewrite with iv; apply R1); try (now autorewrite with iv).
    + intros t0 Hne. unfold task_of. autorewrite with iv. rewrite aget_aset. apply N.eqb_neq in Hne. now rewrite Hne.
    + exists ti. split; [exact Hg|]. unfold task_of. autorewrite with iv. apply aget_aset_same.
Qed.

(* the request at the head of inputRequests is recorded as a dependency of its task and handed on *)
Lemma BInv_routed root su s' t rq rest : BInv root None su -> sreq_scanning su -> is_inreq su = rq :: rest -> is_inreq s' = rest ->
  iq_task rq = Some t -> (forall t0 ti0, task_of su t0 = Some ti0 -> is_in_progress su t0 = true) -> is_in_progress su t = true -> In (iq_input rq) (requestable (rules t)) ->
  (forall k, rinfo_of s' k = if N.eqb k t then ri_add_dep (mkDep (iq_input rq) (iq_order rq) (iq_single rq)) (rinfo_of su t) else rinfo_of su k) ->
  is_fintasks s' = is_fintasks su -> is_toscan s' = is_toscan su -> is_usedb s' = is_usedb su -> is_epoch s' = is_epoch su ->
  ((curk su (iq_input rq) /\ is_tasks s' = is_tasks su /\ is_fininreq s' = rq :: is_fininreq su) \/
   (is_fininreq s' = is_fininreq su /\ (forall t0, t0 <> iq_input rq -> task_of s' t0 = task_of su t0) /\
    exists ti, task_of su (iq_input rq) = Some ti /\ task_of s' (iq_input rq) = Some (ti_add_reqby rq ti))) ->
  BInv root None s'.
Proof.
  intros (HT & HC & HS) Hss Hq Hq' Et Htip Hip Hreq RI Hft Hts Hu He HA.
  set (inp := iq_input rq) in *. set (dn := mkDep inp (iq_order rq) (iq_single rq)) in *.
  destruct HT as [T2 T3 T4 T5 T6 T7].
  assert (Hrq : Oreq2 su rq) by (left; left; rewrite Hq; now left).
  destruct (T4 rq Hrq) as [Hwf Hsg].
  assert (HRo : forall k, k <> t -> res_of s' k = res_of su k /\ kind_of s' k = kind_of su k).
  { intros k Hne. unfold res_of, kind_of. rewrite RI. apply N.eqb_neq in Hne. now rewrite Hne. }
  assert (HK : forall k, kind_of s' k = kind_of su k).
  { intros k. unfold kind_of. rewrite RI. destruct (N.eqb k t) eqn:E; auto. apply N.eqb_eq in E. now subst. }
  assert (HL : forall k, ri_paused (rinfo_of s' k) = ri_paused (rinfo_of su k) /\ ri_deferred (rinfo_of s' k) = ri_deferred (rinfo_of su k) /\
                        ri_cancelled (rinfo_of s' k) = ri_cancelled (rinfo_of su k)).
  { intros k. rewrite RI. destruct (N.eqb k t) eqn:E; auto. apply N.eqb_eq in E. now subst. }
  assert (Hst : forall k, stored s' k = stored su k).
  { intros k. unfold stored, res_of. rewrite RI. destruct (N.eqb k t) eqn:E; auto. apply N.eqb_eq in E. now subst. }
  assert (Hca : forall k, cAt s' k = cAt su k).
  { intros k. unfold cAt, res_of. rewrite RI. destruct (N.eqb k t) eqn:E; auto. apply N.eqb_eq in E. now subst. }
  assert (Hba : forall k, bAt s' k = bAt su k).
  { intros k. unfold bAt, res_of. rewrite RI. destruct (N.eqb k t) eqn:E; auto. apply N.eqb_eq in E. now subst. }
  assert (Hsgs : forall k, res_sig (res_of s' k) = res_sig (res_of su k)).
  { intros k. unfold res_of. rewrite RI. destruct (N.eqb k t) eqn:E; auto. apply N.eqb_eq in E. now subst. }
  assert (Hdp : forall k, k <> t -> deps s' k = deps su k) by (intros k E; unfold deps; now rewrite (proj1 (HRo k E))).
  assert (Hdt : deps s' t = deps su t ++ [dn]) by (unfold deps, res_of; rewrite RI, N.eqb_refl; reflexivity).
  assert (Hcu : forall k, curk s' k <-> curk su k) by (intros k; unfold curk; now rewrite HK, Hba, He).
  assert (Hfw : forall t0 y, task_of su t0 = Some y -> exists z, task_of s' t0 = Some z /\ ti_slots z = ti_slots y /\ ti_branched z = ti_branched y /\
                  ti_pending z = ti_pending y /\ ti_disc z = ti_disc y /\ ti_deferred z = ti_deferred y /\ incl (ti_reqby y) (ti_reqby z)).
  { intros t0 y Hy. destruct HA as [(_ & Htk & _)|(_ & Ho & ti & Hg & Hg')].
    - exists y. unfold task_of in *. rewrite Htk. repeat split; auto. apply incl_refl.
    - destruct (N.eq_dec t0 inp) as [->|E].
      + rewrite Hg in Hy. inversion Hy. subst y. exists (ti_add_reqby rq ti). repeat split; auto. cbn. apply incl_appl, incl_refl.
      + exists y. rewrite (Ho t0 E). repeat split; auto. apply incl_refl. }
  assert (Hbw : forall t0 z, task_of s' t0 = Some z -> exists y, task_of su t0 = Some y /\ ti_slots z = ti_slots y /\ ti_branched z = ti_branched y /\
                  ti_pending z = ti_pending y /\ ti_disc z = ti_disc y /\ ti_deferred z = ti_deferred y /\ (forall r, In r (ti_reqby z) -> In r (ti_reqby y) \/ r = rq)).
  { intros t0 z Hz. destruct HA as [(_ & Htk & _)|(_ & Ho & ti & Hg & Hg')].
    - exists z. unfold task_of in *. rewrite <- Htk. repeat split; auto.
    - destruct (N.eq_dec t0 inp) as [->|E].
      + rewrite Hg' in Hz. inversion Hz. subst z. exists ti. repeat split; auto. cbn. intros r Hr. apply in_app_or in Hr. destruct Hr as [Hr|[Hr|[]]]; auto.
      + exists z. rewrite <- (Ho t0 E). repeat split; auto. }
  assert (HU1 : forall y, Unrouted su y -> y = rq \/ Unrouted s' y).
  { intros y [H|(k & H)]; [rewrite Hq in H; destruct H as [H|H]; [now left|right; left; now rewrite Hq']|right; right; exists k; now rewrite (proj1 (HL k))]. }
  assert (HU2 : forall y, Unrouted s' y -> Unrouted su y).
  { intros y [H|(k & H)]; [left; rewrite Hq; right; now rewrite <- Hq'|right; exists k; now rewrite <- (proj1 (HL k))]. }
  assert (Hrq' : Oreq2 s' rq).
  { destruct HA as [(_ & _ & Hf)|(_ & _ & ti & Hg & Hg')]; [right; right; rewrite Hf; now left|].
    right. left. exists inp, (ti_add_reqby rq ti). split; auto. cbn. apply in_or_app. right. now left. }
  assert (O1 : forall y, Oreq2 su y -> Oreq2 s' y).
  { intros y [H|[(t0 & z & Hz & Hin)|H]].
    - destruct (HU1 y H) as [->|H']; [exact Hrq'|now left].
    - right. left. destruct (Hfw t0 z Hz) as (w & Hw & _ & _ & _ & _ & _ & Hinc). exists t0, w. auto.
    - right. right. destruct HA as [(_ & _ & Hf)|(Hf & _)]; rewrite Hf; auto. now right. }
  assert (O2 : forall y, Oreq2 s' y -> Oreq2 su y).
  { intros y [H|[(t0 & z & Hz & Hin)|H]].
    - left. now apply HU2.
    - destruct (Hbw t0 z Hz) as (w & Hw & _ & _ & _ & _ & _ & Hr). destruct (Hr y Hin) as [H|H]; [right; left; eauto|subst y; exact Hrq].
    - destruct HA as [(_ & _ & Hf)|(Hf & _)]; rewrite Hf in H; [destruct H as [H|H]; [subst y; exact Hrq|]|]; right; right; exact H. }
  split; [|split].
  - constructor.
    + congruence.
    + intros k Hc. rewrite Hst. now apply T3, Hcu.
    + intros y Ho. destruct (T4 y (O2 y Ho)) as [Hw Hs']. split; auto. apply (rq_wf_sub rules env F rank su s'); auto.
      intros t0 z Hz. destruct (Hfw t0 z Hz) as (w & Hw' & Es & _). exists w. split; auto. rewrite Es. lia.
    + intros y Hin. apply Hcu. destruct HA as [(Hc & _ & Hf)|(Hf & _)]; rewrite Hf in Hin; [destruct Hin as [Hin|Hin]; [subst y; exact Hc|]|]; now apply T5.
    + intros t0 z Hz. destruct (Hbw t0 z Hz) as (y & Hy & E1 & E2 & E3 & E4 & E5 & _). destruct (T6 t0 y Hy) as [K1 K2 K3 K4 K5 K6 K7 K8 K9 K10 K11].
      constructor; rewrite ?E1, ?E2, ?E3, ?E4; auto.
      * intros i Hu' Hn0. destruct (K3 i Hu' Hn0) as (w & Hw1 & Hw2). exists w. split; auto.
      * rewrite Hft, Hst. exact K6.
      * intros i w Hu0 Hi Hw. destruct (K7 i w Hu0 Hi Hw) as [(r & Hr1 & Hr2 & Hr3 & Hr4)|Hr].
        -- destruct (HU1 r Hr1) as [->|Hr']; [|left; exists r; auto].
           right. rewrite Et in Hr2. inversion Hr2. subst t0. rewrite Hdt. apply in_or_app. right. left.
           destruct (Hwf t Et Hr3) as (Hkey & _). rewrite Hr4 in Hkey. rewrite Hw in Hkey. inversion Hkey. unfold dn. rewrite Hr3, (Hsg t Et Hr3); [reflexivity|]. now rewrite Hr4.
        -- right. destruct (N.eq_dec t0 t) as [->|E]; [rewrite Hdt; apply in_or_app; now left|now rewrite (Hdp t0 E)].
      * intros d Hd. assert (Hold : In d (deps su t0) -> curk s' (d_key d) \/ exists r, Oreq2 s' r /\ iq_task r = Some t0 /\ iq_input r = d_key d).
        { intros Hd0. destruct (K8 d Hd0) as [H|(r & Hr1 & Hr2)]; [left; now apply Hcu|right; exists r; split; auto]. }
        destruct (N.eq_dec t0 t) as [->|E]; [|rewrite (Hdp t0 E) in Hd; auto].
        rewrite Hdt in Hd. apply in_app_or in Hd. destruct Hd as [Hd|[Hd|[]]]; auto. subst d.
        destruct HA as [(Hc & _)|_]; [left; now apply Hcu|right; exists rq; auto].
      * intros d Hd. destruct (N.eq_dec t0 t) as [->|E]; [|rewrite (Hdp t0 E) in Hd; auto].
        rewrite Hdt in Hd. apply in_app_or in Hd. destruct Hd as [Hd|[Hd|[]]]; auto. subst d. cbn [dn d_key d_single]. auto.
      * rewrite Hft. exact K10.
      * rewrite Hft, Hsgs. exact K11.
    + destruct T7 as [H|[(k & H)|[H|H]]].
      * rewrite Hq in H. destruct H as [H|H]; [rewrite H in Et; discriminate|left; now rewrite Hq'].
      * right. left. exists k. now rewrite (proj1 (HL k)).
      * right. right. left. now rewrite (in_progress_of_kind su s' root (HK root)).
      * right. right. right. now apply Hcu.
  - apply (BC_change rules F R (fun k => N.eqb k t) su s'); auto.
    + intros k. rewrite (proj2 (proj2 (HL k))). apply (b_nc _ _ _ _ HC).
    + intros k E. apply N.eqb_neq in E. now apply HRo.
    + intros k E. apply N.eqb_eq in E. subst k. split; [now apply in_progress_unsettled|]. split; [now rewrite (in_progress_of_kind su s' t (HK t))|].
      apply Hba.
    + intros y (r & Hu' & H1' & H2'). left. exists r. split; auto. destruct (HU1 r Hu') as [->|H]; [congruence|exact H].
  - apply (BS_change rules env F R rank (fun k => N.eqb k t) None su s'); auto.
    + intros k E. apply N.eqb_neq in E. now apply HRo.
    + intros k E. apply N.eqb_eq in E. subst k. split; [now apply in_progress_unsettled|now rewrite (in_progress_of_kind su s' t (HK t))].
    + intros y [H|[(k & H)|(t0 & z & Hz & H)]]; [left; congruence|right; left; exists k; now rewrite <- (proj1 (proj2 (HL k)))|].
      destruct (Hbw t0 z Hz) as (w & Hw & _ & _ & _ & _ & Ed & _). right. right. exists t0, w. split; auto. now rewrite <- Ed.
    + intros k _. destruct (HL k) as (-> & -> & _). auto.
    + intros k Hkd [(y & H1 & H2)|(y & H1 & H2)]; [left; exists y; now rewrite Hts|].
      (* the routed request asks for a rule that is complete or in progress, not for one that does not need to run *)
      rewrite Hq in H1. destruct H1 as [H1|H1]; [|right; exists y; now rewrite Hq']. subst y. exfalso. fold inp in H2. rewrite <- H2 in Hkd.
      destruct HA as [([Hc _] & _)|(_ & _ & ti & Hg & _)]; [congruence|]. pose proof (Htip inp ti Hg) as Hp. unfold is_in_progress in Hp. rewrite Hkd in Hp. discriminate.
Qed.

(* a dummy request (the request of the build, here) is dropped once its input is in progress or complete *)
Lemma BInv_drop_dummy root su s' rq rest : BInv root None su -> sreq_scanning su -> is_inreq su = rq :: rest -> is_inreq s' = rest -> iq_task rq = None ->
  (is_in_progress su (iq_input rq) = true \/ curk su (iq_input rq)) ->
  (forall k, rinfo_of s' k = rinfo_of su k) -> is_tasks s' = is_tasks su -> is_toscan s' = is_toscan su -> is_fininreq s' = is_fininreq su ->
  is_fintasks s' = is_fintasks su -> is_usedb s' = is_usedb su -> is_epoch s' = is_epoch su -> BInv root None s'.
Proof.
  intros (HT & HC & HS) Hss Hq Hq' Et Hinp RI Htk Hts Hf Hft Hu He.
  assert (HR : forall k, res_of s' k = res_of su k) by (intros; unfold res_of; now rewrite RI).
  assert (Hsgs : forall k, res_sig (res_of s' k) = res_sig (res_of su k)) by (intros k; now rewrite HR).
  assert (HK : forall k, kind_of s' k = kind_of su k) by (intros; unfold kind_of; now rewrite RI).
  assert (Hst : forall k, stored s' k = stored su k) by (intros k; unfold stored; now rewrite HR).
  assert (Hca : forall k, cAt s' k = cAt su k) by (intros k; unfold cAt; now rewrite HR).
  assert (Hba : forall k, bAt s' k = bAt su k) by (intros k; unfold bAt; now rewrite HR).
  assert (Hdp : forall k, deps s' k = deps su k) by (intros k; unfold deps; now rewrite HR).
  assert (HdpC : forall k, deps s' k = deps su k \/ (deps s' k = drop_single (deps su k) /\ ~ curk s' k /\ bAt s' k = bAt su k)) by (intros; left; apply Hdp).
  assert (HdpS : forall k, kind_of su k = KScanning \/ kind_of su k = KDoesNotNeedToRun -> deps s' k = deps su k) by (intros; apply Hdp).
  assert (Hcu : forall k, curk s' k <-> curk su k) by (intros k; apply curk_same; auto).
  assert (Htask : forall t, task_of s' t = task_of su t) by (intros; unfold task_of; now rewrite Htk).
  split; [|split].
  - apply (BT_rules_change rules env F rank root su s' HT); auto.
    + intros k H. now apply Hcu.
    + intros k H. left. now apply Hcu.
    + intros y [H|(k & H)]; [left; rewrite Hq; right; now rewrite <- Hq'|right; exists k; now rewrite <- RI].
    + intros y [H|(k & H)] Hnd; [rewrite Hq in H; destruct H as [H|H]; [subst y; contradiction|left; now rewrite Hq']|right; exists k; now rewrite RI].
    + destruct (b_root _ _ _ _ _ _ HT) as [H|[(k & H)|[H|H]]].
      * rewrite Hq in H. destruct H as [H|H]; [|left; now rewrite Hq']. rewrite H in Hinp. cbn [dummy_root iq_input] in Hinp.
        destruct Hinp as [Hp|Hp]; [right; right; left; now rewrite (in_progress_of_kind su s' root (HK root))|right; right; right; now apply Hcu].
      * right. left. exists k. now rewrite RI.
      * right. right. left. now rewrite (in_progress_of_kind su s' root (HK root)).
      * right. right. right. now apply Hcu.
  - apply (BC_kinds rules F R su s' HC); auto.
    + intros k. rewrite RI. apply (b_nc _ _ _ _ HC).
    + intros k. unfold idle. now rewrite HK.
    + intros k H. now apply Hcu.
    + intros k H. left. now rewrite (in_progress_of_kind su s' k (HK k)).
    + intros y (r & [Hu'|(k0 & Hu')] & H1' & H2').
      * rewrite Hq in Hu'. destruct Hu' as [Hu'|Hu']; [|left; exists r; split; [left; now rewrite Hq'|auto]].
        subst r. rewrite H2' in Hinp. destruct Hinp as [Hp|Hp]; [right; left; now rewrite (in_progress_of_kind su s' y (HK y))|right; right; now apply Hcu].
      * left. exists r. split; [right; exists k0; now rewrite RI|auto].
    + intros k. left. split; auto. intros H. now apply Hcu.
  - apply (BS_kinds rules env F rank R None None su s' HS); auto.
    + intros k H. now apply Hcu.
    + intros y [H|[(k & H)|(t0 & z & Hz & H)]]; left; [left; congruence|right; left; exists k; now rewrite <- RI|right; right; exists t0, z; now rewrite <- Htask].
    + intros y [H|[(k & H)|(t0 & z & Hz & H)]]; left; [left; congruence|right; left; exists k; now rewrite <- RI|right; right; exists t0, z; now rewrite <- Htask].
    + intros k. rewrite HK. intros Hk. left. split; auto. now rewrite RI.
    + intros k. rewrite HK. intros Hk. left. split; auto. split; auto.
      intros [(y & H1 & H2)|(y & H1 & H2)]; [left; exists y; now rewrite Hts|]. rewrite Hq in H1. destruct H1 as [H1|H1]; [|right; exists y; now rewrite Hq'].
      exfalso. subst y. rewrite H2 in Hinp. destruct Hinp as [Hp|[Hp _]]; [unfold is_in_progress in Hp; rewrite Hk in Hp; discriminate|congruence].
Qed.

Lemma tasks_in_progress c s t ti : Inv rules c s -> task_of s t = Some ti -> is_in_progress s t = true.
Proof. intros (_ & HT & _) Hg. apply (t_tk c s HT). unfold task_of in Hg. congruence. Qed.

Lemma BInv_step_inreq root s : Inv rules ctx0 s -> BInv root None s -> BInv root None (step_inreq rules env ord s).
Proof.
  intros HI HB. unfold step_inreq. destruct (is_inreq s) as [|rq rest] eqn:Hq; auto.
  set (s0 := upd_inreq s rest). set (c := cx_set_fi ctx0 [rq]). set (inp := iq_input rq).
  assert (HI0 : Inv rules c s0) by (apply (Inv_pop_inreq rules ctx0 s rq rest Hq HI)).
  assert (HB0 : BInv root None (unpop [rq] [] s0)).
  { apply (BInv_frame rules env F rank R root None s); auto; unfold unpop, s0; autorewrite with iv; auto. now apply (Inv_sreq_scanning rules ctx0). }
  assert (Hpe : pending_for (unpop [rq] [] s0) inp) by (right; exists rq; split; auto; now left).
  destruct (BInv_scan_rule root c [rq] [] s0 inp HI0 HB0 (Forall_nil _) Hpe) as (b1 & s1 & E1 & HB1 & Hl1).
  unfold process_input_request. fold inp. rewrite E1.
  destruct (scan_rule_post rules env c _ _ _ _ E1 HI0) as (HI1 & _ & Hf1 & Ht1).
  pose proof (sreq_scanning_unpop rules c [rq] [] s1 HI1 (Forall_nil _)) as Hss1.
  destruct b1.
  - (* scanned: demandRule, then the request is routed *)
    destruct (BInv_demand_rule root c [rq] [] s1 inp HI1 HB1 (Forall_nil _) (Ht1 eq_refl)) as (b2 & s2 & E2 & H2). rewrite E2.
    destruct (demand_rule_post rules ord c _ _ _ _ E2 HI1 eq_refl (Ht1 eq_refl)) as (HI2 & _ & _ & _).
    destruct (H2 (proj1 HI2)) as (HB2 & Hav & Hnav).
    pose proof (sreq_scanning_unpop rules c [rq] [] s2 HI2 (Forall_nil _)) as Hss2.
    destruct (iq_task rq) as [t|] eqn:Et.
    + pose proof (Inv_route_request rules c s2 t rq b2 [] eq_refl Et) as HI3.
      assert (Hex : b2 = false -> aget (is_tasks s2) (iq_input rq) <> None).
      { intros Hb. apply (t_tk c s2 (proj1 (proj2 HI2))). now apply Hnav. }
      specialize (HI3 Hex HI2). pose proof (proj1 HI3) as Hn3.
      destruct (route_request_eff s2 t rq b2 Hn3) as (R1 & R2 & R3 & R4 & R5 & R6 & R7).
      destruct (Inv_head_fi_ok rules c s2 rq [] eq_refl HI2 t Et) as [Hext Hreq].
      apply (BInv_routed root (unpop [rq] [] s2) _ t rq (is_inreq s2) HB2 Hss2); auto.
      * intros t0 ti0 Hg. apply (tasks_in_progress c s2 t0 ti0 HI2 Hg).
      * apply (t_tk c s2 (proj1 (proj2 HI2))). exact Hext.
      * destruct b2.
        -- left. destruct R7 as [Q1 Q2]. split; [now apply Hav|]. split; auto.
        -- right. exact R7.
    + apply (BInv_drop_dummy root (unpop [rq] [] s2) s2 rq (is_inreq s2) HB2 Hss2); auto.
      destruct b2; [right; now apply Hav|left; now apply Hnav].
  - (* the input is being scanned: the request is paused on it *)
    pose proof (Hf1 eq_refl) as Hk1. unfold pause_on_rule. rewrite Hk1. cbn [kind_eqb check].
    apply (BInv_moved root (Some inp) (unpop [rq] [] s1) _ HB1 Hss1); unfold unpop; autorewrite with iv; auto.
    + intros k. unfold res_of, kind_of. change (rinfo_of (upd_toscan (upd_inreq ?a _) _) k) with (rinfo_of a k). rewrite rinfo_of_mod_ri.
      destruct (N.eqb k inp) eqn:E; auto. apply N.eqb_eq in E. subst k. auto.
    + intros t y Hy. exists y. split; auto.
    + intros t z Hz. exists z. split; auto.
    + intros y. unfold Unrouted. cbn [is_inreq upd_toscan upd_inreq app]. autorewrite with iv. split.
      * intros [[H|H]|(k & H)]; [subst y; right; exists inp; rewrite rinfo_of_mod_ri, N.eqb_refl; cbn; apply in_or_app; right; now left|now left|].
        right. exists k. rewrite rinfo_of_mod_ri. destruct (N.eqb k inp) eqn:E; auto. apply N.eqb_eq in E. subst k. cbn. apply in_or_app. now left.
      * intros [H|(k & H)]; [left; now right|]. rewrite rinfo_of_mod_ri in H. destruct (N.eqb k inp) eqn:E; [|right; eauto].
        apply N.eqb_eq in E. subst k. cbn in H. apply in_app_or in H. destruct H as [H|[H|[]]]; [right; eauto|left; now left].
    + intros y [H|[(k & H)|(t0 & z & Hz & H)]]; [left; exact H| |right; right; eauto].
      right. left. exists k. rewrite rinfo_of_mod_ri in H. destruct (N.eqb k inp) eqn:E; auto. apply N.eqb_eq in E. subst k. exact H.
    + intros k Hk Hr. change (rinfo_of (upd_toscan (upd_inreq s1 _) _) k) with (rinfo_of s1 k) in *. rewrite rinfo_of_mod_ri. destruct (N.eqb k inp) eqn:E.
      * right. cbn. destruct (ri_paused (rinfo_of s1 inp)); discriminate.
      * apply N.eqb_neq in E. destruct Hr as [H|[H|H]]; auto. inversion H. congruence.
    + intros k Hk [(y & H1 & H2)|(y & H1 & H2)]; [left; eauto|]. cbn [is_inreq upd_toscan upd_inreq app] in H1. destruct H1 as [H1|H1]; [|right; eauto].
      exfalso. subst y. fold inp in H2. subst k. change (kind_of (upd_toscan (upd_inreq s1 _) _) inp) with (kind_of s1 inp) in Hk. congruence.
Qed.
End Inc.
