(* P19 - part 8: the invariant under scanRule, demandRule and the scan bookkeeping. *)
From LLB Require Import Engine.Rules Engine.Spec Engine.Impl Engine.ImplProofs Engine.ImplProofsSticky Engine.ImplProofsInv Engine.ImplProofsInv2 Engine.ImplProofsInv3.
From Coq Require Import Arith Lia.
Local Open Scope N_scope.

Definition idle_kind (kd : kind) : Prop := kd <> KScanning /\ kd <> KWaiting /\ kd <> KComputing.

Lemma asum_rules_mod_ri_same (g : rinfo -> nat) s k f : (forall r, g (new_rinfo r) = 0%nat) -> g (f (rinfo_of s k)) = g (rinfo_of s k) ->
  asum g (is_rules (mod_ri s k f)) = asum g (is_rules s).
Proof. intros Hz Hg. pose proof (asum_rules_mod_ri g s k f Hz) as H. lia. Qed.

(* the record of a rule that is neither being scanned nor in progress changes to another such record; its scan record stays empty *)
Lemma Inv_mod_ri_idle rules c s k f :
  idle_kind (kind_of s k) -> idle_kind (ri_kind (f (rinfo_of s k))) ->
  ri_paused (f (rinfo_of s k)) = ri_paused (rinfo_of s k) -> ri_deferred (f (rinfo_of s k)) = ri_deferred (rinfo_of s k) ->
  Inv rules c s -> Inv rules c (mod_ri s k f).
Proof.
  intros (I1 & I2 & I3) (J1 & J2 & J3) Hp Hd (Hn & HT & HI & HS).
  assert (HK : forall kd, (kd = KScanning \/ kd = KWaiting \/ kd = KComputing) -> forall k', kind_of (mod_ri s k f) k' = kd <-> kind_of s k' = kd).
  { intros kd Hkd k'. rewrite kind_of_mod_ri. destruct (N.eqb k' k) eqn:E; [|tauto]. apply N.eqb_eq in E. subst.
    split; intros H; exfalso; destruct Hkd as [Hx|[Hx|Hx]]; subst kd; auto. }
  split; [now apply nf_mod_ri|]. split; [|split].
  - apply (InvT_frame_k c s); auto; try (apply HK; auto). apply nodup_rules_set_ri, HT.
  - apply (InvI_frame_k rules c s); auto; try (intros k' Hk'; apply HK; auto).
    + intros k'. autorewrite with iv. destruct (N.eqb k' k) eqn:E; auto. apply N.eqb_eq in E. now subst.
    + intros t. apply asum_rules_mod_ri_same; auto. now rewrite Hp.
  - apply (InvS_frame_k c s); auto; try (apply HK; auto).
    + intros k' Hs. rewrite res_of_mod_ri. destruct (N.eqb k' k) eqn:E; auto. apply N.eqb_eq in E. subst. contradiction.
    + intros k'. autorewrite with iv. destruct (N.eqb k' k) eqn:E; auto. apply N.eqb_eq in E. now subst.
    + intros t. apply asum_rules_mod_ri_same; auto. now rewrite Hd.
Qed.

Lemma unscanned_idle s k : is_scanned s k = false -> kind_eqb (kind_of s k) KScanning = false -> idle_kind (kind_of s k).
Proof.
  unfold is_scanned, idle_kind. intros H1 H2. destruct (kind_of s k); try discriminate; repeat split; discriminate.
Qed.

Lemma idle_NeedsToRun : idle_kind KNeedsToRun. Proof. repeat split; discriminate. Qed.
Lemma idle_DoesNot : idle_kind KDoesNotNeedToRun. Proof. repeat split; discriminate. Qed.
Lemma idle_Complete : idle_kind KComplete. Proof. repeat split; discriminate. Qed.

Lemma Inv_set_kind_idle rules c s k kd : idle_kind (kind_of s k) -> idle_kind kd -> Inv rules c s -> Inv rules c (set_kind s k kd).
Proof. intros. unfold set_kind. apply Inv_mod_ri_idle; auto. Qed.

Lemma Inv_need rules c s k r i : idle_kind (kind_of s k) -> Inv rules c s -> Inv rules c (need s k r i).
Proof. intros. unfold need. apply Inv_iemit. apply Inv_set_kind_idle; auto. apply idle_NeedsToRun. Qed.

Lemma Inv_clean_single rules c s k : idle_kind (kind_of s k) -> Inv rules c s -> Inv rules c (mod_ri s k ri_clean_single).
Proof. intros. apply Inv_mod_ri_idle; auto. Qed.

(* ---------- scanRule starts scanning a rule ---------- *)
Definition begin_scan (s : istate) (k : key) : istate :=
  upd_toscan (mod_ri s k ri_begin_scan) (mkSReq k 0%nat None false false :: is_toscan s).

Lemma begin_scan_kind s k k' : kind_of (begin_scan s k) k' = if N.eqb k' k then KScanning else kind_of s k'.
Proof. unfold begin_scan. change (kind_of (upd_toscan ?x ?q) k') with (kind_of x k'). now rewrite kind_of_mod_ri. Qed.
Lemma begin_scan_res s k k' : res_of (begin_scan s k) k' = res_of s k'.
Proof.
  unfold begin_scan. change (res_of (upd_toscan ?x ?q) k') with (res_of x k'). rewrite res_of_mod_ri.
  destruct (N.eqb k' k) eqn:E; auto. apply N.eqb_eq in E. now subst.
Qed.

Lemma InvS_begin_scan c s k : idle_kind (kind_of s k) -> res_deps (res_of s k) <> [] -> InvS c s -> InvS c (begin_scan s k).
Proof.
  intros (I1 & _) Hd [C1 C2 C3 C4 C5 C6 C7 C8].
  assert (Hdef : forall k', ri_deferred (rinfo_of (begin_scan s k) k') = ri_deferred (rinfo_of s k')).
  { intros k'. unfold begin_scan. autorewrite with iv. destruct (N.eqb k' k) eqn:E; auto. apply N.eqb_eq in E. subst.
    cbn [ri_begin_scan ri_deferred]. symmetry. now apply C6. }
  assert (Hok : forall rq, sreq_ok s rq -> sreq_ok (begin_scan s k) rq).
  { intros rq (H1 & H2 & H3). unfold sreq_ok. rewrite begin_scan_kind, begin_scan_res.
    destruct (N.eqb (sq_rule rq) k) eqn:E; auto. }
  assert (Hsum : forall k', asum (fun ri => cnt_s k' (ri_deferred ri)) (is_rules (begin_scan s k)) = asum (fun ri => cnt_s k' (ri_deferred ri)) (is_rules s)).
  { intros k'. unfold begin_scan. autorewrite with iv. apply asum_rules_mod_ri_same; auto.
    cbn [ri_begin_scan ri_deferred]. rewrite (C6 k I1). reflexivity. }
  constructor.
  - intros k'. rewrite begin_scan_kind. specialize (C1 k'). unfold scan_count in *. rewrite Hsum. unfold begin_scan at 1 2. autorewrite with iv.
    rewrite cnt_s_cons. unfold for_rule. cbn [sq_rule]. destruct (N.eqb k' k) eqn:E.
    + apply N.eqb_eq in E. subst. cbn [kind_eqb]. apply kind_eqb_neq in I1. rewrite I1 in C1. lia.
    + lia.
  - eapply Forall_impl; [apply Hok|auto].
  - unfold begin_scan at 2. autorewrite with iv. constructor; [|eapply Forall_impl; [apply Hok|auto]].
    unfold sreq_ok. cbn [sq_rule sq_index sq_input]. rewrite begin_scan_kind, N.eqb_refl, begin_scan_res. split; auto. split.
    + destruct (res_deps (res_of s k)); [contradiction|cbn [length]; lia].
    + discriminate.
  - intros k'. rewrite Hdef. eapply Forall_impl; [apply Hok|auto].
  - intros t ti Hg. eapply Forall_impl; [apply Hok|]. apply (C5 t). exact Hg.
  - intros k'. rewrite Hdef, begin_scan_kind. destruct (N.eqb k' k) eqn:E; [intros H; now contradiction H|apply C6].
  - intros k' rq. rewrite Hdef. apply C7.
  - intros t ti rq Hg. apply (C8 t). exact Hg.
Qed.

Lemma Inv_begin_scan rules c s k : idle_kind (kind_of s k) -> res_deps (res_of s k) <> [] -> Inv rules c s -> Inv rules c (begin_scan s k).
Proof.
  intros Hi Hd (Hn & HT & HI & HS). pose proof Hi as (I1 & I2 & I3).
  split; [unfold begin_scan, nf; now autorewrite with iv|]. split; [|split; [|now apply InvS_begin_scan]].
  - apply (InvT_frame_k c s); auto.
    + unfold begin_scan. autorewrite with iv. apply nodup_rules_set_ri, HT.
    + intros k'. rewrite begin_scan_kind. destruct (N.eqb k' k) eqn:E; [|tauto]. apply N.eqb_eq in E. subst. split; [discriminate|contradiction].
    + intros k'. rewrite begin_scan_kind. destruct (N.eqb k' k) eqn:E; [|tauto]. apply N.eqb_eq in E. subst. split; [discriminate|contradiction].
  - assert (Hp : ri_paused (rinfo_of s k) = []) by (apply (i_hyg rules c s HI); exact I1).
    apply (InvI_frame_k rules c s); auto.
    + intros k' Hk'. rewrite begin_scan_kind. now destruct (N.eqb k' k).
    + intros k'. unfold begin_scan. autorewrite with iv. destruct (N.eqb k' k) eqn:E; auto. apply N.eqb_eq in E. subst. now rewrite Hp.
    + intros t. unfold begin_scan. autorewrite with iv. apply asum_rules_mod_ri_same; auto. now rewrite Hp.
Qed.

(* ---------- scanRule ---------- *)
(* what scanRule k leaves alone: every other rule record, the tasks, all queues but ruleInfosToScan *)
Definition keeps_scan (k : key) (s s' : istate) : Prop :=
  (forall k', k' <> k -> rinfo_of s' k' = rinfo_of s k') /\ is_tasks s' = is_tasks s /\ is_inreq s' = is_inreq s /\
  is_fininreq s' = is_fininreq s /\ is_ready s' = is_ready s /\ is_fintasks s' = is_fintasks s /\ is_outstanding s' = is_outstanding s /\
  is_epoch s' = is_epoch s /\
  (kind_of s k = KScanning -> rinfo_of s' k = rinfo_of s k) /\ (kind_of s k = KWaiting \/ kind_of s k = KComputing -> rinfo_of s' k = rinfo_of s k).

Lemma is_scanned_in_progress s k : kind_of s k = KWaiting \/ kind_of s k = KComputing -> is_scanned s k = true.
Proof. unfold is_scanned. intros [-> | ->]; reflexivity. Qed.

Lemma scan_rule_post rules env c s k b s' :
  scan_rule rules env s k = (b, s') -> Inv rules c s ->
  Inv rules c s' /\ keeps_scan k s s' /\ (b = false -> kind_of s' k = KScanning) /\ (b = true -> is_scanned s' k = true).
Proof.
  unfold scan_rule. destruct (is_scanned s k) eqn:E1.
  { intros H; inversion H; subst. intros HI. split; [exact HI|]. split; [unfold keeps_scan; repeat split; auto|]. split; [discriminate|auto]. }
  destruct (kind_eqb (kind_of s k) KScanning) eqn:E2.
  { intros H; inversion H; subst. intros HI. split; [exact HI|]. split; [unfold keeps_scan; repeat split; auto|]. split; [intros _; now apply kind_eqb_eq|discriminate]. }
  cbn zeta. pose proof (unscanned_idle s k E1 E2) as Hidle. intros Hrun HI.
  assert (Hnotip : ~ (kind_of s k = KWaiting \/ kind_of s k = KComputing)).
  { intros H. rewrite (is_scanned_in_progress s k H) in E1. discriminate. }
  assert (Hnots : kind_of s k <> KScanning) by (now apply kind_eqb_neq).
  set (s1 := mod_ri s k ri_clean_single) in *.
  assert (HI1 : Inv rules c s1) by (now apply Inv_clean_single).
  assert (Hidle1 : idle_kind (kind_of s1 k)) by (unfold s1; rewrite kind_of_mod_ri, N.eqb_refl; exact Hidle).
  assert (K1 : forall sx, (forall k', k' <> k -> rinfo_of sx k' = rinfo_of s1 k') -> is_tasks sx = is_tasks s1 -> is_inreq sx = is_inreq s1 ->
               is_fininreq sx = is_fininreq s1 -> is_ready sx = is_ready s1 -> is_fintasks sx = is_fintasks s1 -> is_outstanding sx = is_outstanding s1 ->
               is_epoch sx = is_epoch s1 -> keeps_scan k s sx).
  { intros sx H1 H2 H3 H4 H5 H6 H7 H8. unfold keeps_scan. rewrite H2, H3, H4, H5, H6, H7, H8. repeat split; auto; try contradiction.
    intros k' Hne. rewrite (H1 k' Hne). unfold s1. autorewrite with iv. apply N.eqb_neq in Hne. now rewrite Hne. }
  assert (Kneed : forall sx r i, (forall k', rinfo_of sx k' = rinfo_of s1 k') -> is_tasks sx = is_tasks s1 -> is_inreq sx = is_inreq s1 ->
               is_fininreq sx = is_fininreq s1 -> is_ready sx = is_ready s1 -> is_fintasks sx = is_fintasks s1 -> is_outstanding sx = is_outstanding s1 ->
               is_epoch sx = is_epoch s1 -> Inv rules c sx ->
               Inv rules c (need sx k r i) /\ keeps_scan k s (need sx k r i) /\ (true = false -> kind_of (need sx k r i) k = KScanning) /\ (true = true -> is_scanned (need sx k r i) k = true)).
  { intros sx r i H1 H2 H3 H4 H5 H6 H7 H8 HIx. split; [|split; [|split; [discriminate|]]].
    - apply Inv_need; auto. unfold kind_of. rewrite H1. exact Hidle1.
    - apply K1; unfold need; autorewrite with iv; auto. intros k' Hne. autorewrite with iv. apply N.eqb_neq in Hne. rewrite Hne. apply H1.
    - intros _. unfold is_scanned, need. change (kind_of (iemit ?x ?e) k) with (kind_of x k). unfold set_kind. now rewrite kind_of_mod_ri, N.eqb_refl. }
  destruct (N.eqb (res_builtAt (res_of s1 k)) 0); [inversion Hrun; subst; apply Kneed; auto|].
  destruct (ri_cancelled (rinfo_of s1 k)); [inversion Hrun; subst; apply Kneed; auto|].
  destruct (negb (N.eqb _ _)); [inversion Hrun; subst; apply Kneed; auto|].
  destruct (negb (valid _ _ _ _)); [inversion Hrun; subst; apply Kneed; auto; now apply Inv_iemit|].
  destruct (res_deps (res_of s1 k)) as [|d0 ds0] eqn:Ed; inversion Hrun; subst.
  - split; [|split; [|split; [discriminate|]]].
    + apply Inv_set_kind_idle; [exact Hidle1|apply idle_DoesNot|now apply Inv_iemit].
    + apply K1; autorewrite with iv; auto. intros k' Hne. autorewrite with iv. apply N.eqb_neq in Hne. now rewrite Hne.
    + intros _. unfold is_scanned, set_kind. now rewrite kind_of_mod_ri, N.eqb_refl.
  - match goal with |- context [upd_toscan ?a ?b] => change (upd_toscan a b) with (begin_scan (iemit s1 (EValid k true)) k) end.
    split; [|split; [|split; [|discriminate]]].
    + apply Inv_begin_scan; [exact Hidle1| |now apply Inv_iemit]. change (res_of (iemit s1 (EValid k true)) k) with (res_of s1 k). rewrite Ed. discriminate.
    + apply K1; unfold begin_scan; autorewrite with iv; auto. intros k' Hne. autorewrite with iv. apply N.eqb_neq in Hne. now rewrite Hne.
    + intros _. now rewrite begin_scan_kind, N.eqb_refl.
Qed.

(* ---------- demandRule ---------- *)
Definition keeps_demand (k : key) (s s' : istate) : Prop :=
  (forall k', k' <> k -> rinfo_of s' k' = rinfo_of s k') /\ (forall t, aget (is_tasks s) t <> None -> aget (is_tasks s') t <> None) /\
  is_toscan s' = is_toscan s /\ is_fininreq s' = is_fininreq s /\ is_fintasks s' = is_fintasks s /\ is_outstanding s' = is_outstanding s /\
  is_epoch s' = is_epoch s.

Lemma keeps_demand_refl k s : keeps_demand k s s. Proof. repeat split; auto. Qed.

Lemma keeps_demand_create rules ord s k : kind_of s k = KNeedsToRun -> keeps_demand k s (create_task rules ord s k).
Proof.
  intros Hk. unfold create_task. cbn zeta. rewrite Hk. cbn [kind_eqb check].
  pose proof (keeps_task_start rules ord (begin_task s k) k) as K2.
  pose proof (keeps_prior_value rules (task_start rules ord (begin_task s k) k) k) as K3.
  destruct (keeps_trans _ _ _ K2 K3) as (_ & R & T & F1 & F2 & F3 & F4 & F5).
  set (s3 := prior_value rules (task_start rules ord (begin_task s k) k) k) in *.
  assert (V : forall P : istate -> Prop, P s3 -> (forall q, P (upd_ready s3 q)) -> (forall cd, P (fault s3 cd)) -> P (ready_if_nowait s3 k)).
  { intros P H1 H2 H3. unfold ready_if_nowait. destruct (aget _ _); [destruct (Nat.eqb _ _)|]; auto. }
  repeat split.
  - intros k' Hne. apply (V (fun x => rinfo_of x k' = rinfo_of s k')); intros; autorewrite with iv; rewrite R;
      unfold begin_task; autorewrite with iv; apply N.eqb_neq in Hne; now rewrite Hne.
  - intros t Ht. apply (V (fun x => aget (is_tasks x) t <> None)); intros; autorewrite with iv; apply T;
      rewrite begin_task_tasks, aget_aset; now destruct (N.eqb t k).
  - apply (V (fun x => is_toscan x = is_toscan s)); intros; autorewrite with iv; rewrite F2; reflexivity.
  - apply (V (fun x => is_fininreq x = is_fininreq s)); intros; autorewrite with iv; rewrite F3; reflexivity.
  - apply (V (fun x => is_fintasks x = is_fintasks s)); intros; autorewrite with iv; rewrite F1; reflexivity.
  - apply (V (fun x => is_outstanding x = is_outstanding s)); intros; autorewrite with iv; rewrite F4; reflexivity.
  - apply (V (fun x => is_epoch x = is_epoch s)); intros; autorewrite with iv; rewrite F5; reflexivity.
Qed.

Lemma create_task_exists rules ord s k : kind_of s k = KNeedsToRun -> nf (create_task rules ord s k) -> aget (is_tasks (create_task rules ord s k)) k <> None.
Proof.
  intros Hk. unfold create_task. cbn zeta. rewrite Hk. cbn [kind_eqb check].
  pose proof (keeps_task_start rules ord (begin_task s k) k) as K2.
  pose proof (keeps_prior_value rules (task_start rules ord (begin_task s k) k) k) as K3.
  destruct (keeps_trans _ _ _ K2 K3) as (_ & _ & T & _).
  set (s3 := prior_value rules (task_start rules ord (begin_task s k) k) k) in *.
  assert (H3 : aget (is_tasks s3) k <> None) by (apply T; rewrite begin_task_tasks, aget_aset_same; discriminate).
  unfold ready_if_nowait. destruct (aget (is_tasks s3) k) eqn:E; [|contradiction]. destruct (Nat.eqb _ _); intros _; autorewrite with iv; rewrite E; discriminate.
Qed.

Lemma scanned_needs_to_run s k : is_scanned s k = true -> is_complete s k = false -> is_in_progress s k = false ->
  kind_eqb (kind_of s k) KDoesNotNeedToRun = false -> kind_of s k = KNeedsToRun.
Proof.
  unfold is_scanned, is_in_progress. intros H1 H2 H3 H4. destruct (kind_of s k); try discriminate; auto. congruence.
Qed.

Lemma demand_rule_post rules ord c s k b s' :
  demand_rule rules ord s k = (b, s') -> Inv rules c s -> cx_ex c = None -> is_scanned s k = true ->
  Inv rules c s' /\ keeps_demand k s s' /\ (b = false -> aget (is_tasks s') k <> None) /\ (b = true -> is_complete s' k = true).
Proof.
  unfold demand_rule. intros Hrun HI Hex Hsc. destruct (is_complete s k) eqn:E1.
  { inversion Hrun; subst. split; [exact HI|]. split; [apply keeps_demand_refl|]. split; [discriminate|auto]. }
  destruct (is_in_progress s k) eqn:E2.
  { inversion Hrun; subst. split; [exact HI|]. split; [apply keeps_demand_refl|]. split; [|discriminate].
    intros _. destruct HI as (_ & HT & _). now apply (t_tk c s' HT). }
  destruct (kind_eqb (kind_of s k) KDoesNotNeedToRun) eqn:E3; inversion Hrun; subst.
  - apply kind_eqb_eq in E3. split; [|split; [|split; [discriminate|]]].
    + unfold set_complete. apply Inv_mod_ri_idle; auto; [rewrite E3; apply idle_DoesNot|apply idle_Complete].
    + unfold set_complete. repeat split; autorewrite with iv; auto. intros k' Hne. autorewrite with iv. apply N.eqb_neq in Hne. now rewrite Hne.
    + intros _. unfold is_complete, set_complete. rewrite kind_of_mod_ri, res_of_mod_ri, N.eqb_refl. autorewrite with iv.
      cbn [ri_complete ri_with_kind ri_with_res ri_kind ri_res res_with_built res_builtAt kind_eqb andb]. apply N.eqb_refl.
  - pose proof (scanned_needs_to_run s k Hsc E1 E2 E3) as Hk. pose proof (Inv_create_task rules ord c s k Hex Hk HI) as HI'.
    split; [exact HI'|]. split; [now apply keeps_demand_create|]. split; [|discriminate].
    intros _. apply create_task_exists; auto. apply HI'.
Qed.
