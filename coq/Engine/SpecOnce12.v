(* C02, part 12: non-vacuity.  A rule set with a branch, an order-only, a single-use and a discovered edge; a history in
   which a dependency re-runs and produces an identical value; the reasons observed; the hypotheses of every theorem
   of Properties_C02 are met by these concrete instances (all by computation). *)
From LLB Require Import Engine.Rules Engine.Spec Engine.Exec Engine.SpecOnceFrame Engine.SpecOnce1 Engine.SpecOnce2
  Engine.SpecOnce3 Engine.SpecOnce4 Engine.SpecOnce5 Engine.SpecOnce8 Engine.SpecOnce10 Engine.SpecOnce11.
From Coq Require Import List NArith Bool Lia Arith.
Local Open Scope N_scope.

Definition ex_leaf : rule := mkRule 1 true [] [] [] None [].
(* 1,2,6,8: observing leaves; 3 = f(1); 4 uses 3, single-use 2, must follow 8; 5 uses 3, then 1 or 2 depending on 3's
   payload, and discovers 6; 7 uses 4 and 5 *)
Definition ex_table : list (key * rule) :=
  [ (1, ex_leaf); (2, ex_leaf); (6, ex_leaf); (8, ex_leaf);
    (3, mkRule 1 false [1] [] [] None []);
    (4, mkRule 1 false [3] [2] [8] None []);
    (5, mkRule 1 false [3] [] [] (Some (0%nat, [1], [2])) [6]);
    (7, mkRule 1 false [4; 5] [] [] None []) ].
Definition ex_rules : key -> rule := rules_of ex_table.
(* the recorded order is a permutation of the request order that depends on the epoch *)
Definition ex_order (e : N) (k : key) (l : list dep) : list dep := if N.even e then l else rev l.
Definition env0 (k : key) : N := 0.
Definition env1 (k : key) : N := if N.eqb k 1 then 5 else 0.
Definition env2 (k : key) : N := if N.eqb k 1 then 6 else 0.
Definition ex_fuel : nat := 40.

Lemma ex_order_incl : forall e k l d, In d (ex_order e k l) -> In d l.
Proof. intros e k l d H. unfold ex_order in H. destruct (N.even e); [exact H | now apply in_rev]. Qed.

Definition st_of (o : outcome) : state := match o with Ok s => s | Cycle s _ => s | OutOfFuel => init_state end.
Definition ex_s1 : state := Eval vm_compute in st_of (build ex_rules env0 mixF ex_order ex_fuel init_state 7).
Definition ex_s2 : state := Eval vm_compute in st_of (build ex_rules env1 mixF ex_order ex_fuel ex_s1 7).
Definition ex_s3 : state := Eval vm_compute in st_of (build ex_rules env2 mixF ex_order ex_fuel ex_s2 7).
Definition ex_s4 : state := Eval vm_compute in st_of (build ex_rules env2 mixF ex_order ex_fuel ex_s3 7).
Definition ex_s4r : state := Eval vm_compute in st_of (build ex_rules env2 mixF ex_order ex_fuel (restart ex_s3) 7).

Example ex_build1 : build ex_rules env0 mixF ex_order ex_fuel init_state 7 = Ok ex_s1.
Proof. vm_compute. reflexivity. Qed.
Example ex_build2 : build ex_rules env1 mixF ex_order ex_fuel ex_s1 7 = Ok ex_s2.
Proof. vm_compute. reflexivity. Qed.
Example ex_build3 : build ex_rules env2 mixF ex_order ex_fuel ex_s2 7 = Ok ex_s3.
Proof. vm_compute. reflexivity. Qed.
Example ex_build4 : build ex_rules env2 mixF ex_order ex_fuel ex_s3 7 = Ok ex_s4.
Proof. vm_compute. reflexivity. Qed.
Example ex_build4r : build ex_rules env2 mixF ex_order ex_fuel (restart ex_s3) 7 = Ok ex_s4r.
Proof. vm_compute. reflexivity. Qed.

(* what each build executed: everything; what the change of 1 reaches; in the third build 1 changes again, 3 re-runs and
   produces the SAME value, so 4 is not executed (5 and 7 are, because 5 reads 1 directly) *)
Example ex_creates :
  creates (new_log init_state ex_s1) = [6; 5; 8; 2; 1; 3; 4; 7] /\
  creates (new_log ex_s1 ex_s2) = [4; 7; 5; 3; 1] /\
  creates (new_log ex_s2 ex_s3) = [7; 5; 3; 1] /\
  creates (new_log ex_s3 ex_s4) = [] /\
  creates (new_log (restart ex_s3) ex_s4r) = [].
Proof. vm_compute. repeat split; reflexivity. Qed.

Definition need_events (l : list event) : list event :=
  filter (fun e => match e with ENeed _ _ _ => true | _ => false end) l.

(* reasons observed (most recent first): InvalidValue for the observing leaf, InputRebuilt with the triggering input *)
Example ex_reasons_build3 :
  need_events (new_log ex_s2 ex_s3) =
  [ENeed 7 InputRebuilt (Some 5); ENeed 5 InputRebuilt (Some 1); ENeed 3 InputRebuilt (Some 1); ENeed 1 InvalidValue None].
Proof. vm_compute. reflexivity. Qed.

Example ex_reasons_build1 :
  need_events (new_log init_state ex_s1) =
  [ENeed 6 NeverBuilt None; ENeed 5 NeverBuilt None; ENeed 8 NeverBuilt None; ENeed 2 NeverBuilt None;
   ENeed 1 NeverBuilt None; ENeed 3 NeverBuilt None; ENeed 4 NeverBuilt None; ENeed 7 NeverBuilt None].
Proof. vm_compute. reflexivity. Qed.

(* a changed signature and an interruption flag are reported as such *)
Definition ex_rules_sig (k : key) : rule := if N.eqb k 3 then mkRule 2 false [1] [] [] None [] else ex_rules k.
Example ex_reason_signature :
  need_events (new_log ex_s3 (st_of (build ex_rules_sig env2 mixF ex_order ex_fuel ex_s3 7))) =
  [ENeed 4 InputRebuilt (Some 3); ENeed 7 InputRebuilt (Some 5); ENeed 5 InputRebuilt (Some 3); ENeed 3 SignatureChanged None].
Proof. vm_compute. reflexivity. Qed.

Definition ex_s3_flagged : state := mkSt (st_mem ex_s3) (st_epoch ex_s3) (st_db ex_s3) (st_db_epoch ex_s3) [4] (st_log ex_s3).
Example ex_reason_forced :
  need_events (new_log ex_s3_flagged (st_of (build ex_rules env2 mixF ex_order ex_fuel ex_s3_flagged 7))) = [ENeed 4 Forced None].
Proof. vm_compute. reflexivity. Qed.

(* the hypotheses of "identical recomputation does not re-run the dependent" hold for rule 4 in the third build,
   although its dependency 3 DID re-run *)
Example ex_identical_recompute_hyps :
  In 3 (creates (new_log ex_s2 ex_s3)) /\
  res_value (get (st_mem ex_s3) 3) = res_value (get (st_mem ex_s2) 3) /\
  let r0 := get (st_mem ex_s2) 4 in
  res_builtAt r0 <> 0 /\ flagged ex_s2 4 = false /\ r_sig (ex_rules 4) = res_sig r0 /\ valid ex_rules env2 4 r0 = true /\
  (forall d, In d (drop_single (res_deps r0)) -> d_order d = false ->
     res_computedAt (get (st_mem ex_s2) (d_key d)) <= res_builtAt r0 /\
     res_value (get (st_mem ex_s3) (d_key d)) = res_value (get (st_mem ex_s2) (d_key d))).
Proof.
  split; [vm_compute; tauto|]. split; [vm_compute; reflexivity|]. cbv zeta.
  split; [vm_compute; discriminate|]. split; [vm_compute; reflexivity|]. split; [vm_compute; reflexivity|].
  split; [vm_compute; reflexivity|].
  intros d Hd Ho. vm_compute in Hd. destruct Hd as [<-|[<-|[]]]; [|discriminate Ho].
  split; [vm_compute; intros C; discriminate C | vm_compute; reflexivity].
Qed.

Example ex_no_reason_4 : no_reason ex_rules env2 ex_s2 ex_s3 4.
Proof.
  unfold no_reason. split; [vm_compute; discriminate|]. split; [vm_compute; reflexivity|]. split; [vm_compute; reflexivity|].
  split; [vm_compute; reflexivity|].
  intros d Hd Ho. vm_compute in Hd. destruct Hd as [<-|[<-|[]]]; [|discriminate Ho]. vm_compute. intros C; discriminate C.
Qed.

(* every recorded dependency on 8 is order-only: its computedAt is irrelevant *)
Lemma order_only_check : forall m d,
  forallb (fun kr => forallb (fun dd => negb (N.eqb (d_key dd) d) || d_order dd) (drop_single (res_deps (snd kr)))) m = true ->
  forall x dd, In dd (drop_single (res_deps (get m x))) -> d_key dd = d -> d_order dd = true.
Proof.
  intros m d H x dd Hd E. unfold get in Hd.
  induction m as [|[k r] t IH]; cbn [lookup] in Hd; [destruct Hd|].
  cbn [forallb] in H. apply andb_prop in H. destruct H as [H1 H2].
  destruct (N.eqb x k); [|now apply IH].
  cbn [snd] in H1. rewrite forallb_forall in H1. specialize (H1 dd Hd).
  apply orb_prop in H1. destruct H1 as [H1|H1]; [|exact H1].
  apply negb_true_iff, N.eqb_neq in H1. contradiction.
Qed.

Example ex_order_only_hyp :
  forall x dd, In dd (drop_single (res_deps (get (st_mem ex_s2) x))) -> d_key dd = 8 -> d_order dd = true.
Proof. apply order_only_check. vm_compute. reflexivity. Qed.

(* ... while the computedAt of a used dependency is not irrelevant (so the hypothesis cannot be dropped) *)
Example ex_used_dependency_matters :
  creates (new_log ex_s3 (st_of (build ex_rules env2 mixF ex_order ex_fuel ex_s3 7))) = [] /\
  let t := set_mem ex_s3 3 (with_computedAt (get (st_mem ex_s3) 3) 99) in
  creates (new_log t (st_of (build ex_rules env2 mixF ex_order ex_fuel t 7))) = [4; 5].
Proof. vm_compute. split; reflexivity. Qed.

Example ex_order_only_concrete :
  let t := set_mem ex_s2 8 (with_computedAt (get (st_mem ex_s2) 8) 99) in
  st_log (st_of (build ex_rules env2 mixF ex_order ex_fuel t 7)) = st_log ex_s3.
Proof. vm_compute. reflexivity. Qed.

(* the invariants hold of the initial state *)
Example ex_bounded_init : bounded init_state.
Proof. intros x. cbn. split; lia. Qed.

(* the same through Exec histories *)
Definition ex_ops : list op :=
  map (fun kr => ORule (fst kr) (snd kr)) ex_table ++ [ORestart true; OBuild 7; OSet 1 5; OBuild 7; OSet 1 6].

Example ex_history_build_ok :
  let h := run_history mixF ex_order ex_fuel ex_ops in
  exists s1, build (rules_of (h_rules h)) (env_of (h_env h)) mixF ex_order ex_fuel (emit (h_st h) (EBuildStart 7)) 7 = Ok s1
    /\ creates (new_log (emit (h_st h) (EBuildStart 7)) s1) = [7; 5; 3; 1].
Proof. cbv zeta. eexists. split; vm_compute; reflexivity. Qed.
