(* P19 - small-step model of the engine loop: BuildEngineImpl::executeTasks and what it calls
   (lib/Core/BuildEngine.cpp: scanRule, demandRule, processRuleScanRequest, finishScanRequest, decrementTaskWaitCount,
   addTaskInputRequest, taskDiscoveredDependency, taskIsComplete, findCycle's graph, cancelRemainingTasks), driven by the
   task DSL of harness/cpp/engine_driver.cpp (the same rule records as Spec.v plus the call order `ord`).
   Definitions only; proofs are in ImplProofs*.v.

   Representation of the containers:
     std::vector used as a stack (ruleInfosToScan, finishedInputRequests, finishedTaskInfos): list whose HEAD is back()
     std::deque used FIFO (inputRequests, readyTaskInfos): list whose head is front(), push_back = append at the tail
     std::vector only appended and iterated (pausedInputRequests, deferredScanRequests, requestedBy, dependencies,
       discoveredDependencies): list in begin()..end() order
     unordered_map ruleInfos / taskInfos: association lists keyed by the rule key (a task is named by its rule's key:
       a rule has at most one task at a time - ImplProofs: impl_at_most_once)
   Asserts are compiled out (-DNDEBUG): where the code would misbehave when an assert is false the model records a
   fault code in [is_fault] and goes on as the compiled code would where that is defined; the proofs show no fault
   is reachable.  Cycle breaking is modelled for the default delegate (shouldResolveCycle = false: breakCycle has no
   effect and returns false).  Cancellation (buildCancelled) is not modelled. *)
From LLB Require Import Engine.Rules Engine.Spec.
From LLB Require Engine.FindCycle.
Local Open Scope N_scope.

(* ---------- association lists ---------- *)
Fixpoint aget {A} (m : list (N * A)) (k : N) : option A :=
  match m with [] => None | (k', a) :: t => if N.eqb k k' then Some a else aget t k end.
Fixpoint aset {A} (m : list (N * A)) (k : N) (a : A) : list (N * A) :=
  match m with
  | [] => [(k, a)]
  | (k', a') :: t => if N.eqb k k' then (k, a) :: t else (k', a') :: aset t k a
  end.
Fixpoint adel {A} (m : list (N * A)) (k : N) : list (N * A) :=
  match m with
  | [] => []
  | (k', a') :: t => if N.eqb k k' then adel t k else (k', a') :: adel t k
  end.

(* ---------- RuleInfo::StateKind ---------- *)
Inductive kind := KIncomplete | KScanning | KNeedsToRun | KDoesNotNeedToRun | KWaiting | KComputing | KComplete.
Definition kind_eqb (a b : kind) : bool :=
  match a, b with
  | KIncomplete, KIncomplete | KScanning, KScanning | KNeedsToRun, KNeedsToRun | KDoesNotNeedToRun, KDoesNotNeedToRun
  | KWaiting, KWaiting | KComputing, KComputing | KComplete, KComplete => true
  | _, _ => false
  end.

(* TaskInputRequest: taskInfo (None: the dummy request of build() / of a discovered dependency), inputID,
   inputRuleInfo, orderOnly, singleUse.  forcePriorValue is only set by breakCycle (never, see above). *)
Record ireq := mkIReq { iq_task : option key; iq_slot : nat; iq_input : key; iq_order : bool; iq_single : bool }.

(* RuleScanRequest: ruleInfo, inputIndex, inputRuleInfo (cached lookup), orderOnly, singleUse *)
Record sreq := mkSReq { sq_rule : key; sq_index : nat; sq_input : option key; sq_order : bool; sq_single : bool }.

(* RuleInfo: state, result, the RuleScanRecord (meaningful while IsScanning), taskWasCancelled *)
Record rinfo := mkRI {
  ri_kind : kind;
  ri_res : result;
  ri_paused : list ireq;        (* pendingScanRecord->pausedInputRequests *)
  ri_deferred : list sreq;      (* pendingScanRecord->deferredScanRequests *)
  ri_cancelled : bool
}.
Definition new_rinfo (r : result) : rinfo := mkRI KIncomplete r [] [] false.

(* TaskInfo + the driver's DTask fields *)
Record tinfo := mkTI {
  ti_wait : nat;                      (* waitCount *)
  ti_reqby : list ireq;               (* requestedBy *)
  ti_deferred : list sreq;            (* deferredScanRequests *)
  ti_disc : list dep;                 (* discoveredDependencies *)
  ti_slots : list (option value);     (* DTask::slots (None = Val(): nothing / the empty value delivered) *)
  ti_branched : bool;                 (* DTask::branched *)
  ti_pending : option value           (* the driver's Pending: value computed in inputsAvailable, complete() not yet called *)
}.
Definition new_tinfo : tinfo := mkTI 0 [] [] [] [] false None.

Record istate := mkIS {
  is_rules : list (key * rinfo);      (* ruleInfos: the rules this engine instance has looked up *)
  is_tasks : list (key * tinfo);      (* taskInfos *)
  is_toscan : list sreq;              (* ruleInfosToScan, head = back() *)
  is_inreq : list ireq;               (* inputRequests, head = front() *)
  is_fininreq : list ireq;            (* finishedInputRequests, head = back() *)
  is_ready : list key;                (* readyTaskInfos, head = front() *)
  is_fintasks : list key;             (* finishedTaskInfos, head = back() *)
  is_outstanding : nat;               (* numOutstandingUnfinishedTasks *)
  is_epoch : N;                       (* currentEpoch *)
  is_usedb : bool;                    (* a database is attached *)
  is_db : alist;                      (* rule_results *)
  is_db_epoch : N;                    (* info.iteration *)
  is_fault : option N;                (* first assert of the code that would have failed (proved unreachable) *)
  is_log : list event                 (* ghost: callbacks in order, most recent first *)
}.
Definition init_istate : istate := mkIS [] [] [] [] [] [] [] 0 0 false [] 0 None [].

(* fault codes *)
Definition FNoTask := 1.          (* a request names a task that does not exist *)
Definition FNotScanning := 2.     (* scan bookkeeping on a rule that is not IsScanning *)
Definition FWaitUnderflow := 3.   (* --waitCount at 0 *)
Definition FNotWaiting := 4.      (* addTaskInputRequest / setComputing outside InProgressWaiting (the code aborts) *)
Definition FNotComputing := 5.    (* finished-task processing / discoveredDependency / complete outside InProgressComputing *)
Definition FDemandUnscanned := 6. (* demandRule reached task creation on a rule that is not NeedsToRun *)
Definition FScanIndex := 7.       (* processRuleScanRequest entered with inputIndex == dependencies.size() *)
Definition FFuel := 99.           (* model artefact: phase fuel exhausted *)

(* ---------- field updates ---------- *)
Definition upd_rules (s : istate) (m : list (key * rinfo)) : istate :=
  mkIS m (is_tasks s) (is_toscan s) (is_inreq s) (is_fininreq s) (is_ready s) (is_fintasks s) (is_outstanding s)
       (is_epoch s) (is_usedb s) (is_db s) (is_db_epoch s) (is_fault s) (is_log s).
Definition upd_tasks (s : istate) (m : list (key * tinfo)) : istate :=
  mkIS (is_rules s) m (is_toscan s) (is_inreq s) (is_fininreq s) (is_ready s) (is_fintasks s) (is_outstanding s)
       (is_epoch s) (is_usedb s) (is_db s) (is_db_epoch s) (is_fault s) (is_log s).
Definition upd_toscan (s : istate) (q : list sreq) : istate :=
  mkIS (is_rules s) (is_tasks s) q (is_inreq s) (is_fininreq s) (is_ready s) (is_fintasks s) (is_outstanding s)
       (is_epoch s) (is_usedb s) (is_db s) (is_db_epoch s) (is_fault s) (is_log s).
Definition upd_inreq (s : istate) (q : list ireq) : istate :=
  mkIS (is_rules s) (is_tasks s) (is_toscan s) q (is_fininreq s) (is_ready s) (is_fintasks s) (is_outstanding s)
       (is_epoch s) (is_usedb s) (is_db s) (is_db_epoch s) (is_fault s) (is_log s).
Definition upd_fininreq (s : istate) (q : list ireq) : istate :=
  mkIS (is_rules s) (is_tasks s) (is_toscan s) (is_inreq s) q (is_ready s) (is_fintasks s) (is_outstanding s)
       (is_epoch s) (is_usedb s) (is_db s) (is_db_epoch s) (is_fault s) (is_log s).
Definition upd_ready (s : istate) (q : list key) : istate :=
  mkIS (is_rules s) (is_tasks s) (is_toscan s) (is_inreq s) (is_fininreq s) q (is_fintasks s) (is_outstanding s)
       (is_epoch s) (is_usedb s) (is_db s) (is_db_epoch s) (is_fault s) (is_log s).
Definition upd_fintasks (s : istate) (q : list key) : istate :=
  mkIS (is_rules s) (is_tasks s) (is_toscan s) (is_inreq s) (is_fininreq s) (is_ready s) q (is_outstanding s)
       (is_epoch s) (is_usedb s) (is_db s) (is_db_epoch s) (is_fault s) (is_log s).
Definition upd_outstanding (s : istate) (n : nat) : istate :=
  mkIS (is_rules s) (is_tasks s) (is_toscan s) (is_inreq s) (is_fininreq s) (is_ready s) (is_fintasks s) n
       (is_epoch s) (is_usedb s) (is_db s) (is_db_epoch s) (is_fault s) (is_log s).
Definition upd_db (s : istate) (d : alist) : istate :=
  mkIS (is_rules s) (is_tasks s) (is_toscan s) (is_inreq s) (is_fininreq s) (is_ready s) (is_fintasks s) (is_outstanding s)
       (is_epoch s) (is_usedb s) d (is_db_epoch s) (is_fault s) (is_log s).
Definition iemit (s : istate) (e : event) : istate :=
  mkIS (is_rules s) (is_tasks s) (is_toscan s) (is_inreq s) (is_fininreq s) (is_ready s) (is_fintasks s) (is_outstanding s)
       (is_epoch s) (is_usedb s) (is_db s) (is_db_epoch s) (is_fault s) (e :: is_log s).
Definition fault (s : istate) (c : N) : istate :=
  mkIS (is_rules s) (is_tasks s) (is_toscan s) (is_inreq s) (is_fininreq s) (is_ready s) (is_fintasks s) (is_outstanding s)
       (is_epoch s) (is_usedb s) (is_db s) (is_db_epoch s) (match is_fault s with Some c0 => Some c0 | None => Some c end) (is_log s).

(* ---------- single-field updates of the records ---------- *)
Definition res_with_deps (r : result) (d : list dep) : result := mkRes (res_value r) (res_sig r) (res_computedAt r) (res_builtAt r) d.
Definition res_with_built (r : result) (b : N) : result := mkRes (res_value r) (res_sig r) (res_computedAt r) b (res_deps r).
Definition ri_with_kind (kd : kind) (ri : rinfo) : rinfo := mkRI kd (ri_res ri) (ri_paused ri) (ri_deferred ri) (ri_cancelled ri).
Definition ri_with_res (r : result) (ri : rinfo) : rinfo := mkRI (ri_kind ri) r (ri_paused ri) (ri_deferred ri) (ri_cancelled ri).
Definition ri_with_paused (l : list ireq) (ri : rinfo) : rinfo := mkRI (ri_kind ri) (ri_res ri) l (ri_deferred ri) (ri_cancelled ri).
Definition ri_with_deferred (l : list sreq) (ri : rinfo) : rinfo := mkRI (ri_kind ri) (ri_res ri) (ri_paused ri) l (ri_cancelled ri).
Definition ri_with_cancelled (b : bool) (ri : rinfo) : rinfo := mkRI (ri_kind ri) (ri_res ri) (ri_paused ri) (ri_deferred ri) b.
Definition ti_with_wait (n : nat) (ti : tinfo) : tinfo := mkTI n (ti_reqby ti) (ti_deferred ti) (ti_disc ti) (ti_slots ti) (ti_branched ti) (ti_pending ti).
Definition ti_with_reqby (l : list ireq) (ti : tinfo) : tinfo := mkTI (ti_wait ti) l (ti_deferred ti) (ti_disc ti) (ti_slots ti) (ti_branched ti) (ti_pending ti).
Definition ti_with_deferred (l : list sreq) (ti : tinfo) : tinfo := mkTI (ti_wait ti) (ti_reqby ti) l (ti_disc ti) (ti_slots ti) (ti_branched ti) (ti_pending ti).
Definition ti_with_disc (l : list dep) (ti : tinfo) : tinfo := mkTI (ti_wait ti) (ti_reqby ti) (ti_deferred ti) l (ti_slots ti) (ti_branched ti) (ti_pending ti).
Definition ti_with_slots (l : list (option value)) (ti : tinfo) : tinfo := mkTI (ti_wait ti) (ti_reqby ti) (ti_deferred ti) (ti_disc ti) l (ti_branched ti) (ti_pending ti).
Definition ti_with_branched (b : bool) (ti : tinfo) : tinfo := mkTI (ti_wait ti) (ti_reqby ti) (ti_deferred ti) (ti_disc ti) (ti_slots ti) b (ti_pending ti).
Definition ti_with_pending (p : option value) (ti : tinfo) : tinfo := mkTI (ti_wait ti) (ti_reqby ti) (ti_deferred ti) (ti_disc ti) (ti_slots ti) (ti_branched ti) p.

(* the order in which DTask::start calls request / requestSingleUse / mustFollow (the scenario's ord=) *)
Inductive rkind := RReq | RSingle | RFollow.

Fixpoint set_nth {A} (l : list A) (n : nat) (a : A) : list A :=
  match l, n with
  | [], _ => []
  | _ :: t, O => a :: t
  | x :: t, S n' => x :: set_nth t n' a
  end.

(* ---------- ruleInfos / taskInfos access ---------- *)

(* getRuleInfoForKey: the entry, or what addRule would create (the stored result when a database is attached) *)
Definition rinfo_of (s : istate) (k : key) : rinfo :=
  match aget (is_rules s) k with
  | Some ri => ri
  | None => new_rinfo (if is_usedb s then get (is_db s) k else empty_result)
  end.
Definition touch (s : istate) (k : key) : istate :=
  match aget (is_rules s) k with
  | Some _ => s
  | None => upd_rules s (aset (is_rules s) k (rinfo_of s k))
  end.
Definition set_ri (s : istate) (k : key) (ri : rinfo) : istate := upd_rules s (aset (is_rules s) k ri).
Definition mod_ri (s : istate) (k : key) (f : rinfo -> rinfo) : istate := set_ri s k (f (rinfo_of s k)).
Definition kind_of (s : istate) (k : key) : kind := ri_kind (rinfo_of s k).
Definition res_of (s : istate) (k : key) : result := ri_res (rinfo_of s k).
Definition set_kind (s : istate) (k : key) (kd : kind) : istate := mod_ri s k (ri_with_kind kd).
Definition set_res (s : istate) (k : key) (r : result) : istate := mod_ri s k (ri_with_res r).
Definition set_ti (s : istate) (k : key) (ti : tinfo) : istate := upd_tasks s (aset (is_tasks s) k ti).
(* update of a task that must exist *)
Definition mod_ti (s : istate) (t : key) (f : tinfo -> tinfo) : istate :=
  match aget (is_tasks s) t with
  | Some ti => set_ti s t (f ti)
  | None => fault s FNoTask
  end.
(* the code path continues only if the assert's condition holds; otherwise a fault is recorded *)
Definition check (s : istate) (b : bool) (c : N) : istate := if b then s else fault s c.

Definition is_complete (s : istate) (k : key) : bool :=
  kind_eqb (kind_of s k) KComplete && N.eqb (res_builtAt (res_of s k)) (is_epoch s).
Definition is_scanned (s : istate) (k : key) : bool :=
  match kind_of s k with
  | KComplete => is_complete s k
  | KIncomplete | KScanning => false
  | _ => true
  end.
Definition is_in_progress (s : istate) (k : key) : bool :=
  match kind_of s k with KWaiting | KComputing => true | _ => false end.

(* ---------- the engine's task API ---------- *)
Definition push_inreq (s : istate) (rq : ireq) : istate := upd_inreq s (is_inreq s ++ [rq]).
Definition ti_inc_wait (ti : tinfo) : tinfo := ti_with_wait (S (ti_wait ti)) ti.

(* addTaskInputRequest *)
Definition add_request (s : istate) (t : key) (inp : key) (slot : nat) (order single : bool) : istate :=
  match aget (is_tasks s) t with
  | None => fault s FNoTask
  | Some _ =>
    if negb (kind_eqb (kind_of s t) KWaiting) then fault s FNotWaiting      (* the code calls abort() *)
    else mod_ti (push_inreq (touch s inp) (mkIReq (Some t) slot inp order single)) t ti_inc_wait
  end.

(* taskDiscoveredDependency *)
Definition ti_add_disc (d : key) (ti : tinfo) : tinfo := ti_with_disc (ti_disc ti ++ [mkDep d false false]) ti.
Definition discovered (s : istate) (t : key) (d : key) : istate :=
  match aget (is_tasks s) t with
  | None => fault s FNoTask
  | Some _ =>
    if negb (kind_eqb (kind_of s t) KComputing) then fault s FNotComputing
    else mod_ti s t (ti_add_disc d)
  end.

(* taskIsComplete (forceChange = false): the new result of rule t (signature sg) *)
Definition completed_result (sg : N) (ep : N) (r : result) (v : value) : result :=
  let same := match res_value r with Some old => value_eqb old v | None => false end in
  if same then mkRes (res_value r) sg (res_computedAt r) (res_builtAt r) (res_deps r)
  else mkRes (Some v) sg ep (res_builtAt r) (res_deps r).

Section Impl.
Variable rules : key -> rule.
Variable env : key -> N.
Variable F : key -> N -> list value -> list N -> N -> N.
Variable ord : key -> list rkind.
Variable syncp : key -> bool.       (* the task of this key calls complete() inside inputsAvailable *)

Definition task_is_complete (s : istate) (t : key) (v : value) : istate :=
  if negb (kind_eqb (kind_of s t) KComputing) then fault s FNotComputing
  else
    let s := set_res s t (completed_result (r_sig (rules t)) (is_epoch s) (res_of s t) v) in
    upd_fintasks s (t :: is_fintasks s).

(* ---------- the driver's task (DTask in harness/cpp/engine_driver.cpp) ---------- *)

Fixpoint add_reqs (s : istate) (t : key) (ks : list key) (slot : nat) (single : bool) : istate :=
  match ks with
  | [] => s
  | x :: ks' => add_reqs (add_request s t x slot false single) t ks' (S slot) single
  end.
Fixpoint add_follows (s : istate) (t : key) (ks : list key) : istate :=
  match ks with
  | [] => s
  | x :: ks' => add_follows (add_request s t x 0%nat true false) t ks'       (* kMustFollowInputID: never delivered *)
  end.
Definition start_group (s : istate) (t : key) (c : rkind) : istate :=
  match c with
  | RReq => add_reqs s t (r_req (rules t)) 0%nat false
  | RSingle => add_reqs s t (r_single (rules t)) (length (r_req (rules t))) true
  | RFollow => add_follows s t (r_follow (rules t))
  end.
(* DTask::start *)
Definition initial_slots (rl : rule) : list (option value) := repeat None (length (r_req rl) + length (r_single rl)).
Definition task_start (s : istate) (t : key) : istate :=
  let s := iemit s (EStart t) in
  let s := mod_ti s t (ti_with_slots (initial_slots (rules t))) in
  fold_left (fun s c => start_group s t c) (ord t) s.

(* DTask::req from provideValue: a new slot at the end, then request() *)
Definition ti_new_slot (ti : tinfo) : tinfo := ti_with_slots (ti_slots ti ++ [None]) ti.
Fixpoint branch_reqs (s : istate) (t : key) (ks : list key) : istate :=
  match ks with
  | [] => s
  | x :: ks' =>
    match aget (is_tasks s) t with
    | None => fault s FNoTask
    | Some ti => branch_reqs (add_request (set_ti s t (ti_new_slot ti)) t x (length (ti_slots ti)) false false) t ks'
    end
  end.

(* DTask::provideValue: store the value; the branch slot fires once *)
Definition store_slot (slot : nat) (v : option value) (ti : tinfo) : tinfo :=
  if Nat.ltb slot (length (ti_slots ti)) then ti_with_slots (set_nth (ti_slots ti) slot v) ti else ti.
Definition branch_fire (t : key) (ti : tinfo) (slot : nat) (v : option value) : option (list key) :=
  match r_br (rules t) with
  | Some (i, a, b) =>
    if negb (ti_branched ti) && Nat.eqb slot i && Nat.ltb i (length (r_req (rules t)))
    then Some (if is_even (payload_of v) then a else b) else None
  | None => None
  end.
Definition provide_value (s : istate) (t : key) (slot : nat) (inp : key) (v : option value) : istate :=
  let s := iemit s (EProvide t slot inp v) in
  match aget (is_tasks s) t with
  | None => fault s FNoTask
  | Some ti =>
    match branch_fire t ti slot v with
    | None => set_ti s t (store_slot slot v ti)
    | Some ks => branch_reqs (set_ti s t (ti_with_branched true (store_slot slot v ti))) t ks
    end
  end.

(* the driver's finish(p): discovered dependencies, then complete() *)
Definition task_finish (s : istate) (t : key) : istate :=
  match aget (is_tasks s) t with
  | None => s
  | Some ti =>
    match ti_pending ti with
    | None => s                                   (* nothing pending: not a task the schedule can complete *)
    | Some v =>
      let s := set_ti s t (ti_with_pending None ti) in
      let s := fold_left (fun s d => discovered s t d) (r_disc (rules t)) s in
      task_is_complete (iemit s (EComplete t v)) t v
    end
  end.

(* the slots whose values the task uses: requests and branch requests, not the single-use ones *)
Definition used_slots (rl : rule) (slots : list (option value)) : list (option value) :=
  firstn (length (r_req rl)) slots ++ skipn (length (r_req rl) + length (r_single rl)) slots.
Definition task_value (t : key) (ti : tinfo) : value :=
  let rl := rules t in
  let o := Spec.obs rules env t in
  (F t (r_sig rl) (map payload_of (used_slots rl (ti_slots ti))) (map env (r_disc rl)) o, o).

(* DTask::inputsAvailable (after the event): compute the value; a synchronous task completes at once *)
Definition avail_body (s : istate) (t : key) : istate :=
  match aget (is_tasks s) t with
  | None => fault s FNoTask
  | Some ti =>
    let s := set_ti s t (ti_with_pending (Some (task_value t ti)) ti) in
    if syncp t then task_finish s t else s
  end.
Definition inputs_available (s : istate) (t : key) : istate := avail_body (iemit s (EAvail t)) t.

(* ---------- scanRule ---------- *)
Definition need (s : istate) (k : key) (reason : N) (inp : option key) : istate :=
  iemit (set_kind s k KNeedsToRun) (ENeed k reason inp).
(* cleanSingleUseDependencies *)
Definition ri_clean_single (ri : rinfo) : rinfo := ri_with_res (res_with_deps (ri_res ri) (drop_single (res_deps (ri_res ri)))) ri.
(* state = IsScanning with a fresh (cleared) scan record *)
Definition ri_begin_scan (ri : rinfo) : rinfo := mkRI KScanning (ri_res ri) [] [] (ri_cancelled ri).

Definition scan_rule (s : istate) (k : key) : bool * istate :=
  if is_scanned s k then (true, s)
  else if kind_eqb (kind_of s k) KScanning then (false, s)
  else
    let s := mod_ri s k ri_clean_single in
    let r := res_of s k in
    if N.eqb (res_builtAt r) 0 then (true, need s k NeverBuilt None)
    else if ri_cancelled (rinfo_of s k) then (true, need s k Forced None)
    else if negb (N.eqb (r_sig (rules k)) (res_sig r)) then (true, need s k SignatureChanged None)
    else if negb (Spec.valid rules env k r) then (true, need (iemit s (EValid k false)) k InvalidValue None)
    else
      match res_deps r with
      | [] => (true, set_kind (iemit s (EValid k true)) k KDoesNotNeedToRun)
      | _ :: _ =>
        let s := mod_ri (iemit s (EValid k true)) k ri_begin_scan in
        (false, upd_toscan s (mkSReq k 0%nat None false false :: is_toscan s))      (* enqueue the scan of input 0 *)
      end.

(* ---------- demandRule ---------- *)
Definition ri_complete (ep : N) (ri : rinfo) : rinfo := ri_with_kind KComplete (ri_with_res (res_with_built (ri_res ri) ep) ri).
Definition set_complete (s : istate) (k : key) : istate := mod_ri s k (ri_complete (is_epoch s)).

(* InProgressWaiting, taskWasCancelled = false, dependencies cleared *)
Definition ri_begin_task (ri : rinfo) : rinfo := mkRI KWaiting (res_with_deps (ri_res ri) []) (ri_paused ri) (ri_deferred ri) false.
Definition begin_task (s : istate) (k : key) : istate :=
  mod_ri (set_ti (iemit s (ECreate k)) k new_tinfo) k ri_begin_task.
Definition prior_value (s : istate) (k : key) : istate :=
  let r := res_of s k in
  if negb (N.eqb (res_builtAt r) 0) && N.eqb (r_sig (rules k)) (res_sig r) then iemit s (EPrior k (res_value r)) else s.
Definition ready_if_nowait (s : istate) (k : key) : istate :=
  match aget (is_tasks s) k with
  | Some ti => if Nat.eqb (ti_wait ti) 0 then upd_ready s (is_ready s ++ [k]) else s
  | None => fault s FNoTask
  end.
Definition create_task (s : istate) (k : key) : istate :=
  let s := check s (kind_eqb (kind_of s k) KNeedsToRun) FDemandUnscanned in
  ready_if_nowait (prior_value (task_start (begin_task s k) k) k) k.

Definition demand_rule (s : istate) (k : key) : bool * istate :=
  if is_complete s k then (true, s)
  else if is_in_progress s k then (false, s)
  else if kind_eqb (kind_of s k) KDoesNotNeedToRun then (true, set_complete s k)
  else (false, create_task s k).

(* ---------- finishScanRequest ---------- *)
Definition ri_end_scan (kd : kind) (ri : rinfo) : rinfo := mkRI kd (ri_res ri) [] [] (ri_cancelled ri).
Definition wake_scan_record (s : istate) (ri : rinfo) : istate :=
  upd_inreq (upd_toscan s (rev (ri_deferred ri) ++ is_toscan s)) (is_inreq s ++ ri_paused ri).
Definition finish_scan (s : istate) (k : key) (kd : kind) : istate :=
  let s := check s (kind_eqb (kind_of s k) KScanning) FNotScanning in
  mod_ri (wake_scan_record s (rinfo_of s k)) k (ri_end_scan kd).

(* ---------- processRuleScanRequest ---------- *)
Definition ri_add_deferred (rq : sreq) (ri : rinfo) : rinfo := ri_with_deferred (ri_deferred ri ++ [rq]) ri.
Definition ri_add_paused (rq : ireq) (ri : rinfo) : rinfo := ri_with_paused (ri_paused ri ++ [rq]) ri.
Definition ti_add_deferred (rq : sreq) (ti : tinfo) : tinfo := ti_with_deferred (ti_deferred ti ++ [rq]) ti.
Definition ti_add_reqby (rq : ireq) (ti : tinfo) : tinfo := ti_with_reqby (ti_reqby ti ++ [rq]) ti.
(* inputRuleInfo.getPendingScanRecord()->deferredScanRequests.push_back(request) *)
Definition defer_on_rule (s : istate) (inp : key) (rq : sreq) : istate :=
  mod_ri (check s (kind_eqb (kind_of s inp) KScanning) FNotScanning) inp (ri_add_deferred rq).
(* inputRuleInfo.getPendingTaskInfo()->deferredScanRequests.push_back(request) *)
Definition defer_on_task (s : istate) (inp : key) (rq : sreq) : istate := mod_ti s inp (ti_add_deferred rq).
(* the request with the looked-up input cached *)
Definition fill_request (rq : sreq) (d : dep) : sreq :=
  match sq_input rq with
  | Some _ => rq
  | None => mkSReq (sq_rule rq) (sq_index rq) (Some (d_key d)) (d_order d) (d_single d)
  end.
Definition request_input (rq : sreq) (d : dep) : key := match sq_input rq with Some i => i | None => d_key d end.
Definition input_rebuilt (s : istate) (k inp : key) : bool := res_builtAt (res_of s k) <? res_computedAt (res_of s inp).

(* The do-while over the remaining inputs of the scanning rule: [ds] is dependencies[inputIndex..] (the list is not
   modified while the rule is IsScanning). *)
Fixpoint scan_inputs (s : istate) (rq : sreq) (ds : list dep) : istate :=
  match ds with
  | [] => fault s FScanIndex                 (* dependencies[inputIndex] out of range *)
  | d :: ds' =>
    let k := sq_rule rq in
    let inp := request_input rq d in
    let rq := fill_request rq d in
    match scan_rule (touch s inp) inp with
    | (false, s) => defer_on_rule s inp rq
    | (true, s) =>
      match demand_rule s inp with
      | (false, s) => defer_on_task s inp rq
      | (true, s) =>
        if negb (sq_order rq) && input_rebuilt s k inp then iemit (finish_scan s k KNeedsToRun) (ENeed k InputRebuilt (Some inp))
        else match ds' with
             | [] => finish_scan s k KDoesNotNeedToRun
             | _ :: _ => scan_inputs s (mkSReq k (S (sq_index rq)) None false false) ds'
             end
      end
    end
  end.

Definition process_scan_request (s : istate) (rq : sreq) : istate :=
  if negb (kind_eqb (kind_of s (sq_rule rq)) KScanning) then s      (* "already scanned" (wasForced) early return *)
  else scan_inputs s rq (skipn (sq_index rq) (res_deps (res_of s (sq_rule rq)))).

(* ---------- the bodies of the five queue loops of executeTasks ---------- *)

(* one ruleInfosToScan item *)
Definition step_scan (s : istate) : istate :=
  match is_toscan s with
  | [] => s
  | rq :: rest => process_scan_request (upd_toscan s rest) rq
  end.

Definition pause_on_rule (s : istate) (inp : key) (rq : ireq) : istate :=
  mod_ri (check s (kind_eqb (kind_of s inp) KScanning) FNotScanning) inp (ri_add_paused rq).
Definition ri_add_dep (d : dep) (ri : rinfo) : rinfo := ri_with_res (res_with_deps (ri_res ri) (res_deps (ri_res ri) ++ [d])) ri.
(* the requesting task's rule records the dependency; then the request waits for the input or is ready to be delivered *)
Definition route_request (s : istate) (t : key) (rq : ireq) (avail : bool) : istate :=
  let s := mod_ri s t (ri_add_dep (mkDep (iq_input rq) (iq_order rq) (iq_single rq))) in
  if avail then upd_fininreq s (rq :: is_fininreq s) else mod_ti s (iq_input rq) (ti_add_reqby rq).

(* one inputRequests item *)
Definition process_input_request (s : istate) (rq : ireq) : istate :=
  match scan_rule s (iq_input rq) with
  | (false, s) => pause_on_rule s (iq_input rq) rq
  | (true, s) =>
    match demand_rule s (iq_input rq) with
    | (avail, s) =>
      match iq_task rq with
      | None => s                                  (* dummy request *)
      | Some t => route_request s t rq avail
      end
    end
  end.
Definition step_inreq (s : istate) : istate :=
  match is_inreq s with
  | [] => s
  | rq :: rest => process_input_request (upd_inreq s rest) rq
  end.

(* decrementTaskWaitCount *)
Definition decrement_wait (s : istate) (t : key) : istate :=
  match aget (is_tasks s) t with
  | None => fault s FNoTask
  | Some ti =>
    match ti_wait ti with
    | O => fault s FWaitUnderflow
    | S n =>
      let s := set_ti s t (ti_with_wait n ti) in
      if Nat.eqb n 0 then upd_ready s (is_ready s ++ [t]) else s
    end
  end.

(* one finishedInputRequests item *)
Definition deliver (s : istate) (rq : ireq) : istate :=
  match iq_task rq with
  | None => fault s FNoTask                   (* dummy requests never get here *)
  | Some t =>
    let s := if iq_order rq then s
             else provide_value s t (iq_slot rq) (iq_input rq) (res_value (res_of s (iq_input rq))) in
    decrement_wait s t
  end.
Definition step_fininreq (s : istate) : istate :=
  match is_fininreq s with
  | [] => s
  | rq :: rest => deliver (upd_fininreq s rest) rq
  end.

(* one readyTaskInfos item *)
Definition run_ready (s : istate) (t : key) : istate :=
  let s := check s (kind_eqb (kind_of s t) KWaiting) FNotWaiting in
  let s := inputs_available (set_kind s t KComputing) t in
  upd_outstanding s (S (is_outstanding s)).
Definition step_ready (s : istate) : istate :=
  match is_ready s with
  | [] => s
  | t :: rest => run_ready (upd_ready s rest) t
  end.

Fixpoint push_dummies (s : istate) (ds : list dep) : istate :=
  match ds with
  | [] => s
  | d :: ds' => push_dummies (push_inreq (touch s (d_key d)) (mkIReq None 0%nat (d_key d) (d_order d) (d_single d))) ds'
  end.
Definition ri_append_deps (ds : list dep) (ri : rinfo) : rinfo := ri_with_res (res_with_deps (ri_res ri) (res_deps (ri_res ri) ++ ds)) ri.
Definition db_write (s : istate) (t : key) : istate :=
  if is_usedb s then upd_db s (update (is_db s) t (res_of s t)) else s.
Definition wake_task_waiters (s : istate) (ti : tinfo) : istate :=
  upd_fininreq (upd_toscan s (rev (ti_deferred ti) ++ is_toscan s)) (rev (ti_reqby ti) ++ is_fininreq s).
Definition retire_task (s : istate) (t : key) : istate :=
  upd_tasks (upd_outstanding s (pred (is_outstanding s))) (adel (is_tasks s) t).

(* one finishedTaskInfos item *)
Definition finish_task (s : istate) (t : key) : istate :=
  match aget (is_tasks s) t with
  | None => fault s FNoTask
  | Some ti =>
    let s := check s (kind_eqb (kind_of s t) KComputing) FNotComputing in
    let s := mod_ri (set_complete s t) t (ri_append_deps (ti_disc ti)) in
    let s := db_write (push_dummies s (ti_disc ti)) t in
    retire_task (wake_task_waiters s ti) t
  end.
Definition step_fintask (s : istate) : istate :=
  match is_fintasks s with
  | [] => s
  | t :: rest => finish_task (upd_fintasks s rest) t
  end.
(* ---------- queue loops ---------- *)
Section Drain.
  Variable step : istate -> istate.
  Variable nonempty : istate -> bool.
  Fixpoint drain (fuel : nat) (s : istate) : istate :=
    match fuel with
    | O => if nonempty s then fault s FFuel else s
    | S f => if nonempty s then drain f (step s) else s
    end.
End Drain.
Definition nonnil {A} (l : list A) : bool := match l with [] => false | _ :: _ => true end.

(* ---------- one iteration of the while(true) loop of executeTasks ---------- *)
Inductive status :=
| StWork        (* didWork: go round again *)
| StWait        (* no work but tasks are computing: the engine blocks until a task reports completion *)
| StStall       (* no work, nothing computing, tasks exist or the root is still scanning: resolveCycle *)
| StDone.       (* no work and nothing left: executeTasks returns true *)

Definition has_work (s : istate) : bool :=
  nonnil (is_toscan s) || nonnil (is_inreq s) || nonnil (is_fininreq s) || nonnil (is_ready s) || nonnil (is_fintasks s).

(* the test made when an iteration did no work and nothing is computing: tasks exist, or (no task exists and) some rule is still
   IsScanning.  [stall_test_v0]: the code before commit e39d106 looked at the requested rule only. *)
Definition any_scanning (s : istate) : bool := existsb (fun e => kind_eqb (ri_kind (snd e)) KScanning) (is_rules s).
Definition stall_test (s : istate) : bool := nonnil (is_tasks s) || any_scanning s.
Definition stall_test_v0 (root : key) (s : istate) : bool := nonnil (is_tasks s) || kind_eqb (kind_of s root) KScanning.

(* [comps]: the tasks whose complete() arrives before this iteration looks at its queues (hook point 0) *)
Definition loop_iteration_gen (stalled : istate -> bool) (fuel : nat) (s : istate) (comps : list key) : istate * status :=
  let s0 := fold_left task_finish comps s in
  let s1 := drain step_scan (fun s => nonnil (is_toscan s)) fuel s0 in
  let s2 := drain step_inreq (fun s => nonnil (is_inreq s)) fuel s1 in
  let s3 := drain step_fininreq (fun s => nonnil (is_fininreq s)) fuel s2 in
  let s4 := drain step_ready (fun s => nonnil (is_ready s)) fuel s3 in
  let s5 := drain step_fintask (fun s => nonnil (is_fintasks s)) fuel s4 in
  (* didWork: some loop body ran *)
  let did := nonnil (is_toscan s0) || nonnil (is_inreq s1) || nonnil (is_fininreq s2) || nonnil (is_ready s3) || nonnil (is_fintasks s4) in
  if did then (s5, StWork)
  else if negb (Nat.eqb (is_outstanding s5) 0) then (s5, StWait)
  else if stalled s5 then (s5, StStall)
  else (s5, StDone).
Definition loop_iteration := loop_iteration_gen stall_test.

(* ---------- findCycle's successorGraph ((a, b): b waits on a) ---------- *)
Definition req_task_key (rq : ireq) : list key := match iq_task rq with Some t => [t] | None => [] end.
Definition task_edges (e : key * tinfo) : list (key * key) :=
  map (fun rq => (fst e, rq)) (flat_map req_task_key (ti_reqby (snd e)))
  ++ map (fun rq => (fst e, sq_rule rq)) (ti_deferred (snd e)).
Definition scan_edges (e : key * rinfo) : list (key * key) :=
  match ri_kind (snd e) with
  | KScanning =>
    flat_map (fun rq => map (fun t => (iq_input rq, t)) (req_task_key rq)) (ri_paused (snd e))
    ++ map (fun rq => (match sq_input rq with Some i => i | None => fst e end, sq_rule rq)) (ri_deferred (snd e))
  | _ => []
  end.
Definition wait_graph (s : istate) : list (key * key) :=
  flat_map task_edges (is_tasks s) ++ flat_map scan_edges (is_rules s).

(* ---------- cancelRemainingTasks (reached here with numOutstandingUnfinishedTasks = 0) ---------- *)
Definition cancel_rule (tasks : list (key * tinfo)) (e : key * rinfo) : key * rinfo :=
  let ri := snd e in
  match aget tasks (fst e) with
  | Some _ => (fst e, mkRI KIncomplete (ri_res ri) [] [] true)
  | None => match ri_kind ri with
            | KScanning => (fst e, mkRI KIncomplete (ri_res ri) [] [] (ri_cancelled ri))    (* the scan record is never looked at again *)
            | _ => e
            end
  end.
Definition cancel_remaining (s : istate) : istate :=
  mkIS (map (cancel_rule (is_tasks s)) (is_rules s)) [] [] [] [] [] [] (is_outstanding s)
       (is_epoch s) (is_usedb s) (is_db s) (is_db_epoch s) (is_fault s) (is_log s).

(* ---------- executeTasks ---------- *)
Inductive run_result :=
| RDone (s : istate)                                               (* executeTasks returned true *)
| RCycle (s : istate) (g : list (key * key)) (c : FindCycle.fc_result)   (* stalled: successor graph, findCycle's answer; s after cancelRemainingTasks *)
| RBlocked (s : istate)                                            (* the engine waits for a completion the schedule never delivers *)
| ROutOfFuel (s : istate).

Definition fc_linear_fuel (g : list (key * key)) : nat := (2 * length g + 3)%nat.

(* One element of a schedule: the tasks whose complete() arrives at the top of the iteration (hook point 0), and the tasks
   whose complete() arrives while the engine is blocked at the end of that iteration (only used if it blocks).
   [marks] (ghost): per iteration the log length at its top, the log length after its queue loops, and its status. *)
Definition sched_item := (list key * list key)%type.
Definition mark := (nat * nat * status)%type.

Fixpoint run_loop_gen (stalled : istate -> bool) (fuel : nat) (pfuel : nat) (root : key) (s : istate) (sched : list sched_item) (marks : list mark)
  : run_result * list mark :=
  match fuel with
  | O => (ROutOfFuel s, rev marks)
  | S f =>
    let top := match sched with [] => [] | c :: _ => fst c end in
    let blk := match sched with [] => [] | c :: _ => snd c end in
    let sched' := match sched with [] => [] | _ :: t => t end in
    match loop_iteration_gen stalled pfuel s top with
    | (s', st) =>
      let marks := (length (is_log s), length (is_log s'), st) :: marks in
      match st with
      | StWork => run_loop_gen stalled f pfuel root s' sched' marks
      | StWait =>
        let s'' := fold_left task_finish blk s' in
        if negb (nonnil (is_fintasks s'')) && negb (nonnil sched') then (RBlocked s'', rev marks)
        else run_loop_gen stalled f pfuel root s'' sched' marks
      | StStall =>
        let g := wait_graph s' in
        let c := FindCycle.findcycle_names g root (fc_linear_fuel g) in
        let s'' := match c with FindCycle.FcDone p => iemit s' (ECycleReported p) | FindCycle.FcOutOfFuel => s' end in
        (RCycle (cancel_remaining s'') g c, rev marks)
      | StDone => (RDone s', rev marks)
      end
    end
  end.

(* executeTasks: the dummy input request for the key to build, then the loop *)
Definition start_build (s : istate) (root : key) : istate :=
  push_inreq (touch (upd_fininreq s []) root) (mkIReq None 0%nat root false false).
Definition run_build_gen (stalled : istate -> bool) (fuel pfuel : nat) (root : key) (s : istate) (sched : list sched_item) : run_result * list mark :=
  run_loop_gen stalled fuel pfuel root (start_build s root) sched [].
Definition run_build := run_build_gen stall_test.

(* BuildEngine::build: ++currentEpoch, executeTasks, setCurrentIteration *)
Definition bump (s : istate) : istate :=
  mkIS (is_rules s) (is_tasks s) (is_toscan s) (is_inreq s) (is_fininreq s) (is_ready s) (is_fintasks s) (is_outstanding s)
       (is_epoch s + 1) (is_usedb s) (is_db s) (is_db_epoch s) (is_fault s) (is_log s).
Definition commit (s : istate) : istate :=
  mkIS (is_rules s) (is_tasks s) (is_toscan s) (is_inreq s) (is_fininreq s) (is_ready s) (is_fintasks s) (is_outstanding s)
       (is_epoch s) (is_usedb s) (is_db s) (if is_usedb s then is_epoch s else is_db_epoch s) (is_fault s) (is_log s).

Definition final_state (r : run_result) : istate :=
  match r with RDone s | RCycle s _ _ | RBlocked s | ROutOfFuel s => s end.

Definition ibuild_gen (stalled : istate -> bool) (fuel pfuel : nat) (s : istate) (root : key) (sched : list sched_item) : run_result * list mark :=
  let s0 := iemit (bump s) (EBuildStart root) in
  match run_build_gen stalled fuel pfuel root s0 sched with
  | (RDone s1, m) => (RDone (iemit (commit s1) (EResult (res_value (res_of s1 root)) false)), m)
  | (RCycle s1 g c, m) => (RCycle (iemit (commit s1) (EResult None true)) g c, m)
  | (other, m) => (other, m)
  end.

Definition ibuild := ibuild_gen stall_test.
Definition ibuild_v0 (fuel pfuel : nat) (s : istate) (root : key) := ibuild_gen (stall_test_v0 root) fuel pfuel s root.

(* dumpGraphToFile looks up (and thereby loads) every dependency of every rule it prints *)
Definition dump_touch (s : istate) : istate :=
  fold_left (fun s e => fold_left (fun s d => touch s (d_key d)) (res_deps (ri_res (snd e))) s) (is_rules s) s.

(* ---------- vocabulary of the statements (ImplProofs*.v, Props/Properties_impl.v) ---------- *)

(* the steps the loop is made of: a completion arriving from a task, or one item of one of the five queues *)
Inductive mstep : istate -> istate -> Prop :=
| ms_finish s t : mstep s (task_finish s t)
| ms_scan s : mstep s (step_scan s)
| ms_inreq s : mstep s (step_inreq s)
| ms_fininreq s : mstep s (step_fininreq s)
| ms_ready s : mstep s (step_ready s)
| ms_fintask s : mstep s (step_fintask s).
Inductive msteps : istate -> istate -> Prop :=
| mss_refl s : msteps s s
| mss_step s s' s'' : msteps s s' -> mstep s' s'' -> msteps s s''.

End Impl.

(* a new engine instance: over the same database (epoch = stored iteration) or without one *)
Definition irestart (usedb : bool) (s : istate) : istate :=
  if usedb then mkIS [] [] [] [] [] [] [] 0 (is_db_epoch s) true (is_db s) (is_db_epoch s) (is_fault s) (ERestart :: is_log s)
  else mkIS [] [] [] [] [] [] [] 0 0 false [] 0 (is_fault s) (ERestart :: is_log s).

(* position of a rule in the order Incomplete < IsScanning < {NeedsToRun, DoesNotNeedToRun} < InProgressWaiting < InProgressComputing
   < Complete; a Complete mark of an earlier epoch counts as Incomplete (the lazy reset of isComplete/isScanned) *)
Definition rrank (ep : N) (ri : rinfo) : nat :=
  match ri_kind ri with
  | KIncomplete => 0
  | KScanning => 1
  | KNeedsToRun | KDoesNotNeedToRun => 2
  | KWaiting => 3
  | KComputing => 4
  | KComplete => if N.eqb (res_builtAt (ri_res ri)) ep then 5 else 0
  end.
Definition krank (s : istate) (k : key) : nat := rrank (is_epoch s) (rinfo_of s k).

Fixpoint count_ev (p : event -> bool) (l : list event) : nat :=
  match l with [] => 0 | e :: t => (if p e then 1 else 0) + count_ev p t end.
Definition is_create (k : key) (e : event) : bool := match e with ECreate k' => N.eqb k k' | _ => false end.
Definition is_avail (k : key) (e : event) : bool := match e with EAvail k' => N.eqb k k' | _ => false end.
Definition is_complete_ev (k : key) (e : event) : bool := match e with EComplete k' _ => N.eqb k k' | _ => false end.

(* ---------- the waitCount identity ---------- *)
Definition for_task (t : key) (rq : ireq) : bool := match iq_task rq with Some t' => N.eqb t t' | None => false end.
Definition cnt_i (t : key) (l : list ireq) : nat := length (filter (for_task t) l).
Fixpoint asum {A} (g : A -> nat) (m : list (N * A)) : nat :=
  match m with [] => 0 | e :: tl => g (snd e) + asum g tl end.
(* the requests of task t that are outstanding: not yet looked at (inputRequests), paused on a rule being scanned, waiting for
   the task of their input (requestedBy), or ready to be delivered (finishedInputRequests) *)
Definition outstanding_count (s : istate) (t : key) : nat :=
  cnt_i t (is_inreq s) + asum (fun ri => cnt_i t (ri_paused ri)) (is_rules s)
  + asum (fun ti => cnt_i t (ti_reqby ti)) (is_tasks s) + cnt_i t (is_fininreq s).

(* the scan requests of rule k: queued (ruleInfosToScan), deferred on a rule being scanned, deferred on a task *)
Definition for_rule (k : key) (rq : sreq) : bool := N.eqb k (sq_rule rq).
Definition cnt_s (k : key) (l : list sreq) : nat := length (filter (for_rule k) l).
Definition scan_count (s : istate) (k : key) : nat :=
  cnt_s k (is_toscan s) + asum (fun ri => cnt_s k (ri_deferred ri)) (is_rules s)
  + asum (fun ti => cnt_s k (ti_deferred ti)) (is_tasks s).

(* the keys a task of this rule may ask for *)
Definition requestable (rl : rule) : list key :=
  r_req rl ++ r_single rl ++ r_follow rl ++ match r_br rl with Some (_, a, b) => a ++ b | None => [] end.

(* a state between builds: nothing queued, no task, nothing scanning, no failed assert *)
Definition quiescent (s : istate) : Prop :=
  is_tasks s = [] /\ is_toscan s = [] /\ is_inreq s = [] /\ is_ready s = [] /\ is_fintasks s = [] /\
  is_outstanding s = 0%nat /\ is_fault s = None /\ NoDup (map fst (is_rules s)) /\
  forall k, kind_of s k <> KScanning /\ kind_of s k <> KWaiting /\ kind_of s k <> KComputing /\
            ri_paused (rinfo_of s k) = [] /\ ri_deferred (rinfo_of s k) = [].

(* the states of a build: any sequence of steps from the state executeTasks starts in, the engine being quiescent before *)
Definition in_build (rules : key -> rule) (env : key -> N) (F : key -> N -> list value -> list N -> N -> N) (ord : key -> list rkind)
  (syncp : key -> bool) (s0 : istate) (root : key) (s : istate) : Prop :=
  quiescent s0 /\ msteps rules env F ord syncp (start_build (iemit (bump s0) (EBuildStart root)) root) s.
