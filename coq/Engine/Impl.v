(* P19 - small-step model of the engine loop: BuildEngineImpl::executeTasks and what it calls
   (lib/Core/BuildEngine.cpp: scanRule, demandRule, processRuleScanRequest, finishScanRequest, decrementTaskWaitCount,
   addTaskInputRequest, taskDiscoveredDependency, taskIsComplete, findCycle's graph, cancelRemainingTasks), driven by the
   task DSL of harness/cpp/engine_driver.cpp (the same rule records as Spec.v plus the call order `ord`).
   Definitions only; proofs are in ImplProofs*.v.

   Representation of the containers:
     std::vector used as a stack (ruleInfosToScan, finishedInputRequests, finishedTaskInfos): list whose HEAD is back()
     std::deque used FIFO (inputRequests, readyTaskInfos): list whose head is front(), push_back = append at the tail
     std::vector only appended and iterated (pausedInputRequests, deferredScanRequests, requestedBy, dependencies,
       discoveredDependencies): list in begin()..end() order
     unordered_map ruleInfos / taskInfos: association lists keyed by the rule key (a task is named by its rule's key:
       a rule has at most one task at a time - ImplProofs: impl_at_most_once)
   Asserts are compiled out (-DNDEBUG): where the code would misbehave when an assert is false the model records a
   fault code in [is_fault] and goes on as the compiled code would where that is defined; the proofs show no fault
   is reachable.  Cycle breaking is modelled for the default delegate (shouldResolveCycle = false: breakCycle has no
   effect and returns false).  Cancellation (buildCancelled) is not modelled. *)
From LLB Require Import Engine.Rules Engine.Spec.
From LLB Require Engine.FindCycle.
Local Open Scope N_scope.

(* ---------- association lists ---------- *)
Fixpoint aget {A} (m : list (N * A)) (k : N) : option A :=
  match m with [] => None | (k', a) :: t => if N.eqb k k' then Some a else aget t k end.
Fixpoint aset {A} (m : list (N * A)) (k : N) (a : A) : list (N * A) :=
  match m with
  | [] => [(k, a)]
  | (k', a') :: t => if N.eqb k k' then (k, a) :: t else (k', a') :: aset t k a
  end.
Fixpoint adel {A} (m : list (N * A)) (k : N) : list (N * A) :=
  match m with
  | [] => []
  | (k', a') :: t => if N.eqb k k' then adel t k else (k', a') :: adel t k
  end.

(* ---------- RuleInfo::StateKind ---------- *)
Inductive kind := KIncomplete | KScanning | KNeedsToRun | KDoesNotNeedToRun | KWaiting | KComputing | KComplete.
Definition kind_eqb (a b : kind) : bool :=
  match a, b with
  | KIncomplete, KIncomplete | KScanning, KScanning | KNeedsToRun, KNeedsToRun | KDoesNotNeedToRun, KDoesNotNeedToRun
  | KWaiting, KWaiting | KComputing, KComputing | KComplete, KComplete => true
  | _, _ => false
  end.

(* TaskInputRequest: taskInfo (None: the dummy request of build() / of a discovered dependency), inputID,
   inputRuleInfo, orderOnly, singleUse.  forcePriorValue is only set by breakCycle (never, see above). *)
Record ireq := mkIReq { iq_task : option key; iq_slot : nat; iq_input : key; iq_order : bool; iq_single : bool }.

(* RuleScanRequest: ruleInfo, inputIndex, inputRuleInfo (cached lookup), orderOnly, singleUse *)
Record sreq := mkSReq { sq_rule : key; sq_index : nat; sq_input : option key; sq_order : bool; sq_single : bool }.

(* RuleInfo: state, result, the RuleScanRecord (meaningful while IsScanning), taskWasCancelled *)
Record rinfo := mkRI {
  ri_kind : kind;
  ri_res : result;
  ri_paused : list ireq;        (* pendingScanRecord->pausedInputRequests *)
  ri_deferred : list sreq;      (* pendingScanRecord->deferredScanRequests *)
  ri_cancelled : bool
}.
Definition new_rinfo (r : result) : rinfo := mkRI KIncomplete r [] [] false.

(* TaskInfo + the driver's DTask fields *)
Record tinfo := mkTI {
  ti_wait : nat;                      (* waitCount *)
  ti_reqby : list ireq;               (* requestedBy *)
  ti_deferred : list sreq;            (* deferredScanRequests *)
  ti_disc : list dep;                 (* discoveredDependencies *)
  ti_slots : list (option value);     (* DTask::slots (None = Val(): nothing / the empty value delivered) *)
  ti_branched : bool;                 (* DTask::branched *)
  ti_pending : option value           (* the driver's Pending: value computed in inputsAvailable, complete() not yet called *)
}.
Definition new_tinfo : tinfo := mkTI 0 [] [] [] [] false None.

Record istate := mkIS {
  is_rules : list (key * rinfo);      (* ruleInfos: the rules this engine instance has looked up *)
  is_tasks : list (key * tinfo);      (* taskInfos *)
  is_toscan : list sreq;              (* ruleInfosToScan, head = back() *)
  is_inreq : list ireq;               (* inputRequests, head = front() *)
  is_fininreq : list ireq;            (* finishedInputRequests, head = back() *)
  is_ready : list key;                (* readyTaskInfos, head = front() *)
  is_fintasks : list key;             (* finishedTaskInfos, head = back() *)
  is_outstanding : nat;               (* numOutstandingUnfinishedTasks *)
  is_epoch : N;                       (* currentEpoch *)
  is_usedb : bool;                    (* a database is attached *)
  is_db : alist;                      (* rule_results *)
  is_db_epoch : N;                    (* info.iteration *)
  is_fault : option N;                (* first assert of the code that would have failed (proved unreachable) *)
  is_log : list event                 (* ghost: callbacks in order, most recent first *)
}.
Definition init_istate : istate := mkIS [] [] [] [] [] [] [] 0 0 false [] 0 None [].

(* fault codes *)
Definition FNoTask := 1.          (* a request names a task that does not exist *)
Definition FNotScanning := 2.     (* scan bookkeeping on a rule that is not IsScanning *)
Definition FWaitUnderflow := 3.   (* --waitCount at 0 *)
Definition FNotWaiting := 4.      (* addTaskInputRequest / setComputing outside InProgressWaiting (the code aborts) *)
Definition FNotComputing := 5.    (* finished-task processing / discoveredDependency / complete outside InProgressComputing *)
Definition FDemandUnscanned := 6. (* demandRule reached task creation on a rule that is not NeedsToRun *)
Definition FScanIndex := 7.       (* processRuleScanRequest entered with inputIndex == dependencies.size() *)
Definition FFuel := 99.           (* model artefact: phase fuel exhausted *)

(* ---------- field updates ---------- *)
Definition upd_rules (s : istate) (m : list (key * rinfo)) : istate :=
  mkIS m (is_tasks s) (is_toscan s) (is_inreq s) (is_fininreq s) (is_ready s) (is_fintasks s) (is_outstanding s)
       (is_epoch s) (is_usedb s) (is_db s) (is_db_epoch s) (is_fault s) (is_log s).
Definition upd_tasks (s : istate) (m : list (key * tinfo)) : istate :=
  mkIS (is_rules s) m (is_toscan s) (is_inreq s) (is_fininreq s) (is_ready s) (is_fintasks s) (is_outstanding s)
       (is_epoch s) (is_usedb s) (is_db s) (is_db_epoch s) (is_fault s) (is_log s).
Definition upd_toscan (s : istate) (q : list sreq) : istate :=
  mkIS (is_rules s) (is_tasks s) q (is_inreq s) (is_fininreq s) (is_ready s) (is_fintasks s) (is_outstanding s)
       (is_epoch s) (is_usedb s) (is_db s) (is_db_epoch s) (is_fault s) (is_log s).
Definition upd_inreq (s : istate) (q : list ireq) : istate :=
  mkIS (is_rules s) (is_tasks s) (is_toscan s) q (is_fininreq s) (is_ready s) (is_fintasks s) (is_outstanding s)
       (is_epoch s) (is_usedb s) (is_db s) (is_db_epoch s) (is_fault s) (is_log s).
Definition upd_fininreq (s : istate) (q : list ireq) : istate :=
  mkIS (is_rules s) (is_tasks s) (is_toscan s) (is_inreq s) q (is_ready s) (is_fintasks s) (is_outstanding s)
       (is_epoch s) (is_usedb s) (is_db s) (is_db_epoch s) (is_fault s) (is_log s).
Definition upd_ready (s : istate) (q : list key) : istate :=
  mkIS (is_rules s) (is_tasks s) (is_toscan s) (is_inreq s) (is_fininreq s) q (is_fintasks s) (is_outstanding s)
       (is_epoch s) (is_usedb s) (is_db s) (is_db_epoch s) (is_fault s) (is_log s).
Definition upd_fintasks (s : istate) (q : list key) : istate :=
  mkIS (is_rules s) (is_tasks s) (is_toscan s) (is_inreq s) (is_fininreq s) (is_ready s) q (is_outstanding s)
       (is_epoch s) (is_usedb s) (is_db s) (is_db_epoch s) (is_fault s) (is_log s).
Definition upd_outstanding (s : istate) (n : nat) : istate :=
  mkIS (is_rules s) (is_tasks s) (is_toscan s) (is_inreq s) (is_fininreq s) (is_ready s) (is_fintasks s) n
       (is_epoch s) (is_usedb s) (is_db s) (is_db_epoch s) (is_fault s) (is_log s).
Definition upd_db (s : istate) (d : alist) : istate :=
  mkIS (is_rules s) (is_tasks s) (is_toscan s) (is_inreq s) (is_fininreq s) (is_ready s) (is_fintasks s) (is_outstanding s)
       (is_epoch s) (is_usedb s) d (is_db_epoch s) (is_fault s) (is_log s).
Definition iemit (s : istate) (e : event) : istate :=
  mkIS (is_rules s) (is_tasks s) (is_toscan s) (is_inreq s) (is_fininreq s) (is_ready s) (is_fintasks s) (is_outstanding s)
       (is_epoch s) (is_usedb s) (is_db s) (is_db_epoch s) (is_fault s) (e :: is_log s).
Definition fault (s : istate) (c : N) : istate :=
  mkIS (is_rules s) (is_tasks s) (is_toscan s) (is_inreq s) (is_fininreq s) (is_ready s) (is_fintasks s) (is_outstanding s)
       (is_epoch s) (is_usedb s) (is_db s) (is_db_epoch s) (match is_fault s with Some c0 => Some c0 | None => Some c end) (is_log s).

(* the order in which DTask::start calls request / requestSingleUse / mustFollow (the scenario's ord=) *)
Inductive rkind := RReq | RSingle | RFollow.

Fixpoint set_nth {A} (l : list A) (n : nat) (a : A) : list A :=
  match l, n with
  | [], _ => []
  | _ :: t, O => a :: t
  | x :: t, S n' => x :: set_nth t n' a
  end.

Section Impl.
Variable rules : key -> rule.
Variable env : key -> N.
Variable F : key -> N -> list value -> list N -> N -> N.
Variable ord : key -> list rkind.
Variable syncp : key -> bool.       (* the task of this key calls complete() inside inputsAvailable *)

(* ---------- ruleInfos / taskInfos access ---------- *)

(* getRuleInfoForKey: the entry, or what addRule would create (the stored result when a database is attached) *)
Definition rinfo_of (s : istate) (k : key) : rinfo :=
  match aget (is_rules s) k with
  | Some ri => ri
  | None => new_rinfo (if is_usedb s then get (is_db s) k else empty_result)
  end.
Definition touch (s : istate) (k : key) : istate :=
  match aget (is_rules s) k with
  | Some _ => s
  | None => upd_rules s (aset (is_rules s) k (rinfo_of s k))
  end.
Definition set_ri (s : istate) (k : key) (ri : rinfo) : istate := upd_rules s (aset (is_rules s) k ri).
Definition set_kind (s : istate) (k : key) (kd : kind) : istate :=
  let ri := rinfo_of s k in set_ri s k (mkRI kd (ri_res ri) (ri_paused ri) (ri_deferred ri) (ri_cancelled ri)).
Definition set_res (s : istate) (k : key) (r : result) : istate :=
  let ri := rinfo_of s k in set_ri s k (mkRI (ri_kind ri) r (ri_paused ri) (ri_deferred ri) (ri_cancelled ri)).
Definition kind_of (s : istate) (k : key) : kind := ri_kind (rinfo_of s k).
Definition res_of (s : istate) (k : key) : result := ri_res (rinfo_of s k).
Definition set_ti (s : istate) (k : key) (ti : tinfo) : istate := upd_tasks s (aset (is_tasks s) k ti).

Definition is_complete (s : istate) (k : key) : bool :=
  kind_eqb (kind_of s k) KComplete && N.eqb (res_builtAt (res_of s k)) (is_epoch s).
Definition is_scanned (s : istate) (k : key) : bool :=
  match kind_of s k with
  | KComplete => is_complete s k
  | KIncomplete | KScanning => false
  | _ => true
  end.
Definition is_in_progress (s : istate) (k : key) : bool :=
  match kind_of s k with KWaiting | KComputing => true | _ => false end.

(* ---------- the engine's task API ---------- *)

(* addTaskInputRequest *)
Definition add_request (s : istate) (t : key) (inp : key) (slot : nat) (order single : bool) : istate :=
  match aget (is_tasks s) t with
  | None => fault s FNoTask
  | Some _ =>
    if negb (kind_eqb (kind_of s t) KWaiting) then fault s FNotWaiting      (* the code calls abort() *)
    else
      let s := touch s inp in
      let s := upd_inreq s (is_inreq s ++ [mkIReq (Some t) slot inp order single]) in
      match aget (is_tasks s) t with
      | None => s
      | Some ti => set_ti s t (mkTI (S (ti_wait ti)) (ti_reqby ti) (ti_deferred ti) (ti_disc ti) (ti_slots ti) (ti_branched ti) (ti_pending ti))
      end
  end.

(* taskDiscoveredDependency *)
Definition discovered (s : istate) (t : key) (d : key) : istate :=
  match aget (is_tasks s) t with
  | None => fault s FNoTask
  | Some ti =>
    if negb (kind_eqb (kind_of s t) KComputing) then fault s FNotComputing
    else set_ti s t (mkTI (ti_wait ti) (ti_reqby ti) (ti_deferred ti) (ti_disc ti ++ [mkDep d false false]) (ti_slots ti) (ti_branched ti) (ti_pending ti))
  end.

(* taskIsComplete (forceChange = false) *)
Definition task_is_complete (s : istate) (t : key) (v : value) : istate :=
  if negb (kind_eqb (kind_of s t) KComputing) then fault s FNotComputing
  else
    let r := res_of s t in
    let same := match res_value r with Some old => value_eqb old v | None => false end in
    let r' := if same then mkRes (res_value r) (r_sig (rules t)) (res_computedAt r) (res_builtAt r) (res_deps r)
              else mkRes (Some v) (r_sig (rules t)) (is_epoch s) (res_builtAt r) (res_deps r) in
    let s := set_res s t r' in
    upd_fintasks s (t :: is_fintasks s).

(* ---------- the driver's task (DTask in harness/cpp/engine_driver.cpp) ---------- *)

Fixpoint add_reqs (s : istate) (t : key) (ks : list key) (slot : nat) (single : bool) : istate :=
  match ks with
  | [] => s
  | x :: ks' => add_reqs (add_request s t x slot false single) t ks' (S slot) single
  end.
Fixpoint add_follows (s : istate) (t : key) (ks : list key) : istate :=
  match ks with
  | [] => s
  | x :: ks' => add_follows (add_request s t x 0%nat true false) t ks'       (* kMustFollowInputID: never delivered *)
  end.
Definition start_group (s : istate) (t : key) (c : rkind) : istate :=
  let rl := rules t in
  match c with
  | RReq => add_reqs s t (r_req rl) 0%nat false
  | RSingle => add_reqs s t (r_single rl) (length (r_req rl)) true
  | RFollow => add_follows s t (r_follow rl)
  end.
(* DTask::start *)
Definition task_start (s : istate) (t : key) : istate :=
  let rl := rules t in
  let s := iemit s (EStart t) in
  let s := match aget (is_tasks s) t with
           | None => fault s FNoTask
           | Some ti => set_ti s t (mkTI (ti_wait ti) (ti_reqby ti) (ti_deferred ti) (ti_disc ti)
                                         (repeat None (length (r_req rl) + length (r_single rl))) (ti_branched ti) (ti_pending ti))
           end in
  fold_left (fun s c => start_group s t c) (ord t) s.

(* DTask::req from provideValue: a new slot at the end, then request() *)
Fixpoint branch_reqs (s : istate) (t : key) (ks : list key) : istate :=
  match ks with
  | [] => s
  | x :: ks' =>
    match aget (is_tasks s) t with
    | None => fault s FNoTask
    | Some ti =>
      let id := length (ti_slots ti) in
      let s := set_ti s t (mkTI (ti_wait ti) (ti_reqby ti) (ti_deferred ti) (ti_disc ti) (ti_slots ti ++ [None]) (ti_branched ti) (ti_pending ti)) in
      branch_reqs (add_request s t x id false false) t ks'
    end
  end.

(* DTask::provideValue *)
Definition provide_value (s : istate) (t : key) (slot : nat) (inp : key) (v : option value) : istate :=
  let s := iemit s (EProvide t slot inp v) in
  match aget (is_tasks s) t with
  | None => fault s FNoTask
  | Some ti =>
    let slots := if Nat.ltb slot (length (ti_slots ti)) then set_nth (ti_slots ti) slot v else ti_slots ti in
    let fire := match r_br (rules t) with
                | Some (i, a, b) =>
                  if negb (ti_branched ti) && Nat.eqb slot i && Nat.ltb i (length (r_req (rules t)))
                  then Some (if is_even (payload_of v) then a else b) else None
                | None => None
                end in
    match fire with
    | None => set_ti s t (mkTI (ti_wait ti) (ti_reqby ti) (ti_deferred ti) (ti_disc ti) slots (ti_branched ti) (ti_pending ti))
    | Some ks =>
      let s := set_ti s t (mkTI (ti_wait ti) (ti_reqby ti) (ti_deferred ti) (ti_disc ti) slots true (ti_pending ti)) in
      branch_reqs s t ks
    end
  end.

(* the driver's finish(p): discovered dependencies, then complete() *)
Definition task_finish (s : istate) (t : key) : istate :=
  match aget (is_tasks s) t with
  | None => s
  | Some ti =>
    match ti_pending ti with
    | None => s                                   (* nothing pending: not a task the schedule can complete *)
    | Some v =>
      let s := set_ti s t (mkTI (ti_wait ti) (ti_reqby ti) (ti_deferred ti) (ti_disc ti) (ti_slots ti) (ti_branched ti) None) in
      let s := fold_left (fun s d => discovered s t d) (r_disc (rules t)) s in
      let s := iemit s (EComplete t v) in
      task_is_complete s t v
    end
  end.

(* the slots whose values the task uses: requests and branch requests, not the single-use ones *)
Definition used_slots (rl : rule) (slots : list (option value)) : list (option value) :=
  firstn (length (r_req rl)) slots ++ skipn (length (r_req rl) + length (r_single rl)) slots.

(* DTask::inputsAvailable *)
Definition inputs_available (s : istate) (t : key) : istate :=
  let rl := rules t in
  let s := iemit s (EAvail t) in
  match aget (is_tasks s) t with
  | None => fault s FNoTask
  | Some ti =>
    let o := Spec.obs rules env t in
    let v := (F t (r_sig rl) (map payload_of (used_slots rl (ti_slots ti))) (map env (r_disc rl)) o, o) in
    let s := set_ti s t (mkTI (ti_wait ti) (ti_reqby ti) (ti_deferred ti) (ti_disc ti) (ti_slots ti) (ti_branched ti) (Some v)) in
    if syncp t then task_finish s t else s
  end.

(* ---------- scanRule ---------- *)
Definition need (s : istate) (k : key) (reason : N) (inp : option key) : istate :=
  iemit (set_kind s k KNeedsToRun) (ENeed k reason inp).

Definition scan_rule (s : istate) (k : key) : bool * istate :=
  if is_scanned s k then (true, s)
  else if kind_eqb (kind_of s k) KScanning then (false, s)
  else
    let r0 := res_of s k in
    (* cleanSingleUseDependencies *)
    let r := mkRes (res_value r0) (res_sig r0) (res_computedAt r0) (res_builtAt r0) (drop_single (res_deps r0)) in
    let s := set_res s k r in
    if N.eqb (res_builtAt r) 0 then (true, need s k NeverBuilt None)
    else if ri_cancelled (rinfo_of s k) then (true, need s k Forced None)
    else if negb (N.eqb (r_sig (rules k)) (res_sig r)) then (true, need s k SignatureChanged None)
    else if negb (Spec.valid rules env k r) then (true, need (iemit s (EValid k false)) k InvalidValue None)
    else
      let s := iemit s (EValid k true) in
      match res_deps r with
      | [] => (true, set_kind s k KDoesNotNeedToRun)
      | _ :: _ =>
        (* state = IsScanning with a fresh (cleared) scan record; enqueue the scan of input 0 *)
        let ri := rinfo_of s k in
        let s := set_ri s k (mkRI KScanning (ri_res ri) [] [] (ri_cancelled ri)) in
        (false, upd_toscan s (mkSReq k 0%nat None false false :: is_toscan s))
      end.

(* ---------- demandRule ---------- *)
Definition set_complete (s : istate) (k : key) : istate :=
  let ri := rinfo_of s k in
  let r := ri_res ri in
  set_ri s k (mkRI KComplete (mkRes (res_value r) (res_sig r) (res_computedAt r) (is_epoch s) (res_deps r))
                   (ri_paused ri) (ri_deferred ri) (ri_cancelled ri)).

Definition demand_rule (s : istate) (k : key) : bool * istate :=
  if is_complete s k then (true, s)
  else if is_in_progress s k then (false, s)
  else if kind_eqb (kind_of s k) KDoesNotNeedToRun then (true, set_complete s k)
  else
    let s := if kind_eqb (kind_of s k) KNeedsToRun then s else fault s FDemandUnscanned in
    let s := iemit s (ECreate k) in
    let s := set_ti s k new_tinfo in
    (* InProgressWaiting, taskWasCancelled = false, dependencies cleared *)
    let ri := rinfo_of s k in
    let r := ri_res ri in
    let s := set_ri s k (mkRI KWaiting (mkRes (res_value r) (res_sig r) (res_computedAt r) (res_builtAt r) [])
                              (ri_paused ri) (ri_deferred ri) false) in
    let s := task_start s k in
    let r := res_of s k in
    let s := if negb (N.eqb (res_builtAt r) 0) && N.eqb (r_sig (rules k)) (res_sig r) then iemit s (EPrior k (res_value r)) else s in
    let s := match aget (is_tasks s) k with
             | Some ti => if Nat.eqb (ti_wait ti) 0 then upd_ready s (is_ready s ++ [k]) else s
             | None => fault s FNoTask
             end in
    (false, s).

(* ---------- finishScanRequest ---------- *)
Definition finish_scan (s : istate) (k : key) (kd : kind) : istate :=
  let s := if kind_eqb (kind_of s k) KScanning then s else fault s FNotScanning in
  let ri := rinfo_of s k in
  let s := upd_toscan s (rev (ri_deferred ri) ++ is_toscan s) in
  let s := upd_inreq s (is_inreq s ++ ri_paused ri) in
  set_ri s k (mkRI kd (ri_res ri) [] [] (ri_cancelled ri)).

(* ---------- processRuleScanRequest ----------
   The do-while over the remaining inputs of the scanning rule: [ds] is dependencies[inputIndex..] (the list is not
   modified while the rule is IsScanning). *)
Fixpoint scan_inputs (s : istate) (rq : sreq) (ds : list dep) : istate :=
  match ds with
  | [] => fault s FScanIndex                 (* dependencies[inputIndex] out of range *)
  | d :: ds' =>
    let k := sq_rule rq in
    (* look up the input rule unless cached in the request *)
    let rq := match sq_input rq with
              | Some _ => rq
              | None => mkSReq k (sq_index rq) (Some (d_key d)) (d_order d) (d_single d)
              end in
    let inp := match sq_input rq with Some i => i | None => d_key d end in
    let s := touch s inp in
    let (scanned, s) := scan_rule s inp in
    if negb scanned then
      let s := if kind_eqb (kind_of s inp) KScanning then s else fault s FNotScanning in
      let ri := rinfo_of s inp in
      set_ri s inp (mkRI (ri_kind ri) (ri_res ri) (ri_paused ri) (ri_deferred ri ++ [rq]) (ri_cancelled ri))
    else
      let (avail, s) := demand_rule s inp in
      if negb avail then
        match aget (is_tasks s) inp with
        | None => fault s FNoTask
        | Some ti => set_ti s inp (mkTI (ti_wait ti) (ti_reqby ti) (ti_deferred ti ++ [rq]) (ti_disc ti) (ti_slots ti) (ti_branched ti) (ti_pending ti))
        end
      else if negb (sq_order rq) && (res_builtAt (res_of s k) <? res_computedAt (res_of s inp)) then
        iemit (finish_scan s k KNeedsToRun) (ENeed k InputRebuilt (Some inp))
      else
        match ds' with
        | [] => finish_scan s k KDoesNotNeedToRun
        | _ :: _ => scan_inputs s (mkSReq k (S (sq_index rq)) None false false) ds'
        end
  end.

Definition process_scan_request (s : istate) (rq : sreq) : istate :=
  if negb (kind_eqb (kind_of s (sq_rule rq)) KScanning) then s      (* "already scanned" (wasForced) early return *)
  else scan_inputs s rq (skipn (sq_index rq) (res_deps (res_of s (sq_rule rq)))).

(* ---------- the bodies of the five queue loops of executeTasks ---------- *)

(* one ruleInfosToScan item *)
Definition step_scan (s : istate) : istate :=
  match is_toscan s with
  | [] => s
  | rq :: rest => process_scan_request (upd_toscan s rest) rq
  end.

(* one inputRequests item *)
Definition step_inreq (s : istate) : istate :=
  match is_inreq s with
  | [] => s
  | rq :: rest =>
    let s := upd_inreq s rest in
    let inp := iq_input rq in
    let (scanned, s) := scan_rule s inp in
    if negb scanned then
      let s := if kind_eqb (kind_of s inp) KScanning then s else fault s FNotScanning in
      let ri := rinfo_of s inp in
      set_ri s inp (mkRI (ri_kind ri) (ri_res ri) (ri_paused ri ++ [rq]) (ri_deferred ri) (ri_cancelled ri))
    else
      let (avail, s) := demand_rule s inp in
      match iq_task rq with
      | None => s                                  (* dummy request *)
      | Some t =>
        (* record the dependency on the requesting task's rule *)
        let r := res_of s t in
        let s := set_res s t (mkRes (res_value r) (res_sig r) (res_computedAt r) (res_builtAt r)
                                    (res_deps r ++ [mkDep inp (iq_order rq) (iq_single rq)])) in
        if avail then upd_fininreq s (rq :: is_fininreq s)
        else match aget (is_tasks s) inp with
             | None => fault s FNoTask
             | Some ti => set_ti s inp (mkTI (ti_wait ti) (ti_reqby ti ++ [rq]) (ti_deferred ti) (ti_disc ti) (ti_slots ti) (ti_branched ti) (ti_pending ti))
             end
      end
  end.

(* decrementTaskWaitCount *)
Definition decrement_wait (s : istate) (t : key) : istate :=
  match aget (is_tasks s) t with
  | None => fault s FNoTask
  | Some ti =>
    match ti_wait ti with
    | O => fault s FWaitUnderflow
    | S n =>
      let s := set_ti s t (mkTI n (ti_reqby ti) (ti_deferred ti) (ti_disc ti) (ti_slots ti) (ti_branched ti) (ti_pending ti)) in
      if Nat.eqb n 0 then upd_ready s (is_ready s ++ [t]) else s
    end
  end.

(* one finishedInputRequests item *)
Definition step_fininreq (s : istate) : istate :=
  match is_fininreq s with
  | [] => s
  | rq :: rest =>
    let s := upd_fininreq s rest in
    match iq_task rq with
    | None => fault s FNoTask                   (* dummy requests never get here *)
    | Some t =>
      let s := if iq_order rq then s
               else provide_value s t (iq_slot rq) (iq_input rq) (res_value (res_of s (iq_input rq))) in
      decrement_wait s t
    end
  end.

(* one readyTaskInfos item *)
Definition step_ready (s : istate) : istate :=
  match is_ready s with
  | [] => s
  | t :: rest =>
    let s := upd_ready s rest in
    let s := if kind_eqb (kind_of s t) KWaiting then s else fault s FNotWaiting in
    let s := set_kind s t KComputing in
    let s := inputs_available s t in
    upd_outstanding s (S (is_outstanding s))
  end.

Fixpoint push_dummies (s : istate) (ds : list dep) : istate :=
  match ds with
  | [] => s
  | d :: ds' =>
    let s := touch s (d_key d) in
    push_dummies (upd_inreq s (is_inreq s ++ [mkIReq None 0%nat (d_key d) (d_order d) (d_single d)])) ds'
  end.

(* one finishedTaskInfos item *)
Definition step_fintask (s : istate) : istate :=
  match is_fintasks s with
  | [] => s
  | t :: rest =>
    let s := upd_fintasks s rest in
    match aget (is_tasks s) t with
    | None => fault s FNoTask
    | Some ti =>
      let s := if kind_eqb (kind_of s t) KComputing then s else fault s FNotComputing in
      let s := set_complete s t in
      let r := res_of s t in
      let s := set_res s t (mkRes (res_value r) (res_sig r) (res_computedAt r) (res_builtAt r) (res_deps r ++ ti_disc ti)) in
      let s := push_dummies s (ti_disc ti) in
      let s := if is_usedb s then upd_db s (update (is_db s) t (res_of s t)) else s in
      let s := upd_toscan s (rev (ti_deferred ti) ++ is_toscan s) in
      let s := upd_fininreq s (rev (ti_reqby ti) ++ is_fininreq s) in
      let s := upd_outstanding s (pred (is_outstanding s)) in
      upd_tasks s (adel (is_tasks s) t)
    end
  end.

(* ---------- queue loops ---------- *)
Section Drain.
  Variable step : istate -> istate.
  Variable nonempty : istate -> bool.
  Fixpoint drain (fuel : nat) (s : istate) : istate :=
    match fuel with
    | O => if nonempty s then fault s FFuel else s
    | S f => if nonempty s then drain f (step s) else s
    end.
End Drain.
Definition nonnil {A} (l : list A) : bool := match l with [] => false | _ :: _ => true end.

(* ---------- one iteration of the while(true) loop of executeTasks ---------- *)
Inductive status :=
| StWork        (* didWork: go round again *)
| StWait        (* no work but tasks are computing: the engine blocks until a task reports completion *)
| StStall       (* no work, nothing computing, tasks exist or the root is still scanning: resolveCycle *)
| StDone.       (* no work and nothing left: executeTasks returns true *)

Definition has_work (s : istate) : bool :=
  nonnil (is_toscan s) || nonnil (is_inreq s) || nonnil (is_fininreq s) || nonnil (is_ready s) || nonnil (is_fintasks s).

(* [comps]: the tasks whose complete() arrives before this iteration looks at its queues (from other threads while the
   engine was blocked, or at the top of the iteration) *)
Definition loop_iteration (fuel : nat) (root : key) (s : istate) (comps : list key) : istate * status :=
  let s0 := fold_left task_finish comps s in
  let s1 := drain step_scan (fun s => nonnil (is_toscan s)) fuel s0 in
  let s2 := drain step_inreq (fun s => nonnil (is_inreq s)) fuel s1 in
  let s3 := drain step_fininreq (fun s => nonnil (is_fininreq s)) fuel s2 in
  let s4 := drain step_ready (fun s => nonnil (is_ready s)) fuel s3 in
  let s5 := drain step_fintask (fun s => nonnil (is_fintasks s)) fuel s4 in
  (* didWork: some loop body ran *)
  let did := nonnil (is_toscan s0) || nonnil (is_inreq s1) || nonnil (is_fininreq s2) || nonnil (is_ready s3) || nonnil (is_fintasks s4) in
  if did then (s5, StWork)
  else if negb (Nat.eqb (is_outstanding s5) 0) then (s5, StWait)
  else if nonnil (is_tasks s5) || kind_eqb (kind_of s5 root) KScanning then (s5, StStall)
  else (s5, StDone).

(* ---------- findCycle's successorGraph ((a, b): b waits on a) ---------- *)
Definition req_task_key (rq : ireq) : list key := match iq_task rq with Some t => [t] | None => [] end.
Definition task_edges (e : key * tinfo) : list (key * key) :=
  map (fun rq => (fst e, rq)) (flat_map req_task_key (ti_reqby (snd e)))
  ++ map (fun rq => (fst e, sq_rule rq)) (ti_deferred (snd e)).
Definition scan_edges (e : key * rinfo) : list (key * key) :=
  match ri_kind (snd e) with
  | KScanning =>
    flat_map (fun rq => map (fun t => (iq_input rq, t)) (req_task_key rq)) (ri_paused (snd e))
    ++ map (fun rq => (match sq_input rq with Some i => i | None => fst e end, sq_rule rq)) (ri_deferred (snd e))
  | _ => []
  end.
Definition wait_graph (s : istate) : list (key * key) :=
  flat_map task_edges (is_tasks s) ++ flat_map scan_edges (is_rules s).

(* ---------- cancelRemainingTasks (reached here with numOutstandingUnfinishedTasks = 0) ---------- *)
Definition cancel_rule (tasks : list (key * tinfo)) (e : key * rinfo) : key * rinfo :=
  let ri := snd e in
  match aget tasks (fst e) with
  | Some _ => (fst e, mkRI KIncomplete (ri_res ri) (ri_paused ri) (ri_deferred ri) true)
  | None => match ri_kind ri with
            | KScanning => (fst e, mkRI KIncomplete (ri_res ri) (ri_paused ri) (ri_deferred ri) (ri_cancelled ri))
            | _ => e
            end
  end.
Definition cancel_remaining (s : istate) : istate :=
  mkIS (map (cancel_rule (is_tasks s)) (is_rules s)) [] [] [] [] [] [] (is_outstanding s)
       (is_epoch s) (is_usedb s) (is_db s) (is_db_epoch s) (is_fault s) (is_log s).

(* ---------- executeTasks ---------- *)
Inductive run_result :=
| RDone (s : istate)                                               (* executeTasks returned true *)
| RCycle (s : istate) (g : list (key * key)) (c : FindCycle.fc_result)   (* stalled: successor graph, findCycle's answer; s after cancelRemainingTasks *)
| RBlocked (s : istate)                                            (* the engine waits for a completion the schedule never delivers *)
| ROutOfFuel (s : istate).

Definition fc_linear_fuel (g : list (key * key)) : nat := (2 * length g + 3)%nat.

(* One element of a schedule: the tasks whose complete() arrives at the top of the iteration (hook point 0), and the tasks
   whose complete() arrives while the engine is blocked at the end of that iteration (only used if it blocks).
   [marks] (ghost): per iteration the log length at its top, the log length after its queue loops, and its status. *)
Definition sched_item := (list key * list key)%type.
Definition mark := (nat * nat * status)%type.

Fixpoint run_loop (fuel : nat) (pfuel : nat) (root : key) (s : istate) (sched : list sched_item) (marks : list mark)
  : run_result * list mark :=
  match fuel with
  | O => (ROutOfFuel s, rev marks)
  | S f =>
    let top := match sched with [] => [] | c :: _ => fst c end in
    let blk := match sched with [] => [] | c :: _ => snd c end in
    let sched' := match sched with [] => [] | _ :: t => t end in
    match loop_iteration pfuel root s top with
    | (s', st) =>
      let marks := (length (is_log s), length (is_log s'), st) :: marks in
      match st with
      | StWork => run_loop f pfuel root s' sched' marks
      | StWait =>
        let s'' := fold_left task_finish blk s' in
        if negb (nonnil (is_fintasks s'')) && negb (nonnil sched') then (RBlocked s'', rev marks)
        else run_loop f pfuel root s'' sched' marks
      | StStall =>
        let g := wait_graph s' in
        let c := FindCycle.findcycle_names g root (fc_linear_fuel g) in
        let s'' := match c with FindCycle.FcDone p => iemit s' (ECycleReported p) | FindCycle.FcOutOfFuel => s' end in
        (RCycle (cancel_remaining s'') g c, rev marks)
      | StDone => (RDone s', rev marks)
      end
    end
  end.

(* executeTasks: the dummy input request for the key to build, then the loop *)
Definition run_build (fuel pfuel : nat) (root : key) (s : istate) (sched : list sched_item) : run_result * list mark :=
  let s := upd_fininreq s [] in
  let s := touch s root in
  let s := upd_inreq s (is_inreq s ++ [mkIReq None 0%nat root false false]) in
  run_loop fuel pfuel root s sched [].

(* BuildEngine::build: ++currentEpoch, executeTasks, setCurrentIteration *)
Definition bump (s : istate) : istate :=
  mkIS (is_rules s) (is_tasks s) (is_toscan s) (is_inreq s) (is_fininreq s) (is_ready s) (is_fintasks s) (is_outstanding s)
       (is_epoch s + 1) (is_usedb s) (is_db s) (is_db_epoch s) (is_fault s) (is_log s).
Definition commit (s : istate) : istate :=
  mkIS (is_rules s) (is_tasks s) (is_toscan s) (is_inreq s) (is_fininreq s) (is_ready s) (is_fintasks s) (is_outstanding s)
       (is_epoch s) (is_usedb s) (is_db s) (if is_usedb s then is_epoch s else is_db_epoch s) (is_fault s) (is_log s).

Definition final_state (r : run_result) : istate :=
  match r with RDone s | RCycle s _ _ | RBlocked s | ROutOfFuel s => s end.

Definition ibuild (fuel pfuel : nat) (s : istate) (root : key) (sched : list sched_item) : run_result * list mark :=
  let s0 := iemit (bump s) (EBuildStart root) in
  match run_build fuel pfuel root s0 sched with
  | (RDone s1, m) => (RDone (iemit (commit s1) (EResult (res_value (res_of s1 root)) false)), m)
  | (RCycle s1 g c, m) => (RCycle (iemit (commit s1) (EResult None true)) g c, m)
  | (other, m) => (other, m)
  end.

(* dumpGraphToFile looks up (and thereby loads) every dependency of every rule it prints *)
Definition dump_touch (s : istate) : istate :=
  fold_left (fun s e => fold_left (fun s d => touch s (d_key d)) (res_deps (ri_res (snd e))) s) (is_rules s) s.

End Impl.

(* a new engine instance: over the same database (epoch = stored iteration) or without one *)
Definition irestart (usedb : bool) (s : istate) : istate :=
  if usedb then mkIS [] [] [] [] [] [] [] 0 (is_db_epoch s) true (is_db s) (is_db_epoch s) (is_fault s) (ERestart :: is_log s)
  else mkIS [] [] [] [] [] [] [] 0 0 false [] 0 (is_fault s) (ERestart :: is_log s).
