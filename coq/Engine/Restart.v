(* C03 - database transparency over the specification engine: the relation between a long-lived engine and an
   engine restarted from the same database.  Definitions only (proofs: RestartProofs.v).

   What differs between the memory of a long-lived engine and the database (Spec.v):
   * a rule found up to date by a scan gets builtAt := current epoch IN MEMORY ONLY (the database keeps the epoch
     of its last execution), so memory builtAt >= database builtAt;
   * scanning a rule drops its single-use dependencies in memory; the database keeps them until the rule reruns.
   Neither is observable, because (a) single-use entries are dropped again on the first scan after a restart, and
   (b) no recorded dependency was computed in the gap between the two builtAt values ([no_gap]). *)
From LLB Require Import Engine.Rules Engine.Spec Engine.Exec Engine.SpecOnceFrame.
Local Open Scope N_scope.

Definition bA (m : alist) (k : key) : N := res_builtAt (get m k).
Definition cA (m : alist) (k : key) : N := res_computedAt (get m k).

(* r1: the long-lived side, r2: the restarted side (or the database row) *)
Definition rel (r1 r2 : result) : Prop :=
  res_value r1 = res_value r2 /\ res_sig r1 = res_sig r2 /\ res_computedAt r1 = res_computedAt r2 /\
  drop_single (res_deps r1) = drop_single (res_deps r2) /\
  res_builtAt r2 <= res_builtAt r1 /\ (res_builtAt r2 = 0 -> res_builtAt r1 = 0).

(* no recorded (non-single-use) non-order-only dependency d of k has computedAt d in (builtAt2 k, builtAt1 k] *)
Definition no_gap (m1 m2 : alist) : Prop :=
  forall k d, In d (drop_single (res_deps (get m1 k))) -> d_order d = false ->
    ~ (bA m2 k < cA m1 (d_key d) /\ cA m1 (d_key d) <= bA m1 k).

Definition mem_rel (m1 m2 : alist) : Prop := (forall k, rel (get m1 k) (get m2 k)) /\ no_gap m1 m2.

(* the simulation relation at build boundaries *)
Definition R (s1 s2 : state) : Prop :=
  st_db s1 = st_db s2 /\ st_db_epoch s1 = st_db_epoch s2 /\ st_epoch s1 = st_epoch s2 /\
  st_flag s1 = [] /\ st_flag s2 = [] /\ mem_rel (st_mem s1) (st_mem s2) /\
  (forall k, bA (st_mem s1) k <= st_epoch s1).

(* ... and inside a build: additionally the two sides have completed the same rules in the current epoch *)
Definition Rb (s1 s2 : state) : Prop := R s1 s2 /\ (forall k, done s1 k -> done s2 k).

(* the same new events on both sides *)
Definition samelog (s1 s2 a b : state) : Prop :=
  exists l, st_log a = l ++ st_log s1 /\ st_log b = l ++ st_log s2.

Definition osim (s1 s2 : state) (o1 o2 : outcome) : Prop :=
  match o1, o2 with
  | Ok a, Ok b => Rb a b /\ samelog s1 s2 a b
  | Cycle a p, Cycle b q => p = q /\ Rb a b /\ samelog s1 s2 a b
  | OutOfFuel, OutOfFuel => True
  | _, _ => False
  end.

(* the same, for build (relation R at both ends) *)
Definition osimR (s1 s2 : state) (o1 o2 : outcome) : Prop :=
  match o1, o2 with
  | Ok a, Ok b => R a b /\ samelog s1 s2 a b
  | Cycle a p, Cycle b q => p = q /\ R a b /\ samelog s1 s2 a b
  | OutOfFuel, OutOfFuel => True
  | _, _ => False
  end.

(* database consistency of ONE engine at a build boundary: the rows equal the memory results except possibly a
   larger memory builtAt and dropped single-use entries, with no gap; the stored iteration is the epoch *)
Definition DbOk (s : state) : Prop :=
  st_epoch s = st_db_epoch s /\ st_flag s = [] /\ mem_rel (st_mem s) (st_db s) /\
  (forall k, bA (st_mem s) k <= st_epoch s).

(* ... and inside a build: a rule completed by a scan only (memory builtAt = epoch, row older) has all its
   recorded dependencies complete *)
Definition scanned_deps_done (s : state) : Prop :=
  forall k d, done s k -> bA (st_db s) k <> st_epoch s ->
    In d (drop_single (res_deps (get (st_mem s) k))) -> done s (d_key d).

Definition DbIn (s : state) : Prop :=
  st_flag s = [] /\ mem_rel (st_mem s) (st_db s) /\ (forall k, bA (st_mem s) k <= st_epoch s) /\
  scanned_deps_done s.

Definition oinv (P : state -> Prop) (o : outcome) : Prop :=
  match o with Ok a => P a | Cycle a _ => P a | OutOfFuel => True end.

(* ---------- histories ---------- *)

(* ops' is ops with extra [ORestart true] operations inserted at arbitrary positions at which no rule edit is
   pending (flag = an ORule happened since the last restart).  The restriction is necessary: in Exec.hstep a new
   engine instance is also what makes pending rule edits visible, so a restart inserted between an ORule and the
   next build changes the rule table that build sees (RestartProofs.restart_with_pending_edit_refuted). *)
Inductive ins : bool -> list op -> list op -> Prop :=
| ins_nil : forall d, ins d [] []
| ins_add : forall l l', ins false l l' -> ins false l (ORestart true :: l')
| ins_set : forall d k n l l', ins d l l' -> ins d (OSet k n :: l) (OSet k n :: l')
| ins_rule : forall d k r l l', ins true l l' -> ins d (ORule k r :: l) (ORule k r :: l')
| ins_restart : forall d db l l', ins false l l' -> ins d (ORestart db :: l) (ORestart db :: l')
| ins_build : forall d k l l', ins d l l' -> ins d (OBuild k :: l) (OBuild k :: l').

Definition not_restart (e : event) : bool := match e with ERestart => false | _ => true end.

(* everything observed other than the restart markers, oldest first *)
Definition observed (h : hstate) : list event := rev (filter not_restart (st_log (h_st h))).

(* the invariant relating the two histories *)
Definition Hrel (dirty : bool) (a b : hstate) : Prop :=
  R (h_st a) (h_st b) /\ DbOk (h_st a) /\
  h_env a = h_env b /\ h_rules a = h_rules b /\ h_pending a = h_pending b /\
  (dirty = false -> h_pending a = h_rules a) /\
  filter not_restart (st_log (h_st a)) = filter not_restart (st_log (h_st b)).
