(* C02, part 9: two more facts about one call, needed across a restart.
   (db)  the database row of a created rule equals its memory result once the task completed, and is untouched before;
   (vq)  a rule that was validated (brought up to date without running) had been built before, and none of its recorded
         dependencies, once up to date, was computed after it was built. *)
From LLB Require Import Engine.Rules Engine.Spec Engine.SpecOnceFrame Engine.SpecOnce1 Engine.SpecOnce2 Engine.SpecOnce3.
From Coq Require Import List NArith Bool Lia Arith.
Local Open Scope N_scope.

Definition db_l (ok : bool) (s s' : state) (l : list event) : Prop :=
  forall x, In x (creates l) ->
    (get (st_db s') x = get (st_mem s') x /\ done s' x)
    \/ (ok = false /\ get (st_db s') x = get (st_db s) x /\ get (st_mem s') x = clean (get (st_mem s) x)).

Definition db_o (s : state) (o : outcome) : Prop :=
  match o with
  | Ok s' => db_l true s s' (new_log s s')
  | Cycle s' _ => db_l false s s' (new_log s s')
  | OutOfFuel => True
  end.

Definition vq_l (s s' : state) (l : list event) : Prop :=
  forall x, ~ In x (creates l) -> ~ done s x ->
    get (st_mem s') x = validated (st_epoch s) (get (st_mem s) x) ->
    res_builtAt (get (st_mem s) x) <> 0 /\
    forall d, In d (drop_single (res_deps (get (st_mem s) x))) -> dep_quiet s' (get (st_mem s) x) d.

Definition vq_o (s : state) (o : outcome) : Prop := forall s', ostate o = Some s' -> vq_l s s' (new_log s s').

Lemma db_compose : forall st s s1 s2 ok l1 l2,
  frame_st st s s1 true l1 -> db_l true s s1 l1 -> frame_st st s1 s2 ok l2 -> db_l ok s1 s2 l2 ->
  db_l ok s s2 (l2 ++ l1).
Proof.
  intros st s s1 s2 ok l1 l2 A DA B DB x Hx. rewrite creates_app, in_app_iff in Hx. destruct Hx as [Hx|Hx].
  - destruct (fr_fresh _ _ _ _ _ B x Hx) as [Nd _].
    assert (N1 : ~ In x (creates l1)) by (intros C; apply Nd; exact (fr_done _ _ _ _ _ A eq_refl x C)).
    destruct (DB x Hx) as [Q|(Q1 & Q2 & Q3)]; [now left | right].
    split; [exact Q1|]. split; [rewrite Q2; exact (fr_db_keep _ _ _ _ _ A x N1)|].
    destruct (fr_touch _ _ _ _ _ A eq_refl x) as [E|[_ D]]; [now rewrite Q3, E | contradiction].
  - destruct (DA x Hx) as [[Q1 Q2]|(Q & _)]; [|discriminate]. left.
    assert (N2 : ~ In x (creates l2)) by (intros C; destruct (fr_fresh _ _ _ _ _ B x C) as [P _]; contradiction).
    rewrite (fr_db_keep _ _ _ _ _ B x N2), (fr_frozen _ _ _ _ _ B x Q2). split; [exact Q1|].
    eapply frame_done_mono; eassumption.
Qed.

Lemma vq_compose : forall st s s1 s2 ok l1 l2,
  frame_st st s s1 true l1 -> vq_l s s1 l1 -> frame_st st s1 s2 ok l2 -> vq_l s1 s2 l2 ->
  vq_l s s2 (l2 ++ l1).
Proof.
  intros st s s1 s2 ok l1 l2 A VA B VB x Hx Hnd Hv. rewrite creates_app, in_app_iff in Hx.
  destruct (fr_touch _ _ _ _ _ A eq_refl x) as [E|[_ D1]].
  - assert (Hnd1 : ~ done s1 x) by (unfold done in *; now rewrite E, (fr_epoch _ _ _ _ _ A)).
    rewrite <- E, <- (fr_epoch _ _ _ _ _ A) in Hv. rewrite <- E. apply VB; tauto.
  - rewrite (fr_frozen _ _ _ _ _ B x D1) in Hv. destruct (VA x) as [V1 V2]; [tauto | exact Hnd | exact Hv|].
    split; [exact V1|]. intros d Hd. eapply dep_quiet_post; [eapply frame_keeps_done; exact B | now apply V2].
Qed.

Section Step.
Variable rules : key -> rule.
Variable env : key -> N.
Variable F : key -> N -> list value -> list N -> N -> N.
Variable order : N -> key -> list dep -> list dep.
Variable ens : list key -> state -> key -> outcome.
Hypothesis Hens : forall stack s k, frame stack s k (ens stack s k).
Hypothesis Hdb : forall stack s k, db_o s (ens stack s k).
Hypothesis Hvq : forall stack s k, vq_o s (ens stack s k).

Lemma db_same : forall ok s s' l, creates l = [] -> db_l ok s s' l.
Proof. intros ok s s' l C x Hx. rewrite C in Hx. destruct Hx. Qed.

Lemma vq_same : forall s s' l, st_mem s' = st_mem s -> st_epoch s' = st_epoch s -> vq_l s s' l.
Proof.
  intros s s' l M E x _ Hnd Hv. exfalso. apply Hnd. rewrite M in Hv. unfold done. rewrite Hv. reflexivity.
Qed.

Lemma db_o_trans : forall st s s1 l1 o, frame_st st s s1 true l1 -> db_l true s s1 l1 ->
  frame_o st s1 o -> db_o s1 o -> db_o s o.
Proof.
  intros st s s1 l1 o A DA B DB. destruct o as [s2|s2 p|]; cbn [frame_o db_o] in *; [| |exact I];
    rewrite (new_log_trans s s1 s2 _ _ (fr_log _ _ _ _ _ A) (fr_log _ _ _ _ _ B)); eapply db_compose; eassumption.
Qed.

Lemma vq_o_trans : forall st s s1 l1 o, frame_st st s s1 true l1 -> vq_l s s1 l1 ->
  frame_o st s1 o -> vq_o s1 o -> vq_o s o.
Proof.
  intros st s s1 l1 o A VA B VB s' E. pose proof (frame_o_st _ _ _ _ B E) as B'.
  rewrite (new_log_trans s s1 s' _ _ (fr_log _ _ _ _ _ A) (fr_log _ _ _ _ _ B')).
  eapply vq_compose; [exact A | exact VA | exact B' | now apply VB].
Qed.

Lemma seg_db_vq : forall st ks s o, seg ens st ks s o -> db_o s o /\ vq_o s o.
Proof.
  intros st ks s o H. induction H as [s|ks s e o Hp H IH|ks s x s1 o Hc H IH|ks s x o Hc Hn].
  - split.
    + cbn [db_o]. rewrite new_log_refl. now apply db_same.
    + intros s' E. inversion E. subst. rewrite new_log_refl. now apply vq_same.
  - destruct (seg_frame ens Hens _ _ _ _ H) as [A _]. destruct IH as [IH1 IH2].
    assert (He : creates [e] = []) by (destruct e; try reflexivity; destruct Hp).
    split.
    + eapply db_o_trans; [apply (frame_emit st s e true He) | now apply db_same | exact A | exact IH1].
    + eapply vq_o_trans; [apply (frame_emit st s e true He) | now apply vq_same | exact A | exact IH2].
  - destruct (seg_frame ens Hens _ _ _ _ H) as [A _]. destruct (Hens st s x) as [B _]. destruct IH as [IH1 IH2].
    pose proof (Hdb st s x) as DB. pose proof (Hvq st s x) as VB. rewrite Hc in B, DB, VB. cbn [frame_o db_o] in B, DB.
    split.
    + eapply db_o_trans; eassumption.
    + eapply vq_o_trans; [exact B | now apply VB | exact A | exact IH2].
  - rewrite <- Hc. split; [apply Hdb | apply Hvq].
Qed.

Lemma run_db_vq : forall k stack r s, ~ done s k -> ~ In k stack -> get (st_mem s) k = r -> clean r = r ->
  db_o s (run rules env F order ens k stack r s) /\ vq_o s (run rules env F order ens k stack r s).
Proof.
  intros k stack r s Hnd Hns Hr Hclean.
  destruct (run_cases rules env F order ens k stack r s _ eq_refl)
    as [(s4 & slots1 & slots3 & GA & GB) | (Hno & ks & GA)];
    set (o := run rules env F order ens k stack r s) in *; clearbody o.
  - destruct (seg_frame ens Hens _ _ _ _ GA) as [A _]. destruct (seg_frame ens Hens _ _ _ _ GB) as [B _].
    destruct (seg_db_vq _ _ _ _ GA) as [DA VA]. destruct (seg_db_vq _ _ _ _ GB) as [DB VB].
    cbn [frame_o db_o] in A, DA. specialize (VA s4 eq_refl).
    set (bk := branch_keys (rules k) slots1) in *. set (v := task_value rules env F k (rules k) slots1 slots3) in *.
    set (s6 := complete order (emit s4 (EAvail k)) k (rules k) r bk v) in *.
    set (s0 := run_pre rules k r s) in *.
    destruct (run_frame_main rules env F order k stack r s s4 _ bk v Hnd Hns A s6 true [] (frame_refl _ _ _)) as [M _].
    cbn [app] in M.
    assert (H6other : forall x, x <> k -> get (st_mem s6) x = get (st_mem s4) x)
      by (intros x Hx; unfold s6; now rewrite complete_mem_other).
    assert (Hnd4 : ~ done s4 k).
    { unfold done. rewrite (fr_stack _ _ _ _ _ A k) by now left. rewrite (fr_epoch _ _ _ _ _ A).
      unfold s0. now rewrite run_pre_mem, run_pre_epoch. }
    assert (K46 : keeps_done s4 s6).
    { intros y Hy. assert (y <> k) by (intros ->; contradiction). split; [|now apply H6other].
      unfold done in *. now rewrite H6other. }
    assert (Hcr : forall x, In x (creates (EComplete k v :: EAvail k :: new_log s0 s4 ++ run_pre_log rules k r))
                         <-> In x (creates (new_log s0 s4)) \/ x = k).
    { intros x. cbn [creates]. rewrite creates_app, run_pre_creates, in_app_iff. cbn [In]. intuition. }
    split.
    + eapply db_o_trans; [exact M | | eapply frame_o_weaken_stack; exact B | exact DB].
      intros x Hx. apply Hcr in Hx. left. destruct (N.eq_dec x k) as [->|Hxk].
      * split; [|unfold done, s6; now rewrite complete_mem_same].
        unfold s6, complete. cbn [set_db set_mem st_db st_mem unflag emit]. now rewrite !get_update_same.
      * destruct Hx as [Hx|Hx]; [|contradiction]. destruct (DA x Hx) as [[Q1 Q2]|(Q & _)]; [|discriminate].
        unfold s6 at 1. rewrite complete_db_other by exact Hxk. cbn [emit st_db]. rewrite H6other by exact Hxk.
        split; [exact Q1 | now apply K46].
    + eapply vq_o_trans; [exact M | | eapply frame_o_weaken_stack; exact B | exact VB].
      intros x Hx Hndx Hv. assert (Hxk : x <> k) by (intros ->; apply Hx, Hcr; now right).
      rewrite H6other in Hv by exact Hxk.
      destruct (VA x) as [V1 V2].
      * intros C. apply Hx, Hcr. now left.
      * unfold done, s0. now rewrite run_pre_mem, run_pre_epoch.
      * unfold s0. now rewrite run_pre_mem, run_pre_epoch.
      * unfold s0 in V1, V2. rewrite run_pre_mem in V1, V2. split; [exact V1|].
        intros d Hd. eapply dep_quiet_post; [exact K46 | now apply V2].
  - destruct (seg_frame ens Hens _ _ _ _ GA) as [A _]. destruct (seg_db_vq _ _ _ _ GA) as [DA VA].
    destruct o as [s'|s' p|]; [exfalso; now apply (Hno s') | | split; [exact I | intros ? ?; discriminate]].
    cbn [frame_o db_o] in A, DA. specialize (VA s' eq_refl).
    assert (L : new_log s s' = new_log (run_pre rules k r s) s' ++ run_pre_log rules k r)
      by (eapply new_log_trans; [apply run_pre_log_eq | exact (fr_log _ _ _ _ _ A)]).
    split.
    + cbn [db_o]. rewrite L. intros x Hx. rewrite creates_app, run_pre_creates, in_app_iff in Hx.
      destruct Hx as [Hx|[<-|[]]].
      * destruct (DA x Hx) as [Q|(Q1 & Q2 & Q3)]; [now left | right].
        rewrite run_pre_db, run_pre_mem in *. now repeat split.
      * right. split; [reflexivity|].
        assert (Nk : ~ In k (creates (new_log (run_pre rules k r s) s')))
          by (intros C; destruct (fr_fresh _ _ _ _ _ A k C) as [_ Q]; apply Q; now left).
        rewrite (fr_db_keep _ _ _ _ _ A k Nk), run_pre_db. split; [reflexivity|].
        rewrite (fr_stack _ _ _ _ _ A k) by now left. rewrite run_pre_mem, Hr. now rewrite Hclean.
    + intros s'' E. inversion E. subst s''. rewrite L. intros x Hx Hndx Hv.
      rewrite creates_app, in_app_iff in Hx.
      destruct (VA x) as [V1 V2]; [tauto | now (unfold done; rewrite run_pre_mem, run_pre_epoch) | now rewrite run_pre_mem, run_pre_epoch |].
      rewrite run_pre_mem in V1, V2. now split.
Qed.

Lemma scan_db_vq : forall k stack r ds pre sA s lacc, res_deps r = pre ++ ds ->
  ~ done sA k -> ~ In k stack -> get (st_mem sA) k = r -> clean r = r -> res_builtAt r <> 0 ->
  frame_st (k :: stack) sA s true lacc -> db_l true sA s lacc -> vq_l sA s lacc ->
  (forall d', In d' pre -> dep_quiet s r d') ->
  db_o sA (scan rules env F order ens k stack r ds s) /\ vq_o sA (scan rules env F order ens k stack r ds s).
Proof.
  intros k stack r ds. induction ds as [|d ds IH]; intros pre sA s lacc Hdeps HndA Hns Hr Hclean Hb A DA VA Hq; cbn [scan].
  - set (r' := mkRes _ _ _ _ _).
    assert (L : new_log sA (set_mem s k r') = lacc) by (apply new_log_intro; exact (fr_log _ _ _ _ _ A)).
    assert (Hndk : ~ done s k).
    { unfold done. rewrite (fr_stack _ _ _ _ _ A k) by now left. now rewrite (fr_epoch _ _ _ _ _ A). }
    assert (Hother : forall x, x <> k -> get (st_mem (set_mem s k r')) x = get (st_mem s) x)
      by (intros x Hx; cbn [set_mem st_mem]; now apply get_update_other).
    assert (K : keeps_done s (set_mem s k r')).
    { intros y Hy. assert (y <> k) by (intros ->; contradiction). split; [|now apply Hother].
      unfold done in *. now rewrite Hother. }
    split.
    + cbn [db_o]. rewrite L. intros x Hx.
      assert (Hxk : x <> k) by (intros ->; destruct (fr_fresh _ _ _ _ _ A k Hx) as [_ Q]; apply Q; now left).
      destruct (DA x Hx) as [[Q1 Q2]|(Q & _)]; [|discriminate]. left.
      cbn [set_mem st_db]. rewrite Hother by exact Hxk. split; [exact Q1 | now apply K].
    + intros s' E. inversion E. subst s'. rewrite L. intros x Hx Hndx Hv.
      destruct (N.eq_dec x k) as [->|Hxk].
      * rewrite Hr. split; [exact Hb|]. intros d Hd.
        assert (Hd' : In d pre).
        { rewrite <- (f_equal res_deps Hclean) in Hdeps. unfold clean in Hdeps. cbn [res_deps] in Hdeps.
          rewrite app_nil_r in Hdeps. now rewrite <- Hdeps. }
        eapply dep_quiet_post; [exact K | now apply Hq].
      * rewrite Hother in Hv by exact Hxk. destruct (VA x Hx Hndx Hv) as [V1 V2]. split; [exact V1|].
        intros d Hd. eapply dep_quiet_post; [exact K | now apply V2].
  - destruct (Hens (k :: stack) s (d_key d)) as [B D].
    pose proof (Hdb (k :: stack) s (d_key d)) as DB. pose proof (Hvq (k :: stack) s (d_key d)) as VB.
    destruct (ens (k :: stack) s (d_key d)) as [s1|s1 p|] eqn:Ec.
    + cbn [frame_o db_o] in B, DB. specialize (VB s1 eq_refl). specialize (D s1 eq_refl).
      pose proof (frame_trans _ _ _ _ _ _ _ A B) as AB.
      pose proof (db_compose _ _ _ _ _ _ _ A DA B DB) as DAB.
      pose proof (vq_compose _ _ _ _ _ _ _ A VA B VB) as VAB.
      assert (Hq1 : forall d', In d' pre -> dep_quiet s1 r d').
      { intros d' Hd'. eapply dep_quiet_post; [eapply frame_keeps_done; exact B | now apply Hq]. }
      destruct (negb (d_order d) && (res_builtAt r <? res_computedAt (get (st_mem s1) (d_key d)))) eqn:T.
      * set (s2 := emit s1 (ENeed k InputRebuilt (Some (d_key d)))).
        assert (Hnd2 : ~ done s2 k).
        { unfold done, s2. cbn [emit st_mem st_epoch]. rewrite (fr_stack _ _ _ _ _ AB k) by now left.
          now rewrite (fr_epoch _ _ _ _ _ AB). }
        assert (Hr2 : get (st_mem s2) k = r).
        { unfold s2. cbn [emit st_mem]. rewrite (fr_stack _ _ _ _ _ AB k) by now left. exact Hr. }
        destruct (run_frame rules env F order ens Hens k stack r s2 Hnd2 Hns) as [C _].
        destruct (run_db_vq k stack r s2 Hnd2 Hns Hr2 Hclean) as [DC VC].
        assert (C2 : frame_o stack s1 (run rules env F order ens k stack r s2))
          by (eapply frame_o_trans; [|exact C]; now apply frame_emit).
        split.
        -- eapply db_o_trans; [eapply frame_weaken_stack; exact AB | exact DAB | exact C2 |].
           eapply db_o_trans; [apply (frame_emit stack s1 (ENeed k InputRebuilt (Some (d_key d))) true eq_refl)
                              | now apply db_same | exact C | exact DC].
        -- eapply vq_o_trans; [eapply frame_weaken_stack; exact AB | exact VAB | exact C2 |].
           eapply vq_o_trans; [apply (frame_emit stack s1 (ENeed k InputRebuilt (Some (d_key d))) true eq_refl)
                              | now apply vq_same | exact C | exact VC].
      * eapply (IH (pre ++ [d])); try eassumption.
        -- rewrite <- app_assoc. exact Hdeps.
        -- intros d' Hd'. apply in_app_iff in Hd'. destruct Hd' as [Hd'|[<-|[]]]; [now apply Hq1|].
           split; [exact D|]. apply andb_false_iff in T. destruct T as [T|T].
           ++ left. now apply negb_false_iff in T.
           ++ right. now apply N.ltb_ge in T.
    + cbn [frame_o db_o] in B, DB. specialize (VB s1 eq_refl). split.
      * cbn [db_o]. rewrite (new_log_trans sA s s1 _ _ (fr_log _ _ _ _ _ A) (fr_log _ _ _ _ _ B)).
        eapply db_compose; eassumption.
      * intros s' E. inversion E. subst s'.
        rewrite (new_log_trans sA s s1 _ _ (fr_log _ _ _ _ _ A) (fr_log _ _ _ _ _ B)).
        eapply vq_compose; eassumption.
    + split; [exact I | intros ? ?; discriminate].
Qed.

Lemma ensure_body_db_vq : forall stack s k,
  db_o s (ensure_body rules env F order ens stack s k) /\ vq_o s (ensure_body rules env F order ens stack s k).
Proof.
  intros stack s k. unfold ensure_body.
  destruct (existsb (N.eqb k) stack) eqn:Est.
  { split; [cbn [db_o]; rewrite new_log_refl; now apply db_same|].
    intros s' E. inversion E. subst. rewrite new_log_refl. now apply vq_same. }
  assert (Hns : ~ In k stack).
  { intros C. assert (existsb (N.eqb k) stack = true); [|congruence].
    apply existsb_exists. exists k. split; [exact C | apply N.eqb_refl]. }
  destruct (N.eqb (res_builtAt (get (st_mem s) k)) (st_epoch s)) eqn:Ed.
  { split; [cbn [db_o]; rewrite new_log_refl; now apply db_same|].
    intros s' E. inversion E. subst. rewrite new_log_refl. now apply vq_same. }
  assert (Hnd : ~ done s k) by (now apply N.eqb_neq in Ed).
  set (r0 := get (st_mem s) k) in *. fold (clean r0). set (r := clean r0). set (s1 := set_mem s k r).
  assert (Hnd1 : ~ done s1 k) by (unfold done, s1; cbn [set_mem st_mem st_epoch]; now rewrite get_update_same).
  assert (Hother : forall x, x <> k -> get (st_mem s1) x = get (st_mem s) x)
    by (intros x Hx; unfold s1; cbn [set_mem st_mem]; now apply get_update_other).
  assert (Hk1 : get (st_mem s1) k = r) by (unfold s1; cbn [set_mem st_mem]; now rewrite get_update_same).
  assert (Hcl : clean r = r) by apply clean_idem.
  assert (Hdone1 : forall x, done s1 x <-> done s x).
  { intros x. unfold done. destruct (N.eq_dec x k) as [->|Hx]; [rewrite Hk1; unfold r, clean; cbn; tauto | rewrite Hother by exact Hx; tauto]. }
  assert (G : forall Q s2 o, st_log s2 = Q ++ st_log s -> creates Q = [] -> st_mem s2 = st_mem s1 ->
            st_epoch s2 = st_epoch s -> st_db s2 = st_db s -> frame_o stack s2 o ->
            db_o s2 o /\ vq_o s2 o -> db_o s o /\ vq_o s o).
  { intros Q s2 o L2 CQ M2 E2 D2 C [DC VC].
    assert (W : forall ok s', frame_st stack s2 s' ok (new_log s2 s') ->
              (db_l ok s2 s' (new_log s2 s') -> db_l ok s s' (new_log s s')) /\
              (vq_l s2 s' (new_log s2 s') -> vq_l s s' (new_log s s'))).
    { intros ok s' C'. rewrite (new_log_trans s s2 s' Q _ L2 (fr_log _ _ _ _ _ C')). split.
      - intros DD x Hx. rewrite creates_app, CQ, app_nil_r in Hx.
        destruct (DD x Hx) as [Q1|(Q1 & Q2 & Q3)]; [now left | right]. split; [exact Q1|].
        rewrite D2 in Q2. split; [exact Q2|]. rewrite M2 in Q3.
        destruct (N.eq_dec x k) as [->|Hxk]; [rewrite Q3, Hk1; apply clean_idem | now rewrite Q3, Hother].
      - intros VV x Hx Hndx Hv. rewrite creates_app, CQ, app_nil_r in Hx.
        assert (Hnd2 : ~ done s2 x) by (unfold done; rewrite M2, E2; intros C2; now apply Hndx, Hdone1).
        destruct (N.eq_dec x k) as [->|Hxk].
        + fold r0 in Hv |- *. rewrite <- validated_clean in Hv. fold r in Hv.
          destruct (VV k Hx Hnd2) as [V1 V2]; [rewrite M2, E2, Hk1; exact Hv|].
          rewrite M2, Hk1 in V1, V2. split; [exact V1|].
          intros d Hd. apply (V2 d). unfold r, clean. cbn [res_deps]. now rewrite drop_single_idem.
        + destruct (VV x Hx Hnd2) as [V1 V2]; [rewrite M2, E2, Hother by exact Hxk; exact Hv|].
          rewrite M2, Hother in V1, V2 by exact Hxk. now split. }
    destruct o as [s'|s' p|]; cbn [frame_o db_o] in *.
    - destruct (W true s' C) as [W1 W2]. split; [now apply W1|]. intros s'' E. inversion E. subst s''. apply W2. now apply VC.
    - destruct (W false s' C) as [W1 W2]. split; [now apply W1|]. intros s'' E. inversion E. subst s''. apply W2. now apply VC.
    - split; [exact I | intros ? ?; discriminate]. }
  assert (RUN : forall Q s2, st_log s2 = Q ++ st_log s -> creates Q = [] -> st_mem s2 = st_mem s1 ->
            st_epoch s2 = st_epoch s -> st_db s2 = st_db s ->
            db_o s (run rules env F order ens k stack r s2) /\ vq_o s (run rules env F order ens k stack r s2)).
  { intros Q s2 L2 CQ M2 E2 D2.
    assert (Hnd2 : ~ done s2 k) by (unfold done; rewrite M2, E2; exact Hnd1).
    eapply G; try eassumption.
    - now apply run_frame.
    - apply run_db_vq; try assumption. now rewrite M2. }
  change (res_builtAt r) with (res_builtAt r0). change (res_sig r) with (res_sig r0).
  destruct (N.eqb (res_builtAt r0) 0) eqn:E0.
  { apply (RUN [ENeed k NeverBuilt None]); reflexivity. }
  destruct (flagged s1 k).
  { apply (RUN [ENeed k Forced None]); reflexivity. }
  destruct (negb (N.eqb (r_sig (rules k)) (res_sig r0))).
  { apply (RUN [ENeed k SignatureChanged None]); reflexivity. }
  destruct (negb (valid rules env k r)).
  { apply (RUN [ENeed k InvalidValue None; EValid k false]); reflexivity. }
  apply N.eqb_neq in E0.
  eapply (G [EValid k true] (emit s1 (EValid k true))); try reflexivity.
  - apply scan_frame; assumption.
  - eapply (scan_db_vq k stack r (res_deps r) [] (emit s1 (EValid k true)) (emit s1 (EValid k true)) []);
      [reflexivity | exact Hnd1 | exact Hns | exact Hk1 | exact Hcl | exact E0 | apply frame_refl | now apply db_same | now apply vq_same | intros ? []].
Qed.

End Step.

Section Lift.
Variable rules : key -> rule.
Variable env : key -> N.
Variable F : key -> N -> list value -> list N -> N -> N.
Variable order : N -> key -> list dep -> list dep.

Theorem ensure_db_vq : forall fuel stack s k,
  db_o s (ensure rules env F order fuel stack s k) /\ vq_o s (ensure rules env F order fuel stack s k).
Proof.
  induction fuel as [|f IH]; intros stack s k; cbn [ensure].
  - split; [exact I | intros ? ?; discriminate].
  - apply ensure_body_db_vq; [apply ensure_frame | intros; apply IH | intros; apply IH].
Qed.

End Lift.
